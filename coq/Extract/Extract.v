(* Extract/Extract.v — extraction of the executable models to OCaml (ExtrOcamlBasic only:
   bool, option, unit, list, prod, sumbool map to OCaml's; N/Z/positive/nat/byte stay Coq
   datatypes).  Not part of _CoqProject: compiled by ./check in _build/extract. *)
From Coq Require Import extraction.Extraction ExtrOcamlBasic.
From RS Require Import Base.Bytes Base.Dec Base.Endian Spec.Crc16 Spec.Slot Spec.Crc64 Model.Slot Model.Digest Model.RespCodec Model.Filter Model.CmdFilter Gen.CmdTable Spec.RedisKeySpecs Model.Backlog Model.Pipe Model.Supervisor Model.Checkpoint Model.Lzf Model.Rdb Spec.RdbFormat Spec.RdbRecords Gen.Rdb Spec.Compact Model.Cupcake Model.Incr Model.Handoff Model.Offsets Model.Restore Model.Workers Model.Rump Proofs.RumpProofs Model.Decode.
Extraction Language OCaml.
Set Extraction KeepSingleton.
Extraction "model.ml"
  b2n n2b render parse_int
  crc16 slot_spec slot_spec_fast key_to_slot crc16_common crc16_latency chose_slot_in_range find_key_in_range latency_key
  le_enc le_dec be_enc be_dec
  digest_write digest_sum digest_writes cupcake_digest ext_digest rdb_footer_ok create_value_dump verify_dump
  check_version_checksum payload_fast
  encode dec dec_stream itos parse_int64
  filter_key filter_db filter_slot filter_command handle_filter_key get_match_keys get_match_keys_pinned cmd_table lookup_cmd redis_key_specs
  new_ring read_at write close data_range reader_valid mem_align file_align
  pinit pstep pb_buffered pb_available
  get_slot_state node_state
  load sender_write hset fetch
  lzf_decompress load_all next_entry header read_string read_length skip_value enc_body enc_unit enc_value enc_string enc_len
  logical_string records_of key_records meta0 hash_chunk_limit float_ok
  encode_dump decode_dump encode_file_objs enc_ziplist enc_intset enc_zipmap enc_zval enc_prev zval_logical is_nan nan_bits pinf_bits ninf_bits create_value_dump
  parse_all start_items survive sstep srun wire_group wire_groups pst0 sst0 kind_of ilen barrier
  handoff parse_reply wait_rdb copy_loop pipe_copy ostep ostep_pinned orun received
  restore restore_pinned norm payload_value elems_of target_key compare_version compare_version_pinned ttl_of is_big
  expected all_writes worker_writes delivered want_db path_full path_restore path_rump path_incr copied key_slot
  rump spec_rump big_apply
  b64_encode b64_decode lines_of recover.
