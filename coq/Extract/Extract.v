(* Extract/Extract.v — extraction of the executable models to OCaml (ExtrOcamlBasic only:
   bool, option, unit, list, prod, sumbool map to OCaml's; N/Z/positive/nat/byte stay Coq
   datatypes).  Not part of _CoqProject: compiled by ./check in _build/extract. *)
From Coq Require Import extraction.Extraction ExtrOcamlBasic.
From RS Require Import Base.Bytes Base.Dec Spec.Crc16 Spec.Slot Model.Slot.
Extraction Language OCaml.
Set Extraction KeepSingleton.
Extraction "model.ml"
  b2n n2b render parse_int
  crc16 slot_spec slot_spec_fast key_to_slot crc16_common crc16_latency chose_slot_in_range find_key_in_range latency_key.
