(* Proofs/CupcakeProofs.v — EncodeDump/DecodeDump round trip and the compact decoders (C12). *)
From RS Require Import Base.Bytes Base.Endian Base.Dec Model.RespCodec Model.Digest Model.Lzf Model.Rdb Gen.Crc64
  Spec.RdbFormat Spec.Compact Model.Cupcake Proofs.RespProofs Proofs.DigestProofs Proofs.RdbProofs.
From Coq Require Import ZifyN ZifyNat ZifyBool.
Ltac Zify.zify_post_hook ::= Z.div_mod_to_equations.
Open Scope N_scope.

(* ---------- lengths and strings of the encoder, read by the decoder ---------- *)
Lemma exact_cup_len l : l < 2 ^ 32 -> exact cup_read_len (cup_enc_len l) (l, false).
Proof.
  intros H r. unfold cup_enc_len, cup_read_len, bind.
  destruct (N.ltb_spec l 64) as [H1|H1]; [|destruct (N.ltb_spec l 16384) as [H2|H2]]; cbn [app byte1].
  - rewrite b2n_n2b_small by lia. replace (l / 64) with 0 by (symmetry; apply N.div_small; lia). cbn match. unfold ret.
    rewrite N.mod_small by lia. reflexivity.
  - rewrite b2n_n2b_small by lia. replace ((l / 256 + 64) / 64) with 1 by lia. cbn match. unfold bind. cbn [byte1]. unfold ret.
    rewrite b2n_n2b. do 2 f_equal. f_equal. lia.
  - rewrite b2n_n2b_small by lia. change (128 / 64) with 2. cbn match. change (128 =? 129) with false. cbv iota.
    unfold bind. rewrite be_dec_enc4 by exact H. reflexivity.
Qed.

Lemma int32_string_spec s i : int32_string s = Some i ->
  render i = s /\ (-2147483648 <= i <= 2147483647)%Z.
Proof.
  unfold int32_string. destruct (parse_int64 s) as [z|]; [|discriminate].
  destruct (((-2147483648 <=? z) && (z <=? 2147483647))%Z) eqn:R; [|discriminate]. cbn [andb].
  destruct (beqs (render z) s) eqn:B; [|discriminate]. intros E. inversion E; subst.
  apply beqs_true in B. split; [exact B|lia].
Qed.

Theorem exact_cup_string s : lenN s < 2 ^ 32 -> exact (cup_read_string) (cup_enc_string s) s.
Proof.
  intros Hl r. unfold cup_enc_string.
  destruct (int32_string s) as [i|] eqn:E.
  - destruct (int32_string_spec s i E) as [Hr Hb].
    destruct ((-128 <=? i) && (i <=? 127))%Z eqn:R8; [|destruct ((-32768 <=? i) && (i <=? 32767))%Z eqn:R16].
    + unfold cup_read_string, bind. cbn [app]. unfold cup_read_len, bind. cbn [byte1].
      change (b2n (n2b 192)) with 192. change (192 / 64) with 3. cbn match. unfold ret.
      change (192 mod 64) with 0. cbn [andb N.eqb]. cbv iota. cbn [byte1].
      rewrite b2n_n2b_small by (pose proof (of_signed_lt 8 i); lia). rewrite signed_roundtrip by lia. rewrite Hr. reflexivity.
    + unfold cup_read_string, bind. cbn [app]. unfold cup_read_len, bind. cbn [byte1].
      change (b2n (n2b 193)) with 193. change (193 / 64) with 3. cbn match. unfold ret.
      change (193 mod 64) with 1. cbn [andb N.eqb Pos.eqb]. cbv iota.
      assert (L : lenN (le_enc 2 (of_signed 16 i)) = 2) by (unfold lenN; rewrite le_enc_length; reflexivity).
      cbv beta. rewrite (exact_take_n _ _ L).
      rewrite le_dec_enc by (change (8 * N.of_nat 2) with 16; apply of_signed_lt; lia). rewrite signed_roundtrip by lia. rewrite Hr. reflexivity.
    + unfold cup_read_string, bind. cbn [app]. unfold cup_read_len, bind. cbn [byte1].
      change (b2n (n2b 194)) with 194. change (194 / 64) with 3. cbn match. unfold ret.
      change (194 mod 64) with 2. cbn [andb N.eqb Pos.eqb]. cbv iota.
      assert (L : lenN (le_enc 4 (of_signed 32 i)) = 4) by (unfold lenN; rewrite le_enc_length; reflexivity).
      cbv beta. rewrite (exact_take_n _ _ L).
      rewrite le_dec_enc by (change (8 * N.of_nat 4) with 32; apply of_signed_lt; lia). rewrite signed_roundtrip by lia. rewrite Hr. reflexivity.
  - unfold cup_read_string, bind. rewrite <- app_assoc. rewrite (exact_cup_len (lenN s) Hl). cbn [andb]. cbv iota. apply take_app.
Qed.

Lemma cup_enc_string_nonempty s : cup_enc_string s <> [].
Proof.
  unfold cup_enc_string. destruct (int32_string s); [destruct (_ && _)%bool; [discriminate|destruct (_ && _)%bool; discriminate]|].
  unfold cup_enc_len. destruct (lenN s <? 64); [discriminate|destruct (lenN s <? 16384); discriminate].
Qed.

(* collecting repetition *)
Lemma exact_rep {A} (p : P A) (es : list bytes) (as_ : list A) :
  Forall2 (fun e a => exact p e a) es as_ -> exact (rep (length es) p) (concat es) as_.
Proof.
  induction 1 as [|e a es as_ H _ IH]; cbn [length rep concat]; [apply exact_ret|].
  eapply exact_bind; [exact H|]. rewrite <- (app_nil_r (concat es)). eapply exact_bind; [exact IH|apply exact_ret].
Qed.

Lemma exact_rep_count {A} (p : P A) (es : list bytes) (as_ : list A) :
  Forall (fun e => e <> []) es -> Forall2 (fun e a => exact p e a) es as_ ->
  exact (rep_count (N.of_nat (length es)) p) (concat es) as_.
Proof.
  intros Hne HF r. unfold rep_count. pose proof (concat_length_ge es Hne) as L.
  replace (N.min (N.of_nat (length es)) (lenN (concat es ++ r) + 1)) with (N.of_nat (length es))
    by (unfold lenN; rewrite app_length; lia).
  rewrite Nat2N.id. apply (exact_rep p es as_ HF).
Qed.

Lemma Forall2_map_both {A B C} (R : B -> C -> Prop) (f : A -> B) (g : A -> C) l :
  Forall (fun a => R (f a) (g a)) l -> Forall2 R (map f l) (map g l).
Proof. induction 1; simpl; constructor; auto. Qed.

Lemma map_id' {A} (l : list A) : map (fun x => x) l = l. Proof. induction l; simpl; congruence. Qed.

(* count + elements, then the rest of the parser *)
Lemma exact_counted {A B} (p : P A) (encf : A -> bytes) (xs : list A) (k : list A -> P B) e2 b :
  N.of_nat (length xs) < 2 ^ 32 -> Forall (fun x => encf x <> [] /\ exact p (encf x) x) xs ->
  exact (k xs) e2 b ->
  exact (n <- cup_read_len ;; l <- rep_count (fst n) p ;; k l)
        (cup_enc_len (N.of_nat (length xs)) ++ concat (map encf xs) ++ e2) b.
Proof.
  intros Hl Hx Hk. eapply exact_bind; [apply exact_cup_len; exact Hl|]. cbn [fst].
  assert (Hrep : exact (rep_count (N.of_nat (length (map encf xs))) p) (concat (map encf xs)) (map (fun x => x) xs)).
  { apply exact_rep_count.
    - apply Forall_forall. intros e He. apply in_map_iff in He. destruct He as [x [<- Hin]].
      rewrite Forall_forall in Hx. apply (Hx x Hin).
    - apply Forall2_map_both. eapply Forall_impl; [|exact Hx]. intros x [_ H]. exact H. }
  rewrite map_length, map_id' in Hrep. eapply exact_bind; [exact Hrep|exact Hk].
Qed.

Section Float.
Variable fmt_g17 : N -> bytes.
Variable parse_float : bytes -> option N.
(* the law of the two conversions the round trip relies on (Go: FormatFloat 'g' 17 then ParseFloat) *)
Definition finite (b : N) : Prop := is_nan b = false /\ b <> pinf_bits /\ b <> ninf_bits.
Hypothesis float_law : forall b, finite b -> parse_float (fmt_g17 b) = Some b /\ lenN (fmt_g17 b) < 253.

Definition canon_score (b : N) : N := if is_nan b then nan_bits else b.

Lemma exact_score b : b < 2 ^ 64 -> exact (cup_read_float parse_float) (enc_score_bits fmt_g17 b) (canon_score b).
Proof.
  intros Hb r. unfold enc_score_bits, canon_score.
  destruct (is_nan b) eqn:En.
  - reflexivity.
  - unfold cup_enc_float.
    assert (Hn : (b =? nan_bits) = false).
    { apply N.eqb_neq. intros ->. vm_compute in En. discriminate. }
    rewrite Hn. destruct (N.eqb_spec b pinf_bits) as [->|Hp]; [reflexivity|].
    destruct (N.eqb_spec b ninf_bits) as [->|Hm]; [reflexivity|].
    destruct (float_law b (conj En (conj Hp Hm))) as [F1 F2].
    unfold cup_read_float, bind. cbn [app byte1]. rewrite b2n_n2b_small by lia.
    replace (lenN (fmt_g17 b) =? 253) with false by (symmetry; apply N.eqb_neq; lia).
    replace (lenN (fmt_g17 b) =? 254) with false by (symmetry; apply N.eqb_neq; lia).
    replace (lenN (fmt_g17 b) =? 255) with false by (symmetry; apply N.eqb_neq; lia).
    rewrite take_app. rewrite F1. reflexivity.
Qed.

(* what DecodeDump(EncodeDump v) returns: the value, NaN payloads canonicalised *)
Definition canon (v : logical) : logical :=
  match v with LZSet l => LZSet (map (fun m => (fst m, canon_score (snd m))) l) | x => x end.

Definition wf_logical (v : logical) : Prop :=
  match v with
  | LString s => lenN s < 2 ^ 32
  | LList l | LSet l => N.of_nat (length l) < 2 ^ 32 /\ Forall (fun s => lenN s < 2 ^ 32) l
  | LHash l => N.of_nat (length l) < 2 ^ 32 /\ Forall (fun p => lenN (fst p) < 2 ^ 32 /\ lenN (snd p) < 2 ^ 32) l
  | LZSet l => N.of_nat (length l) < 2 ^ 32 /\ Forall (fun m => lenN (fst m) < 2 ^ 32 /\ snd m < 2 ^ 64) l
  end.

Theorem exact_read_logical v : wf_logical v ->
  exact (read_logical parse_float (fst (enc_value_body fmt_g17 v))) (snd (enc_value_body fmt_g17 v)) (canon v).
Proof.
  destruct v as [s|l|l|l|l]; cbn [wf_logical enc_value_body fst snd canon]; intros W; unfold read_logical.
  - change (0 =? 0) with true. cbv iota. rewrite <- (app_nil_r (cup_enc_string s)).
    eapply exact_bind; [apply exact_cup_string; exact W|apply exact_ret].
  - destruct W as [W1 W2]. change (1 =? 0) with false. change (1 =? 1) with true. cbv iota.
    rewrite <- (app_nil_r (concat _)).
    apply (exact_counted cup_read_string cup_enc_string l (fun l => ret (LList l))); [exact W1| |apply exact_ret].
    eapply Forall_impl; [|exact W2]. intros s Hs. split; [apply cup_enc_string_nonempty|apply exact_cup_string; exact Hs].
  - destruct W as [W1 W2]. change (2 =? 0) with false. change (2 =? 1) with false. change (2 =? 2) with true. cbv iota.
    rewrite <- (app_nil_r (concat _)).
    apply (exact_counted cup_read_string cup_enc_string l (fun l => ret (LSet l))); [exact W1| |apply exact_ret].
    eapply Forall_impl; [|exact W2]. intros s Hs. split; [apply cup_enc_string_nonempty|apply exact_cup_string; exact Hs].
  - destruct W as [W1 W2]. change (4 =? 0) with false. change (4 =? 1) with false. change (4 =? 2) with false.
    change (4 =? 3) with false. change (4 =? 5) with false. change (4 =? 4) with true. cbv iota.
    rewrite <- (app_nil_r (concat _)).
    apply (exact_counted (f <- cup_read_string ;; v <- cup_read_string ;; ret (f, v))
             (fun p => cup_enc_string (fst p) ++ cup_enc_string (snd p)) l (fun l => ret (LHash l))); [exact W1| |apply exact_ret].
    eapply Forall_impl; [|exact W2]. intros [f v] [H1 H2]. cbn [fst snd] in *. split.
    + apply app_cons_nonempty, cup_enc_string_nonempty.
    + eapply exact_bind; [apply exact_cup_string; exact H1|].
      rewrite <- (app_nil_r (cup_enc_string v)). eapply exact_bind; [apply exact_cup_string; exact H2|apply exact_ret].
  - destruct W as [W1 W2]. change (3 =? 0) with false. change (3 =? 1) with false. change (3 =? 2) with false.
    change (3 =? 3) with true. cbv iota.
    rewrite <- (app_nil_r (concat _)).
    (* elements are read back with canonical NaN: use the map form *)
    eapply exact_bind; [apply exact_cup_len; exact W1|]. cbn [fst].
    eapply exact_bind; [|apply exact_ret].
    rewrite <- (map_length (fun m => cup_enc_string (fst m) ++ enc_score_bits fmt_g17 (snd m)) l).
    apply exact_rep_count.
    + apply Forall_forall. intros e He. apply in_map_iff in He. destruct He as [x [<- _]].
      apply app_cons_nonempty, cup_enc_string_nonempty.
    + apply Forall2_map_both. eapply Forall_impl; [|exact W2]. intros [m b] [H1 H2]. cbn [fst snd] in *.
      eapply exact_bind; [apply exact_cup_string; exact H1|].
      rewrite <- (app_nil_r (enc_score_bits fmt_g17 b)). eapply exact_bind; [apply exact_score; exact H2|apply exact_ret].
Qed.

Theorem dump_roundtrip_logical v : wf_logical v -> decode_dump parse_float (encode_dump fmt_g17 v) = Some (canon v).
Proof.
  intros W. unfold encode_dump, decode_dump.
  pose proof (exact_read_logical v W) as E.
  destruct (enc_value_body fmt_g17 v) as [t body] eqn:Eb. cbn [fst snd] in E.
  assert (Ht : t < 256) by (destruct v; inversion Eb; lia).
  set (pre := n2b t :: body ++ le_enc 2 cupcake_version).
  assert (Ep : pre ++ le_enc 8 (ext_digest pre) = payload (n2b t :: body) cupcake_version).
  { unfold payload. rewrite ext_digest_spec. reflexivity. }
  rewrite Ep. rewrite verify_dump_payload by (vm_compute; reflexivity). rewrite N.eqb_refl.
  unfold payload. cbn [app]. rewrite b2n_n2b_small by exact Ht.
  rewrite <- !app_assoc. rewrite (E _). reflexivity.
Qed.
End Float.

(* ---------- ziplist entries: every form Redis writes ---------- *)
Lemma take_le k n r : take (N.of_nat k) (le_enc k n ++ r) = Some (le_enc k n, r).
Proof. apply exact_take_n. unfold lenN. rewrite le_enc_length. reflexivity. Qed.

Ltac hsel h :=
  repeat match goal with
  | |- context [h / 64 =? ?c] => let v := eval vm_compute in (h / 64 =? c) in change (h / 64 =? c) with v
  | |- context [h =? ?c] => let v := eval vm_compute in (h =? c) in change (h =? c) with v
  | |- context [h / 16 =? ?c] => let v := eval vm_compute in (h / 16 =? c) in change (h / 16 =? c) with v
  end; cbv iota.

Lemma zl_prev_skip p r : wf_prev p ->
  (prev <- byte1 ;; (if b2n prev =? 254 then (fun s => Some (tt, skipn 4 s)) else ret tt)) (enc_prev p ++ r) = Some (tt, r).
Proof.
  destruct p as [n|n]; cbn [enc_prev wf_prev]; intros H; unfold bind; cbn [app byte1].
  - rewrite b2n_n2b_small by lia. replace (n =? 254) with false by (symmetry; apply N.eqb_neq; lia). reflexivity.
  - change (b2n (n2b 254) =? 254) with true. cbv iota.
    replace 4%nat with (length (le_enc 4 n)) by apply le_enc_length.
    rewrite skipn_app, skipn_all, Nat.sub_diag. reflexivity.
Qed.

Lemma zl_entry_unfold p v r : wf_prev p ->
  zl_entry (enc_prev p ++ enc_zval v ++ r) =
  (hb <- byte1 ;;
   let h := b2n hb in
   if h / 64 =? 0 then take (h mod 64)
   else if h / 64 =? 1 then b <- byte1 ;; take ((h mod 64) * 256 + b2n b)
   else if h / 64 =? 2 then l <- take 4 ;; take (be_dec l)
   else if h =? 192 then l <- take 2 ;; ret (render (to_signed 16 (le_dec l)))
   else if h =? 208 then l <- take 4 ;; ret (render (to_signed 32 (le_dec l)))
   else if h =? 224 then l <- take 8 ;; ret (render (to_signed 64 (le_dec l)))
   else if h =? 240 then l <- take 3 ;; ret (render (to_signed 24 (le_dec l)))
   else if h =? 254 then b <- byte1 ;; ret (render (to_signed 8 (b2n b)))
   else if h / 16 =? 15 then ret (render (Z.of_N (h mod 16) - 1))
   else fail_) (enc_zval v ++ r).
Proof.
  intros Hp. pose proof (zl_prev_skip p (enc_zval v ++ r) Hp) as S.
  unfold zl_entry. unfold bind at 1. unfold bind in S at 1.
  destruct (byte1 (enc_prev p ++ enc_zval v ++ r)) as [[prev r0]|]; [|discriminate].
  unfold bind at 1. destruct (b2n prev =? 254).
  - inversion S as [S']. reflexivity.
  - unfold ret in *. inversion S; subst. reflexivity.
Qed.

Ltac int_case h k bits :=
  change (b2n (n2b h)) with h; hsel h; unfold bind;
  match goal with |- context [take ?n (le_enc k ?u ++ ?r)] => change n with (N.of_nat k); rewrite (take_le k u r) end;
  unfold ret;
  rewrite le_dec_enc by (let x := eval vm_compute in (8 * N.of_nat k) in change (8 * N.of_nat k) with x; apply (of_signed_lt bits); lia);
  rewrite signed_roundtrip by (lia || assumption); reflexivity.

Theorem exact_zl_entry p v : wf_prev p -> wf_zval v -> exact zl_entry (enc_prev p ++ enc_zval v) (zval_logical v).
Proof.
  intros Hp Hv r. rewrite <- app_assoc. rewrite zl_entry_unfold by exact Hp.
  destruct v; cbn [enc_zval app wf_zval zval_logical] in *; unfold bind at 1; cbn [byte1].
  - rewrite b2n_n2b_small by lia.
    replace (lenB s / 64 =? 0) with true by (symmetry; apply N.eqb_eq; apply N.div_small; lia). cbv iota.
    rewrite N.mod_small by lia. apply take_app.
  - rewrite b2n_n2b_small by lia.
    replace ((64 + lenB s / 256) / 64 =? 0) with false by (symmetry; apply N.eqb_neq; lia).
    replace ((64 + lenB s / 256) / 64 =? 1) with true by (symmetry; apply N.eqb_eq; lia). cbv iota.
    unfold bind. cbn [byte1]. rewrite b2n_n2b.
    replace ((64 + lenB s / 256) mod 64 * 256 + lenB s mod 256) with (lenN s) by (unfold lenN, lenB in *; lia). apply take_app.
  - rewrite b2n_n2b_small by lia. hsel 128. unfold bind. rewrite <- app_assoc.
    assert (L : lenN (be_enc 4 (lenB s)) = 4) by (unfold lenN; rewrite be_enc_length; reflexivity).
    rewrite (exact_take_n _ _ L). rewrite be_dec_enc by (change (8 * N.of_nat 4) with 32; exact Hv). apply take_app.
  - int_case 192 2%nat 16.
  - int_case 208 4%nat 32.
  - int_case 224 8%nat 64.
  - int_case 240 3%nat 24.
  - change (b2n (n2b 254)) with 254. hsel 254. unfold bind. cbn [byte1]. unfold ret.
    rewrite b2n_n2b_small by (pose proof (of_signed_lt 8 z); lia). rewrite signed_roundtrip by (lia || exact Hv). reflexivity.
  - rewrite b2n_n2b_small by lia.
    replace ((241 + v) / 64 =? 0) with false by (symmetry; apply N.eqb_neq; lia).
    replace ((241 + v) / 64 =? 1) with false by (symmetry; apply N.eqb_neq; lia).
    replace ((241 + v) / 64 =? 2) with false by (symmetry; apply N.eqb_neq; lia).
    replace (241 + v =? 192) with false by (symmetry; apply N.eqb_neq; lia).
    replace (241 + v =? 208) with false by (symmetry; apply N.eqb_neq; lia).
    replace (241 + v =? 224) with false by (symmetry; apply N.eqb_neq; lia).
    replace (241 + v =? 240) with false by (symmetry; apply N.eqb_neq; lia).
    replace (241 + v =? 254) with false by (symmetry; apply N.eqb_neq; lia).
    replace ((241 + v) / 16 =? 15) with true by (symmetry; apply N.eqb_eq; lia). cbv iota.
    unfold ret. do 2 f_equal. f_equal. lia.
Qed.

Lemma enc_prev_nonempty p : enc_prev p <> []. Proof. destruct p; discriminate. Qed.

(* a whole ziplist: zlbytes and zltail are ignored, zllen entries are decoded in order *)
Theorem zl_entries_spec zlbytes zltail es :
  N.of_nat (length es) < 65535 -> Forall (fun e => wf_prev (fst e) /\ wf_zval (snd e)) es ->
  zl_entries (enc_ziplist zlbytes zltail es) = Some (map (fun e => zval_logical (snd e)) es).
Proof.
  intros Hl W. unfold zl_entries, enc_ziplist.
  assert (S8 : skipn 8 (le_enc 4 zlbytes ++ le_enc 4 zltail ++ le_enc 2 (N.of_nat (length es)) ++
                        concat (map (fun e => enc_prev (fst e) ++ enc_zval (snd e)) es) ++ [n2b 255])
               = le_enc 2 (N.of_nat (length es)) ++ concat (map (fun e => enc_prev (fst e) ++ enc_zval (snd e)) es) ++ [n2b 255]).
  { rewrite app_assoc. replace 8%nat with (length (le_enc 4 zlbytes ++ le_enc 4 zltail)) by (rewrite app_length, !le_enc_length; reflexivity).
    rewrite skipn_app, skipn_all, Nat.sub_diag. reflexivity. }
  rewrite S8. change 2 with (N.of_nat 2). rewrite take_le.
  rewrite le_dec_enc by (change (2 ^ (8 * N.of_nat 2)) with 65536; lia).
  rewrite <- (map_length (fun e => enc_prev (fst e) ++ enc_zval (snd e)) es).
  rewrite (exact_rep_count zl_entry _ (map (fun e => zval_logical (snd e)) es)); [reflexivity| |].
  - apply Forall_forall. intros e He. apply in_map_iff in He. destruct He as [x [<- _]]. apply app_cons_nonempty, enc_prev_nonempty.
  - apply Forall2_map_both. eapply Forall_impl; [|exact W]. intros [p v] [H1 H2]. apply exact_zl_entry; assumption.
Qed.

(* intsets of every width *)
Theorem intset_spec width zs : (width = 2 \/ width = 4 \/ width = 8) ->
  N.of_nat (length zs) < 2 ^ 32 ->
  Forall (fun z => (- 2 ^ (Z.of_N (8 * width) - 1) <= z < 2 ^ (Z.of_N (8 * width) - 1))%Z) zs ->
  intset_members (enc_intset width zs) = Some (map render zs).
Proof.
  intros Hw Hl W. unfold intset_members, enc_intset.
  assert (T4 : forall v r, take 4 (le_enc 4 v ++ r) = Some (le_enc 4 v, r)) by (intros; apply (take_le 4)).
  rewrite T4. cbv zeta.
  assert (Hwl : width < 2 ^ 32) by (destruct Hw as [->|[->| ->]]; reflexivity).
  rewrite le_dec_enc by (change (8 * N.of_nat 4) with 32; exact Hwl).
  assert (Hsel : (width =? 2) || (width =? 4) || (width =? 8) = true) by (destruct Hw as [->|[->| ->]]; reflexivity).
  rewrite Hsel. rewrite T4. rewrite le_dec_enc by (change (8 * N.of_nat 4) with 32; exact Hl).
  rewrite <- (app_nil_r (concat _)).
  rewrite <- (map_length (fun z => le_enc (N.to_nat width) (of_signed (8 * width) z)) zs).
  rewrite (exact_rep_count _ _ (map render zs)); [reflexivity| |].
  - apply Forall_forall. intros e He. apply in_map_iff in He. destruct He as [x [<- _]].
    intros E. apply (f_equal (@length byte)) in E. rewrite le_enc_length in E. cbn in E. destruct Hw as [->|[->| ->]]; discriminate.
  - apply Forall2_map_both. eapply Forall_impl; [|exact W]. intros z Hz r.
    unfold bind. replace width with (N.of_nat (N.to_nat width)) at 1 by lia. rewrite take_le. unfold ret.
    rewrite le_dec_enc.
    + rewrite signed_roundtrip by (destruct Hw as [->|[->| ->]]; (lia || exact Hz)). reflexivity.
    + replace (8 * N.of_nat (N.to_nat width)) with (8 * width) by lia. apply of_signed_lt. lia.
Qed.
