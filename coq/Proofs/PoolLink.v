(* Proofs/PoolLink.v — the log of a run of the completion protocol (Model/PoolProto) is a
   schedule in the sense of Model/Workers: when the caller has returned nil, the writes issued
   by all workers together are exactly the expected ones. *)
From Coq Require Import List Arith Bool Lia Permutation.
Import ListNotations.
From RS Require Import Base.Bytes Model.Filter Model.Workers Model.PoolProto Proofs.WorkersProofs Proofs.PoolProofs.

Theorem returns_nil_after_all_writes cap c n (file : list (nat * went)) es (s : pst (nat * went)) :
  (0 < n)%nat -> prun cap (pinit file n) es = Some s -> ret s = Some true ->
  map rec_of (taken s) = file /\
  Permutation (all_writes c n (map worker_of (taken s)) file) (expected c file).
Proof.
  intros Hn Hr Ht.
  destruct (pool_returns_nil_only_when_complete cap file n es s Hn Hr Ht) as (Hf & _).
  split; [exact Hf|].
  apply pool_exactly_once.
  - rewrite <- Hf. rewrite !map_length. reflexivity.
  - pose proof (taken_workers_lt cap file n es s Hr) as F. clear - F.
    induction (taken s) as [|t l IH]; [constructor|]. inversion F; subst. constructor; [assumption|apply IH; assumption].
Qed.
