(* Proofs/CheckpointProofs.v — lemmas for C14. *)
From RS Require Import Base.Bytes Base.Dec Model.RespCodec Model.Checkpoint Proofs.RespProofs.
From Coq Require Import Permutation.
Open Scope Z_scope.

(* ---- fields of other sources are ignored ---- *)
Definition is_own (src : bytes) (fv : bytes * bytes) : bool :=
  match own_suffix src (fst fv) with Some _ => true | None => false end.

Lemma scan_fields_ignores_foreign src fs : forall acc,
  scan_fields src fs acc = scan_fields src (filter (is_own src) fs) acc.
Proof.
  induction fs as [|[f v] fs IH]; intros [[r o] ve]; [reflexivity|].
  cbn [scan_fields filter]. unfold is_own at 1. cbn [fst].
  destruct (own_suffix src f) as [name|] eqn:E.
  - cbn [scan_fields]. rewrite E.
    destruct (beqs name s_offset); [destruct (parse_int64 v); [apply IH|reflexivity]|].
    destruct (beqs name s_runid); [apply IH|].
    destruct (beqs name s_version); [destruct (parse_int64 v); [apply IH|reflexivity]|apply IH].
  - apply IH.
Qed.

(* an address that merely extends ours ("host:63790" vs "host:6379") is not ours *)
Lemma own_suffix_exact src f : own_suffix src f <> None <-> exists name, f = src ++ [x2d] ++ name.
Proof.
  unfold own_suffix. destruct (prefix_of (src ++ [x2d]) f) eqn:E.
  - apply prefix_of_spec in E. destruct E as [r ->]. split; [intros _|discriminate].
    exists r. rewrite <- app_assoc. reflexivity.
  - split; [intros H; contradiction|]. intros [name ->]. exfalso.
    assert (prefix_of (src ++ [x2d]) (src ++ [x2d] ++ name) = true).
    { apply prefix_of_spec. exists name. rewrite <- app_assoc. reflexivity. }
    congruence.
Qed.

(* ---- the scan over databases keeps the strictly greatest offset ---- *)
Definition entry := (Z * (bytes * Z * Z))%type.     (* db, (runid, offset, version) *)
Definition eoff (e : entry) : Z := snd (fst (snd e)).

Definition pick_e (b : best) (e : entry) : best := pick b (fst e) (snd e).
Definition scan_e (es : list entry) (b : best) : best := fold_left pick_e es b.
Definition boff (b : best) : Z := fst (fst (fst b)).

Lemma scan_dbs_entries src : forall dbs b es,
  map (fun dh => match fetch src (snd dh) with Some e => Some (fst dh, e) | None => None end) dbs = map Some es ->
  scan_dbs src dbs b = Some (scan_e es b).
Proof.
  induction dbs as [|[db h] dbs IH]; intros b es H; destruct es as [|e es]; try discriminate; [reflexivity|].
  cbn [map fst snd] in H. cbn [scan_dbs]. destruct (fetch src h) as [x|]; [|discriminate].
  inversion H as [[H1 H2]]. subst e. cbn [scan_e fold_left]. apply (IH _ _ H2).
Qed.

Lemma pick_e_off b e : boff (pick_e b e) = Z.max (boff b) (eoff e).
Proof.
  destruct b as [[[n r] d] v]. destruct e as [db [[rid off] ver]]. unfold pick_e, pick, boff, eoff. cbn [fst snd].
  destruct (n <? off) eqn:E; cbn [fst]; lia.
Qed.

Lemma scan_e_ge es : forall b, boff b <= boff (scan_e es b).
Proof.
  induction es as [|e es IH]; intros b; [cbn; lia|]. cbn [scan_e fold_left].
  specialize (IH (pick_e b e)). unfold scan_e in IH. rewrite pick_e_off in IH. lia.
Qed.

Lemma scan_e_upper es : forall b e, In e es -> eoff e <= boff (scan_e es b).
Proof.
  induction es as [|x es IH]; intros b e Hin; [contradiction|]. cbn [scan_e fold_left].
  destruct Hin as [<-|Hin].
  - pose proof (scan_e_ge es (pick_e b x)) as G. rewrite pick_e_off in G. unfold scan_e in G. lia.
  - apply IH. exact Hin.
Qed.

Lemma pick_e_unfold n r d v db rid off ver :
  pick_e (n, r, d, v) (db, (rid, off, ver)) = if n <? off then (off, rid, db, ver) else (n, r, d, v).
Proof. reflexivity. Qed.

Lemma scan_e_source es : forall b,
  scan_e es b = b \/
  exists db rid off ver, In (db, (rid, off, ver)) es /\ scan_e es b = (off, rid, db, ver) /\ boff b < off.
Proof.
  induction es as [|[db [[rid off] ver]] es IH]; intros b; [left; reflexivity|]. cbn [scan_e fold_left].
  destruct b as [[[n r] d] v]. rewrite pick_e_unfold.
  destruct (n <? off) eqn:E.
  - apply Z.ltb_lt in E. destruct (IH (off, rid, db, ver)) as [H|(db' & rid' & off' & ver' & Hin & H & Hlt)].
    + right. exists db, rid, off, ver. split; [left; reflexivity|]. split; [exact H|exact E].
    + right. exists db', rid', off', ver'. split; [right; exact Hin|]. split; [exact H|]. unfold boff in *. cbn [fst] in *. lia.
  - destruct (IH (n, r, d, v)) as [H|(db' & rid' & off' & ver' & Hin & H & Hlt)]; [left; exact H|].
    right. exists db', rid', off', ver'. split; [right; exact Hin|]. split; [exact H|exact Hlt].
Qed.

Definition b0 : best := (-1, [], 0, -1).

(* the result is the greatest own offset together with the run id / db / version of the
   database that carries it; (-1, "", 0, -1) when no database has an own offset *)
Theorem scan_is_max es :
  let '(m, rid, db, ver) := scan_e es b0 in
  (forall e, In e es -> eoff e <= m) /\
  ((m = -1 /\ (rid, db, ver) = ([], 0, -1)) \/ (-1 < m /\ In (db, (rid, m, ver)) es)).
Proof.
  destruct (scan_e_source es b0) as [H|(db & rid & off & ver & Hin & H & Hlt)].
  - rewrite H. unfold b0. split; [|left; split; reflexivity].
    intros e He. pose proof (scan_e_upper es b0 e He) as U. rewrite H in U. exact U.
  - rewrite H. split; [|right; split; [unfold boff, b0 in Hlt; cbn in Hlt; lia|exact Hin]].
    intros e He. pose proof (scan_e_upper es b0 e He) as U. rewrite H in U. exact U.
Qed.

Definition distinct_offsets (es : list entry) : Prop :=
  NoDup (map eoff (filter (fun e => -1 <? eoff e) es)).

Lemma nodup_inj (l : list entry) (a b : entry) :
  NoDup (map eoff l) -> In a l -> In b l -> eoff a = eoff b -> a = b.
Proof.
  induction l as [|x l IHl]; intros ND Ha Hb Hab; [contradiction|].
  cbn [map] in ND. inversion ND as [|? ? Hn ND']; subst.
  destruct Ha as [<-|Ha]; destruct Hb as [<-|Hb]; auto.
  - exfalso. apply Hn. rewrite Hab. exact (in_map eoff l b Hb).
  - exfalso. apply Hn. rewrite <- Hab. exact (in_map eoff l a Ha).
Qed.

(* Go iterates the keyspace map in arbitrary order: the result does not depend on it when the
   source's offsets are pairwise distinct across databases *)
Theorem scan_perm_invariant es es' :
  Permutation es es' -> distinct_offsets es -> scan_e es b0 = scan_e es' b0.
Proof.
  intros P ND. pose proof (scan_is_max es) as A. pose proof (scan_is_max es') as B.
  destruct (scan_e es b0) as [[[m rid] db] ver]. destruct (scan_e es' b0) as [[[m' rid'] db'] ver'].
  destruct A as [Ua Sa]. destruct B as [Ub Sb].
  assert (Hm : m = m').
  { destruct Sa as [[-> _]|[Hp Hin]]; destruct Sb as [[-> _]|[Hp' Hin']]; try reflexivity.
    - specialize (Ua (db', (rid', m', ver'))). unfold eoff in Ua. cbn in Ua.
      assert (m' <= -1) by (apply Ua; eapply Permutation_in; [apply Permutation_sym; exact P|exact Hin']). lia.
    - specialize (Ub (db, (rid, m, ver))). unfold eoff in Ub. cbn in Ub.
      assert (m <= -1) by (apply Ub; eapply Permutation_in; [exact P|exact Hin]). lia.
    - apply Z.le_antisymm.
      + apply (Ub (db, (rid, m, ver))). eapply Permutation_in; [exact P|exact Hin].
      + apply (Ua (db', (rid', m', ver'))). eapply Permutation_in; [apply Permutation_sym; exact P|exact Hin']. }
  subst m'.
  destruct Sa as [[-> Ea]|[Hp Hin]]; destruct Sb as [[Hm1 Eb]|[Hp' Hin']]; try lia.
  - inversion Ea; inversion Eb; subst. reflexivity.
  - assert (Hin'' : In (db', (rid', m, ver')) es) by (eapply Permutation_in; [apply Permutation_sym; exact P|exact Hin']).
    assert (F : forall e : entry, In e es -> -1 < eoff e -> In e (filter (fun e => -1 <? eoff e) es)).
    { intros e He Hq. apply filter_In. split; [exact He|]. apply Z.ltb_lt. exact Hq. }
    pose proof (nodup_inj _ _ _ ND (F _ Hin Hp) (F _ Hin'' Hp) eq_refl) as Eq. inversion Eq; subst. reflexivity.
Qed.

(* ---- what the sender writes is what the loader reads ---- *)
Fixpoint hget (fs : fields) (f : bytes) : option bytes :=
  match fs with [] => None | (f', v) :: r => if beqs f' f then Some v else hget r f end.

Lemma hget_hset_same fs f v : hget (hset fs f v) f = Some v.
Proof.
  induction fs as [|[f' v'] fs IH]; cbn [hset hget].
  - assert (beqs f f = true) by (apply beqs_true; reflexivity). rewrite H. reflexivity.
  - destruct (beqs f' f) eqn:E; cbn [hget]; rewrite ?E.
    + assert (beqs f f = true) by (apply beqs_true; reflexivity). rewrite H. reflexivity.
    + exact IH.
Qed.

Lemma hget_hset_other fs f g v : f <> g -> hget (hset fs f v) g = hget fs g.
Proof.
  intros Hne. induction fs as [|[f' v'] fs IH]; cbn [hset hget].
  - destruct (beqs f g) eqn:E; [apply beqs_true in E; contradiction|reflexivity].
  - destruct (beqs f' f) eqn:E; cbn [hget].
    + apply beqs_true in E. subst f'. destruct (beqs f g) eqn:E2; [apply beqs_true in E2; contradiction|reflexivity].
    + destruct (beqs f' g); [reflexivity|exact IH].
Qed.

Lemma hset_keys_nodup fs f v : NoDup (map fst fs) -> NoDup (map fst (hset fs f v)).
Proof.
  induction fs as [|[f' v'] fs IH]; intros ND; cbn [hset map fst].
  - constructor; [intros []|constructor].
  - inversion ND as [|? ? Hn ND']; subst. destruct (beqs f' f) eqn:E; cbn [map fst].
    + apply beqs_true in E. subst f'. constructor; assumption.
    + constructor; [|apply IH; exact ND'].
      intros Hin. apply Hn. clear - Hin E.
      induction fs as [|[g w] fs IHf]; cbn [hset map fst] in *.
      * destruct Hin as [Hin|[]]. subst. assert (beqs f' f' = true) by (apply beqs_true; reflexivity). congruence.
      * destruct (beqs g f) eqn:Eg; cbn [map fst] in *.
        -- apply beqs_true in Eg. subst g. destruct Hin as [Hin|Hin]; [subst; assert (beqs f' f' = true) by (apply beqs_true; reflexivity); congruence|right; exact Hin].
        -- destruct Hin as [Hin|Hin]; [left; exact Hin|right; apply IHf; exact Hin].
Qed.

Definition opt_or {A} (o : option A) (d : A) : A := match o with Some x => x | None => d end.

Lemma own_suffix_field src what : own_suffix src (field_name src what) = Some what.
Proof.
  unfold own_suffix, field_name.
  assert (prefix_of (src ++ [x2d]) (src ++ [x2d] ++ what) = true).
  { apply prefix_of_spec. exists what. rewrite <- app_assoc. reflexivity. }
  rewrite H. f_equal. rewrite skipn_app. rewrite skipn_all2 by lia.
  replace (length src + 1 - length src)%nat with 1%nat by lia. reflexivity.
Qed.

Lemma skipn_len_app (p rest : bytes) : skipn (length p) (p ++ rest) = rest.
Proof. rewrite skipn_app, Nat.sub_diag, skipn_all. reflexivity. Qed.

Lemma own_suffix_some src f name : own_suffix src f = Some name -> f = field_name src name.
Proof.
  unfold own_suffix. destruct (prefix_of (src ++ [x2d]) f) eqn:P; [|discriminate].
  apply prefix_of_spec in P. destruct P as [rest ->]. intros H. inversion H as [H1]. clear H.
  assert (L : (length src + 1)%nat = length (src ++ [x2d])) by (rewrite app_length; simpl; lia).
  rewrite L. rewrite skipn_len_app. unfold field_name. rewrite <- app_assoc. reflexivity.
Qed.

Lemma field_name_inj src a b : field_name src a = field_name src b -> a = b.
Proof. unfold field_name. intros H. apply app_inv_head in H. inversion H. reflexivity. Qed.

(* with unique field names, fetchCheckpoint returns the three own fields (defaults otherwise) *)
Lemma scan_fields_lookup src fs : NoDup (map fst fs) -> forall r o v,
  (forall x, hget fs (field_name src s_offset) = Some x -> parse_int64 x <> None) ->
  (forall x, hget fs (field_name src s_version) = Some x -> parse_int64 x <> None) ->
  scan_fields src fs (r, o, v) =
    Some (opt_or (hget fs (field_name src s_runid)) r,
          opt_or (match hget fs (field_name src s_offset) with Some x => parse_int64 x | None => None end) o,
          opt_or (match hget fs (field_name src s_version) with Some x => parse_int64 x | None => None end) v).
Proof.
  induction fs as [|[f x] fs IH]; intros ND r o v Ho Hv; [reflexivity|].
  inversion ND as [|? ? Hn ND']; subst. cbn [scan_fields hget].
  assert (Hnot : forall what, f = field_name src what -> hget fs (field_name src what) = None).
  { intros what ->. clear - Hn. induction fs as [|[g w] fs IHf]; [reflexivity|]. cbn [hget map fst] in *.
    destruct (beqs g (field_name src what)) eqn:E; [apply beqs_true in E; subst; exfalso; apply Hn; left; reflexivity|].
    apply IHf. intros H. apply Hn. right. exact H. }
  destruct (own_suffix src f) as [name|] eqn:Eo.
  - assert (Ef : f = field_name src name) by (apply own_suffix_some; exact Eo).
    subst f.
    assert (Bself : forall w, beqs (field_name src w) (field_name src w) = true) by (intros; apply beqs_true; reflexivity).
    assert (Bne : forall a b, a <> b -> beqs (field_name src a) (field_name src b) = false).
    { intros a b Hab. destruct (beqs (field_name src a) (field_name src b)) eqn:E; [|reflexivity].
      apply beqs_true in E. apply field_name_inj in E. contradiction. }
    destruct (beqs name s_offset) eqn:E1.
    + apply beqs_true in E1. subst name. rewrite Bself. rewrite !Bne by discriminate.
      specialize (Ho x). cbn [hget] in Ho. rewrite Bself in Ho.
      destruct (parse_int64 x) as [z|] eqn:Pz; [|exfalso; apply (Ho eq_refl); reflexivity].
      rewrite IH; try assumption.
      * rewrite (Hnot s_offset eq_refl). reflexivity.
      * intros y Hy. rewrite (Hnot s_offset eq_refl) in Hy. discriminate.
      * intros y Hy. apply Hv. cbn [hget]. rewrite Bne by discriminate. exact Hy.
    + destruct (beqs name s_runid) eqn:E2.
      * apply beqs_true in E2. subst name. rewrite Bself. rewrite !Bne by discriminate.
        rewrite IH; try assumption.
        -- rewrite (Hnot s_runid eq_refl). reflexivity.
        -- intros y Hy. apply Ho. cbn [hget]. rewrite Bne by discriminate. exact Hy.
        -- intros y Hy. apply Hv. cbn [hget]. rewrite Bne by discriminate. exact Hy.
      * destruct (beqs name s_version) eqn:E3.
        -- apply beqs_true in E3. subst name. rewrite Bself. rewrite !Bne by discriminate.
           specialize (Hv x). cbn [hget] in Hv. rewrite Bself in Hv.
           destruct (parse_int64 x) as [z|] eqn:Pz; [|exfalso; apply (Hv eq_refl); reflexivity].
           rewrite IH; try assumption.
           ++ rewrite (Hnot s_version eq_refl). reflexivity.
           ++ intros y Hy. apply Ho. cbn [hget]. rewrite Bne by discriminate. exact Hy.
           ++ intros y Hy. rewrite (Hnot s_version eq_refl) in Hy. discriminate.
        -- assert (N1 : name <> s_offset) by (intros ->; assert (beqs s_offset s_offset = true) by (apply beqs_true; reflexivity); congruence).
           assert (N2 : name <> s_runid) by (intros ->; assert (beqs s_runid s_runid = true) by (apply beqs_true; reflexivity); congruence).
           assert (N3 : name <> s_version) by (intros ->; assert (beqs s_version s_version = true) by (apply beqs_true; reflexivity); congruence).
           rewrite !Bne by assumption.
           apply IH; try assumption.
           ++ intros y Hy. apply Ho. cbn [hget]. rewrite Bne by assumption. exact Hy.
           ++ intros y Hy. apply Hv. cbn [hget]. rewrite Bne by assumption. exact Hy.
  - assert (Nf : forall what, beqs f (field_name src what) = false).
    { intros what. destruct (beqs f (field_name src what)) eqn:E; [|reflexivity].
      apply beqs_true in E. subst f. rewrite own_suffix_field in Eo. discriminate. }
    rewrite !Nf. apply IH; try assumption.
    + intros y Hy. apply Ho. cbn [hget]. rewrite Nf. exact Hy.
    + intros y Hy. apply Hv. cbn [hget]. rewrite Nf. exact Hy.
Qed.

Theorem reads_what_sender_writes src runid offset fs :
  NoDup (map fst fs) -> in_int64 offset = true ->
  fetch src (Some (sender_write src runid offset fs)) = Some (runid, offset, 1).
Proof.
  intros ND Hoff. unfold fetch, sender_write.
  set (f1 := hset fs (field_name src s_runid) runid).
  set (f2 := hset f1 (field_name src s_version) (render 1)).
  set (f3 := hset f2 (field_name src s_offset) (render offset)).
  assert (N3 : NoDup (map fst f3)) by (repeat apply hset_keys_nodup; exact ND).
  assert (Go : hget f3 (field_name src s_offset) = Some (render offset)) by apply hget_hset_same.
  assert (Gv : hget f3 (field_name src s_version) = Some (render 1)).
  { unfold f3. rewrite hget_hset_other by (intros H; apply field_name_inj in H; discriminate). apply hget_hset_same. }
  assert (Gr : hget f3 (field_name src s_runid) = Some runid).
  { unfold f3, f2. rewrite !hget_hset_other by (intros H; apply field_name_inj in H; discriminate). apply hget_hset_same. }
  rewrite scan_fields_lookup; try exact N3.
  - rewrite Go, Gv, Gr. rewrite !parse_int64_render by (try exact Hoff; reflexivity). reflexivity.
  - intros x Hx. rewrite Go in Hx. inversion Hx; subst. rewrite parse_int64_render by exact Hoff. discriminate.
  - intros x Hx. rewrite Gv in Hx. inversion Hx; subst. rewrite parse_int64_render by reflexivity. discriminate.
Qed.

(* ---- LoadCheckpoint as a whole ---- *)
Definition entries_of (src : bytes) (dbs : list (Z * option fields)) (es : list entry) : Prop :=
  map (fun dh => match fetch src (snd dh) with Some e => Some (fst dh, e) | None => None end) dbs = map Some es.

Theorem load_spec src dbs es : entries_of src dbs es ->
  load src dbs =
    let '(m, rid, db, ver) := scan_e es b0 in
    if negb (ver =? -1) && (ver <? fcv_required) then (LoadErr, dbs)
    else let db' := if beqs rid s_unknown then -1 else db in (LoadOk rid m db', clear src db' dbs).
Proof.
  intros H. unfold load. fold b0. rewrite (scan_dbs_entries src dbs b0 es H).
  destruct (scan_e es b0) as [[[m rid] db] ver]. reflexivity.
Qed.

Lemma hdel_spec fs names f v :
  In (f, v) (hdel fs names) <-> In (f, v) fs /\ existsb (fun n => beqs n f) names = false.
Proof.
  unfold hdel. rewrite filter_In. cbn [fst]. split; intros [H1 H2]; split; try assumption.
  - apply negb_true_iff in H2. exact H2.
  - apply negb_true_iff. exact H2.
Qed.

(* databases other than the one resumed from lose exactly this source's runid/offset fields *)
Theorem clear_spec src keep dbs db h : In (db, h) dbs -> db <> keep ->
  exists h', In (db, h') (clear src keep dbs) /\
    match h with
    | None => h' = None
    | Some fs => forall f v, In (f, v) (match h' with Some x => x | None => [] end) <->
                   (In (f, v) fs /\ f <> field_name src s_runid /\ f <> field_name src s_offset)
    end.
Proof.
  intros Hin Hne. unfold clear.
  set (g := fun '(db0, h0) => if db0 =? keep then (db0, h0) else
     (db0, match h0 with None => None | Some fs => match hdel fs [field_name src s_runid; field_name src s_offset] with [] => None | fs' => Some fs' end end)).
  pose proof (in_map g dbs (db, h) Hin) as M. cbn [g] in M.
  destruct (Z.eqb_spec db keep) as [E|_]; [contradiction|].
  eexists. split; [exact M|]. destruct h as [fs|]; [|reflexivity].
  intros f v.
  assert (Q : In (f, v) (hdel fs [field_name src s_runid; field_name src s_offset]) <->
              In (f, v) fs /\ f <> field_name src s_runid /\ f <> field_name src s_offset).
  { rewrite hdel_spec. cbn [existsb]. rewrite orb_false_r, orb_false_iff.
    split; intros [A [B C]]; (split; [exact A|]).
    - split; intros ->; [rewrite (proj2 (beqs_true _ _) eq_refl) in B|rewrite (proj2 (beqs_true _ _) eq_refl) in C]; discriminate.
    - split; [destruct (beqs (field_name src s_runid) f) eqn:X|destruct (beqs (field_name src s_offset) f) eqn:X]; try reflexivity;
        apply beqs_true in X; subst f; contradiction. }
  destruct (hdel fs [field_name src s_runid; field_name src s_offset]) eqn:Eh; exact Q.
Qed.

Lemma clear_keeps src keep dbs h : In (keep, h) dbs -> In (keep, h) (clear src keep dbs).
Proof.
  intros Hin. unfold clear.
  set (g := fun '(db0, h0) => if db0 =? keep then (db0, h0) else
     (db0, match h0 with None => None | Some fs => match hdel fs [field_name src s_runid; field_name src s_offset] with [] => None | fs' => Some fs' end end)).
  pose proof (in_map g dbs (keep, h) Hin) as M. cbn [g] in M. rewrite Z.eqb_refl in M. exact M.
Qed.
