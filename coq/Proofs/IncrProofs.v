(* Proofs/IncrProofs.v — lemmas for C03 and C04. *)
From RS Require Import Base.Bytes Base.Dec Model.RespCodec Model.Filter Model.CmdFilter Model.Checkpoint Model.Incr Proofs.RespProofs.
From Coq Require Import ZifyNat ZifyBool.
Open Scope Z_scope.

(* ================= sender: FIFO, exactly once, for every schedule of items and ticks ================= *)
Lemma flush_flat s : let '(s', g) := flush s in concat g ++ cache s' = cache s /\ bs s' = bs s.
Proof. unfold flush. destruct (cache s) eqn:E; cbn [concat cache bs app]; rewrite ?E, ?app_nil_r; auto. Qed.

Theorem sender_fifo c : forall es s,
  let '(s', gs) := srun c s es in
  concat gs ++ cache s' = cache s ++ survive (bs s) (items_of es).
Proof.
  induction es as [|e es IH]; intros s; cbn [srun items_of flat_map survive].
  - rewrite app_nil_r. reflexivity.
  - destruct (sstep c s e) as [s1 g1] eqn:E1. specialize (IH s1).
    destruct (srun c s1 es) as [s2 g2] eqn:E2. rewrite concat_app, <- app_assoc, IH. clear IH E2.
    destruct e as [i|be]; cbn [sstep app survive] in *.
    + destruct (barrier (it_cmd i) (bs s)) as [b fl] eqn:Eb.
      pose proof (flush_flat s) as Fs. destruct (flush s) as [sf gf] eqn:Ef.
      set (s1' := if fl then (sf, gf) else (s, [])) in *.
      assert (H1 : concat (snd s1') ++ cache (fst s1') = cache s /\ bs (fst s1') = bs s).
      { destruct fl; cbn; auto. }
      destruct s1' as [sa ga]; cbn [fst snd] in H1. destruct H1 as [H1 H1b].
      match type of E1 with context [if ?t then _ else _] => destruct t end.
      * inversion E1; subst; clear E1.
        destruct b; cbn [cache bs]; rewrite ?app_assoc, ?H1; try reflexivity;
          rewrite <- ?app_assoc; cbn [app]; rewrite ?app_assoc, ?H1; reflexivity.
      * match type of E1 with context [flush ?x] => pose proof (flush_flat x) as F2; destruct (flush x) as [s3 g3] end.
        inversion E1; subst; clear E1. destruct F2 as [F2 F2b].
        rewrite concat_app, <- !app_assoc. rewrite (app_assoc (concat g3)), F2, F2b.
        destruct b; cbn [cache bs]; rewrite ?app_assoc, ?H1; try reflexivity;
          rewrite <- ?app_assoc; cbn [app]; rewrite ?app_assoc, ?H1; reflexivity.
    + match type of E1 with context [if ?t then _ else _] => destruct t end.
      * inversion E1; subst. cbn. reflexivity.
      * pose proof (flush_flat s) as F. rewrite E1 in F. destruct F as [F Fb]. rewrite app_assoc, F, Fb. reflexivity.
Qed.

(* bounded latency: a tick that finds the queue empty leaves nothing cached *)
Theorem tick_flushes c s : cache (fst (sstep c s (ETick true))) = [].
Proof.
  cbn [sstep andb]. destruct (cache s) as [|x l] eqn:E.
  - cbn [length Nat.eqb negb]. destruct (_ && _ && _)%bool; [exact E|]. unfold flush. rewrite E. exact E.
  - cbn [length Nat.eqb negb]. rewrite andb_false_r. unfold flush. rewrite E. reflexivity.
Qed.

(* thresholds: a state never holds sender.count or more items after a step *)
Theorem threshold_flush c s e : (0 < i_scount c)%nat ->
  (length (cache (fst (sstep c s e))) < i_scount c)%nat \/ cache (fst (sstep c s e)) = cache s.
Proof.
  intros Hc. destruct e as [i|be]; cbn [sstep].
  - destruct (barrier (it_cmd i) (bs s)) as [b fl]. destruct (if fl then flush s else (s, [])) as [s1 g1].
    match goal with |- context [if ?t then _ else _] => destruct t eqn:T end.
    + left. cbn [fst]. apply andb_true_iff in T. destruct T as [T _]. apply Nat.ltb_lt in T. exact T.
    + left. match goal with |- context [flush ?x] => unfold flush; destruct (cache x) eqn:E end; cbn [fst cache length]; [rewrite E; cbn; lia|lia].
  - match goal with |- context [if ?t then _ else _] => destruct t end; [right; reflexivity|].
    left. unfold flush. destruct (cache s) eqn:E; cbn [fst cache length]; [rewrite E; cbn; lia|lia].
Qed.

(* source MULTI / EXEC never reach the target: survivors contain no marker when the stream is
   well bracketed (no MULTI while a transaction is open) *)
Fixpoint well_bracketed (b : bstat) (is : list item) : Prop :=
  match is with
  | [] => True
  | i :: r => let '(b', _) := barrier (it_cmd i) b in
              (match b with BHoldStart | BHolding => bmap (it_cmd i) <> Some BHoldStart | _ => True end) /\ well_bracketed b' r
  end.
Definition is_marker (i : item) : bool := beqs (it_cmd i) w_multi || beqs (it_cmd i) w_exec.

Lemma bmap_cases cmd : (bmap cmd = Some BAdd /\ beqs cmd w_select = true) \/
                       (bmap cmd = Some BHoldStart /\ beqs cmd w_multi = true) \/
                       (bmap cmd = Some BHoldEnd /\ beqs cmd w_exec = true /\ beqs cmd w_multi = false) \/
                       (bmap cmd = None /\ beqs cmd w_multi = false /\ beqs cmd w_exec = false).
Proof.
  unfold bmap. destruct (beqs cmd w_select) eqn:E1; [left; auto|].
  destruct (beqs cmd w_multi) eqn:E2; [right; left; auto|].
  destruct (beqs cmd w_exec) eqn:E3; [right; right; left; auto|right; right; right; auto].
Qed.

Theorem survive_drops_markers : forall is b, well_bracketed b is ->
  survive b is = filter (fun i => negb (is_marker i)) is.
Proof.
  induction is as [|i r IH]; intros b W; [reflexivity|]. cbn [survive filter well_bracketed] in *.
  unfold is_marker. unfold barrier in *.
  destruct (bmap_cases (it_cmd i)) as [[M S]|[[M S]|[[M [S S']]|[M [S S']]]]]; rewrite M in *.
  - assert (Nm : beqs (it_cmd i) w_multi = false /\ beqs (it_cmd i) w_exec = false).
    { apply beqs_true in S. rewrite S. split; reflexivity. }
    destruct Nm as [N1 N2]. rewrite N1, N2. cbn [orb negb].
    destruct b; destruct W as [_ W]; cbn; f_equal; apply IH; exact W.
  - rewrite S. cbn [orb negb].
    destruct b; destruct W as [Wm W]; try (exfalso; apply Wm; reflexivity); cbn; apply IH; exact W.
  - rewrite S, S'. cbn [orb negb]. destruct b; destruct W as [_ W]; cbn; apply IH; exact W.
  - rewrite S, S'. cbn [orb negb]. destruct b; destruct W as [_ W]; cbn; f_equal; apply IH; exact W.
Qed.

(* ================= parser: refines the reference filter semantics ================= *)
(* what the target executes, by connection db: SELECT (either case) switches, the rest is data *)
Definition is_select (cmd : bytes) : bool := beqs cmd w_select || beqs cmd w_SELECT.
Fixpoint delivered (cdb : Z) (is : list item) : list (Z * bytes * list bytes) :=
  match is with
  | [] => []
  | i :: r =>
      if is_select (it_cmd i) then
        match it_args i with
        | [a] => match parse_int64 a with Some n => delivered n r | None => delivered cdb r end
        | _ => delivered cdb r
        end
      else (cdb, it_cmd i, it_args i) :: delivered cdb r
  end.

(* reference: walk the source stream with the source-selected db; drop filtered dbs, filtered
   commands, sentinel hello publishes, key-rejected commands and MULTI/EXEC; rewrite arguments;
   tag with target.db when configured *)
Definition tdb (c : icfg) (sdb : Z) : Z := match i_tdb c with Some t => t | None => sdb end.
Fixpoint spec (c : icfg) (sdb : Z) (byp : bool) (rs : list raw) : list (Z * bytes * list bytes) :=
  match rs with
  | [] => []
  | r :: rs' =>
      match kind_of r with
      | KSelect n => spec c n (filter_db (i_f c) n) rs'
      | KBad => []
      | KMulti | KExec => spec c sdb byp rs'
      | KPing => (if byp || rkeyrej c r then [] else [(tdb c sdb, r_cmd r, new_args c r)]) ++ spec c sdb byp rs'
      | KOther => (if byp || rfiltered c r || rkeyrej c r then [] else [(tdb c sdb, r_cmd r, new_args c r)]) ++ spec c sdb byp rs'
      end
  end.

Definition rel (c : icfg) (s : pst) (cdb sdb : Z) (byp : bool) : Prop :=
  bypass s = byp /\
  match i_tdb c with
  | Some t => (tsel s = true -> cdb = t) /\ (byp = false -> tsel s = true)
  | None => byp = false -> cdb = sdb
  end.

Lemma rel_cdb c s cdb sdb byp : rel c s cdb sdb byp -> byp = false -> cdb = tdb c sdb.
Proof. unfold rel, tdb. intros [_ H] E. destruct (i_tdb c); [destruct H; auto|auto]. Qed.

Definition notmarker (i : item) : bool := negb (is_marker i).

(* select is not a key-addressed command: the key filter passes it unchanged *)
Lemma select_not_in_table : lookup_cmd w_select Gen.CmdTable.cmd_table = None.
Proof. vm_compute. reflexivity. Qed.

Lemma hfk_select f args : handle_filter_key f w_select args = (args, false).
Proof.
  unfold handle_filter_key. destruct (negb (key_filter_configured f)); [reflexivity|].
  rewrite select_not_in_table. reflexivity.
Qed.

Lemma kind_select_cmd r n : kind_of r = KSelect n -> r_cmd r = w_select /\ exists a, r_args r = [a] /\ parse_int64 a = Some n.
Proof.
  unfold kind_of. destruct (beqs (r_cmd r) w_select) eqn:E.
  - apply beqs_true in E. destruct (r_args r) as [|a [|b l]]; try discriminate.
    destruct (parse_int64 a) eqn:P; [|discriminate]. intros H. inversion H; subst. split; [exact E|]. exists a. auto.
  - destruct (beqs (r_cmd r) w_multi); [discriminate|]. destruct (beqs (r_cmd r) w_exec); [discriminate|].
    destruct (beqs (r_cmd r) w_ping); discriminate.
Qed.

Lemma kind_other_not_select r : r_cmd r <> w_SELECT ->
  (kind_of r = KMulti \/ kind_of r = KExec \/ kind_of r = KPing \/ kind_of r = KOther) -> is_select (r_cmd r) = false.
Proof.
  intros HU H. unfold is_select. unfold kind_of in H.
  destruct (beqs (r_cmd r) w_select) eqn:E.
  - exfalso. destruct (r_args r) as [|a [|b l]]; try (destruct H as [H|[H|[H|H]]]; discriminate).
    destruct (parse_int64 a); destruct H as [H|[H|[H|H]]]; discriminate.
  - destruct (beqs (r_cmd r) w_SELECT) eqn:E2; [apply beqs_true in E2; contradiction|reflexivity].
Qed.

Lemma marker_kinds r : r_cmd r <> w_SELECT ->
  match kind_of r with
  | KMulti | KExec => is_marker {| it_cmd := r_cmd r; it_args := [] ; it_off := 0; it_db := 0 |} = true
  | KPing | KOther => beqs (r_cmd r) w_multi || beqs (r_cmd r) w_exec = false
  | _ => True
  end.
Proof.
  intros _. unfold kind_of, is_marker. cbn [it_cmd].
  destruct (beqs (r_cmd r) w_select) eqn:E1.
  - destruct (r_args r) as [|a [|b l]]; auto. destruct (parse_int64 a); auto.
  - destruct (beqs (r_cmd r) w_multi) eqn:E2; [reflexivity|].
    destruct (beqs (r_cmd r) w_exec) eqn:E3; [reflexivity|].
    destruct (beqs (r_cmd r) w_ping); reflexivity.
Qed.

Definition cfg_ok (c : icfg) : Prop := match i_tdb c with Some t => in_int64 t = true | None => True end.

Theorem parser_refines_spec c base : cfg_ok c -> forall rs s cdb sdb byp items,
  rel c s cdb sdb byp ->
  Forall (fun r => r_cmd r <> w_SELECT) rs ->        (* ParseArgs lower-cases command names *)
  parse_all c base s rs = Some items ->
  delivered cdb (filter notmarker items) = spec c sdb byp rs.
Proof.
  intros CO. induction rs as [|r rs IH]; intros s cdb sdb byp items R LC PA.
  - cbn in PA. inversion PA; subst. reflexivity.
  - cbn [parse_all] in PA. destruct (parse_step c base s r) as [[s' out]|] eqn:PS; [|discriminate].
    destruct (parse_all c base s' rs) as [t|] eqn:PT; [|discriminate]. inversion PA; subst. clear PA.
    inversion LC as [|? ? LCr LCrs]; subst.
    pose proof R as [Hb Hr]. rewrite filter_app.
    pose proof (marker_kinds r LCr) as MK.
    unfold parse_step in PS. cbn [spec].
    destruct (kind_of r) as [n| | | | |] eqn:K.
    + (* select *)
      destruct (kind_select_cmd r n K) as [Ec [a [Ea Pa]]].
      assert (Erej : rkeyrej c r = false) by (unfold rkeyrej; rewrite Ec, hfk_select; reflexivity).
      assert (Eargs : new_args c r = [a]) by (unfold new_args; rewrite Ec, hfk_select, Ea; reflexivity).
      destruct (filter_db (i_f c) n) eqn:F.
      * inversion PS; subst. cbn [filter app]. eapply IH; [|exact LCrs|exact PT].
        unfold rel. cbn. split; auto. destruct (i_tdb c); [destruct Hr; split; auto; discriminate|discriminate].
      * rewrite Erej in PS. destruct (i_tdb c) as [t0|] eqn:T.
        -- destruct ((t0 =? n) && tsel s) eqn:E.
           ++ inversion PS; subst. cbn [filter app]. eapply IH; [|exact LCrs|exact PT].
              apply andb_true_iff in E. destruct E as [E1 E2]. apply Z.eqb_eq in E1. subst n.
              unfold rel. cbn. rewrite T. destruct Hr. split; auto.
           ++ inversion PS; subst. cbn [filter app].
              match goal with |- context [notmarker ?i] => replace (notmarker i) with true by reflexivity end.
              cbn [app delivered it_cmd it_args]. assert (S : is_select w_SELECT = true) by reflexivity. rewrite S.
              unfold cfg_ok in CO. rewrite T in CO. rewrite parse_int64_render by exact CO.
              eapply IH; [|exact LCrs|exact PT]. unfold rel. cbn. rewrite T. auto.
        -- inversion PS; subst. cbn [filter app]. rewrite Ec.
           match goal with |- context [notmarker ?i] => replace (notmarker i) with true by reflexivity end.
           cbn [app delivered it_cmd it_args]. assert (S : is_select w_select = true) by reflexivity. rewrite S.
           rewrite Eargs, Pa. eapply IH; [|exact LCrs|exact PT]. unfold rel. cbn. rewrite T. auto.
    + discriminate.
    + (* multi *)
      destruct (bypass s || rfiltered c r || rkeyrej c r); inversion PS; subst; cbn [filter app].
      * eapply IH; [exact R|exact LCrs|exact PT].
      * unfold notmarker at 1. unfold is_marker in *. cbn [it_cmd] in *. rewrite MK. cbn [negb]. eapply IH; [exact R|exact LCrs|exact PT].
    + (* exec *)
      destruct (bypass s || rfiltered c r || rkeyrej c r); inversion PS; subst; cbn [filter app].
      * eapply IH; [exact R|exact LCrs|exact PT].
      * unfold notmarker at 1. unfold is_marker in *. cbn [it_cmd] in *. rewrite MK. cbn [negb]. eapply IH; [exact R|exact LCrs|exact PT].
    + (* ping *)
      rewrite Hb in PS. destruct (byp || rkeyrej c r) eqn:E; inversion PS; subst; cbn [filter app].
      * eapply IH; [exact R|exact LCrs|exact PT].
      * unfold notmarker at 1. unfold is_marker. cbn [it_cmd]. rewrite MK. cbn [negb app delivered it_cmd it_args].
        rewrite (kind_other_not_select r LCr) by (rewrite K; auto).
        apply orb_false_iff in E. destruct E as [E _]. rewrite <- (rel_cdb _ _ _ _ _ R E). f_equal. eapply IH; [exact R|exact LCrs|exact PT].
    + (* other *)
      rewrite Hb in PS. destruct (byp || rfiltered c r || rkeyrej c r) eqn:E; inversion PS; subst; cbn [filter app].
      * eapply IH; [exact R|exact LCrs|exact PT].
      * unfold notmarker at 1. unfold is_marker. cbn [it_cmd]. rewrite MK. cbn [negb app delivered it_cmd it_args].
        rewrite (kind_other_not_select r LCr) by (rewrite K; auto).
        apply orb_false_iff in E. destruct E as [E _]. apply orb_false_iff in E. destruct E as [E _].
        rewrite <- (rel_cdb _ _ _ _ _ R E). f_equal. eapply IH; [exact R|exact LCrs|exact PT].
Qed.

(* ================= C04: groups, checkpoints, cuts, resume ================= *)

(* shape of what sendFunc writes for a group when resume is on *)
Theorem group_shape c seen g l : i_resume c = true -> last g {| it_cmd := []; it_args := []; it_off := 0; it_db := 0 |} = l -> g <> [] ->
  (length g <> 1%nat \/ beqs (it_cmd l) w_ping = false) ->
  exists mid,
    fst (wire_group c seen g) =
      (w_multi, []) :: map tc g ++ mid ++ [(w_hset, [i_ckpt c; field_name (i_src c) s_offset; render (it_off l)]); (w_exec, [])] /\
    (mid = [] \/ mid = [(w_hset, [i_ckpt c; field_name (i_src c) s_runid; i_runid c]);
                        (w_hset, [i_ckpt c; field_name (i_src c) s_version; render 1])]).
Proof.
  intros Hr Hl Hne Hp. unfold wire_group.
  assert (Er : exists rest, rev g = l :: rest).
  { destruct g as [|x g'] using rev_ind; [contradiction|]. rewrite rev_app_distr. cbn [rev app].
    rewrite last_last in Hl. subst. eexists. reflexivity. }
  destruct Er as [rest Er]. rewrite Er. rewrite Hr. cbn [andb].
  assert (Hn : negb ((length g =? 1)%nat && beqs (it_cmd l) w_ping) = true).
  { destruct Hp as [Hp|Hp]; [apply Nat.eqb_neq in Hp; rewrite Hp; reflexivity|rewrite Hp, andb_false_r; reflexivity]. }
  rewrite Hn. destruct (negb (existsb (Z.eqb (it_db l)) seen)); cbn [fst app].
  - exists [(w_hset, [i_ckpt c; field_name (i_src c) s_runid; i_runid c]);
            (w_hset, [i_ckpt c; field_name (i_src c) s_version; render 1])].
    split; [reflexivity|right; reflexivity].
  - exists []. split; [reflexivity|left; reflexivity].
Qed.

(* a single ping (and every group when resume is off) goes out bare *)
Theorem group_bare c seen g : i_resume c = false -> g <> [] -> fst (wire_group c seen g) = map tc g.
Proof. intros Hr Hne. unfold wire_group. destruct (rev g) eqn:E; [destruct g; [contradiction|apply (f_equal (@length item)) in E; rewrite rev_length in E; discriminate]|]. rewrite Hr. reflexivity. Qed.

(* ---- crash atomicity of MULTI ... EXEC groups on one Redis connection ---- *)
Section Atomic.
Variable D : Type.            (* everything the target stores (all dbs, checkpoint hashes) and the connection's db *)
Variable cmd : Type.
Variable apply : D -> cmd -> D.

Inductive wcmd := TMulti | TExec | TCmd (c : cmd).
Definition cstate := (D * option (list cmd))%type.
Definition exec1 (s : cstate) (t : wcmd) : cstate :=
  match s, t with
  | (d, None), TMulti => (d, Some [])
  | (d, None), TExec => (d, None)
  | (d, None), TCmd c => (apply d c, None)
  | (d, Some q), TMulti => (d, Some q)
  | (d, Some q), TExec => (fold_left apply q d, None)
  | (d, Some q), TCmd c => (d, Some (q ++ [c]))
  end.
Definition exec (s : cstate) (ts : list wcmd) : cstate := fold_left exec1 ts s.
(* the connection is cut after the prefix: an open MULTI is discarded *)
Definition after_cut (d : D) (ts : list wcmd) : D := fst (exec (d, None) ts).

Inductive wgroup := GBare (c : cmd) | GTx (l : list cmd).
Definition wire1 (g : wgroup) : list wcmd :=
  match g with GBare c => [TCmd c] | GTx l => TMulti :: map TCmd l ++ [TExec] end.
Definition wire (gs : list wgroup) : list wcmd := flat_map wire1 gs.
Definition gapply (d : D) (g : wgroup) : D :=
  match g with GBare c => apply d c | GTx l => fold_left apply l d end.

Lemma exec_queue d q l : exec (d, Some q) (map TCmd l) = (d, Some (q ++ l)).
Proof.
  revert q. induction l as [|c l IH]; intros q; cbn [map].
  - rewrite app_nil_r. reflexivity.
  - unfold exec in *. cbn [fold_left exec1]. rewrite IH. rewrite <- app_assoc. reflexivity.
Qed.

Lemma exec_group d g : exec (d, None) (wire1 g) = (gapply d g, None).
Proof.
  destruct g as [c|l]; cbn [wire1 gapply]; [reflexivity|].
  unfold exec. cbn [fold_left exec1]. rewrite fold_left_app. fold (exec (d, Some []) (map TCmd l)).
  rewrite exec_queue. reflexivity.
Qed.

Lemma partial_group d g k : (k < length (wire1 g))%nat -> after_cut d (firstn k (wire1 g)) = d.
Proof.
  destruct g as [c|l]; cbn [wire1 length]; intros Hk.
  - assert (k = 0%nat) by lia. subst. reflexivity.
  - destruct k as [|k]; [reflexivity|]. cbn [firstn]. unfold after_cut, exec. cbn [fold_left exec1].
    rewrite app_length in Hk. cbn [length] in Hk.
    rewrite firstn_app. replace (k - length (map TCmd l))%nat with 0%nat by (rewrite map_length in *; lia). cbn [firstn]. rewrite app_nil_r.
    rewrite firstn_map. fold (exec (d, Some []) (map TCmd (firstn k l))). rewrite exec_queue. reflexivity.
Qed.

Theorem crash_atomic : forall gs d k,
  exists j, (j <= length gs)%nat /\ after_cut d (firstn k (wire gs)) = fold_left gapply (firstn j gs) d.
Proof.
  induction gs as [|g gs IH]; intros d k.
  - exists 0%nat. cbn. rewrite firstn_nil. split; [lia|reflexivity].
  - cbn [wire flat_map]. destruct (le_lt_dec (length (wire1 g)) k) as [Hge|Hlt].
    + rewrite firstn_app. rewrite firstn_all2 by lia.
      destruct (IH (gapply d g) (k - length (wire1 g))%nat) as (j & Hj & E).
      exists (S j). split; [cbn [length]; lia|].
      unfold after_cut, exec in *. rewrite fold_left_app. fold (exec (d, None) (wire1 g)).
      rewrite exec_group. cbn [firstn fold_left]. exact E.
    + rewrite firstn_app. replace (k - length (wire1 g))%nat with 0%nat by lia. cbn [firstn]. rewrite app_nil_r.
      exists 0%nat. split; [lia|]. cbn [firstn fold_left]. apply partial_group. exact Hlt.
Qed.
End Atomic.

(* ---- resume: the reference semantics splits at any point of the source history ---- *)
Fixpoint state_after (c : icfg) (sdb : Z) (byp : bool) (rs : list raw) : Z * bool :=
  match rs with
  | [] => (sdb, byp)
  | r :: rs' => match kind_of r with
                | KSelect n => state_after c n (filter_db (i_f c) n) rs'
                | _ => state_after c sdb byp rs'
                end
  end.

Theorem spec_app c : forall rs1 sdb byp rs2, Forall (fun r => kind_of r <> KBad) rs1 ->
  spec c sdb byp (rs1 ++ rs2) =
    spec c sdb byp rs1 ++ spec c (fst (state_after c sdb byp rs1)) (snd (state_after c sdb byp rs1)) rs2.
Proof.
  induction rs1 as [|r rs1 IH]; intros sdb byp rs2 NB; [reflexivity|].
  inversion NB as [|? ? NBr NBrs]; subst. cbn [app spec state_after].
  destruct (kind_of r) eqn:K; try contradiction; rewrite ?IH by exact NBrs; try reflexivity;
    rewrite <- app_assoc; reflexivity.
Qed.

(* restarting after a cut: a fresh parser whose connection is in the recorded db (the injected
   `select startDbId`, or db 0 of a new connection) continues exactly where the reference is *)
Theorem resume_equiv c base' : i_tdb c = None -> forall rs1 rs2 items2,
  Forall (fun r => kind_of r <> KBad) rs1 ->
  Forall (fun r => r_cmd r <> w_SELECT) rs2 ->
  snd (state_after c 0 false rs1) = false ->
  parse_all c base' pst0 rs2 = Some items2 ->
  spec c 0 false (rs1 ++ rs2) =
    spec c 0 false rs1 ++ delivered (fst (state_after c 0 false rs1)) (filter notmarker items2).
Proof.
  intros T rs1 rs2 items2 NB LC Hb PA. rewrite spec_app by exact NB. f_equal. rewrite Hb.
  symmetry. eapply (parser_refines_spec c base'); [unfold cfg_ok; rewrite T; exact I| |exact LC|exact PA].
  unfold rel, pst0. cbn. rewrite T. auto.
Qed.

(* offsets of forwarded items are the decoder offsets of the commands they come from *)
Lemma parse_step_offsets c base s r s' out : parse_step c base s r = Some (s', out) ->
  Forall (fun i => it_off i = base + r_end r) out.
Proof.
  unfold parse_step. intros PS.
  destruct (kind_of r); try discriminate.
  - destruct (filter_db (i_f c) n); [inversion PS; constructor|].
    destruct (rkeyrej c r); [inversion PS; constructor|].
    destruct (i_tdb c) as [t|].
    + destruct ((t =? n) && tsel s); inversion PS; subst; repeat constructor.
    + inversion PS; subst; repeat constructor.
  - destruct (bypass s || rfiltered c r || rkeyrej c r); inversion PS; subst; repeat constructor.
  - destruct (bypass s || rfiltered c r || rkeyrej c r); inversion PS; subst; repeat constructor.
  - destruct (bypass s || rkeyrej c r); inversion PS; subst; repeat constructor.
  - destruct (bypass s || rfiltered c r || rkeyrej c r); inversion PS; subst; repeat constructor.
Qed.

Theorem item_offsets c base : forall rs s items, parse_all c base s rs = Some items ->
  Forall (fun i => exists r, In r rs /\ it_off i = base + r_end r) items.
Proof.
  induction rs as [|r rs IH]; intros s items PA.
  - inversion PA. constructor.
  - cbn [parse_all] in PA. destruct (parse_step c base s r) as [[s' out]|] eqn:PS; [|discriminate].
    destruct (parse_all c base s' rs) as [t|] eqn:PT; [|discriminate]. inversion PA; subst.
    apply Forall_app. split.
    + eapply Forall_impl; [|apply (parse_step_offsets _ _ _ _ _ _ PS)]. intros i Hi. exists r. split; [left; reflexivity|exact Hi].
    + eapply Forall_impl; [|apply (IH _ _ PT)]. intros i [r0 [H1 H2]]. exists r0. split; [right; exact H1|exact H2].
Qed.
