(* Proofs/RestoreProofs.v — RestoreRdbEntry: every route writes the source value and expiry on a
   fresh key or under rewrite; none / ignore leave a busy key untouched (RESTORE and quicklist
   routes); chunk records of a split hash compose; CompareVersion is total; refutations of the
   pinned variants (F3, F6, F7, F8) and of the big-key route under none/ignore (F9). *)
From RS Require Import Base.Bytes Base.Endian Base.Dec Model.RespCodec Model.Digest Model.Rdb Model.Cupcake Model.Restore.
From Coq Require Import Lia.
Open Scope N_scope.

Section Proofs.
Variable pf : bytes -> option N.

Definition nonempty (v : logical) : Prop :=
  match v with LString _ => True | LList l | LSet l => l <> [] | LHash l => l <> [] | LZSet l => l <> [] end.

Lemma ttl_of_zero now : ttl_of now 0 = 0. Proof. reflexivity. Qed.

Lemma push_norm v : nonempty v -> push v None = Some (Some (TLog (norm v))).
Proof. destruct v as [s|l|l|l|l]; simpl; intros H; try reflexivity; destruct l; try contradiction; reflexivity. Qed.

(* a whole (unsplit) record whose payload Redis decodes to v *)
Record whole (e : entry) (v : logical) : Prop := {
  w_real : e_real_count e = 0;
  w_need : e_need_len e = 1;
  w_head : exists tb body, e_value e = tb :: body /\ b2n tb = e_type e /\ e_type e <= 14;
  w_dec : decode_dump pf (e_value e) = Some v;
  w_ne : nonempty v }.

Lemma elems_of_whole e v : whole e v -> elems_of pf e = Some v.
Proof.
  intros [Hr Hn (tb & body & Hv & Ht & Hle) Hd _].
  unfold decode_dump in Hd. rewrite Hv in Hd.
  destruct (verify_dump (tb :: body)); [|discriminate].
  destruct (read_logical pf (b2n tb) body) as [[v' rest]|] eqn:Erl; [|discriminate].
  injection Hd as <-.
  unfold elems_of. rewrite Hv, Hr, Hn.
  destruct (b2n tb =? 4) eqn:E4.
  - apply N.eqb_eq in E4. rewrite E4 in Erl.
    change (1 =? 1) with true. change (0 =? 0) with true. cbv iota.
    unfold read_logical in Erl. cbn [N.eqb Pos.eqb] in Erl.
    unfold bind in Erl.
    destruct (cup_read_len body) as [[[rlen enc] r1]|]; [|discriminate].
    cbn [fst] in Erl. unfold pair_p, bind.
    destruct (rep_count rlen _ r1) as [[l r2]|]; [|discriminate].
    unfold ret in Erl. injection Erl as <- _. reflexivity.
  - assert (Hlt : (14 <? b2n tb) = false) by (apply N.ltb_ge; rewrite Ht; exact Hle).
    rewrite Hlt, Erl. reflexivity.
Qed.

Lemma elements_fresh e v ttl now : whole e v -> ttl = ttl_of now (e_expire e) ->
  elements pf e ttl None = (Some {| k_val := TLog (norm v); k_ttl := ttl |}, Done).
Proof.
  intros Hw ->. unfold elements. rewrite (elems_of_whole _ _ Hw), (push_norm _ (w_ne _ _ Hw)).
  unfold with_val. destruct (e_expire e =? 0) eqn:E0.
  - apply N.eqb_eq in E0. rewrite E0, ttl_of_zero. reflexivity.
  - reflexivity.
Qed.

Lemma payload_whole e v : whole e v -> payload_value pf (e_value e) = Some (TLog (norm v)).
Proof.
  intros Hw. destruct (w_head _ _ Hw) as (tb & body & Hv & Ht & Hle).
  unfold payload_value. pose proof (w_dec _ _ Hw) as Hd. rewrite Hv in *.
  assert (Hlt : (14 <? b2n tb) = false) by (apply N.ltb_ge; rewrite Ht; exact Hle).
  rewrite Hlt, Hd. reflexivity.
Qed.

(* RESTORE on a free key (or with REPLACE): stored, or "Bad data format" *)
Lemma do_restore_free c e v ttl rep s : whole e v -> (s = None \/ rep = true) ->
  do_restore pf c (e_value e) ttl rep s = ROk (Some {| k_val := TLog (norm v); k_ttl := ttl |})
  \/ do_restore pf c (e_value e) ttl rep s = RBad.
Proof.
  intros Hw Hs. pose proof (payload_whole _ _ Hw) as Hp.
  destruct (w_head _ _ Hw) as (tb & body & Hv & _).
  unfold do_restore. rewrite Hv in *.
  assert (Hm : match s, rep with Some _, false => False | _, _ => True end) by (destruct s, rep; try exact I; destruct Hs; discriminate).
  destruct s as [k|], rep; try contradiction;
    (destruct ((0 <? c_max_type c) && (c_max_type c <? b2n tb)); [right; reflexivity | left; rewrite Hp; reflexivity]).
Qed.

Theorem restore_writes c now e t v : whole e v -> (t_slot t = None \/ c_policy c = PRewrite) ->
  restore pf c now e t =
    ({| t_slot := Some {| k_val := TLog (norm v); k_ttl := ttl_of now (e_expire e) |}; t_scripts := t_scripts t |}, Done).
Proof.
  intros Hw Hs.
  pose proof (elements_fresh e v _ now Hw eq_refl) as Hel.
  destruct (w_head _ _ Hw) as (tb & body & Hv & Ht & Hle).
  unfold restore. cbv zeta.
  destruct (e_type e =? 14) eqn:E14.
  { destruct (t_slot t) as [k|], (c_policy c); try (rewrite Hel; reflexivity);
      destruct Hs as [Hs|Hs]; discriminate. }
  assert (E250 : (e_type e =? 250) = false) by (apply N.eqb_neq; lia).
  rewrite E250. cbn [andb].
  destruct (is_big c e).
  { match goal with |- context [elements pf e _ ?s] => replace s with (@None kval) end.
    - rewrite Hel. reflexivity.
    - rewrite (w_need _ _ Hw). change (1 =? 1) with true. rewrite Bool.andb_true_r.
      destruct Hs as [-> | Hp]; [destruct (is_rewrite c); reflexivity | unfold is_rewrite; rewrite Hp; reflexivity]. }
  unfold restore_cmd, fallback.
  destruct (t_slot t) as [k|] eqn:Es.
  - destruct Hs as [Hs|Hp]; [discriminate|]. rewrite Hp.
    change (do_restore pf c (e_value e) (ttl_of now (e_expire e)) false (Some k)) with RBusy.
    destruct (c_replace c).
    + destruct (do_restore_free c e v (ttl_of now (e_expire e)) true (Some k) Hw (or_intror eq_refl)) as [-> | ->].
      * reflexivity.
      * unfold is_rewrite. rewrite Hp, Hel. reflexivity.
    + destruct (do_restore_free c e v (ttl_of now (e_expire e)) false None Hw (or_introl eq_refl)) as [-> | ->].
      * reflexivity.
      * unfold is_rewrite. rewrite Hp, Hel. reflexivity.
  - destruct (do_restore_free c e v (ttl_of now (e_expire e)) false None Hw (or_introl eq_refl)) as [-> | ->].
    + reflexivity.
    + destruct (is_rewrite c); rewrite Hel; reflexivity.
Qed.

(* a busy key under none / ignore, RESTORE and quicklist routes: nothing is written *)
Definition not_script (e : entry) : Prop := e_type e <> 250.

Lemma busy_route c now e t k o : t_slot t = Some k -> is_big c e = false -> not_script e -> e_value e <> [] ->
  (c_policy c = PNone /\ o = Failed) \/ (c_policy c = PIgnore /\ o = Done) ->
  restore pf c now e t = (t, o).
Proof.
  intros Hs Hb Hn Hv Hp. unfold restore. cbv zeta. rewrite Hs.
  destruct (e_type e =? 14).
  { destruct Hp as [[-> ->] | [-> ->]]; reflexivity. }
  assert (E250 : (e_type e =? 250) = false) by (apply N.eqb_neq; exact Hn).
  rewrite E250, Hb. cbn [andb]. unfold restore_cmd, do_restore.
  destruct t as [sl sc]. cbn in Hs. subst sl. cbn [t_slot t_scripts fst snd].
  destruct Hp as [[-> ->] | [-> ->]]; reflexivity.
Qed.

Theorem restore_none c now e t k : c_policy c = PNone -> t_slot t = Some k -> is_big c e = false -> not_script e -> e_value e <> [] ->
  restore pf c now e t = (t, Failed).
Proof. intros Hp Hs Hb Hn Hv. apply (busy_route c now e t k Failed Hs Hb Hn Hv). left. split; [exact Hp|reflexivity]. Qed.

Theorem restore_ignore c now e t k : c_policy c = PIgnore -> t_slot t = Some k -> is_big c e = false -> not_script e -> e_value e <> [] ->
  restore pf c now e t = (t, Done).
Proof. intros Hp Hs Hb Hn Hv. apply (busy_route c now e t k Done Hs Hb Hn Hv). right. split; [exact Hp|reflexivity]. Qed.

(* lua script records: loaded iff filter.lua is off; the keyspace is not touched *)
Theorem restore_lua c now e t : e_type e = 250 -> e_key e = [x6c; x75; x61] ->
  restore pf c now e t =
    ({| t_slot := t_slot t; t_scripts := if c_filter_lua c then t_scripts t else t_scripts t ++ [e_value e] |}, Done).
Proof.
  intros Ht Hk. unfold restore. cbv zeta. rewrite Ht, Hk. change (250 =? 14) with false. change (250 =? 250) with true.
  cbn [andb]. change (beqs [x6c; x75; x61] [x6c; x75; x61]) with true. cbv iota.
  destruct t as [sl sc]. cbn. destruct (c_filter_lua c); reflexivity.
Qed.

(* ---- split hashes ---- *)
Lemma upsert_all_app {V} (a b : list (bytes * V)) acc : upsert_all (a ++ b) acc = upsert_all b (upsert_all a acc).
Proof. revert acc. induction a as [|[k v] a IH]; intros acc; simpl; [reflexivity | apply IH]. Qed.

Fixpoint restore_all (c : cfg) (now : N) (es : list entry) (t : tstate) : tstate * routcome :=
  match es with
  | [] => (t, Done)
  | e :: r => match restore pf c now e t with (t', Done) => restore_all c now r t' | x => x end
  end.

Definition chunk_ok (x : N) (e : entry) (p : list (bytes * bytes)) : Prop :=
  e_type e = 4 /\ e_need_len e = 0 /\ e_real_count e <> 0 /\ elems_of pf e = Some (LHash p) /\ (e_expire e = x \/ e_expire e = 0).

Lemma is_big_chunk c e : e_type e = 4 -> e_real_count e <> 0 -> is_big c e = true.
Proof.
  intros Ht Hr. unfold is_big. rewrite Ht. change (4 =? 15) with false. cbn [negb andb].
  apply N.eqb_neq in Hr. rewrite Hr. cbn [negb]. apply Bool.orb_true_r.
Qed.

Lemma chunks_tail c now x es ps : Forall2 (chunk_ok x) es ps -> forall acc sc, acc <> [] ->
  restore_all c now es {| t_slot := Some {| k_val := TLog (LHash (upsert_all acc [])); k_ttl := ttl_of now x |}; t_scripts := sc |} =
  ({| t_slot := Some {| k_val := TLog (LHash (upsert_all (acc ++ concat ps) [])); k_ttl := ttl_of now x |}; t_scripts := sc |}, Done).
Proof.
  induction 1 as [|e p es ps (Ht & Hn & Hr & Hel & Hx) _ IH]; intros acc sc Hacc.
  - cbn [restore_all concat]. rewrite app_nil_r. reflexivity.
  - cbn [restore_all concat].
    assert (Hstep : restore pf c now e {| t_slot := Some {| k_val := TLog (LHash (upsert_all acc [])); k_ttl := ttl_of now x |}; t_scripts := sc |}
              = ({| t_slot := Some {| k_val := TLog (LHash (upsert_all (acc ++ p) [])); k_ttl := ttl_of now x |}; t_scripts := sc |}, Done)).
    { unfold restore. cbv zeta. rewrite Ht. change (4 =? 14) with false. change (4 =? 250) with false. cbn [andb].
      rewrite (is_big_chunk c e Ht Hr). rewrite Hn. change (0 =? 1) with false. rewrite Bool.andb_false_r.
      cbn [t_slot t_scripts]. unfold elements. rewrite Hel. cbn [k_val].
      destruct p as [|q p].
      - cbn [push with_val is_string fst snd]. rewrite app_nil_r.
        destruct Hx as [Hx|Hx]; rewrite Hx.
        + destruct (x =? 0); reflexivity.
        + reflexivity.
      - cbn [push with_val is_string fst snd k_ttl]. rewrite upsert_all_app.
        destruct Hx as [Hx|Hx]; rewrite Hx.
        + destruct (x =? 0); reflexivity.
        + reflexivity. }
    rewrite Hstep. rewrite (IH (acc ++ p) sc).
    + rewrite <- app_assoc. reflexivity.
    + destruct acc; [contradiction | discriminate].
Qed.

Theorem restore_chunks c now e0 es t p0 ps :
  (t_slot t = None \/ c_policy c = PRewrite) ->
  e_type e0 = 4 -> e_need_len e0 = 1 -> e_real_count e0 <> 0 -> elems_of pf e0 = Some (LHash p0) -> p0 <> [] ->
  Forall2 (chunk_ok (e_expire e0)) es ps ->
  restore_all c now (e0 :: es) t =
    ({| t_slot := Some {| k_val := TLog (LHash (upsert_all (p0 ++ concat ps) [])); k_ttl := ttl_of now (e_expire e0) |};
        t_scripts := t_scripts t |}, Done).
Proof.
  intros Hs Ht Hn Hr Hel Hp0 Hes.
  cbn [restore_all].
  assert (Hstep : restore pf c now e0 t =
    ({| t_slot := Some {| k_val := TLog (LHash (upsert_all p0 [])); k_ttl := ttl_of now (e_expire e0) |}; t_scripts := t_scripts t |}, Done)).
  { unfold restore. cbv zeta. rewrite Ht. change (4 =? 14) with false. change (4 =? 250) with false. cbn [andb].
    rewrite (is_big_chunk c e0 Ht Hr). rewrite Hn. change (1 =? 1) with true. rewrite Bool.andb_true_r.
    match goal with |- context [elements pf e0 _ ?s] => replace s with (@None kval)
      by (destruct Hs as [-> | Hp]; [destruct (is_rewrite c); reflexivity | unfold is_rewrite; rewrite Hp; reflexivity]) end.
    unfold elements. rewrite Hel. destruct p0 as [|q p0]; [contradiction|].
    cbn [push with_val is_string fst snd].
    destruct (e_expire e0 =? 0) eqn:E0; [apply N.eqb_eq in E0; rewrite E0, ttl_of_zero|]; reflexivity. }
  rewrite Hstep. apply chunks_tail; assumption.
Qed.

(* distinct field names: the element-wise result is the source hash itself *)
Lemma upsert_fresh {V} k (v : V) l : ~ In k (map fst l) -> upsert k v l = l ++ [(k, v)].
Proof.
  induction l as [|[k' v'] l IH]; simpl; intros Hn; [reflexivity|].
  destruct (beqs k k') eqn:E.
  - apply beqs_true in E. subst. exfalso. apply Hn. left. reflexivity.
  - rewrite IH; [reflexivity|]. intros Hi. apply Hn. right. exact Hi.
Qed.

Lemma upsert_all_distinct {V} (ps acc : list (bytes * V)) : NoDup (map fst (acc ++ ps)) -> upsert_all ps acc = acc ++ ps.
Proof.
  revert acc. induction ps as [|[k v] ps IH]; intros acc Hnd; simpl.
  - rewrite app_nil_r. reflexivity.
  - rewrite upsert_fresh.
    + rewrite IH; rewrite <- app_assoc; [reflexivity | exact Hnd].
    + rewrite map_app in Hnd. simpl in Hnd. apply NoDup_remove_2 in Hnd. intros Hi. apply Hnd. apply in_or_app. left. exact Hi.
Qed.

Theorem hash_distinct_fields (ps : list (bytes * bytes)) : NoDup (map fst ps) -> upsert_all ps [] = ps.
Proof. intros H. apply (upsert_all_distinct ps []). exact H. Qed.

End Proofs.

(* ---- CompareVersion ---- *)
Lemma cmp_levels_total fuel : forall l as_ bs, exists r, cmp_levels false fuel l as_ bs = Some r /\ r <= 3.
Proof.
  induction fuel as [|f IH]; intros l as_ bs; simpl.
  - exists 0. split; [reflexivity | lia].
  - assert (Hc : forall xs : list bytes, exists o, (if Nat.leb (length xs) l then Some (Some 0%Z) else
                  match nth_error xs l with Some x => Some (atoi x) | None => None end) = Some o).
    { intros xs. destruct (Nat.leb (length xs) l) eqn:E; [eexists; reflexivity|].
      apply PeanoNat.Nat.leb_gt in E. destruct (nth_error xs l) eqn:En; [eexists; reflexivity|].
      apply nth_error_None in En. lia. }
    destruct (Hc as_) as [oa ->]. destruct oa as [av|]; [|exists 3; split; [reflexivity|lia]].
    destruct (Hc bs) as [ob ->]. destruct ob as [bv|]; [|exists 3; split; [reflexivity|lia]].
    destruct (bv <? av)%Z; [exists 2; split; [reflexivity|lia]|].
    destruct (av <? bv)%Z; [exists 1; split; [reflexivity|lia]|].
    apply IH.
Qed.

Theorem compare_version_total a b level : exists r, compare_version a b level = Some r /\ r <= 3.
Proof. apply cmp_levels_total. Qed.

(* F3 (fixed): the pinned comparison indexes past the end on "5" vs "5.0" *)
Theorem compare_version_pinned_refuted : compare_version_pinned [x35] [x35; x2e; x30] 2 = None.
Proof. vm_compute. reflexivity. Qed.
Example compare_version_5 : compare_version [x35] [x35; x2e; x30] 2 = Some 0. Proof. vm_compute. reflexivity. Qed.

(* ---- witnesses: a string record "v" over a busy key ---- *)
Definition nofloat : bytes -> option N := fun _ => None.
Definition wit_payload : bytes := create_value_dump x00 [x01; x76].
Definition wit_entry (exp : N) : entry :=
  {| e_db := 0; e_key := [x6b]; e_type := 0; e_value := wit_payload; e_expire := exp; e_real_count := 0; e_need_len := 1; e_idle := 0; e_freq := 0 |}.
Definition wit_cfg (p : policy) (thr maxt : N) : cfg :=
  {| c_policy := p; c_replace := false; c_threshold := thr; c_filter_lua := false; c_hashtag := false; c_max_type := maxt |}.
Definition busy (v : logical) : tstate := {| t_slot := Some {| k_val := TLog v; k_ttl := 0 |}; t_scripts := [] |}.

Example wit_whole : whole nofloat (wit_entry 0) (LString [x76]).
Proof.
  split; [reflexivity | reflexivity | | vm_compute; reflexivity | exact I].
  exists x00, (tl wit_payload). split; [vm_compute; reflexivity | split; [reflexivity | vm_compute; discriminate]].
Qed.

(* F6 (fixed): rewrite without REPLACE deleted the key and returned *)
Theorem pinned_rewrite_refuted :
  fst (restore_pinned nofloat (wit_cfg PRewrite 1000 0) 5 (wit_entry 0) (busy (LString [x6f]))) = {| t_slot := None; t_scripts := [] |}.
Proof. vm_compute. reflexivity. Qed.

(* F9 (finding): the big-key route ignores none / ignore *)
Theorem big_route_policy_refuted :
  restore nofloat (wit_cfg PNone 0 0) 5 (wit_entry 0) (busy (LString [x6f])) =
    ({| t_slot := Some {| k_val := TLog (LString [x76]); k_ttl := 0 |}; t_scripts := [] |}, Done).
Proof. vm_compute. reflexivity. Qed.

(* F8 (fixed): the fallback dropped the expiry: a set of one member, target rejecting every type above 0 *)
Definition wit_set : entry :=
  {| e_db := 0; e_key := [x6b]; e_type := 2; e_value := create_value_dump x02 [x01; x01; x6d]; e_expire := 1005;
     e_real_count := 0; e_need_len := 1; e_idle := 0; e_freq := 0 |}.
Theorem pinned_fallback_refuted :
  fst (restore_pinned nofloat (wit_cfg PRewrite 1000 1) 5 wit_set {| t_slot := None; t_scripts := [] |})
    = {| t_slot := Some {| k_val := TLog (LSet [[x6d]]); k_ttl := 0 |}; t_scripts := [] |}
  /\ fst (restore nofloat (wit_cfg PRewrite 1000 1) 5 wit_set {| t_slot := None; t_scripts := [] |})
    = {| t_slot := Some {| k_val := TLog (LSet [[x6d]]); k_ttl := 1000 |}; t_scripts := [] |}.
Proof. split; vm_compute; reflexivity. Qed.
