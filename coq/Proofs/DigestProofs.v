(* Proofs/DigestProofs.v — lemmas for C11 about the models of Model/Digest.v. *)
From RS Require Import Base.Bytes Base.Table Base.Endian Spec.Crc64 Gen.Crc64 Model.Digest Proofs.Crc64Proofs.
From Coq Require Import ZifyN ZifyNat ZifyBool.
Open Scope N_scope.

Lemma digest_table_is_jones : digest_crc64tab = crc64_table. Proof. vm_compute. reflexivity. Qed.
Lemma cupcake_table_is_jones : cupcake_crc64tab = crc64_table. Proof. vm_compute. reflexivity. Qed.
Lemma ext_table_is_jones : ext_crc64tab = crc64_table. Proof. vm_compute. reflexivity. Qed.

Lemma digest_write_spec crc p : digest_write crc p = crc64i crc p.
Proof. unfold digest_write, digest_tree, crc64i. rewrite crc64_tree_with, digest_table_is_jones. reflexivity. Qed.
Lemma cupcake_digest_spec b : cupcake_digest b = crc64 b.
Proof. unfold cupcake_digest, cupcake_tree, crc64. rewrite crc64_tree_with, cupcake_table_is_jones. reflexivity. Qed.
Lemma ext_digest_spec b : ext_digest b = crc64 b.
Proof. unfold ext_digest, ext_tree, crc64. rewrite crc64_tree_with, ext_table_is_jones. reflexivity. Qed.

Lemma digest_chunking chunks : digest_writes chunks = crc64 (concat chunks).
Proof.
  rewrite crc64_chunks. unfold digest_writes. generalize 0 as c.
  induction chunks as [|ch chunks IH]; intros c; [reflexivity|].
  cbn [fold_left]. rewrite digest_write_spec. apply IH.
Qed.

Lemma crc_le_roundtrip body : le_dec (le_enc 8 (crc64 body)) = crc64 body.
Proof. apply le_dec_enc. change (8 * N.of_nat 8) with 64. apply crc64_wf. Qed.

Lemma split_trailer (body tr : bytes) : length tr = 8%nat ->
  firstn (length (body ++ tr) - 8) (body ++ tr) = body /\ skipn (length (body ++ tr) - 8) (body ++ tr) = tr.
Proof.
  intros L. rewrite app_length, L. replace (length body + 8 - 8)%nat with (length body) by lia.
  split.
  - rewrite firstn_app, Nat.sub_diag, firstn_all. cbn [firstn]. apply app_nil_r.
  - rewrite skipn_app, Nat.sub_diag, skipn_all. reflexivity.
Qed.

Lemma footer_accepts body : rdb_footer_ok (body ++ le_enc 8 (crc64 body)) = true.
Proof.
  unfold rdb_footer_ok, footer_check.
  destruct (split_trailer body (le_enc 8 (crc64 body)) (le_enc_length _ _)) as [E1 E2].
  rewrite E1, E2, digest_write_spec, le_enc_length, crc_le_roundtrip.
  rewrite app_length, le_enc_length. fold (crc64 body).
  assert (crc64i 0 body = crc64 body) by reflexivity.
  rewrite H. rewrite N.eqb_refl.
  assert (Q : (8 <=? length body + 8)%nat = true) by (apply Nat.leb_le; lia).
  rewrite Q. reflexivity.
Qed.

Lemma footer_rejects body i b :
  let whole := body ++ le_enc 8 (crc64 body) in
  (i < length whole)%nat -> b <> nth i whole x00 -> rdb_footer_ok (set_nth i b whole) = false.
Proof.
  intros whole Hi Hb. unfold rdb_footer_ok, footer_check.
  pose proof (crc_trailer_detects body i b Hi Hb) as D. cbv zeta in D.
  fold whole in D. rewrite set_nth_length.
  assert (L : (length whole - 8 = length body)%nat).
  { unfold whole. rewrite app_length, le_enc_length. lia. }
  rewrite L, digest_write_spec.
  change (crc64i 0 (firstn (length body) (set_nth i b whole))) with (crc64 (firstn (length body) (set_nth i b whole))).
  apply N.eqb_neq in D. rewrite D. rewrite andb_false_r. apply andb_false_r.
Qed.

(* ---- DUMP payloads ---- *)

Lemma create_value_dump_shape t val :
  create_value_dump t val = dump_body t val ++ le_enc 8 (crc64 (dump_body t val)).
Proof. unfold create_value_dump, dump_body. rewrite digest_write_spec. reflexivity. Qed.

Lemma payload_parts data ver :
  let d := payload data ver in
  (length d = length data + 10)%nat /\
  firstn 2 (skipn (length d - 10) d) = le_enc 2 ver /\
  skipn (length d - 8) d = le_enc 8 (crc64 (data ++ le_enc 2 ver)) /\
  firstn (length d - 8) d = data ++ le_enc 2 ver.
Proof.
  cbv zeta. unfold payload.
  set (body := data ++ le_enc 2 ver). set (tr := le_enc 8 (crc64 body)).
  assert (Lb : length body = (length data + 2)%nat) by (unfold body; rewrite app_length, le_enc_length; reflexivity).
  assert (Lt : length tr = 8%nat) by apply le_enc_length.
  assert (L : length (body ++ tr) = (length data + 10)%nat) by (rewrite app_length; lia).
  destruct (split_trailer body tr Lt) as [E1 E2].
  repeat split; [exact L|  |exact E2|exact E1].
  rewrite L. replace (length data + 10 - 10)%nat with (length data) by lia.
  unfold body. rewrite <- app_assoc. rewrite skipn_app, Nat.sub_diag, skipn_all. cbn [skipn app].
  rewrite firstn_app, le_enc_length, Nat.sub_diag. rewrite firstn_O, app_nil_r.
  apply firstn_all2. rewrite le_enc_length. lia.
Qed.

Lemma verify_dump_payload data ver : ver < 65536 ->
  verify_dump (payload data ver) = (ver =? cupcake_version).
Proof.
  intros Hv. unfold verify_dump.
  destruct (payload_parts data ver) as [L [E1 [E2 E3]]]. cbv zeta in *.
  rewrite E1, E2, E3, L.
  destruct (length data + 10 <? 10)%nat eqn:Q; [lia|].
  rewrite le_dec_enc by (change (2 ^ (8 * N.of_nat 2)) with 65536; exact Hv).
  destruct (ver =? cupcake_version); cbn [negb]; [|reflexivity].
  rewrite cupcake_digest_spec, crc_le_roundtrip. apply N.eqb_refl.
Qed.

Lemma cvc_payload data ver : ver < 65536 ->
  check_version_checksum (payload data ver) =
    if rdb_version <? ver then None else Some (ver, crc64 (data ++ le_enc 2 ver)).
Proof.
  intros Hv. unfold check_version_checksum.
  destruct (payload_parts data ver) as [L [E1 [E2 E3]]]. cbv zeta in *.
  rewrite E1, E2, E3, L.
  destruct (length data + 10 <? 10)%nat eqn:Q; [lia|].
  rewrite le_dec_enc by (change (2 ^ (8 * N.of_nat 2)) with 65536; exact Hv).
  destruct (rdb_version <? ver); [reflexivity|].
  rewrite ext_digest_spec, crc_le_roundtrip, N.eqb_refl. reflexivity.
Qed.

Lemma create_value_dump_is_payload t val : create_value_dump t val = payload (t :: val) to_version.
Proof. rewrite create_value_dump_shape. reflexivity. Qed.

Lemma dump_roundtrip t val :
  verify_dump (create_value_dump t val) = true /\
  check_version_checksum (create_value_dump t val) = Some (to_version, crc64 (dump_body t val)).
Proof.
  rewrite create_value_dump_is_payload. split.
  - rewrite verify_dump_payload by (vm_compute; reflexivity). vm_compute. reflexivity.
  - rewrite cvc_payload by (vm_compute; reflexivity). reflexivity.
Qed.

(* any single substituted byte: the CRC comparison at the end of both checkers fails, or an
   earlier test (version) already rejected *)
Lemma substituted_crc_mismatch data ver i b :
  let d := payload data ver in
  (i < length d)%nat -> b <> nth i d x00 ->
  let d' := set_nth i b d in
  le_dec (skipn (length d' - 8) d') <> crc64 (firstn (length d' - 8) d').
Proof.
  intros d Hi Hb d'. subst d d'. unfold payload in *.
  set (body := data ++ le_enc 2 ver) in *.
  pose proof (crc_trailer_detects body i b Hi Hb) as D. cbv zeta in D.
  rewrite set_nth_length.
  assert (L : (length (body ++ le_enc 8 (crc64 body)) - 8 = length body)%nat).
  { rewrite app_length, le_enc_length. lia. }
  rewrite L. intros E. apply D. symmetry. exact E.
Qed.

Lemma dump_rejects_substitution data ver i b :
  let d := payload data ver in
  (i < length d)%nat -> b <> nth i d x00 ->
  verify_dump (set_nth i b d) = false /\ check_version_checksum (set_nth i b d) = None.
Proof.
  intros d Hi Hb. pose proof (substituted_crc_mismatch data ver i b Hi Hb) as M. cbv zeta in M. fold d in M.
  split.
  - unfold verify_dump. destruct (length (set_nth i b d) <? 10)%nat; [reflexivity|].
    destruct (negb _); [reflexivity|]. rewrite cupcake_digest_spec. apply N.eqb_neq. exact M.
  - unfold check_version_checksum. destruct (length (set_nth i b d) <? 10)%nat; [reflexivity|].
    destruct (rdb_version <? _); [reflexivity|]. rewrite ext_digest_spec.
    apply N.eqb_neq in M. rewrite M. reflexivity.
Qed.

Lemma dump_rejects_short d : (length d < 10)%nat -> verify_dump d = false /\ check_version_checksum d = None.
Proof.
  intros H. unfold verify_dump, check_version_checksum.
  destruct (length d <? 10)%nat eqn:Q; [split; reflexivity|lia].
Qed.

Lemma dump_rejects_version data ver : ver < 65536 ->
  (ver <> cupcake_version -> verify_dump (payload data ver) = false) /\
  (rdb_version < ver -> check_version_checksum (payload data ver) = None).
Proof.
  intros Hv. split; intros H.
  - rewrite verify_dump_payload by exact Hv. apply N.eqb_neq. exact H.
  - rewrite cvc_payload by exact Hv. apply N.ltb_lt in H. rewrite H. reflexivity.
Qed.

Lemma payload_fast_ok data ver : payload_fast data ver = payload data ver.
Proof. unfold payload_fast, payload. rewrite ext_digest_spec. reflexivity. Qed.
