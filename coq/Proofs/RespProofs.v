(* Proofs/RespProofs.v — lemmas for C10. *)
From RS Require Import Base.Bytes Base.Dec Gen.Resp Model.RespCodec.
From Coq Require Import ZifyNat ZifyBool.
Open Scope Z_scope.

Lemma itos_render i : itos i = render i.
Proof.
  unfold itos. destruct ((0 <=? i + imap_bias_itos) && (i + imap_bias_itos <? imap_len)); [|reflexivity].
  f_equal. unfold imap_bias_itos, imap_bias_init. lia.
Qed.

Lemma parse_int64_render z : in_int64 z = true -> parse_int64 (render z) = Some z.
Proof. intros H. unfold parse_int64. rewrite parse_render, H. reflexivity. Qed.

Lemma render_no_NL z : ~ In NL (render z).
Proof. apply render_no_nl. Qed.

Lemma read_line_app l r : ~ In NL l -> read_line (l ++ NL :: r) = Some (l ++ [NL], r).
Proof.
  induction l as [|a l IH]; simpl; intros H.
  - rewrite ?beq_refl. reflexivity.
  - destruct (beq a NL) eqn:E. apply beq_true in E. subst. tauto.
    rewrite IH by tauto. reflexivity.
Qed.

Lemma dec_text_crlf t r off : ~ In NL t ->
  dec_text (t ++ crlf ++ r) off = Ok (t, r, off + Z.of_nat (length t) + 2).
Proof.
  intros H. unfold dec_text, crlf.
  replace (t ++ [CR; NL] ++ r) with ((t ++ [CR]) ++ NL :: r) by (rewrite <- app_assoc; reflexivity).
  rewrite read_line_app.
  2:{ intros Hin. apply in_app_or in Hin. destruct Hin as [Hin|[Hin|[]]]; [tauto|discriminate]. }
  rewrite !app_length. simpl length.
  replace (Nat.ltb (length t + 1 + 1) 2) with false by (symmetry; apply Nat.ltb_ge; lia).
  replace (length t + 1 + 1 - 2)%nat with (length t) by lia.
  rewrite <- app_assoc. rewrite app_nth2 by lia. rewrite Nat.sub_diag. simpl nth.
  rewrite ?beq_refl.
  rewrite firstn_app, firstn_all, Nat.sub_diag. simpl. rewrite app_nil_r.
  f_equal. f_equal. lia.
Qed.

Lemma dec_int_render z r off : in_int64 z = true ->
  dec_int (render z ++ crlf ++ r) off = Ok (z, r, off + Z.of_nat (length (render z)) + 2).
Proof.
  intros H. unfold dec_int. rewrite dec_text_crlf by apply render_no_NL.
  rewrite parse_int64_render by exact H. reflexivity.
Qed.

Lemma read_type_nonnl t r off : t <> NL -> read_type (t :: r) off = Ok (t, r, off + 1).
Proof. intros H. simpl. destruct (beq t NL) eqn:E; [apply beq_true in E; tauto|reflexivity]. Qed.

Lemma len_in_int64 n : len_ok n -> in_int64 (Z.of_nat n) = true.
Proof. unfold len_ok, in_int64. intros H. lia. Qed.

Ltac bt1 a b := let v := eval vm_compute in (beq a b) in change (beq a b) with v.
Ltac fin := f_equal; f_equal; repeat (simpl length; rewrite ?app_length); simpl length; lia.
Ltac hdr t := rewrite read_type_nonnl by discriminate;
  bt1 t x2b; try bt1 t x2d; try bt1 t x3a; try bt1 t x24; try bt1 t x2a; cbv iota.

Theorem roundtrip : forall fuel v depth rest off, (size v <= fuel)%nat -> wf v ->
  dec fuel depth (encode v ++ rest) off = Ok (v, rest, off + Z.of_nat (length (encode v))).
Proof.
  induction fuel as [|fuel IH]; intros v depth rest off Hsz Hwf.
  { destruct v as [| | | |[l|]]; simpl in Hsz; lia. }
  destruct v as [b|b|z|[b|]|[l|]]; cbn [encode app dec]; rewrite ?itos_render.
  - hdr x2b. rewrite <- app_assoc. rewrite dec_text_crlf by exact Hwf.
    fin.
  - hdr x2d. rewrite <- app_assoc. rewrite dec_text_crlf by exact Hwf.
    fin.
  - hdr x3a. rewrite <- app_assoc. rewrite dec_int_render by exact Hwf.
    fin.
  - hdr x24. unfold dec_bulk. cbn [wf] in Hwf.
    rewrite <- !app_assoc. rewrite dec_int_render by (apply len_in_int64; exact Hwf).
    replace (Z.of_nat (length b) <? -1) with false by (symmetry; apply Z.ltb_ge; lia).
    replace (Z.of_nat (length b) =? -1) with false by (symmetry; apply Z.eqb_neq; lia).
    rewrite Nat2Z.id.
    replace (Nat.ltb (length (b ++ crlf ++ rest)) (length b + 2)) with false
      by (symmetry; apply Nat.ltb_ge; rewrite !app_length; simpl; lia).
    assert (F : firstn (length b + 2) (b ++ crlf ++ rest) = b ++ crlf).
    { rewrite app_assoc. rewrite firstn_app. rewrite app_length. simpl length.
      replace (length b + 2 - (length b + 2))%nat with 0%nat by lia. rewrite firstn_O, app_nil_r.
      apply firstn_all2. rewrite app_length. simpl. lia. }
    rewrite F. rewrite app_nth2 by lia. rewrite Nat.sub_diag.
    rewrite app_nth2 by lia. replace (length b + 1 - length b)%nat with 1%nat by lia. simpl nth.
    rewrite !beq_refl. simpl andb. cbv iota.
    rewrite firstn_app, firstn_all, Nat.sub_diag, firstn_O, app_nil_r.
    replace (skipn (length b + 2) (b ++ crlf ++ rest)) with rest.
    2:{ rewrite app_assoc. rewrite skipn_app. rewrite app_length. simpl length.
        replace (length b + 2 - (length b + 2))%nat with 0%nat by lia.
        rewrite skipn_all2 by (rewrite app_length; simpl; lia). reflexivity. }
    fin.
  - hdr x24. unfold dec_bulk. rewrite <- app_assoc. rewrite dec_int_render by reflexivity.
    change (-1 <? -1) with false. change (-1 =? -1) with true. cbv iota.
    fin.
  - hdr x2a. cbn [wf] in Hwf. destruct Hwf as [Hlen Hwf].
    rewrite <- !app_assoc. rewrite dec_int_render by (apply len_in_int64; exact Hlen).
    replace (Z.of_nat (length l) <? -1) with false by (symmetry; apply Z.ltb_ge; lia).
    replace (Z.of_nat (length l) =? -1) with false by (symmetry; apply Z.eqb_neq; lia).
    rewrite Nat2Z.id.
    assert (G : forall (l2 : list resp) acc rest o,
               (fold_right (fun x a => size x + a)%nat 0%nat l2 <= fuel)%nat ->
               (fix all (l : list resp) := match l with [] => True | x :: r => wf x /\ all r end) l2 ->
               (fix elems (k : nat) (inp : bytes) (off : Z) (acc : list resp) : res (resp * bytes * Z) :=
                    match k with
                    | O => Ok (RArr (Some (rev acc)), inp, off)
                    | S k' => match dec fuel (S depth) inp off with
                              | Ok (v, r'', o') => elems k' r'' o' (v :: acc)
                              | Err => Err | OutOfFuel => OutOfFuel end
                    end) (length l2) (flat_map encode l2 ++ rest) o acc
               = Ok (RArr (Some (rev acc ++ l2)), rest, o + Z.of_nat (length (flat_map encode l2)))).
    { induction l2 as [|x l2 IHl]; intros acc rest' o Hs Hw.
      - simpl. rewrite app_nil_r. f_equal. f_equal. lia.
      - simpl in Hs. destruct Hw as [Hwx Hwl]. cbn [length flat_map]. rewrite <- app_assoc.
        rewrite IH by (auto; lia). rewrite IHl by (auto; lia).
        cbn [rev]. rewrite <- app_assoc. simpl app. f_equal. f_equal. rewrite app_length. lia. }
    simpl in Hsz. rewrite G by (auto; lia). simpl rev. simpl app.
    fin.
  - hdr x2a. rewrite <- app_assoc. rewrite dec_int_render by reflexivity.
    change (-1 <? -1) with false. change (-1 =? -1) with true. cbv iota.
    fin.
Qed.

(* ---------- the running offset always equals the number of bytes consumed ---------- *)
Definition consumed_ok (inp rest : bytes) (off off' : Z) : Prop :=
  exists c, inp = c ++ rest /\ off' = off + Z.of_nat (length c).

Lemma consumed_trans i1 i2 i3 o1 o2 o3 :
  consumed_ok i1 i2 o1 o2 -> consumed_ok i2 i3 o2 o3 -> consumed_ok i1 i3 o1 o3.
Proof.
  intros [c1 [E1 O1]] [c2 [E2 O2]]. exists (c1 ++ c2). subst.
  rewrite <- app_assoc, app_length. split; [reflexivity|lia].
Qed.

Lemma read_type_shape inp : forall off t r off1,
  read_type inp off = Ok (t, r, off1) ->
  exists k, inp = repeat NL k ++ t :: r /\ off1 = off + Z.of_nat k + 1 /\ t <> NL.
Proof.
  induction inp as [|x inp IH]; intros off t r off1 H; [discriminate|].
  cbn [read_type] in H. destruct (beq x NL) eqn:EB.
  - apply beq_true in EB. subst x. apply IH in H. destruct H as [k [E [O N]]].
    exists (S k). cbn [repeat app]. rewrite <- E. split; [reflexivity|]. split; [lia|exact N].
  - inversion H; subst. exists 0%nat. split; [reflexivity|]. split; [simpl; lia|].
    apply beq_false. exact EB.
Qed.

Lemma read_type_consumed inp off t r off1 :
  read_type inp off = Ok (t, r, off1) -> consumed_ok inp r off off1.
Proof.
  intros H. apply read_type_shape in H. destruct H as [k [E [O _]]].
  exists (repeat NL k ++ [t]). rewrite <- app_assoc. split; [exact E|].
  rewrite app_length, repeat_length. simpl. lia.
Qed.

Lemma read_line_consumed inp l r : read_line inp = Some (l, r) -> inp = l ++ r.
Proof.
  revert l. induction inp as [|b inp IH]; intros l H; [discriminate|].
  cbn [read_line] in H. destruct (beq b NL).
  - inversion H; subst. reflexivity.
  - destruct (read_line inp) as [[l' r']|]; [|discriminate]. inversion H; subst.
    rewrite (IH l' eq_refl). reflexivity.
Qed.

Lemma dec_text_consumed inp off t r off' :
  dec_text inp off = Ok (t, r, off') -> consumed_ok inp r off off'.
Proof.
  unfold dec_text. intros H. destruct (read_line inp) as [[l r']|] eqn:E; [|discriminate].
  apply read_line_consumed in E.
  destruct (Nat.ltb (length l) 2); [discriminate|]. destruct (beq _ CR); [|discriminate].
  inversion H; subst. exists l. split; reflexivity.
Qed.

Lemma dec_int_consumed inp off z r off' :
  dec_int inp off = Ok (z, r, off') -> consumed_ok inp r off off'.
Proof.
  unfold dec_int. intros H. destruct (dec_text inp off) as [[[t r'] o']| |] eqn:E; try discriminate.
  destruct (parse_int64 t); [|discriminate]. inversion H; subst. eapply dec_text_consumed; eassumption.
Qed.

Lemma dec_bulk_consumed inp off b r off' :
  dec_bulk inp off = Ok (b, r, off') -> consumed_ok inp r off off'.
Proof.
  unfold dec_bulk. intros H. destruct (dec_int inp off) as [[[n r'] o']| |] eqn:E; try discriminate.
  apply dec_int_consumed in E.
  destruct (n <? -1); [discriminate|]. destruct (n =? -1).
  - inversion H; subst. exact E.
  - destruct (Nat.ltb (length r') (Z.to_nat n + 2)) eqn:L; [discriminate|].
    destruct (_ && _); [|discriminate]. inversion H; subst.
    eapply consumed_trans; [exact E|]. apply Nat.ltb_ge in L.
    exists (firstn (Z.to_nat n + 2) r'). split; [symmetry; apply firstn_skipn|].
    rewrite firstn_length_le by lia. reflexivity.
Qed.

Lemma dec_inline_consumed inp off v r off' :
  dec_inline inp off = Ok (v, r, off') -> consumed_ok inp r off off'.
Proof.
  unfold dec_inline. intros H. destruct (read_line inp) as [[l r']|] eqn:E; [|discriminate].
  apply read_line_consumed in E.
  destruct (Nat.ltb (length l) 2); [discriminate|]. destruct (beq _ CR); [|discriminate].
  inversion H; subst. exists l. split; reflexivity.
Qed.

Theorem dec_offset_is_consumed : forall fuel depth inp off v rest off',
  dec fuel depth inp off = Ok (v, rest, off') -> consumed_ok inp rest off off'.
Proof.
  induction fuel as [|fuel IH]; intros depth inp off v rest off' H; [discriminate|].
  cbn [dec] in H.
  destruct (read_type inp off) as [[[t r] off1]| |] eqn:ET; try discriminate.
  pose proof (read_type_consumed _ _ _ _ _ ET) as CT.
  destruct (beq t x2b).
  { destruct (dec_text r off1) as [[[b r'] o]| |] eqn:E; try discriminate. inversion H; subst.
    eapply consumed_trans; [exact CT|eapply dec_text_consumed; exact E]. }
  destruct (beq t x2d).
  { destruct (dec_text r off1) as [[[b r'] o]| |] eqn:E; try discriminate. inversion H; subst.
    eapply consumed_trans; [exact CT|eapply dec_text_consumed; exact E]. }
  destruct (beq t x3a).
  { destruct (dec_int r off1) as [[[b r'] o]| |] eqn:E; try discriminate. inversion H; subst.
    eapply consumed_trans; [exact CT|eapply dec_int_consumed; exact E]. }
  destruct (beq t x24).
  { destruct (dec_bulk r off1) as [[[b r'] o]| |] eqn:E; try discriminate. inversion H; subst.
    eapply consumed_trans; [exact CT|eapply dec_bulk_consumed; exact E]. }
  destruct (beq t x2a).
  { destruct (dec_int r off1) as [[[n r'] o]| |] eqn:E; try discriminate.
    apply dec_int_consumed in E. pose proof (consumed_trans _ _ _ _ _ _ CT E) as C1.
    destruct (n <? -1); [discriminate|]. destruct (n =? -1).
    { inversion H; subst. exact C1. }
    revert H. generalize (@nil resp) as acc. revert C1. generalize r' as i, o as oo.
    induction (Z.to_nat n) as [|k IHk]; intros i oo C1 acc H.
    - inversion H; subst. exact C1.
    - destruct (dec fuel (S depth) i oo) as [[[x r''] o'']| |] eqn:ED; try discriminate.
      apply IH in ED. eapply IHk; [|exact H]. eapply consumed_trans; eassumption. }
  destruct depth; [|discriminate].
  apply dec_inline_consumed in H. destruct H as [c' [E' O']].
  apply read_type_shape in ET. destruct ET as [k [E [O _]]].
  exists (repeat NL k ++ c'). rewrite <- app_assoc, <- E'. split; [exact E|].
  rewrite app_length, repeat_length. lia.
Qed.

(* ---------- malformed input is an error, never a value ---------- *)
Definition is_type_byte (t : byte) : bool :=
  beq t x2b || beq t x2d || beq t x3a || beq t x24 || beq t x2a.

Lemma dec_unknown_type_nested fuel d t r off :
  t <> NL -> is_type_byte t = false -> dec (S fuel) (S d) (t :: r) off = Err.
Proof.
  intros Hn Ht. cbn [dec]. rewrite read_type_nonnl by exact Hn.
  unfold is_type_byte in Ht. repeat (apply orb_false_iff in Ht; destruct Ht as [Ht ?]).
  repeat match goal with H : beq t _ = false |- _ => rewrite H; clear H end. reflexivity.
Qed.

Lemma dec_text_no_cr t r off : ~ In NL t -> last t x00 <> CR -> dec_text (t ++ NL :: r) off = Err.
Proof.
  intros Hn Hl. unfold dec_text. rewrite read_line_app by exact Hn.
  rewrite app_length. simpl length.
  destruct (Nat.ltb (length t + 1) 2) eqn:L; [reflexivity|]. apply Nat.ltb_ge in L.
  replace (length t + 1 - 2)%nat with (length t - 1)%nat by lia.
  rewrite app_nth1 by lia.
  assert (E : nth (length t - 1) t x00 = last t x00).
  { clear - L. destruct t as [|a t] using rev_ind; [simpl in L; lia|].
    rewrite app_length. simpl length. replace (length t + 1 - 1)%nat with (length t) by lia.
    rewrite app_nth2, Nat.sub_diag, last_last by lia. reflexivity. }
  rewrite E. destruct (beq (last t x00) CR) eqn:B; [apply beq_true in B; contradiction|reflexivity].
Qed.

Lemma dec_bad_length fuel d (hd : byte) t r off :
  (hd = x24 \/ hd = x2a \/ hd = x3a) -> ~ In NL t -> parse_int64 t = None ->
  dec (S fuel) d (hd :: t ++ crlf ++ r) off = Err.
Proof.
  intros Hh Hn Hp. cbn [dec].
  assert (hd <> NL) by (destruct Hh as [->|[->| ->]]; discriminate).
  rewrite read_type_nonnl by assumption.
  destruct Hh as [->|[->| ->]].
  - bt1 x24 x2b. bt1 x24 x2d. bt1 x24 x3a. bt1 x24 x24. cbv iota.
    unfold dec_bulk, dec_int. rewrite dec_text_crlf by exact Hn. rewrite Hp. reflexivity.
  - bt1 x2a x2b. bt1 x2a x2d. bt1 x2a x3a. bt1 x2a x24. bt1 x2a x2a. cbv iota.
    unfold dec_int. rewrite dec_text_crlf by exact Hn. rewrite Hp. reflexivity.
  - bt1 x3a x2b. bt1 x3a x2d. bt1 x3a x3a. cbv iota.
    unfold dec_int. rewrite dec_text_crlf by exact Hn. rewrite Hp. reflexivity.
Qed.

Lemma dec_negative_length fuel d (hd : byte) n r off :
  (hd = x24 \/ hd = x2a) -> n < -1 -> in_int64 n = true ->
  dec (S fuel) d (hd :: render n ++ crlf ++ r) off = Err.
Proof.
  intros Hh Hn Hi. cbn [dec].
  assert (hd <> NL) by (destruct Hh as [->| ->]; discriminate).
  rewrite read_type_nonnl by assumption.
  assert (L : (n <? -1) = true) by lia.
  destruct Hh as [->| ->].
  - bt1 x24 x2b. bt1 x24 x2d. bt1 x24 x3a. bt1 x24 x24. cbv iota.
    unfold dec_bulk. rewrite dec_int_render by exact Hi. rewrite L. reflexivity.
  - bt1 x2a x2b. bt1 x2a x2d. bt1 x2a x3a. bt1 x2a x24. bt1 x2a x2a. cbv iota.
    rewrite dec_int_render by exact Hi. rewrite L. reflexivity.
Qed.

(* ---------- inline (space separated) command lines at top level ---------- *)
Lemma read_type_skip k t r off : t <> NL ->
  read_type (repeat NL k ++ t :: r) off = Ok (t, r, off + Z.of_nat k + 1).
Proof.
  intros H. revert off. induction k as [|k IH]; intros off.
  - cbn [repeat app]. rewrite read_type_nonnl by exact H. f_equal. f_equal. lia.
  - cbn [repeat app read_type]. rewrite beq_refl, IH. f_equal. f_equal. lia.
Qed.

Lemma dec_inline_crlf w r off : ~ In NL w ->
  dec_inline (w ++ crlf ++ r) off =
    Ok (RArr (match split_sp w [] with [] => None | toks => Some (map (fun x => RBulk (Some x)) toks) end),
        r, off + Z.of_nat (length w) + 2).
Proof.
  intros H. unfold dec_inline, crlf.
  replace (w ++ [CR; NL] ++ r) with ((w ++ [CR]) ++ NL :: r) by (rewrite <- app_assoc; reflexivity).
  rewrite read_line_app.
  2:{ intros Hin. apply in_app_or in Hin. destruct Hin as [Hin|[Hin|[]]]; [tauto|discriminate]. }
  rewrite !app_length. simpl length.
  replace (Nat.ltb (length w + 1 + 1) 2) with false by (symmetry; apply Nat.ltb_ge; lia).
  replace (length w + 1 + 1 - 2)%nat with (length w) by lia.
  rewrite <- app_assoc. rewrite app_nth2 by lia. rewrite Nat.sub_diag. simpl nth.
  rewrite ?beq_refl.
  rewrite firstn_app, firstn_all, Nat.sub_diag. rewrite firstn_O, app_nil_r.
  destruct (split_sp w []); f_equal; f_equal; lia.
Qed.

Lemma dec_inline_line fuel k t l rest off :
  t <> NL -> is_type_byte t = false -> ~ In NL l ->
  dec (S fuel) 0 (repeat NL k ++ (t :: l) ++ crlf ++ rest) off =
    Ok (RArr (match split_sp (t :: l) [] with [] => None | toks => Some (map (fun x => RBulk (Some x)) toks) end),
        rest, off + Z.of_nat k + Z.of_nat (length (t :: l)) + 2).
Proof.
  intros Hn Ht Hl. cbn [dec]. rewrite <- app_comm_cons. rewrite read_type_skip by exact Hn.
  unfold is_type_byte in Ht. repeat (apply orb_false_iff in Ht; destruct Ht as [Ht ?]).
  repeat match goal with H : beq t _ = false |- _ => rewrite H; clear H end.
  change (t :: l ++ crlf ++ rest) with ((t :: l) ++ crlf ++ rest).
  rewrite dec_inline_crlf by (intros [E|E]; [congruence|tauto]).
  f_equal. f_equal. cbn [length]. lia.
Qed.

(* ---------- extension: a successful decode does not depend on what follows ---------- *)
Lemma read_type_ext inp off t r off1 s :
  read_type inp off = Ok (t, r, off1) -> read_type (inp ++ s) off = Ok (t, r ++ s, off1).
Proof.
  revert off. induction inp as [|x inp IH]; intros off H; [discriminate|].
  cbn [read_type app] in *. destruct (beq x NL); [apply IH; exact H|]. inversion H; subst. reflexivity.
Qed.

Lemma read_line_ext inp l r s : read_line inp = Some (l, r) -> read_line (inp ++ s) = Some (l, r ++ s).
Proof.
  revert l. induction inp as [|x inp IH]; intros l H; [discriminate|].
  cbn [read_line app] in *. destruct (beq x NL); [inversion H; subst; reflexivity|].
  destruct (read_line inp) as [[l' r']|]; [|discriminate]. inversion H; subst.
  rewrite (IH l' eq_refl). reflexivity.
Qed.

Lemma dec_text_ext inp off t r off' s :
  dec_text inp off = Ok (t, r, off') -> dec_text (inp ++ s) off = Ok (t, r ++ s, off').
Proof.
  unfold dec_text. intros H. destruct (read_line inp) as [[l r']|] eqn:E; [|discriminate].
  rewrite (read_line_ext _ _ _ s E).
  destruct (Nat.ltb (length l) 2); [discriminate|]. destruct (beq _ CR); [|discriminate].
  inversion H; subst. reflexivity.
Qed.

Lemma dec_int_ext inp off z r off' s :
  dec_int inp off = Ok (z, r, off') -> dec_int (inp ++ s) off = Ok (z, r ++ s, off').
Proof.
  unfold dec_int. intros H. destruct (dec_text inp off) as [[[t r'] o']| |] eqn:E; try discriminate.
  rewrite (dec_text_ext _ _ _ _ _ s E). destruct (parse_int64 t); [|discriminate].
  inversion H; subst. reflexivity.
Qed.

Lemma dec_bulk_ext inp off b r off' s :
  dec_bulk inp off = Ok (b, r, off') -> dec_bulk (inp ++ s) off = Ok (b, r ++ s, off').
Proof.
  unfold dec_bulk. intros H. destruct (dec_int inp off) as [[[n r'] o']| |] eqn:E; try discriminate.
  rewrite (dec_int_ext _ _ _ _ _ s E).
  destruct (n <? -1); [discriminate|]. destruct (n =? -1); [inversion H; subst; reflexivity|].
  destruct (Nat.ltb (length r') (Z.to_nat n + 2)) eqn:L; [discriminate|]. apply Nat.ltb_ge in L.
  replace (Nat.ltb (length (r' ++ s)) (Z.to_nat n + 2)) with false
    by (symmetry; apply Nat.ltb_ge; rewrite app_length; lia).
  rewrite firstn_app. replace (Z.to_nat n + 2 - length r')%nat with 0%nat by lia.
  rewrite firstn_O, app_nil_r.
  destruct (_ && _); [|discriminate]. inversion H; subst.
  rewrite skipn_app. replace (Z.to_nat n + 2 - length r')%nat with 0%nat by lia. reflexivity.
Qed.

Lemma dec_inline_ext inp off v r off' s :
  dec_inline inp off = Ok (v, r, off') -> dec_inline (inp ++ s) off = Ok (v, r ++ s, off').
Proof.
  unfold dec_inline. intros H. destruct (read_line inp) as [[l r']|] eqn:E; [|discriminate].
  rewrite (read_line_ext _ _ _ s E).
  destruct (Nat.ltb (length l) 2); [discriminate|]. destruct (beq _ CR); [|discriminate].
  inversion H; subst. reflexivity.
Qed.

Theorem dec_ext : forall fuel depth inp off v rest off' s,
  dec fuel depth inp off = Ok (v, rest, off') -> dec fuel depth (inp ++ s) off = Ok (v, rest ++ s, off').
Proof.
  induction fuel as [|fuel IH]; intros depth inp off v rest off' s H; [discriminate|].
  cbn [dec] in *.
  destruct (read_type inp off) as [[[t r] off1]| |] eqn:ET; try discriminate.
  rewrite (read_type_ext _ _ _ _ _ s ET).
  destruct (beq t x2b).
  { destruct (dec_text r off1) as [[[b r'] o]| |] eqn:E; try discriminate. inversion H; subst.
    rewrite (dec_text_ext _ _ _ _ _ s E). reflexivity. }
  destruct (beq t x2d).
  { destruct (dec_text r off1) as [[[b r'] o]| |] eqn:E; try discriminate. inversion H; subst.
    rewrite (dec_text_ext _ _ _ _ _ s E). reflexivity. }
  destruct (beq t x3a).
  { destruct (dec_int r off1) as [[[b r'] o]| |] eqn:E; try discriminate. inversion H; subst.
    rewrite (dec_int_ext _ _ _ _ _ s E). reflexivity. }
  destruct (beq t x24).
  { destruct (dec_bulk r off1) as [[[b r'] o]| |] eqn:E; try discriminate. inversion H; subst.
    rewrite (dec_bulk_ext _ _ _ _ _ s E). reflexivity. }
  destruct (beq t x2a).
  { destruct (dec_int r off1) as [[[n r'] o]| |] eqn:E; try discriminate.
    rewrite (dec_int_ext _ _ _ _ _ s E).
    destruct (n <? -1); [discriminate|]. destruct (n =? -1); [inversion H; subst; reflexivity|].
    revert H. generalize (@nil resp) as acc. generalize r' as i, o as oo.
    induction (Z.to_nat n) as [|k IHk]; intros i oo acc H.
    - inversion H; subst. reflexivity.
    - destruct (dec fuel (S depth) i oo) as [[[x r''] o'']| |] eqn:ED; try discriminate.
      rewrite (IH _ _ _ _ _ _ s ED). apply IHk. exact H. }
  destruct depth; [|discriminate].
  change (t :: r ++ s) with ((t :: r) ++ s). apply dec_inline_ext. exact H.
Qed.

(* every strict prefix of an encoding fails to decode to a value *)
Theorem truncation_rejected fuel depth v n off :
  (size v <= fuel)%nat -> wf v -> (n < length (encode v))%nat ->
  forall x, dec fuel depth (firstn n (encode v)) off <> Ok x.
Proof.
  intros Hs Hw Hn [[v' rest'] off'] H.
  apply (dec_ext _ _ _ _ _ _ _ (skipn n (encode v))) in H.
  rewrite firstn_skipn in H.
  pose proof (roundtrip fuel v depth [] off Hs Hw) as R. rewrite app_nil_r in R.
  rewrite R in H. injection H as E1 E2 E3.
  apply (f_equal (@length byte)) in E2. rewrite app_length, skipn_length in E2. simpl in E2. lia.
Qed.
