(* Proofs/HandoffProofs.v — lemmas for C05 and C08. *)
From RS Require Import Base.Bytes Base.Dec Model.RespCodec Model.Filter Model.Handoff Model.Offsets Proofs.RespProofs.
From Coq Require Import ZifyNat ZifyBool.

(* ================= C05: countdown copy under an adversarial reader ================= *)
Lemma read1_spec want max (s : bytes) : (0 < max)%nat -> s <> [] ->
  let '(got, rest) := read1 want max s in got ++ rest = s /\ (0 < length got <= max)%nat.
Proof.
  intros Hm Hs. unfold read1. set (k := Nat.min _ _).
  assert (Hl : (0 < length s)%nat) by (destruct s; [congruence|simpl; lia]).
  assert (Hk : (0 < k <= Nat.min max (length s))%nat) by (unfold k; lia).
  split; [apply firstn_skipn|]. rewrite firstn_length. lia.
Qed.

Theorem copy_exact : forall fuel bufsz frag (rdb cmds acc : bytes), (0 < bufsz)%nat -> (length rdb <= fuel)%nat ->
  copy_loop fuel bufsz frag (length rdb) (rdb ++ cmds) acc = Some (acc ++ rdb, cmds).
Proof.
  induction fuel as [|f IH]; intros bufsz frag rdb cmds acc Hb Hf.
  - destruct rdb; cbn in *; [rewrite app_nil_r; reflexivity|lia].
  - destruct rdb as [|b rdb']; [cbn; rewrite app_nil_r; reflexivity|].
    set (rdb := b :: rdb') in *. cbn [copy_loop]. change (length rdb) with (S (length rdb')) at 1.
    cbv iota.
    pose proof (read1_spec (hd 1%nat frag) (Nat.min bufsz (length rdb)) (rdb ++ cmds)) as R.
    destruct (read1 (hd 1%nat frag) (Nat.min bufsz (length rdb)) (rdb ++ cmds)) as [got rest] eqn:E.
    destruct R as [Rs Rl]; [unfold rdb; cbn [length]; lia|unfold rdb; discriminate|].
    assert (Hg : (length got <= length rdb)%nat) by lia.
    assert (Hp : got = firstn (length got) rdb /\ rest = skipn (length got) rdb ++ cmds).
    { assert (F : firstn (length got) (got ++ rest) = got) by (rewrite firstn_app, Nat.sub_diag, firstn_O, app_nil_r; apply firstn_all).
      assert (K : skipn (length got) (got ++ rest) = rest) by (rewrite skipn_app, Nat.sub_diag, skipn_all; reflexivity).
      rewrite Rs in F, K. rewrite firstn_app in F. replace (length got - length rdb)%nat with 0%nat in F by lia.
      rewrite firstn_O, app_nil_r in F. rewrite skipn_app in K. replace (length got - length rdb)%nat with 0%nat in K by lia.
      cbn [skipn] in K. split; congruence. }
    destruct Hp as [Hp1 Hp2]. destruct got as [|g got']; [cbn in Rl; lia|].
    set (got := g :: got') in *.
    rewrite Hp2.
    replace (length rdb - length got)%nat with (length (skipn (length got) rdb)) by (rewrite skipn_length; reflexivity).
    rewrite IH; [|exact Hb|rewrite skipn_length; cbn [length] in *; lia].
    rewrite <- app_assoc. f_equal. f_equal. rewrite Hp1 at 1. rewrite firstn_skipn. reflexivity.
Qed.

(* the plain copy loop forwards the bytes unchanged, whatever the fragmentation *)
Theorem pipe_copy_exact : forall fuel bufsz frag (s acc : bytes), (0 < bufsz)%nat -> (length s <= fuel)%nat ->
  pipe_copy fuel bufsz frag s acc = acc ++ s.
Proof.
  induction fuel as [|f IH]; intros bufsz frag s acc Hb Hf.
  - destruct s; [cbn; rewrite app_nil_r; reflexivity|cbn in Hf; lia].
  - destruct s as [|b s']; [cbn; rewrite app_nil_r; reflexivity|].
    set (s := b :: s') in *. cbn [pipe_copy].
    pose proof (read1_spec (hd 1%nat frag) bufsz s Hb) as R.
    destruct (read1 (hd 1%nat frag) bufsz s) as [got rest] eqn:E.
    destruct R as [Rs Rl]; [unfold s; discriminate|].
    rewrite IH; [|exact Hb|].
    + rewrite <- app_assoc, Rs. reflexivity.
    + assert (length s = (length got + length rest)%nat) by (rewrite <- Rs, app_length; reflexivity). lia.
Qed.

(* keep-alive newlines before the size line are skipped; "$n\r\n" gives n *)
Lemma skip_nl_repeat k (s : bytes) : (match s with b :: _ => b <> NL | [] => True end) -> skip_nl (repeat NL k ++ s) = s.
Proof.
  intros H. induction k as [|k IH]; cbn [repeat app skip_nl].
  - destruct s as [|b r]; [reflexivity|]. cbn [skip_nl]. destruct (beq b NL) eqn:E; [apply beq_true in E; contradiction|reflexivity].
  - rewrite beq_refl. exact IH.
Qed.

Lemma until_crlf_line (l : bytes) : ~ In NL l -> forall acc rest,
  until_crlf (l ++ CR :: NL :: rest) acc = Some (rev acc ++ l, rest).
Proof.
  induction l as [|b l IH]; intros H acc rest.
  - cbn [app until_crlf]. assert (beq CR NL = false) by reflexivity. rewrite H0. cbn [until_crlf]. rewrite beq_refl.
    rewrite beq_refl. rewrite app_nil_r. reflexivity.
  - cbn [app until_crlf]. destruct (beq b NL) eqn:E; [apply beq_true in E; subst; exfalso; apply H; left; reflexivity|].
    rewrite IH by (intros Hin; apply H; right; exact Hin). cbn [rev]. rewrite <- app_assoc. reflexivity.
Qed.

Theorem wait_rdb_spec k n rest : (0 < n)%Z -> in_int64 n = true ->
  wait_rdb (repeat NL k ++ x24 :: render n ++ crlf ++ rest) = Some (n, rest).
Proof.
  intros Hn Hi. unfold wait_rdb. rewrite skip_nl_repeat by discriminate.
  change (x24 :: render n ++ crlf ++ rest) with ((x24 :: render n) ++ CR :: NL :: rest).
  rewrite until_crlf_line.
  - cbn [rev app]. rewrite parse_int64_render by exact Hi. assert ((0 <? n)%Z = true) by lia. rewrite H. reflexivity.
  - intros [E|E]; [discriminate|]. exact (render_no_NL n E).
Qed.

(* the whole hand-off for a well-formed full resync, for every fragmentation *)
Theorem handoff_exact s1 rid off k n (rdb cmds : bytes) bufsz frag :
  parse_reply (s1 ++ repeat NL k ++ x24 :: render n ++ crlf ++ rdb ++ cmds)
     = Some (Full rid off, repeat NL k ++ x24 :: render n ++ crlf ++ rdb ++ cmds) ->
  Z.of_nat (length rdb) = n -> (0 < n)%Z -> in_int64 n = true -> (0 < bufsz)%nat ->
  handoff (s1 ++ repeat NL k ++ x24 :: render n ++ crlf ++ rdb ++ cmds) bufsz frag =
    Some {| h_runid := rid; h_offset := off; h_size := n; h_rdb := rdb; h_stream := cmds |}.
Proof.
  intros HR Hl Hn Hi Hb. unfold handoff. rewrite HR. rewrite wait_rdb_spec by assumption.
  replace (Z.to_nat n) with (length rdb) by lia.
  rewrite copy_exact; [|exact Hb|rewrite app_length; lia].
  cbn [app]. rewrite pipe_copy_exact; [reflexivity|exact Hb|lia].
Qed.

(* ================= C08: acknowledged and requested offsets ================= *)
Open Scope Z_scope.
Definition exact_out (start : Z) (pre : list oev) (o : oout) : Prop :=
  match o with Ack v => v = 0 \/ v = start + received pre | Psync v => v = start + received pre + 1 end.

Lemma received_app a b : received (a ++ b) = received a + received b.
Proof. induction a as [|x a IH]; [cbn; lia|]. destruct x; cbn [app received]; rewrite IH; lia. Qed.

Lemma fixed_exact : forall es pre s start,
  off s + nread s = start + received pre ->
  forall o, In o (snd (orun ostep s es)) -> exists k, exact_out start (pre ++ firstn k es) o.
Proof.
  induction es as [|e es IH]; intros pre s start Inv o Hin; cbn in Hin; [contradiction|].
  destruct (ostep s e) as [s1 o1] eqn:E1. destruct (orun ostep s1 es) as [s2 o2] eqn:E2.
  cbn [snd] in Hin. apply in_app_or in Hin.
  assert (Inv1 : off s1 + nread s1 = start + received (pre ++ [e])).
  { rewrite received_app. destruct e; cbn in E1; try (destruct (full s)); inversion E1; subst; cbn; lia. }
  destruct Hin as [Hin|Hin].
  - exists 0%nat. rewrite firstn_O, app_nil_r.
    destruct e; cbn in E1; try (destruct (full s)); inversion E1; subst; cbn in Hin;
      try contradiction; destruct Hin as [<-|[]]; cbn; auto; lia.
  - specialize (IH (pre ++ [e]) s1 start Inv1 o). rewrite E2 in IH. destruct (IH Hin) as [k Hk].
    exists (S k). cbn [firstn]. rewrite <- app_assoc in Hk. exact Hk.
Qed.

(* every ack / psync emitted in ANY event sequence carries start + bytes received so far
   (acks are 0 while the full sync is still running) *)
Theorem acks_exact start es o :
  In o (snd (orun ostep {| off := start; nread := 0; full := false |} es)) ->
  exists k, exact_out start (firstn k es) o.
Proof. intros H. apply (fixed_exact es [] _ start) in H; [exact H|cbn; lia]. Qed.

(* acknowledged offsets never decrease (traffic counts are non-negative) *)
Lemma received_mono es k1 k2 : Forall (fun e => match e with Recv n => 0 <= n | _ => True end) es ->
  (k1 <= k2)%nat -> received (firstn k1 es) <= received (firstn k2 es).
Proof.
  intros W. revert k1 k2. induction W as [|e es We _ IH]; intros k1 k2 H; [rewrite !firstn_nil; lia|].
  destruct k1, k2; cbn [firstn]; try lia.
  - cbn [received]. assert (0 <= received (firstn k2 es)) by (specialize (IH 0%nat k2 ltac:(lia)); cbn in IH; lia).
    destruct e; cbn [received]; lia.
  - specialize (IH k1 k2 ltac:(lia)). destruct e; cbn [received]; lia.
Qed.

(* the pinned machine acknowledged bytes it never received (F11) *)
Theorem pinned_refuted : exists es o, In o (snd (orun ostep_pinned {| off := 1000; nread := 0; full := false |} es))
  /\ forall k, ~ exact_out 1000 (firstn k es) o.
Proof.
  exists [FullDone; Recv 5; Tick; Tick], (Ack 1010). split; [vm_compute; auto|].
  intros k H. unfold exact_out in H. destruct H as [H|H]; [discriminate|].
  assert (received (firstn k [FullDone; Recv 5; Tick; Tick]) <= 5).
  { do 5 (destruct k as [|k]; [vm_compute; discriminate|]). vm_compute. discriminate. }
  lia.
Qed.

(* ================= the reply line ================= *)
Lemma split_on_sp_word (w : bytes) : ~ In SP w -> forall cur rest,
  split_on_sp (w ++ SP :: rest) cur = (rev cur ++ w) :: split_on_sp rest [].
Proof.
  induction w as [|b w IH]; intros H cur rest.
  - cbn [app split_on_sp]. rewrite beq_refl. rewrite app_nil_r. reflexivity.
  - cbn [app split_on_sp]. destruct (beq b SP) eqn:E; [apply beq_true in E; subst; exfalso; apply H; left; reflexivity|].
    rewrite IH by (intros Hin; apply H; right; exact Hin). cbn [rev]. rewrite <- app_assoc. reflexivity.
Qed.
Lemma split_on_sp_last (w : bytes) : ~ In SP w -> forall cur, split_on_sp w cur = [rev cur ++ w].
Proof.
  induction w as [|b w IH]; intros H cur; [cbn; rewrite app_nil_r; reflexivity|].
  cbn [split_on_sp]. destruct (beq b SP) eqn:E; [apply beq_true in E; subst; exfalso; apply H; left; reflexivity|].
  rewrite IH by (intros Hin; apply H; right; exact Hin). cbn [rev]. rewrite <- app_assoc. reflexivity.
Qed.

Lemma render_no_sp z : ~ In SP (render z).
Proof.
  unfold render. assert (H : forall d, ~ In SP (bytes_of_uint d)).
  { induction d; cbn; try tauto; intros [H|H]; try discriminate; auto. }
  destruct (Z.to_int z); cbn; [apply H|intros [E|E]; [discriminate|apply (H _ E)]].
Qed.

(* "+FULLRESYNC <runid> <offset>\r\n" in any letter case, after k keep-alive newlines *)
Theorem parse_reply_fullresync k (w rid : bytes) off rest :
  map lower w = w_fullresync -> ~ In SP w -> ~ In NL w -> ~ In SP rid -> ~ In NL rid -> in_int64 off = true ->
  parse_reply (repeat NL k ++ (x2b :: w ++ SP :: rid ++ SP :: render off) ++ crlf ++ rest) = Some (Full rid off, rest).
Proof.
  intros Hw Ws Wn Rs Rn Ho. unfold parse_reply.
  set (line := w ++ SP :: rid ++ SP :: render off).
  assert (Hnl : ~ In NL line).
  { unfold line. intros Hin. apply in_app_or in Hin. destruct Hin as [Hin|[Hin|Hin]]; [tauto|discriminate|].
    apply in_app_or in Hin. destruct Hin as [Hin|[Hin|Hin]]; [tauto|discriminate|exact (render_no_NL off Hin)]. }
  (* leading newlines: one decode step skips them *)
  assert (D : dec (S (length (repeat NL k ++ (x2b :: line) ++ crlf ++ rest))) 0 (repeat NL k ++ (x2b :: line) ++ crlf ++ rest) 0
              = Ok (RStr line, rest, (Z.of_nat k + 1 + Z.of_nat (length line) + 2)%Z)).
  { cbn [dec]. change ((x2b :: line) ++ crlf ++ rest) with (x2b :: line ++ crlf ++ rest).
    rewrite read_type_skip by discriminate.
    assert (B : beq x2b x2b = true) by reflexivity. rewrite B.
    rewrite dec_text_crlf by exact Hnl. first [reflexivity | (f_equal; first [reflexivity | (f_equal; lia)])]. }
  rewrite D. unfold line. rewrite split_on_sp_word by exact Ws. rewrite split_on_sp_word by exact Rs.
  rewrite split_on_sp_last by apply render_no_sp. cbn [rev app]. rewrite Hw.
  assert (B : beqs w_fullresync w_fullresync = true) by reflexivity. rewrite B.
  rewrite parse_int64_render by exact Ho. reflexivity.
Qed.

Theorem parse_reply_continue k (w : bytes) rest :
  map lower w = w_continue -> ~ In SP w -> ~ In NL w ->
  parse_reply (repeat NL k ++ (x2b :: w) ++ crlf ++ rest) = Some (Continue, rest).
Proof.
  intros Hw Ws Wn. unfold parse_reply.
  assert (D : dec (S (length (repeat NL k ++ (x2b :: w) ++ crlf ++ rest))) 0 (repeat NL k ++ (x2b :: w) ++ crlf ++ rest) 0
              = Ok (RStr w, rest, (Z.of_nat k + 1 + Z.of_nat (length w) + 2)%Z)).
  { cbn [dec]. change ((x2b :: w) ++ crlf ++ rest) with (x2b :: w ++ crlf ++ rest).
    rewrite read_type_skip by discriminate.
    assert (B : beq x2b x2b = true) by reflexivity. rewrite B.
    rewrite dec_text_crlf by exact Wn. first [reflexivity | (f_equal; first [reflexivity | (f_equal; lia)])]. }
  rewrite D. rewrite split_on_sp_last by exact Ws. cbn [rev app]. rewrite Hw.
  assert (B : beqs w_continue w_continue = true) by reflexivity. rewrite B. reflexivity.
Qed.
