(* Proofs/BacklogProofs.v — the ring refines "infinite log + window" (C18). *)
From RS Require Import Base.Bytes Base.Table Model.Backlog.
From Coq Require Import ZifyN ZifyNat ZifyBool.
Ltac Zify.zify_post_hook ::= Z.div_mod_to_equations.
Open Scope N_scope.

(* the log: every byte ever written, addressed by absolute offset *)
Definition hist_of (log : bytes) : N -> byte := fun p => nth (N.to_nat p) log x00.

(* invariant: the last min(wpos,size) bytes of the log are where the ring arithmetic looks *)
Definition cellf (r : ring) (i : N) : byte := nth (N.to_nat i) (cells r) x00.
Definition inv (r : ring) (hist : N -> byte) : Prop :=
  0 < size r /\ N.of_nat (length (cells r)) = size r /\
  forall p, p < wpos r -> wpos r <= p + size r -> cellf r (p mod size r) = hist p.

Lemma mod_add_small a s i : 0 < s -> a mod s + i < s -> (a + i) mod s = a mod s + i.
Proof. intros Hs H. rewrite N.add_mod by lia. rewrite (N.mod_small i) by lia. apply N.mod_small. exact H. Qed.

Lemma read_cells_nth c off n i : (i < n)%nat -> (N.to_nat off + n <= length c)%nat ->
  nth i (read_cells c off n) x00 = nth (N.to_nat (off + N.of_nat i)) c x00.
Proof.
  intros Hi Hl. unfold read_cells. rewrite Table.nth_firstn_lt by exact Hi. rewrite nth_skipn_add. f_equal. lia.
Qed.
Lemma read_cells_length c off n : (N.to_nat off + n <= length c)%nat -> length (read_cells c off n) = n.
Proof. intros H. unfold read_cells. rewrite firstn_length, skipn_length. lia. Qed.

Lemma upd_cells_length c off bs : (N.to_nat off + length bs <= length c)%nat -> length (upd_cells c off bs) = length c.
Proof. intros H. unfold upd_cells. rewrite !app_length, firstn_length, skipn_length. lia. Qed.

Lemma upd_cells_nth c off bs j : (N.to_nat off + length bs <= length c)%nat ->
  nth (N.to_nat j) (upd_cells c off bs) x00 =
    if (off <=? j) && (j <? off + N.of_nat (length bs)) then nth (N.to_nat (j - off)) bs x00 else nth (N.to_nat j) c x00.
Proof.
  intros H. unfold upd_cells.
  destruct (N.leb_spec off j) as [H1|H1]; cbn [andb].
  - rewrite app_nth2 by (rewrite firstn_length; lia). rewrite firstn_length.
    replace (Init.Nat.min (N.to_nat off) (length c)) with (N.to_nat off) by lia.
    destruct (N.ltb_spec j (off + N.of_nat (length bs))) as [H2|H2].
    + rewrite app_nth1 by lia. f_equal. lia.
    + rewrite app_nth2 by lia. rewrite nth_skipn_add. f_equal. lia.
  - rewrite app_nth1 by (rewrite firstn_length; lia). apply Table.nth_firstn_lt. lia.
Qed.

Lemma nth_firstn_lt (l : bytes) n i : (i < n)%nat -> nth i (firstn n l) x00 = nth i l x00.
Proof. revert n i. induction l as [|a l IH]; intros n i H; destruct n, i; cbn [firstn nth]; auto; try lia. apply IH. lia. Qed.

Theorem read_at_spec r hist blen rpos : inv r hist ->
  match read_at r blen rpos with
  | Empty => blen = 0
  | Closed => closed r = true
  | Invalid => wpos r < rpos \/ rpos + size r < wpos r
  | Wait => rpos = wpos r /\ closed r = false /\ blen <> 0
  | Data bs => closed r = false /\ 0 < N.of_nat (length bs) <= blen /\ rpos + N.of_nat (length bs) <= wpos r /\
               wpos r <= rpos + size r /\
               forall i, (i < length bs)%nat -> nth i bs x00 = hist (rpos + N.of_nat i)
  end.
Proof.
  intros [Hs [Hlen Hc]]. unfold read_at.
  destruct (N.eqb_spec blen 0) as [Eb|Eb]; [exact Eb|].
  destruct (closed r) eqn:Cl; [reflexivity|].
  destruct ((wpos r <? rpos) || (rpos + size r <? wpos r)) eqn:V.
  - apply orb_true_iff in V. destruct V as [V|V]; apply N.ltb_lt in V; auto.
  - apply orb_false_iff in V. destruct V as [V1 V2]. apply N.ltb_ge in V1, V2.
    unfold roffset. set (maxlen := N.min (N.min blen (wpos r - rpos)) (size r - rpos mod size r)).
    assert (Hoff : rpos mod size r < size r) by (apply N.mod_lt; lia).
    destruct (N.eqb_spec maxlen 0) as [E|E].
    + unfold maxlen in E. repeat split; [lia|exact Eb].
    + assert (Hfit : (N.to_nat (rpos mod size r) + N.to_nat maxlen <= length (cells r))%nat) by (unfold maxlen in *; lia).
      rewrite read_cells_length by exact Hfit. rewrite N2Nat.id. split; [reflexivity|]. split; [unfold maxlen; lia|].
      split; [unfold maxlen; lia|]. split; [lia|].
      intros i Hi. rewrite read_cells_nth by lia.
      rewrite <- (mod_add_small rpos (size r) (N.of_nat i)) by (unfold maxlen in *; lia).
      apply Hc; unfold maxlen in *; lia.
Qed.

Theorem write_some_inv r hist bs : inv r hist ->
  let '(r', n) := write_some r bs in
  n <= N.of_nat (length bs) /\ (n = 0 <-> bs = []) /\ size r' = size r /\ wpos r' = wpos r + n /\ closed r' = closed r /\
  forall hist', (forall p, p < wpos r -> hist' p = hist p) ->
                (forall j, j < n -> hist' (wpos r + j) = nth (N.to_nat j) bs x00) -> inv r' hist'.
Proof.
  intros [Hs [Hlen Hc]]. unfold write_some, woffset. lazy beta iota zeta.
  set (maxlen := N.min (N.min (N.of_nat (length bs)) (size r)) (size r - wpos r mod size r)).
  assert (Hoff : wpos r mod size r < size r) by (apply N.mod_lt; lia).
  destruct (N.eqb_spec maxlen 0) as [E|E].
  - split; [lia|]. split.
    + split; intros _; [|reflexivity]. destruct bs; [reflexivity|]. unfold maxlen in E. simpl length in E. lia.
    + split; [reflexivity|]. split; [lia|]. split; [reflexivity|].
      intros hist' Hold _. split; [exact Hs|]. split; [exact Hlen|]. intros p Hp Hw. rewrite Hold by exact Hp. apply Hc; assumption.
  - split; [unfold maxlen; lia|]. split.
    + split; intros Hn; [lia|]. subst bs. unfold maxlen in E. simpl in E. lia.
    + split; [reflexivity|]. split; [reflexivity|]. split; [reflexivity|].
      assert (Lf : length (firstn (N.to_nat maxlen) bs) = N.to_nat maxlen) by (rewrite firstn_length; unfold maxlen; lia).
      assert (Hfit : (N.to_nat (wpos r mod size r) + length (firstn (N.to_nat maxlen) bs) <= length (cells r))%nat)
        by (rewrite Lf; unfold maxlen in *; lia).
      intros hist' Hold Hnew. split; [exact Hs|]. cbn [size wpos cells].
      split; [rewrite upd_cells_length by exact Hfit; exact Hlen|].
      intros p Hp Hw. unfold cellf. cbn [cells]. rewrite upd_cells_nth by exact Hfit. rewrite Lf, N2Nat.id.
      destruct (N.lt_ge_cases p (wpos r)) as [Hlt|Hge].
      * destruct ((wpos r mod size r <=? p mod size r) && (p mod size r <? wpos r mod size r + maxlen)) eqn:B.
        -- exfalso. apply andb_true_iff in B. destruct B as [B1 B2]. apply N.leb_le in B1. apply N.ltb_lt in B2.
           set (j := p mod size r - wpos r mod size r) in *.
           assert (Em : (wpos r + j) mod size r = p mod size r).
           { rewrite mod_add_small by (unfold maxlen in *; lia). unfold j. lia. }
           pose proof (N.div_mod p (size r)) as Dp. pose proof (N.div_mod (wpos r + j) (size r)) as Dw.
           rewrite Em in Dw.
           assert (Q : (wpos r + j) / size r = p / size r).
           { destruct (N.lt_trichotomy (p / size r) ((wpos r + j) / size r)) as [L|[L|L]]; [|auto|]; unfold maxlen in *; nia. }
           rewrite Q in Dw. lia.
        -- rewrite Hold by exact Hlt. apply (Hc p); unfold maxlen in *; lia.
      * set (j := p - wpos r). replace p with (wpos r + j) by (unfold j; lia).
        rewrite mod_add_small by (unfold maxlen, j in *; lia).
        replace (wpos r mod size r <=? wpos r mod size r + j) with true by (symmetry; apply N.leb_le; lia).
        replace (wpos r mod size r + j <? wpos r mod size r + maxlen) with true by (symmetry; apply N.ltb_lt; unfold j; lia).
        cbn [andb]. rewrite Hnew by (unfold j; lia).
        replace (wpos r mod size r + j - wpos r mod size r) with j by lia.
        rewrite nth_firstn_lt by (unfold j, maxlen in *; lia). reflexivity.
Qed.

(* the relation between a ring and the log of everything written so far *)
Definition rel (r : ring) (log : bytes) : Prop := inv r (hist_of log) /\ wpos r = N.of_nat (length log).

Lemma hist_app_old log bs p : p < N.of_nat (length log) -> hist_of (log ++ bs) p = hist_of log p.
Proof. intros H. unfold hist_of. rewrite app_nth1 by lia. reflexivity. Qed.
Lemma hist_app_new log bs j : hist_of (log ++ bs) (N.of_nat (length log) + j) = nth (N.to_nat j) bs x00.
Proof. unfold hist_of. rewrite app_nth2 by lia. f_equal. lia. Qed.

Lemma write_loop_rel fuel : forall r log bs acc, rel r log -> (length bs < fuel)%nat ->
  let '(r', n) := write_loop fuel r bs acc in
  rel r' (log ++ bs) /\ n = acc + N.of_nat (length bs) /\ size r' = size r /\ closed r' = closed r.
Proof.
  induction fuel as [|fuel IH]; intros r log bs acc [Hi Hw] Hf; [lia|].
  cbn [write_loop]. destruct bs as [|b bs'] eqn:Ebs.
  - rewrite app_nil_r. split; [split; assumption|]. split; [simpl; lia|split; reflexivity].
  - rewrite <- Ebs in *. pose proof (write_some_inv r (hist_of log) bs Hi) as W.
    destruct (write_some r bs) as [r1 n1]. destruct W as [Hn [Hz [Hsz [Hwp [Hcl Hinv]]]]].
    assert (Hn0 : n1 <> 0) by (intros E0; apply Hz in E0; subst bs; discriminate).
    set (done_ := firstn (N.to_nat n1) bs). set (rest := skipn (N.to_nat n1) bs).
    assert (Ed : bs = done_ ++ rest) by (symmetry; apply firstn_skipn).
    assert (Ld : length done_ = N.to_nat n1) by (unfold done_; rewrite firstn_length; lia).
    assert (R1 : rel r1 (log ++ done_)).
    { split.
      - apply Hinv.
        + intros p Hp. apply hist_app_old. lia.
        + intros j Hj. rewrite Hw, hist_app_new. unfold done_. rewrite nth_firstn_lt by lia. reflexivity.
      - rewrite Hwp, Hw, app_length. lia. }
    specialize (IH r1 (log ++ done_) rest (acc + n1) R1).
    assert (Lr : (length rest < fuel)%nat).
    { unfold rest. rewrite skipn_length. lia. }
    specialize (IH Lr). destruct (write_loop fuel r1 rest (acc + n1)) as [r2 n2].
    destruct IH as [IH1 [IH2 [IH3 IH4]]].
    rewrite <- app_assoc, <- Ed in IH1. split; [exact IH1|].
    split; [|split; congruence].
    rewrite IH2. unfold rest. rewrite skipn_length. lia.
Qed.

Theorem write_rel r log bs : rel r log -> closed r = false ->
  let '(r', n, err) := write r bs in
  rel r' (log ++ bs) /\ n = N.of_nat (length bs) /\ err = false /\ size r' = size r /\ closed r' = false.
Proof.
  intros Hr Hc. unfold write. destruct bs as [|b bs'] eqn:E.
  - rewrite app_nil_r. repeat split; try apply Hr; assumption.
  - rewrite Hc. rewrite <- E. pose proof (write_loop_rel (S (length bs)) r log bs 0 Hr ltac:(lia)) as W.
    destruct (write_loop (S (length bs)) r bs 0) as [r' n]. destruct W as [W1 [W2 [W3 W4]]].
    repeat split; try apply W1; try assumption; try lia. congruence.
Qed.

Lemma new_ring_rel sz unit : 0 < unit -> rel (new_ring sz unit) [].
Proof.
  intros Hu. split; [|reflexivity]. split.
  - cbn [new_ring size]. unfold align. destruct (sz <? unit) eqn:E; [exact Hu|].
    apply N.ltb_ge in E. assert (1 <= (sz + unit - 1) / unit) by (apply N.div_le_lower_bound; lia). nia.
  - split; [cbn [new_ring cells size]; rewrite repeat_length; lia|].
    cbn [new_ring wpos]. intros p Hp. lia.
Qed.

(* data range = the most recent min(total written, capacity) bytes *)
Lemma data_range_spec r log : rel r log -> closed r = false ->
  let '(lo, hi) := data_range r in
  hi = N.of_nat (length log) /\ hi - lo = N.min (N.of_nat (length log)) (size r).
Proof.
  intros [_ Hw] Hc. unfold data_range. rewrite Hc. destruct (N.leb_spec (size r) (wpos r)); split; lia.
Qed.

Lemma reader_valid_spec r seek : closed r = false ->
  reader_valid r seek = true <-> (fst (data_range r) <= seek <= snd (data_range r)).
Proof.
  intros Hc. unfold reader_valid. destruct (data_range r) as [lo hi]. cbn [fst snd]. lia.
Qed.

Lemma close_closed r blen rpos : blen <> 0 -> read_at (close r) blen rpos = Closed.
Proof. intros H. unfold read_at. destruct (N.eqb_spec blen 0); [contradiction|]. reflexivity. Qed.

(* ---- every reachable state (any sequence of writes), in terms of the log itself ---- *)
Fixpoint run_writes (r : ring) (ws : list bytes) : ring :=
  match ws with [] => r | w :: t => run_writes (fst (fst (write r w))) t end.

Lemma run_writes_rel ws : forall r log, rel r log -> closed r = false ->
  rel (run_writes r ws) (log ++ concat ws) /\ closed (run_writes r ws) = false /\ size (run_writes r ws) = size r.
Proof.
  induction ws as [|w ws IH]; intros r log Hr Hc.
  - cbn [run_writes concat]. rewrite app_nil_r. repeat split; try apply Hr; assumption.
  - cbn [run_writes concat]. pose proof (write_rel r log w Hr Hc) as W.
    destruct (write r w) as [[r' n] e]. destruct W as [W1 [_ [_ [W4 W5]]]]. cbn [fst].
    destruct (IH r' (log ++ w) W1 W5) as [I1 [I2 I3]]. rewrite <- app_assoc in I1.
    repeat split; try apply I1; try assumption. congruence.
Qed.

Lemma data_is_log_slice (bs log : bytes) rpos :
  rpos + N.of_nat (length bs) <= N.of_nat (length log) ->
  (forall i, (i < length bs)%nat -> nth i bs x00 = hist_of log (rpos + N.of_nat i)) ->
  bs = firstn (length bs) (skipn (N.to_nat rpos) log).
Proof.
  intros Hl H. apply nth_ext with (d := x00) (d' := x00).
  - rewrite firstn_length, skipn_length. lia.
  - intros i Hi. rewrite H by exact Hi. unfold hist_of.
    rewrite nth_firstn_lt by exact Hi. rewrite nth_skipn_add. f_equal. lia.
Qed.

Theorem read_at_reachable sz unit ws blen rpos : 0 < unit ->
  let r := run_writes (new_ring sz unit) ws in
  let log := concat ws in
  let total := N.of_nat (length log) in
  match read_at r blen rpos with
  | Data bs => bs = firstn (length bs) (skipn (N.to_nat rpos) log) /\ 0 < N.of_nat (length bs) <= blen /\
               rpos + N.of_nat (length bs) <= total /\ total <= rpos + size r
  | Wait => rpos = total /\ blen <> 0
  | Invalid => total < rpos \/ rpos + size r < total
  | Empty => blen = 0
  | Closed => False
  end.
Proof.
  intros Hu r log total.
  destruct (run_writes_rel ws (new_ring sz unit) [] (new_ring_rel sz unit Hu) eq_refl) as [Hr [Hc _]].
  cbn [app] in Hr. fold r in Hr, Hc. fold log in Hr. destruct Hr as [Hi Hw].
  pose proof (read_at_spec r (hist_of log) blen rpos Hi) as S.
  destruct (read_at r blen rpos) as [bs| | | |].
  - destruct S as [_ [S1 [S2 [S3 S4]]]]. rewrite Hw in S2, S3. fold total in S2, S3.
    split; [apply data_is_log_slice; [exact S2|exact S4]|]. repeat split; try lia.
  - destruct S as [S1 [_ S3]]. split; [rewrite S1, Hw; reflexivity|exact S3].
  - rewrite Hw in S. exact S.
  - congruence.
  - exact S.
Qed.

Theorem data_range_reachable sz unit ws : 0 < unit ->
  let r := run_writes (new_ring sz unit) ws in
  let total := N.of_nat (length (concat ws)) in
  data_range r = (total - N.min total (size r), total).
Proof.
  intros Hu r total.
  destruct (run_writes_rel ws (new_ring sz unit) [] (new_ring_rel sz unit Hu) eq_refl) as [[_ Hw] [Hc _]].
  cbn [app] in Hw. fold r in Hw, Hc. unfold data_range. rewrite Hc. fold total in Hw.
  destruct (N.leb_spec (size r) (wpos r)); f_equal; lia.
Qed.
