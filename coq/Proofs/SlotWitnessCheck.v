(* Proofs/SlotWitnessCheck.v — the vm_compute checks of the untrusted witness tables (slow, kept apart). *)
From RS Require Import Base.Bytes Base.Dec Spec.Crc16 Spec.Slot Gen.Crc16 Model.SlotKeys Proofs.SlotWitness.
From Coq Require Import ZifyN ZifyNat ZifyBool.
Open Scope N_scope.

Definition lt26 (k : N) : byte := nth (N.to_nat (k mod 26)) letters x61.
Definition word4 (i : N) : bytes := [lt26 (i / 17576); lt26 (i / 676); lt26 (i / 26); lt26 i].


(* ---- witness tables, checked ---- *)
Definition seqN (n : N) : list N := map N.of_nat (seq 0 (N.to_nat n)).

Definition cp_prefix : bytes := checkpoint_key ++ [x2d].

Lemma cp_witness_ok_fast :
  map (fun i => slot_spec_fast (cp_prefix ++ word4 i)) cp_witness = seqN 16384.
Proof. vm_cast_no_check (eq_refl (seqN 16384)). Qed.

Lemma cp_witness_ok :
  map (fun i => slot_spec (cp_prefix ++ word4 i)) cp_witness = seqN 16384.
Proof.
  rewrite <- cp_witness_ok_fast. apply map_ext. intros i. symmetry. apply slot_spec_fast_ok.
Qed.

Lemma lat_witness_ok :
  map (fun i => N.land (crc16_latency (latency_key i)) 16383) lat_witness = seqN 16384.
Proof. vm_cast_no_check (eq_refl (seqN 16384)). Qed.

Lemma lat_witness_bound : forallb (fun i => i <? 150000) lat_witness = true.
Proof. vm_compute. reflexivity. Qed.

