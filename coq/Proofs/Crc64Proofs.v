(* Proofs/Crc64Proofs.v — chunking, state injectivity, byte sensitivity: any single-byte
   substitution changes the CRC-64, for inputs of every length. *)
From RS Require Import Base.Bytes Base.Table Base.Endian Spec.Crc64.
From Coq Require Import ZifyN ZifyNat ZifyBool.
Open Scope N_scope.

Notation table := crc64_table.
Notation tget := (tget64 crc64_table).
Notation upd := (upd64 crc64_table).
Definition crc64i (init : N) (bs : bytes) : N := crc64_with crc64_table init bs.

Lemma crc64i_app i a b : crc64i i (a ++ b) = crc64i (crc64i i a) b.
Proof. unfold crc64i, crc64_with. apply fold_left_app. Qed.

Lemma crc64_app a b : crc64 (a ++ b) = crc64i (crc64 a) b.
Proof. apply crc64i_app. Qed.

Lemma crc64_chunks (chunks : list bytes) :
  crc64 (concat chunks) = fold_left crc64i chunks 0.
Proof.
  unfold crc64. change (crc64_with table 0) with (crc64i 0). generalize 0 as c.
  induction chunks as [|ch chunks IH]; intros c; [reflexivity|].
  cbn [concat fold_left]. rewrite crc64i_app. apply IH.
Qed.

Definition top (x : N) := N.shiftr x 56.
Lemma table_wf : forallb (fun x => x <? 2^64) table = true. Proof. vm_compute. reflexivity. Qed.
Definition tops := Eval vm_compute in map top table.
Lemma tops_nodup : NoDup tops.
Proof.
  assert (H: forallb (fun p => negb (existsb (N.eqb (fst p)) (snd p)))
            ((fix tails (l : list N) := match l with [] => [] | x :: r => (x, r) :: tails r end) tops) = true)
    by (vm_compute; reflexivity).
  revert H. generalize tops. induction l as [|x r IH]; intros H; constructor.
  - simpl in H. apply andb_true_iff in H. destruct H as [H _].
    intros Hin. apply negb_true_iff in H.
    assert (existsb (N.eqb x) r = true). { apply existsb_exists. exists x. split; auto. apply N.eqb_refl. }
    congruence.
  - apply IH. simpl in H. apply andb_true_iff in H. tauto.
Qed.

Lemma tget_top_inj i j : i < 256 -> j < 256 -> top (tget i) = top (tget j) -> i = j.
Proof.
  intros Hi Hj H. unfold tget64 in H.
  assert (Hl : length tops = 256%nat) by reflexivity.
  assert (Ht : forall k, (k < 256)%nat -> top (nth k table 0) = nth k tops 0).
  { intros k Hk. assert (E : tops = map top table) by (vm_compute; reflexivity).
    rewrite E. change 0 with (top 0) at 2. rewrite map_nth. reflexivity. }
  rewrite !Ht in H by lia.
  pose proof tops_nodup as ND.
  rewrite NoDup_nth in ND. specialize (ND (N.to_nat i) (N.to_nat j)).
  apply N2Nat.inj. apply ND; try lia. exact H.
Qed.

Lemma shiftr8_top c : c < 2^64 -> top (N.shiftr c 8) = 0.
Proof.
  intros H. unfold top. rewrite N.shiftr_shiftr. change (8+56) with 64.
  destruct (N.eq_dec c 0) as [->|Hz]; [reflexivity|].
  apply N.shiftr_eq_0. apply N.log2_lt_pow2; lia.
Qed.

Lemma idx_lt c b : N.land (N.lxor c b) 255 < 256.
Proof. change 255 with (N.ones 8). rewrite N.land_ones. apply N.mod_lt. discriminate. Qed.

Lemma upd_inj_state c1 c2 b : c1 < 2^64 -> c2 < 2^64 -> upd c1 b = upd c2 b -> c1 = c2.
Proof.
  intros H1 H2 H. unfold upd64 in H.
  set (i1 := N.land (N.lxor c1 b) 255) in *. set (i2 := N.land (N.lxor c2 b) 255) in *.
  assert (Hi1 : i1 < 256) by apply idx_lt.
  assert (Hi2 : i2 < 256) by apply idx_lt.
  assert (Htop : top (tget i1) = top (tget i2)).
  { apply (f_equal top) in H. unfold top in H. rewrite !N.shiftr_lxor in H.
    fold (top (N.shiftr c1 8)) in H. fold (top (N.shiftr c2 8)) in H.
    rewrite !shiftr8_top in H by assumption. rewrite !N.lxor_0_r in H. exact H. }
  assert (Hi : i1 = i2) by (apply tget_top_inj; assumption).
  rewrite Hi in H.
  assert (Hs : N.shiftr c1 8 = N.shiftr c2 8).
  { apply (f_equal (N.lxor (tget i2))) in H.
    rewrite <- !N.lxor_assoc in H. rewrite N.lxor_nilpotent in H. rewrite !N.lxor_0_l in H. exact H. }
  apply N.bits_inj. intros n.
  destruct (N.lt_ge_cases n 8) as [Hn|Hn].
  - assert (Hb : N.testbit i1 n = N.testbit i2 n) by (rewrite Hi; reflexivity).
    unfold i1, i2 in Hb. change 255 with (N.ones 8) in Hb.
    rewrite !N.land_spec, !N.ones_spec_low, !andb_true_r, !N.lxor_spec in Hb by assumption.
    destruct (N.testbit c1 n), (N.testbit c2 n), (N.testbit b n); simpl in Hb; congruence.
  - replace n with ((n - 8) + 8) by lia. rewrite <- !N.shiftr_spec'. rewrite Hs. reflexivity.
Qed.

Lemma tget_lt i : i < 256 -> tget i < 2^64.
Proof.
  intros Hi. unfold tget64. pose proof table_wf as W. rewrite forallb_forall in W.
  assert (L : length table = 256%nat) by reflexivity.
  specialize (W (nth (N.to_nat i) table 0)). apply N.ltb_lt. apply W. apply nth_In. lia.
Qed.

Lemma lxor_lt a b n : a < 2^n -> b < 2^n -> N.lxor a b < 2^n.
Proof.
  intros Ha Hb.
  destruct (N.eq_dec (N.lxor a b) 0) as [E|E]; [rewrite E; apply N.lt_le_trans with (m := 1); [lia|];
    change 1 with (2^0); apply N.pow_le_mono_r; lia|].
  apply N.log2_lt_pow2; [lia|].
  apply N.le_lt_trans with (m := N.max (N.log2 a) (N.log2 b)); [apply N.log2_lxor|].
  destruct (N.eq_dec a 0) as [->|Ha0]; destruct (N.eq_dec b 0) as [->|Hb0]; simpl.
  - rewrite N.lxor_0_l in E. congruence.
  - rewrite N.max_r by lia. apply N.log2_lt_pow2; lia.
  - rewrite N.max_l by lia. apply N.log2_lt_pow2; lia.
  - apply N.max_lub_lt; apply N.log2_lt_pow2; lia.
Qed.

Lemma upd_wf c b : c < 2^64 -> upd c b < 2^64.
Proof.
  intros Hc. unfold upd64. apply lxor_lt; [apply tget_lt, idx_lt|].
  rewrite N.shiftr_div_pow2. apply N.le_lt_trans with (m := c); [|exact Hc].
  change (2^8) with 256. apply N.div_le_upper_bound; lia.
Qed.

Lemma upd_byte_sensitive c b b' : c < 2^64 -> b < 256 -> b' < 256 -> b <> b' -> upd c b <> upd c b'.
Proof.
  intros Hc Hb Hb' Hne H. unfold upd64 in H.
  assert (Htop : top (tget (N.land (N.lxor c b) 255)) = top (tget (N.land (N.lxor c b') 255))).
  { apply (f_equal top) in H. unfold top in H. rewrite !N.shiftr_lxor in H.
    fold (top (N.shiftr c 8)) in H. rewrite !shiftr8_top in H by assumption. rewrite !N.lxor_0_r in H. exact H. }
  apply tget_top_inj in Htop; try apply idx_lt.
  apply Hne. apply N.bits_inj. intros n.
  destruct (N.lt_ge_cases n 8) as [Hn|Hn].
  - assert (Hbit : N.testbit (N.land (N.lxor c b) 255) n = N.testbit (N.land (N.lxor c b') 255) n) by (rewrite Htop; reflexivity).
    change 255 with (N.ones 8) in Hbit.
    rewrite !N.land_spec, !N.ones_spec_low, !andb_true_r, !N.lxor_spec in Hbit by assumption.
    destruct (N.testbit c n), (N.testbit b n), (N.testbit b' n); simpl in Hbit; congruence.
  - assert (Hhi : forall x, x < 256 -> N.testbit x n = false).
    { intros x Hx. destruct (N.eq_dec x 0) as [->|Hx0]; [apply N.bits_0|].
      apply N.bits_above_log2. apply N.lt_le_trans with (m := 8); [|exact Hn]. apply N.log2_lt_pow2; lia. }
    rewrite !Hhi by assumption. reflexivity.
Qed.

Lemma crc64i_wf i bs : i < 2^64 -> crc64i i bs < 2^64.
Proof.
  unfold crc64i, crc64_with. revert i. induction bs as [|b bs IH]; intros i Hi; cbn [fold_left]; auto.
  apply IH. apply upd_wf. exact Hi.
Qed.

Lemma crc64_wf bs : crc64 bs < 2^64.
Proof. apply crc64i_wf. reflexivity. Qed.

Lemma crc64i_inj_init bs : forall i j, i < 2^64 -> j < 2^64 -> i <> j -> crc64i i bs <> crc64i j bs.
Proof.
  unfold crc64i, crc64_with.
  induction bs as [|b bs IH]; intros i j Hi Hj Hne; cbn [fold_left]; auto.
  apply IH; try apply upd_wf; auto. intros E. apply Hne. eapply upd_inj_state; eauto.
Qed.

Theorem single_byte_substitution_detected pre (b b' : byte) suf :
  b <> b' -> crc64 (pre ++ b :: suf) <> crc64 (pre ++ b' :: suf).
Proof.
  intros Hne. rewrite !crc64_app.
  change (crc64i (crc64 pre) (b :: suf)) with (crc64i (upd (crc64 pre) (b2n b)) suf).
  change (crc64i (crc64 pre) (b' :: suf)) with (crc64i (upd (crc64 pre) (b2n b')) suf).
  pose proof (crc64_wf pre) as W.
  apply crc64i_inj_init; try apply upd_wf; auto.
  apply upd_byte_sensitive; auto using b2n_lt.
  intros E. apply Hne. apply b2n_inj. exact E.
Qed.

(* substitution at position i, as a function on lists *)
Fixpoint set_nth (i : nat) (b : byte) (l : bytes) : bytes :=
  match l, i with
  | [], _ => []
  | _ :: r, O => b :: r
  | x :: r, S i' => x :: set_nth i' b r
  end.

Lemma set_nth_split i b l : (i < length l)%nat ->
  exists pre x suf, l = pre ++ x :: suf /\ set_nth i b l = pre ++ b :: suf /\ length pre = i /\ nth i l x00 = x.
Proof.
  revert i. induction l as [|y l IH]; intros i H; [simpl in H; lia|].
  destruct i as [|i].
  - exists [], y, l. repeat split.
  - destruct (IH i) as [pre [x [suf [E1 [E2 [E3 E4]]]]]]; [simpl in H; lia|].
    exists (y :: pre), x, suf. cbn [set_nth nth app length]. rewrite <- E1, E2, E3. repeat split. exact E4.
Qed.

Theorem crc64_detects_substitution data i b :
  (i < length data)%nat -> b <> nth i data x00 -> crc64 (set_nth i b data) <> crc64 data.
Proof.
  intros Hi Hb. destruct (set_nth_split i b data Hi) as [pre [x [suf [E1 [E2 [_ E4]]]]]].
  rewrite E2. rewrite E1. apply single_byte_substitution_detected. congruence.
Qed.

Lemma set_nth_length i b l : length (set_nth i b l) = length l.
Proof. revert i. induction l as [|x l IH]; intros [|i]; simpl; auto. Qed.

Lemma set_nth_app_l i b l r : (i < length l)%nat -> set_nth i b (l ++ r) = set_nth i b l ++ r.
Proof.
  revert i. induction l as [|x l IH]; intros i H; [simpl in H; lia|].
  destruct i; [reflexivity|]. cbn [set_nth app]. rewrite IH; [reflexivity|simpl in H; lia].
Qed.

Lemma set_nth_app_r i b l r : (length l <= i)%nat -> set_nth i b (l ++ r) = l ++ set_nth (i - length l) b r.
Proof.
  revert i. induction l as [|x l IH]; intros i H; [simpl; rewrite Nat.sub_0_r; reflexivity|].
  destruct i; [simpl in H; lia|]. cbn [set_nth app length]. rewrite IH; [reflexivity|simpl in H; lia].
Qed.

Lemma set_nth_neq i b l : (i < length l)%nat -> b <> nth i l x00 -> set_nth i b l <> l.
Proof.
  revert i. induction l as [|x l IH]; intros i H Hb; [simpl in H; lia|].
  destruct i; cbn [set_nth nth] in *; [congruence|].
  intros E. inversion E as [E']. revert E'. apply IH; [simpl in H; lia|exact Hb].
Qed.

(* a body followed by the little-endian CRC of the body: any one substituted byte makes
   the stored and the recomputed checksum differ *)
Theorem crc_trailer_detects body i b :
  let whole := body ++ le_enc 8 (crc64 body) in
  (i < length whole)%nat -> b <> nth i whole x00 ->
  let whole' := set_nth i b whole in
  crc64 (firstn (length body) whole') <> le_dec (skipn (length body) whole').
Proof.
  intros whole Hi Hb whole'. subst whole whole'.
  destruct (Nat.lt_ge_cases i (length body)) as [Hlt|Hge].
  - rewrite set_nth_app_l by exact Hlt.
    rewrite firstn_app, skipn_app, set_nth_length, Nat.sub_diag, firstn_all2, skipn_all2 by (rewrite set_nth_length; lia).
    cbn [firstn skipn]. rewrite app_nil_r, app_nil_l.
    rewrite le_dec_enc by (change (8 * N.of_nat 8) with 64; apply crc64_wf).
    apply crc64_detects_substitution; [exact Hlt|].
    rewrite app_nth1 in Hb by exact Hlt. exact Hb.
  - rewrite set_nth_app_r by exact Hge.
    rewrite firstn_app, skipn_app, Nat.sub_diag, firstn_all2, skipn_all2 by lia.
    cbn [firstn skipn]. rewrite app_nil_r, app_nil_l.
    rewrite app_nth2 in Hb by exact Hge. rewrite app_length, le_enc_length in Hi.
    intros E.
    assert (E' : le_dec (le_enc 8 (crc64 body)) = le_dec (set_nth (i - length body) b (le_enc 8 (crc64 body)))).
    { rewrite le_dec_enc by (change (8 * N.of_nat 8) with 64; apply crc64_wf). exact E. }
    apply le_dec_inj in E'; [|rewrite set_nth_length; reflexivity].
    symmetry in E'. revert E'. apply set_nth_neq; [rewrite le_enc_length; lia|exact Hb].
Qed.
