(* Proofs/CmdFilterProofs.v — lemmas for C13. *)
From RS Require Import Base.Bytes Model.Filter Model.CmdFilter Gen.CmdTable.
From Coq Require Import ZifyNat ZifyBool.
Open Scope Z_scope.

Definition keyof (g : list arg) : arg := hd [] g.

(* [r] argument positions are covered by exactly [n] groups of [step] arguments *)
Definition cover (n step r : nat) : Prop :=
  (n = 0 /\ r = 0)%nat \/ (n > 0 /\ (n - 1) * step < r <= n * step)%nat.

Lemma firstn_app_exact {A} (a b : list A) n : length a = n -> firstn n (a ++ b) = a.
Proof. intros <-. rewrite firstn_app, Nat.sub_diag, firstn_all, firstn_O. apply app_nil_r. Qed.
Lemma skipn_app_exact {A} (a b : list A) n : length a = n -> skipn n (a ++ b) = b.
Proof. intros <-. rewrite skipn_app, Nat.sub_diag, skipn_all. reflexivity. Qed.

Lemma scan_spec pass step : (step > 0)%nat -> forall groups fuel r trailing,
  Forall (fun g => length g = step) groups -> (length groups <= fuel)%nat -> cover (length groups) step r ->
  scan fuel step r (concat groups ++ trailing) pass =
    (concat (filter (fun g => pass (keyof g)) groups), existsb (fun g => pass (keyof g)) groups, trailing).
Proof.
  intros Hs. induction groups as [|g gs IH]; intros fuel r trailing Hf Hl Hc.
  - destruct Hc as [[_ ->]|[Hc _]]; [|simpl in Hc; lia]. destruct fuel; reflexivity.
  - destruct Hc as [[Hc _]|[_ Hc]]; [discriminate|]. cbn [length] in *.
    destruct fuel as [|fuel]; [lia|]. inversion Hf as [|? ? Hg Hgs]; subst.
    destruct r as [|r']; [lia|]. cbn [scan concat]. rewrite <- app_assoc.
    rewrite firstn_app_exact, skipn_app_exact by reflexivity.
    assert (Hc' : cover (length gs) (length g) (S r' - length g)).
    { unfold cover. destruct gs as [|g' gs']; cbn [length] in *; [left; split; lia|right; split; [lia|]].
      split; nia. }
    rewrite (IH fuel (S r' - length g)%nat trailing Hgs ltac:(lia) Hc').
    assert (Hk : hd [] (g ++ concat gs ++ trailing) = keyof g).
    { destruct g; [simpl in Hs; lia|reflexivity]. }
    rewrite Hk. cbn [filter existsb]. destruct (pass (keyof g)); reflexivity.
Qed.

Definition shape_ok (first last : Z) (step ng nt : nat) : Prop :=
  if last <? 0 then Z.of_nat nt = - last - 1
  else if last =? 0 then nt = 0%nat
  else cover ng step (Z.to_nat (last - first + 1)).

Theorem get_match_keys_spec first last step lead groups trailing pass :
  1 <= first -> 0 < step ->
  Z.of_nat (length lead) = first - 1 ->
  Forall (fun g => length g = Z.to_nat step) groups ->
  shape_ok first last (Z.to_nat step) (length groups) (length trailing) ->
  get_match_keys (first, last, step) (lead ++ concat groups ++ trailing) pass =
    (lead ++ concat (filter (fun g => pass (keyof g)) groups) ++ trailing,
     existsb (fun g => pass (keyof g)) groups).
Proof.
  intros Hf Hs Hl Hg Hsh. unfold get_match_keys.
  assert (El : Z.to_nat (first - 1) = length lead) by lia.
  rewrite El, firstn_app_exact, skipn_app_exact by reflexivity.
  assert (Lc : length (concat groups) = (length groups * Z.to_nat step)%nat).
  { clear - Hg. induction Hg as [|g gs Hx _ IH]; [reflexivity|]. cbn [concat length]. rewrite app_length, IH, Hx. lia. }
  rewrite scan_spec; [reflexivity|lia|exact Hg|rewrite !app_length; nia|].
  unfold shape_ok in Hsh. unfold region. rewrite !app_length, Lc.
  destruct (last <? 0) eqn:E1.
  - destruct (length groups) as [|n] eqn:En; [left; split; [reflexivity|lia]|right; split; [lia|nia]].
  - destruct (last =? 0) eqn:E2.
    + destruct (length groups) as [|n] eqn:En; [left; split; [reflexivity|lia]|right; split; [lia|nia]].
    + replace (last - 1 - (first - 1) + 1) with (last - first + 1) by lia. exact Hsh.
Qed.

(* corollaries in the words of the property *)
Lemma filter_all {A} (f : A -> bool) l : forallb f l = true -> filter f l = l.
Proof. induction l as [|x l IH]; simpl; [reflexivity|]. destruct (f x); simpl; [intros H; rewrite IH by exact H; reflexivity|discriminate]. Qed.

Lemma existsb_false_filter {A} (f : A -> bool) l : existsb f l = false -> filter f l = [].
Proof. induction l as [|x l IH]; simpl; [reflexivity|]. destruct (f x); simpl; [discriminate|exact IH]. Qed.

(* every row of the regenerated table has a sane shape *)
Definition row_ok (row : Z * Z * Z) : bool :=
  let '(f, l, s) := row in (1 <=? f) && (0 <? s) && ((l <=? 0) || (f <=? l)).
Lemma table_rows_ok : forallb (fun e => row_ok (snd e)) cmd_table = true.
Proof. vm_compute. reflexivity. Qed.

Lemma lookup_in cmd row : lookup_cmd cmd cmd_table = Some row -> row_ok row = true.
Proof.
  pose proof table_rows_ok as T. rewrite forallb_forall in T. intros H.
  assert (G : forall tab, lookup_cmd cmd tab = Some row -> exists n, In (n, row) tab).
  { induction tab as [|[n r] tab IH]; [discriminate|]. cbn [lookup_cmd]. destruct (beqs n cmd).
    - intros E. inversion E; subst. exists n. left. reflexivity.
    - intros E. destruct (IH E) as [n' Hn]. exists n'. right. exact Hn. }
  destruct (G _ H) as [n Hn]. exact (T _ Hn).
Qed.

Theorem handle_filter_key_spec c cmd first last step lead groups trailing :
  key_filter_configured c = true ->
  lookup_cmd cmd cmd_table = Some (first, last, step) ->
  lead ++ concat groups ++ trailing <> [] ->
  Z.of_nat (length lead) = first - 1 ->
  Forall (fun g => length g = Z.to_nat step) groups ->
  shape_ok first last (Z.to_nat step) (length groups) (length trailing) ->
  handle_filter_key c cmd (lead ++ concat groups ++ trailing) =
    (lead ++ concat (filter (fun g => negb (filter_key c (keyof g))) groups) ++ trailing,
     negb (existsb (fun g => negb (filter_key c (keyof g))) groups)).
Proof.
  intros Hk Hl Hne Hlead Hg Hsh. unfold handle_filter_key. rewrite Hk, Hl. cbn [negb].
  apply lookup_in in Hl. unfold row_ok in Hl.
  destruct (lead ++ concat groups ++ trailing) eqn:E; [contradiction|]. rewrite <- E.
  rewrite get_match_keys_spec; try assumption; try lia. reflexivity.
Qed.

Lemma handle_no_filter c cmd args : key_filter_configured c = false -> handle_filter_key c cmd args = (args, false).
Proof. intros H. unfold handle_filter_key. rewrite H. reflexivity. Qed.

Lemma handle_unknown c cmd args : lookup_cmd cmd cmd_table = None -> handle_filter_key c cmd args = (args, false).
Proof. intros H. unfold handle_filter_key. rewrite H. destruct (negb _); reflexivity. Qed.

(* the pinned function did not meet the specification: "unlink k" with k passing was
   dropped, "bitop AND d s" lost its operation argument (defect F12, repaired) *)
Lemma pinned_refuted :
  get_match_keys_pinned (1, -1, 1) [[x6b]] (fun _ => true) = ([[x6b]], false) /\
  get_match_keys_pinned (2, -1, 1) [[x41]; [x64]; [x73]] (fun _ => true) = ([[x64]; [x73]], true) /\
  get_match_keys (1, -1, 1) [[x6b]] (fun _ => true) = ([[x6b]], true) /\
  get_match_keys (2, -1, 1) [[x41]; [x64]; [x73]] (fun _ => true) = ([[x41]; [x64]; [x73]], true).
Proof. vm_compute. repeat split. Qed.
