(* Proofs/DecodeProofs.v — base64 round trip for every byte string; the lines of a record read
   back give its value; every schedule of decoder workers emits every record's block once. *)
From RS Require Import Base.Bytes Base.Endian Model.Rdb Model.Cupcake Model.Decode.
From Coq Require Import Lia ZifyN ZifyNat ZifyBool Permutation.
Ltac Zify.zify_post_hook ::= Z.div_mod_to_equations.
Open Scope N_scope.

(* ---- base64 ---- *)
Definition idx64 : list N := map N.of_nat (seq 0 64).
Lemma lt64_in i : i < 64 -> In i idx64.
Proof. intros H. apply in_map_iff. exists (N.to_nat i). split; [lia | apply in_seq; lia]. Qed.

Lemma b64_index_char i : i < 64 -> b64_index (b64_char i) = Some i.
Proof.
  intros H. apply lt64_in in H.
  assert (Hall : forallb (fun i => match b64_index (b64_char i) with Some j => j =? i | None => false end) idx64 = true) by (vm_compute; reflexivity).
  rewrite forallb_forall in Hall. specialize (Hall i H).
  destruct (b64_index (b64_char i)) as [j|]; [|discriminate]. apply N.eqb_eq in Hall. subst. reflexivity.
Qed.

Lemma b64_char_not_pad i : i < 64 -> beq (b64_char i) x3d = false.
Proof.
  intros H. apply lt64_in in H.
  assert (Hall : forallb (fun i => negb (beq (b64_char i) x3d)) idx64 = true) by (vm_compute; reflexivity).
  rewrite forallb_forall in Hall. specialize (Hall i H). destruct (beq (b64_char i) x3d); [discriminate|reflexivity].
Qed.

Lemma list_ind3 {A} (P : list A -> Prop) :
  P [] -> (forall a, P [a]) -> (forall a b, P [a; b]) -> (forall a b c r, P r -> P (a :: b :: c :: r)) -> forall s, P s.
Proof.
  intros H0 H1 H2 H3.
  assert (H : forall n s, (length s <= n)%nat -> P s).
  { induction n as [|n IH]; intros s Hl.
    - destruct s; [exact H0 | simpl in Hl; lia].
    - destruct s as [|a [|b [|c r]]]; [exact H0 | apply H1 | apply H2 |].
      apply H3. apply IH. simpl in Hl. lia. }
  intros s. apply (H (length s)). lia.
Qed.

Theorem b64_roundtrip s : b64_decode (b64_encode s) = Some s.
Proof.
  induction s as [|a|a b|a b c r IH] using list_ind3.
  - reflexivity.
  - cbn [b64_encode b64_decode]. pose proof (b2n_lt a) as Ha.
    set (n := b2n a * 65536).
    rewrite !b64_index_char by (subst n; lia).
    change (beq x3d x3d) with true. cbv iota.
    f_equal. f_equal. transitivity (n2b (b2n a)); [f_equal; subst n; lia | apply n2b_b2n].
  - cbn [b64_encode b64_decode]. pose proof (b2n_lt a) as Ha. pose proof (b2n_lt b) as Hb.
    set (n := b2n a * 65536 + b2n b * 256).
    rewrite !b64_index_char by (subst n; lia).
    rewrite b64_char_not_pad by (subst n; lia).
    change (beq x3d x3d) with true. cbv iota.
    f_equal. f_equal; [|f_equal].
    + transitivity (n2b (b2n a)); [f_equal; subst n; lia | apply n2b_b2n].
    + transitivity (n2b (b2n b)); [f_equal; subst n; lia | apply n2b_b2n].
  - cbn [b64_encode b64_decode]. pose proof (b2n_lt a) as Ha. pose proof (b2n_lt b) as Hb. pose proof (b2n_lt c) as Hc.
    set (n := b2n a * 65536 + b2n b * 256 + b2n c).
    rewrite !b64_index_char by (subst n; lia).
    rewrite !b64_char_not_pad by (subst n; lia).
    rewrite IH.
    f_equal. f_equal; [|f_equal; [|f_equal]].
    + transitivity (n2b (b2n a)); [f_equal; subst n; lia | apply n2b_b2n].
    + transitivity (n2b (b2n b)); [f_equal; subst n; lia | apply n2b_b2n].
    + transitivity (n2b (b2n c)); [f_equal; subst n; lia | apply n2b_b2n].
Qed.

(* ---- the lines of a record read back ---- *)
Section Lines.
Variable pf : bytes -> option N.

Definition nonempty (v : logical) : Prop :=
  match v with LString _ => True | LList l | LSet l => l <> [] | LHash l => l <> [] | LZSet l => l <> [] end.

Lemma list_values_lines db exp key l : forall i, map snd (list_values (list_lines db exp key i l)) = l.
Proof. induction l as [|x l IH]; intros i; [reflexivity|]. cbn. rewrite IH. reflexivity. Qed.
Lemma list_indices db exp key l : forall i, map fst (list_values (list_lines db exp key i l)) = seq i (length l).
Proof. induction l as [|x l IH]; intros i; [reflexivity|]. cbn. rewrite IH. reflexivity. Qed.

Definition tagged (e : entry) (l : jline) : Prop := line_key l = e_key e /\ line_db l = Some (e_db e) /\ line_exp l = Some (e_expire e).

Lemma set_fold db exp key l :
  fold_right (fun l acc => match l with JSet _ _ _ m => m :: acc | _ => acc end) [] (map (fun m => JSet db exp key m) l) = l.
Proof. induction l as [|x l IH]; [reflexivity|]. cbn. rewrite IH. reflexivity. Qed.
Lemma hash_fold db exp key (l : list (bytes * bytes)) :
  fold_right (fun l acc => match l with JHash _ _ _ f v => (f, v) :: acc | _ => acc end) [] (map (fun p => JHash db exp key (fst p) (snd p)) l) = l.
Proof. induction l as [|[f w] l IH]; [reflexivity|]. cbn. rewrite IH. reflexivity. Qed.
Lemma zset_fold db exp key (l : list (bytes * N)) :
  fold_right (fun l acc => match l with JZSet _ _ _ m s => (m, s) :: acc | _ => acc end) [] (map (fun p => JZSet db exp key (fst p) (snd p)) l) = l.
Proof. induction l as [|[f w] l IH]; [reflexivity|]. cbn. rewrite IH. reflexivity. Qed.

Lemma tagged_list e l : forall i, Forall (tagged e) (list_lines (e_db e) (e_expire e) (e_key e) i l).
Proof. induction l as [|x l IH]; intros i; cbn; constructor; [repeat split | apply IH]. Qed.
Lemma tagged_map {A} e (f : A -> jline) l : (forall a, tagged e (f a)) -> Forall (tagged e) (map f l).
Proof. intros H. induction l; cbn; constructor; auto. Qed.

Theorem lines_recover e v : e_type e <> 250 -> decode_dump pf (e_value e) = Some v -> nonempty v ->
  exists ls, lines_of pf e = Some ls /\ recover ls = Some v /\ Forall (tagged e) ls.
Proof.
  intros Ht Hd Hne. unfold lines_of. apply N.eqb_neq in Ht. rewrite Ht, Hd.
  destruct v as [s|l|l|l|l]; eexists; (split; [reflexivity|]); cbn in Hne.
  - split; [reflexivity|]. constructor; [|constructor]. repeat split.
  - split; [|apply tagged_list]. destruct l as [|x l]; [contradiction|].
    cbn [list_lines recover]. cbn [list_values map snd]. rewrite list_values_lines. reflexivity.
  - split; [|apply tagged_map; intros a; repeat split]. destruct l as [|x l]; [contradiction|].
    pose proof (set_fold (e_db e) (e_expire e) (e_key e) (x :: l)) as H. cbn [map] in H. cbn [map recover]. rewrite H. reflexivity.
  - split; [|apply tagged_map; intros a; repeat split]. destruct l as [|x l]; [contradiction|].
    pose proof (hash_fold (e_db e) (e_expire e) (e_key e) (x :: l)) as H. cbn [map] in H. cbn [map recover]. rewrite H. reflexivity.
  - split; [|apply tagged_map; intros a; repeat split]. destruct l as [|x l]; [contradiction|].
    pose proof (zset_fold (e_db e) (e_expire e) (e_key e) (x :: l)) as H. cbn [map] in H. cbn [map recover]. rewrite H. reflexivity.
Qed.

(* list elements carry their positions 0, 1, 2, ... *)
Theorem list_lines_indexed db exp key l : map fst (list_values (list_lines db exp key 0 l)) = seq 0 (length l).
Proof. apply list_indices. Qed.

Theorem aux_line e : e_type e = 250 -> lines_of pf e = Some [JAux (e_key e) (e_value e)].
Proof. intros H. unfold lines_of. rewrite H. reflexivity. Qed.

(* ---- fan-out over workers ---- *)
Lemma insert_perm {A} (g : nat -> list A) (e : A) s : forall ws, NoDup ws -> In s ws ->
  Permutation (concat (map (fun w => if Nat.eqb s w then e :: g w else g w) ws)) (e :: concat (map g ws)).
Proof.
  induction ws as [|a ws IH]; intros Hnd Hin; [contradiction|].
  inversion Hnd as [|? ? Hna Hnd']; subst. cbn [map concat].
  destruct (Nat.eqb s a) eqn:E.
  - apply PeanoNat.Nat.eqb_eq in E. subst a.
    assert (Hm : map (fun w => if Nat.eqb s w then e :: g w else g w) ws = map g ws).
    { apply map_ext_in. intros w Hw. destruct (Nat.eqb s w) eqn:E2; [|reflexivity].
      apply PeanoNat.Nat.eqb_eq in E2. subst. contradiction. }
    rewrite Hm. reflexivity.
  - destruct Hin as [Hin|Hin]; [subst; rewrite PeanoNat.Nat.eqb_refl in E; discriminate|].
    rewrite (IH Hnd' Hin). apply Permutation_sym, Permutation_middle.
Qed.

Lemma partition_perm {A} n : forall sched (es : list A), length sched = length es -> Forall (fun s => (s < n)%nat) sched ->
  Permutation (concat (map (fun w => assigned w sched es) (seq 0 n))) es.
Proof.
  induction sched as [|s sr IH]; intros es Hl Hf.
  - destruct es; [|discriminate]. cbn. clear. induction (seq 0 n); cbn; [constructor|assumption].
  - destruct es as [|e er]; [discriminate|]. inversion Hf as [|? ? Hs Hf']; subst.
    cbn [assigned].
    rewrite (insert_perm (fun w => assigned w sr er) e s (seq 0 n)).
    + constructor. apply IH; [injection Hl; auto | exact Hf'].
    + apply seq_NoDup.
    + apply in_seq. lia.
Qed.

Theorem blocks_exactly_once n sched es : length sched = length es -> Forall (fun s => (s < n)%nat) sched ->
  Permutation (all_blocks pf n sched es) (map (block pf) es).
Proof.
  intros Hl Hf. unfold all_blocks, worker_blocks.
  assert (Hm : map (fun w => map (block pf) (assigned w sched es)) (seq 0 n) = map (map (block pf)) (map (fun w => assigned w sched es) (seq 0 n)))
    by (rewrite map_map; reflexivity).
  rewrite Hm, <- concat_map. apply Permutation_map, partition_perm; assumption.
Qed.
End Lines.
