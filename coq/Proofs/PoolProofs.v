(* Proofs/PoolProofs.v — the completion protocol: the caller returns nil only after every record
   of the file has left the channel and been processed without error, in file order; an error is
   reported whenever one was met; no schedule deadlocks. *)
From Coq Require Import List Arith Bool Lia Permutation.
Import ListNotations.
From RS Require Import Model.PoolProto.

Lemma nth_set_w l : forall w s v,
  nth_error (set_w l w s) v = if Nat.eqb v w then match nth_error l w with Some _ => Some s | None => None end else nth_error l v.
Proof.
  induction l as [|x l IH]; intros w s v.
  - cbn [set_w]. destruct (Nat.eqb v w); destruct v, w; reflexivity.
  - destruct w as [|w]; cbn [set_w].
    + destruct v; reflexivity.
    + destruct v as [|v]; [reflexivity|]. cbn [nth_error Nat.eqb]. apply IH.
Qed.

Lemma forallb_set_w (p : wst -> bool) l : forall w s x,
  nth_error l w = Some x -> p x = true -> forallb p (set_w l w s) = (p s && forallb p l)%bool.
Proof.
  induction l as [|y l IH]; intros w s x H Hp; [destruct w; discriminate|].
  destruct w as [|w]; cbn [set_w forallb nth_error] in *.
  - inversion H; subst. rewrite Hp. reflexivity.
  - rewrite (IH w s x H Hp). destruct (p y), (p s); reflexivity.
Qed.

Lemma forallb_nth (p : wst -> bool) l w x : forallb p l = true -> nth_error l w = Some x -> p x = true.
Proof. intros H Hn. rewrite forallb_forall in H. apply H. eapply nth_error_In; exact Hn. Qed.

Section P.
Context {A : Type}.
Notation pst := (pst A).

Record inv (file : list A) (s : pst) : Prop := {
  i_cons : map rec_of (taken s) ++ chan s ++ unpushed s = file;
  i_closed : closed s = true -> unpushed s = [];
  i_exitok : forall w, nth_error (ws s) w = Some ExitOk -> closed s = true /\ chan s = [];
  i_err : no_err (ws s) = forallb ok_of (taken s);
  i_rel : released s = true -> all_left (ws s) = true;
  i_ret : forall b, ret s = Some b -> released s = true /\ b = no_err (ws s)
}.

Lemma inv_init file n : inv file (pinit file n).
Proof.
  constructor; cbn.
  - reflexivity.
  - discriminate.
  - intros w H. apply nth_error_In in H. apply repeat_spec in H. discriminate.
  - induction n; [reflexivity|exact IHn].
  - discriminate.
  - discriminate.
Qed.

Lemma inv_step cap file s e s' : inv file s -> pstep cap s e = Some s' -> inv file s'.
Proof.
  intros I H. destruct I as [I1 I2 I3 I4 I5 I6].
  destruct e as [| |w ok|w| |]; cbn [pstep] in H.
  - destruct (unpushed s) as [|x r] eqn:U; [discriminate|].
    destruct (negb (closed s) && (length (chan s) <? cap))%bool eqn:G; [|discriminate].
    injection H as Hs; subst s'. constructor; cbn.
    + rewrite <- I1. rewrite <- !app_assoc. reflexivity.
    + intros C. apply andb_true_iff in G. rewrite C in G. destruct G; discriminate.
    + intros w Hw. destruct (I3 w Hw) as [C _]. apply andb_true_iff in G. rewrite C in G. destruct G; discriminate.
    + exact I4.
    + exact I5.
    + exact I6.
  - destruct (unpushed s) as [|x r] eqn:U; [|discriminate].
    destruct (closed s) eqn:C; [discriminate|]. injection H as Hs; subst s'. constructor; cbn.
    + exact I1.
    + reflexivity.
    + intros w Hw. destruct (I3 w Hw); discriminate.
    + exact I4.
    + exact I5.
    + exact I6.
  - destruct (nth_error (ws s) w) as [[| |]|] eqn:Nw; try discriminate.
    destruct (chan s) as [|x r] eqn:Ch; [discriminate|].
    assert (NotRel : released s = false).
    { destruct (released s) eqn:R; [|reflexivity]. specialize (I5 eq_refl). pose proof (forallb_nth _ _ _ _ I5 Nw). discriminate. }
    destruct ok; injection H as Hs; subst s'; constructor; cbn.
    + rewrite map_app. cbn. rewrite <- I1. rewrite <- !app_assoc. reflexivity.
    + exact I2.
    + intros v Hv. destruct (I3 v Hv); discriminate.
    + rewrite forallb_app. cbn. rewrite andb_true_r. exact I4.
    + rewrite NotRel. discriminate.
    + intros b Hb. destruct (I6 b Hb) as [R _]. rewrite NotRel in R. discriminate.
    + rewrite map_app. cbn. rewrite <- I1. rewrite <- !app_assoc. reflexivity.
    + exact I2.
    + intros v Hv. rewrite nth_set_w in Hv. destruct (Nat.eqb v w); [rewrite Nw in Hv; discriminate|].
      destruct (I3 v Hv); discriminate.
    + rewrite (forallb_set_w _ _ _ _ _ Nw eq_refl). rewrite forallb_app. cbn. rewrite andb_false_r. reflexivity.
    + rewrite NotRel. discriminate.
    + intros b Hb. destruct (I6 b Hb) as [R _]. rewrite NotRel in R. discriminate.
  - destruct (nth_error (ws s) w) as [[| |]|] eqn:Nw; try discriminate.
    destruct (chan s) as [|x r] eqn:Ch; [|discriminate].
    destruct (closed s) eqn:C; [|discriminate].
    assert (NotRel : released s = false).
    { destruct (released s) eqn:R; [|reflexivity]. specialize (I5 eq_refl). pose proof (forallb_nth _ _ _ _ I5 Nw). discriminate. }
    injection H as Hs; subst s'; constructor; cbn.
    + exact I1.
    + exact I2.
    + intros v Hv. split; reflexivity.
    + rewrite (forallb_set_w _ _ _ _ _ Nw eq_refl). cbn. exact I4.
    + rewrite NotRel. discriminate.
    + intros b Hb. destruct (I6 b Hb) as [R _]. rewrite NotRel in R. discriminate.
  - destruct (all_left (ws s) && negb (released s))%bool eqn:G; [|discriminate].
    apply andb_true_iff in G. destruct G as [G1 G2].
    injection H as Hs; subst s'; constructor; cbn; try assumption.
    + intros _. exact G1.
    + intros b Hb. destruct (I6 b Hb) as [R _]. rewrite R in G2. discriminate.
  - destruct (ret s) eqn:Rt; [discriminate|]. destruct (released s) eqn:R; [|discriminate].
    injection H as Hs; subst s'; constructor; cbn; try assumption.
    intros b Hb. inversion Hb. split; reflexivity.
Qed.

Lemma inv_run cap file : forall es s s', inv file s -> prun cap s es = Some s' -> inv file s'.
Proof.
  induction es as [|e es IH]; intros s s' I H; cbn [prun] in H.
  - inversion H; subst. exact I.
  - destruct (pstep cap s e) as [s1|] eqn:E; [|discriminate]. eapply IH; [|exact H]. eapply inv_step; eassumption.
Qed.

Lemma ws_length_step cap (s : pst) e s' : pstep cap s e = Some s' -> length (ws s') = length (ws s).
Proof.
  assert (L : forall l w x, length (set_w l w x) = length l).
  { induction l as [|y l IH]; intros w x; [reflexivity|]. destruct w; cbn [set_w length]; [reflexivity|]. rewrite IH. reflexivity. }
  intros H. destruct e as [| |w ok|w| |]; cbn [pstep] in H.
  - destruct (unpushed s); [discriminate|]. destruct (_ && _)%bool; [|discriminate]. inversion H; reflexivity.
  - destruct (unpushed s); [|discriminate]. destruct (closed s); [discriminate|]. inversion H; reflexivity.
  - destruct (nth_error (ws s) w) as [[| |]|]; try discriminate. destruct (chan s); [discriminate|].
    destruct ok; inversion H; cbn; [reflexivity|apply L].
  - destruct (nth_error (ws s) w) as [[| |]|]; try discriminate. destruct (chan s); [|discriminate].
    destruct (closed s); [|discriminate]. inversion H; cbn. apply L.
  - destruct (_ && _)%bool; [|discriminate]. inversion H; reflexivity.
  - destruct (ret s); [discriminate|]. destruct (released s); [|discriminate]. inversion H; reflexivity.
Qed.

Lemma ws_length_run cap : forall es (s s' : pst), prun cap s es = Some s' -> length (ws s') = length (ws s).
Proof.
  induction es as [|e es IH]; intros s s' H; cbn [prun] in H; [inversion H; reflexivity|].
  destruct (pstep cap s e) as [s1|] eqn:E; [|discriminate]. rewrite (IH _ _ H). eapply ws_length_step; exact E.
Qed.

Lemma taken_step cap (s : pst) e s' : pstep cap s e = Some s' ->
  taken s' = taken s \/ exists w ok x, taken s' = taken s ++ [(w, ok, x)] /\ w < length (ws s).
Proof.
  intros H. destruct e as [| |w ok|w| |]; cbn [pstep] in H.
  - destruct (unpushed s); [discriminate|]. destruct (_ && _)%bool; [|discriminate]. injection H as Hs; subst s'. left; reflexivity.
  - destruct (unpushed s); [|discriminate]. destruct (closed s); [discriminate|]. injection H as Hs; subst s'. left; reflexivity.
  - destruct (nth_error (ws s) w) as [[| |]|] eqn:Nw; try discriminate. destruct (chan s) as [|x r]; [discriminate|].
    assert (Lw : w < length (ws s)) by (apply nth_error_Some; rewrite Nw; discriminate).
    destruct ok; injection H as Hs; subst s'; right; eexists _, _, _; split; [reflexivity|exact Lw|reflexivity|exact Lw].
  - destruct (nth_error (ws s) w) as [[| |]|]; try discriminate. destruct (chan s); [|discriminate].
    destruct (closed s); [|discriminate]. injection H as Hs; subst s'. left; reflexivity.
  - destruct (_ && _)%bool; [|discriminate]. injection H as Hs; subst s'. left; reflexivity.
  - destruct (ret s); [discriminate|]. destruct (released s); [|discriminate]. injection H as Hs; subst s'. left; reflexivity.
Qed.

Lemma taken_workers_run cap : forall es (s s' : pst),
  Forall (fun t => worker_of t < length (ws s)) (taken s) -> prun cap s es = Some s' ->
  Forall (fun t => worker_of t < length (ws s')) (taken s').
Proof.
  induction es as [|e es IH]; intros s s' F H; cbn [prun] in H; [inversion H; subst; exact F|].
  destruct (pstep cap s e) as [s1|] eqn:E; [|discriminate]. apply (IH s1 s'); [|exact H].
  rewrite (ws_length_step _ _ _ _ E). destruct (taken_step _ _ _ _ E) as [T|(w & ok & x & T & Lw)]; rewrite T; [exact F|].
  apply Forall_app. split; [exact F|]. constructor; [exact Lw|constructor].
Qed.

(* the log of the run is a schedule in the sense of C07: every record went to a worker < n *)
Theorem taken_workers_lt cap (file : list A) n es (s : pst) :
  prun cap (pinit file n) es = Some s -> Forall (fun t => worker_of t < n) (taken s).
Proof.
  intros Hr. pose proof (taken_workers_run cap es _ _ (Forall_nil _ : Forall _ (taken (pinit file n))) Hr) as F.
  rewrite (ws_length_run cap es _ _ Hr) in F. cbn [pinit ws] in F. rewrite repeat_length in F. exact F.
Qed.

(* the caller returned nil: every record of the file left the channel, in file order, each was
   processed without error, nothing is left in the channel or unpushed *)
Theorem pool_returns_nil_only_when_complete cap (file : list A) n es (s : pst) :
  0 < n -> prun cap (pinit file n) es = Some s -> ret s = Some true ->
  map rec_of (taken s) = file /\ forallb ok_of (taken s) = true /\ chan s = [] /\ unpushed s = [] /\ handled s = file.
Proof.
  intros Hn Hr Ht.
  pose proof (inv_run cap file es _ _ (inv_init file n) Hr) as [I1 I2 I3 I4 I5 I6].
  destruct (I6 true Ht) as [R E]. specialize (I5 R).
  pose proof (ws_length_run cap es _ _ Hr) as L. cbn [pinit ws] in L. rewrite repeat_length in L.
  destruct (ws s) as [|x l] eqn:W; [cbn in L; lia|].
  assert (X : x = ExitOk).
  { cbn [all_left no_err forallb] in I5, E. destruct x; [discriminate|reflexivity|discriminate]. }
  subst x. destruct (I3 0 eq_refl) as [C Ch]. specialize (I2 C).
  rewrite Ch, I2, !app_nil_r in I1. rewrite <- E in I4.
  repeat split; try assumption; [symmetry; exact I4|].
  unfold handled. rewrite <- I1. f_equal. symmetry in I4.
  clear - I4. induction (taken s) as [|t l IH]; [reflexivity|]. cbn [forallb filter] in *. apply andb_true_iff in I4.
  destruct I4 as [a b]. rewrite a. f_equal. apply IH. exact b.
Qed.

(* an error met by any worker is reported: the caller never returns nil after a failure *)
Theorem pool_error_reported cap (file : list A) n es (s : pst) b :
  prun cap (pinit file n) es = Some s -> ret s = Some b -> (b = false <-> failed s <> []).
Proof.
  intros Hr Ht.
  pose proof (inv_run cap file es _ _ (inv_init file n) Hr) as [I1 I2 I3 I4 I5 I6].
  destruct (I6 b Ht) as [_ E]. rewrite I4 in E. subst b. unfold failed. clear.
  induction (taken s) as [|t l IH]; cbn [forallb filter map]; [split; [discriminate|intros H; contradiction]|].
  destruct (ok_of t); cbn [negb andb]; [exact IH|]. split; [discriminate|reflexivity].
Qed.

(* before the caller returns, some goroutine can always take a step: no schedule deadlocks
   (channel capacity > 0, at least one worker) *)
Theorem pool_no_deadlock cap (file : list A) n es (s : pst) :
  0 < cap -> prun cap (pinit file n) es = Some s -> ret s = None -> exists e, pstep cap s e <> None.
Proof.
  intros Hc Hr Ht.
  pose proof (inv_run cap file es _ _ (inv_init file n) Hr) as [I1 I2 I3 I4 I5 I6].
  destruct (all_left (ws s)) eqn:AL.
  - destruct (released s) eqn:R.
    + exists EReturn. cbn [pstep]. rewrite Ht, R. discriminate.
    + exists ERelease. cbn [pstep]. rewrite AL, R. discriminate.
  - assert (exists w, nth_error (ws s) w = Some Alive) as [w Hw].
    { clear - AL. induction (ws s) as [|x l IH]; [discriminate|]. cbn [all_left forallb] in AL.
      destruct x; try (destruct (IH AL) as [w Hw]; exists (S w); exact Hw). exists 0. reflexivity. }
    destruct (chan s) as [|x r] eqn:Ch.
    + destruct (closed s) eqn:C.
      * exists (EExit w). cbn [pstep]. rewrite Hw, Ch, C. discriminate.
      * destruct (unpushed s) as [|y u] eqn:U.
        -- exists EClose. cbn [pstep]. rewrite U, C. discriminate.
        -- exists EPush. cbn [pstep]. rewrite U, C, Ch. cbn [negb length andb]. destruct cap; [lia|]. cbn. discriminate.
    + exists (ETake w true). cbn [pstep]. rewrite Hw, Ch. discriminate.
Qed.

End P.

(* ---------------- decode's two-stage pipeline ---------------- *)
Section D.
Context {A : Type}.
Notation dst := (dst A).
Notation w2 := (w2 A).

Lemma nth_set2 (l : list w2) : forall w s v,
  nth_error (set2 l w s) v = if Nat.eqb v w then match nth_error l w with Some _ => Some s | None => None end else nth_error l v.
Proof.
  induction l as [|x l IH]; intros w s v.
  - cbn [set2]. destruct (Nat.eqb v w); destruct v, w; reflexivity.
  - destruct w as [|w]; cbn [set2].
    + destruct v; reflexivity.
    + destruct v as [|v]; [reflexivity|]. cbn [nth_error Nat.eqb]. apply IH.
Qed.

Lemma held_take (l : list w2) : forall w x, nth_error l w = Some Idle -> Permutation (held (set2 l w (Holding x))) (x :: held l).
Proof.
  induction l as [|y l IH]; intros w x H; [destruct w; discriminate|].
  destruct w as [|w]; cbn [set2 nth_error] in *.
  - inversion H; subst. reflexivity.
  - unfold held in *. cbn [flat_map]. eapply Permutation_trans; [apply Permutation_app_head; apply IH; exact H|].
    apply Permutation_sym, Permutation_middle.
Qed.

Lemma held_emit (l : list w2) : forall w x, nth_error l w = Some (Holding x) -> Permutation (x :: held (set2 l w Idle)) (held l).
Proof.
  induction l as [|y l IH]; intros w x H; [destruct w; discriminate|].
  destruct w as [|w]; cbn [set2 nth_error] in *.
  - inversion H; subst. reflexivity.
  - unfold held in *. cbn [flat_map]. eapply Permutation_trans; [apply Permutation_middle|].
    apply Permutation_app_head. apply IH. exact H.
Qed.

Lemma held_exit (l : list w2) : forall w, nth_error l w = Some Idle -> held (set2 l w Gone) = held l.
Proof.
  induction l as [|y l IH]; intros w H; [destruct w; discriminate|].
  destruct w as [|w]; cbn [set2 nth_error] in *.
  - inversion H; subst. reflexivity.
  - unfold held in *. cbn [flat_map]. rewrite IH by exact H. reflexivity.
Qed.

Lemma held_gone (l : list w2) : forallb gone l = true -> held l = [].
Proof.
  induction l as [|y l IH]; [reflexivity|]. cbn [forallb]. intros H. apply andb_true_iff in H. destruct H as [a b].
  unfold held in *. cbn [flat_map]. rewrite IH by exact b. destruct y; try discriminate. reflexivity.
Qed.

Lemma gone_nth (l : list w2) w x : forallb gone l = true -> nth_error l w = Some x -> x = Gone.
Proof.
  intros H Hn. rewrite forallb_forall in H. specialize (H x (nth_error_In _ _ Hn)). destruct x; try discriminate. reflexivity.
Qed.

Lemma gone_set2 (l : list w2) : forall w, (exists x, nth_error l w = Some x) -> forallb gone (set2 l w Gone) = true -> True.
Proof. trivial. Qed.

Record dinv (file : list A) (s : dst) : Prop := {
  j_cons : Permutation (d_written s ++ d_out s ++ held (d_ws s) ++ d_chan s ++ d_unpushed s) file;
  j_closed : d_closed s = true -> d_unpushed s = [];
  j_gone : forall w, nth_error (d_ws s) w = Some Gone -> d_closed s = true /\ d_chan s = [];
  j_oclosed : d_oclosed s = true -> forallb gone (d_ws s) = true;
  j_wait : d_wait s = true -> d_oclosed s = true /\ d_out s = [];
  j_ret : d_ret s = true -> d_wait s = true
}.

Lemma dinv_init (file : list A) n : dinv file (dinit file n).
Proof.
  assert (E : @held A (repeat (@Idle A) n) = []) by (induction n; [reflexivity|exact IHn]).
  constructor; try (cbn; discriminate).
  - cbn [dinit d_written d_out d_ws d_chan d_unpushed app]. rewrite E. reflexivity.
  - cbn. intros w H. apply nth_error_In in H. apply repeat_spec in H. discriminate.
Qed.

Lemma dinv_step cap ocap file (s : dst) e s' : dinv file s -> dstep cap ocap s e = Some s' -> dinv file s'.
Proof.
  intros I H. destruct I as [J1 J2 J3 J4 J5 J6].
  destruct e as [| |w|w|w| | | |]; cbn [dstep] in H.
  - destruct (d_unpushed s) as [|x r] eqn:U; [discriminate|].
    destruct (negb (d_closed s) && (length (d_chan s) <? cap))%bool eqn:G; [|discriminate].
    apply andb_true_iff in G. destruct G as [G1 G2]. apply negb_true_iff in G1.
    injection H as Hs; subst s'. constructor; cbn [d_unpushed d_chan d_closed d_ws d_out d_oclosed d_written d_wait d_ret upd]; try assumption.
    + rewrite <- (app_assoc (d_chan s)). exact J1.
    + rewrite G1. discriminate.
    + intros w Hw. destruct (J3 w Hw) as [C _]. rewrite C in G1. discriminate.
  - destruct (d_unpushed s) as [|x r] eqn:U; [|discriminate].
    destruct (d_closed s) eqn:C; [discriminate|]. injection H as Hs; subst s'. constructor; cbn [d_unpushed d_chan d_closed d_ws d_out d_oclosed d_written d_wait d_ret upd]; try assumption.
    + reflexivity.
    + intros w Hw. destruct (J3 w Hw); discriminate.
  - destruct (nth_error (d_ws s) w) as [[|y|]|] eqn:Nw; try discriminate.
    destruct (d_chan s) as [|x r] eqn:Ch; [discriminate|].
    assert (NO : d_oclosed s = false).
    { destruct (d_oclosed s) eqn:O; [|reflexivity]. pose proof (gone_nth _ _ _ (J4 eq_refl) Nw). discriminate. }
    injection H as Hs; subst s'. constructor; cbn [d_unpushed d_chan d_closed d_ws d_out d_oclosed d_written d_wait d_ret upd]; try assumption.
    + eapply Permutation_trans; [|exact J1]. do 2 apply Permutation_app_head.
      eapply Permutation_trans; [apply Permutation_app_tail; apply held_take; exact Nw|].
      cbn [app]. apply Permutation_middle.
    + intros v Hv. rewrite nth_set2 in Hv. destruct (Nat.eqb v w); [rewrite Nw in Hv; discriminate|].
      destruct (J3 v Hv); discriminate.
    + rewrite NO. discriminate.
  - destruct (nth_error (d_ws s) w) as [[|x|]|] eqn:Nw; try discriminate.
    destruct (negb (d_oclosed s) && (length (d_out s) <? ocap))%bool eqn:G; [|discriminate].
    apply andb_true_iff in G. destruct G as [G1 G2]. apply negb_true_iff in G1.
    injection H as Hs; subst s'. constructor; cbn [d_unpushed d_chan d_closed d_ws d_out d_oclosed d_written d_wait d_ret upd]; try assumption.
    + eapply Permutation_trans; [|exact J1]. apply Permutation_app_head. rewrite <- app_assoc. apply Permutation_app_head.
      change ([x] ++ held (set2 (d_ws s) w Idle) ++ d_chan s ++ d_unpushed s) with ((x :: held (set2 (d_ws s) w Idle)) ++ d_chan s ++ d_unpushed s).
      apply Permutation_app_tail. apply held_emit. exact Nw.
    + intros v Hv. rewrite nth_set2 in Hv. destruct (Nat.eqb v w); [rewrite Nw in Hv; discriminate|]. exact (J3 v Hv).
    + rewrite G1. discriminate.
    + intros Wt. destruct (J5 Wt) as [O _]. rewrite G1 in O. discriminate.
  - destruct (nth_error (d_ws s) w) as [[|y|]|] eqn:Nw; try discriminate.
    destruct (d_chan s) as [|x r] eqn:Ch; [|discriminate].
    destruct (d_closed s) eqn:C; [|discriminate].
    assert (NO : d_oclosed s = false).
    { destruct (d_oclosed s) eqn:O; [|reflexivity]. pose proof (gone_nth _ _ _ (J4 eq_refl) Nw). discriminate. }
    injection H as Hs; subst s'. constructor; cbn [d_unpushed d_chan d_closed d_ws d_out d_oclosed d_written d_wait d_ret upd]; try assumption.
    + rewrite (held_exit _ _ Nw). exact J1.
    + intros v _. split; reflexivity.
    + rewrite NO. discriminate.
  - destruct (forallb gone (d_ws s) && negb (d_oclosed s))%bool eqn:G; [|discriminate].
    apply andb_true_iff in G. destruct G as [G1 G2]. apply negb_true_iff in G2.
    injection H as Hs; subst s'. constructor; cbn [d_unpushed d_chan d_closed d_ws d_out d_oclosed d_written d_wait d_ret upd]; try assumption.
    + intros _. exact G1.
    + intros Wt. destruct (J5 Wt) as [O _]. rewrite G2 in O. discriminate.
  - destruct (d_out s) as [|x r] eqn:O; [discriminate|].
    injection H as Hs; subst s'. constructor; cbn [d_unpushed d_chan d_closed d_ws d_out d_oclosed d_written d_wait d_ret upd]; try assumption.
    + rewrite <- app_assoc. exact J1.
    + intros Wt. destruct (J5 Wt) as [_ X]. discriminate.
  - destruct (d_out s) as [|x r] eqn:O; [|discriminate].
    destruct (d_oclosed s && negb (d_wait s))%bool eqn:G; [|discriminate].
    apply andb_true_iff in G. destruct G as [G1 G2].
    injection H as Hs; subst s'. constructor; cbn [d_unpushed d_chan d_closed d_ws d_out d_oclosed d_written d_wait d_ret upd]; try assumption.
    + intros _. apply J4. exact G1.
    + intros _. split; reflexivity.
    + intros R. specialize (J6 R). rewrite J6 in G2. discriminate.
  - destruct (d_wait s && negb (d_ret s))%bool eqn:G; [|discriminate].
    apply andb_true_iff in G. destruct G as [G1 G2].
    injection H as Hs; subst s'. constructor; cbn [d_unpushed d_chan d_closed d_ws d_out d_oclosed d_written d_wait d_ret upd]; try assumption.
    + intros _. apply J5. exact G1.
    + reflexivity.
Qed.

Lemma dinv_run cap ocap file : forall es (s s' : dst), dinv file s -> drun cap ocap s es = Some s' -> dinv file s'.
Proof.
  induction es as [|e es IH]; intros s s' I H; cbn [drun] in H.
  - inversion H; subst. exact I.
  - destruct (dstep cap ocap s e) as [s1|] eqn:E; [|discriminate]. eapply IH; [|exact H]. eapply dinv_step; eassumption.
Qed.

Lemma dws_length_step cap ocap (s : dst) e s' : dstep cap ocap s e = Some s' -> length (d_ws s') = length (d_ws s).
Proof.
  assert (L : forall (l : list w2) w x, length (set2 l w x) = length l).
  { induction l as [|y l IH]; intros w x; [reflexivity|]. destruct w; cbn [set2 length]; [reflexivity|]. rewrite IH. reflexivity. }
  intros H. destruct e as [| |w|w|w| | | |]; cbn [dstep] in H;
    repeat match type of H with
           | match ?x with _ => _ end = _ => destruct x; try discriminate
           | (if ?x then _ else _) = _ => destruct x; try discriminate
           end; injection H as Hs; subst s'; cbn; try reflexivity; apply L.
Qed.

Lemma dws_length_run cap ocap : forall es (s s' : dst), drun cap ocap s es = Some s' -> length (d_ws s') = length (d_ws s).
Proof.
  induction es as [|e es IH]; intros s s' H; cbn [drun] in H; [inversion H; reflexivity|].
  destruct (dstep cap ocap s e) as [s1|] eqn:E; [|discriminate]. rewrite (IH _ _ H). eapply dws_length_step; exact E.
Qed.

(* the caller returned: every block of the file's records has been written, each exactly once,
   and nothing is left in either channel or in a worker's hands *)
Theorem decode_returns_only_when_written cap ocap (file : list A) n es (s : dst) :
  0 < n -> drun cap ocap (dinit file n) es = Some s -> d_ret s = true ->
  Permutation (d_written s) file /\ d_out s = [] /\ d_chan s = [] /\ d_unpushed s = [] /\ held (d_ws s) = [].
Proof.
  intros Hn Hr Ht.
  pose proof (dinv_run cap ocap file es _ _ (dinv_init file n) Hr) as [J1 J2 J3 J4 J5 J6].
  destruct (J5 (J6 Ht)) as [O Out]. specialize (J4 O).
  pose proof (dws_length_run cap ocap es _ _ Hr) as L. cbn [dinit d_ws] in L. rewrite repeat_length in L.
  destruct (d_ws s) as [|x l] eqn:W; [cbn in L; lia|].
  assert (X : x = Gone) by (apply (gone_nth (x :: l) 0 x J4 eq_refl)). subst x.
  destruct (J3 0 eq_refl) as [C Ch]. specialize (J2 C).
  pose proof (held_gone _ J4) as Hh.
  rewrite Out, Hh, Ch, J2 in J1. cbn [app] in J1. rewrite app_nil_r in J1.
  repeat split; assumption.
Qed.

(* no schedule deadlocks before the caller returns *)
Theorem decode_no_deadlock cap ocap (file : list A) n es (s : dst) :
  0 < cap -> 0 < ocap -> drun cap ocap (dinit file n) es = Some s -> d_ret s = false -> exists e, dstep cap ocap s e <> None.
Proof.
  intros Hc Ho Hr Ht.
  pose proof (dinv_run cap ocap file es _ _ (dinv_init file n) Hr) as [J1 J2 J3 J4 J5 J6].
  destruct (d_out s) as [|o os] eqn:Out; [|exists DWrite; cbn [dstep]; rewrite Out; discriminate].
  destruct (forallb gone (d_ws s)) eqn:AL.
  - destruct (d_oclosed s) eqn:O.
    + destruct (d_wait s) eqn:Wt.
      * exists DReturn. cbn [dstep]. rewrite Wt, Ht. discriminate.
      * exists DWriterDone. cbn [dstep]. rewrite Out, O, Wt. discriminate.
    + exists DCloseOut. cbn [dstep]. rewrite AL, O. discriminate.
  - assert (NO : d_oclosed s = false) by (destruct (d_oclosed s); [specialize (J4 eq_refl); rewrite J4 in AL; discriminate|reflexivity]).
    assert (exists w x, nth_error (d_ws s) w = Some x /\ x <> Gone) as (w & x & Hw & Hx).
    { clear - AL. induction (d_ws s) as [|y l IH]; [discriminate|]. cbn [forallb] in AL.
      destruct y; try (exists 0; eexists; split; [reflexivity|discriminate]).
      destruct (IH AL) as (w & x & Hw & Hx). exists (S w), x. split; assumption. }
    destruct x as [|y|]; [| |contradiction].
    + destruct (d_chan s) as [|c r] eqn:Ch.
      * destruct (d_closed s) eqn:C.
        -- exists (DExit w). cbn [dstep]. rewrite Hw, Ch, C. discriminate.
        -- destruct (d_unpushed s) as [|u us] eqn:U.
           ++ exists DClose. cbn [dstep]. rewrite U, C. discriminate.
           ++ exists DPush. cbn [dstep]. rewrite U, C, Ch. cbn [negb length andb]. destruct cap; [lia|]. cbn. discriminate.
      * exists (DTake w). cbn [dstep]. rewrite Hw, Ch. discriminate.
    + exists (DEmit w). cbn [dstep]. rewrite Hw, NO, Out. cbn [negb length andb]. destruct ocap; [lia|]. cbn. discriminate.
Qed.

End D.
