(* Proofs/WorkersProofs.v — the worker pool writes every delivered record exactly once into the
   right database under every schedule (C07); the filter decisions of the four data paths
   coincide with the configuration's meaning (C06). *)
From RS Require Import Base.Bytes Base.Dec Model.RespCodec Model.Filter Model.CmdFilter Model.Slot Model.Incr Model.Workers
  Gen.Crc16 Gen.CmdTable Proofs.CmdFilterProofs.
From Coq Require Import Lia Permutation.
Open Scope Z_scope.

(* ---- one worker: the SELECT bookkeeping is right ---- *)
Lemma worker_correct c es : forall l, conn_exec l (wrun c l es) = expected c es.
Proof.
  induction es as [|[i e] es IH]; intros l; [reflexivity|].
  cbn [wrun expected]. unfold wstep, delivered.
  destruct (we_aux e).
  { cbn [app conn_exec]. rewrite IH. reflexivity. }
  destruct (filter_db (w_f c) (we_db e)).
  { cbn [app negb andb]. apply IH. }
  cbn [negb andb].
  destruct (want_db c e =? l) eqn:Ew.
  - apply Z.eqb_eq in Ew.
    destruct (filter_key (w_f c) (we_key e)); cbn [negb andb app]; [apply IH|].
    destruct (w_full c && filter_slot (w_f c) (key_slot (we_key e))); cbn [negb app conn_exec]; [apply IH|].
    rewrite IH, Ew. reflexivity.
  - destruct (filter_key (w_f c) (we_key e)); cbn [negb andb app conn_exec]; [apply IH|].
    destruct (w_full c && filter_slot (w_f c) (key_slot (we_key e))); cbn [negb app conn_exec]; [apply IH|].
    rewrite IH. reflexivity.
Qed.

(* ---- the schedule partitions the records ---- *)
Lemma insert_perm {A} (g : nat -> list A) (e : A) s : forall ws, NoDup ws -> In s ws ->
  Permutation (concat (map (fun w => if Nat.eqb s w then e :: g w else g w) ws)) (e :: concat (map g ws)).
Proof.
  induction ws as [|a ws IH]; intros Hnd Hin; [contradiction|].
  inversion Hnd as [|? ? Hna Hnd']; subst. cbn [map concat].
  destruct (Nat.eqb s a) eqn:E.
  - apply PeanoNat.Nat.eqb_eq in E. subst a.
    assert (Hm : map (fun w => if Nat.eqb s w then e :: g w else g w) ws = map g ws).
    { apply map_ext_in. intros w Hw. destruct (Nat.eqb s w) eqn:E2; [|reflexivity].
      apply PeanoNat.Nat.eqb_eq in E2. subst. contradiction. }
    rewrite Hm. reflexivity.
  - destruct Hin as [Hin|Hin]; [subst; rewrite PeanoNat.Nat.eqb_refl in E; discriminate|].
    rewrite (IH Hnd' Hin). apply Permutation_sym, Permutation_middle.
Qed.

Lemma assigned_nil_sched w (es : list (nat * went)) : assigned w [] es = [].
Proof. destruct es; reflexivity. Qed.

Lemma partition_perm n : forall sched (es : list (nat * went)), length sched = length es -> Forall (fun s => (s < n)%nat) sched ->
  Permutation (concat (map (fun w => assigned w sched es) (seq 0 n))) es.
Proof.
  induction sched as [|s sr IH]; intros es Hl Hf.
  - destruct es; [|discriminate]. cbn. clear. induction (seq 0 n); cbn; [constructor|assumption].
  - destruct es as [|e er]; [discriminate|]. inversion Hf as [|? ? Hs Hf']; subst.
    cbn [assigned].
    rewrite (insert_perm (fun w => assigned w sr er) e s (seq 0 n)).
    + constructor. apply IH; [injection Hl; auto | exact Hf'].
    + apply seq_NoDup.
    + apply in_seq. lia.
Qed.

Lemma expected_app c a b : expected c (a ++ b) = expected c a ++ expected c b.
Proof.
  induction a as [|[i e] a IH]; [reflexivity|]. cbn [app expected].
  destruct (we_aux e); [rewrite IH; reflexivity|]. destruct (delivered c e); rewrite IH; reflexivity.
Qed.
Lemma expected_concat c ls : expected c (concat ls) = concat (map (expected c) ls).
Proof. induction ls as [|l ls IH]; [reflexivity|]. cbn. rewrite expected_app, IH. reflexivity. Qed.
Lemma expected_perm c a b : Permutation a b -> Permutation (expected c a) (expected c b).
Proof.
  induction 1 as [|[i e] a b _ IH|[i e] [j e'] a|a b d _ IH1 _ IH2].
  - constructor.
  - cbn [expected]. destruct (we_aux e); [constructor; exact IH|]. destruct (delivered c e); [constructor|]; exact IH.
  - cbn [expected].
    destruct (we_aux e), (we_aux e'), (delivered c e), (delivered c e'); try apply perm_swap; reflexivity.
  - eapply Permutation_trans; eassumption.
Qed.

(* every schedule over n workers: the writes are exactly the expected ones, each once *)
Theorem pool_exactly_once c n sched es : length sched = length es -> Forall (fun s => (s < n)%nat) sched ->
  Permutation (all_writes c n sched es) (expected c es).
Proof.
  intros Hl Hf. unfold all_writes, worker_writes.
  assert (Hm : map (fun w => conn_exec 0 (wrun c 0 (assigned w sched es))) (seq 0 n)
             = map (expected c) (map (fun w => assigned w sched es) (seq 0 n))).
  { rewrite map_map. apply map_ext. intros w. apply worker_correct. }
  rewrite Hm, <- expected_concat. apply expected_perm, partition_perm; assumption.
Qed.

(* each worker on its own keeps the file order *)
Theorem worker_in_order c w sched es : worker_writes c w sched es = expected c (assigned w sched es).
Proof. apply worker_correct. Qed.

(* lua script records are never filtered by database, key or slot lists *)
Theorem script_always_delivered c i e es : we_aux e = true -> In (i, -1) (expected c ((i, e) :: es)).
Proof. intros H. cbn [expected]. rewrite H. left. reflexivity. Qed.

(* ---- the configuration's meaning ---- *)
Lemma filter_key_spec f key : filter_key f key = prefix_of checkpoint_key key || key_excluded f key.
Proof. unfold filter_key, key_excluded. destruct (prefix_of checkpoint_key key); reflexivity. Qed.

Lemma filter_db_spec f db : filter_db f db = db_excluded f db.
Proof. reflexivity. Qed.

Lemma has_prefix_in_spec key l : has_prefix_in key l = true <-> exists p r, In p l /\ key = p ++ r.
Proof.
  unfold has_prefix_in. rewrite existsb_exists. split.
  - intros (p & Hin & Hp). apply prefix_of_spec in Hp. destruct Hp as (r & ->). exists p, r. auto.
  - intros (p & r & Hin & ->). exists p. split; [exact Hin|]. apply prefix_of_spec. exists r. reflexivity.
Qed.

Lemma match_one_spec s l : match_one s l = true <-> In s l.
Proof.
  unfold match_one. rewrite existsb_exists. split.
  - intros (e & Hin & He). apply beqs_true in He. subst. exact Hin.
  - intros Hin. exists s. split; [exact Hin | apply beqs_true; reflexivity].
Qed.

(* a key that is not one of the tool's checkpoint keys: restore = rump = the configuration;
   full sync adds the slot list *)
Theorem paths_agree f db key : prefix_of checkpoint_key key = false ->
  path_restore f db key = copied f db key /\
  path_rump f db key = copied f db key /\
  path_full f db key = copied f db key && negb (filter_slot f (key_slot key)).
Proof.
  intros Hc. unfold path_restore, path_rump, path_full, delivered, copied. cbn [we_aux we_db we_key w_f w_full andb].
  rewrite !filter_key_spec, Hc, filter_db_spec. cbn [orb].
  repeat split.
  - rewrite Bool.andb_true_r. reflexivity.
  - unfold key_filter_configured, key_excluded.
    destruct (key_black f) as [|b bl], (key_white f) as [|w wl]; cbn [nonempty orb andb negb]; reflexivity.
Qed.

(* the tool's own checkpoint keys: never copied by full sync or restore, nor by rump once a key
   filter is configured *)
Theorem checkpoint_keys_excluded f db key : prefix_of checkpoint_key key = true ->
  path_full f db key = false /\ path_restore f db key = false /\
  (key_filter_configured f = true -> path_rump f db key = false).
Proof.
  intros Hc. unfold path_restore, path_rump, path_full, delivered. cbn [we_aux we_db we_key w_f w_full andb].
  rewrite !filter_key_spec, Hc. cbn [orb negb andb]. rewrite !Bool.andb_false_r.
  repeat split. intros ->. cbn [andb negb]. apply Bool.andb_false_r.
Qed.

(* ---- incremental sync: a `set key value ...` arriving in database db ---- *)
Definition w_set : bytes := [x73; x65; x74].
Lemma set_row : lookup_cmd w_set cmd_table = Some (1, 1, 1). Proof. vm_compute. reflexivity. Qed.

Lemma rkeyrej_set c key v rest off :
  rkeyrej c {| r_cmd := w_set; r_args := key :: v :: rest; r_end := off |} = key_filter_configured (i_f c) && filter_key (i_f c) key.
Proof.
  unfold rkeyrej. cbn [r_cmd r_args].
  destruct (key_filter_configured (i_f c)) eqn:Ek.
  - pose proof (handle_filter_key_spec (i_f c) w_set 1 1 1 [] [[key]] (v :: rest) Ek set_row) as H.
    cbn [app concat length] in H. rewrite H.
    + cbn [snd filter existsb keyof hd]. destruct (filter_key (i_f c) key); reflexivity.
    + discriminate.
    + reflexivity.
    + constructor; [reflexivity | constructor].
    + unfold shape_ok, cover. cbn. right. lia.
  - rewrite handle_no_filter by exact Ek. reflexivity.
Qed.

Theorem incr_set_agrees c db key v rest off : prefix_of checkpoint_key key = false ->
  path_incr c db {| r_cmd := w_set; r_args := key :: v :: rest; r_end := off |} = copied (i_f c) db key.
Proof.
  intros Hc. unfold path_incr, copied. rewrite rkeyrej_set, filter_key_spec, Hc, filter_db_spec. cbn [orb].
  assert (Hf : rfiltered c {| r_cmd := w_set; r_args := key :: v :: rest; r_end := off |} = false).
  { unfold rfiltered, filter_command. cbn [r_cmd r_args]. vm_compute (equal_fold w_set w_opinfo).
    vm_compute (equal_fold w_set w_eval). vm_compute (equal_fold w_set w_script). vm_compute (equal_fold w_set w_evalsha).
    vm_compute (beqs w_set w_publish). rewrite Bool.andb_false_r. reflexivity. }
  rewrite Hf. cbn [negb andb]. rewrite Bool.andb_true_r.
  unfold key_filter_configured, key_excluded.
  destruct (key_black (i_f c)) as [|b bl], (key_white (i_f c)) as [|w wl]; cbn [nonempty orb andb negb]; reflexivity.
Qed.

Theorem incr_checkpoint_key c db key v rest off : prefix_of checkpoint_key key = true -> key_filter_configured (i_f c) = true ->
  path_incr c db {| r_cmd := w_set; r_args := key :: v :: rest; r_end := off |} = false.
Proof.
  intros Hc Hk. unfold path_incr. rewrite rkeyrej_set, filter_key_spec, Hc, Hk. cbn. apply Bool.andb_false_r.
Qed.

(* script commands exactly when filter.lua is set; the bookkeeping command never *)
Theorem command_filter_spec f cmd :
  filter_command f cmd = equal_fold cmd w_opinfo
    || (filter_lua f && (equal_fold cmd w_eval || equal_fold cmd w_script || equal_fold cmd w_evalsha)).
Proof. reflexivity. Qed.

Theorem opinfo_never_forwarded c db r : equal_fold (r_cmd r) w_opinfo = true -> path_incr c db r = false.
Proof.
  intros H. unfold path_incr, rfiltered, filter_command. rewrite H. cbn [orb negb andb]. rewrite Bool.andb_false_r. reflexivity.
Qed.

(* ---- the target keyspace does not depend on how the workers' traffic interleaves ---- *)
Section LastWrite.
Variables (K V : Type) (keqb : K -> K -> bool).
Hypothesis keqb_spec : forall a b, keqb a b = true <-> a = b.

(* the value a key holds after the writes ws were applied in order (last write wins) *)
Fixpoint holds (ws : list (K * V)) (k : K) : option V :=
  match ws with
  | [] => None
  | (k', v) :: r => match holds r k with Some x => Some x | None => if keqb k' k then Some v else None end
  end.

Lemma holds_some_in ws k v : holds ws k = Some v -> In (k, v) ws.
Proof.
  induction ws as [|[k' v'] ws IH]; cbn; [discriminate|].
  destruct (holds ws k) as [x|] eqn:E.
  - intros H. injection H as <-. right. apply IH. reflexivity.
  - destruct (keqb k' k) eqn:Ek; [|discriminate]. intros H. injection H as <-. apply keqb_spec in Ek. subst. left. reflexivity.
Qed.

Lemma in_holds ws k v : NoDup (map fst ws) -> In (k, v) ws -> holds ws k = Some v.
Proof.
  induction ws as [|[k' v'] ws IH]; cbn; intros Hnd Hin; [contradiction|].
  inversion Hnd as [|? ? Hni Hnd']; subst.
  destruct Hin as [H|H].
  - injection H as -> ->.
    destruct (holds ws k) as [x|] eqn:E.
    + exfalso. apply Hni. apply in_map_iff. exists (k, x). split; [reflexivity | apply holds_some_in; exact E].
    + assert (Hk : keqb k k = true) by (apply keqb_spec; reflexivity). rewrite Hk. reflexivity.
  - rewrite (IH Hnd' H). reflexivity.
Qed.

Theorem holds_perm ws ws' : Permutation ws ws' -> NoDup (map fst ws) -> forall k, holds ws k = holds ws' k.
Proof.
  intros Hp Hnd k.
  assert (Hnd' : NoDup (map fst ws')) by (eapply Permutation_NoDup; [apply Permutation_map; exact Hp | exact Hnd]).
  destruct (holds ws k) as [v|] eqn:E.
  - symmetry. apply in_holds; [exact Hnd'|]. eapply Permutation_in; [exact Hp | apply holds_some_in; exact E].
  - destruct (holds ws' k) as [v|] eqn:E'; [|reflexivity].
    apply holds_some_in in E'. apply Permutation_sym in Hp.
    pose proof (in_holds ws k v Hnd (Permutation_in _ Hp E')) as H. congruence.
Qed.
End LastWrite.
