(* Proofs/RdbProofs.v — exactness of the RDB parser model on everything the spec encoder emits (C01). *)
From RS Require Import Base.Bytes Base.Endian Base.Dec Spec.Crc64 Gen.Crc64 Model.Digest Model.Lzf Model.Rdb Spec.RdbFormat Spec.RdbRecords.
From RS Require Proofs.Crc64Proofs Proofs.DigestProofs.
From Coq Require Import ZifyN ZifyNat ZifyBool.
Ltac Zify.zify_post_hook ::= Z.div_mod_to_equations.
Open Scope N_scope.

(* a parser is EXACT on an encoding e with result a if it consumes precisely e, whatever follows *)
Definition exact {A} (p : P A) (e : bytes) (a : A) : Prop := forall r, p (e ++ r) = Some (a, r).

Lemma exact_ret {A} (a : A) : exact (ret a) [] a. Proof. intros r. reflexivity. Qed.
Lemma exact_bind {A B} (p : P A) (f : A -> P B) e1 e2 a b :
  exact p e1 a -> exact (f a) e2 b -> exact (bind p f) (e1 ++ e2) b.
Proof. intros H1 H2 r. unfold bind. rewrite <- app_assoc, H1. apply H2. Qed.

Lemma lenN_lenB s : lenN s = lenB s. Proof. reflexivity. Qed.

Lemma take_app s r : take (lenN s) (s ++ r) = Some (s, r).
Proof.
  unfold take, lenN. rewrite app_length.
  replace (N.of_nat (length s + length r) <? N.of_nat (length s)) with false by (symmetry; apply N.ltb_ge; lia).
  rewrite Nat2N.id. rewrite firstn_app, firstn_all, Nat.sub_diag, firstn_O, app_nil_r.
  rewrite skipn_app, skipn_all, Nat.sub_diag. reflexivity.
Qed.
Lemma exact_take s : exact (take (lenN s)) s s. Proof. intros r. apply take_app. Qed.
Lemma exact_take_n s n : lenN s = n -> exact (take n) s s. Proof. intros <-. apply exact_take. Qed.
Lemma exact_byte b : exact byte1 [b] b. Proof. intros r. reflexivity. Qed.

Lemma exact_capture {A} (p : P A) e a : exact p e a -> exact (capture p) e (a, e).
Proof.
  intros H r. unfold capture. rewrite H. rewrite app_length.
  replace (length e + length r - length r)%nat with (length e) by lia.
  rewrite firstn_app, firstn_all, Nat.sub_diag, firstn_O, app_nil_r. reflexivity.
Qed.

Lemma exact_skip_n {A} (p : P A) (es : list bytes) (as_ : list A) :
  Forall2 (fun e a => exact p e a) es as_ -> exact (skip_n (length es) p) (concat es) tt.
Proof.
  induction 1 as [|e a es as_ H _ IH]; simpl; [apply exact_ret|].
  eapply exact_bind; [exact H|exact IH].
Qed.

(* with non-empty element encodings the count never exceeds the remaining input *)
Lemma concat_length_ge (es : list bytes) : Forall (fun e => e <> []) es -> (length es <= length (concat es))%nat.
Proof.
  induction 1 as [|e es He _ IH]; simpl; [lia|]. rewrite app_length. destruct e; [contradiction|]. simpl. lia.
Qed.

Lemma exact_skip_count {A} (p : P A) (es : list bytes) (as_ : list A) :
  Forall (fun e => e <> []) es ->
  Forall2 (fun e a => exact p e a) es as_ -> exact (skip_count (N.of_nat (length es)) p) (concat es) tt.
Proof.
  intros Hne HF r. unfold skip_count.
  pose proof (concat_length_ge es Hne) as L.
  replace (N.min (N.of_nat (length es)) (lenN (concat es ++ r) + 1)) with (N.of_nat (length es))
    by (unfold lenN; rewrite app_length; lia).
  rewrite Nat2N.id. apply (exact_skip_n p es as_ HF).
Qed.

(* ---------- lengths ---------- *)
Lemma be_dec_enc4 n r : n < 2^32 -> rd_be32 (be_enc 4 n ++ r) = Some (n, r).
Proof.
  intros H. unfold rd_be32, bind.
  assert (L : lenN (be_enc 4 n) = 4) by (unfold lenN; rewrite be_enc_length; reflexivity).
  rewrite <- L at 1. rewrite take_app. unfold ret. rewrite be_dec_enc by (change (8 * N.of_nat 4) with 32; exact H). reflexivity.
Qed.

Lemma le_enc_app a b n : le_enc (a + b) n = le_enc a n ++ le_enc b (n / 2 ^ (8 * N.of_nat a)).
Proof.
  revert n. induction a as [|a IH]; intros n.
  - cbn [le_enc plus app]. change (2 ^ (8 * N.of_nat 0)) with 1. rewrite N.div_1_r. reflexivity.
  - cbn [le_enc plus app]. rewrite IH. f_equal. f_equal. f_equal.
    replace (8 * N.of_nat (S a)) with (8 + 8 * N.of_nat a) by lia. rewrite N.pow_add_r. change (2 ^ 8) with 256.
    rewrite N.div_div by (try lia; apply N.pow_nonzero; lia). reflexivity.
Qed.

Lemma le_enc_mod k : forall n, le_enc k (n mod 2 ^ (8 * N.of_nat k)) = le_enc k n.
Proof.
  induction k as [|k IH]; intros n; [reflexivity|]. cbn [le_enc].
  replace (8 * N.of_nat (S k)) with (8 + 8 * N.of_nat k) by lia. rewrite N.pow_add_r. change (2 ^ 8) with 256.
  assert (Hp : 2 ^ (8 * N.of_nat k) <> 0) by (apply N.pow_nonzero; lia).
  f_equal.
  - unfold n2b. rewrite N.mod_mul_r by lia. rewrite N.add_mod by lia.
    rewrite N.mul_comm, N.mod_mul by lia. rewrite N.add_0_r, !N.mod_mod by lia. reflexivity.
  - rewrite <- IH. rewrite N.mod_mul_r by lia.
    rewrite N.mul_comm, N.div_add by lia. rewrite (N.div_small (n mod 256)) by (apply N.mod_lt; lia). rewrite N.add_0_l.
    rewrite N.mod_mod by lia. apply IH.
Qed.

Lemma be_enc8_split n : be_enc 8 n = be_enc 4 (n / 2^32) ++ be_enc 4 (n mod 2^32).
Proof.
  unfold be_enc. change 8%nat with (4 + 4)%nat. rewrite le_enc_app, rev_app_distr.
  change (2 ^ (8 * N.of_nat 4)) with (2^32). f_equal.
  rewrite <- (le_enc_mod 4 n). reflexivity.
Qed.

Definition model_value (f : lenform) (n : N) := match f with L64 => n / 2^32 | _ => n end.

Lemma exact_enc_len f n : fits f n -> exact read_enc_len (enc_len f n) (model_value f n, false).
Proof.
  intros H r. destruct f; cbn [fits enc_len model_value] in *; unfold read_enc_len, bind; cbn [app byte1].
  - rewrite b2n_n2b_small by lia.
    replace (n / 64) with 0 by (symmetry; apply N.div_small; lia). cbn match. unfold ret. rewrite N.mod_small by lia. reflexivity.
  - rewrite b2n_n2b_small by lia.
    replace ((64 + n / 256) / 64) with 1 by lia. cbn match. unfold bind. cbn [byte1]. unfold ret.
    rewrite b2n_n2b. do 2 f_equal. f_equal. lia.
  - rewrite b2n_n2b_small by lia. change (128 / 64) with 2. cbn match. change (128 =? 128) with true. cbn match.
    unfold bind. rewrite be_dec_enc4 by assumption. reflexivity.
  - rewrite b2n_n2b_small by lia. change (129 / 64) with 2. cbn match. change (129 =? 128) with false. change (129 =? 129) with true. cbn match.
    unfold bind. rewrite be_enc8_split, <- app_assoc. rewrite be_dec_enc4.
    + rewrite be_dec_enc4; [reflexivity|]. apply N.mod_lt. discriminate.
    + change (2^64) with (2^32 * 2^32) in H. apply N.div_lt_upper_bound; [discriminate|lia].
Qed.

Lemma exact_read_length f n : fits f n -> exact read_length (enc_len f n) (model_value f n).
Proof.
  intros H. unfold read_length. rewrite <- (app_nil_r (enc_len f n)).
  eapply exact_bind; [apply exact_enc_len; exact H|]. cbn [snd fst]. apply exact_ret.
Qed.

Lemma model_value_id f n : f <> L64 -> model_value f n = n.
Proof. destruct f; simpl; congruence. Qed.

Lemma enc_len_nonempty f n : enc_len f n <> [].
Proof. destruct f; discriminate. Qed.

(* ---------- strings ---------- *)
Definition wf_string (x : rstring) : Prop :=
  match x with
  | SRaw f s => fits f (lenB s) /\ f <> L64
  | SInt8 z => (- 2 ^ 7 <= z < 2 ^ 7)%Z | SInt16 z => (- 2 ^ 15 <= z < 2 ^ 15)%Z | SInt32 z => (- 2 ^ 31 <= z < 2 ^ 31)%Z
  | SLzf fc fu blob ulen => fits fc (lenB blob) /\ fc <> L64 /\ fits fu ulen /\ fu <> L64 /\ lzf_decompress blob ulen <> None
  end.

Lemma enc_val_hdr k : k < 64 -> forall r, read_enc_len (n2b (192 + k) :: r) = Some ((k, true), r).
Proof.
  intros Hk r. unfold read_enc_len, bind. cbn [byte1]. rewrite b2n_n2b_small by lia.
  replace ((192 + k) / 64) with 3 by lia. cbn match. unfold ret. do 2 f_equal. f_equal. lia.
Qed.

Theorem exact_read_string x : wf_string x -> exact read_string (enc_string x) (logical_string x).
Proof.
  destruct x as [f s|z|z|z|fc fu blob ulen]; cbn [wf_string enc_string logical_string]; intros W r.
  - destruct W as [W1 W2]. unfold read_string, bind. rewrite <- app_assoc.
    rewrite (exact_enc_len f (lenB s) W1). rewrite model_value_id by exact W2. cbn [negb]. cbv iota. apply take_app.
  - unfold read_string, bind. cbn [app]. change 192 with (192 + 0). rewrite enc_val_hdr by lia. cbn [negb]. cbv iota.
    change (0 =? 0) with true. cbv iota. cbn [byte1]. unfold ret.
    rewrite b2n_n2b_small by (pose proof (of_signed_lt 8 z); lia). rewrite signed_roundtrip by (lia || exact W). reflexivity.
  - unfold read_string, bind. cbn [app]. change 193 with (192 + 1). rewrite enc_val_hdr by lia. cbn [negb]. cbv iota.
    change (1 =? 0) with false. change (1 =? 1) with true. cbv iota.
    assert (L : lenN (le_enc 2 (of_signed 16 z)) = 2) by (unfold lenN; rewrite le_enc_length; reflexivity).
    cbv beta. rewrite (exact_take_n _ _ L). unfold ret.
    rewrite le_dec_enc by (change (8 * N.of_nat 2) with 16; apply of_signed_lt; lia). rewrite signed_roundtrip by (lia || exact W). reflexivity.
  - unfold read_string, bind. cbn [app]. change 194 with (192 + 2). rewrite enc_val_hdr by lia. cbn [negb]. cbv iota.
    change (2 =? 0) with false. change (2 =? 1) with false. change (2 =? 2) with true. cbv iota.
    assert (L : lenN (le_enc 4 (of_signed 32 z)) = 4) by (unfold lenN; rewrite le_enc_length; reflexivity).
    cbv beta. rewrite (exact_take_n _ _ L). unfold ret.
    rewrite le_dec_enc by (change (8 * N.of_nat 4) with 32; apply of_signed_lt; lia). rewrite signed_roundtrip by (lia || exact W). reflexivity.
  - destruct W as (W1 & W2 & W3 & W4 & W5). unfold read_string. unfold bind at 1. cbn [app]. change 195 with (192 + 3). rewrite enc_val_hdr by lia.
    cbn [negb]. cbv iota. change (3 =? 0) with false. change (3 =? 1) with false. change (3 =? 2) with false. change (3 =? 3) with true. cbv iota.
    unfold bind. rewrite <- !app_assoc.
    rewrite (exact_read_length fc (lenB blob) W1). rewrite (exact_read_length fu ulen W3).
    rewrite !model_value_id by assumption. rewrite take_app.
    destruct (lzf_decompress blob ulen); [reflexivity|congruence].
Qed.

Lemma enc_string_nonempty x : enc_string x <> [].
Proof. destruct x as [f s| | | |]; cbn [enc_string]; try discriminate. destruct f; discriminate. Qed.

(* ---------- scores ---------- *)
Definition wf_score (s : score) : Prop := match s with ScText t => lenB t < 253 /\ float_ok t = true | _ => True end.
Lemma exact_read_float s : wf_score s -> exact read_float (enc_score s) tt.
Proof.
  destruct s as [t| | |]; cbn [wf_score enc_score]; intros W r; unfold read_float, bind; cbn [app byte1].
  - destruct W as [W1 W2]. rewrite b2n_n2b_small by lia.
    replace (lenB t =? 253) with false by (symmetry; apply N.eqb_neq; lia).
    replace (lenB t =? 254) with false by (symmetry; apply N.eqb_neq; lia).
    replace (lenB t =? 255) with false by (symmetry; apply N.eqb_neq; lia).
    cbn [orb]. cbv iota. rewrite <- lenN_lenB, take_app. rewrite W2. reflexivity.
  - reflexivity.
  - reflexivity.
  - reflexivity.
Qed.

Lemma Forall2_map_l {A B C} (R : B -> C -> Prop) (f : A -> B) (g : A -> C) l :
  Forall (fun a => R (f a) (g a)) l -> Forall2 R (map f l) (map g l).
Proof. induction 1; simpl; constructor; auto. Qed.

(* count + elements *)
Lemma exact_seq {A} (p : P A) (enc : list bytes) (res : list A) f :
  fits f (N.of_nat (length enc)) -> f <> L64 -> Forall (fun e => e <> []) enc ->
  Forall2 (fun e a => exact p e a) enc res ->
  exact (n <- read_length ;; skip_count n p) (enc_len f (N.of_nat (length enc)) ++ concat enc) tt.
Proof.
  intros Hf Hn Hne HF. eapply exact_bind; [apply exact_read_length; exact Hf|].
  rewrite model_value_id by exact Hn. apply (exact_skip_count p enc res Hne HF).
Qed.

Lemma exact_seq_then {A B} (p : P A) (enc : list bytes) (res : list A) f (k : P B) e2 b :
  fits f (N.of_nat (length enc)) -> f <> L64 -> Forall (fun e => e <> []) enc ->
  Forall2 (fun e a => exact p e a) enc res -> exact k e2 b ->
  exact (n <- read_length ;; _ <- skip_count n p ;; k) (enc_len f (N.of_nat (length enc)) ++ concat enc ++ e2) b.
Proof.
  intros Hf Hn Hne HF Hk. eapply exact_bind; [apply exact_read_length; exact Hf|].
  rewrite model_value_id by exact Hn. eapply exact_bind; [apply (exact_skip_count p enc res Hne HF)|exact Hk].
Qed.

(* a length whose value is discarded: any form, including the 64-bit one *)
Lemma exact_skip_len f n : fits f n -> exists v, exact read_length (enc_len f n) v.
Proof. intros H. exists (model_value f n). apply exact_read_length. exact H. Qed.

(* ---------- streams ---------- *)
Definition wf_pel (p : pel_entry) : Prop := lenB (pe_id p) = 16 /\ lenB (pe_seen p) = 8 /\ fits (pe_count_f p) (pe_count p).
Definition wf_consumer (c : consumer) : Prop :=
  wf_string (co_name c) /\ lenB (co_seen c) = 8 /\ fits (co_f c) (N.of_nat (length (co_pel c))) /\ co_f c <> L64 /\
  Forall (fun e => lenB e = 16) (co_pel c).
Definition wf_cgroup (g : cgroup) : Prop :=
  wf_string (cg_name g) /\ fits (cg_f1 g) (cg_ms g) /\ fits (cg_f2 g) (cg_seq g) /\
  fits (cg_fp g) (N.of_nat (length (cg_pel g))) /\ cg_fp g <> L64 /\ Forall wf_pel (cg_pel g) /\
  fits (cg_fc g) (N.of_nat (length (cg_consumers g))) /\ cg_fc g <> L64 /\ Forall wf_consumer (cg_consumers g).
Definition wf_stream (s : stream) : Prop :=
  fits (st_f s) (N.of_nat (length (st_packs s))) /\ st_f s <> L64 /\
  Forall (fun p => wf_string (fst p) /\ wf_string (snd p)) (st_packs s) /\
  fits (st_fl s) (st_len s) /\ fits (st_fm s) (st_ms s) /\ fits (st_fs s) (st_seq s) /\
  fits (st_fg s) (N.of_nat (length (st_groups s))) /\ st_fg s <> L64 /\ Forall wf_cgroup (st_groups s).

Lemma exact_unit_bind {A} (p : P A) (q : P unit) e1 e2 a : exact p e1 a -> exact q e2 tt -> exact (_ <- p ;; q) (e1 ++ e2) tt.
Proof. intros H1 H2. eapply exact_bind; [exact H1|exact H2]. Qed.

Lemma exact_skip_pending p : wf_pel p -> exact skip_pending (enc_pel p) tt.
Proof.
  intros (W1 & W2 & W3). unfold skip_pending, enc_pel.
  eapply exact_bind; [apply exact_take_n; exact W1|].
  eapply exact_bind; [apply exact_take_n; exact W2|].
  rewrite <- (app_nil_r (enc_len _ _)). eapply exact_bind; [apply exact_read_length; exact W3|apply exact_ret].
Qed.

Lemma nonempty_of_len (e : bytes) n : lenB e = n -> 0 < n -> e <> [].
Proof. intros H Hn ->. cbn in H. lia. Qed.

Lemma exact_skip_consumer c : wf_consumer c -> exact skip_consumer (enc_consumer c) tt.
Proof.
  intros (W1 & W2 & W3 & W4 & W5). unfold skip_consumer, enc_consumer.
  eapply exact_bind; [apply exact_read_string; exact W1|].
  eapply exact_bind; [apply exact_take_n; exact W2|].
  apply (exact_seq (take 16) (co_pel c) (co_pel c)); auto.
  - eapply Forall_impl; [|exact W5]. intros e He. apply (nonempty_of_len e 16 He). lia.
  - clear - W5. induction W5 as [|e es He _ IH]; constructor; [apply exact_take_n; exact He|exact IH].
Qed.

Lemma app_cons_nonempty (a b : bytes) : a <> [] -> a ++ b <> [].
Proof. destruct a; [contradiction|discriminate]. Qed.

Lemma exact_skip_cgroup g : wf_cgroup g -> exact skip_cgroup (enc_cgroup g) tt.
Proof.
  intros (W1 & W2 & W3 & W4 & W5 & W6 & W7 & W8 & W9). unfold skip_cgroup, enc_cgroup.
  eapply exact_bind; [apply exact_read_string; exact W1|].
  eapply exact_bind; [apply exact_read_length; exact W2|].
  eapply exact_bind; [apply exact_read_length; exact W3|].
  rewrite <- (map_length enc_pel (cg_pel g)) in W4 |- *.
  eapply (exact_seq_then skip_pending (map enc_pel (cg_pel g)) (map (fun _ => tt) (cg_pel g))); auto.
  - apply Forall_forall. intros e He. apply in_map_iff in He. destruct He as [p [<- Hp]].
    rewrite Forall_forall in W6. destruct (W6 p Hp) as (Q1 & _). unfold enc_pel. apply app_cons_nonempty.
    apply (nonempty_of_len _ 16 Q1). lia.
  - apply Forall2_map_l. eapply Forall_impl; [|exact W6]. intros p Hp. apply exact_skip_pending. exact Hp.
  - rewrite <- (map_length enc_consumer (cg_consumers g)) in W7 |- *.
    apply (exact_seq skip_consumer (map enc_consumer (cg_consumers g)) (map (fun _ => tt) (cg_consumers g))); auto.
    + apply Forall_forall. intros e He. apply in_map_iff in He. destruct He as [c [<- Hc]].
      unfold enc_consumer. apply app_cons_nonempty. apply enc_string_nonempty.
    + apply Forall2_map_l. eapply Forall_impl; [|exact W9]. intros c Hc. apply exact_skip_consumer. exact Hc.
Qed.

Lemma exact_skip_stream s : wf_stream s -> exact skip_stream (enc_stream s) tt.
Proof.
  intros (W1 & W2 & W3 & W4 & W5 & W6 & W7 & W8 & W9). unfold skip_stream, enc_stream.
  rewrite <- (map_length (fun p => enc_string (fst p) ++ enc_string (snd p)) (st_packs s)) in W1 |- *.
  eapply (exact_seq_then (_ <- read_string ;; read_string) _ (map (fun p => logical_string (snd p)) (st_packs s))); auto.
  - apply Forall_forall. intros e He. apply in_map_iff in He. destruct He as [p [<- Hp]].
    apply app_cons_nonempty. apply enc_string_nonempty.
  - apply Forall2_map_l. eapply Forall_impl; [|exact W3]. intros [x y] [H1 H2]. cbn [fst snd] in *.
    eapply exact_bind; [apply exact_read_string; exact H1|apply exact_read_string; exact H2].
  - eapply exact_bind; [apply exact_read_length; exact W4|].
    eapply exact_bind; [apply exact_read_length; exact W5|].
    eapply exact_bind; [apply exact_read_length; exact W6|].
    rewrite <- (map_length enc_cgroup (st_groups s)) in W7 |- *.
    apply (exact_seq skip_cgroup (map enc_cgroup (st_groups s)) (map (fun _ => tt) (st_groups s))); auto.
    + apply Forall_forall. intros e He. apply in_map_iff in He. destruct He as [g [<- Hg]].
      unfold enc_cgroup. apply app_cons_nonempty. apply enc_string_nonempty.
    + apply Forall2_map_l. eapply Forall_impl; [|exact W9]. intros g Hg. apply exact_skip_cgroup. exact Hg.
Qed.

(* ---------- values ---------- *)
Definition key_str_type (t : N) : bool := (t =? 0) || (t =? 9) || (t =? 10) || (t =? 11) || (t =? 12) || (t =? 13).
Definition wf_value (v : rvalue) : Prop :=
  match v with
  | VStr t x => key_str_type t = true /\ wf_string x
  | VSeq t f xs => seq_type t = true /\ fits f (N.of_nat (length xs)) /\ f <> L64 /\ Forall wf_string xs
  | VZSet f ms => fits f (N.of_nat (length ms)) /\ f <> L64 /\ Forall (fun m => wf_string (fst m) /\ wf_score (snd m)) ms
  | VZSet2 f ms => fits f (N.of_nat (length ms)) /\ f <> L64 /\ Forall (fun m => wf_string (fst m) /\ lenB (snd m) = 8) ms
  | VHash f ps => fits f (N.of_nat (length ps)) /\ f <> L64 /\ Forall (fun p => wf_string (fst p) /\ wf_string (snd p)) ps
  | VStream s => wf_stream s
  end.

(* the hash is not split: its serialisation does not exceed the chunk limit *)
Definition unsplit (limit : N) (v : rvalue) : Prop :=
  match v with VHash _ _ => lenB (enc_value v) <= limit | _ => True end.

Lemma key_str_is_str t : key_str_type t = true -> str_type t = true.
Proof.
  unfold key_str_type, str_type. intros H. repeat (apply orb_true_iff in H; destruct H as [H|H]);
    apply N.eqb_eq in H; subst; reflexivity.
Qed.

(* the hash loop under the no-split hypothesis reads every pair *)
Lemma hash_loop_all limit : forall (ps : list (rstring * rstring)) fuel n i cap r,
  Forall (fun p => wf_string (fst p) /\ wf_string (snd p)) ps ->
  n = i + N.of_nat (length ps) -> (length ps < fuel)%nat ->
  cap + lenB (concat (map enc_pair ps)) <= limit ->
  hash_loop fuel limit n i cap (concat (map enc_pair ps) ++ r) = Some ((n, 0), r).
Proof.
  induction ps as [|[x y] ps IH]; intros fuel n i cap r W Hn Hf Hc.
  - destruct fuel; [lia|]. assert (Ei : i = n) by (cbn [length] in Hn; lia). subst i.
    cbn [hash_loop map concat app]. rewrite N.eqb_refl. reflexivity.
  - destruct fuel; [cbn in Hf; lia|]. cbn [hash_loop].
    replace (i =? n) with false by (symmetry; apply N.eqb_neq; cbn [length] in Hn; lia).
    inversion W as [|? ? [W1 W2] W']; subst. cbn [fst snd] in *.
    cbn [map concat]. unfold enc_pair at 1. cbn [fst snd]. rewrite <- !app_assoc.
    assert (E : (_ <- read_string ;; read_string) (enc_string x ++ enc_string y ++ concat (map enc_pair ps) ++ r)
                = Some (logical_string y, concat (map enc_pair ps) ++ r)).
    { unfold bind. rewrite (exact_read_string x W1). rewrite (exact_read_string y W2). reflexivity. }
    rewrite E.
    set (rest := concat (map enc_pair ps) ++ r).
    assert (L : lenN (enc_pair (x, y) ++ rest) - lenN rest = lenB (enc_pair (x, y))).
    { unfold lenN, lenB. rewrite !app_length. lia. }
    rewrite L.
    assert (Hcap : cap + lenB (enc_pair (x, y)) + lenB (concat (map enc_pair ps)) <= limit).
    { cbn [map concat] in Hc. unfold lenB in *. rewrite !app_length in *. lia. }
    replace (limit <? cap + lenB (enc_pair (x, y))) with false by (symmetry; apply N.ltb_ge; lia).
    cbn [andb]. apply IH; [exact W'|cbn [length] in *; lia|cbn [length] in Hf; lia|exact Hcap].
Qed.

Ltac sel_type t :=
  repeat match goal with
  | |- context [str_type t] => let v := eval vm_compute in (str_type t) in change (str_type t) with v
  | |- context [seq_type t] => let v := eval vm_compute in (seq_type t) in change (seq_type t) with v
  | |- context [t =? ?c] => let v := eval vm_compute in (t =? c) in change (t =? c) with v
  end; cbv iota.

Theorem exact_skip_value limit v rs : wf_value v -> unsplit limit v -> remain rs = 0 ->
  exists rs', exact (skip_value limit (vtype v) rs) (enc_value v) rs' /\
              (if last_read rs' =? tot rs' then 0 else last_read rs') = 0 /\ remain rs' = 0.
Proof.
  destruct v as [t x|t f xs|f ms|f ms|f ps|s]; cbn [wf_value vtype enc_value unsplit]; intros W U R.
  - destruct W as [Wt Wx]. exists r0. split; [|split; reflexivity]. unfold skip_value. rewrite (key_str_is_str t Wt).
    rewrite <- (app_nil_r (enc_string x)). eapply exact_bind; [apply exact_read_string; exact Wx|apply exact_ret].
  - destruct W as (Wt & Wf & Wn & Wx). exists r0. split; [|split; reflexivity]. unfold skip_value.
    assert (str_type t = false) as ->.
    { unfold seq_type, str_type in *. repeat (apply orb_true_iff in Wt; destruct Wt as [Wt|Wt]);
        apply N.eqb_eq in Wt; subst; reflexivity. }
    rewrite Wt. rewrite <- (map_length enc_string xs) in Wf |- *.
    rewrite <- (app_nil_r (concat (map enc_string xs))).
    eapply (exact_seq_then read_string (map enc_string xs) (map logical_string xs)); auto.
    + apply Forall_forall. intros e He. apply in_map_iff in He. destruct He as [y [<- _]]. apply enc_string_nonempty.
    + apply Forall2_map_l. eapply Forall_impl; [|exact Wx]. intros a Ha. apply exact_read_string. exact Ha.
    + apply exact_ret.
  - destruct W as (Wf & Wn & Wx). exists r0. split; [|split; reflexivity]. unfold skip_value. sel_type 3.
    rewrite <- (map_length (fun m => enc_string (fst m) ++ enc_score (snd m)) ms) in Wf |- *.
    rewrite <- (app_nil_r (concat _)).
    eapply (exact_seq_then _ _ (map (fun _ => tt) ms)); auto.
    + apply Forall_forall. intros e He. apply in_map_iff in He. destruct He as [y [<- _]]. apply app_cons_nonempty, enc_string_nonempty.
    + apply Forall2_map_l. eapply Forall_impl; [|exact Wx]. intros [x sc] [H1 H2]. cbn [fst snd] in *.
      eapply exact_bind; [apply exact_read_string; exact H1|apply exact_read_float; exact H2].
    + apply exact_ret.
  - destruct W as (Wf & Wn & Wx). exists r0. split; [|split; reflexivity]. unfold skip_value. sel_type 5.
    rewrite <- (map_length (fun m => enc_string (fst m) ++ snd m) ms) in Wf |- *.
    rewrite <- (app_nil_r (concat _)).
    eapply (exact_seq_then _ _ (map (fun m => snd m) ms)); auto.
    + apply Forall_forall. intros e He. apply in_map_iff in He. destruct He as [y [<- _]]. apply app_cons_nonempty, enc_string_nonempty.
    + apply Forall2_map_l. eapply Forall_impl; [|exact Wx]. intros [x raw] [H1 H2]. cbn [fst snd] in *.
      eapply exact_bind; [apply exact_read_string; exact H1|apply exact_take_n; exact H2].
    + apply exact_ret.
  - destruct W as (Wf & Wn & Wx). set (n := N.of_nat (length ps)) in *.
    exists {| remain := 0; last_read := n; tot := n |}. split; [|split; [cbn; rewrite N.eqb_refl; reflexivity|reflexivity]].
    intros r. unfold skip_value. sel_type 4. rewrite R. change (0 =? 0) with true. cbv iota.
    unfold bind at 1. rewrite <- app_assoc. rewrite (exact_read_length f n Wf). rewrite model_value_id by exact Wn. unfold ret.
    rewrite (hash_loop_all limit ps _ n 0 _ r Wx); [reflexivity|lia| |].
    + rewrite app_length.
      assert (G : (length (map enc_pair ps) <= length (concat (map enc_pair ps)))%nat).
      { apply concat_length_ge. apply Forall_forall. intros e He. apply in_map_iff in He. destruct He as [pp [<- _]].
        unfold enc_pair. apply app_cons_nonempty, enc_string_nonempty. }
      rewrite map_length in G. lia.
    + unfold lenN, lenB in *. rewrite !app_length in *. lia.
  - exists r0. split; [|split; reflexivity]. unfold skip_value. sel_type 15.
    rewrite <- (app_nil_r (enc_stream s)). eapply exact_bind; [apply exact_skip_stream; exact W|apply exact_ret].
Qed.

Theorem exact_read_object limit v rs : wf_value v -> unsplit limit v -> remain rs = 0 -> vtype v < 256 ->
  exists rs', exact (read_object limit (vtype v) rs) (enc_value v) (create_value_dump (n2b (vtype v)) (enc_value v), rs') /\
              (if last_read rs' =? tot rs' then 0 else last_read rs') = 0 /\ remain rs' = 0.
Proof.
  intros W U R T. destruct (exact_skip_value limit v rs W U R) as (rs' & E & Q1 & Q2).
  exists rs'. split; [|split; assumption]. intros r. unfold read_object, bind.
  rewrite (exact_capture _ _ _ E r). reflexivity.
Qed.

(* ---------- units ---------- *)
Definition wf_mod_item (m : mod_item) : Prop :=
  match m with
  | MSint fo fv v => fits fo 1 /\ fo <> L64 /\ fits fv v
  | MUint fo fv v => fits fo 2 /\ fo <> L64 /\ fits fv v
  | MFloat fo raw => fits fo 3 /\ fo <> L64 /\ lenB raw = 4
  | MDouble fo raw => fits fo 4 /\ fo <> L64 /\ lenB raw = 8
  | MString fo s => fits fo 5 /\ fo <> L64 /\ wf_string s
  end.

Definition wf_unit (limit : N) (u : unit_) : Prop :=
  match u with
  | UExpMs ms => ms < 2 ^ 64 | UExpS s => s < 2 ^ 32
  | UIdle f n => fits f n /\ f <> L64 | UFreq n => n < 256
  | USelect f n => fits f n /\ f <> L64
  | UResize f1 f2 a b => fits f1 a /\ fits f2 b
  | UAux k v => wf_string k /\ wf_string v /\ logical_string k <> lua_name
  | ULua kf v => fits kf 3 /\ kf <> L64 /\ wf_string v
  | UModuleAux fid id items feof => fits fid id /\ Forall wf_mod_item items /\ fits feof 0 /\ feof <> L64
  | UKey k v => wf_string k /\ wf_value v /\ unsplit limit v
  end.

Lemma vtype_small v : wf_value v -> vtype v < 16.
Proof.
  destruct v as [t x|t f xs| | | |]; cbn [wf_value vtype]; intros W; try lia.
  - destruct W as [W _]. unfold key_str_type in W. repeat (apply orb_true_iff in W; destruct W as [W|W]); apply N.eqb_eq in W; lia.
  - destruct W as [W _]. unfold seq_type in W. repeat (apply orb_true_iff in W; destruct W as [W|W]); apply N.eqb_eq in W; lia.
Qed.

(* module values: every item is skipped, the EOF sub-opcode ends the list *)
Lemma exact_module_values items feof : Forall wf_mod_item items -> fits feof 0 -> feof <> L64 ->
  forall fuel, (length items < fuel)%nat ->
  exact (module_values fuel) (concat (map enc_mod_item items) ++ enc_len feof 0) tt.
Proof.
  intros W. induction W as [|m items Wm _ IH]; intros Hf Hn fuel Hfuel.
  - destruct fuel; [cbn in Hfuel; lia|]. cbn [map concat app module_values].
    rewrite <- (app_nil_r (enc_len feof 0)). eapply exact_bind; [apply exact_read_length; exact Hf|].
    rewrite model_value_id by exact Hn. change (0 =? 0) with true. cbv iota. apply exact_ret.
  - destruct fuel; [cbn in Hfuel; lia|]. cbn [map concat module_values]. rewrite <- app_assoc.
    assert (Hrec : exact (module_values fuel) (concat (map enc_mod_item items) ++ enc_len feof 0) tt)
      by (apply IH; [assumption|assumption|cbn [length] in Hfuel; lia]).
    destruct m as [fo fv v|fo fv v|fo raw|fo raw|fo s]; cbn [wf_mod_item enc_mod_item] in *; rewrite <- app_assoc.
    + destruct Wm as (W1 & W2 & W3). eapply exact_bind; [apply exact_read_length; exact W1|]. rewrite model_value_id by exact W2.
      change (1 =? 0) with false. change (1 =? 1) with true. cbn [orb]. cbv iota.
      eapply exact_bind; [apply exact_read_length; exact W3|exact Hrec].
    + destruct Wm as (W1 & W2 & W3). eapply exact_bind; [apply exact_read_length; exact W1|]. rewrite model_value_id by exact W2.
      change (2 =? 0) with false. change (2 =? 1) with false. change (2 =? 2) with true. cbn [orb]. cbv iota.
      eapply exact_bind; [apply exact_read_length; exact W3|exact Hrec].
    + destruct Wm as (W1 & W2 & W3). eapply exact_bind; [apply exact_read_length; exact W1|]. rewrite model_value_id by exact W2.
      change (3 =? 0) with false. change (3 =? 1) with false. change (3 =? 2) with false. change (3 =? 5) with false. change (3 =? 3) with true.
      cbn [orb]. cbv iota. eapply exact_bind; [apply exact_take_n; exact W3|exact Hrec].
    + destruct Wm as (W1 & W2 & W3). eapply exact_bind; [apply exact_read_length; exact W1|]. rewrite model_value_id by exact W2.
      change (4 =? 0) with false. change (4 =? 1) with false. change (4 =? 2) with false. change (4 =? 5) with false. change (4 =? 3) with false.
      change (4 =? 4) with true. cbn [orb]. cbv iota. eapply exact_bind; [apply exact_take_n; exact W3|exact Hrec].
    + destruct Wm as (W1 & W2 & W3). eapply exact_bind; [apply exact_read_length; exact W1|]. rewrite model_value_id by exact W2.
      change (5 =? 0) with false. change (5 =? 1) with false. change (5 =? 2) with false. change (5 =? 5) with true.
      cbn [orb]. cbv iota. eapply exact_bind; [apply exact_read_string; exact W3|exact Hrec].
Qed.

(* chunking under the no-split hypothesis: one chunk with every pair *)
Lemma take_chunk_all limit : forall ps cap acc,
  cap + lenB (concat ps) <= limit -> take_chunk limit cap ps acc = (rev acc ++ ps, []).
Proof.
  induction ps as [|p rest IH]; intros cap acc H; cbn [take_chunk].
  - rewrite app_nil_r. reflexivity.
  - destruct rest as [|q rest'].
    + cbn [rev]. reflexivity.
    + assert (Hlt : (limit <? cap + lenB p) = false).
      { apply N.ltb_ge. cbn [concat] in H. unfold lenB in *. rewrite !app_length in H. lia. }
      rewrite Hlt. rewrite IH.
      * cbn [rev]. rewrite <- app_assoc. reflexivity.
      * cbn [concat] in *. unfold lenB in *. rewrite !app_length in *. lia.
Qed.

Lemma key_records_unsplit limit m k v : unsplit limit v ->
  key_records limit m k v = [mk m (logical_string k) (vtype v) (create_value_dump (n2b (vtype v)) (enc_value v)) 0 1].
Proof.
  destruct v as [t x|t f xs|f ms|f ms|f ps|s]; cbn [unsplit key_records vtype enc_value]; intros U; try reflexivity.
  destruct ps as [|p ps'] eqn:E.
  - cbn [map length chunks concat]. rewrite app_nil_r. reflexivity.
  - rewrite <- E in *. assert (Hne : map enc_pair ps <> []) by (subst ps; discriminate).
    cbn [chunks]. destruct (map enc_pair ps) as [|e es] eqn:Em; [contradiction|]. rewrite <- Em in *.
    rewrite take_chunk_all.
    + cbn [rev app]. destruct (length (map enc_pair ps)); cbn [chunks]; reflexivity.
    + unfold lenB in *. rewrite !app_length in U. lia.
Qed.

(* ---------- the opcode loop ---------- *)
Definition meta_of (db : N) (pd : pend) : meta := {| m_db := db; m_exp := p_exp pd; m_idle := p_idle pd; m_freq := p_freq pd |}.

Fixpoint first_rec (m : meta) (us : list unit_) : option (entry * N * list unit_) :=
  match us with
  | [] => None
  | u :: r =>
      match u with
      | UExpMs ms => first_rec {| m_db := m_db m; m_exp := ms; m_idle := m_idle m; m_freq := m_freq m |} r
      | UExpS s => first_rec {| m_db := m_db m; m_exp := s * 1000; m_idle := m_idle m; m_freq := m_freq m |} r
      | UIdle _ n => first_rec {| m_db := m_db m; m_exp := m_exp m; m_idle := n; m_freq := m_freq m |} r
      | UFreq n => first_rec {| m_db := m_db m; m_exp := m_exp m; m_idle := m_idle m; m_freq := n |} r
      | USelect _ n => first_rec {| m_db := n; m_exp := m_exp m; m_idle := m_idle m; m_freq := m_freq m |} r
      | UResize _ _ _ _ | UAux _ _ | UModuleAux _ _ _ _ => first_rec m r
      | ULua _ v => Some (mk m lua_name 250 (logical_string v) 0 0, m_db m, r)
      | UKey k v => Some (mk m (logical_string k) (vtype v) (create_value_dump (n2b (vtype v)) (enc_value v)) 0 1, m_db m, r)
      end
  end.

Definition cleared (db : N) : meta := {| m_db := db; m_exp := 0; m_idle := 0; m_freq := 0 |}.

Lemma records_first limit : forall us m, Forall (wf_unit limit) us ->
  records_of limit m us = match first_rec m us with
                          | None => []
                          | Some (e, db, rest) => e :: records_of limit (cleared db) rest
                          end.
Proof.
  induction us as [|u us IH]; intros m W; [reflexivity|]. inversion W as [|? ? Wu Wus]; subst.
  destruct u; cbn [records_of first_rec]; try (apply IH; exact Wus).
  - reflexivity.
  - cbn [wf_unit] in Wu. destruct Wu as (_ & _ & U). rewrite key_records_unsplit by exact U. reflexivity.
Qed.

Lemma first_rec_rest m us e db rest : first_rec m us = Some (e, db, rest) -> (length rest < length us)%nat.
Proof.
  revert m. induction us as [|u us IH]; intros m H; [discriminate|].
  destruct u; cbn [first_rec length] in *; try (specialize (IH _ H); lia); inversion H; subst; lia.
Qed.

Ltac opc c := change (b2n (n2b c)) with c;
  repeat match goal with |- context [c =? ?k] => let v := eval vm_compute in (c =? k) in change (c =? k) with v end; cbv iota.

Ltac ne_open R c :=
  cbn [next_entry enc_unit app]; rewrite R; cbn [N.eqb negb]; cbv iota;
  unfold bind at 1; unfold bind at 1; cbn [byte1]; unfold ret at 1; opc c.

Section Steps.
Variables (fuel : nat) (limit : N) (st : lstate) (pd : pend) (rest : bytes).
Hypothesis R : remain (l_rs st) = 0.

Lemma ne_expms ms : ms < 2 ^ 64 ->
  next_entry (S fuel) limit st pd (enc_unit (UExpMs ms) ++ rest) =
  next_entry fuel limit st {| p_exp := ms; p_idle := p_idle pd; p_freq := p_freq pd |} rest.
Proof.
  intros W. ne_open R 252. unfold bind at 1.
  assert (L : lenN (le_enc 8 ms) = 8) by (unfold lenN; rewrite le_enc_length; reflexivity).
  rewrite (exact_take_n _ _ L). rewrite le_dec_enc by (change (8 * N.of_nat 8) with 64; exact W). reflexivity.
Qed.

Lemma ne_exps s : s < 2 ^ 32 ->
  next_entry (S fuel) limit st pd (enc_unit (UExpS s) ++ rest) =
  next_entry fuel limit st {| p_exp := s * 1000; p_idle := p_idle pd; p_freq := p_freq pd |} rest.
Proof.
  intros W. ne_open R 253. unfold bind at 1.
  assert (L : lenN (le_enc 4 s) = 4) by (unfold lenN; rewrite le_enc_length; reflexivity).
  rewrite (exact_take_n _ _ L). rewrite le_dec_enc by (change (8 * N.of_nat 4) with 32; exact W). reflexivity.
Qed.

Lemma ne_idle f n : fits f n -> f <> L64 ->
  next_entry (S fuel) limit st pd (enc_unit (UIdle f n) ++ rest) =
  next_entry fuel limit st {| p_exp := p_exp pd; p_idle := n; p_freq := p_freq pd |} rest.
Proof.
  intros W1 W2. ne_open R 248. unfold bind at 1. rewrite (exact_read_length f n W1). rewrite model_value_id by exact W2. reflexivity.
Qed.

Lemma ne_freq n : n < 256 ->
  next_entry (S fuel) limit st pd (enc_unit (UFreq n) ++ rest) =
  next_entry fuel limit st {| p_exp := p_exp pd; p_idle := p_idle pd; p_freq := n |} rest.
Proof. intros W. ne_open R 249. unfold bind at 1. cbn [byte1]. rewrite b2n_n2b_small by exact W. reflexivity. Qed.

Lemma ne_select f n : fits f n -> f <> L64 ->
  next_entry (S fuel) limit st pd (enc_unit (USelect f n) ++ rest) =
  next_entry fuel limit {| l_db := n; l_rs := l_rs st; l_last := l_last st |} pd rest.
Proof.
  intros W1 W2. ne_open R 254. unfold bind at 1. rewrite (exact_read_length f n W1). rewrite model_value_id by exact W2. reflexivity.
Qed.

Lemma ne_resize f1 f2 a b : fits f1 a -> fits f2 b ->
  next_entry (S fuel) limit st pd (enc_unit (UResize f1 f2 a b) ++ rest) = next_entry fuel limit st pd rest.
Proof.
  intros W1 W2. ne_open R 251. unfold bind at 1. unfold soft at 1. rewrite <- !app_assoc. rewrite (exact_read_length f1 a W1).
  unfold bind at 1. unfold soft at 1. rewrite (exact_read_length f2 b W2). reflexivity.
Qed.

Lemma ne_aux k v : wf_string k -> wf_string v -> logical_string k <> lua_name ->
  next_entry (S fuel) limit st pd (enc_unit (UAux k v) ++ rest) = next_entry fuel limit st pd rest.
Proof.
  intros W1 W2 W3. ne_open R 250. unfold bind at 1. unfold soft at 1. rewrite <- !app_assoc. rewrite (exact_read_string k W1).
  unfold bind at 1. unfold soft at 1. rewrite (exact_read_string v W2).
  assert (Hb : beqs (logical_string k) lua = false).
  { destruct (beqs (logical_string k) lua) eqn:E; [|reflexivity]. apply beqs_true in E. contradiction. }
  rewrite Hb. reflexivity.
Qed.

Lemma ne_lua kf v : fits kf 3 -> kf <> L64 -> wf_string v ->
  next_entry (S fuel) limit st pd (enc_unit (ULua kf v) ++ rest) =
  Some ((Some (mk (meta_of (l_db st) pd) lua_name 250 (logical_string v) 0 0), st), rest).
Proof.
  intros W1 W2 W3. ne_open R 250. unfold bind at 1. unfold soft at 1. rewrite <- !app_assoc.
  rewrite (exact_read_string (SRaw kf lua_name)) by (split; assumption).
  unfold bind at 1. unfold soft at 1. rewrite (exact_read_string v W3). cbn [logical_string].
  assert (Hb : beqs lua_name lua = true) by reflexivity. rewrite Hb. reflexivity.
Qed.

Lemma ne_module fid id items feof : fits fid id -> Forall wf_mod_item items -> fits feof 0 -> feof <> L64 ->
  next_entry (S fuel) limit st pd (enc_unit (UModuleAux fid id items feof) ++ rest) = next_entry fuel limit st pd rest.
Proof.
  intros W1 W2 W3 W4. ne_open R 247. unfold bind at 1. rewrite <- !app_assoc. rewrite (exact_read_length fid id W1).
  unfold bind at 1. rewrite app_assoc.
  rewrite (exact_module_values items feof W2 W3 W4); [reflexivity|].
  rewrite !app_length.
  assert (G : (length (map enc_mod_item items) <= length (concat (map enc_mod_item items)))%nat).
  { apply concat_length_ge. apply Forall_forall. intros e He. apply in_map_iff in He. destruct He as [mi [<- _]].
    destruct mi; cbn [enc_mod_item]; apply app_cons_nonempty, enc_len_nonempty. }
  rewrite map_length in G. lia.
Qed.

Lemma ne_key k v : wf_string k -> wf_value v -> unsplit limit v ->
  exists st', remain (l_rs st') = 0 /\ l_db st' = l_db st /\
  next_entry (S fuel) limit st pd (enc_unit (UKey k v) ++ rest) =
  Some ((Some (mk (meta_of (l_db st) pd) (logical_string k) (vtype v) (create_value_dump (n2b (vtype v)) (enc_value v)) 0 1), st'), rest).
Proof.
  intros W1 W2 W3. pose proof (vtype_small v W2) as Ht.
  destruct (exact_read_object limit v (l_rs st) W2 W3 R ltac:(lia)) as (rs' & E & Q1 & Q2).
  exists {| l_db := l_db st; l_rs := rs'; l_last := Some (mk (meta_of (l_db st) pd) (logical_string k) (vtype v) (create_value_dump (n2b (vtype v)) (enc_value v)) 0 1) |}.
  split; [exact Q2|]. split; [reflexivity|].
  cbn [next_entry enc_unit app]. rewrite R. cbn [N.eqb negb]. cbv iota.
  unfold bind at 1. unfold bind at 1. cbn [byte1]. unfold ret at 1. rewrite b2n_n2b_small by lia.
  assert (T : forall c, 247 <= c -> (vtype v =? c) = false) by (intros; apply N.eqb_neq; lia).
  rewrite !T by lia.
  unfold bind at 1. unfold bind at 1. rewrite <- app_assoc. rewrite (exact_read_string k W1). unfold ret at 1.
  unfold bind at 1. rewrite (E _). unfold ret at 1. rewrite Q1. reflexivity.
Qed.
End Steps.

Definition ne_result (fr : option (entry * N * list unit_)) (r : bytes) (res : option (option entry * lstate * bytes)) : Prop :=
  match fr with
  | None => exists st', res = Some ((None, st'), r)
  | Some (e, db, rest) =>
      exists st', remain (l_rs st') = 0 /\ l_db st' = db /\ res = Some ((Some e, st'), concat (map enc_unit rest) ++ n2b 255 :: r)
  end.

Ltac use_ih H := let X := fresh in pose proof H as X; unfold meta_of in *; cbn [m_db m_exp m_idle m_freq p_exp p_idle p_freq l_db] in *; exact X.

Lemma next_entry_first limit : forall us fuel st pd r,
  Forall (wf_unit limit) us -> remain (l_rs st) = 0 -> (length us < fuel)%nat ->
  ne_result (first_rec (meta_of (l_db st) pd) us) r
            (next_entry fuel limit st pd (concat (map enc_unit us) ++ n2b 255 :: r)).
Proof.
  induction us as [|u us IH]; intros fuel st pd r W R Hf.
  - destruct fuel; [cbn in Hf; lia|]. cbn [first_rec map concat app ne_result].
    exists st. cbn [next_entry]. rewrite R. cbn [N.eqb negb]. cbv iota.
    unfold bind at 1. unfold bind at 1. cbn [byte1]. unfold ret at 1. opc 255. reflexivity.
  - destruct fuel; [cbn in Hf; lia|]. inversion W as [|? ? Wu Wus]; subst.
    assert (Hf' : (length us < fuel)%nat) by (cbn [length] in Hf; lia).
    cbn [map concat]. rewrite <- app_assoc.
    destruct u as [ms|s|f n|n|f n|f1 f2 a b|k v|kf v|fid id items feof|k v]; cbn [wf_unit first_rec] in *.
    + rewrite ne_expms by assumption. use_ih (IH fuel st {| p_exp := ms; p_idle := p_idle pd; p_freq := p_freq pd |} r Wus R Hf').
    + rewrite ne_exps by assumption. use_ih (IH fuel st {| p_exp := s * 1000; p_idle := p_idle pd; p_freq := p_freq pd |} r Wus R Hf').
    + destruct Wu as [W1 W2]. rewrite ne_idle by assumption. use_ih (IH fuel st {| p_exp := p_exp pd; p_idle := n; p_freq := p_freq pd |} r Wus R Hf').
    + rewrite ne_freq by assumption. use_ih (IH fuel st {| p_exp := p_exp pd; p_idle := p_idle pd; p_freq := n |} r Wus R Hf').
    + destruct Wu as [W1 W2]. rewrite ne_select by assumption. use_ih (IH fuel {| l_db := n; l_rs := l_rs st; l_last := l_last st |} pd r Wus R Hf').
    + destruct Wu as [W1 W2]. rewrite ne_resize by assumption. use_ih (IH fuel st pd r Wus R Hf').
    + destruct Wu as (W1 & W2 & W3). rewrite ne_aux by assumption. use_ih (IH fuel st pd r Wus R Hf').
    + destruct Wu as (W1 & W2 & W3). rewrite ne_lua by assumption. cbn [ne_result].
      exists st. split; [exact R|]. split; reflexivity.
    + destruct Wu as (W1 & W2 & W3 & W4). rewrite ne_module by assumption. use_ih (IH fuel st pd r Wus R Hf').
    + destruct Wu as (W1 & W2 & W3).
      destruct (ne_key fuel limit st pd (concat (map enc_unit us) ++ n2b 255 :: r) R k v W1 W2 W3) as (st' & Q1 & Q2 & E).
      rewrite E. cbn [ne_result]. exists st'. split; [exact Q1|]. split; [exact Q2|reflexivity].
Qed.

(* ---------- the whole file ---------- *)
Lemma entries_spec limit : forall fuel us st acc r,
  Forall (wf_unit limit) us -> remain (l_rs st) = 0 -> (length us < fuel)%nat ->
  entries fuel limit st acc (concat (map enc_unit us) ++ n2b 255 :: r)
    = Some (rev acc ++ records_of limit (cleared (l_db st)) us, r).
Proof.
  induction fuel as [|fuel IH]; intros us st acc r W R Hf; [lia|].
  cbn [entries].
  pose proof (next_entry_first limit us (S (length (concat (map enc_unit us) ++ n2b 255 :: r))) st pend0 r W R) as N.
  assert (Hlen : (length us < S (length (concat (map enc_unit us) ++ n2b 255 :: r)))%nat).
  { rewrite app_length. assert (G : (length (map enc_unit us) <= length (concat (map enc_unit us)))%nat).
    { apply concat_length_ge. apply Forall_forall. intros e He. apply in_map_iff in He. destruct He as [u [<- _]].
      destruct u; discriminate. }
    rewrite map_length in G. lia. }
  specialize (N Hlen). rewrite (records_first limit us _ W).
  change (meta_of (l_db st) pend0) with (cleared (l_db st)) in N.
  unfold ne_result in N.
  destruct (first_rec (cleared (l_db st)) us) as [[[e db] rest]|] eqn:F.
  - destruct N as (st' & R' & D' & E). rewrite E.
    pose proof (first_rec_rest _ _ _ _ _ F) as Lr.
    assert (Wr : Forall (wf_unit limit) rest).
    { clear - F W. revert F. generalize (cleared (l_db st)). induction W as [|u us Wu Wus IHW]; intros m F; [discriminate|].
      destruct u; cbn [first_rec] in F; try (eapply IHW; exact F); inversion F; subst; exact Wus. }
    rewrite (IH rest st' (e :: acc) r Wr R' ltac:(lia)). rewrite D'. cbn [rev]. rewrite <- app_assoc. reflexivity.
  - destruct N as (st' & E). rewrite E. rewrite app_nil_r. reflexivity.
Qed.

Definition wf_version (v : N) : Prop := 1 <= v <= 9.

Lemma version_digits_parse v : v < 10 -> parse_int (version_digits v) = Some (Z.of_N v).
Proof.
  intros H.
  assert (forallb (fun v => match parse_int (version_digits v) with Some z => Z.eqb z (Z.of_N v) | None => false end)
            (map N.of_nat (seq 0 10)) = true) as Hall by (vm_compute; reflexivity).
  rewrite forallb_forall in Hall. specialize (Hall v).
  assert (In v (map N.of_nat (seq 0 10))) as Hin.
  { apply in_map_iff. exists (N.to_nat v). split; [lia|]. apply in_seq. lia. }
  specialize (Hall Hin).
  destruct (parse_int (version_digits v)) as [z|]; [|discriminate]. apply Z.eqb_eq in Hall. subst z. reflexivity.
Qed.

Lemma header_ok v r : wf_version v -> from_version = 9 -> header (rdb_magic ++ version_digits v ++ r) = Some (v, r).
Proof.
  intros [H1 H2] Hfv. unfold header, bind.
  assert (L : lenN (rdb_magic ++ version_digits v) = 9) by reflexivity.
  rewrite app_assoc. rewrite (exact_take_n _ _ L).
  assert (E1 : firstn 5 (rdb_magic ++ version_digits v) = magic) by reflexivity.
  assert (E2 : skipn 5 (rdb_magic ++ version_digits v) = version_digits v) by reflexivity.
  rewrite E1, E2. assert (B : beqs magic magic = true) by (apply beqs_true; reflexivity). rewrite B.
  rewrite version_digits_parse by lia. rewrite Hfv.
  assert (C : ((0 <? Z.of_N v) && (Z.of_N v <=? Z.of_N 9))%Z = true) by lia. rewrite C.
  unfold ret. rewrite N2Z.id. reflexivity.
Qed.

(* the theorem of C01 for files whose hashes stay below the chunk limit *)
Theorem load_all_exact limit version us :
  wf_version version -> Forall (wf_unit limit) us -> from_version = 9 ->
  load_all limit (enc_file version us) = Loaded (records_of limit meta0 us).
Proof.
  intros Wv Wu Hfv. unfold load_all, enc_file.
  set (body := enc_body version us). set (tr := le_enc 8 (crc64 body)).
  assert (Hparse : (_ <- header ;; entries (S (length (body ++ tr))) limit l0 []) (body ++ tr)
                   = Some (records_of limit meta0 us, tr)).
  { unfold bind. unfold body, enc_body. rewrite <- !app_assoc. rewrite header_ok by assumption.
    cbn [app]. rewrite (entries_spec limit _ us l0 [] tr Wu eq_refl).
    - reflexivity.
    - rewrite !app_length. cbn [length].
      assert (G : (length (map enc_unit us) <= length (concat (map enc_unit us)))%nat).
      { apply concat_length_ge. apply Forall_forall. intros e He. apply in_map_iff in He. destruct He as [u [<- _]].
        destruct u; discriminate. }
      rewrite map_length in G. lia. }
  rewrite Hparse.
  assert (Lt : length tr = 8%nat) by apply le_enc_length.
  rewrite app_length. replace (length body + length tr - length tr)%nat with (length body) by lia.
  rewrite firstn_app, firstn_all, Nat.sub_diag, firstn_O, app_nil_r.
  assert (T : take 8 tr = Some (tr, [])).
  { rewrite <- (app_nil_r tr) at 1. apply exact_take_n. unfold lenN. rewrite Lt. reflexivity. }
  rewrite T. rewrite DigestProofs.digest_write_spec.
  change (Crc64Proofs.crc64i 0 body) with (crc64 body).
  unfold tr. rewrite DigestProofs.crc_le_roundtrip. rewrite N.eqb_refl. reflexivity.
Qed.
