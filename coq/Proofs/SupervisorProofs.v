(* Proofs/SupervisorProofs.v — lemmas for C20. *)
From RS Require Import Base.Bytes Model.Supervisor.
From Coq Require Import Permutation Arith.

Section P.
Variable probe : nat -> host -> outcome.
Notation is_master := (is_master probe).
Notation pass := (pass probe).
Notation get_state := (get_state probe).

Definition nodes (src : option host) (slaves : list host) : list host :=
  match src with Some s => s :: slaves | None => slaves end.

Lemma perm1 (h old : host) slaves t : Permutation (h :: (slaves ++ [old]) ++ t) (old :: slaves ++ h :: t).
Proof.
  apply perm_trans with (l' := h :: old :: slaves ++ t).
  - constructor. change (old :: slaves ++ t) with ((old :: slaves) ++ t). apply Permutation_app_tail.
    apply Permutation_sym. apply Permutation_cons_append.
  - apply perm_trans with (l' := old :: h :: slaves ++ t); [constructor|].
    constructor. apply Permutation_middle.
Qed.

Lemma pass_perm r : forall hs src slaves,
  let '(s', sl') := pass r hs src slaves in
  Permutation (nodes s' sl') (nodes src slaves ++ hs) /\
  (match s' with Some m => (src = Some m /\ forall h, In h hs -> is_master r h = false) \/ is_master r m = true
               | None => src = None /\ forall h, In h hs -> is_master r h = false end).
Proof.
  induction hs as [|h t IH]; intros src slaves; simpl.
  - rewrite app_nil_r. split; [reflexivity|]. destruct src; [left|]; split; auto; intros ? [].
  - destruct (is_master r h) eqn:M.
    + specialize (IH (Some h) (match src with Some old => slaves ++ [old] | None => slaves end)).
      destruct (pass r t (Some h) _) as [s' sl']. destruct IH as [P Q]. split.
      * rewrite P. destruct src as [old|]; simpl.
        -- apply perm1.
        -- apply Permutation_middle.
      * destruct s' as [m|]; [|destruct Q; discriminate].
        destruct Q as [[E _]|Q]; [inversion E; subst; right; exact M|right; exact Q].
    + specialize (IH src (slaves ++ [h])). destruct (pass r t src (slaves ++ [h])) as [s' sl']. destruct IH as [P Q]. split.
      * rewrite P. destruct src; simpl; rewrite <- app_assoc; reflexivity.
      * destruct s' as [m|].
        -- destruct Q as [[E F]|Q]; [left; split; auto; intros x [<-|Hx]; auto|right; exact Q].
        -- destruct Q as [E F]. split; auto. intros x [<-|Hx]; auto.
Qed.

Lemma get_state_some maxr hs s sl : forall depth,
  get_state maxr depth hs = Some (s, sl) ->
  exists r, maxr - depth <= r <= maxr /\ pass r hs None [] = (Some s, sl) /\
            forall r', maxr - depth <= r' < r -> fst (pass r' hs None []) = None.
Proof.
  induction depth as [|d IH]; intros H; simpl in H;
    match type of H with context [pass ?r hs None []] => destruct (pass r hs None []) as [[m|] sl'] eqn:E end;
    try discriminate.
  - inversion H; subst. exists (maxr - 0). split; [lia|]. split; [exact E|]. intros; exfalso; lia.
  - inversion H; subst. exists (maxr - S d). split; [lia|]. split; [exact E|]. intros; exfalso; lia.
  - destruct (IH H) as (r & Hr & P & F). exists r. split; [lia|]. split; [exact P|].
    intros r' Hr'. destruct (Nat.eq_dec r' (maxr - S d)) as [->|Hne]; [rewrite E; reflexivity|].
    apply F. lia.
Qed.

Lemma get_state_none maxr hs : forall depth, depth <= maxr ->
  get_state maxr depth hs = None ->
  forall r, maxr - depth <= r <= maxr -> fst (pass r hs None []) = None.
Proof.
  induction depth as [|d IH]; intros Hd H r Hr; simpl in H;
    match type of H with context [pass ?r0 hs None []] => destruct (pass r0 hs None []) as [[m|] sl'] eqn:E end;
    try discriminate.
  - replace r with (maxr - 0) by lia. rewrite E. reflexivity.
  - destruct (Nat.eq_dec r (maxr - S d)) as [->|Hne]; [rewrite E; reflexivity|].
    apply IH; auto; lia.
Qed.

Theorem chosen_is_master maxr depth hs s sl :
  get_state maxr depth hs = Some (s, sl) ->
  (exists r, maxr - depth <= r <= maxr /\ is_master r s = true /\
             forall r', maxr - depth <= r' < r -> forall h, In h hs -> is_master r' h = false) /\
  Permutation (s :: sl) hs.
Proof.
  intros H. destruct (get_state_some _ _ _ _ _ H) as (r & Hr & P & F).
  pose proof (pass_perm r hs None []) as L. rewrite P in L. simpl in L. destruct L as [Pm Q].
  split; [|exact Pm]. destruct Q as [[Q _]|Q]; [discriminate|]. exists r. split; [lia|]. split; [exact Q|].
  intros r' Hr' h Hh. specialize (F r' Hr').
  pose proof (pass_perm r' hs None []) as L'. destruct (pass r' hs None []) as [[m|] sl']; [discriminate|].
  destruct L' as [_ [_ G]]. auto.
Qed.

Theorem bounded_failure maxr depth hs : depth <= maxr ->
  get_state maxr depth hs = None ->
  forall r, maxr - depth <= r <= maxr -> forall h, In h hs -> is_master r h = false.
Proof.
  intros Hd H r Hr h Hh. pose proof (get_state_none _ _ _ Hd H r Hr) as N.
  pose proof (pass_perm r hs None []) as L. destruct (pass r hs None []) as [[m|] sl']; [discriminate|].
  destruct L as [_ [_ F]]. auto.
Qed.

(* conversely: some node reporting master in some round of the budget => a result *)
Theorem master_found maxr hs r h : r <= maxr -> In h hs -> is_master r h = true ->
  get_state maxr maxr hs <> None.
Proof.
  intros Hr Hh Hm H. pose proof (bounded_failure maxr maxr hs (le_n _) H r ltac:(lia) h Hh). congruence.
Qed.

(* nodes that are unreachable, answer with errors or report no role are never chosen *)
Lemma error_node_not_master r h : node_state (probe r h) = PErr -> is_master r h = false.
Proof. intros H. unfold Supervisor.is_master. rewrite H. reflexivity. Qed.
End P.

(* the pass of the pinned tree dropped the first of two masters from the node list *)
Lemma pinned_refuted :
  let probe := fun (_ : nat) (h : host) => if beqs h [x63] then Reply role_slave else Reply role_master in
  pass_pinned probe 0 [[x61]; [x62]; [x63]] None [] = (Some [x62], [[x63]]) /\
  pass probe 0 [[x61]; [x62]; [x63]] None [] = (Some [x62], [[x61]; [x63]]).
Proof. vm_compute. split; reflexivity. Qed.
