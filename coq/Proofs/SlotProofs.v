(* Proofs/SlotProofs.v — lemmas for C15. *)
From RS Require Import Base.Bytes Base.Dec Spec.Crc16 Spec.Slot Gen.Crc16 Model.Slot Proofs.SlotWitness Proofs.SlotWitnessCheck.
From Coq Require Import ZifyN ZifyNat ZifyBool.
Open Scope N_scope.

(* ---- tables ---- *)
Lemma common_table_is_spec : common_crc16tab = crc16_table.
Proof. vm_compute. reflexivity. Qed.
Lemma latency_table_is_spec : latency_crc16tab = crc16_table.
Proof. vm_compute. reflexivity. Qed.

Lemma crc16_common_spec bs : crc16_common bs = crc16 bs.
Proof. unfold crc16_common, common_tree, crc16. rewrite crc16_tree_with, common_table_is_spec. reflexivity. Qed.
Lemma crc16_latency_spec bs : crc16_latency bs = crc16 bs.
Proof. unfold crc16_latency, latency_tree, crc16. rewrite crc16_tree_with, latency_table_is_spec. reflexivity. Qed.

(* ---- hash tag ---- *)
Lemma scan_tag_spec key : scan_tag key =
  match upto LB key with
  | None => []
  | Some (_, after) => match upto RB after with Some (t, _) => t | None => [] end
  end.
Proof.
  induction key as [|b r IH]; simpl; [reflexivity|].
  destruct (beq b LB); [reflexivity|]. rewrite IH.
  destruct (upto LB r) as [[p q]|]; reflexivity.
Qed.

Lemma hashtag_model_spec key : hashtag_model key = hashtag_spec key.
Proof.
  unfold hashtag_model, hashtag_spec. rewrite scan_tag_spec.
  destruct (upto LB key) as [[p after]|]; [|reflexivity].
  destruct (upto RB after) as [[t q]|]; [|reflexivity]. destruct t; reflexivity.
Qed.

Lemma key_to_slot_spec key : key_to_slot key = slot_spec key.
Proof.
  unfold key_to_slot, slot_spec. rewrite hashtag_model_spec, crc16_common_spec.
  change 0x3fff with (N.ones 14). rewrite N.land_ones. reflexivity.
Qed.

Lemma nobreak_refuted : exists key, key_to_slot_nobreak key <> slot_spec key.
Proof. exists [LB; x61; RB; LB; x62; RB]. vm_compute. discriminate. Qed.

(* ---- words ---- *)
Lemma in_words n w : length w = n -> Forall (fun c => In c letters) w -> In w (words n).
Proof.
  revert w. induction n as [|n IH]; intros w Hl Hf.
  - destruct w; [left; reflexivity|discriminate].
  - destruct w as [|c w]; [discriminate|]. inversion Hf as [|? ? Hc Hw]; subst.
    cbn [words]. apply in_flat_map. exists c. split; [exact Hc|].
    apply in_map. apply IH; [simpl in Hl; lia|exact Hw].
Qed.

Lemma lt26_in k : In (lt26 k) letters.
Proof.
  unfold lt26. apply nth_In. change (length letters) with 26%nat.
  pose proof (N.mod_lt k 26). lia.
Qed.

Lemma word4_in i : In (word4 i) (words 4).
Proof.
  apply in_words; [reflexivity|]. unfold word4.
  apply Forall_cons; [apply lt26_in|]. apply Forall_cons; [apply lt26_in|].
  apply Forall_cons; [apply lt26_in|]. apply Forall_cons; [apply lt26_in|]. apply Forall_nil.
Qed.

Opaque words.

(* ---- find ---- *)
Lemma find_exists {A} (f : A -> bool) l x : In x l -> f x = true -> exists y, find f l = Some y /\ f y = true.
Proof.
  intros Hin Hf. destruct (find f l) as [y|] eqn:E.
  - exists y. split; [reflexivity|]. apply find_some in E. tauto.
  - exfalso. pose proof (find_none f l E x Hin). congruence.
Qed.

Lemma in_seqN s n : s < n -> In s (seqN n).
Proof.
  intros H. unfold seqN. apply in_map_iff. exists (N.to_nat s). split; [lia|].
  apply in_seq. lia.
Qed.

Lemma every_slot_has_checkpoint_word s : s < 16384 ->
  exists w, In w (words 4) /\ slot_spec (cp_prefix ++ w) = s.
Proof.
  intros H. assert (Hin : In s (seqN 16384)) by (apply in_seqN; lia).
  rewrite <- cp_witness_ok in Hin. apply in_map_iff in Hin. destruct Hin as [i [Hi _]].
  exists (word4 i). split; [apply word4_in|exact Hi].
Qed.

Lemma every_slot_has_latency_index s : s < 16384 ->
  exists i, i < find_key_bound /\ N.land (crc16_latency (latency_key i)) 16383 = s.
Proof.
  intros H. assert (Hin : In s (seqN 16384)) by (apply in_seqN; lia).
  rewrite <- lat_witness_ok in Hin. apply in_map_iff in Hin. destruct Hin as [i [Hi Hm]].
  exists i. split; [|exact Hi].
  pose proof lat_witness_bound as B. rewrite forallb_forall in B. specialize (B i Hm).
  unfold find_key_bound. lia.
Qed.

Lemma find_app {A} (f : A -> bool) l1 l2 :
  find f (l1 ++ l2) = match find f l1 with Some x => Some x | None => find f l2 end.
Proof. induction l1 as [|x l1 IH]; simpl; [reflexivity|]. destruct (f x); [reflexivity|exact IH]. Qed.

Lemma find_map {A B} (f : B -> bool) (g : A -> B) l :
  find f (map g l) = option_map g (find (fun x => f (g x)) l).
Proof. induction l as [|x l IH]; simpl; [reflexivity|]. destruct (f (g x)); [reflexivity|exact IH]. Qed.

Lemma find_ext {A} (f g : A -> bool) l : (forall x, f x = g x) -> find f l = find g l.
Proof. intros H. induction l as [|x l IH]; simpl; [reflexivity|]. rewrite H, IH. reflexivity. Qed.

Transparent words.
Lemma dfs_is_find n judge : forall pre,
  dfs n judge pre = option_map (app pre) (find (fun w => judge (pre ++ w)) (words n)).
Proof.
  induction n as [|n IH]; intros pre.
  - cbn [dfs words find]. rewrite app_nil_r. destruct (judge pre); cbn [option_map]; rewrite ?app_nil_r; reflexivity.
  - cbn [dfs words]. generalize letters as ls. induction ls as [|c ls IHl]; [reflexivity|].
    cbn [flat_map]. rewrite find_app, find_map, IH.
    assert (E : forall w, (pre ++ [c]) ++ w = pre ++ c :: w) by (intros w; rewrite <- app_assoc; reflexivity).
    rewrite (find_ext _ (fun w => judge (pre ++ c :: w)) _ (fun w => f_equal judge (E w))).
    destruct (find (fun w => judge (pre ++ c :: w)) (words n)) as [w|] eqn:F; cbn [option_map].
    + rewrite E. reflexivity.
    + exact IHl.
Qed.
Opaque words.

Lemma chose_slot_in_range_ok l r : l <= r -> r <= 16383 ->
  exists k, chose_slot_in_range checkpoint_key l r = Some k
         /\ (exists w, k = checkpoint_key ++ [x2d] ++ w /\ In w (words 4))
         /\ l <= slot_spec k <= r.
Proof.
  intros Hlr Hr. destruct (every_slot_has_checkpoint_word l) as [w [Hw Hs]]; [lia|].
  unfold chose_slot_in_range. change (N.to_nat checkpoint_suffix_len) with 4%nat.
  fold cp_prefix. rewrite dfs_is_find.
  rewrite (find_ext _ (fun w => in_range l r (slot_spec (cp_prefix ++ w))) _
             (fun w => f_equal (in_range l r) (slot_spec_fast_ok (cp_prefix ++ w)))).
  destruct (find_exists (fun w => in_range l r (slot_spec (cp_prefix ++ w))) (words 4) w Hw)
    as [y [Hy Hf]].
  { unfold in_range. rewrite Hs. lia. }
  rewrite Hy. exists (cp_prefix ++ y). split; [reflexivity|]. split.
  - exists y. split; [unfold cp_prefix; rewrite <- app_assoc; reflexivity|].
    apply find_some in Hy. destruct Hy as [Hy1 _]. exact Hy1.
  - unfold in_range in Hf. lia.
Qed.

Lemma find_key_from_finds fuel i0 l r i :
  i0 <= i -> i < i0 + N.of_nat fuel ->
  in_range l r (N.land (crc16_latency (latency_key i)) 16383) = true ->
  exists j, find_key_from fuel i0 l r = Some j /\ i0 <= j <= i
         /\ in_range l r (N.land (crc16_latency (latency_key j)) 16383) = true.
Proof.
  revert i0. induction fuel as [|f IH]; intros i0 H0 H1 Hr; [lia|].
  cbn [find_key_from].
  destruct (in_range l r (N.land (crc16_latency (latency_key i0)) 16383)) eqn:E.
  - exists i0. split; [reflexivity|]. split; [lia|exact E].
  - assert (i0 <> i) by (intros ->; congruence).
    destruct (IH (N.succ i0)) as [j [Hj [Hb Hin]]]; [lia|lia|exact Hr|].
    exists j. split; [exact Hj|]. split; [lia|exact Hin].
Qed.

Lemma find_key_in_range_ok l r : l <= r -> r <= 16383 ->
  exists i, find_key_in_range l r = Some (latency_key i)
         /\ l <= crc16 (latency_key i) mod 16384 <= r.
Proof.
  intros Hlr Hr. destruct (every_slot_has_latency_index l) as [i [Hb Hs]]; [lia|].
  destruct (find_key_from_finds (N.to_nat find_key_bound) 0 l r i) as [j [Hj [_ Hin]]]; try lia.
  { unfold in_range. rewrite Hs. lia. }
  exists j. unfold find_key_in_range. rewrite Hj. split; [reflexivity|].
  rewrite crc16_latency_spec in Hin. change 16383 with (N.ones 14) in Hin.
  rewrite N.land_ones in Hin. change (2^14) with 16384 in Hin. unfold in_range in Hin. lia.
Qed.
