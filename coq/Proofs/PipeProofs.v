(* Proofs/PipeProofs.v — the pipe ring refines a FIFO queue; park conditions; no lost wake-up;
   close rules (C09). *)
From RS Require Import Base.Bytes Base.Table Model.Backlog Model.Pipe Proofs.BacklogProofs.
From Coq Require Import ZifyN ZifyNat ZifyBool.
Ltac Zify.zify_post_hook ::= Z.div_mod_to_equations.
Open Scope N_scope.

Definition pcellf (r : pbuf) (i : N) : byte := nth (N.to_nat i) (pcells r) x00.

(* the ring [r] holds exactly the queue [q] (oldest byte first) *)
Definition binv (r : pbuf) (q : bytes) : Prop :=
  0 < psize r /\ prpos r <= pwpos r /\ pwpos r - prpos r <= psize r /\
  N.of_nat (length (pcells r)) = psize r /\
  N.of_nat (length q) = pwpos r - prpos r /\
  forall i, i < pwpos r - prpos r -> pcellf r ((prpos r + i) mod psize r) = nth (N.to_nat i) q x00.

Lemma list_ext (l1 l2 : bytes) : length l1 = length l2 ->
  (forall i, (i < length l1)%nat -> nth i l1 x00 = nth i l2 x00) -> l1 = l2.
Proof. intros H1 H2. apply nth_ext with (d := x00) (d' := x00); assumption. Qed.

Lemma mod_eq_close a b s : 0 < s -> a mod s = b mod s -> a <= b -> b - a < s -> a = b.
Proof.
  intros Hs E Hle Hd.
  pose proof (N.div_mod a s) as Ha. pose proof (N.div_mod b s) as Hb.
  pose proof (N.mod_lt a s) as La. pose proof (N.mod_lt b s) as Lb.
  rewrite E in Ha.
  assert (Q : b / s = a / s).
  { destruct (N.lt_trichotomy (a / s) (b / s)) as [H|[H|H]]; [|auto|]; nia. }
  rewrite Q in Hb. lia.
Qed.

Theorem read_some_refines r q blen :
  binv r q ->
  let '(r', out) := pb_read_some r blen in
  out = firstn (length out) q /\ binv r' (skipn (length out) q) /\
  (out = [] <-> blen = 0 \/ q = []) /\ psize r' = psize r.
Proof.
  intros (Hs & Hle & Hcap & Hlc & Hlen & Hc). unfold pb_read_some, p_roffset.
  set (maxlen := N.min (N.min blen (pwpos r - prpos r)) (psize r - prpos r mod psize r)).
  assert (Hm : maxlen <= pwpos r - prpos r) by lia.
  assert (Hmo : prpos r mod psize r + maxlen <= psize r) by (unfold maxlen; lia).
  destruct (N.eqb_spec maxlen 0) as [E|E].
  - cbn [length firstn skipn]. split; [reflexivity|]. split; [repeat split; auto|].
    split; [|reflexivity]. split; intros _; [|reflexivity].
    assert (blen = 0 \/ pwpos r - prpos r = 0) by (unfold maxlen in E; lia).
    destruct H; [left; auto|right]. destruct q; auto. simpl in Hlen. lia.
  - set (out := read_cells (pcells r) (prpos r mod psize r) (N.to_nat maxlen)).
    assert (Hfit : (N.to_nat (prpos r mod psize r) + N.to_nat maxlen <= length (pcells r))%nat) by lia.
    assert (Lout : length out = N.to_nat maxlen) by (apply read_cells_length; exact Hfit).
    assert (Hout : out = firstn (length out) q).
    { apply list_ext.
      - rewrite firstn_length. lia.
      - intros i Hi. rewrite Table.nth_firstn_lt by lia. rewrite Lout in Hi. unfold out.
        rewrite read_cells_nth by lia.
        specialize (Hc (N.of_nat i)). rewrite Nat2N.id in Hc.
        rewrite <- Hc by lia. unfold pcellf.
        f_equal. f_equal. symmetry. apply mod_add_small; lia. }
    destruct (N.eqb_spec (prpos r + maxlen) (pwpos r)) as [E2|E2]; cbn [fst snd].
    + split; [exact Hout|]. split.
      * assert (skipn (length out) q = []) as -> by (apply skipn_all2; lia).
        repeat split; cbn [psize prpos pwpos pcells length]; try lia.
      * split; [|reflexivity]. split; intros H.
        -- rewrite H in Lout. simpl in Lout. lia.
        -- destruct H; [unfold maxlen in E; lia|subst q; simpl in Hlen; lia].
    + split; [exact Hout|]. split.
      * repeat split; cbn [psize prpos pwpos pcells]; try lia.
        -- rewrite skipn_length. lia.
        -- intros i Hi. rewrite nth_skipn_add. rewrite Lout.
           replace (N.to_nat maxlen + N.to_nat i)%nat with (N.to_nat (maxlen + i)) by lia.
           rewrite <- Hc by lia. unfold pcellf. cbn [pcells]. f_equal. f_equal. f_equal. lia.
      * split; [|reflexivity]. split; intros H.
        -- rewrite H in Lout. simpl in Lout. lia.
        -- destruct H; [unfold maxlen in E; lia|subst q; simpl in Hlen; lia].
Qed.

Theorem write_some_refines r q bs :
  binv r q ->
  let '(r', n) := pb_write_some r bs in
  n <= N.of_nat (length bs) /\ binv r' (q ++ firstn (N.to_nat n) bs) /\
  (n = 0 <-> bs = [] \/ N.of_nat (length q) = psize r) /\ psize r' = psize r.
Proof.
  intros (Hs & Hle & Hcap & Hlc & Hlen & Hc). unfold pb_write_some, p_woffset. lazy beta iota zeta.
  set (blen := N.of_nat (length bs)).
  set (maxlen := N.min (N.min blen (psize r + prpos r - pwpos r)) (psize r - pwpos r mod psize r)).
  assert (Hmb : maxlen <= blen) by lia.
  assert (Hmf : maxlen <= psize r - (pwpos r - prpos r)) by lia.
  assert (Hmo : pwpos r mod psize r + maxlen <= psize r) by lia.
  assert (Hoff : pwpos r mod psize r < psize r) by (apply N.mod_lt; lia).
  destruct (N.eqb_spec maxlen 0) as [E|E].
  - split; [lia|]. split.
    + cbn [N.to_nat firstn]. rewrite app_nil_r. repeat split; auto.
    + split; [|reflexivity]. split; intros _; [|reflexivity].
      assert (blen = 0 \/ psize r + prpos r - pwpos r = 0) by lia.
      destruct H; [left; destruct bs; auto; unfold blen in H; simpl in H; lia|right; lia].
  - split; [exact Hmb|]. split.
    + assert (Lf : length (firstn (N.to_nat maxlen) bs) = N.to_nat maxlen) by (rewrite firstn_length; lia).
      assert (Hfit : (N.to_nat (pwpos r mod psize r) + length (firstn (N.to_nat maxlen) bs) <= length (pcells r))%nat)
        by (rewrite Lf; lia).
      repeat split; cbn [psize prpos pwpos pcells]; try lia.
      * rewrite upd_cells_length by exact Hfit. exact Hlc.
      * rewrite app_length, Lf. lia.
      * intros i Hi. unfold pcellf. cbn [pcells]. rewrite upd_cells_nth by exact Hfit. rewrite Lf, N2Nat.id.
        destruct (N.lt_ge_cases i (pwpos r - prpos r)) as [Hold|Hnew].
        -- rewrite app_nth1 by lia. rewrite <- Hc by exact Hold. unfold pcellf.
           destruct ((pwpos r mod psize r <=? (prpos r + i) mod psize r) &&
                     ((prpos r + i) mod psize r <? pwpos r mod psize r + maxlen)) eqn:B; [|reflexivity].
           exfalso. apply andb_true_iff in B. destruct B as [B1 B2].
           apply N.leb_le in B1. apply N.ltb_lt in B2.
           set (j := (prpos r + i) mod psize r - pwpos r mod psize r) in *.
           assert (Hj : j < maxlen) by lia.
           assert (Em : (prpos r + i) mod psize r = (pwpos r + j) mod psize r).
           { rewrite (mod_add_small (pwpos r) (psize r) j) by lia. unfold j. lia. }
           assert (prpos r + i = pwpos r + j) by (apply (mod_eq_close _ _ (psize r)); lia).
           lia.
        -- rewrite app_nth2 by lia.
           set (j := i - (pwpos r - prpos r)).
           assert (Hj : j < maxlen) by lia.
           replace (prpos r + i) with (pwpos r + j) by lia.
           rewrite mod_add_small by lia.
           replace (pwpos r mod psize r <=? pwpos r mod psize r + j) with true by (symmetry; apply N.leb_le; lia).
           replace (pwpos r mod psize r + j <? pwpos r mod psize r + maxlen) with true by (symmetry; apply N.ltb_lt; lia).
           cbn [andb]. f_equal. lia.
    + split; [|reflexivity]. split; intros H; [lia|]. exfalso. destruct H as [H|H].
      * subst bs. unfold blen in *. simpl in *. lia.
      * lia.
Qed.

Lemma new_pbuf_binv sz unit : 0 < unit -> binv (new_pbuf sz unit) [].
Proof.
  intros Hu. unfold binv, new_pbuf. cbn [psize prpos pwpos pcells length].
  assert (0 < align sz unit).
  { unfold align. destruct (sz <? unit) eqn:E; [exact Hu|].
    apply N.ltb_ge in E. assert (1 <= (sz + unit - 1) / unit) by (apply N.div_le_lower_bound; lia). nia. }
  repeat split; try lia. rewrite repeat_length. lia.
Qed.

(* ---------------- the pipe machine: invariant over every schedule ---------------- *)
Definition PInv (s : pstate) : Prop :=
  exists q, binv (pb s) q /\ delivered s ++ q = accepted s /\
    (rst s = Parked -> q = [] /\ werr s = None /\ rerr s = None /\ exists blen, rreq s = Some blen /\ blen <> 0) /\
    (wst s = Parked -> N.of_nat (length q) = psize (pb s) /\ werr s = None /\ rerr s = None /\
                       exists rest nn, wreq s = Some (rest, nn) /\ rest <> []).

Lemma signal_not_parked t : signal t <> Parked.
Proof. destruct t; discriminate. Qed.
Lemma signal_keeps t : t <> Parked -> signal t = t.
Proof. intros H. destruct t; try reflexivity. exfalso. apply H. reflexivity. Qed.

Ltac imp_side := first [discriminate | assumption | (let HP := fresh in intros HP; exfalso; exact (signal_not_parked _ HP))
  | (let HP := fresh in intros HP;
     repeat match goal with E : ?f ?st = ?v |- context[?f ?st] => is_var st; rewrite E end;
     match goal with H : _ = Parked -> _ |- _ => first [exact (H HP) | exact (H eq_refl)] end)].
Ltac keepq q Hb Hfifo := exists q; cbn; split; [exact Hb|]; split; [exact Hfifo|]; split; try imp_side.

Ltac sameq q := exists q; cbn [fst]; split; [assumption|split; [assumption|split; assumption]].

Lemma pinit_inv sz unit : 0 < unit -> PInv (pinit sz unit).
Proof.
  intros Hu. exists []. split; [apply new_pbuf_binv; exact Hu|]. split; [reflexivity|].
  split; discriminate.
Qed.

Lemma step_r_inv s : PInv s -> PInv (fst (step_r s)).
Proof.
  intros Hinv. pose proof Hinv as (q & Hb & Hfifo & HR & HW). unfold step_r.
  destruct (rreq s) as [blen|] eqn:Erq; [|exact Hinv].
  destruct (rst s) eqn:Ers.
  - (* Running *)
    destruct (rerr s) as [e|] eqn:Ere.
    + keepq q Hb Hfifo.
    + destruct (N.eqb_spec blen 0) as [E0|E0].
      * keepq q Hb Hfifo.
      * pose proof (read_some_refines (pb s) q blen Hb) as R.
        destruct (pb_read_some (pb s) blen) as [b' out]. destruct R as (Ro & Rb & Rz & Rs).
        destruct out as [|o out'].
        -- assert (Hq : q = []) by (destruct Rz as [Rz _]; destruct (Rz eq_refl); [contradiction|assumption]).
           destruct (werr s) as [e|] eqn:Ewe.
           ++ keepq q Hb Hfifo.
           ++ keepq q Hb Hfifo. intros _. repeat split; auto. exists blen. split; [reflexivity|exact E0].
        -- exists (skipn (length (o :: out')) q). cbn [fst set_r pb delivered accepted rst wst rreq wreq rerr werr].
           split; [exact Rb|]. split.
           { rewrite <- app_assoc. rewrite Ro at 1. rewrite firstn_skipn. exact Hfifo. }
           split; [discriminate|]. intros HP. exfalso. exact (signal_not_parked _ HP).
  - keepq q Hb Hfifo.
  - keepq q Hb Hfifo.
Qed.

Lemma step_w_inv s : PInv s -> PInv (fst (step_w s)).
Proof.
  intros Hinv. pose proof Hinv as (q & Hb & Hfifo & HR & HW). unfold step_w.
  destruct (wreq s) as [[rest nn]|] eqn:Erq; [|exact Hinv].
  destruct (wst s) eqn:Ews.
  - destruct (werr s) as [e|] eqn:Ewe.
    + keepq q Hb Hfifo.
    + destruct (rerr s) as [e|] eqn:Ere.
      * keepq q Hb Hfifo.
      * destruct rest as [|x rest'] eqn:Erest.
        -- keepq q Hb Hfifo.
        -- rewrite <- Erest in *. pose proof (write_some_refines (pb s) q rest Hb) as Wr.
           destruct (pb_write_some (pb s) rest) as [b' n]. destruct Wr as (Wn & Wb & Wz & Ws).
           destruct (N.eqb_spec n 0) as [E0|E0].
           ++ keepq q Hb Hfifo. intros _. repeat split; auto.
              ** destruct Wz as [Wz _]. destruct (Wz E0) as [H|H]; [subst rest; discriminate|exact H].
              ** exists rest, nn. split; [reflexivity|subst rest; discriminate].
           ++ assert (Hnew : PInv (set_w s b' Running None (signal (rst s)) (accepted s ++ firstn (N.to_nat n) rest)) /\
                             forall rq, PInv (set_w s b' Running rq (signal (rst s)) (accepted s ++ firstn (N.to_nat n) rest))).
              { assert (G : forall rq, PInv (set_w s b' Running rq (signal (rst s)) (accepted s ++ firstn (N.to_nat n) rest))).
                { intros rq. exists (q ++ firstn (N.to_nat n) rest). cbn. split; [exact Wb|]. split.
                  - rewrite app_assoc, Hfifo. reflexivity.
                  - split; [intros HP; exfalso; exact (signal_not_parked _ HP)|discriminate]. }
                split; [apply G|exact G]. }
              destruct (skipn (N.to_nat n) rest); cbn [fst]; apply Hnew.
  - keepq q Hb Hfifo.
  - keepq q Hb Hfifo.
Qed.

Theorem pstep_inv s ev : PInv s -> PInv (fst (pstep s ev)).
Proof.
  intros H. destruct ev; cbn [pstep].
  - pose proof H as (q & Hb & Hfifo & HR & HW). destruct (rreq s) eqn:E; [exact H|].
    keepq q Hb Hfifo.
  - pose proof H as (q & Hb & Hfifo & HR & HW). destruct (wreq s) eqn:E; [exact H|].
    keepq q Hb Hfifo.
  - apply step_r_inv. exact H.
  - apply step_w_inv. exact H.
  - exact H.
  - exact H.
  - destruct H as (q & Hb & Hfifo & HR & HW). exists q. cbn. split; [exact Hb|]. split; [exact Hfifo|].
    split; intros HP; exfalso; exact (signal_not_parked _ HP).
  - destruct H as (q & Hb & Hfifo & HR & HW). exists q. cbn. split; [exact Hb|]. split; [exact Hfifo|].
    split; intros HP; exfalso; exact (signal_not_parked _ HP).
Qed.

Theorem prun_inv evs : forall s, PInv s -> PInv (prun s evs).
Proof. induction evs as [|e evs IH]; intros s H; [exact H|]. cbn [prun]. apply IH. apply pstep_inv. exact H. Qed.

(* ---- the property, clause by clause ---- *)

(* FIFO: what the reader has received is always a prefix of what the writer's bytes accepted
   so far, and the rest is exactly what is buffered (nothing lost, duplicated, reordered) *)
Theorem fifo_any_schedule sz unit evs : 0 < unit ->
  let s := prun (pinit sz unit) evs in
  exists q, delivered s ++ q = accepted s /\ N.of_nat (length q) = pb_buffered (pb s) /\ pb_buffered (pb s) <= psize (pb s).
Proof.
  intros Hu s. destruct (prun_inv evs _ (pinit_inv sz unit Hu)) as (q & Hb & Hf & _). fold s in Hb, Hf.
  exists q. split; [exact Hf|]. destruct Hb as (_ & _ & Hc & _ & Hl & _). unfold pb_buffered. split; assumption.
Qed.

(* a side is parked only while the buffer is empty (reader) / full (writer) and nobody closed:
   whatever the other side or a close did since it parked has signalled it (no lost wake-up) *)
Theorem parked_only_when sz unit evs : 0 < unit ->
  let s := prun (pinit sz unit) evs in
  (rst s = Parked -> pb_buffered (pb s) = 0 /\ werr s = None /\ rerr s = None) /\
  (wst s = Parked -> pb_available (pb s) = 0 /\ werr s = None /\ rerr s = None).
Proof.
  intros Hu s. destruct (prun_inv evs _ (pinit_inv sz unit Hu)) as (q & Hb & _ & HR & HW). fold s in Hb, HR, HW.
  destruct Hb as (Hs & Hle & Hc & _ & Hl & _). unfold pb_buffered, pb_available. split; intros HP.
  - destruct (HR HP) as (-> & H1 & H2 & _). cbn in Hl. repeat split; try assumption. lia.
  - destruct (HW HP) as (H0 & H1 & H2 & _). repeat split; try assumption. lia.
Qed.

(* deadlock freedom: reader and writer are never both parked *)
Theorem never_both_parked sz unit evs : 0 < unit ->
  let s := prun (pinit sz unit) evs in ~ (rst s = Parked /\ wst s = Parked).
Proof.
  intros Hu s [HR HW]. destruct (prun_inv evs _ (pinit_inv sz unit Hu)) as (q & Hb & _ & IR & IW). fold s in Hb, IR, IW.
  destruct (IR HR) as (-> & _). destruct (IW HW) as (H0 & _). destruct Hb as (Hs & _). cbn in H0. lia.
Qed.

(* a runnable step exists for a parked side as soon as the other side made progress or closed:
   stated as "a signalled or running thread with a request always takes its step" *)
Lemma step_r_enabled s : rreq s <> None -> rst s <> Parked -> snd (step_r s) <> ORejected.
Proof.
  intros H1 H2. unfold step_r. destruct (rreq s) as [blen|]; [|contradiction]. destruct (rst s); try contradiction.
  - destruct (rerr s); [discriminate|]. destruct (blen =? 0); [discriminate|].
    destruct (pb_read_some (pb s) blen) as [b' [|o out]]; [destruct (werr s)|]; discriminate.
  - discriminate.
Qed.

(* close rules *)
Lemma read_after_wclose_drains s blen : rerr s = None -> werr s <> None -> rreq s = Some blen -> rst s = Running -> blen <> 0 ->
  PInv s ->
  match snd (step_r s) with
  | ORead (_ :: _) None => pb_buffered (pb s) <> 0          (* data first *)
  | ORead [] (Some e) => pb_buffered (pb s) = 0 /\ werr s = Some e   (* then the writer's error *)
  | _ => False
  end.
Proof.
  intros Hre Hwe Hrq Hrs Hb0 (q & Hb & _). unfold step_r. rewrite Hrq, Hrs, Hre.
  destruct (N.eqb_spec blen 0); [contradiction|].
  pose proof (read_some_refines (pb s) q blen Hb) as R.
  destruct (pb_read_some (pb s) blen) as [b' out]. destruct R as (Ro & Rb & Rz & _).
  destruct Hb as (_ & _ & _ & _ & Hl & _). unfold pb_buffered.
  destruct out as [|o out'].
  - destruct (werr s) as [e|]; [|contradiction]. cbn.
    destruct Rz as [Rz _]. destruct (Rz eq_refl) as [H|H]; [contradiction|]. subst q. cbn in Hl. split; [lia|reflexivity].
  - cbn. intros H0. destruct Rz as [_ Rz]. assert (q = []) by (destruct q; [reflexivity|simpl in Hl; lia]).
    specialize (Rz (or_intror H)). discriminate.
Qed.

Lemma after_rclose_never_parks s : rerr s <> None ->
  (rst s = Running -> rreq s <> None -> snd (step_r s) = ORead [] (Some EClosedPipe)) /\
  (wst s = Running -> forall rest nn, wreq s = Some (rest, nn) -> werr s = None -> snd (step_w s) = OWrite nn (rerr s)) /\
  (wst s = Running -> forall rest nn, wreq s = Some (rest, nn) -> werr s <> None -> snd (step_w s) = OWrite nn (Some EClosedPipe)) /\
  snd (pstep s DoBuffered) = OBuffered 0 (rerr s).
Proof.
  intros Hre. destruct (rerr s) as [e|] eqn:E; [|contradiction]. repeat split.
  - intros Hrs Hrq. unfold step_r. destruct (rreq s); [|contradiction]. rewrite Hrs, E. reflexivity.
  - intros Hws rest nn Hrq Hwe. unfold step_w. rewrite Hrq, Hws, Hwe, E. reflexivity.
  - intros Hws rest nn Hrq Hwe. unfold step_w. rewrite Hrq, Hws. destruct (werr s); [reflexivity|contradiction].
  - cbn. rewrite E. reflexivity.
Qed.
