(* Proofs/FlowProofs.v — soundness of the certificate check; masking is non-interfering. *)
From Coq Require Import List PArith Bool String.
From RS Require Import Model.FlowCert.
Import ListNotations.

Lemma closed_path g C : closed g C = true -> forall a b, path g a b -> PS.mem a C = true -> PS.mem b C = true.
Proof.
  intros Hc a b P. induction P as [a|a b c Hin P IH]; intros Ha; [exact Ha|].
  apply IH. unfold closed in Hc. rewrite forallb_forall in Hc. specialize (Hc (a, b) Hin). simpl in Hc.
  rewrite Ha in Hc. exact Hc.
Qed.

Theorem check_sound g srcs sinks C : check g srcs sinks C = true ->
  forall s t, In s srcs -> In t sinks -> ~ path g s t.
Proof.
  unfold check. intros H s t Hs Ht P.
  apply andb_true_iff in H. destruct H as [H H3]. apply andb_true_iff in H. destruct H as [H1 H2].
  rewrite forallb_forall in H1, H3.
  pose proof (closed_path g C H2 s t P (H1 s Hs)) as M. specialize (H3 t Ht). rewrite M in H3. discriminate.
Qed.

(* two configurations that differ only in masked fields look the same after GetSafeOptions *)
Definition agree_outside (masked : list string) (c c' : list (string * string)) : Prop :=
  Forall2 (fun x y => fst x = fst y /\ (mem_str (fst x) masked = false -> snd x = snd y)) c c'.

Theorem safe_options_noninterference masked c c' : agree_outside masked c c' -> safe_options masked c = safe_options masked c'.
Proof.
  induction 1 as [|[f v] [f' v'] c c' [Hf Hv] _ IH]; [reflexivity|].
  cbn [safe_options map fst snd] in *. subst f'. fold (safe_options masked c) (safe_options masked c'). rewrite IH.
  destruct (mem_str f masked) eqn:E; [reflexivity|]. rewrite (Hv eq_refl). reflexivity.
Qed.

(* a masked field shows "***" whatever it held *)
Theorem masked_value_hidden masked c f v : In (f, v) (safe_options masked c) -> mem_str f masked = true -> v = "***"%string.
Proof.
  unfold safe_options. rewrite in_map_iff. intros ([f0 v0] & Heq & _) Hm. cbn [fst] in Heq.
  destruct (mem_str f0 masked) eqn:E; injection Heq as <- <-; [reflexivity|]. rewrite Hm in E. discriminate.
Qed.
