(* Proofs/LzfSpec.v — what lzf_decompress means, independently of its state machine: an LZF
   stream is a sequence of tokens - a literal run of 1..32 bytes, or a back-reference (distance
   1..8192, length 3..264) that copies BYTE BY BYTE from the output written so far, so that a
   reference longer than its distance repeats the pattern it is in the middle of writing
   (runs, "abab..."). The machine decodes the encoding of every well-formed token sequence to
   exactly its expansion. *)
From RS Require Import Base.Bytes Model.Lzf.
From Coq Require Import Lia ZifyN ZifyNat ZifyBool.
Ltac Zify.zify_post_hook ::= Z.div_mod_to_equations.
Open Scope N_scope.

Inductive tok := TLit (bs : bytes) | TBack (dist len : N).

(* one copied byte: the byte [dist] positions back from the end of what has been written *)
Definition copy1 (dist : N) (out : bytes) : bytes := out ++ [nth (length out - N.to_nat dist) out x00].
Fixpoint copyn (n : nat) (dist : N) (out : bytes) : bytes :=
  match n with O => out | S k => copyn k dist (copy1 dist out) end.

Fixpoint expand (ts : list tok) (out : bytes) : bytes :=
  match ts with
  | [] => out
  | TLit bs :: r => expand r (out ++ bs)
  | TBack d l :: r => expand r (copyn (N.to_nat l) d out)
  end.

Definition lenN' (l : bytes) : N := N.of_nat (length l).

Definition enc_tok (t : tok) : bytes :=
  match t with
  | TLit bs => n2b (lenN' bs - 1) :: bs
  | TBack d l =>
      let off := d - 1 in let lf := l - 2 in
      if lf <? 7 then [n2b (lf * 32 + off / 256); n2b (off mod 256)]
      else [n2b (224 + off / 256); n2b (lf - 7); n2b (off mod 256)]
  end.

Definition wf_tok (out : bytes) (t : tok) : Prop :=
  match t with
  | TLit bs => 1 <= lenN' bs <= 32
  | TBack d l => 3 <= l <= 264 /\ 1 <= d <= 8192 /\ d <= lenN' out
  end.

Fixpoint wf_toks (ts : list tok) (out : bytes) : Prop :=
  match ts with
  | [] => True
  | t :: r => wf_tok out t /\ wf_toks r (match t with TLit bs => out ++ bs | TBack d l => copyn (N.to_nat l) d out end)
  end.

(* the machine between tokens, having written [out] *)
Definition at_ctrl (out : bytes) : lzf_st := {| lph := LCtrl; rout := rev out; olen := lenN' out; lfail := false |}.

Lemma lenN'_app a b : lenN' (a ++ b) = lenN' a + lenN' b.
Proof. unfold lenN'. rewrite app_length. lia. Qed.

Lemma push_ok outlen out b p ph :
  lenN' out < outlen ->
  lzf_push outlen {| lph := ph; rout := rev out; olen := lenN' out; lfail := false |} b p
  = {| lph := p; rout := rev (out ++ [b]); olen := lenN' (out ++ [b]); lfail := false |}.
Proof.
  intros H. unfold lzf_push. cbn [olen rout lfail]. replace (lenN' out <? outlen) with true by (symmetry; apply N.ltb_lt; exact H).
  rewrite rev_app_distr. cbn [rev app]. rewrite lenN'_app. reflexivity.
Qed.

Lemma lit_run outlen : forall bs out,
  bs <> [] -> lenN' out + lenN' bs <= outlen ->
  fold_left (lzf_step outlen) bs {| lph := LLit (lenN' bs); rout := rev out; olen := lenN' out; lfail := false |} = at_ctrl (out ++ bs).
Proof.
  induction bs as [|b bs IH]; intros out Hne Hlen; [contradiction|].
  cbn [fold_left]. unfold lzf_step at 2. cbn [lfail lph].
  assert (Hl : lenN' (b :: bs) = lenN' bs + 1) by (unfold lenN'; cbn [length]; lia).
  rewrite push_ok by (rewrite Hl in Hlen; lia).
  destruct bs as [|b' bs'].
  - replace (lenN' [b] =? 1) with true by reflexivity. reflexivity.
  - replace (lenN' (b :: b' :: bs') =? 1) with false by (symmetry; apply N.eqb_neq; unfold lenN'; cbn [length]; lia).
    replace (lenN' (b :: b' :: bs') - 1) with (lenN' (b' :: bs')) by (unfold lenN'; cbn [length]; lia).
    rewrite IH; [|discriminate|rewrite lenN'_app; rewrite Hl in Hlen; unfold lenN' in *; cbn [length] in *; lia].
    unfold at_ctrl. rewrite <- app_assoc. reflexivity.
Qed.

Lemma out_get_back outlen out d ph :
  1 <= d <= lenN' out ->
  out_get outlen {| lph := ph; rout := rev out; olen := lenN' out; lfail := false |} (lenN' out - d)
  = Some (nth (length out - N.to_nat d) out x00).
Proof.
  intros H. unfold out_get. cbn [olen rout].
  replace (lenN' out - d <? lenN' out) with true by (symmetry; apply N.ltb_lt; lia).
  f_equal. rewrite rev_nth by (unfold lenN' in *; lia). f_equal. unfold lenN' in *. lia.
Qed.

Lemma copy_run outlen : forall n out d,
  1 <= d <= lenN' out -> lenN' out + N.of_nat n <= outlen ->
  lzf_copy outlen n (lenN' out - d) (at_ctrl out) = at_ctrl (copyn n d out).
Proof.
  induction n as [|n IH]; intros out d Hd Hlen; [reflexivity|].
  cbn [lzf_copy copyn]. unfold at_ctrl. rewrite out_get_back by exact Hd.
  rewrite push_ok by lia. fold (copy1 d out). fold (at_ctrl (copy1 d out)). fold (at_ctrl (copyn n d (copy1 d out))).
  assert (Hl : lenN' (copy1 d out) = lenN' out + 1) by (unfold copy1; rewrite lenN'_app; reflexivity).
  replace (lenN' out - d + 1) with (lenN' (copy1 d out) - d) by lia.
  apply (IH (copy1 d out) d); lia.
Qed.

Lemma copy_run' outlen n out d ph :
  1 <= d <= lenN' out -> lenN' out + N.of_nat (S n) <= outlen ->
  lzf_copy outlen (S n) (lenN' out - d) {| lph := ph; rout := rev out; olen := lenN' out; lfail := false |} = at_ctrl (copyn (S n) d out).
Proof.
  intros Hd Hlen. cbn [lzf_copy copyn]. rewrite out_get_back by exact Hd.
  rewrite push_ok by lia. fold (copy1 d out). fold (at_ctrl (copy1 d out)).
  assert (Hl : lenN' (copy1 d out) = lenN' out + 1) by (unfold copy1; rewrite lenN'_app; reflexivity).
  replace (lenN' out - d + 1) with (lenN' (copy1 d out) - d) by lia.
  apply (copy_run outlen n (copy1 d out) d); lia.
Qed.

Lemma copyn_len : forall n d out, lenN' (copyn n d out) = lenN' out + N.of_nat n.
Proof.
  induction n as [|n IH]; intros d out; cbn [copyn]; [lia|]. rewrite IH. unfold copy1. rewrite lenN'_app. unfold lenN'. cbn [length]. lia.
Qed.

Lemma b2n_small v : v < 256 -> b2n (n2b v) = v.
Proof. intros H. rewrite b2n_n2b. apply N.mod_small. exact H. Qed.

Lemma tok_step outlen out t :
  wf_tok out t ->
  lenN' (match t with TLit bs => out ++ bs | TBack d l => copyn (N.to_nat l) d out end) <= outlen ->
  fold_left (lzf_step outlen) (enc_tok t) (at_ctrl out)
  = at_ctrl (match t with TLit bs => out ++ bs | TBack d l => copyn (N.to_nat l) d out end).
Proof.
  intros W Hlen. destruct t as [bs|d l]; cbn [wf_tok enc_tok] in *.
  - cbn [fold_left]. unfold lzf_step at 2. cbn [at_ctrl lfail lph].
    rewrite b2n_small by lia. replace (lenN' bs - 1 <? 32) with true by (symmetry; apply N.ltb_lt; lia).
    replace (lenN' bs - 1 + 1) with (lenN' bs) by lia.
    apply lit_run; [intros ->; unfold lenN' in W; cbn in W; lia | rewrite lenN'_app in Hlen; exact Hlen].
  - destruct W as (Wl & Wd & Wo). rewrite copyn_len in Hlen. rewrite N2Nat.id in Hlen.
    set (off := d - 1). set (lf := l - 2).
    assert (Hoff : off < 8192) by (unfold off; lia).
    destruct (lf <? 7) eqn:Hlf.
    + apply N.ltb_lt in Hlf.
      cbn [fold_left]. unfold lzf_step at 2. cbn [at_ctrl lfail lph].
      assert (Hv : lf * 32 + off / 256 < 256) by lia.
      rewrite (b2n_small _ Hv).
      replace (lf * 32 + off / 256 <? 32) with false by (symmetry; apply N.ltb_ge; unfold lf; lia).
      replace ((lf * 32 + off / 256) / 32) with lf by lia.
      replace (lf =? 7) with false by (symmetry; apply N.eqb_neq; lia).
      unfold lzf_step. cbn [at_ctrl lfail lph olen rout].
      rewrite b2n_small by lia.
      replace ((lf * 32 + off / 256) mod 32 * 256 + off mod 256 + 1) with d by (unfold off; lia).
      replace (lenN' out <? d) with false by (symmetry; apply N.ltb_ge; lia).
      replace (lf + 2) with l by (unfold lf; lia).
      destruct (N.to_nat l) as [|n] eqn:En; [lia|].
      apply (copy_run' outlen n out d); lia.
    + apply N.ltb_ge in Hlf.
      cbn [fold_left]. unfold lzf_step at 3. cbn [at_ctrl lfail lph].
      assert (Hv : 224 + off / 256 < 256) by lia.
      rewrite (b2n_small _ Hv).
      replace (224 + off / 256 <? 32) with false by (symmetry; apply N.ltb_ge; lia).
      replace ((224 + off / 256) / 32 =? 7) with true by (symmetry; apply N.eqb_eq; lia).
      unfold lzf_step at 2. cbn [at_ctrl lfail lph olen rout].
      rewrite b2n_small by (unfold lf; lia).
      unfold lzf_step. cbn [at_ctrl lfail lph olen rout].
      rewrite b2n_small by lia.
      replace ((224 + off / 256) mod 32 * 256 + off mod 256 + 1) with d by (unfold off; lia).
      replace (lenN' out <? d) with false by (symmetry; apply N.ltb_ge; lia).
      replace (7 + (lf - 7) + 2) with l by (unfold lf; lia).
      destruct (N.to_nat l) as [|n] eqn:En; [lia|].
      apply (copy_run' outlen n out d); lia.
Qed.

Lemma expand_len_mono : forall ts out, lenN' out <= lenN' (expand ts out).
Proof.
  induction ts as [|t ts IH]; intros out; cbn [expand]; [lia|].
  destruct t as [bs|d l].
  - specialize (IH (out ++ bs)). rewrite lenN'_app in IH. lia.
  - specialize (IH (copyn (N.to_nat l) d out)). rewrite copyn_len in IH. lia.
Qed.

Lemma toks_run outlen : forall ts out,
  wf_toks ts out -> lenN' (expand ts out) <= outlen ->
  fold_left (lzf_step outlen) (concat (map enc_tok ts)) (at_ctrl out) = at_ctrl (expand ts out).
Proof.
  induction ts as [|t ts IH]; intros out W Hlen; [reflexivity|].
  cbn [map concat]. rewrite fold_left_app. destruct W as [Wt Wr].
  rewrite (tok_step outlen out t Wt).
  - destruct t as [bs|d l]; cbn [expand] in *; apply IH; assumption.
  - destruct t as [bs|d l]; cbn [expand] in Hlen; (eapply N.le_trans; [apply expand_len_mono|exact Hlen]).
Qed.

(* the machine decodes the encoding of every well-formed token sequence to its expansion *)
Theorem lzf_decompress_spec ts :
  wf_toks ts [] -> lzf_decompress (concat (map enc_tok ts)) (lenN' (expand ts [])) = Some (expand ts []).
Proof.
  intros W. unfold lzf_decompress.
  change {| lph := LCtrl; rout := []; olen := 0; lfail := false |} with (at_ctrl []).
  rewrite (toks_run _ ts [] W (N.le_refl _)). cbn [at_ctrl lfail lph olen rout].
  rewrite N.eqb_refl. rewrite rev_involutive. reflexivity.
Qed.

(* a back-reference longer than its distance repeats the pattern: distance 1 after one literal
   byte is a run of that byte (what an overlapping copy must produce) *)
Lemma copy1_last c out : copy1 1 (out ++ [c]) = (out ++ [c]) ++ [c].
Proof.
  unfold copy1. f_equal. f_equal. rewrite app_length. cbn [length].
  replace (length out + 1 - N.to_nat 1)%nat with (length out) by lia.
  rewrite app_nth2 by lia. rewrite Nat.sub_diag. reflexivity.
Qed.

Lemma copyn_run c : forall n out, copyn n 1 (out ++ [c]) = out ++ [c] ++ repeat c n.
Proof.
  induction n as [|n IH]; intros out; cbn [copyn repeat]; [reflexivity|].
  rewrite copy1_last. rewrite (IH (out ++ [c])). rewrite <- !app_assoc. reflexivity.
Qed.

Theorem lzf_run_spec c n : 3 <= n <= 264 ->
  lzf_decompress (enc_tok (TLit [c]) ++ enc_tok (TBack 1 n)) (1 + n) = Some (repeat c (S (N.to_nat n))).
Proof.
  intros H.
  pose proof (lzf_decompress_spec [TLit [c]; TBack 1 n]) as Hs.
  assert (E : expand [TLit [c]; TBack 1 n] [] = repeat c (S (N.to_nat n))).
  { cbn [expand]. rewrite (copyn_run c (N.to_nat n) []). reflexivity. }
  rewrite E in Hs. cbn [map concat] in Hs. rewrite app_nil_r in Hs.
  replace (lenN' (repeat c (S (N.to_nat n)))) with (1 + n) in Hs by (unfold lenN'; rewrite repeat_length; lia).
  apply Hs. cbn [wf_toks wf_tok]. unfold lenN'. cbn [length app]. repeat split; lia.
Qed.
