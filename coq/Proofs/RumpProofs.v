(* Proofs/RumpProofs.v — rump writes exactly the scanned keys that pass the filters and still
   exist, each once per scan occurrence, with the source payload, the remaining ttl and the
   right database, for every pagination. *)
From RS Require Import Base.Bytes Base.Dec Model.RespCodec Model.Filter Model.Rump.
From Coq Require Import Lia.
Open Scope Z_scope.

Definition node_write (c : rcfg) (n : node) : option rwrite :=
  if n_pttl n =? -2 then None
  else Some {| rw_db := if r_tdb c =? -1 then n_db n else r_tdb c; rw_key := n_key n; rw_payload := n_value n;
               rw_ttl := if n_pttl n =? -1 then 0 else n_pttl n;
               rw_big := r_threshold c <=? lenZ (n_value n);
               rw_replace := r_rewrite c |}.

Lemma texec_app cur curbig a b :
  texec cur curbig (a ++ b) =
  texec cur curbig a ++ texec (fold_left (fun d x => match x with RSelect false d' => d' | _ => d end) a cur)
                              (fold_left (fun d x => match x with RSelect true d' => d' | _ => d end) a curbig) b.
Proof.
  revert cur curbig. induction a as [|x a IH]; intros cur curbig; [reflexivity|].
  destruct x as [[|] d|k p t rep|k p t del]; cbn [app texec fold_left]; rewrite IH; reflexivity.
Qed.

(* the SELECT bookkeeping: preDb / preBigKeyDb are the selected databases *)
Lemma writer_correct c ns : forall pre prebig, texec pre prebig (writer c (pre, prebig) ns) = omap (node_write c) ns.
Proof.
  induction ns as [|n ns IH]; intros pre prebig; [reflexivity|].
  cbn [writer omap]. unfold wnode. unfold node_write at 1.
  destruct (n_pttl n =? -2); [cbn [app]; apply IH|].
  destruct (r_threshold c <=? lenZ (n_value n)).
  - destruct ((if r_tdb c =? -1 then n_db n else r_tdb c) =? prebig) eqn:E.
    + apply Z.eqb_eq in E. cbn [app texec]. rewrite E. rewrite IH. reflexivity.
    + cbn [app texec]. rewrite IH. reflexivity.
  - destruct ((if r_tdb c =? -1 then n_db n else r_tdb c) =? pre) eqn:E.
    + apply Z.eqb_eq in E. cbn [app texec]. rewrite E. rewrite IH. reflexivity.
    + cbn [app texec]. rewrite IH. reflexivity.
Qed.

Lemma omap_app {A B} (f : A -> option B) a b : omap f (a ++ b) = omap f a ++ omap f b.
Proof. induction a as [|x a IH]; [reflexivity|]. cbn. destruct (f x); rewrite IH; reflexivity. Qed.
Lemma omap_concat {A B} (f : A -> option B) ls : omap f (concat ls) = concat (map (omap f) ls).
Proof. induction ls as [|l ls IH]; [reflexivity|]. cbn. rewrite omap_app, IH. reflexivity. Qed.

Lemma fetch_page_spec c db p : omap (node_write c) (fetch_page c db p) = omap (copied_key c db) p.
Proof.
  induction p as [|k p IH]; [reflexivity|].
  unfold fetch_page in *. cbn [filter omap]. unfold copied_key at 1.
  destruct (key_filter_configured (r_f c) && filter_key (r_f c) (sk_key k)); cbn [negb map omap]; [exact IH|].
  unfold node_write at 1. cbn [n_pttl n_value n_db n_key].
  destruct (sk_pttl k =? -2); [exact IH|]. rewrite IH. reflexivity.
Qed.

Lemma fetch_db_spec c d : omap (node_write c) (fetch_db c d) = spec_db c d.
Proof.
  unfold fetch_db, spec_db. destruct (filter_db (r_f c) (sd_db d)); [reflexivity|].
  rewrite !omap_concat, map_map. f_equal. apply map_ext. intros p. apply fetch_page_spec.
Qed.

Theorem rump_spec c src : rump c src = spec_rump c src.
Proof.
  unfold rump, spec_rump, fetch. rewrite writer_correct, omap_concat, map_map. f_equal.
  apply map_ext. intros d. apply fetch_db_spec.
Qed.

(* pagination does not matter: only the sequence of keys the cursor walk returns *)
Theorem pagination_irrelevant c db pages pages' : concat pages = concat pages' ->
  rump c [{| sd_db := db; sd_pages := pages |}] = rump c [{| sd_db := db; sd_pages := pages' |}].
Proof.
  intros H. rewrite !rump_spec. unfold spec_rump, spec_db. cbn [map sd_db sd_pages concat]. rewrite H. reflexivity.
Qed.

(* vanished / expired keys are skipped, nothing else is *)
Theorem vanished_skipped c db k : sk_pttl k = -2 -> copied_key c db k = None.
Proof. intros H. unfold copied_key. rewrite H. destruct (key_filter_configured (r_f c) && filter_key (r_f c) (sk_key k)); reflexivity. Qed.

Theorem live_key_copied c db k : sk_pttl k <> -2 -> key_filter_configured (r_f c) && filter_key (r_f c) (sk_key k) = false ->
  exists w, copied_key c db k = Some w /\ rw_key w = sk_key k /\
            rw_payload w = match sk_dump k with Some d => d | None => [] end /\
            rw_ttl w = (if sk_pttl k =? -1 then 0 else sk_pttl k) /\
            rw_db w = (if r_tdb c =? -1 then db else r_tdb c).
Proof.
  intros Hp Hf. unfold copied_key. rewrite Hf. apply Z.eqb_neq in Hp. rewrite Hp.
  eexists. split; [reflexivity|]. cbn. auto.
Qed.

(* ---- big keys: RestoreBigkey = the element route of C02 on a record without expiry, then PEXPIRE ---- *)
From RS Require Import Base.Endian Model.Digest Model.Rdb Model.Cupcake Model.Restore Proofs.RestoreProofs.
Open Scope N_scope.

Definition big_entry (key payload : bytes) : entry :=
  {| e_db := 0; e_key := key; e_type := 0; e_value := payload; e_expire := 0; e_real_count := 0; e_need_len := 1; e_idle := 0; e_freq := 0 |}.
Definition big_apply (pf : bytes -> option N) (key payload : bytes) (ttl : N) (del : bool) (s : slot) : slot * routcome :=
  match elements pf (big_entry key payload) 0 (if del then None else s) with
  | (s', Done) => ((if 0 <? ttl then set_ttl s' ttl else s'), Done)
  | x => x
  end.

Lemma elems_of_big pf key payload e v : whole pf e v -> e_value e = payload -> elems_of pf (big_entry key payload) = Some v.
Proof.
  intros Hw <-. pose proof (elems_of_whole pf e v Hw) as H.
  unfold elems_of in *. cbn [big_entry e_value e_need_len e_real_count].
  rewrite (w_real _ _ _ Hw), (w_need _ _ _ Hw) in H. exact H.
Qed.

(* on a free target key the element-by-element expansion leaves the source value and ttl *)
Theorem big_key_faithful pf key e v ttl del s : whole pf e v -> (s = None \/ del = true) ->
  big_apply pf key (e_value e) ttl del s = (Some {| k_val := TLog (norm v); k_ttl := ttl |}, Done).
Proof.
  intros Hw Hs. unfold big_apply.
  assert (Hn : forall A (f : slot -> A), f (if del then None else s) = f None)
    by (intros A f; destruct Hs as [-> | ->]; [destruct del|]; reflexivity).
  rewrite (Hn _ (fun x => match elements pf (big_entry key (e_value e)) 0 x with (s', Done) => ((if 0 <? ttl then set_ttl s' ttl else s'), Done) | y => y end)).
  unfold elements. rewrite (elems_of_big pf key (e_value e) e v Hw eq_refl). cbv beta iota.
  rewrite (push_norm v (w_ne _ _ _ Hw)). cbn [with_val big_entry e_expire]. change (0 =? 0) with true. cbv iota.
  destruct (0 <? ttl) eqn:E; cbn [set_ttl k_val]; [reflexivity|].
  apply N.ltb_ge in E. assert (ttl = 0) by lia. subst. reflexivity.
Qed.

(* F18: with a busy target key and key_exists = none the big-key expansion merges (the pinned
   code merged under rewrite too: repaired) *)
Theorem big_key_merge_refuted :
  fst (big_apply nofloat [x6b] (create_value_dump x01 [x01; x01; x61]) 0 false (Some {| k_val := TLog (LList [[x6f]]); k_ttl := 0 |}))
    = Some {| k_val := TLog (LList [[x6f]; [x61]]); k_ttl := 0 |}.
Proof. vm_compute. reflexivity. Qed.
