(* Proofs/SplitProofs.v — hashes above the chunk limit: the parser delivers exactly the chunk
   records of the specification (Spec.key_records), so C01's exactness holds without the
   "unsplit" hypothesis. *)
From RS Require Proofs.Crc64Proofs Proofs.DigestProofs.
From RS Require Import Base.Bytes Base.Endian Base.Dec Spec.Crc64 Model.Digest Model.Lzf Model.Rdb
  Spec.RdbFormat Spec.RdbRecords Gen.Crc64 Proofs.RdbProofs.
From Coq Require Import Lia.
Open Scope N_scope.

Definition wf_pairs (ps : list (rstring * rstring)) : Prop := Forall (fun p => wf_string (fst p) /\ wf_string (snd p)) ps.

Lemma read_pair_exact x y rest : wf_string x -> wf_string y ->
  (_ <- read_string ;; read_string) (enc_pair (x, y) ++ rest) = Some (logical_string y, rest).
Proof.
  intros W1 W2. unfold enc_pair. cbn [fst snd]. rewrite <- app_assoc. unfold bind.
  rewrite (exact_read_string x W1). rewrite (exact_read_string y W2). reflexivity.
Qed.

(* greedy chunking at the level of pairs (Spec.take_chunk works on their encodings) *)
Fixpoint take_pairs (limit cap : N) (ps : list (rstring * rstring)) (acc : list (rstring * rstring)) : list (rstring * rstring) * list (rstring * rstring) :=
  match ps with
  | [] => (rev acc, [])
  | p :: rest =>
      let cap' := cap + lenB (enc_pair p) in
      match rest with
      | [] => (rev (p :: acc), [])
      | _ => if limit <? cap' then (rev (p :: acc), rest) else take_pairs limit cap' rest (p :: acc)
      end
  end.

Lemma take_pairs_cons2 limit cap p q r acc :
  take_pairs limit cap (p :: q :: r) acc =
  if limit <? cap + lenB (enc_pair p) then (rev (p :: acc), q :: r) else take_pairs limit (cap + lenB (enc_pair p)) (q :: r) (p :: acc).
Proof. reflexivity. Qed.

(* one run of the hash loop = one greedy chunk of the specification *)
Lemma hash_loop_chunk limit : forall (ps : list (rstring * rstring)) fuel n i cap acc accp r,
  wf_pairs ps -> ps <> [] -> n = i + N.of_nat (length ps) -> (length ps < fuel)%nat ->
  exists c1 c2, ps = c1 ++ c2 /\ c1 <> [] /\
    take_pairs limit cap ps accp = (rev accp ++ c1, c2) /\
    take_chunk limit cap (map enc_pair ps) acc = (rev acc ++ map enc_pair c1, map enc_pair c2) /\
    hash_loop fuel limit n i cap (concat (map enc_pair ps) ++ r)
      = Some ((i + N.of_nat (length c1), n - i - N.of_nat (length c1)), concat (map enc_pair c2) ++ r).
Proof.
  induction ps as [|[x y] ps IH]; intros fuel n i cap acc accp r W Hne Hn Hf; [contradiction|].
  inversion W as [|? ? [W1 W2] W']; subst. cbn [fst snd] in W1, W2.
  destruct fuel as [|fuel]; [cbn in Hf; lia|].
  cbn [map concat]. rewrite <- app_assoc.
  cbn [hash_loop].
  replace (i =? i + N.of_nat (length ((x, y) :: ps))) with false by (symmetry; apply N.eqb_neq; cbn [length]; lia).
  rewrite (read_pair_exact x y _ W1 W2).
  set (rest := concat (map enc_pair ps) ++ r).
  assert (L : lenN (enc_pair (x, y) ++ rest) - lenN rest = lenB (enc_pair (x, y))).
  { unfold lenN, lenB. rewrite !app_length. lia. }
  rewrite L.
  destruct ps as [|q ps'].
  - (* the last pair: the chunk always closes here *)
    exists [(x, y)], []. split; [reflexivity|]. split; [discriminate|]. split; [cbn [take_pairs rev]; reflexivity|]. split.
    + cbn [take_chunk map]. cbn [rev]. reflexivity.
    + replace (i =? i + N.of_nat (length [(x, y)]) - 1) with true by (symmetry; apply N.eqb_eq; cbn [length]; lia).
      cbn [negb]. rewrite Bool.andb_false_r.
      destruct fuel as [|fuel]; [cbn in Hf; lia|]. cbn [hash_loop length].
      replace (i + 1 =? i + N.of_nat 1) with true by (symmetry; apply N.eqb_eq; lia).
      unfold ret, rest. cbn [map concat app length]. replace (i + N.of_nat 1 - i - N.of_nat 1) with 0 by lia. replace (N.of_nat 1) with 1 by reflexivity. reflexivity.
  - set (ps := q :: ps') in *.
    replace (i =? i + N.of_nat (length ((x, y) :: ps)) - 1) with false
      by (symmetry; apply N.eqb_neq; unfold ps; cbn [length]; lia).
    cbn [negb]. rewrite Bool.andb_true_r.
    cbn [take_chunk]. fold (map enc_pair ps). unfold ps at 1. cbn [map]. fold ps.
    change (enc_pair q :: map enc_pair ps') with (map enc_pair ps).
    destruct (limit <? cap + lenB (enc_pair (x, y))) eqn:E.
    + exists [(x, y)], ps. split; [reflexivity|]. split; [discriminate|].
      split; [unfold ps; rewrite take_pairs_cons2, E; cbn [rev]; reflexivity|]. split.
      * cbn [rev map]. reflexivity.
      * unfold rest. cbn [length]. replace (i + N.of_nat 1) with (i + 1) by lia. replace (i + N.of_nat (S (length ps)) - i - 1) with (i + N.of_nat (S (length ps)) - i - N.of_nat 1) by lia. replace (N.of_nat 1) with 1 by reflexivity. reflexivity.
    + destruct (IH fuel (i + N.of_nat (length ((x, y) :: ps))) (i + 1) (cap + lenB (enc_pair (x, y))) (enc_pair (x, y) :: acc) ((x, y) :: accp) r W')
        as (c1 & c2 & Hs & Hc1 & Htp & Ht & Hh).
      * unfold ps. discriminate.
      * cbn [length]. lia.
      * cbn [length] in Hf. lia.
      * exists ((x, y) :: c1), c2. split; [cbn [app]; rewrite <- Hs; reflexivity|]. split; [discriminate|].
        split; [unfold ps in *; rewrite take_pairs_cons2, E, Htp; cbn [rev]; rewrite <- app_assoc; reflexivity|]. split.
        -- rewrite Ht. cbn [rev map]. rewrite <- app_assoc. reflexivity.
        -- unfold rest. rewrite Hh. cbn [length]. f_equal. f_equal. f_equal; lia.
Qed.

Lemma capture_at {A} (p : P A) e a r : p (e ++ r) = Some (a, r) -> capture p (e ++ r) = Some ((a, e), r).
Proof.
  intros H. unfold capture. rewrite H. rewrite app_length.
  replace (length e + length r - length r)%nat with (length e) by lia.
  rewrite firstn_app, firstn_all, Nat.sub_diag, firstn_O, app_nil_r. reflexivity.
Qed.

Lemma pairs_nonempty_bytes (ps : list (rstring * rstring)) : (length ps <= length (concat (map enc_pair ps)))%nat.
Proof.
  assert (G : (length (map enc_pair ps) <= length (concat (map enc_pair ps)))%nat).
  { apply concat_length_ge. apply Forall_forall. intros e He. apply in_map_iff in He. destruct He as [pp [<- _]].
    unfold enc_pair. apply app_cons_nonempty, enc_string_nonempty. }
  rewrite map_length in G. exact G.
Qed.

(* a continuation call of NextBinEntry: the next greedy chunk of the remaining pairs *)
Lemma ne_cont fuel limit st pd (e0 : entry) (ps : list (rstring * rstring)) n lr rest :
  l_rs st = {| remain := N.of_nat (length ps); last_read := lr; tot := n |} -> l_last st = Some e0 -> e_type e0 = 4 ->
  ps <> [] -> wf_pairs ps -> N.of_nat (length ps) < n ->
  exists c1 c2, ps = c1 ++ c2 /\ c1 <> [] /\ take_pairs limit 0 ps [] = (c1, c2) /\
    take_chunk limit 0 (map enc_pair ps) [] = (map enc_pair c1, map enc_pair c2) /\
    next_entry (S fuel) limit st pd (concat (map enc_pair ps) ++ rest) =
      (let e := {| e_db := l_db st; e_key := e_key e0; e_type := 4; e_value := create_value_dump (n2b 4) (concat (map enc_pair c1));
                   e_expire := e_expire e0; e_real_count := N.of_nat (length c1); e_need_len := 0; e_idle := e_idle e0; e_freq := e_freq e0 |} in
       Some ((Some e, {| l_db := l_db st; l_rs := {| remain := N.of_nat (length c2); last_read := N.of_nat (length c1); tot := n |}; l_last := Some e |}),
             concat (map enc_pair c2) ++ rest)).
Proof.
  intros Hrs Hl Ht Hne W Hlt.
  set (s := concat (map enc_pair ps) ++ rest).
  destruct (hash_loop_chunk limit ps (S (length s)) (N.of_nat (length ps)) 0 0 [] [] rest W Hne) as (c1 & c2 & Hs & Hc1 & Htp & Htc & Hh).
  { lia. }
  { unfold s. rewrite app_length. pose proof (pairs_nonempty_bytes ps). lia. }
  exists c1, c2. split; [exact Hs|]. split; [exact Hc1|]. split; [exact Htp|]. split; [exact Htc|].
  assert (Hlen : N.of_nat (length ps) = N.of_nat (length c1) + N.of_nat (length c2)) by (rewrite Hs, app_length; lia).
  cbn [next_entry]. rewrite Hrs. cbn [remain].
  replace (N.of_nat (length ps) =? 0) with false by (symmetry; apply N.eqb_neq; destruct ps; [contradiction|cbn [length]; lia]).
  cbn [negb]. cbv iota. rewrite Hl, Ht.
  unfold bind at 1. unfold ret at 1.
  change (4 =? 250) with false. change (4 =? 251) with false. change (4 =? 252) with false. change (4 =? 253) with false.
  change (4 =? 254) with false. change (4 =? 255) with false. change (4 =? 247) with false. change (4 =? 248) with false.
  change (4 =? 249) with false. cbv iota.
  unfold bind at 1. unfold ret at 1.
  (* the value *)
  assert (Hsv : skip_value limit 4 {| remain := N.of_nat (length ps); last_read := lr; tot := n |} s
                = Some ({| remain := N.of_nat (length c2); last_read := N.of_nat (length c1); tot := n |}, concat (map enc_pair c2) ++ rest)).
  { unfold skip_value. change (str_type 4) with false. change (seq_type 4) with false. change (4 =? 3) with false. change (4 =? 5) with false.
    change (4 =? 4) with true. cbv iota. cbn [remain tot].
    replace (N.of_nat (length ps) =? 0) with false by (symmetry; apply N.eqb_neq; destruct ps; [contradiction|cbn [length]; lia]).
    unfold ret. rewrite N.sub_diag. fold s in Hh. rewrite Hh. f_equal. f_equal. f_equal; lia. }
  assert (Hro : read_object limit 4 {| remain := N.of_nat (length ps); last_read := lr; tot := n |} s
                = Some ((create_value_dump (n2b 4) (concat (map enc_pair c1)), {| remain := N.of_nat (length c2); last_read := N.of_nat (length c1); tot := n |}),
                        concat (map enc_pair c2) ++ rest)).
  { unfold read_object, bind.
    assert (Hsplit : s = concat (map enc_pair c1) ++ (concat (map enc_pair c2) ++ rest)).
    { unfold s. rewrite Hs, map_app, concat_app, <- app_assoc. reflexivity. }
    rewrite Hsplit. rewrite (capture_at _ _ _ _ (eq_trans (f_equal _ (eq_sym Hsplit)) Hsv)). reflexivity. }
  fold s. unfold bind at 1. rewrite Hro. unfold ret. cbn [last_read tot].
  replace (N.of_nat (length c1) =? n) with false by (symmetry; apply N.eqb_neq; lia).
  reflexivity.
Qed.

(* the first call for a hash with at least one pair: header + first greedy chunk *)
Lemma ne_key_hash fuel limit st pd rest k f (ps : list (rstring * rstring)) :
  remain (l_rs st) = 0 -> wf_string k -> fits f (N.of_nat (length ps)) -> f <> L64 -> wf_pairs ps -> ps <> [] ->
  exists c1 c2, ps = c1 ++ c2 /\ c1 <> [] /\ take_pairs limit (lenB (enc_len f (N.of_nat (length ps)))) ps [] = (c1, c2) /\
    take_chunk limit (lenB (enc_len f (N.of_nat (length ps)))) (map enc_pair ps) [] = (map enc_pair c1, map enc_pair c2) /\
    next_entry (S fuel) limit st pd (enc_unit (UKey k (VHash f ps)) ++ rest) =
      (let e := mk (meta_of (l_db st) pd) (logical_string k) 4
                   (create_value_dump (n2b 4) (enc_len f (N.of_nat (length ps)) ++ concat (map enc_pair c1)))
                   (match c2 with [] => 0 | _ => N.of_nat (length c1) end) 1 in
       Some ((Some e, {| l_db := l_db st;
                         l_rs := {| remain := N.of_nat (length c2); last_read := N.of_nat (length c1); tot := N.of_nat (length ps) |};
                         l_last := Some e |}),
             concat (map enc_pair c2) ++ rest)).
Proof.
  intros R Wk Wf Wn W Hne.
  set (n := N.of_nat (length ps)) in *. set (hdr := enc_len f n).
  set (s1 := concat (map enc_pair ps) ++ rest).
  destruct (hash_loop_chunk limit ps (S (length s1)) n 0 (lenB hdr) [] [] rest W Hne) as (c1 & c2 & Hs & Hc1 & Htp & Htc & Hh).
  { unfold n. lia. }
  { unfold s1. rewrite app_length. pose proof (pairs_nonempty_bytes ps). lia. }
  exists c1, c2. split; [exact Hs|]. split; [exact Hc1|]. split; [exact Htp|]. split; [exact Htc|].
  assert (Hlen : n = N.of_nat (length c1) + N.of_nat (length c2)) by (unfold n; rewrite Hs, app_length; lia).
  cbn [next_entry enc_unit vtype enc_value app]. rewrite R. cbn [N.eqb negb]. cbv iota.
  unfold bind at 1. unfold bind at 1. cbn [byte1]. unfold ret at 1. change (b2n (n2b 4)) with 4.
  change (4 =? 250) with false. change (4 =? 251) with false. change (4 =? 252) with false. change (4 =? 253) with false.
  change (4 =? 254) with false. change (4 =? 255) with false. change (4 =? 247) with false. change (4 =? 248) with false.
  change (4 =? 249) with false. cbv iota.
  unfold bind at 1. unfold bind at 1. rewrite <- app_assoc. rewrite (exact_read_string k Wk). unfold ret at 1.
  fold n. fold hdr. rewrite <- app_assoc. fold s1.
  assert (Hsv : skip_value limit 4 (l_rs st) (hdr ++ s1)
                = Some ({| remain := N.of_nat (length c2); last_read := N.of_nat (length c1); tot := n |}, concat (map enc_pair c2) ++ rest)).
  { unfold skip_value. change (str_type 4) with false. change (seq_type 4) with false. change (4 =? 3) with false. change (4 =? 5) with false.
    change (4 =? 4) with true. cbv iota. rewrite R. change (0 =? 0) with true. cbv iota.
    unfold bind at 1. unfold hdr. rewrite (exact_read_length f n Wf). rewrite model_value_id by exact Wn. unfold ret.
    replace (lenN (enc_len f n ++ s1) - lenN s1) with (lenB (enc_len f n)) by (unfold lenN, lenB; rewrite app_length; lia).
    fold hdr. fold s1 in Hh. rewrite Hh. f_equal. f_equal. f_equal; lia. }
  assert (Hro : read_object limit 4 (l_rs st) (hdr ++ s1)
                = Some ((create_value_dump (n2b 4) (hdr ++ concat (map enc_pair c1)),
                         {| remain := N.of_nat (length c2); last_read := N.of_nat (length c1); tot := n |}),
                        concat (map enc_pair c2) ++ rest)).
  { unfold read_object, bind.
    assert (Hsplit : hdr ++ s1 = (hdr ++ concat (map enc_pair c1)) ++ (concat (map enc_pair c2) ++ rest)).
    { unfold s1. rewrite Hs, map_app, concat_app, <- !app_assoc. reflexivity. }
    rewrite Hsplit. rewrite (capture_at _ _ _ _ (eq_trans (f_equal _ (eq_sym Hsplit)) Hsv)). reflexivity. }
  unfold bind at 1. rewrite Hro. unfold ret. cbn [last_read tot].
  unfold mk, meta_of. cbn [m_db m_exp m_idle m_freq].
  destruct c2 as [|q c2'].
  - replace (N.of_nat (length c1) =? n) with true by (symmetry; apply N.eqb_eq; cbn [length] in Hlen; lia). reflexivity.
  - replace (N.of_nat (length c1) =? n) with false by (symmetry; apply N.eqb_neq; cbn [length] in Hlen; lia). reflexivity.
Qed.

(* ---------- the specification's chunks, at the level of pairs ---------- *)
Notation rpair := (rstring * rstring)%type (only parsing).
Fixpoint pchunks (fuel : nat) (limit cap0 : N) (ps : list rpair) : list (list rpair) :=
  match fuel with
  | O => []
  | S f => match ps with
           | [] => []
           | _ => let '(c, rest) := take_pairs limit cap0 ps [] in c :: pchunks f limit 0 rest
           end
  end.

Lemma take_chunk_map limit : forall (ps : list rpair) cap acc,
  take_chunk limit cap (map enc_pair ps) (map enc_pair acc)
  = (map enc_pair (fst (take_pairs limit cap ps acc)), map enc_pair (snd (take_pairs limit cap ps acc))).
Proof.
  induction ps as [|p ps IH]; intros cap acc.
  - cbn [map take_chunk take_pairs fst snd]. rewrite map_rev. reflexivity.
  - destruct ps as [|q ps'].
    + cbn [map take_chunk take_pairs fst snd]. change (enc_pair p :: map enc_pair acc) with (map enc_pair (p :: acc)). rewrite map_rev. reflexivity.
    + rewrite take_pairs_cons2. cbn [map take_chunk]. change (enc_pair q :: map enc_pair ps') with (map enc_pair (q :: ps')).
      destruct (limit <? cap + lenB (enc_pair p)).
      * cbn [fst snd]. change (enc_pair p :: map enc_pair acc) with (map enc_pair (p :: acc)). rewrite map_rev. reflexivity.
      * change (enc_pair p :: map enc_pair acc) with (map enc_pair (p :: acc)). apply IH.
Qed.

Lemma chunks_pchunks limit : forall fuel cap (ps : list rpair),
  chunks fuel limit cap (map enc_pair ps) = map (map enc_pair) (pchunks fuel limit cap ps).
Proof.
  induction fuel as [|f IH]; intros cap ps; [reflexivity|].
  destruct ps as [|p ps]; [reflexivity|].
  cbn [chunks pchunks]. change (enc_pair p :: map enc_pair ps) with (map enc_pair (p :: ps)).
  pose proof (take_chunk_map limit (p :: ps) cap []) as H. change (map enc_pair []) with (@nil bytes) in H. rewrite H.
  destruct (take_pairs limit cap (p :: ps) []) as [c rest]. cbn [fst snd map]. rewrite IH. reflexivity.
Qed.

Lemma take_pairs_split limit : forall (ps : list rpair) cap acc, ps <> [] ->
  exists c1 c2, take_pairs limit cap ps acc = (rev acc ++ c1, c2) /\ ps = c1 ++ c2 /\ c1 <> [].
Proof.
  induction ps as [|p ps IH]; intros cap acc Hne; [contradiction|].
  destruct ps as [|q ps'].
  - exists [p], []. cbn [take_pairs rev]. repeat split. discriminate.
  - rewrite take_pairs_cons2. destruct (limit <? cap + lenB (enc_pair p)).
    + exists [p], (q :: ps'). cbn [rev]. repeat split. discriminate.
    + destruct (IH (cap + lenB (enc_pair p)) (p :: acc)) as (c1 & c2 & H1 & H2 & H3); [discriminate|].
      exists (p :: c1), c2. split; [etransitivity; [exact H1|]; cbn [rev]; rewrite <- app_assoc; reflexivity|]. split; [rewrite H2; reflexivity | discriminate].
Qed.

Lemma pchunks_fuel limit : forall f1 f2 cap (ps : list rpair), (length ps <= f1)%nat -> (length ps <= f2)%nat ->
  pchunks f1 limit cap ps = pchunks f2 limit cap ps.
Proof.
  induction f1 as [|f1 IH]; intros f2 cap ps H1 H2.
  - destruct ps; [|cbn in H1; lia]. destruct f2; reflexivity.
  - destruct ps as [|p ps]; [destruct f2; reflexivity|].
    destruct f2 as [|f2]; [cbn in H2; lia|].
    cbn [pchunks]. destruct (take_pairs_split limit (p :: ps) cap []) as (c1 & c2 & Ht & Hs & Hc); [discriminate|].
    rewrite Ht. cbn [rev app].
    assert (L : (length c2 < length (p :: ps))%nat).
    { pose proof (f_equal (@length _) Hs) as E. rewrite app_length in E. destruct c1; [contradiction|]. cbn [length] in *. lia. }
    rewrite (IH f2 0 c2); [reflexivity | cbn [length] in *; lia | cbn [length] in *; lia].
Qed.

(* the continuation records of a split hash *)
Definition chunk_rec (db : N) (key : bytes) (ex idl frq : N) (c : list rpair) : entry :=
  {| e_db := db; e_key := key; e_type := 4; e_value := create_value_dump (n2b 4) (concat (map enc_pair c));
     e_expire := ex; e_real_count := N.of_nat (length c); e_need_len := 0; e_idle := idl; e_freq := frq |}.

Lemma key_records_hash limit m k f (p : rpair) (ps' : list rpair) :
  let ps := p :: ps' in
  let hdr := enc_len f (N.of_nat (length ps)) in
  let '(c1, c2) := take_pairs limit (lenB hdr) ps [] in
  key_records limit m k (VHash f ps) =
    mk m (logical_string k) 4 (create_value_dump (n2b 4) (hdr ++ concat (map enc_pair c1))) (match c2 with [] => 0 | _ => N.of_nat (length c1) end) 1
    :: map (chunk_rec (m_db m) (logical_string k) (m_exp m) (m_idle m) (m_freq m)) (pchunks (length c2) limit 0 c2).
Proof.
  intros ps hdr.
  destruct (take_pairs_split limit ps (lenB hdr) []) as (c1 & c2 & Ht & Hs & Hc); [discriminate|].
  rewrite Ht. cbn [rev app].
  assert (L : (length c2 <= length ps)%nat) by (pose proof (f_equal (@length _) Hs) as E; rewrite app_length in E; lia).
  unfold key_records. fold hdr. rewrite chunks_pchunks, map_length.
  assert (Hp : pchunks (S (length ps)) limit (lenB hdr) ps = c1 :: pchunks (length c2) limit 0 c2).
  { unfold ps in *. cbn [pchunks]. rewrite Ht. cbn [rev app]. f_equal. apply pchunks_fuel; [exact L | apply le_n]. }
  rewrite Hp. cbn [map].
  destruct c2 as [|q c2'].
  - cbn [pchunks length map]. reflexivity.
  - cbn [length pchunks].
    destruct (take_pairs limit 0 (q :: c2') []) as [d rest]. cbn [map].
    rewrite !map_length.
    apply f_equal2; [reflexivity|]. apply f_equal2.
    + unfold chunk_rec, mk. rewrite ?map_length. reflexivity.
    + rewrite map_map. apply map_ext. intros c. unfold chunk_rec, mk. rewrite map_length. reflexivity.
Qed.

(* an empty hash: header only, whatever the limit *)
Lemma ne_key_hash_empty fuel limit st pd rest k f :
  remain (l_rs st) = 0 -> wf_string k -> fits f 0 -> f <> L64 ->
  next_entry (S fuel) limit st pd (enc_unit (UKey k (VHash f [])) ++ rest) =
    (let e := mk (meta_of (l_db st) pd) (logical_string k) 4 (create_value_dump (n2b 4) (enc_len f 0)) 0 1 in
     Some ((Some e, {| l_db := l_db st; l_rs := {| remain := 0; last_read := 0; tot := 0 |}; l_last := Some e |}), rest)).
Proof.
  intros R Wk Wf Wn.
  cbn [next_entry enc_unit vtype enc_value app length map concat]. rewrite R. cbn [N.eqb negb]. cbv iota.
  unfold bind at 1. unfold bind at 1. cbn [byte1]. unfold ret at 1. change (b2n (n2b 4)) with 4.
  change (4 =? 250) with false. change (4 =? 251) with false. change (4 =? 252) with false. change (4 =? 253) with false.
  change (4 =? 254) with false. change (4 =? 255) with false. change (4 =? 247) with false. change (4 =? 248) with false.
  change (4 =? 249) with false. cbv iota.
  unfold bind at 1. unfold bind at 1. rewrite <- app_assoc. rewrite (exact_read_string k Wk). unfold ret at 1.
  change (N.of_nat 0) with 0. rewrite app_nil_r.
  assert (Hsv : skip_value limit 4 (l_rs st) (enc_len f 0 ++ rest) = Some ({| remain := 0; last_read := 0; tot := 0 |}, rest)).
  { unfold skip_value. change (str_type 4) with false. change (seq_type 4) with false. change (4 =? 3) with false. change (4 =? 5) with false.
    change (4 =? 4) with true. cbv iota. rewrite R. change (0 =? 0) with true. cbv iota.
    unfold bind at 1. rewrite (exact_read_length f 0 Wf). rewrite model_value_id by exact Wn. unfold ret.
    cbn [hash_loop]. change (0 =? 0) with true. cbv iota. unfold ret. reflexivity. }
  unfold bind at 1. unfold read_object, bind. rewrite (capture_at _ _ _ _ Hsv). unfold ret. cbn [last_read tot].
  change (0 =? 0) with true. reflexivity.
Qed.

(* ---------- first record of a unit list, with the pairs still pending after it ---------- *)
Fixpoint first_rec2 (limit : N) (m : meta) (us : list unit_) : option (entry * N * list rpair * list unit_) :=
  match us with
  | [] => None
  | u :: r =>
      match u with
      | UExpMs ms => first_rec2 limit {| m_db := m_db m; m_exp := ms; m_idle := m_idle m; m_freq := m_freq m |} r
      | UExpS s => first_rec2 limit {| m_db := m_db m; m_exp := s * 1000; m_idle := m_idle m; m_freq := m_freq m |} r
      | UIdle _ n => first_rec2 limit {| m_db := m_db m; m_exp := m_exp m; m_idle := n; m_freq := m_freq m |} r
      | UFreq n => first_rec2 limit {| m_db := m_db m; m_exp := m_exp m; m_idle := m_idle m; m_freq := n |} r
      | USelect _ n => first_rec2 limit {| m_db := n; m_exp := m_exp m; m_idle := m_idle m; m_freq := m_freq m |} r
      | UResize _ _ _ _ | UAux _ _ | UModuleAux _ _ _ _ => first_rec2 limit m r
      | ULua _ v => Some (mk m lua_name 250 (logical_string v) 0 0, m_db m, [], r)
      | UKey k (VHash f (p :: ps')) =>
          let hdr := enc_len f (N.of_nat (length (p :: ps'))) in
          let '(c1, c2) := take_pairs limit (lenB hdr) (p :: ps') [] in
          Some (mk m (logical_string k) 4 (create_value_dump (n2b 4) (hdr ++ concat (map enc_pair c1)))
                   (match c2 with [] => 0 | _ => N.of_nat (length c1) end) 1, m_db m, c2, r)
      | UKey k v => Some (mk m (logical_string k) (vtype v) (create_value_dump (n2b (vtype v)) (enc_value v)) 0 1, m_db m, [], r)
      end
  end.

Definition wf_unit2 (u : unit_) : Prop :=
  match u with UKey k v => wf_string k /\ wf_value v | _ => wf_unit 0 u end.

Definition cont_recs (limit : N) (e : entry) (ps : list rpair) : list entry :=
  map (chunk_rec (e_db e) (e_key e) (e_expire e) (e_idle e) (e_freq e)) (pchunks (length ps) limit 0 ps).

Lemma records_first2 limit : forall us m, Forall wf_unit2 us ->
  records_of limit m us = match first_rec2 limit m us with
                          | None => []
                          | Some (e, db, ps2, rest) => e :: cont_recs limit e ps2 ++ records_of limit (cleared db) rest
                          end.
Proof.
  induction us as [|u us IH]; intros m W; [reflexivity|]. inversion W as [|? ? Wu Wus]; subst.
  destruct u as [ms|s|f n|n|f n|f1 f2 a b|k v|kf v|fid id items feof|k v]; cbn [records_of first_rec2]; try (apply IH; exact Wus).
  - reflexivity.
  - destruct v as [t x|t f xs|f ms|f ms|f ps|s]; try reflexivity.
    destruct ps as [|p ps'].
    + cbn [key_records map length chunks concat vtype enc_value]. rewrite app_nil_r. reflexivity.
    + pose proof (key_records_hash limit m k f p ps') as H. cbv zeta in H.
      destruct (take_pairs limit (lenB (enc_len f (N.of_nat (length (p :: ps'))))) (p :: ps') []) as [c1 c2].
      rewrite H. cbn [app]. unfold cont_recs, mk. cbn [e_db e_key e_expire e_idle e_freq]. reflexivity.
Qed.

Definition pending_ok (st : lstate) (e : entry) (ps : list rpair) : Prop :=
  remain (l_rs st) = N.of_nat (length ps) /\
  (ps <> [] -> l_last st = Some e /\ e_type e = 4 /\ N.of_nat (length ps) < tot (l_rs st) /\ wf_pairs ps).

Definition ne_result2 (fr : option (entry * N * list rpair * list unit_)) (r : bytes) (res : option (option entry * lstate * bytes)) : Prop :=
  match fr with
  | None => exists st', res = Some ((None, st'), r)
  | Some (e, db, ps2, rest) =>
      exists st', l_db st' = db /\ pending_ok st' e ps2 /\
        res = Some ((Some e, st'), concat (map enc_pair ps2) ++ concat (map enc_unit rest) ++ n2b 255 :: r)
  end.

Ltac use_ih2 H := let X := fresh in pose proof H as X; unfold meta_of in *; cbn [m_db m_exp m_idle m_freq p_exp p_idle p_freq l_db] in *; exact X.

Lemma next_entry_first2 limit : forall us fuel st pd r,
  Forall wf_unit2 us -> remain (l_rs st) = 0 -> (length us < fuel)%nat ->
  ne_result2 (first_rec2 limit (meta_of (l_db st) pd) us) r
             (next_entry fuel limit st pd (concat (map enc_unit us) ++ n2b 255 :: r)).
Proof.
  induction us as [|u us IH]; intros fuel st pd r W R Hf.
  - destruct fuel; [cbn in Hf; lia|]. cbn [first_rec2 map concat app ne_result2].
    exists st. cbn [next_entry]. rewrite R. cbn [N.eqb negb]. cbv iota.
    unfold bind at 1. unfold bind at 1. cbn [byte1]. unfold ret at 1. change (b2n (n2b 255)) with 255.
    change (255 =? 250) with false. change (255 =? 251) with false. change (255 =? 252) with false. change (255 =? 253) with false.
    change (255 =? 254) with false. change (255 =? 255) with true. cbv iota. reflexivity.
  - destruct fuel; [cbn in Hf; lia|]. inversion W as [|? ? Wu Wus]; subst.
    assert (Hf' : (length us < fuel)%nat) by (cbn [length] in Hf; lia).
    cbn [map concat]. rewrite <- app_assoc.
    destruct u as [ms|s|f n|n|f n|f1 f2 a b|k v|kf v|fid id items feof|k v]; cbn [wf_unit2 wf_unit first_rec2] in *.
    + rewrite ne_expms by assumption. use_ih2 (IH fuel st {| p_exp := ms; p_idle := p_idle pd; p_freq := p_freq pd |} r Wus R Hf').
    + rewrite ne_exps by assumption. use_ih2 (IH fuel st {| p_exp := s * 1000; p_idle := p_idle pd; p_freq := p_freq pd |} r Wus R Hf').
    + destruct Wu as [W1 W2]. rewrite ne_idle by assumption. use_ih2 (IH fuel st {| p_exp := p_exp pd; p_idle := n; p_freq := p_freq pd |} r Wus R Hf').
    + rewrite ne_freq by assumption. use_ih2 (IH fuel st {| p_exp := p_exp pd; p_idle := p_idle pd; p_freq := n |} r Wus R Hf').
    + destruct Wu as [W1 W2]. rewrite ne_select by assumption. use_ih2 (IH fuel {| l_db := n; l_rs := l_rs st; l_last := l_last st |} pd r Wus R Hf').
    + destruct Wu as [W1 W2]. rewrite ne_resize by assumption. use_ih2 (IH fuel st pd r Wus R Hf').
    + destruct Wu as (W1 & W2 & W3). rewrite ne_aux by assumption. use_ih2 (IH fuel st pd r Wus R Hf').
    + destruct Wu as (W1 & W2 & W3). rewrite ne_lua by assumption. cbn [ne_result2 map concat app].
      exists st. split; [reflexivity|]. split; [split; [exact R | intros H; contradiction]|reflexivity].
    + destruct Wu as (W1 & W2 & W3 & W4). rewrite ne_module by assumption. use_ih2 (IH fuel st pd r Wus R Hf').
    + destruct Wu as (W1 & W2).
      set (tail := concat (map enc_unit us) ++ n2b 255 :: r).
      assert (Hplain : forall v', wf_value v' -> unsplit limit v' ->
                ne_result2 (Some (mk (meta_of (l_db st) pd) (logical_string k) (vtype v') (create_value_dump (n2b (vtype v')) (enc_value v')) 0 1, l_db st, [], us)) r
                           (next_entry (S fuel) limit st pd (enc_unit (UKey k v') ++ tail))).
      { intros v' Wv' U.
        destruct (ne_key fuel limit st pd tail R k v' W1 Wv' U) as (st' & Q1 & Q2 & E).
        rewrite E. cbn [ne_result2 map concat app]. exists st'. split; [exact Q2|]. split; [split; [exact Q1|intros H; contradiction]|reflexivity]. }
      destruct v as [t x|t f xs|f ms|f ms|f ps|s]; try (apply Hplain; [exact W2 | exact I]).
      destruct ps as [|p ps'].
      * cbn [wf_value] in W2. destruct W2 as (Wf & Wn & Wx). cbn [length] in Wf.
        rewrite (ne_key_hash_empty fuel limit st pd tail k f R W1 Wf Wn). cbn [ne_result2 map concat app vtype enc_value length].
        cbv zeta. rewrite app_nil_r. change (N.of_nat 0) with 0.
        eexists. split; [|split; [|reflexivity]]; [reflexivity|].
        split; [reflexivity|intros H; contradiction].
      * cbn [wf_value] in W2. destruct W2 as (Wf & Wn & Wx).
        destruct (ne_key_hash fuel limit st pd tail k f (p :: ps') R W1 Wf Wn Wx) as (c1 & c2 & Hs & Hc1 & Htp & _ & E); [discriminate|].
        cbv zeta in E |- *. rewrite Htp. rewrite E. cbn [ne_result2]. eexists. split; [|split; [|reflexivity]]; [reflexivity|].
        assert (Hlen : (length (p :: ps') = length c1 + length c2)%nat) by (rewrite Hs, app_length; reflexivity).
        split; [reflexivity|]. intros Hc2. cbn [l_last l_rs tot]. split; [reflexivity|]. split; [reflexivity|]. split.
        -- destruct c1; [contradiction|]. cbn [length] in *. lia.
        -- unfold wf_pairs in *. rewrite Hs in Wx. apply Forall_app in Wx. apply Wx.
Qed.

Definition uweight (u : unit_) : nat := match u with UKey _ (VHash _ ps) => S (length ps) | _ => 1%nat end.
Definition weight (us : list unit_) : nat := fold_right (fun u n => (uweight u + n)%nat) 0%nat us.

Lemma weight_cons u us : weight (u :: us) = (uweight u + weight us)%nat.
Proof. reflexivity. Qed.

Lemma first_rec2_inv limit : forall us m e db ps2 rest,
  Forall wf_unit2 us -> first_rec2 limit m us = Some (e, db, ps2, rest) ->
  (length ps2 + weight rest < weight us)%nat /\ Forall wf_unit2 rest /\ e_db e = db.
Proof.
  induction us as [|u us IH]; intros m e db ps2 rest W F; [discriminate|].
  inversion W as [|? ? Wu Wus]; subst.
  assert (Hrec : forall m', first_rec2 limit m' us = Some (e, db, ps2, rest) ->
            (length ps2 + weight rest < S (weight us))%nat /\ Forall wf_unit2 rest /\ e_db e = db).
  { intros m' F'. destruct (IH m' e db ps2 rest Wus F') as (A & B & C). repeat split; try assumption. lia. }
  destruct u as [ms|s|f n|n|f n|f1 f2 a b|k v|kf v|fid id items feof|k v]; cbn [first_rec2] in F; rewrite weight_cons; cbn [uweight];
    try (eapply Hrec; exact F).
  - inversion F; subst. cbn [length mk e_db]. repeat split; try assumption. lia.
  - assert (Hplain : Some (mk m (logical_string k) (vtype v) (create_value_dump (n2b (vtype v)) (enc_value v)) 0 1, m_db m, @nil rpair, us) = Some (e, db, ps2, rest) ->
              (length ps2 + weight rest < uweight (UKey k v) + weight us)%nat /\ Forall wf_unit2 rest /\ e_db e = db).
    { intros F'. inversion F'; subst. cbn [length mk e_db]. repeat split; try assumption. destruct v as [| | | |? ps|]; cbn [uweight]; lia. }
    destruct v as [t x|t f xs|f ms|f ms|f ps|s]; try (apply Hplain; exact F).
    destruct ps as [|p ps']; [apply Hplain; exact F|].
    cbv zeta in F.
    destruct (take_pairs_split limit (p :: ps') (lenB (enc_len f (N.of_nat (length (p :: ps'))))) []) as (c1 & c2 & Ht & Hs & Hc); [discriminate|].
    rewrite Ht in F. cbn [rev app] in F. inversion F; subst. cbn [mk e_db uweight]. repeat split; try assumption.
    rewrite Hs, app_length. destruct c1; [contradiction|]. cbn [length]. lia.
Qed.

Lemma weight_le_bytes : forall us, (weight us <= length (concat (map enc_unit us)))%nat.
Proof.
  induction us as [|u us IH]; [cbn; lia|].
  rewrite weight_cons. cbn [map concat]. rewrite app_length.
  assert (uweight u <= length (enc_unit u))%nat; [|lia].
  destruct u as [ms|s|f n|n|f n|f1 f2 a b|k v|kf v|fid id items feof|k v]; cbn [uweight enc_unit length]; try lia.
  destruct v as [t x|t f xs|f ms|f ms|f ps|s]; cbn [length]; try lia.
  cbn [vtype enc_value]. rewrite !app_length. pose proof (pairs_nonempty_bytes ps). lia.
Qed.

Lemma cont_recs_nil limit e : cont_recs limit e [] = [].
Proof. reflexivity. Qed.

Lemma entries_spec2 limit : forall fuel (ps : list rpair) us st acc r e0,
  Forall wf_unit2 us -> pending_ok st e0 ps -> (ps <> [] -> e_db e0 = l_db st) -> (length ps + weight us < fuel)%nat ->
  entries fuel limit st acc (concat (map enc_pair ps) ++ concat (map enc_unit us) ++ n2b 255 :: r)
    = Some (rev acc ++ cont_recs limit e0 ps ++ records_of limit (cleared (l_db st)) us, r).
Proof.
  induction fuel as [|fuel IH]; intros ps us st acc r e0 W P D Hf; [lia|].
  destruct ps as [|p ps'].
  - cbn [map concat app]. cbn [entries]. rewrite cont_recs_nil. cbn [app].
    destruct P as [R _]. cbn [length] in R. change (N.of_nat 0) with 0 in R.
    pose proof (next_entry_first2 limit us (S (length (concat (map enc_unit us) ++ n2b 255 :: r))) st pend0 r W R) as N.
    assert (Hlen : (length us < S (length (concat (map enc_unit us) ++ n2b 255 :: r)))%nat).
    { rewrite app_length. assert (G : (length (map enc_unit us) <= length (concat (map enc_unit us)))%nat).
      { apply concat_length_ge. apply Forall_forall. intros e He. apply in_map_iff in He. destruct He as [u [<- _]].
        destruct u; discriminate. }
      rewrite map_length in G. lia. }
    specialize (N Hlen). rewrite (records_first2 limit us _ W).
    change (meta_of (l_db st) pend0) with (cleared (l_db st)) in N.
    unfold ne_result2 in N.
    destruct (first_rec2 limit (cleared (l_db st)) us) as [[[[e db] ps2] rest]|] eqn:F.
    + destruct N as (st' & D' & P' & E). rewrite E.
      destruct (first_rec2_inv limit us _ e db ps2 rest W F) as (Hw & Wr & He).
      rewrite (IH ps2 rest st' (e :: acc) r e Wr P'); [| intros _; rewrite D'; exact He | cbn [length] in Hf; lia].
      rewrite D'. cbn [rev]. rewrite <- app_assoc. reflexivity.
    + destruct N as (st' & E). rewrite E. rewrite app_nil_r. reflexivity.
  - destruct P as [R Hp]. destruct Hp as (Hl & Ht & Hlt & Wp); [discriminate|].
    specialize (D ltac:(discriminate)).
    cbn [entries].
    set (rest := concat (map enc_unit us) ++ n2b 255 :: r).
    set (s := concat (map enc_pair (p :: ps')) ++ rest).
    destruct (l_rs st) as [rm lr n] eqn:Hrs. cbn [remain tot] in R, Hlt. subst rm.
    destruct (ne_cont (length s) limit st pend0 e0 (p :: ps') n lr rest Hrs Hl Ht ltac:(discriminate) Wp Hlt)
      as (c1 & c2 & Hs & Hc1 & Htp & _ & E).
    fold s in E. rewrite E. cbv zeta.
    set (e1 := {| e_db := l_db st; e_key := e_key e0; e_type := 4; e_value := create_value_dump (n2b 4) (concat (map enc_pair c1));
                  e_expire := e_expire e0; e_real_count := N.of_nat (length c1); e_need_len := 0; e_idle := e_idle e0; e_freq := e_freq e0 |}).
    assert (Hlen : (length (p :: ps') = length c1 + length c2)%nat) by (rewrite Hs, app_length; reflexivity).
    assert (Hc1len : (0 < length c1)%nat) by (destruct c1; [contradiction|cbn [length]; lia]).
    unfold rest. rewrite (IH c2 us _ (e1 :: acc) r e1 W).
    + cbn [l_db rev]. rewrite <- app_assoc. f_equal. cbn [app]. 
      unfold cont_recs at 2. cbn [length pchunks]. rewrite Htp.
      cbn [map]. rewrite D.
      replace (chunk_rec (l_db st) (e_key e0) (e_expire e0) (e_idle e0) (e_freq e0) c1) with e1 by reflexivity.
      f_equal. f_equal. cbn [app]. f_equal. f_equal. unfold cont_recs. cbn [e1 e_db e_key e_expire e_idle e_freq].
      rewrite (pchunks_fuel limit (length ps') (length c2) 0 c2); [reflexivity| cbn [length] in Hlen; lia | lia].
    + split; [reflexivity|]. intros Hc2. cbn [l_last l_rs tot]. split; [reflexivity|]. split; [reflexivity|]. split.
      * lia.
      * unfold wf_pairs in *. rewrite Hs in Wp. apply Forall_app in Wp. apply Wp.
    + intros _. reflexivity.
    + lia.
Qed.

Theorem load_all_exact2 limit version us :
  wf_version version -> Forall wf_unit2 us -> from_version = 9 ->
  load_all limit (enc_file version us) = Loaded (records_of limit meta0 us).
Proof.
  intros Wv Wu Hfv. unfold load_all, enc_file.
  set (body := enc_body version us). set (tr := le_enc 8 (crc64 body)).
  assert (Hparse : (_ <- header ;; entries (S (length (body ++ tr))) limit l0 []) (body ++ tr)
                   = Some (records_of limit meta0 us, tr)).
  { unfold bind. unfold body, enc_body. rewrite <- !app_assoc. rewrite header_ok by assumption.
    cbn [app].
    pose proof (entries_spec2 limit (S (length (rdb_magic ++ version_digits version ++ concat (map enc_unit us) ++ n2b 255 :: tr)))
                  [] us l0 [] tr (mk meta0 [] 0 [] 0 0) Wu) as E.
    cbn [map concat app] in E. rewrite E.
    - reflexivity.
    - split; [reflexivity|]. intros H; contradiction.
    - intros H; contradiction.
    - cbn [length]. rewrite !app_length. pose proof (weight_le_bytes us). lia. }
  rewrite Hparse.
  assert (Lt : length tr = 8%nat) by apply le_enc_length.
  rewrite app_length. replace (length body + length tr - length tr)%nat with (length body) by lia.
  rewrite firstn_app, firstn_all, Nat.sub_diag, firstn_O, app_nil_r.
  assert (T : take 8 tr = Some (tr, [])).
  { rewrite <- (app_nil_r tr) at 1. apply exact_take_n. unfold lenN. rewrite Lt. reflexivity. }
  rewrite T. rewrite DigestProofs.digest_write_spec.
  change (Crc64Proofs.crc64i 0 body) with (crc64 body).
  unfold tr. rewrite DigestProofs.crc_le_roundtrip. rewrite N.eqb_refl. reflexivity.
Qed.

(* the chunking of the specification is a partition: no pair lost, duplicated or reordered,
   no empty chunk *)
Lemma take_chunk_split limit : forall (ps : list bytes) cap acc, ps <> [] ->
  exists c1 c2, take_chunk limit cap ps acc = (rev acc ++ c1, c2) /\ ps = c1 ++ c2 /\ c1 <> [].
Proof.
  induction ps as [|p ps IH]; intros cap acc Hne; [contradiction|].
  destruct ps as [|q ps'].
  - exists [p], []. cbn [take_chunk rev]. repeat split. discriminate.
  - cbn [take_chunk]. destruct (limit <? cap + lenB p).
    + exists [p], (q :: ps'). cbn [rev]. repeat split. discriminate.
    + destruct (IH (cap + lenB p) (p :: acc)) as (c1 & c2 & H1 & H2 & H3); [discriminate|].
      exists (p :: c1), c2. cbn [take_chunk] in H1. rewrite H1. cbn [rev]. rewrite <- app_assoc. cbn [app].
      repeat split; [rewrite H2; reflexivity | discriminate].
Qed.

Lemma chunks_partition limit : forall fuel cap (ps : list bytes), (length ps <= fuel)%nat ->
  concat (chunks fuel limit cap ps) = ps /\ Forall (fun c => c <> []) (chunks fuel limit cap ps).
Proof.
  induction fuel as [|f IH]; intros cap ps H.
  - destruct ps; [split; [reflexivity|constructor]|cbn in H; lia].
  - destruct ps as [|p ps]; [split; [reflexivity|constructor]|].
    cbn [chunks]. destruct (take_chunk_split limit (p :: ps) cap []) as (c1 & c2 & Ht & Hs & Hc); [discriminate|].
    rewrite Ht. cbn [rev app concat].
    assert (Hl : (length c2 <= f)%nat).
    { assert (length (p :: ps) = length c1 + length c2)%nat by (rewrite Hs, app_length; reflexivity).
      destruct c1; [contradiction|]. cbn [length] in *. lia. }
    destruct (IH 0 c2 Hl) as [A B]. split; [rewrite A; symmetry; exact Hs | constructor; assumption].
Qed.

Lemma concat_map_concat {A} (l : list (list (list A))) : concat (map (@concat A) l) = concat (concat l).
Proof. induction l as [|x l IH]; [reflexivity|]. cbn [map concat]. rewrite concat_app, IH. reflexivity. Qed.

(* what the records of one hash are, in the words of the property: every record carries the
   key's database, name, type and expiry / idle / freq; the serialized bodies of the records,
   concatenated, are exactly the serialized hash (count header, then every field/value pair, in
   order); each body is wrapped as a DUMP payload *)
Lemma hash_records_cover limit m k f ps :
  let rs := key_records limit m k (VHash f ps) in
  Forall (fun e => e_db e = m_db m /\ e_key e = logical_string k /\ e_type e = 4 /\
                   e_expire e = m_exp m /\ e_idle e = m_idle m /\ e_freq e = m_freq m) rs /\
  exists bodies, map e_value rs = map (create_value_dump (n2b 4)) bodies /\
                 concat bodies = enc_value (VHash f ps) /\ rs <> [].
Proof.
  cbv zeta. unfold key_records.
  set (hdr := enc_len f (N.of_nat (length ps))). set (eps := map enc_pair ps).
  destruct (chunks_partition limit (S (length eps)) (lenB hdr) eps (Nat.le_succ_diag_r _)) as [Hc _].
  assert (Hv : enc_value (VHash f ps) = hdr ++ concat eps) by reflexivity.
  destruct (chunks (S (length eps)) limit (lenB hdr) eps) as [|c [|c' more]] eqn:E.
  - split; [repeat constructor|]. exists [hdr]. cbn [map concat mk e_value]. rewrite app_nil_r.
    split; [reflexivity|]. split; [|discriminate]. rewrite Hv. cbn [concat] in Hc. rewrite <- Hc. rewrite app_nil_r. reflexivity.
  - split; [repeat constructor|]. exists [hdr ++ concat c]. cbn [map concat mk e_value]. rewrite app_nil_r.
    split; [reflexivity|]. split; [|discriminate]. rewrite Hv. cbn [concat] in Hc. rewrite app_nil_r in Hc. rewrite Hc. reflexivity.
  - split.
    + constructor; [repeat split|]. apply Forall_forall. intros e He. apply in_map_iff in He. destruct He as (x & <- & _). repeat split.
    + exists ((hdr ++ concat c) :: map (@concat byte) (c' :: more)). split; [|split; [|discriminate]].
      * cbn [map mk e_value]. f_equal. f_equal. rewrite !map_map. reflexivity.
      * change (concat ((hdr ++ concat c) :: map (@concat byte) (c' :: more))) with ((hdr ++ concat c) ++ concat (map (@concat byte) (c' :: more))).
        rewrite concat_map_concat. rewrite Hv, <- Hc. change (concat (c :: c' :: more)) with (c ++ concat (c' :: more)). rewrite concat_app, <- app_assoc. reflexivity.
Qed.
