(* Proofs/WriterProofs.v — the RDB file the tool writes (pkg/rdb/encoder.go over the cupcake
   encoder: Model/Cupcake.encode_file_objs) IS a file of the format specification
   (Spec/RdbFormat.enc_file) for an explicit syntax tree; hence C01's parser theorem applies to
   it and the whole-file round trip closes. *)
From RS Require Import Base.Bytes Base.Endian Base.Dec Model.RespCodec Spec.Crc64 Model.Digest Model.Rdb Model.Cupcake
  Spec.RdbFormat Spec.RdbRecords Proofs.DigestProofs Proofs.RdbProofs.
From Coq Require Import Lia.
Open Scope N_scope.

Section Writer.
Variable fmt_g17 : N -> bytes.

Definition form_of (n : N) : lenform := if n <? 64 then L6 else if n <? 16384 then L14 else L32.

Lemma cup_len_is_spec n : cup_enc_len n = enc_len (form_of n) n.
Proof.
  unfold cup_enc_len, form_of. destruct (n <? 64); [reflexivity|]. destruct (n <? 16384); [|reflexivity].
  cbn [enc_len]. rewrite N.add_comm. reflexivity.
Qed.

(* the string form the writer picks: integer encodings when the decimal rendering is exact *)
Definition rstring_of (s : bytes) : rstring :=
  match int32_string s with
  | Some i => if ((-128 <=? i) && (i <=? 127))%Z then SInt8 i
              else if ((-32768 <=? i) && (i <=? 32767))%Z then SInt16 i else SInt32 i
  | None => SRaw (form_of (lenN s)) s
  end.

Lemma cup_string_is_spec s : cup_enc_string s = enc_string (rstring_of s).
Proof.
  unfold cup_enc_string, rstring_of. destruct (int32_string s) as [i|].
  - destruct ((-128 <=? i) && (i <=? 127))%Z; [reflexivity|].
    destruct ((-32768 <=? i) && (i <=? 32767))%Z; reflexivity.
  - cbn [enc_string]. rewrite cup_len_is_spec. reflexivity.
Qed.

Lemma rstring_of_logical s : logical_string (rstring_of s) = s.
Proof.
  unfold rstring_of. destruct (int32_string s) as [i|] eqn:E; [|reflexivity].
  unfold int32_string in E. destruct (parse_int64 s) as [j|]; [|discriminate].
  destruct (((-2147483648 <=? j) && (j <=? 2147483647))%Z && beqs (render j) s) eqn:Ec; [|discriminate].
  injection E as <-. apply Bool.andb_true_iff in Ec. destruct Ec as [_ Hr]. apply beqs_true in Hr.
  destruct ((-128 <=? j) && (j <=? 127))%Z; [exact Hr|]. destruct ((-32768 <=? j) && (j <=? 32767))%Z; exact Hr.
Qed.

Definition score_of (bits : N) : score :=
  if is_nan bits then ScNaN else if bits =? nan_bits then ScNaN else if bits =? pinf_bits then ScPInf
  else if bits =? ninf_bits then ScNInf else ScText (fmt_g17 bits).

Lemma score_is_spec bits : enc_score_bits fmt_g17 bits = enc_score (score_of bits).
Proof.
  unfold enc_score_bits, cup_enc_float, score_of. destruct (is_nan bits); [reflexivity|].
  destruct (bits =? nan_bits); [reflexivity|]. destruct (bits =? pinf_bits); [reflexivity|].
  destruct (bits =? ninf_bits); reflexivity.
Qed.

Definition rvalue_of (v : logical) : rvalue :=
  match v with
  | LString s => VStr 0 (rstring_of s)
  | LList l => VSeq 1 (form_of (N.of_nat (length l))) (map rstring_of l)
  | LSet l => VSeq 2 (form_of (N.of_nat (length l))) (map rstring_of l)
  | LZSet l => VZSet (form_of (N.of_nat (length l))) (map (fun m => (rstring_of (fst m), score_of (snd m))) l)
  | LHash l => VHash (form_of (N.of_nat (length l))) (map (fun p => (rstring_of (fst p), rstring_of (snd p))) l)
  end.

Lemma concat_map_ext {A} (f g : A -> bytes) l : (forall a, f a = g a) -> concat (map f l) = concat (map g l).
Proof. intros H. induction l as [|a l IH]; [reflexivity|]. cbn. rewrite H, IH. reflexivity. Qed.

Lemma value_is_spec v : enc_value_body fmt_g17 v = (vtype (rvalue_of v), enc_value (rvalue_of v)).
Proof.
  destruct v as [s|l|l|l|l]; cbn [enc_value_body rvalue_of vtype enc_value].
  - rewrite cup_string_is_spec. reflexivity.
  - rewrite cup_len_is_spec, map_length, map_map. f_equal. f_equal. apply concat_map_ext. intros a. apply cup_string_is_spec.
  - rewrite cup_len_is_spec, map_length, map_map. f_equal. f_equal. apply concat_map_ext. intros a. apply cup_string_is_spec.
  - rewrite cup_len_is_spec, map_length, map_map. f_equal. f_equal. apply concat_map_ext. intros [f w]. cbn [fst snd enc_pair].
    rewrite !cup_string_is_spec. reflexivity.
  - rewrite cup_len_is_spec, map_length, map_map. f_equal. f_equal. apply concat_map_ext. intros [m sc]. cbn [fst snd].
    rewrite cup_string_is_spec, score_is_spec. reflexivity.
Qed.

(* the syntax tree of the file the writer produces for a list of (db, key, expiry, value) *)
Fixpoint units_of (cur : option N) (os : list obj) : list unit_ :=
  match os with
  | [] => []
  | (db, key, exp, v) :: r =>
      (match cur with
       | Some d => if d =? db then [] else [USelect (form_of db) db]
       | None => [USelect (form_of db) db]
       end)
      ++ (if exp =? 0 then [] else [UExpMs exp])
      ++ [UKey (rstring_of key) (rvalue_of v)] ++ units_of (Some db) r
  end.

Lemma objs_is_spec os : forall cur, encode_objs fmt_g17 cur os = concat (map enc_unit (units_of cur os)).
Proof.
  induction os as [|[[[db key] exp] v] os IH]; intros cur; [reflexivity|].
  cbn [encode_objs units_of]. rewrite value_is_spec. rewrite !map_app, !concat_app, IH.
  assert (Hsel : (match cur with Some d => if d =? db then [] else n2b 254 :: cup_enc_len db | None => n2b 254 :: cup_enc_len db end)
               = concat (map enc_unit (match cur with Some d => if d =? db then [] else [USelect (form_of db) db] | None => [USelect (form_of db) db] end))).
  { destruct cur as [d|]; [destruct (d =? db)|]; cbn [map concat enc_unit app]; rewrite ?app_nil_r, ?cup_len_is_spec; reflexivity. }
  rewrite Hsel. f_equal.
  destruct (exp =? 0); cbn [map concat enc_unit app]; rewrite ?app_nil_r, cup_string_is_spec, <- ?app_assoc; reflexivity.
Qed.

Theorem writer_is_spec os : encode_file_objs fmt_g17 os = enc_file 6 (units_of None os).
Proof.
  unfold encode_file_objs, enc_file, enc_body. rewrite ext_digest_spec, objs_is_spec. reflexivity.
Qed.


(* ---- what the parser makes of that file ---- *)
Hypothesis fmt_ok : forall b, lenB (fmt_g17 b) < 253 /\ float_ok (fmt_g17 b) = true.

Lemma form_fits n : n < 2 ^ 32 -> fits (form_of n) n /\ form_of n <> L64.
Proof.
  intros H. unfold form_of. destruct (n <? 64) eqn:E1; [apply N.ltb_lt in E1; split; [exact E1|discriminate]|].
  destruct (n <? 16384) eqn:E2; [apply N.ltb_lt in E2; split; [exact E2|discriminate]|]. split; [exact H|discriminate].
Qed.

Lemma rstring_of_wf s : lenN s < 2 ^ 32 -> wf_string (rstring_of s).
Proof.
  intros H. unfold rstring_of. destruct (int32_string s) as [i|] eqn:E.
  - unfold int32_string in E. destruct (parse_int64 s) as [j|]; [|discriminate].
    destruct (((-2147483648 <=? j) && (j <=? 2147483647))%Z && beqs (render j) s) eqn:Ec; [|discriminate].
    injection E as <-. apply Bool.andb_true_iff in Ec. destruct Ec as [Hr _].
    destruct ((-128 <=? j) && (j <=? 127))%Z eqn:E8; [cbn; lia|].
    destruct ((-32768 <=? j) && (j <=? 32767))%Z eqn:E16; cbn; lia.
  - cbn [wf_string]. apply form_fits. exact H.
Qed.

Definition str_ok (s : bytes) : Prop := lenN s < 2 ^ 32.
Definition value_ok (v : logical) : Prop :=
  match v with
  | LString s => str_ok s
  | LList l | LSet l => N.of_nat (length l) < 2 ^ 32 /\ Forall str_ok l
  | LZSet l => N.of_nat (length l) < 2 ^ 32 /\ Forall (fun m => str_ok (fst m)) l
  | LHash l => N.of_nat (length l) < 2 ^ 32 /\ Forall (fun p => str_ok (fst p) /\ str_ok (snd p)) l
  end.

Lemma score_of_wf b : wf_score (score_of b).
Proof.
  unfold score_of. destruct (is_nan b); [exact I|]. destruct (b =? nan_bits); [exact I|].
  destruct (b =? pinf_bits); [exact I|]. destruct (b =? ninf_bits); [exact I|]. cbn. apply fmt_ok.
Qed.

Lemma rvalue_of_wf v : value_ok v -> wf_value (rvalue_of v).
Proof.
  destruct v as [s|l|l|l|l]; cbn [value_ok rvalue_of wf_value].
  - intros H. split; [reflexivity | apply rstring_of_wf; exact H].
  - intros [Hn Hl]. split; [reflexivity|]. rewrite map_length. destruct (form_fits _ Hn) as [Hf Hne]. repeat split; [exact Hf | exact Hne |].
    apply Forall_map. eapply Forall_impl; [|exact Hl]. intros a Ha. apply rstring_of_wf. exact Ha.
  - intros [Hn Hl]. split; [reflexivity|]. rewrite map_length. destruct (form_fits _ Hn) as [Hf Hne]. repeat split; [exact Hf | exact Hne |].
    apply Forall_map. eapply Forall_impl; [|exact Hl]. intros a Ha. apply rstring_of_wf. exact Ha.
  - intros [Hn Hl]. rewrite map_length. destruct (form_fits _ Hn) as [Hf Hne]. repeat split; [exact Hf | exact Hne |].
    apply Forall_map. eapply Forall_impl; [|exact Hl]. intros [f w] [Ha Hb]. cbn [fst snd] in *. split; apply rstring_of_wf; assumption.
  - intros [Hn Hl]. rewrite map_length. destruct (form_fits _ Hn) as [Hf Hne]. repeat split; [exact Hf | exact Hne |].
    apply Forall_map. eapply Forall_impl; [|exact Hl]. intros [m sc] Ha. cbn [fst snd] in *. split; [apply rstring_of_wf; exact Ha | apply score_of_wf].
Qed.

Definition obj_ok (limit : N) (o : obj) : Prop :=
  let '(db, key, exp, v) := o in db < 2 ^ 32 /\ str_ok key /\ exp < 2 ^ 64 /\ value_ok v /\ unsplit limit (rvalue_of v).

Lemma units_of_wf limit os : Forall (obj_ok limit) os -> forall cur, Forall (wf_unit limit) (units_of cur os).
Proof.
  induction 1 as [|[[[db key] exp] v] os (Hdb & Hk & He & Hv & Hu) _ IH]; intros cur; [constructor|].
  cbn [units_of]. apply Forall_app. split.
  - destruct cur as [d|]; [destruct (d =? db); [constructor|]|]; (constructor; [apply form_fits; exact Hdb | constructor]).
  - apply Forall_app. split.
    + destruct (exp =? 0); constructor; [exact He | constructor].
    + constructor; [|apply IH]. cbn [wf_unit]. repeat split; [apply rstring_of_wf; exact Hk | apply rvalue_of_wf; exact Hv | exact Hu].
Qed.

(* the record the parser must deliver for an object *)
Definition entry_of (o : obj) : entry :=
  let '(db, key, exp, v) := o in
  mk {| m_db := db; m_exp := exp; m_idle := 0; m_freq := 0 |} key (vtype (rvalue_of v))
     (create_value_dump (n2b (vtype (rvalue_of v))) (enc_value (rvalue_of v))) 0 1.

Lemma records_of_units limit os : Forall (obj_ok limit) os ->
  forall cur m, match cur with Some d => m_db m = d | None => True end -> m_exp m = 0 -> m_idle m = 0 -> m_freq m = 0 ->
  records_of limit m (units_of cur os) = map entry_of os.
Proof.
  induction 1 as [|[[[db key] exp] v] os (Hdb & Hk & He & Hv & Hu) _ IH]; intros cur m Hc Hx Hi Hf; [reflexivity|].
  cbn [units_of map entry_of].
  (* after the optional select the metadata carries db *)
  assert (Hsel : forall rest, records_of limit m ((match cur with Some d => if d =? db then [] else [USelect (form_of db) db] | None => [USelect (form_of db) db] end) ++ rest)
                 = records_of limit {| m_db := db; m_exp := 0; m_idle := 0; m_freq := 0 |} rest).
  { intros rest. destruct m as [mdb mexp mi mf]. cbn in Hx, Hi, Hf, Hc. subst mexp mi mf.
    destruct cur as [d|]; [destruct (d =? db) eqn:E; [apply N.eqb_eq in E; subst; reflexivity|]|]; reflexivity. }
  rewrite Hsel.
  destruct (exp =? 0) eqn:E0.
  - apply N.eqb_eq in E0. subst exp. cbn [app records_of]. rewrite (key_records_unsplit _ _ _ _ Hu), rstring_of_logical.
    cbn [app]. f_equal. apply (IH (Some db)); reflexivity.
  - cbn [app records_of m_db m_exp m_idle m_freq]. rewrite (key_records_unsplit _ _ _ _ Hu), rstring_of_logical.
    cbn [app]. f_equal. apply (IH (Some db)); reflexivity.
Qed.

(* whole-file round trip, file level: the parser reads the writer's file back as exactly one record
   per object - database, key, expiry and the serialized value as a checksummed payload *)
Theorem writer_file_parses limit os : Forall (obj_ok limit) os ->
  load_all limit (encode_file_objs fmt_g17 os) = Loaded (map entry_of os).
Proof.
  intros H. rewrite writer_is_spec.
  rewrite (load_all_exact limit 6 (units_of None os)); [| unfold wf_version; lia | apply units_of_wf; exact H | reflexivity].
  f_equal. apply records_of_units; [exact H | exact I | reflexivity | reflexivity | reflexivity].
Qed.

End Writer.

(* ---- value level: the payload of each record is the DUMP payload of the value ---- *)
From RS Require Import Gen.Crc64 Proofs.CupcakeProofs.

Lemma entry_payload_is_dump fmt_g17 v :
  create_value_dump (n2b (vtype (rvalue_of fmt_g17 v))) (enc_value (rvalue_of fmt_g17 v)) = encode_dump fmt_g17 v.
Proof.
  unfold encode_dump. rewrite value_is_spec. unfold create_value_dump.
  change cupcake_version with to_version.
  rewrite digest_write_spec, ext_digest_spec. reflexivity.
Qed.

(* whole-file round trip: writing a sequence of (database, key, expiry, value) with the tool's
   writer and reading the file with the tool's parser yields one record per object, in order,
   with the same database, key and expiry, and a payload that decodes to the value *)
Theorem file_roundtrip fmt_g17 parse_float limit (os : list obj) :
  (forall b, finite b -> parse_float (fmt_g17 b) = Some b /\ lenN (fmt_g17 b) < 253) ->
  (forall b, lenB (fmt_g17 b) < 253 /\ float_ok (fmt_g17 b) = true) ->
  Forall (obj_ok fmt_g17 limit) os -> Forall (fun o => wf_logical (snd o)) os ->
  exists es, load_all limit (encode_file_objs fmt_g17 os) = Loaded es /\
    Forall2 (fun (o : obj) e => let '(db, key, exp, v) := o in
               e_db e = db /\ e_key e = key /\ e_expire e = exp /\ e_real_count e = 0 /\ e_need_len e = 1 /\
               decode_dump parse_float (e_value e) = Some (canon v)) os es.
Proof.
  intros Hlaw Hfmt Hok Hwf. exists (map (entry_of fmt_g17) os). split; [apply writer_file_parses; assumption|].
  clear Hok. induction Hwf as [|[[[db key] exp] v] os Hv _ IH]; [constructor|].
  cbn [map]. constructor; [|exact IH].
  cbn [entry_of mk e_db e_key e_expire e_real_count e_need_len e_value m_db m_exp snd] in *.
  repeat split. rewrite entry_payload_is_dump. apply dump_roundtrip_logical; assumption.
Qed.
