(* Props/C15.v — Key-to-slot mapping follows the Redis Cluster specification.
   Statements only; every proof is `exact <lemma>`. *)
From RS Require Import Base.Bytes Base.Dec Spec.Crc16 Spec.Slot Gen.Crc16 Model.Slot Proofs.SlotProofs.
Open Scope N_scope.

(* all CRC16 copies in the tool are CRC-16/XMODEM (tables regenerated from the source) *)
Theorem C15_tables_are_xmodem :
  common_crc16tab = crc16_table /\ latency_crc16tab = crc16_table.
Proof. exact (conj common_table_is_spec latency_table_is_spec). Qed.

Theorem C15_crc16_copies_agree : forall bs,
  crc16_common bs = crc16 bs /\ crc16_latency bs = crc16 bs.
Proof. exact (fun bs => conj (crc16_common_spec bs) (crc16_latency_spec bs)). Qed.

(* for every key (any bytes, any arrangement of braces) *)
Theorem C15_key_to_slot_spec : forall key : bytes, key_to_slot key = slot_spec key.
Proof. exact key_to_slot_spec. Qed.

(* the checkpoint key chosen for a shard hashes inside the shard's slot range, for every
   range, and is the checkpoint prefix followed by '-' and four letters *)
Theorem C15_checkpoint_key_in_range : forall l r, l <= r -> r <= 16383 ->
  exists k, chose_slot_in_range checkpoint_key l r = Some k
         /\ (exists w, k = checkpoint_key ++ [x2d] ++ w /\ In w (words 4))
         /\ l <= slot_spec k <= r.
Proof. exact chose_slot_in_range_ok. Qed.

(* the latency-monitor key search terminates (below the model's bound) inside the range *)
Theorem C15_latency_key_in_range : forall l r, l <= r -> r <= 16383 ->
  exists i, find_key_in_range l r = Some (latency_key i)
         /\ l <= crc16 (latency_key i) mod 16384 <= r.
Proof. exact find_key_in_range_ok. Qed.

(* the loop as pinned (no break after the first '{') did not meet the specification:
   defect F2, repaired by a fix: commit; kept as documentation of the replay "{a}{b}" *)
Theorem C15_nobreak_refuted : exists key, key_to_slot_nobreak key <> slot_spec key.
Proof. exact nobreak_refuted. Qed.

Example C15_nonvacuous :
  slot_spec [x7b;x61;x7d;x7b;x62;x7d] = slot_spec [x61] /\ slot_spec [x7b;x7d;x62] <> slot_spec [x62]
  /\ (0 <= 16383 /\ 16383 <= 16383).
Proof. vm_compute. repeat split; discriminate. Qed.

Print Assumptions C15_tables_are_xmodem.
Print Assumptions C15_crc16_copies_agree.
Print Assumptions C15_key_to_slot_spec.
Print Assumptions C15_checkpoint_key_in_range.
Print Assumptions C15_latency_key_in_range.
