(* Props/C05.v — The RDB/command-stream hand-off loses and duplicates no byte.
   Statements only; every proof is `exact <lemma>`.  `frag` is an adversarial read oracle: every
   Read may return any non-empty prefix (at most the buffer size) of the bytes still to come;
   the theorems hold for every such oracle, i.e. for every TCP segmentation / bufio refill. *)
From RS Require Import Base.Bytes Base.Dec Model.RespCodec Model.Filter Model.Handoff Proofs.HandoffProofs.

(* the countdown copy hands exactly the n RDB bytes to the consumer and leaves the command
   bytes unread, whatever the fragmentation and buffer size *)
Theorem C05_rdb_copy_exact : forall fuel bufsz frag (rdb cmds acc : bytes), (0 < bufsz)%nat -> (length rdb <= fuel)%nat ->
  copy_loop fuel bufsz frag (length rdb) (rdb ++ cmds) acc = Some (acc ++ rdb, cmds).
Proof. exact copy_exact. Qed.

(* the stream copy forwards every following byte, in order, once *)
Theorem C05_stream_copy_exact : forall fuel bufsz frag (s acc : bytes), (0 < bufsz)%nat -> (length s <= fuel)%nat ->
  pipe_copy fuel bufsz frag s acc = acc ++ s.
Proof. exact pipe_copy_exact. Qed.

(* "+FULLRESYNC runid offset" in any letter case after k keep-alive newlines: the announced run
   id and offset are the ones used *)
Theorem C05_reply_fullresync : forall k (w rid : bytes) off rest,
  map lower w = w_fullresync -> ~ In SP w -> ~ In NL w -> ~ In SP rid -> ~ In NL rid -> in_int64 off = true ->
  parse_reply (repeat NL k ++ (x2b :: w ++ SP :: rid ++ SP :: render off) ++ crlf ++ rest) = Some (Full rid off, rest).
Proof. exact parse_reply_fullresync. Qed.

Theorem C05_reply_continue : forall k (w : bytes) rest,
  map lower w = w_continue -> ~ In SP w -> ~ In NL w ->
  parse_reply (repeat NL k ++ (x2b :: w) ++ crlf ++ rest) = Some (Continue, rest).
Proof. exact parse_reply_continue. Qed.

(* keep-alive newlines, then "$n\r\n" with n > 0 *)
Theorem C05_size_line : forall k n rest, (0 < n)%Z -> in_int64 n = true ->
  wait_rdb (repeat NL k ++ x24 :: render n ++ crlf ++ rest) = Some (n, rest).
Proof. exact wait_rdb_spec. Qed.

(* the whole hand-off: run id, offset, size, exactly the n RDB bytes, exactly the bytes after *)
Theorem C05_split_exact : forall s1 rid off k n (rdb cmds : bytes) bufsz frag,
  parse_reply (s1 ++ repeat NL k ++ x24 :: render n ++ crlf ++ rdb ++ cmds)
     = Some (Full rid off, repeat NL k ++ x24 :: render n ++ crlf ++ rdb ++ cmds) ->
  Z.of_nat (length rdb) = n -> (0 < n)%Z -> in_int64 n = true -> (0 < bufsz)%nat ->
  handoff (s1 ++ repeat NL k ++ x24 :: render n ++ crlf ++ rdb ++ cmds) bufsz frag =
    Some {| h_runid := rid; h_offset := off; h_size := n; h_rdb := rdb; h_stream := cmds |}.
Proof. exact handoff_exact. Qed.

Example C05_nonvacuous :
  handoff ([x0a; x2b; x46;x55;x4c;x4c;x52;x45;x53;x59;x4e;x43; x20; x61;x62; x20; x37; x0d;x0a; x0a;x0a; x24; x33; x0d;x0a; x52;x44;x42; x2a;x31]) 2 [1%nat; 5%nat; 1%nat]
  = Some {| h_runid := [x61;x62]; h_offset := 7; h_size := 3; h_rdb := [x52;x44;x42]; h_stream := [x2a;x31] |}.
Proof. vm_compute. reflexivity. Qed.

Print Assumptions C05_rdb_copy_exact.
Print Assumptions C05_stream_copy_exact.
Print Assumptions C05_reply_fullresync.
Print Assumptions C05_size_line.
Print Assumptions C05_split_exact.
