(* Props/C11.v — Checksums are the Redis CRC-64 of the covered bytes; corruption is detected.
   Statements only; every proof is `exact <lemma>`. *)
From RS Require Import Base.Bytes Base.Endian Spec.Crc64 Gen.Crc64 Model.Digest Proofs.Crc64Proofs Proofs.DigestProofs.
Open Scope N_scope.

(* the three tables found in the sources (in-repo digest, vendored cupcake, external cupcake
   module) are the CRC-64/Jones table computed in Coq from the polynomial *)
Theorem C11_tables_are_jones :
  digest_crc64tab = crc64_table /\ cupcake_crc64tab = crc64_table /\ ext_crc64tab = crc64_table.
Proof. exact (conj digest_table_is_jones (conj cupcake_table_is_jones ext_table_is_jones)). Qed.

Theorem C11_digests_are_crc64 : forall bs,
  digest_write 0 bs = crc64 bs /\ cupcake_digest bs = crc64 bs /\ ext_digest bs = crc64 bs.
Proof. exact (fun bs => conj (digest_write_spec 0 bs) (conj (cupcake_digest_spec bs) (ext_digest_spec bs))). Qed.

(* independent of how the bytes are split across writes *)
Theorem C11_chunking : forall chunks : list bytes, digest_writes chunks = crc64 (concat chunks).
Proof. exact digest_chunking. Qed.

(* any single-byte substitution, at any position, in data of any length, changes the CRC *)
Theorem C11_single_byte_detected : forall data i b,
  (i < length data)%nat -> b <> nth i data x00 -> crc64 (set_nth i b data) <> crc64 data.
Proof. exact crc64_detects_substitution. Qed.

(* end-of-file check: body = every byte the loader consumed before the trailer *)
Theorem C11_footer_accepts_intact : forall body, rdb_footer_ok (body ++ le_enc 8 (crc64 body)) = true.
Proof. exact footer_accepts. Qed.

Theorem C11_footer_rejects : forall body i b,
  let whole := body ++ le_enc 8 (crc64 body) in
  (i < length whole)%nat -> b <> nth i whole x00 -> rdb_footer_ok (set_nth i b whole) = false.
Proof. exact footer_rejects. Qed.

(* every DUMP payload the tool emits verifies under both of its payload checkers *)
Theorem C11_dump_roundtrip : forall t val,
  verify_dump (create_value_dump t val) = true /\
  check_version_checksum (create_value_dump t val) = Some (to_version, crc64 (dump_body t val)).
Proof. exact dump_roundtrip. Qed.

(* altered in any byte (value data, version or checksum) *)
Theorem C11_dump_rejects_substitution : forall data ver i b,
  let d := payload data ver in
  (i < length d)%nat -> b <> nth i d x00 ->
  verify_dump (set_nth i b d) = false /\ check_version_checksum (set_nth i b d) = None.
Proof. exact dump_rejects_substitution. Qed.

(* a version above the supported one, even with a matching checksum *)
Theorem C11_dump_rejects_version : forall data ver, ver < 65536 ->
  (ver <> cupcake_version -> verify_dump (payload data ver) = false) /\
  (rdb_version < ver -> check_version_checksum (payload data ver) = None).
Proof. exact dump_rejects_version. Qed.

(* shorter than the 10-byte trailer *)
Theorem C11_dump_rejects_short : forall d, (length d < 10)%nat ->
  verify_dump d = false /\ check_version_checksum d = None.
Proof. exact dump_rejects_short. Qed.

Example C11_nonvacuous :
  create_value_dump x00 [x01; x61] = payload [x00; x01; x61] 6 /\ (3 < length (payload [x00; x01; x61] 6))%nat
  /\ verify_dump (payload [x00] 7) = false /\ check_version_checksum (payload [x00] 256) = None
  /\ check_version_checksum (payload [x00] 9) <> None.
Proof. vm_compute. repeat split; try lia; discriminate. Qed.

Print Assumptions C11_tables_are_jones.
Print Assumptions C11_digests_are_crc64.
Print Assumptions C11_chunking.
Print Assumptions C11_single_byte_detected.
Print Assumptions C11_footer_accepts_intact.
Print Assumptions C11_footer_rejects.
Print Assumptions C11_dump_roundtrip.
Print Assumptions C11_dump_rejects_substitution.
Print Assumptions C11_dump_rejects_version.
Print Assumptions C11_dump_rejects_short.
