(* Props/C09.v — The pipe is a lossless, deadlock-free FIFO byte stream with exact close rules.
   Statements only; every proof is `exact <lemma>`.  The machine of Model/Pipe.v takes one
   atomic step of pipe.go per event; the theorems quantify over every event list, i.e. over
   every interleaving of one reader, one writer and the four closes, every capacity and
   every chunking (wrap-around included). *)
From RS Require Import Base.Bytes Model.Backlog Model.Pipe Proofs.PipeProofs.
Open Scope N_scope.

(* the reader has received exactly a prefix of the bytes accepted from the writer; the
   remainder is what is buffered: nothing lost, duplicated or reordered *)
Theorem C09_fifo_any_schedule : forall sz unit evs, 0 < unit ->
  let s := prun (pinit sz unit) evs in
  exists q, delivered s ++ q = accepted s /\ N.of_nat (length q) = pb_buffered (pb s) /\ pb_buffered (pb s) <= psize (pb s).
Proof. exact fifo_any_schedule. Qed.

(* a reader is parked only while the buffer is empty, a writer only while it is full, and
   only while neither side has closed: any progress or close of the other side since it
   parked has signalled it (no lost wake-up) *)
Theorem C09_parked_only_when : forall sz unit evs, 0 < unit ->
  let s := prun (pinit sz unit) evs in
  (rst s = Parked -> pb_buffered (pb s) = 0 /\ werr s = None /\ rerr s = None) /\
  (wst s = Parked -> pb_available (pb s) = 0 /\ werr s = None /\ rerr s = None).
Proof. exact parked_only_when. Qed.

Theorem C09_never_both_parked : forall sz unit evs, 0 < unit ->
  let s := prun (pinit sz unit) evs in ~ (rst s = Parked /\ wst s = Parked).
Proof. exact never_both_parked. Qed.

(* a reader that is not parked always executes its next step *)
Theorem C09_reader_step_enabled : forall s, rreq s <> None -> rst s <> Parked -> snd (step_r s) <> ORejected.
Proof. exact step_r_enabled. Qed.

(* after the writer closed: buffered bytes first, then the writer's error (EOF by default) *)
Theorem C09_read_after_wclose_drains : forall s blen,
  rerr s = None -> werr s <> None -> rreq s = Some blen -> rst s = Running -> blen <> 0 -> PInv s ->
  match snd (step_r s) with
  | ORead (_ :: _) None => pb_buffered (pb s) <> 0
  | ORead [] (Some e) => pb_buffered (pb s) = 0 /\ werr s = Some e
  | _ => False
  end.
Proof. exact read_after_wclose_drains. Qed.

(* after the reader closed: reads fail with closed-pipe, writes with the reader's error,
   Buffered with the reader's error; nobody parks *)
Theorem C09_after_rclose_never_parks : forall s, rerr s <> None ->
  (rst s = Running -> rreq s <> None -> snd (step_r s) = ORead [] (Some EClosedPipe)) /\
  (wst s = Running -> forall rest nn, wreq s = Some (rest, nn) -> werr s = None -> snd (step_w s) = OWrite nn (rerr s)) /\
  (wst s = Running -> forall rest nn, wreq s = Some (rest, nn) -> werr s <> None -> snd (step_w s) = OWrite nn (Some EClosedPipe)) /\
  snd (pstep s DoBuffered) = OBuffered 0 (rerr s).
Proof. exact after_rclose_never_parks. Qed.

(* the invariant behind all of the above is kept by every event *)
Theorem C09_invariant : forall sz unit evs, 0 < unit -> PInv (prun (pinit sz unit) evs).
Proof. exact (fun sz unit evs Hu => prun_inv evs _ (pinit_inv sz unit Hu)). Qed.

Example C09_nonvacuous :
  let s := prun (pinit 1 4096) [StartWrite (repeat x61 5000); StepW; StepW; StartRead 10; StepR; StepW; StepW; StepW] in
  wst s = Parked /\ delivered s = repeat x61 10 /\ pb_buffered (pb s) = 4096 /\ length (accepted s) = 4106%nat.
Proof. vm_compute. repeat split. Qed.

Print Assumptions C09_fifo_any_schedule.
Print Assumptions C09_parked_only_when.
Print Assumptions C09_never_both_parked.
Print Assumptions C09_reader_step_enabled.
Print Assumptions C09_read_after_wclose_drains.
Print Assumptions C09_after_rclose_never_parks.
Print Assumptions C09_invariant.
