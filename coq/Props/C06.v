(* Props/C06.v — Configured filters are honoured identically in every mode and phase.
   Statements only; every proof is `exact <lemma>`.  `copied f db key` is the configuration's
   meaning: the database is not excluded by the database lists and the key is not excluded by
   the key lists.  path_full / path_restore are the worker loops of syncRDBFile /
   restoreRDBFile (C07), path_rump the fetcher of rump, path_incr the parser step (C03). *)
From RS Require Import Base.Bytes Base.Dec Model.Filter Model.CmdFilter Model.Incr Model.Workers Gen.Crc16 Proofs.WorkersProofs.
Open Scope Z_scope.

(* the lists mean what the documentation says *)
Theorem C06_key_prefix_semantics : forall key l, has_prefix_in key l = true <-> exists p r, In p l /\ key = p ++ r.
Proof. exact has_prefix_in_spec. Qed.
Theorem C06_db_exact_match : forall s l, match_one s l = true <-> In s l.
Proof. exact match_one_spec. Qed.
Theorem C06_key_decision : forall f key, filter_key f key = prefix_of checkpoint_key key || key_excluded f key.
Proof. exact filter_key_spec. Qed.

(* the same decision for the same key on every path; full sync additionally applies the slot list *)
Theorem C06_paths_agree : forall f db key, prefix_of checkpoint_key key = false ->
  path_restore f db key = copied f db key /\
  path_rump f db key = copied f db key /\
  path_full f db key = copied f db key && negb (filter_slot f (key_slot key)).
Proof. exact paths_agree. Qed.
Theorem C06_incr_agrees : forall c db key v rest off, prefix_of checkpoint_key key = false ->
  path_incr c db {| r_cmd := w_set; r_args := key :: v :: rest; r_end := off |} = copied (i_f c) db key.
Proof. exact incr_set_agrees. Qed.

(* the tool's own checkpoint keys *)
Theorem C06_checkpoint_keys : forall f db key, prefix_of checkpoint_key key = true ->
  path_full f db key = false /\ path_restore f db key = false /\
  (key_filter_configured f = true -> path_rump f db key = false).
Proof. exact checkpoint_keys_excluded. Qed.
Theorem C06_checkpoint_keys_incr : forall c db key v rest off, prefix_of checkpoint_key key = true -> key_filter_configured (i_f c) = true ->
  path_incr c db {| r_cmd := w_set; r_args := key :: v :: rest; r_end := off |} = false.
Proof. exact incr_checkpoint_key. Qed.

(* script commands exactly when filter.lua is set; the bookkeeping command never *)
Theorem C06_command_filter : forall f cmd,
  filter_command f cmd = equal_fold cmd w_opinfo
    || (filter_lua f && (equal_fold cmd w_eval || equal_fold cmd w_script || equal_fold cmd w_evalsha)).
Proof. exact command_filter_spec. Qed.
Theorem C06_bookkeeping_never_forwarded : forall c db r, equal_fold (r_cmd r) w_opinfo = true -> path_incr c db r = false.
Proof. exact opinfo_never_forwarded. Qed.

(* lua script records of an RDB are not subject to the db / key / slot lists (F17, fixed);
   whether they are loaded is decided by filter.lua alone (C02_lua) *)
Theorem C06_scripts_not_key_filtered : forall c i e es, we_aux e = true -> In (i, -1) (expected c ((i, e) :: es)).
Proof. exact script_always_delivered. Qed.

Example C06_nonvacuous :
  let f := {| key_black := []; key_white := [[x61; x62]]; db_black := [[x33]]; db_white := []; slot_list := []; filter_lua := true |} in
  copied f 0 [x61; x62; x63] = true /\ copied f 0 [x61] = false /\ copied f 3 [x61; x62] = false /\ copied f 30 [x61; x62] = true.
Proof. vm_compute. auto. Qed.

Print Assumptions C06_paths_agree.
Print Assumptions C06_incr_agrees.
Print Assumptions C06_checkpoint_keys.
Print Assumptions C06_bookkeeping_never_forwarded.
