(* Props/C02.v — Restoring an entry leaves the target key equal to the source key.
   Statements only; every proof is `exact <lemma>`.  `pf` is strconv.ParseFloat (text scores);
   the theorems hold for every such function.  The target is the key slot of the selected
   database plus the loaded scripts: every command the restore issues names the (rewritten)
   key, so no other key can change.  `whole e v`: e is an unsplit parser record (C01) whose
   payload Redis decodes (C12's decoder) to the non-empty logical value v. *)
From RS Require Import Base.Bytes Base.Endian Model.Rdb Model.Cupcake Model.Restore Proofs.RestoreProofs.
Open Scope N_scope.

(* fresh key, or key_exists = rewrite over ANY existing value: whichever route is taken - one
   RESTORE (with REPLACE, or DEL and retry), the element-by-element big-key route, the quicklist
   route, the "Bad data format" fallback - the key ends with exactly the source value and a
   time-to-live of expiry - now (1 when already passed, none when the source has none) *)
Theorem C02_source_value_and_ttl : forall pf c now e t v,
  whole pf e v -> (t_slot t = None \/ c_policy c = PRewrite) ->
  restore pf c now e t =
    ({| t_slot := Some {| k_val := TLog (norm v); k_ttl := ttl_of now (e_expire e) |}; t_scripts := t_scripts t |}, Done).
Proof. exact restore_writes. Qed.

(* key_exists = none over a busy key: an error, nothing written (RESTORE and quicklist routes) *)
Theorem C02_none : forall pf c now e t k,
  c_policy c = PNone -> t_slot t = Some k -> is_big c e = false -> not_script e -> e_value e <> [] ->
  restore pf c now e t = (t, Failed).
Proof. exact restore_none. Qed.

(* key_exists = ignore over a busy key: success, nothing written *)
Theorem C02_ignore : forall pf c now e t k,
  c_policy c = PIgnore -> t_slot t = Some k -> is_big c e = false -> not_script e -> e_value e <> [] ->
  restore pf c now e t = (t, Done).
Proof. exact restore_ignore. Qed.

(* the big-key route does not look at the policy (finding F9, KNOWN_FINDINGS big-route-policy) *)
Theorem C02_big_route_policy_refuted :
  restore nofloat (wit_cfg PNone 0 0) 5 (wit_entry 0) (busy (LString [x6f])) =
    ({| t_slot := Some {| k_val := TLog (LString [x76]); k_ttl := 0 |}; t_scripts := [] |}, Done).
Proof. exact big_route_policy_refuted. Qed.

(* a hash delivered in chunk records (first: length header, later ones: bare pairs): restored in
   order they leave the hash of all pairs with the first record's expiry *)
Theorem C02_chunked_hash : forall pf c now e0 es t p0 ps,
  (t_slot t = None \/ c_policy c = PRewrite) ->
  e_type e0 = 4 -> e_need_len e0 = 1 -> e_real_count e0 <> 0 -> elems_of pf e0 = Some (LHash p0) -> p0 <> [] ->
  Forall2 (chunk_ok pf (e_expire e0)) es ps ->
  restore_all pf c now (e0 :: es) t =
    ({| t_slot := Some {| k_val := TLog (LHash (upsert_all (p0 ++ concat ps) [])); k_ttl := ttl_of now (e_expire e0) |};
        t_scripts := t_scripts t |}, Done).
Proof. exact restore_chunks. Qed.

Theorem C02_distinct_fields : forall ps : list (bytes * bytes), NoDup (map fst ps) -> upsert_all ps [] = ps.
Proof. exact hash_distinct_fields. Qed.

(* lua script records: SCRIPT LOAD exactly when filter.lua is off; no key is touched *)
Theorem C02_lua : forall pf c now e t, e_type e = 250 -> e_key e = [x6c; x75; x61] ->
  restore pf c now e t =
    ({| t_slot := t_slot t; t_scripts := if c_filter_lua c then t_scripts t else t_scripts t ++ [e_value e] |}, Done).
Proof. exact restore_lua. Qed.

(* no version string makes the comparison abort: it always answers 0..3 *)
Theorem C02_version_total : forall a b level, exists r, compare_version a b level = Some r /\ r <= 3.
Proof. exact compare_version_total. Qed.

(* the pinned tree: "5" against "5.0" indexed past the end (F3), rewrite without REPLACE deleted
   the key and returned (F6), the fallback dropped the expiry (F8) - all repaired *)
Theorem C02_pinned_version_refuted : compare_version_pinned [x35] [x35; x2e; x30] 2 = None.
Proof. exact compare_version_pinned_refuted. Qed.
Theorem C02_pinned_rewrite_refuted :
  fst (restore_pinned nofloat (wit_cfg PRewrite 1000 0) 5 (wit_entry 0) (busy (LString [x6f]))) = {| t_slot := None; t_scripts := [] |}.
Proof. exact pinned_rewrite_refuted. Qed.

Example C02_nonvacuous : whole nofloat (wit_entry 0) (LString [x76]).
Proof. exact wit_whole. Qed.

Print Assumptions C02_source_value_and_ttl.
Print Assumptions C02_none.
Print Assumptions C02_ignore.
Print Assumptions C02_chunked_hash.
Print Assumptions C02_lua.
Print Assumptions C02_version_total.
