(* Props/C18.v — The backlog ring returns the bytes written at an offset, or says they are gone.
   Statements only; every proof is `exact <lemma>`. *)
From RS Require Import Base.Bytes Model.Backlog Proofs.BacklogProofs.
Open Scope N_scope.

(* For every capacity, every sequence of writes (any sizes, any number of wrap-arounds) and
   every read request (buffer length blen at absolute offset rpos), with log = all bytes
   written so far:  Data = exactly the log's bytes at rpos onward (never other bytes);
   Wait iff rpos is the write position; Invalid iff rpos is beyond the writer or overwritten. *)
Theorem C18_read_at_spec : forall sz unit ws blen rpos, 0 < unit ->
  let r := run_writes (new_ring sz unit) ws in
  let log := concat ws in
  let total := N.of_nat (length log) in
  match read_at r blen rpos with
  | Data bs => bs = firstn (length bs) (skipn (N.to_nat rpos) log) /\ 0 < N.of_nat (length bs) <= blen /\
               rpos + N.of_nat (length bs) <= total /\ total <= rpos + size r
  | Wait => rpos = total /\ blen <> 0
  | Invalid => total < rpos \/ rpos + size r < total
  | Empty => blen = 0
  | Closed => False
  end.
Proof. exact read_at_reachable. Qed.

(* the reported data range is the most recent min(total written, capacity) bytes *)
Theorem C18_data_range : forall sz unit ws, 0 < unit ->
  let r := run_writes (new_ring sz unit) ws in
  let total := N.of_nat (length (concat ws)) in
  data_range r = (total - N.min total (size r), total).
Proof. exact data_range_reachable. Qed.

(* a reader is valid exactly while its position lies inside that range *)
Theorem C18_reader_valid_iff : forall r seek, closed r = false ->
  reader_valid r seek = true <-> (fst (data_range r) <= seek <= snd (data_range r)).
Proof. exact reader_valid_spec. Qed.

(* writes never block and write everything (one Write = all bytes appended to the log) *)
Theorem C18_write_appends : forall r log bs, rel r log -> closed r = false ->
  let '(r', n, err) := write r bs in
  rel r' (log ++ bs) /\ n = N.of_nat (length bs) /\ err = false /\ size r' = size r /\ closed r' = false.
Proof. exact write_rel. Qed.

(* after Close every read (in particular the re-evaluation of a parked reader) fails *)
Theorem C18_close_fails_reads : forall r blen rpos, blen <> 0 -> read_at (close r) blen rpos = Closed.
Proof. exact close_closed. Qed.

Example C18_nonvacuous :
  let r := run_writes (new_ring 1 4096) [repeat x61 4000; repeat x62 200] in
  wpos r = 4200 /\ read_at r 10 4090 = Data (repeat x61 0 ++ repeat x62 6) /\ read_at r 10 103 = Invalid
  /\ read_at r 10 104 = Data (repeat x61 10) /\ read_at r 5 4200 = Wait.
Proof. vm_compute. repeat split. Qed.

Print Assumptions C18_read_at_spec.
Print Assumptions C18_data_range.
Print Assumptions C18_reader_valid_iff.
Print Assumptions C18_write_appends.
Print Assumptions C18_close_fails_reads.
