(* Props/C01.v — RDB parsing delivers every key exactly, whatever its encoding.
   Statements only; every proof is `exact <lemma>`.
   enc_file = the RDB format as Redis writes it (Spec/RdbFormat.v: an encoder from an abstract
   syntax with every length form, string encoding, value type and metadata opcode);
   records_of = what must be delivered, defined from the syntax tree alone (Spec/RdbRecords.v);
   load_all = the model of Header / NextBinEntry* / Footer (Model/Rdb.v). *)
From RS Require Import Base.Bytes Base.Endian Spec.Crc64 Gen.Crc64 Gen.Rdb Model.Digest Model.Rdb
  Spec.RdbFormat Spec.RdbRecords Proofs.RdbProofs Proofs.DigestProofs Proofs.SplitProofs Model.Lzf Proofs.LzfSpec.
Open Scope N_scope.

(* Every well-formed file of version 1..9 whose hashes stay below the chunk limit: the parser
   yields exactly the records of the file, in file order, each with database, logical key,
   type, expiry in ms, idle/freq hints and the byte-exact serialized value wrapped as a DUMP
   payload; lua scripts as script records; aux fields, resize hints and module-aux data are
   skipped; and the end-of-file checksum verifies. *)
Theorem C01_parse_exact : forall limit version us,
  wf_version version -> Forall (wf_unit limit) us ->
  load_all limit (enc_file version us) = Loaded (records_of limit meta0 us).
Proof. exact (fun limit version us Wv Wu => load_all_exact limit version us Wv Wu eq_refl). Qed.

(* The same without the "below the chunk limit" restriction: EVERY well-formed file of version
   1..9, hashes of any size included. A hash whose serialisation crosses the limit is delivered
   as the consecutive chunk records of Spec.key_records (the continuation records carry the
   key's database, name, type, expiry, idle and freq; C01_hash_records_cover says what those
   records are in the words of the property). wf_unit2 is wf_unit minus the `unsplit` clause. *)
Theorem C01_parse_exact_split : forall limit version us,
  wf_version version -> Forall wf_unit2 us ->
  load_all limit (enc_file version us) = Loaded (records_of limit meta0 us).
Proof. exact (fun limit version us Wv Wu => load_all_exact2 limit version us Wv Wu eq_refl). Qed.

(* the records of one hash, split or not: each carries the key's database, name, type, expiry,
   idle and freq; their serialized bodies, concatenated, are exactly the serialized hash (count
   header, then every field/value pair in file order); each body is wrapped as a DUMP payload;
   and there is at least one record *)
Theorem C01_hash_records_cover : forall limit m k f ps,
  let rs := key_records limit m k (VHash f ps) in
  Forall (fun e => e_db e = m_db m /\ e_key e = logical_string k /\ e_type e = 4 /\
                   e_expire e = m_exp m /\ e_idle e = m_idle m /\ e_freq e = m_freq m) rs /\
  exists bodies, map e_value rs = map (create_value_dump (n2b 4)) bodies /\
                 concat bodies = enc_value (VHash f ps) /\ rs <> [].
Proof. exact hash_records_cover. Qed.

(* the chunking rule is a partition of the pairs: nothing lost, duplicated or reordered, no
   empty chunk *)
Theorem C01_chunks_partition : forall limit cap ps,
  concat (chunks (S (length ps)) limit cap ps) = ps /\
  Forall (fun c => c <> []) (chunks (S (length ps)) limit cap ps).
Proof. exact (fun limit cap ps => chunks_partition limit (S (length ps)) cap ps (Nat.le_succ_diag_r _)). Qed.

(* LZF-compressed strings (keys, script bodies): what the decompressor of the model MEANS, given
   independently of its state machine. A stream is a sequence of tokens - a literal run of 1..32
   bytes or a back-reference (distance 1..8192, length 3..264) copied byte by byte from the
   output written so far, so a reference longer than its distance repeats the pattern it is
   writing (runs, "abab...") - and the machine decodes the encoding of every well-formed token
   sequence to exactly its expansion; e.g. one literal byte followed by a distance-1 reference
   of length n is a run of n+1 equal bytes. *)
Theorem C01_lzf_is_lz77 : forall ts,
  wf_toks ts [] -> lzf_decompress (concat (map enc_tok ts)) (lenN' (expand ts [])) = Some (expand ts []).
Proof. exact lzf_decompress_spec. Qed.

Theorem C01_lzf_overlapping_run : forall c n, 3 <= n <= 264 ->
  lzf_decompress (enc_tok (TLit [c]) ++ enc_tok (TBack 1 n)) (1 + n) = Some (repeat c (S (N.to_nat n))).
Proof. exact lzf_run_spec. Qed.

(* the limit in the source, and the opcode / type constants the model is written with *)
Theorem C01_constants :
  hash_chunk_limit = 16 * 1024 * 1024 /\
  (t_string, t_list, t_set, t_zset, t_hash, t_zset2, t_zipmap, t_list_ziplist, t_intset, t_zset_ziplist, t_hash_ziplist, t_quicklist, t_stream)
    = (0, 1, 2, 3, 4, 5, 9, 10, 11, 12, 13, 14, 15) /\
  (op_module_aux, op_idle, op_freq, op_aux, op_resize, op_expire_ms, op_expire, op_select, op_eof)
    = (247, 248, 249, 250, 251, 252, 253, 254, 255) /\
  from_version = 9.
Proof. repeat split. Qed.

(* every payload is a valid checksummed DUMP payload (for any type byte and value bytes) *)
Theorem C01_payload_is_valid_dump : forall t val,
  verify_dump (create_value_dump t val) = true /\
  check_version_checksum (create_value_dump t val) = Some (to_version, crc64 (dump_body t val)).
Proof. exact dump_roundtrip. Qed.

(* the value part of a record is byte-for-byte the serialized value of the file *)
Theorem C01_value_bytes_exact : forall limit v rs, wf_value v -> unsplit limit v -> remain rs = 0 -> vtype v < 256 ->
  exists rs', exact (read_object limit (vtype v) rs) (enc_value v) (create_value_dump (n2b (vtype v)) (enc_value v), rs') /\
              (if last_read rs' =? tot rs' then 0 else last_read rs') = 0 /\ remain rs' = 0.
Proof. exact exact_read_object. Qed.

(* every string encoding (raw, int8/16/32, LZF) is read back as the logical string *)
Theorem C01_strings_exact : forall x, wf_string x -> exact read_string (enc_string x) (logical_string x).
Proof. exact exact_read_string. Qed.

(* every length form, with the 64-bit form yielding the high word (only used where discarded) *)
Theorem C01_lengths_exact : forall f n, fits f n -> exact read_length (enc_len f n) (model_value f n).
Proof. exact exact_read_length. Qed.

(* a split hash is delivered in chunks whose pairs, concatenated, are the hash: greedy chunking
   of the specification never loses or reorders a pair *)
Theorem C01_unsplit_is_single_record : forall limit m k v, unsplit limit v ->
  key_records limit m k v = [mk m (logical_string k) (vtype v) (create_value_dump (n2b (vtype v)) (enc_value v)) 0 1].
Proof. exact key_records_unsplit. Qed.

Example C01_nonvacuous :
  let us := [USelect L6 3; UExpMs 1600000000123; UIdle L6 9; UFreq 200;
             UKey (SInt8 7) (VHash L14 [(SRaw L6 [x66], SInt16 300)]);
             ULua L6 (SRaw L6 [x72]);
             UModuleAux L64 5000000000 [MFloat L6 [x01;x02;x03;x04]] L6;
             UKey (SRaw L6 [x7a]) (VZSet L6 [(SRaw L6 [x6d], ScText [x33;x2e;x35])])] in
  load_all hash_chunk_limit (enc_file 7 us) = Loaded (records_of hash_chunk_limit meta0 us) /\ length (records_of hash_chunk_limit meta0 us) = 3%nat.
Proof. vm_compute. split; reflexivity. Qed.

(* a file whose hash is split (limit 8: 2 pairs, then 3), with expiry / idle / freq bound to it:
   the hypotheses of C01_parse_exact_split hold, and the two chunk records both carry the expiry *)
Example C01_split_nonvacuous :
  let us := [USelect L6 3; UExpMs 1600000000123; UIdle L6 9; UFreq 200;
             UKey (SInt8 7) (VHash L14 [(SRaw L6 [x66], SInt16 300); (SRaw L6 [x67], SRaw L6 [x01;x02;x03;x04;x05;x06;x07;x08;x09]);
                                        (SRaw L6 [x68], SInt8 1); (SRaw L6 [x69], SInt8 2); (SRaw L6 [x6a], SInt8 3)]);
             UKey (SRaw L6 [x7a]) (VZSet L6 [(SRaw L6 [x6d], ScText [x33;x2e;x35])])] in
  Forall wf_unit2 us /\ wf_version 9 /\
  load_all 8 (enc_file 9 us) = Loaded (records_of 8 meta0 us) /\
  map (fun e => (e_real_count e, e_need_len e, e_expire e)) (records_of 8 meta0 us)
    = [(2, 1, 1600000000123); (3, 0, 1600000000123); (0, 1, 0)].
Proof.
  cbv zeta. split. { repeat constructor; cbn; try lia; try discriminate. }
  split; [unfold wf_version; lia|]. vm_compute. split; reflexivity.
Qed.

Print Assumptions C01_parse_exact.
Print Assumptions C01_parse_exact_split.
Print Assumptions C01_hash_records_cover.
Print Assumptions C01_chunks_partition.
Print Assumptions C01_lzf_is_lz77.
Print Assumptions C01_lzf_overlapping_run.
Print Assumptions C01_constants.
Print Assumptions C01_payload_is_valid_dump.
Print Assumptions C01_value_bytes_exact.
Print Assumptions C01_strings_exact.
Print Assumptions C01_lengths_exact.
