(* Props/C16.v — Scan-based migration (rump) copies every scanned key faithfully.
   Statements only; every proof is `exact <lemma>`.  The source is described by what it
   answers: per database the SCAN pages in cursor order and, per returned key, the DUMP reply
   (None = the key was gone) and the PTTL reply (-2 gone / expired, -1 no expiry).  `rump` is
   the fetcher + writer + the two target connections; `spec_rump` is defined from the listing
   alone. *)
From RS Require Import Base.Bytes Model.Filter Model.Rump Model.Rdb Model.Cupcake Model.Restore Proofs.RestoreProofs Proofs.RumpProofs.
Open Scope Z_scope.

(* for EVERY source keyspace, pagination, pattern of vanishing keys and configuration: the
   writes reaching the target are exactly the scanned keys that pass the filters and still
   exist, in scan order, each with the source's DUMP payload, the remaining ttl (none stays
   none), in its own database or target.db, big keys on the big-key connection *)
Theorem C16_writes_exact : forall c src, rump c src = spec_rump c src.
Proof. exact rump_spec. Qed.

(* only the sequence of keys returned by the cursor walk matters, not how it is cut into pages
   (empty pages, page size vs batch size) *)
Theorem C16_pagination_irrelevant : forall c db pages pages', concat pages = concat pages' ->
  rump c [{| sd_db := db; sd_pages := pages |}] = rump c [{| sd_db := db; sd_pages := pages' |}].
Proof. exact pagination_irrelevant. Qed.

Theorem C16_vanished_skipped : forall c db k, sk_pttl k = -2 -> copied_key c db k = None.
Proof. exact vanished_skipped. Qed.

Theorem C16_live_key_copied : forall c db k, sk_pttl k <> -2 -> key_filter_configured (r_f c) && filter_key (r_f c) (sk_key k) = false ->
  exists w, copied_key c db k = Some w /\ rw_key w = sk_key k /\
            rw_payload w = match sk_dump k with Some d => d | None => [] end /\
            rw_ttl w = (if sk_pttl k =? -1 then 0 else sk_pttl k) /\
            rw_db w = (if r_tdb c =? -1 then db else r_tdb c).
Proof. exact live_key_copied. Qed.

(* a big key expanded element by element - on a free target key, or under key_exists = rewrite
   over any existing value (DEL first; F18, repaired) - ends as the source value with the
   remaining ttl (C02's element route) *)
Theorem C16_big_key_faithful : forall pf key e v ttl del s, whole pf e v -> (s = None \/ del = true) ->
  big_apply pf key (e_value e) ttl del s = (Some {| k_val := TLog (norm v); k_ttl := ttl |}, Done).
Proof. exact big_key_faithful. Qed.

(* finding: over a busy target key under key_exists = none the expansion merges instead of failing *)
Theorem C16_big_key_merge_refuted :
  fst (big_apply nofloat [x6b] (Model.Digest.create_value_dump x01 [x01; x01; x61]) 0 false (Some {| k_val := TLog (LList [[x6f]]); k_ttl := 0 |}))
    = Some {| k_val := TLog (LList [[x6f]; [x61]]); k_ttl := 0 |}.
Proof. exact big_key_merge_refuted. Qed.

Example C16_nonvacuous :
  let f := {| key_black := [[x62]]; key_white := []; db_black := []; db_white := []; slot_list := []; filter_lua := false |} in
  let c := {| r_f := f; r_tdb := -1; r_threshold := 3; r_rewrite := true |} in
  let k key d t := {| sk_key := key; sk_dump := d; sk_pttl := t |} in
  rump c [{| sd_db := 2; sd_pages := [[k [x61] (Some [x01]) (-1)]; []; [k [x62] (Some [x02]) 5; k [x63] None (-2); k [x64] (Some [x01; x02; x03]) 70]] |}]
  = [ {| rw_db := 2; rw_key := [x61]; rw_payload := [x01]; rw_ttl := 0; rw_big := false; rw_replace := true |};
      {| rw_db := 2; rw_key := [x64]; rw_payload := [x01; x02; x03]; rw_ttl := 70; rw_big := true; rw_replace := true |} ].
Proof. vm_compute. reflexivity. Qed.

Print Assumptions C16_writes_exact.
Print Assumptions C16_pagination_irrelevant.
Print Assumptions C16_live_key_copied.
Print Assumptions C16_big_key_faithful.
