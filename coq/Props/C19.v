(* Props/C19.v — Configured passwords never appear in logs or status output.
   Statements only; every proof is `exact <lemma>` or the evaluation of a checker on the
   regenerated tables.  Gen/Flow.v is the may-flow graph tools/goflow extracts from the source
   on every run (secret fields and password-named parameters as sources; every argument of a
   logging / printing / formatting / error-constructing / JSON-encoding call as a sink; edges
   through struct containment, string variables, parameters and results; GetSafeOptions cut).
   Gen/Config.v lists the fields of Configuration and the ones GetSafeOptions overwrites. *)
From Coq Require Import List PArith Bool String.
From RS Require Import Model.FlowCert Proofs.FlowProofs Gen.Flow Gen.Config.
Import ListNotations.

(* the checker is sound: an accepted certificate excludes every path from a source to a sink *)
Theorem C19_certificate_sound : forall g srcs sinks C, check g srcs sinks C = true ->
  forall s t, In s srcs -> In t sinks -> ~ path g s t.
Proof. exact check_sound. Qed.

(* on the current source: no secret can flow into anything the tool logs, prints, formats into
   an error or serialises *)
Theorem C19_no_secret_reaches_a_sink : forall s t, In s flow_sources -> In t flow_sinks -> ~ path flow_edges s t.
Proof. apply (check_sound flow_edges flow_sources flow_sinks (set_of flow_certificate)). vm_compute. reflexivity. Qed.

(* where a configuration object is shown it went through GetSafeOptions: two configurations
   differing only in masked fields are indistinguishable, a masked field shows "***" *)
Theorem C19_safe_options_noninterference : forall masked c c', agree_outside masked c c' -> safe_options masked c = safe_options masked c'.
Proof. exact safe_options_noninterference. Qed.
Theorem C19_masked_value_hidden : forall masked c f v, In (f, v) (safe_options masked c) -> mem_str f masked = true -> v = "***"%string.
Proof. exact masked_value_hidden. Qed.

(* every field of Configuration whose name mentions a password is masked, and GetSafeOptions
   has the shape copy / overwrite / return *)
Theorem C19_all_password_fields_masked :
  forallb (fun f => implb (names_password f) (mem_str f masked_fields)) config_fields = true /\ safe_options_shape_ok = true.
Proof. split; vm_compute; reflexivity. Qed.

Example C19_nonvacuous : existsb names_password config_fields = true /\ flow_sources <> [] /\ (100 < List.length flow_sinks)%nat.
Proof. split; [vm_compute; reflexivity | split; [discriminate | vm_compute; repeat constructor]]. Qed.

Print Assumptions C19_certificate_sound.
Print Assumptions C19_no_secret_reaches_a_sink.
Print Assumptions C19_safe_options_noninterference.
Print Assumptions C19_all_password_fields_masked.
