(* Props/C12.v — Value and RDB-file serialisation round-trips through the parser.
   Statements only; every proof is `exact <lemma>`.  Scores are IEEE-754 bit patterns; the two
   decimal conversions (strconv.FormatFloat 'g' 17 / ParseFloat) are parameters related by the
   single law `float_law` (every finite double survives the text round trip in < 253 bytes). *)
From RS Require Import Base.Bytes Base.Endian Base.Dec Model.Rdb Spec.RdbFormat Spec.Compact Model.Cupcake Proofs.RdbProofs Proofs.CupcakeProofs Proofs.WriterProofs.
Open Scope N_scope.

(* DecodeDump (EncodeDump v) = v for strings, lists, sets, hashes, sorted sets: same elements,
   same order; any bytes incl. integer-looking strings at the int8/16/32 limits; any score
   (infinities, -0, NaN up to its payload: canon maps every NaN to the canonical NaN) *)
Theorem C12_dump_roundtrip : forall fmt_g17 parse_float,
  (forall b, finite b -> parse_float (fmt_g17 b) = Some b /\ lenN (fmt_g17 b) < 253) ->
  forall v, wf_logical v -> decode_dump parse_float (encode_dump fmt_g17 v) = Some (canon v).
Proof. exact dump_roundtrip_logical. Qed.

(* strings written by the encoder (integer form only when the decimal rendering is exact) are
   read back byte-identically *)
Theorem C12_string_roundtrip : forall s, lenN s < 2 ^ 32 -> exact cup_read_string (cup_enc_string s) s.
Proof. exact exact_cup_string. Qed.

(* the tool's decoder on the compact encodings: every ziplist entry form Redis writes
   (6/14/32-bit strings, int16/32/64/24/8, 4-bit immediates; 1- or 5-byte prevlen) ... *)
Theorem C12_ziplist_entry : forall p v, wf_prev p -> wf_zval v -> exact zl_entry (enc_prev p ++ enc_zval v) (zval_logical v).
Proof. exact exact_zl_entry. Qed.

(* ... whole ziplists (lists, and pairwise hashes / sorted sets) ... *)
Theorem C12_ziplist : forall zlbytes zltail es,
  N.of_nat (length es) < 65535 -> Forall (fun e => wf_prev (fst e) /\ wf_zval (snd e)) es ->
  zl_entries (enc_ziplist zlbytes zltail es) = Some (map (fun e => zval_logical (snd e)) es).
Proof. exact zl_entries_spec. Qed.

(* ... and intsets of 16, 32 and 64 bits decode to the decimal renderings Redis materialises *)
Theorem C12_intset : forall width zs, (width = 2 \/ width = 4 \/ width = 8) ->
  N.of_nat (length zs) < 2 ^ 32 ->
  Forall (fun z => (- 2 ^ (Z.of_N (8 * width) - 1) <= z < 2 ^ (Z.of_N (8 * width) - 1))%Z) zs ->
  intset_members (enc_intset width zs) = Some (map render zs).
Proof. exact intset_spec. Qed.

(* zipmaps: the decoder deviates from the format for items of 253+ bytes and for 254+ entries
   (known findings F23, F27); witnesses computed on the model *)
Theorem C12_zipmap_refuted :
  zipmap_pairs (enc_zipmap 1 [([x6b], repeat x76 300, [])]) <> Some [([x6b], repeat x76 300)] /\
  zipmap_pairs (enc_zipmap 1 [([x6b], [x76], [x00])]) = Some [([x6b], [x76])].
Proof. split; [vm_compute; discriminate|vm_compute; reflexivity]. Qed.

Example C12_nonvacuous :
  wf_logical (LHash [([x31;x32], [x2d;x31;x32;x39])]) /\
  zl_entries (enc_ziplist 0 0 [(P1 0, ZI24 (-70000)); (P5 300, ZStr14 (repeat x61 70)); (P1 9, ZImm 12)])
    = Some [render (-70000); repeat x61 70; render 12].
Proof. split; [cbn; repeat split; try lia; repeat constructor; cbn; lia|vm_compute; reflexivity]. Qed.

(* the file the tool's writer produces for a sequence of (database, key, expiry, value) IS a file
   of the format specification, for an explicit syntax tree (select / expiry / key units, the
   length and string forms the encoder picks) - so C01's parser theorem applies to it *)
Theorem C12_writer_is_spec : forall fmt_g17 os, encode_file_objs fmt_g17 os = enc_file 6 (units_of fmt_g17 None os).
Proof. exact writer_is_spec. Qed.

(* whole-file round trip: the tool's parser reads the tool's writer's file back as one record per
   object, in order, with the same database, key and expiry and a payload that decodes to the
   value (hashes below the chunk limit; sizes < 2^32; the text form of a score is a valid double
   of < 253 bytes) *)
Theorem C12_file_roundtrip : forall fmt_g17 parse_float limit (os : list obj),
  (forall b, finite b -> parse_float (fmt_g17 b) = Some b /\ lenN (fmt_g17 b) < 253) ->
  (forall b, lenB (fmt_g17 b) < 253 /\ float_ok (fmt_g17 b) = true) ->
  Forall (obj_ok fmt_g17 limit) os -> Forall (fun o => wf_logical (snd o)) os ->
  exists es, load_all limit (encode_file_objs fmt_g17 os) = Loaded es /\
    Forall2 (fun (o : obj) e => let '(db, key, exp, v) := o in
               e_db e = db /\ e_key e = key /\ e_expire e = exp /\ e_real_count e = 0 /\ e_need_len e = 1 /\
               decode_dump parse_float (e_value e) = Some (canon v)) os es.
Proof. exact file_roundtrip. Qed.

Print Assumptions C12_dump_roundtrip.
Print Assumptions C12_writer_is_spec.
Print Assumptions C12_file_roundtrip.
Print Assumptions C12_string_roundtrip.
Print Assumptions C12_ziplist_entry.
Print Assumptions C12_ziplist.
Print Assumptions C12_intset.
