(* Props/C04.v — Checkpoints are atomic with the data, so resume loses and repeats nothing.
   Statements only; every proof is `exact <lemma>`. *)
From RS Require Import Base.Bytes Base.Dec Model.RespCodec Model.Filter Model.Checkpoint Model.Incr Proofs.IncrProofs Proofs.CheckpointProofs.
Open Scope Z_scope.

(* with resume on, every flush group is MULTI, its commands, the checkpoint (run id and
   version the first time for that db, then the offset of the LAST command of the group), EXEC *)
Theorem C04_group_shape : forall c seen g l, i_resume c = true ->
  last g {| it_cmd := []; it_args := []; it_off := 0; it_db := 0 |} = l -> g <> [] ->
  (length g <> 1%nat \/ beqs (it_cmd l) w_ping = false) ->
  exists mid,
    fst (wire_group c seen g) =
      (w_multi, []) :: map tc g ++ mid ++ [(w_hset, [i_ckpt c; field_name (i_src c) s_offset; render (it_off l)]); (w_exec, [])] /\
    (mid = [] \/ mid = [(w_hset, [i_ckpt c; field_name (i_src c) s_runid; i_runid c]);
                        (w_hset, [i_ckpt c; field_name (i_src c) s_version; render 1])]).
Proof. exact group_shape. Qed.

(* the offset stored with a group is the source offset right after a command of the stream *)
Theorem C04_offsets_are_stream_positions : forall c base rs s items, parse_all c base s rs = Some items ->
  Forall (fun i => exists r, In r rs /\ it_off i = base + r_end r) items.
Proof. exact item_offsets. Qed.

(* wherever the connection is cut (between any two commands, inside or outside MULTI), the
   target state is the state after a whole number of groups: data and checkpoint move together.
   D = everything the target stores; apply = any deterministic command semantics *)
Theorem C04_crash_atomic : forall (D cmd : Type) (apply : D -> cmd -> D) gs d k,
  exists j, (j <= length gs)%nat /\
    after_cut D cmd apply d (firstn k (wire cmd gs)) = fold_left (gapply D cmd apply) (firstn j gs) d.
Proof. exact crash_atomic. Qed.

(* restarting from a stored checkpoint (fresh parser, connection in the recorded db) continues
   the reference semantics exactly: nothing lost, nothing applied twice *)
Theorem C04_resume_equiv : forall c base', i_tdb c = None -> forall rs1 rs2 items2,
  Forall (fun r => kind_of r <> KBad) rs1 ->
  Forall (fun r => r_cmd r <> w_SELECT) rs2 ->
  snd (state_after c 0 false rs1) = false ->
  parse_all c base' pst0 rs2 = Some items2 ->
  spec c 0 false (rs1 ++ rs2) =
    spec c 0 false rs1 ++ delivered (fst (state_after c 0 false rs1)) (filter notmarker items2).
Proof. exact resume_equiv. Qed.

(* what the sender stores is what the loader reads back (C14) *)
Theorem C04_checkpoint_readable : forall src runid offset fs,
  NoDup (map fst fs) -> in_int64 offset = true ->
  fetch src (Some (sender_write src runid offset fs)) = Some (runid, offset, 1).
Proof. exact reads_what_sender_writes. Qed.

Example C04_nonvacuous :
  let f := {| key_black := []; key_white := []; db_black := []; db_white := []; slot_list := []; filter_lua := false |} in
  let c := {| i_f := f; i_tdb := None; i_resume := true; i_scount := 2; i_ssize := 1000; i_src := [x73]; i_runid := [x72]; i_ckpt := [x6b] |} in
  let i1 := {| it_cmd := [x73;x65;x74]; it_args := [[x61]; [x31]]; it_off := 1020; it_db := 0 |} in
  length (fst (wire_group c [] [i1])) = 6%nat /\ length (fst (wire_group c [0] [i1])) = 4%nat.
Proof. vm_compute. split; reflexivity. Qed.

Print Assumptions C04_group_shape.
Print Assumptions C04_offsets_are_stream_positions.
Print Assumptions C04_crash_atomic.
Print Assumptions C04_resume_equiv.
Print Assumptions C04_checkpoint_readable.
