(* Props/C07.v — Parallel full sync restores every key exactly once into the right database.
   Statements only; every proof is `exact <lemma>`.  A schedule hands each record of the file
   (in file order, through the channel) to one of n workers; every worker owns one target
   connection (selected database 0 at the start) and its `lastdb`.  A write is (record index,
   database it lands in); -1 marks a script load.  `expected` is defined from the file and the
   configuration alone. *)
From RS Require Import Base.Bytes Model.Filter Model.Workers Model.PoolProto Proofs.WorkersProofs Proofs.PoolProofs Proofs.PoolLink.
From Coq Require Import Permutation.
Open Scope Z_scope.

(* for EVERY distribution of the records over n workers: the writes issued by all workers
   together are the delivered records, each exactly once, each in its own source database (or
   in target.db), scripts loaded - nothing else *)
Theorem C07_exactly_once_right_db : forall c n sched es,
  length sched = length es -> Forall (fun s => (s < n)%nat) sched ->
  Permutation (all_writes c n sched es) (expected c es).
Proof. exact pool_exactly_once. Qed.

(* a single worker keeps the file order of the records it was given *)
Theorem C07_worker_in_order : forall c w sched es, worker_writes c w sched es = expected c (assigned w sched es).
Proof. exact worker_in_order. Qed.

(* lua script records are loaded whatever the database / key / slot lists say (F17, fixed) *)
Theorem C07_scripts_loaded : forall c i e es, we_aux e = true -> In (i, -1) (expected c ((i, e) :: es)).
Proof. exact script_always_delivered. Qed.

(* ... and every interleaving of their traffic: applying the same writes in ANY order leaves every
   key with the same value, as long as no two writes name the same (database, key) - which holds
   for the records of an RDB file (each key once per database; split hashes excepted, finding F9b) *)
Theorem C07_interleaving_irrelevant : forall (K V : Type) (keqb : K -> K -> bool),
  (forall a b, keqb a b = true <-> a = b) ->
  forall ws ws' : list (K * V), Permutation ws ws' -> NoDup (map fst ws) -> forall k, holds K V keqb ws k = holds K V keqb ws' k.
Proof. exact holds_perm. Qed.

(* ---- the completion protocol (Model/PoolProto: parser goroutine, bounded channel, n workers,
   WaitGroup, caller; a schedule is ANY list of enabled atomic steps of those goroutines) ----
   The caller returns nil only when every record of the file has left the channel in file order
   and was processed without error, nothing is left behind - and then the writes of all workers
   together are exactly the expected ones. *)
Theorem C07_returns_nil_only_after_all : forall cap c n (file : list (nat * went)) es (s : pst (nat * went)),
  (0 < n)%nat -> prun cap (pinit file n) es = Some s -> ret s = Some true ->
  map rec_of (taken s) = file /\
  Permutation (all_writes c n (map worker_of (taken s)) file) (expected c file).
Proof. exact returns_nil_after_all_writes. Qed.

Theorem C07_complete_when_nil : forall (A : Type) cap (file : list A) n es (s : pst A),
  (0 < n)%nat -> prun cap (pinit file n) es = Some s -> ret s = Some true ->
  map rec_of (taken s) = file /\ forallb ok_of (taken s) = true /\ chan s = [] /\ unpushed s = [] /\ handled s = file.
Proof. exact (@pool_returns_nil_only_when_complete). Qed.

(* a failed restore is never swallowed: the caller returns an error exactly when some worker gave up *)
Theorem C07_error_reported : forall (A : Type) cap (file : list A) n es (s : pst A) b,
  prun cap (pinit file n) es = Some s -> ret s = Some b -> (b = false <-> failed s <> []).
Proof. exact (@pool_error_reported). Qed.

(* and no schedule gets stuck before the caller has returned *)
Theorem C07_no_deadlock : forall (A : Type) cap (file : list A) n es (s : pst A),
  (0 < cap)%nat -> prun cap (pinit file n) es = Some s -> ret s = None -> exists e, pstep cap s e <> None.
Proof. exact (@pool_no_deadlock). Qed.

(* a run of the protocol: 3 records, 2 workers, channel of 1; worker 1 fails on the last record *)
Example C07_protocol_nonvacuous :
  let run := prun 1 (pinit [10; 20; 30]%nat 2) in
  (exists s, run [EPush; ETake 0 true; EPush; ETake 1 true; EPush; EClose; ETake 0 true; EExit 0; EExit 1; ERelease; EReturn] = Some s
             /\ ret s = Some true /\ handled s = [10; 20; 30]%nat) /\
  (exists s, run [EPush; ETake 0 true; EPush; ETake 1 true; EPush; EClose; ETake 1 false; EExit 0; ERelease; EReturn] = Some s
             /\ ret s = Some false /\ failed s = [30]%nat) /\
  run [EPush; ETake 0 true; ERelease] = None /\ run [EPush; EPush] = None.
Proof. split; [eexists; vm_compute; repeat split|split; [eexists; vm_compute; repeat split|split; reflexivity]]. Qed.

Example C07_nonvacuous :
  let c := {| w_f := {| key_black := [[x62]]; key_white := []; db_black := []; db_white := []; slot_list := []; filter_lua := false |};
              w_tdb := -1; w_full := true |} in
  let es := [(0%nat, {| we_db := 0; we_key := [x61]; we_aux := false |}); (1%nat, {| we_db := 3; we_key := [x63]; we_aux := false |});
             (2%nat, {| we_db := 3; we_key := [x62; x31]; we_aux := false |}); (3%nat, {| we_db := 0; we_key := [x64]; we_aux := false |})] in
  all_writes c 2 [1; 0; 1; 0]%nat es = [(1%nat, 3); (3%nat, 0); (0%nat, 0)] /\ expected c es = [(0%nat, 0); (1%nat, 3); (3%nat, 0)].
Proof. split; vm_compute; reflexivity. Qed.

Print Assumptions C07_exactly_once_right_db.
Print Assumptions C07_worker_in_order.
Print Assumptions C07_interleaving_irrelevant.
Print Assumptions C07_returns_nil_only_after_all.
Print Assumptions C07_complete_when_nil.
Print Assumptions C07_error_reported.
Print Assumptions C07_no_deadlock.
