(* Props/C07.v — Parallel full sync restores every key exactly once into the right database.
   Statements only; every proof is `exact <lemma>`.  A schedule hands each record of the file
   (in file order, through the channel) to one of n workers; every worker owns one target
   connection (selected database 0 at the start) and its `lastdb`.  A write is (record index,
   database it lands in); -1 marks a script load.  `expected` is defined from the file and the
   configuration alone. *)
From RS Require Import Base.Bytes Model.Filter Model.Workers Proofs.WorkersProofs.
From Coq Require Import Permutation.
Open Scope Z_scope.

(* for EVERY distribution of the records over n workers: the writes issued by all workers
   together are the delivered records, each exactly once, each in its own source database (or
   in target.db), scripts loaded - nothing else *)
Theorem C07_exactly_once_right_db : forall c n sched es,
  length sched = length es -> Forall (fun s => (s < n)%nat) sched ->
  Permutation (all_writes c n sched es) (expected c es).
Proof. exact pool_exactly_once. Qed.

(* a single worker keeps the file order of the records it was given *)
Theorem C07_worker_in_order : forall c w sched es, worker_writes c w sched es = expected c (assigned w sched es).
Proof. exact worker_in_order. Qed.

(* lua script records are loaded whatever the database / key / slot lists say (F17, fixed) *)
Theorem C07_scripts_loaded : forall c i e es, we_aux e = true -> In (i, -1) (expected c ((i, e) :: es)).
Proof. exact script_always_delivered. Qed.

(* ... and every interleaving of their traffic: applying the same writes in ANY order leaves every
   key with the same value, as long as no two writes name the same (database, key) - which holds
   for the records of an RDB file (each key once per database; split hashes excepted, finding F9b) *)
Theorem C07_interleaving_irrelevant : forall (K V : Type) (keqb : K -> K -> bool),
  (forall a b, keqb a b = true <-> a = b) ->
  forall ws ws' : list (K * V), Permutation ws ws' -> NoDup (map fst ws) -> forall k, holds K V keqb ws k = holds K V keqb ws' k.
Proof. exact holds_perm. Qed.

Example C07_nonvacuous :
  let c := {| w_f := {| key_black := [[x62]]; key_white := []; db_black := []; db_white := []; slot_list := []; filter_lua := false |};
              w_tdb := -1; w_full := true |} in
  let es := [(0%nat, {| we_db := 0; we_key := [x61]; we_aux := false |}); (1%nat, {| we_db := 3; we_key := [x63]; we_aux := false |});
             (2%nat, {| we_db := 3; we_key := [x62; x31]; we_aux := false |}); (3%nat, {| we_db := 0; we_key := [x64]; we_aux := false |})] in
  all_writes c 2 [1; 0; 1; 0]%nat es = [(1%nat, 3); (3%nat, 0); (0%nat, 0)] /\ expected c es = [(0%nat, 0); (1%nat, 3); (3%nat, 0)].
Proof. split; vm_compute; reflexivity. Qed.

Print Assumptions C07_exactly_once_right_db.
Print Assumptions C07_worker_in_order.
Print Assumptions C07_interleaving_irrelevant.
