(* Props/C08.v — Offsets reported to the source are exactly 'start offset + bytes consumed'.
   Statements only; every proof is `exact <lemma>`.  Events: Recv n (bytes arrive), Tick (the
   1 s acknowledgement ticker), FullDone (full sync finished), Drop / Reconnected (source
   connection lost and re-established).  The theorems quantify over every event sequence. *)
From RS Require Import Base.Bytes Model.Offsets Proofs.HandoffProofs.
Open Scope Z_scope.

(* every REPLCONF ACK is 0 (full sync still running) or start + bytes received so far; every
   PSYNC after a drop asks for start + bytes received + 1 *)
Theorem C08_ack_exact : forall start es o,
  In o (snd (orun ostep {| off := start; nread := 0; full := false |} es)) ->
  exists k, exact_out start (firstn k es) o.
Proof. exact acks_exact. Qed.

(* bytes received only grow, hence acknowledged offsets never decrease *)
Theorem C08_received_monotone : forall es k1 k2,
  Forall (fun e => match e with Recv n => 0 <= n | _ => True end) es ->
  (k1 <= k2)%nat -> received (firstn k1 es) <= received (firstn k2 es).
Proof. exact received_mono. Qed.

(* the pinned tree re-added the cumulative byte count on every tick (F11, repaired) *)
Theorem C08_pinned_refuted : exists es o, In o (snd (orun ostep_pinned {| off := 1000; nread := 0; full := false |} es))
  /\ forall k, ~ exact_out 1000 (firstn k es) o.
Proof. exact pinned_refuted. Qed.

Example C08_nonvacuous :
  snd (orun ostep {| off := 1000; nread := 0; full := false |} [Tick; FullDone; Recv 5; Tick; Tick; Recv 7; Drop; Reconnected; Recv 1; Tick])
  = [Ack 0; Ack 1005; Ack 1005; Psync 1013; Ack 1013].
Proof. vm_compute. reflexivity. Qed.

Print Assumptions C08_ack_exact.
Print Assumptions C08_received_monotone.
