(* Props/C14.v — Resume picks its own source's newest checkpoint and reads what the sender wrote.
   Statements only; every proof is `exact <lemma>`.  A target is described per listed database by
   the fields of its checkpoint hash (None = no hash); es = what fetchCheckpoint yields per db. *)
From RS Require Import Base.Bytes Base.Dec Model.RespCodec Model.Checkpoint Proofs.CheckpointProofs.
From Coq Require Import Permutation.
Open Scope Z_scope.

(* LoadCheckpoint = version gate + "?" rule + clearing around the scan result *)
Theorem C14_load_spec : forall src dbs es, entries_of src dbs es ->
  load src dbs =
    let '(m, rid, db, ver) := scan_e es b0 in
    if negb (ver =? -1) && (ver <? fcv_required) then (LoadErr, dbs)
    else let db' := if beqs rid s_unknown then -1 else db in (LoadOk rid m db', clear src db' dbs).
Proof. exact load_spec. Qed.

(* the scan result is the greatest offset recorded for this source, with the run id, db and
   version stored next to it; offset -1 when there is none *)
Theorem C14_picks_newest_own : forall es,
  let '(m, rid, db, ver) := scan_e es b0 in
  (forall e, In e es -> eoff e <= m) /\
  ((m = -1 /\ (rid, db, ver) = ([], 0, -1)) \/ (-1 < m /\ In (db, (rid, m, ver)) es)).
Proof. exact scan_is_max. Qed.

(* independent of the order in which Go iterates the keyspace map *)
Theorem C14_order_independent : forall es es',
  Permutation es es' -> distinct_offsets es -> scan_e es b0 = scan_e es' b0.
Proof. exact scan_perm_invariant. Qed.

(* checkpoints of other sources are ignored, including sources whose address extends ours *)
Theorem C14_other_sources_ignored : forall src fs acc,
  scan_fields src fs acc = scan_fields src (filter (is_own src) fs) acc.
Proof. exact scan_fields_ignores_foreign. Qed.
Theorem C14_own_fields_exact : forall src f, own_suffix src f <> None <-> exists name, f = src ++ [x2d] ++ name.
Proof. exact own_suffix_exact. Qed.

(* stale checkpoints of this source are removed everywhere except in the db resumed from *)
Theorem C14_stale_removed : forall src keep dbs db h, In (db, h) dbs -> db <> keep ->
  exists h', In (db, h') (clear src keep dbs) /\
    match h with
    | None => h' = None
    | Some fs => forall f v, In (f, v) (match h' with Some x => x | None => [] end) <->
                   (In (f, v) fs /\ f <> field_name src s_runid /\ f <> field_name src s_offset)
    end.
Proof. exact clear_spec. Qed.
Theorem C14_resumed_db_kept : forall src keep dbs h, In (keep, h) dbs -> In (keep, h) (clear src keep dbs).
Proof. exact clear_keeps. Qed.

(* whatever the incremental sender stores is read back unchanged *)
Theorem C14_reads_what_sender_writes : forall src runid offset fs,
  NoDup (map fst fs) -> in_int64 offset = true ->
  fetch src (Some (sender_write src runid offset fs)) = Some (runid, offset, 1).
Proof. exact reads_what_sender_writes. Qed.

Example C14_nonvacuous :
  let src := [x68;x3a;x31] in                                   (* "h:1" *)
  let other := [x68;x3a;x31;x30] in                             (* "h:10": extends ours *)
  let d0 := sender_write other [x72] 900 (sender_write src [x61] 50 []) in
  let d3 := sender_write src [x62] 70 [] in
  fst (load src [(0, Some d0); (3, Some d3); (5, None)]) = LoadOk [x62] 70 3 /\
  fst (load src [(3, Some d3); (5, None); (0, Some d0)]) = LoadOk [x62] 70 3 /\
  fst (load src [(0, Some [(field_name src s_offset, render 7)])]) = LoadErr /\
  fst (load src [(1, None)]) = LoadOk [] (-1) 0.
Proof. vm_compute. repeat split. Qed.

Print Assumptions C14_load_spec.
Print Assumptions C14_picks_newest_own.
Print Assumptions C14_order_independent.
Print Assumptions C14_other_sources_ignored.
Print Assumptions C14_stale_removed.
Print Assumptions C14_reads_what_sender_writes.
