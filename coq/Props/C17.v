(* Props/C17.v — Decode mode prints every element of the RDB, recoverably.
   Statements only; every proof is `exact <lemma>`.  A line is modelled by its fields; the
   base64 fields are produced by b64_encode (encoding/base64, standard alphabet, padding).
   JSON object syntax and number formatting are encoding/json's (trusted, parsed back by the
   driver).  `pf` is strconv.ParseFloat. *)
From RS Require Import Base.Bytes Model.Rdb Model.Cupcake Model.Decode Model.PoolProto Proofs.DecodeProofs Proofs.PoolProofs.
From Coq Require Import Permutation.
Open Scope N_scope.

(* base64 loses nothing: every byte string, printable or not, is recovered exactly *)
Theorem C17_base64_roundtrip : forall s, b64_decode (b64_encode s) = Some s.
Proof. exact b64_roundtrip. Qed.

(* for every record whose payload decodes to a non-empty value v: the lines emitted for it read
   back to exactly v (string, list in order, hash pairs, set members, sorted-set members with
   their score bits), and every line carries the record's key, database and expiry *)
Theorem C17_lines_recover_value : forall pf e v, e_type e <> 250 -> decode_dump pf (e_value e) = Some v -> nonempty v ->
  exists ls, lines_of pf e = Some ls /\ recover ls = Some v /\ Forall (tagged e) ls.
Proof. exact lines_recover. Qed.

(* list elements are numbered 0, 1, 2, ... *)
Theorem C17_list_indices : forall db exp key l, map fst (list_values (list_lines db exp key 0 l)) = seq 0 (length l).
Proof. exact list_lines_indexed. Qed.

(* one line per lua script record *)
Theorem C17_script_line : forall pf e, e_type e = 250 -> lines_of pf e = Some [JAux (e_key e) (e_value e)].
Proof. exact aux_line. Qed.

(* for EVERY distribution of the records over n decoder workers: the blocks of lines handed to
   the writer are those of the records, each exactly once (each record's lines as one block) *)
Theorem C17_every_schedule : forall pf n sched es, length sched = length es -> Forall (fun s => (s < n)%nat) sched ->
  Permutation (all_blocks pf n sched es) (map (block pf) es).
Proof. exact blocks_exactly_once. Qed.

(* ---- the completion protocol of decode (Model/PoolProto, `dstep`: parser goroutine, bounded
   input channel, n decoder workers each holding at most one block, bounded output channel closed
   by the collector when every worker has left, one writer goroutine, caller) ----
   Under EVERY schedule of those goroutines: the caller returns only when every block of the
   file's records has been written to the output, each exactly once, and nothing is left in a
   channel or in a worker's hands. *)
Theorem C17_returns_only_when_written : forall (A : Type) cap ocap (file : list A) n es (s : dst A),
  (0 < n)%nat -> drun cap ocap (dinit file n) es = Some s -> d_ret s = true ->
  Permutation (d_written s) file /\ d_out s = [] /\ d_chan s = [] /\ d_unpushed s = [] /\ held (d_ws s) = [].
Proof. exact (@decode_returns_only_when_written). Qed.

Theorem C17_no_deadlock : forall (A : Type) cap ocap (file : list A) n es (s : dst A),
  (0 < cap)%nat -> (0 < ocap)%nat -> drun cap ocap (dinit file n) es = Some s -> d_ret s = false ->
  exists e, dstep cap ocap s e <> None.
Proof. exact (@decode_no_deadlock). Qed.

Example C17_protocol_nonvacuous :
  (exists s, drun 1 1 (dinit [7; 8]%nat 2) [DPush; DTake 1; DPush; DClose; DTake 0; DEmit 0; DExit 0; DWrite; DEmit 1; DExit 1; DCloseOut; DWrite; DWriterDone; DReturn] = Some s
             /\ d_ret s = true /\ d_written s = [8; 7]%nat) /\
  drun 1 1 (dinit [7; 8]%nat 2) [DPush; DTake 1; DReturn] = None.
Proof. split; [eexists; vm_compute; repeat split|reflexivity]. Qed.

Example C17_nonvacuous : b64_encode [x00; xff; x10; x80] = [x41; x50; x38; x51; x67; x41; x3d; x3d] (* "AP8QgA==" *)
  /\ b64_decode [x41; x50; x38; x51; x67; x41; x3d; x3d] = Some [x00; xff; x10; x80].
Proof. split; vm_compute; reflexivity. Qed.

Print Assumptions C17_base64_roundtrip.
Print Assumptions C17_lines_recover_value.
Print Assumptions C17_every_schedule.
Print Assumptions C17_returns_only_when_written.
Print Assumptions C17_no_deadlock.
