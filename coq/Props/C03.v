(* Props/C03.v — Incremental sync forwards the filtered command stream in order, exactly once.
   Statements only; every proof is `exact <lemma>`.  A schedule is a list of events
   (EItem i | ETick queue_empty): every relative timing of command arrival and the 500 ms
   ticker is some such list. *)
From RS Require Import Base.Bytes Base.Dec Model.RespCodec Model.Filter Model.Incr Proofs.IncrProofs.
Open Scope Z_scope.

(* sender: for EVERY schedule, the flushed groups followed by what is still cached are exactly
   the surviving items, each once, in order *)
Theorem C03_sender_fifo : forall c es s,
  let '(s', gs) := srun c s es in
  concat gs ++ cache s' = cache s ++ survive (bs s) (items_of es).
Proof. exact sender_fifo. Qed.

(* source-side MULTI / EXEC markers never survive (well-bracketed streams) *)
Theorem C03_no_markers : forall is b, well_bracketed b is ->
  survive b is = filter (fun i => negb (is_marker i)) is.
Proof. exact survive_drops_markers. Qed.

(* parser: what the target executes (commands with the connection's db at that moment) is the
   reference filter semantics of the source stream: filtered dbs, filtered commands, sentinel
   hello publishes and key-rejected commands dropped, arguments rewritten by the key filter,
   every command in the db selected on the source or in target.db *)
Theorem C03_stream_refines_spec : forall c base, cfg_ok c -> forall rs s cdb sdb byp items,
  rel c s cdb sdb byp ->
  Forall (fun r => r_cmd r <> w_SELECT) rs ->
  parse_all c base s rs = Some items ->
  delivered cdb (filter notmarker items) = spec c sdb byp rs.
Proof. exact parser_refines_spec. Qed.

(* bounded latency: the first tick that finds the queue empty flushes everything cached;
   under continuous traffic the count threshold flushes *)
Theorem C03_tick_flushes : forall c s, cache (fst (sstep c s (ETick true))) = [].
Proof. exact tick_flushes. Qed.
Theorem C03_threshold_flush : forall c s e, (0 < i_scount c)%nat ->
  (length (cache (fst (sstep c s e))) < i_scount c)%nat \/ cache (fst (sstep c s e)) = cache s.
Proof. exact threshold_flush. Qed.

(* the two initial situations satisfy `rel`: a fresh connection without target.db, and
   target.db = t before any SELECT was forwarded (nothing is forwarded before the first
   source SELECT, which FULLRESYNC streams start with) *)
Example C03_rel_init : forall c sdb, i_tdb c = None -> rel c pst0 sdb sdb false.
Proof. intros c sdb T. unfold rel, pst0. cbn. rewrite T. auto. Qed.

Example C03_nonvacuous :
  let f := {| key_black := []; key_white := []; db_black := [[x35]]; db_white := []; slot_list := []; filter_lua := false |} in
  let c := {| i_f := f; i_tdb := None; i_resume := true; i_scount := 2; i_ssize := 1000; i_src := [x73]; i_runid := [x72]; i_ckpt := [x6b] |} in
  let sel n e := {| r_cmd := w_select; r_args := [render n]; r_end := e |} in
  let set k e := {| r_cmd := [x73;x65;x74]; r_args := [[k]; [x31]]; r_end := e |} in
  let rs := [sel 0 10; set x61 20; {| r_cmd := w_multi; r_args := []; r_end := 25 |}; set x62 35;
             {| r_cmd := w_exec; r_args := []; r_end := 40 |}; sel 5 50; set x63 60; sel 1 70; set x64 80] in
  spec c 0 false rs = [(0, [x73;x65;x74], [[x61]; [x31]]); (0, [x73;x65;x74], [[x62]; [x31]]); (1, [x73;x65;x74], [[x64]; [x31]])].
Proof. vm_compute. reflexivity. Qed.

Print Assumptions C03_sender_fifo.
Print Assumptions C03_no_markers.
Print Assumptions C03_stream_refines_spec.
Print Assumptions C03_tick_flushes.
Print Assumptions C03_threshold_flush.
