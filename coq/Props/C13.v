(* Props/C13.v — Key filtering rewrites multi-key commands without corrupting them.
   Statements only; every proof is `exact <lemma>`. *)
From RS Require Import Base.Bytes Model.Filter Model.CmdFilter Gen.CmdTable Spec.RedisKeySpecs Proofs.CmdFilterProofs.
Open Scope Z_scope.

(* For every table row (first,last,step) and every argument vector of a valid arity, written
   as  lead ++ concat groups ++ trailing  (lead = the first-1 leading non-key arguments, each
   group = a key followed by its step-1 companions, trailing = the non-key options):
   the result is lead ++ (the groups whose key passes, in order) ++ trailing, and the
   command survives iff some key passes. *)
Theorem C13_get_match_keys_spec : forall first last step lead groups trailing pass,
  1 <= first -> 0 < step ->
  Z.of_nat (length lead) = first - 1 ->
  Forall (fun g => length g = Z.to_nat step) groups ->
  shape_ok first last (Z.to_nat step) (length groups) (length trailing) ->
  get_match_keys (first, last, step) (lead ++ concat groups ++ trailing) pass =
    (lead ++ concat (filter (fun g => pass (keyof g)) groups) ++ trailing,
     existsb (fun g => pass (keyof g)) groups).
Proof. exact get_match_keys_spec. Qed.

(* every row of the table regenerated from redis_command.go meets the side conditions *)
Theorem C13_table_rows_ok : forallb (fun e => row_ok (snd e)) cmd_table = true.
Proof. exact table_rows_ok. Qed.

(* which arguments ARE keys is not the tool's to decide: the table regenerated from
   redis_command.go is, row for row, the (firstkey, lastkey, keystep) table of Redis itself
   (Spec/RedisKeySpecs, written from Redis 5.0's server.c; DEL's lastkey 0 is the tool's spelling
   of -1) - no command missing, none with another key layout *)
Theorem C13_table_is_redis_key_spec : norm_table cmd_table = redis_key_specs.
Proof. vm_compute. reflexivity. Qed.

(* the exported entry point, for every command of the table and every key filter *)
Theorem C13_handle_filter_key_spec : forall c cmd first last step lead groups trailing,
  key_filter_configured c = true ->
  lookup_cmd cmd cmd_table = Some (first, last, step) ->
  lead ++ concat groups ++ trailing <> [] ->
  Z.of_nat (length lead) = first - 1 ->
  Forall (fun g => length g = Z.to_nat step) groups ->
  shape_ok first last (Z.to_nat step) (length groups) (length trailing) ->
  handle_filter_key c cmd (lead ++ concat groups ++ trailing) =
    (lead ++ concat (filter (fun g => negb (filter_key c (keyof g))) groups) ++ trailing,
     negb (existsb (fun g => negb (filter_key c (keyof g))) groups)).
Proof. exact handle_filter_key_spec. Qed.

(* forwarded unchanged when no key filter is configured or the command is not key-addressed *)
Theorem C13_unchanged_without_filter : forall c cmd args,
  key_filter_configured c = false -> handle_filter_key c cmd args = (args, false).
Proof. exact handle_no_filter. Qed.
Theorem C13_unchanged_unknown_command : forall c cmd args,
  lookup_cmd cmd cmd_table = None -> handle_filter_key c cmd args = (args, false).
Proof. exact handle_unknown. Qed.

(* unchanged when all keys pass / empty key part when none passes *)
Theorem C13_all_pass_identity : forall (f : list arg -> bool) groups, forallb f groups = true -> filter f groups = groups.
Proof. exact (@filter_all (list arg)). Qed.
Theorem C13_none_pass_empty : forall (f : list arg -> bool) groups, existsb f groups = false -> filter f groups = [].
Proof. exact (@existsb_false_filter (list arg)). Qed.

(* the function as pinned violated the specification (F12, repaired) *)
Theorem C13_pinned_refuted :
  get_match_keys_pinned (1, -1, 1) [[x6b]] (fun _ => true) = ([[x6b]], false) /\
  get_match_keys_pinned (2, -1, 1) [[x41]; [x64]; [x73]] (fun _ => true) = ([[x64]; [x73]], true) /\
  get_match_keys (1, -1, 1) [[x6b]] (fun _ => true) = ([[x6b]], true) /\
  get_match_keys (2, -1, 1) [[x41]; [x64]; [x73]] (fun _ => true) = ([[x41]; [x64]; [x73]], true).
Proof. exact pinned_refuted. Qed.

(* mset k1 v1 k2 v2 with only k2 passing: row (1,-1,2), two groups of 2, no trailing *)
Example C13_nonvacuous :
  lookup_cmd [x6d;x73;x65;x74] cmd_table = Some (1, -1, 2) /\
  shape_ok 1 (-1) 2 2 0 /\
  get_match_keys (1, -1, 2) [[x61]; [x31]; [x62]; [x32]] (fun k => beqs k [x62]) = ([[x62]; [x32]], true).
Proof. vm_compute. repeat split. Qed.

Print Assumptions C13_get_match_keys_spec.
Print Assumptions C13_table_rows_ok.
Print Assumptions C13_table_is_redis_key_spec.
Print Assumptions C13_handle_filter_key_spec.
Print Assumptions C13_unchanged_without_filter.
Print Assumptions C13_unchanged_unknown_command.
