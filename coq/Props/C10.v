(* Props/C10.v — RESP codec round-trips, rejects malformed input and counts bytes exactly.
   Statements only; every proof is `exact <lemma>`. *)
From RS Require Import Base.Bytes Base.Dec Gen.Resp Model.RespCodec Proofs.RespProofs.
Open Scope Z_scope.

(* encode then decode: same value, exactly its bytes consumed, the rest untouched, and the
   running offset advanced by exactly the encoding's length (any nesting depth) *)
Theorem C10_roundtrip : forall fuel v depth rest off, (size v <= fuel)%nat -> wf v ->
  dec fuel depth (encode v ++ rest) off = Ok (v, rest, off + Z.of_nat (length (encode v))).
Proof. exact roundtrip. Qed.

(* for ANY input (well-formed or not, values, inline lines, keep-alive newlines): whenever the
   decoder returns a value, the bytes consumed are a prefix of the input and the offset grew
   by exactly their number *)
Theorem C10_offset_is_consumed : forall fuel depth inp off v rest off',
  dec fuel depth inp off = Ok (v, rest, off') ->
  exists c, inp = c ++ rest /\ off' = off + Z.of_nat (length c).
Proof. exact dec_offset_is_consumed. Qed.

(* inline (space-separated) command lines at top level, after k keep-alive newlines *)
Theorem C10_inline_line : forall fuel k t l rest off,
  t <> NL -> is_type_byte t = false -> ~ In NL l ->
  dec (S fuel) 0 (repeat NL k ++ (t :: l) ++ crlf ++ rest) off =
    Ok (RArr (match split_sp (t :: l) [] with [] => None | toks => Some (map (fun x => RBulk (Some x)) toks) end),
        rest, off + Z.of_nat k + Z.of_nat (length (t :: l)) + 2).
Proof. exact dec_inline_line. Qed.

(* the pre-rendered integer table agrees with strconv.FormatInt everywhere *)
Theorem C10_itos : forall i, itos i = render i.
Proof. exact itos_render. Qed.

(* malformed input yields an error, never a value *)
Theorem C10_truncation_rejected : forall fuel depth v n off,
  (size v <= fuel)%nat -> wf v -> (n < length (encode v))%nat ->
  forall x, dec fuel depth (firstn n (encode v)) off <> Ok x.
Proof. exact truncation_rejected. Qed.

Theorem C10_missing_cr : forall t r off, ~ In NL t -> last t x00 <> CR -> dec_text (t ++ NL :: r) off = Err.
Proof. exact dec_text_no_cr. Qed.

Theorem C10_negative_length : forall fuel d (hd : byte) n r off,
  (hd = x24 \/ hd = x2a) -> n < -1 -> in_int64 n = true ->
  dec (S fuel) d (hd :: render n ++ crlf ++ r) off = Err.
Proof. exact dec_negative_length. Qed.

Theorem C10_non_numeric_length : forall fuel d (hd : byte) t r off,
  (hd = x24 \/ hd = x2a \/ hd = x3a) -> ~ In NL t -> parse_int64 t = None ->
  dec (S fuel) d (hd :: t ++ crlf ++ r) off = Err.
Proof. exact dec_bad_length. Qed.

Theorem C10_unknown_type_inside_array : forall fuel d t r off,
  t <> NL -> is_type_byte t = false -> dec (S fuel) (S d) (t :: r) off = Err.
Proof. exact dec_unknown_type_nested. Qed.

Example C10_nonvacuous :
  let v := RArr (Some [RBulk (Some [x53; x45; x54]); RBulk None; RArr (Some []); RInt (-1025)]) in
  wf v /\ (size v <= 10)%nat /\ dec 10 0 (encode v ++ [x0a]) 7 = Ok (v, [x0a], 7 + Z.of_nat (length (encode v)))
  /\ parse_int64 [x61] = None /\ parse_int64 (render 9223372036854775808) = None.
Proof.
  cbv zeta. split; [cbn [wf length]; unfold len_ok; cbn [length]; repeat split; try lia; reflexivity|].
  split; [cbn; lia|]. split; [vm_compute; reflexivity|]. split; vm_compute; reflexivity.
Qed.

Print Assumptions C10_roundtrip.
Print Assumptions C10_offset_is_consumed.
Print Assumptions C10_inline_line.
Print Assumptions C10_itos.
Print Assumptions C10_truncation_rejected.
Print Assumptions C10_missing_cr.
Print Assumptions C10_negative_length.
Print Assumptions C10_non_numeric_length.
Print Assumptions C10_unknown_type_inside_array.
