(* Props/C20.v — Source re-discovery selects a node that really is the master.
   Statements only; every proof is `exact <lemma>`.  `probe round host` is the outcome of
   connecting to that node and asking INFO replication in that retry round: every topology,
   every per-node failure sequence and every ordering of nodes is some such function/list. *)
From RS Require Import Base.Bytes Model.Supervisor Proofs.SupervisorProofs Gen.Supervisor.
From Coq Require Import Permutation.

(* the chosen node reported the master role in the round that succeeded, no node reported it
   in the earlier rounds, and source + slaves are exactly the known nodes (none lost) *)
Theorem C20_chosen_is_master : forall probe maxr depth hs s sl,
  get_state probe maxr depth hs = Some (s, sl) ->
  (exists r, maxr - depth <= r <= maxr /\ is_master probe r s = true /\
             forall r', maxr - depth <= r' < r -> forall h, In h hs -> is_master probe r' h = false) /\
  Permutation (s :: sl) hs.
Proof. exact chosen_is_master. Qed.

(* failure only when no node reported master in any of the maxRetries+1 rounds ... *)
Theorem C20_bounded_failure : forall probe maxr depth hs, depth <= maxr ->
  get_state probe maxr depth hs = None ->
  forall r, maxr - depth <= r <= maxr -> forall h, In h hs -> is_master probe r h = false.
Proof. exact bounded_failure. Qed.

(* ... and conversely a node reporting master within the budget is found *)
Theorem C20_master_found : forall probe maxr hs r h, r <= maxr -> In h hs -> is_master probe r h = true ->
  get_state probe maxr maxr hs <> None.
Proof. exact master_found. Qed.

(* unreachable nodes, command errors and replies without a role line are never chosen *)
Theorem C20_tolerates_failures : forall probe r h, node_state (probe r h) = PErr -> is_master probe r h = false.
Proof. exact error_node_not_master. Qed.

(* the retry budget in the source *)
Theorem C20_retry_budget : max_retries = 6%nat.
Proof. reflexivity. Qed.

(* pinned tree (F16, repaired): with two masters the first one vanished from the node list *)
Theorem C20_pinned_refuted :
  let probe := fun (_ : nat) (h : host) => if beqs h [x63] then Reply role_slave else Reply role_master in
  pass_pinned probe 0 [[x61]; [x62]; [x63]] None [] = (Some [x62], [[x63]]) /\
  pass probe 0 [[x61]; [x62]; [x63]] None [] = (Some [x62], [[x61]; [x63]]).
Proof. exact pinned_refuted. Qed.

Example C20_nonvacuous :
  let probe := fun (r : nat) (h : host) =>
    if Nat.eqb r 2 then (if beqs h [x62] then Reply (role_master ++ [x0d]) else Reply role_slave) else ConnErr in
  get_slot_state probe 6 [x61] [[x62]; [x63]] = Some ([x62], [[x61]; [x63]]) /\
  get_slot_state (fun _ _ => CmdErr) 6 [x61] [[x62]] = None.
Proof. vm_compute. split; reflexivity. Qed.

Print Assumptions C20_chosen_is_master.
Print Assumptions C20_bounded_failure.
Print Assumptions C20_master_found.
Print Assumptions C20_tolerates_failures.
