(* Spec/Crc16.v — CRC-16/XMODEM (poly 0x1021, init 0, no reflection), table computed here. *)
From RS Require Import Base.Bytes Base.Table.
Open Scope N_scope.

Definition bit16 (c : N) : N :=
  let s := N.land (N.shiftl c 1) 0xffff in
  if N.testbit c 15 then N.lxor s 0x1021 else s.

Definition t16 (i : N) : N := Nat.iter 8 bit16 (N.shiftl i 8).

Definition crc16_table : list N :=
  Eval vm_compute in map (fun i => t16 (N.of_nat i)) (seq 0 256).

Definition tget (tab : list N) (i : N) : N := nth (N.to_nat i) tab 0.

(* one step of the table-driven algorithm, as in the Redis Cluster specification appendix *)
Definition crc16_upd (tab : list N) (crc b : N) : N :=
  N.lxor (N.land (N.shiftl crc 8) 0xffff)
         (tget tab (N.land (N.lxor (N.shiftr crc 8) b) 255)).

Definition crc16_with (tab : list N) (bs : bytes) : N :=
  fold_left (fun c b => crc16_upd tab c (b2n b)) bs 0.

Definition crc16 (bs : bytes) : N := crc16_with crc16_table bs.

(* the same algorithm with the table held in a lookup tree (fast when executed) *)
Definition crc16_upd_tree (t : tree) (crc b : N) : N :=
  N.lxor (N.land (N.shiftl crc 8) 0xffff)
         (tlookup 8 t (N.land (N.lxor (N.shiftr crc 8) b) 255)).
Definition crc16_tree (t : tree) (bs : bytes) : N :=
  fold_left (fun c b => crc16_upd_tree t c (b2n b)) bs 0.

Lemma crc16_tree_with tab bs : crc16_tree (tbuild 8 tab) bs = crc16_with tab bs.
Proof.
  unfold crc16_tree, crc16_with. generalize 0 as c. induction bs as [|b bs IH]; intros c; [reflexivity|].
  cbn [fold_left]. rewrite IH. f_equal. unfold crc16_upd_tree, crc16_upd, tget.
  rewrite tlookup_build; [reflexivity|].
  change 255 with (N.ones 8). rewrite N.land_ones. apply N.mod_lt. discriminate.
Qed.

(* bit-by-bit reference: shift each message byte in at the top *)
Definition crc16_bitwise_byte (crc b : N) : N :=
  Nat.iter 8 bit16 (N.lxor crc (N.shiftl b 8)).
Definition crc16_bitwise (bs : bytes) : N :=
  fold_left (fun c b => crc16_bitwise_byte c (b2n b)) bs 0.

(* "123456789" -> 0x31C3, the check value of the XMODEM parameter set *)
Example crc16_check : crc16 [x31;x32;x33;x34;x35;x36;x37;x38;x39] = 0x31C3
                   /\ crc16_bitwise [x31;x32;x33;x34;x35;x36;x37;x38;x39] = 0x31C3.
Proof. vm_compute. split; reflexivity. Qed.
