(* Spec/RdbRecords.v — what the parser must deliver for a file, defined from the syntax tree
   alone: one record per key (several for a hash whose serialisation crosses the chunk limit),
   script records for lua aux fields, everything else skipped. *)
From RS Require Import Base.Bytes Base.Endian Spec.RdbFormat Model.Digest Model.Rdb.
Open Scope N_scope.

(* greedy chunking of the encoded field/value pairs: a chunk closes after the first pair at which
   the bytes captured so far (cap) exceed the limit, unless that pair is the last one *)
Fixpoint take_chunk (limit : N) (cap : N) (ps : list bytes) (acc : list bytes) : list bytes * list bytes :=
  match ps with
  | [] => (rev acc, [])
  | p :: rest =>
      let cap' := cap + lenB p in
      match rest with
      | [] => (rev (p :: acc), [])
      | _ => if limit <? cap' then (rev (p :: acc), rest) else take_chunk limit cap' rest (p :: acc)
      end
  end.

Fixpoint chunks (fuel : nat) (limit : N) (cap0 : N) (ps : list bytes) : list (list bytes) :=
  match fuel with
  | O => []
  | S f => match ps with
           | [] => []
           | _ => let '(c, rest) := take_chunk limit cap0 ps [] in c :: chunks f limit 0 rest
           end
  end.

Record meta := { m_db : N; m_exp : N; m_idle : N; m_freq : N }.

Definition mk (m : meta) (key : bytes) (t : N) (val : bytes) (real need : N) : entry :=
  {| e_db := m_db m; e_key := key; e_type := t; e_value := val; e_expire := m_exp m;
     e_real_count := real; e_need_len := need; e_idle := m_idle m; e_freq := m_freq m |}.

Definition key_records (limit : N) (m : meta) (k : rstring) (v : rvalue) : list entry :=
  let key := logical_string k in
  match v with
  | VHash f ps =>
      let hdr := enc_len f (N.of_nat (length ps)) in
      let eps := map enc_pair ps in
      match chunks (S (length eps)) limit (lenB hdr) eps with
      | [] => [mk m key 4 (create_value_dump (n2b 4) hdr) 0 1]                         (* empty hash *)
      | [c] => [mk m key 4 (create_value_dump (n2b 4) (hdr ++ concat c)) 0 1]          (* not split *)
      | c :: more =>
          mk m key 4 (create_value_dump (n2b 4) (hdr ++ concat c)) (N.of_nat (length c)) 1 ::
          map (fun c' => mk m key 4 (create_value_dump (n2b 4) (concat c')) (N.of_nat (length c')) 0) more
      end
  | _ => [mk m key (vtype v) (create_value_dump (n2b (vtype v)) (enc_value v)) 0 1]
  end.

(* expiry / idle / freq opcodes bind to the next record and are then cleared; the selected
   database persists *)
Fixpoint records_of (limit : N) (m : meta) (us : list unit_) : list entry :=
  match us with
  | [] => []
  | u :: r =>
      let clear := {| m_db := m_db m; m_exp := 0; m_idle := 0; m_freq := 0 |} in
      match u with
      | UExpMs ms => records_of limit {| m_db := m_db m; m_exp := ms; m_idle := m_idle m; m_freq := m_freq m |} r
      | UExpS s => records_of limit {| m_db := m_db m; m_exp := s * 1000; m_idle := m_idle m; m_freq := m_freq m |} r
      | UIdle _ n => records_of limit {| m_db := m_db m; m_exp := m_exp m; m_idle := n; m_freq := m_freq m |} r
      | UFreq n => records_of limit {| m_db := m_db m; m_exp := m_exp m; m_idle := m_idle m; m_freq := n |} r
      | USelect _ n => records_of limit {| m_db := n; m_exp := m_exp m; m_idle := m_idle m; m_freq := m_freq m |} r
      | UResize _ _ _ _ | UAux _ _ | UModuleAux _ _ _ _ => records_of limit m r
      | ULua _ v => mk m lua_name 250 (logical_string v) 0 0 :: records_of limit clear r
      | UKey k v => key_records limit m k v ++ records_of limit clear r
      end
  end.

Definition meta0 : meta := {| m_db := 0; m_exp := 0; m_idle := 0; m_freq := 0 |}.
