(* Spec/Slot.v — Redis Cluster key hash slot (keyHashSlot of the cluster specification). *)
From RS Require Import Base.Bytes Base.Table Spec.Crc16.
Open Scope N_scope.

Definition LB : byte := x7b. (* '{' *)
Definition RB : byte := x7d. (* '}' *)

(* split at the first occurrence of c *)
Fixpoint upto (c : byte) (l : bytes) : option (bytes * bytes) :=
  match l with
  | [] => None
  | b :: r => if beq b c then Some ([], r) else
      match upto c r with Some (p, q) => Some (b :: p, q) | None => None end
  end.

(* first '{', first '}' after it, non-empty content -> content; otherwise the whole key *)
Definition hashtag_spec (key : bytes) : bytes :=
  match upto LB key with
  | None => key
  | Some (_, after) =>
      match upto RB after with
      | None => key
      | Some ([], _) => key
      | Some (tag, _) => tag
      end
  end.

Definition slot_spec (key : bytes) : N := crc16 (hashtag_spec key) mod 16384.

(* executable twin of [slot_spec] using the lookup tree of the specification table *)
Definition spec_tree : tree := tbuild 8 crc16_table.
Definition slot_spec_fast (key : bytes) : N := crc16_tree spec_tree (hashtag_spec key) mod 16384.
Lemma slot_spec_fast_ok key : slot_spec_fast key = slot_spec key.
Proof. unfold slot_spec_fast, slot_spec, spec_tree, crc16. rewrite crc16_tree_with. reflexivity. Qed.
