(* Spec/Crc64.v — Redis CRC-64 (Jones polynomial 0xad93d23594c935a9, reflected, init 0,
   no final xor).  The table is computed here from the polynomial. *)
From RS Require Import Base.Bytes Base.Table.
Open Scope N_scope.

Definition poly64 : N := 0x95AC9329AC4BC9B5.   (* bit-reversed Jones polynomial *)
Definition bitstep64 (c : N) : N :=
  if N.odd c then N.lxor (N.shiftr c 1) poly64 else N.shiftr c 1.
Definition tentry64 (i : N) : N := Nat.iter 8 bitstep64 i.
Definition crc64_table : list N :=
  Eval vm_compute in map (fun i => tentry64 (N.of_nat i)) (seq 0 256).

Definition tget64 (tab : list N) (i : N) : N := nth (N.to_nat i) tab 0.
Definition upd64 (tab : list N) (crc b : N) : N :=
  N.lxor (tget64 tab (N.land (N.lxor crc b) 255)) (N.shiftr crc 8).
Definition crc64_with (tab : list N) (init : N) (bs : bytes) : N :=
  fold_left (fun c b => upd64 tab c (b2n b)) bs init.
Definition crc64 (bs : bytes) : N := crc64_with crc64_table 0 bs.

(* bit-by-bit reference *)
Definition crc64_bitwise (bs : bytes) : N :=
  fold_left (fun c b => Nat.iter 8 bitstep64 (N.lxor c (b2n b))) bs 0.

(* executable twin with the table in a lookup tree *)
Definition upd64_tree (t : tree) (crc b : N) : N :=
  N.lxor (tlookup 8 t (N.land (N.lxor crc b) 255)) (N.shiftr crc 8).
Definition crc64_tree (t : tree) (init : N) (bs : bytes) : N :=
  fold_left (fun c b => upd64_tree t c (b2n b)) bs init.

Lemma crc64_tree_with tab init bs : crc64_tree (tbuild 8 tab) init bs = crc64_with tab init bs.
Proof.
  unfold crc64_tree, crc64_with. revert init. induction bs as [|b bs IH]; intros c; [reflexivity|].
  cbn [fold_left]. rewrite IH. f_equal. unfold upd64_tree, upd64, tget64.
  rewrite tlookup_build; [reflexivity|].
  change 255 with (N.ones 8). rewrite N.land_ones. apply N.mod_lt. discriminate.
Qed.

(* "123456789" -> 0xe9c6d914c4b8d9ca, the check value of CRC-64/REDIS *)
Example crc64_check : crc64 [x31;x32;x33;x34;x35;x36;x37;x38;x39] = 0xe9c6d914c4b8d9ca
                   /\ crc64_bitwise [x31;x32;x33;x34;x35;x36;x37;x38;x39] = 0xe9c6d914c4b8d9ca.
Proof. vm_compute. split; reflexivity. Qed.
