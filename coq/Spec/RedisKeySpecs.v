(* Spec/RedisKeySpecs.v — which arguments of a write command are keys, as Redis itself declares
   it: (firstkey, lastkey, keystep) of the command table of Redis 5.0 (server.c,
   redisCommandTable; the same triples COMMAND INFO reports), for the commands RedisShake
   filters by key.  Written from the Redis source, NOT from redis_command.go: C13's
   regenerated table must equal it (a negative lastkey counts from the end; the tool writes the
   "up to the last argument" of DEL as 0 where Redis writes -1 - normalised below). *)
From Coq Require Import List ZArith String.
From Coq Require Import Strings.Byte.
Import ListNotations.
Open Scope string_scope.
Open Scope Z_scope.

Definition k (name : string) (first last step : Z) : list byte * (Z * Z * Z) :=
  (list_byte_of_string name, (first, last, step)).

(* (reduced to plain byte lists here, so that extraction never sees Coq's string type) *)
Definition redis_key_specs : list (list byte * (Z * Z * Z)) := Eval vm_compute in [
  k "append" 1 1 1; k "bitfield" 1 1 1; k "bitop" 2 (-1) 1; k "blpop" 1 (-2) 1; k "brpop" 1 (-2) 1;
  k "brpoplpush" 1 2 1; k "decr" 1 1 1; k "decrby" 1 1 1; k "del" 1 (-1) 1; k "expire" 1 1 1;
  k "expireat" 1 1 1; k "geoadd" 1 1 1; k "getset" 1 1 1; k "hdel" 1 1 1; k "hincrby" 1 1 1;
  k "hincrbyfloat" 1 1 1; k "hmset" 1 1 1; k "hset" 1 1 1; k "hsetnx" 1 1 1; k "incr" 1 1 1;
  k "incrby" 1 1 1; k "incrbyfloat" 1 1 1; k "linsert" 1 1 1; k "lpop" 1 1 1; k "lpush" 1 1 1;
  k "lpushx" 1 1 1; k "lrem" 1 1 1; k "lset" 1 1 1; k "ltrim" 1 1 1; k "move" 1 1 1;
  k "mset" 1 (-1) 2; k "msetnx" 1 (-1) 2; k "persist" 1 1 1; k "pexpire" 1 1 1; k "pexpireat" 1 1 1;
  k "pfadd" 1 1 1; k "pfmerge" 1 (-1) 1; k "psetex" 1 1 1; k "rename" 1 2 1; k "renamenx" 1 2 1;
  k "restore" 1 1 1; k "restore-asking" 1 1 1; k "rpop" 1 1 1; k "rpoplpush" 1 2 1; k "rpush" 1 1 1;
  k "rpushx" 1 1 1; k "sadd" 1 1 1; k "sdiffstore" 1 (-1) 1; k "set" 1 1 1; k "setbit" 1 1 1;
  k "setex" 1 1 1; k "setnx" 1 1 1; k "setrange" 1 1 1; k "sinterstore" 1 (-1) 1; k "smove" 1 2 1;
  k "spop" 1 1 1; k "srem" 1 1 1; k "sunionstore" 1 (-1) 1; k "unlink" 1 (-1) 1; k "zadd" 1 1 1;
  k "zincrby" 1 1 1; k "zrem" 1 1 1; k "zremrangebylex" 1 1 1; k "zremrangebyrank" 1 1 1;
  k "zremrangebyscore" 1 1 1 ].

(* the tool's spelling of "through the last argument" *)
Definition norm_row (r : Z * Z * Z) : Z * Z * Z :=
  let '(f, l, s) := r in (f, (if l =? 0 then -1 else l), s).
Definition norm_table (t : list (list byte * (Z * Z * Z))) := map (fun e => (fst e, norm_row (snd e))) t.
