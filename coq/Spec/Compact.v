(* Spec/Compact.v — the compact value encodings as Redis writes them (ziplist, intset, zipmap),
   as encoders from abstract syntax, and the logical values Redis materialises from them. *)
From RS Require Import Base.Bytes Base.Endian Base.Dec Spec.RdbFormat.
Open Scope N_scope.

(* ---- ziplist entries ---- *)
Inductive zprev := P1 (n : N) | P5 (n : N).           (* 1-byte or 5-byte "previous entry length" *)
Inductive zval :=
| ZStr6 (s : bytes) | ZStr14 (s : bytes) | ZStr32 (s : bytes)
| ZI16 (z : Z) | ZI32 (z : Z) | ZI64 (z : Z) | ZI24 (z : Z) | ZI8 (z : Z) | ZImm (v : N).

Definition enc_prev (p : zprev) : bytes := match p with P1 n => [n2b n] | P5 n => n2b 254 :: le_enc 4 n end.
Definition enc_zval (v : zval) : bytes :=
  match v with
  | ZStr6 s => n2b (lenB s) :: s
  | ZStr14 s => n2b (64 + lenB s / 256) :: n2b (lenB s) :: s
  | ZStr32 s => n2b 128 :: be_enc 4 (lenB s) ++ s
  | ZI16 z => n2b 192 :: le_enc 2 (of_signed 16 z)
  | ZI32 z => n2b 208 :: le_enc 4 (of_signed 32 z)
  | ZI64 z => n2b 224 :: le_enc 8 (of_signed 64 z)
  | ZI24 z => n2b 240 :: le_enc 3 (of_signed 24 z)
  | ZI8 z => [n2b 254; n2b (of_signed 8 z)]
  | ZImm v => [n2b (241 + v)]
  end.
Definition zval_logical (v : zval) : bytes :=
  match v with
  | ZStr6 s | ZStr14 s | ZStr32 s => s
  | ZI16 z | ZI32 z | ZI64 z | ZI24 z | ZI8 z => render z
  | ZImm v => render (Z.of_N v)
  end.
Definition wf_prev (p : zprev) : Prop := match p with P1 n => n < 254 | P5 n => n < 2 ^ 32 end.
Definition wf_zval (v : zval) : Prop :=
  match v with
  | ZStr6 s => lenB s < 64 | ZStr14 s => lenB s < 16384 | ZStr32 s => lenB s < 2 ^ 32
  | ZI16 z => (- 2 ^ 15 <= z < 2 ^ 15)%Z | ZI32 z => (- 2 ^ 31 <= z < 2 ^ 31)%Z | ZI64 z => (- 2 ^ 63 <= z < 2 ^ 63)%Z
  | ZI24 z => (- 2 ^ 23 <= z < 2 ^ 23)%Z | ZI8 z => (- 2 ^ 7 <= z < 2 ^ 7)%Z | ZImm v => v <= 12
  end.

(* <zlbytes LE32> <zltail LE32> <zllen LE16> entries... <0xff> ; zlbytes/zltail are not read by the tool *)
Definition enc_ziplist (zlbytes zltail : N) (es : list (zprev * zval)) : bytes :=
  le_enc 4 zlbytes ++ le_enc 4 zltail ++ le_enc 2 (N.of_nat (length es)) ++
  concat (map (fun e => enc_prev (fst e) ++ enc_zval (snd e)) es) ++ [n2b 255].

(* ---- intset: <encoding LE32 in {2,4,8}> <length LE32> <values LE> ---- *)
Definition enc_intset (width : N) (zs : list Z) : bytes :=
  le_enc 4 width ++ le_enc 4 (N.of_nat (length zs)) ++
  concat (map (fun z => le_enc (N.to_nat width) (of_signed (8 * width) z)) zs).

(* ---- zipmap: <zmlen> then for every pair <len><key> <len><free><value><free bytes> ... <0xff>
   len: one byte < 254, or 254 followed by a 4-byte little-endian length (Redis zipmap.c) ---- *)
Definition enc_zm_len (n : N) : bytes := if n <? 254 then [n2b n] else n2b 254 :: le_enc 4 n.
Definition enc_zipmap (zmlen : N) (ps : list (bytes * bytes * bytes (* free padding *))) : bytes :=
  n2b zmlen :: concat (map (fun p => let '(k, v, fr) := p in
                               enc_zm_len (lenB k) ++ k ++ enc_zm_len (lenB v) ++ [n2b (lenB fr)] ++ v ++ fr) ps) ++ [n2b 255].
