(* Spec/RdbFormat.v — the RDB file format as Redis writes it, as an ENCODER from an abstract
   syntax (every length form, every string encoding, every value type the loader accepts,
   metadata opcodes, header, EOF + checksum).  The parser theorems are stated against it. *)
From RS Require Import Base.Bytes Base.Endian Base.Dec Spec.Crc64 Model.Lzf.
Open Scope N_scope.

Definition lenB (s : bytes) : N := N.of_nat (length s).

(* ---- lengths: the form is a free choice of the writer (canonical or wider than necessary) ---- *)
Inductive lenform := L6 | L14 | L32 | L64.
Definition enc_len (f : lenform) (n : N) : bytes :=
  match f with
  | L6 => [n2b n]
  | L14 => [n2b (64 + n / 256); n2b n]
  | L32 => n2b 128 :: be_enc 4 n
  | L64 => n2b 129 :: be_enc 8 n
  end.
Definition fits (f : lenform) (n : N) : Prop :=
  match f with L6 => n < 64 | L14 => n < 16384 | L32 => n < 2^32 | L64 => n < 2^64 end.

(* ---- strings ---- *)
Inductive rstring :=
| SRaw (f : lenform) (s : bytes)
| SInt8 (z : Z) | SInt16 (z : Z) | SInt32 (z : Z)
| SLzf (fc fu : lenform) (blob : bytes) (ulen : N).

Definition enc_string (x : rstring) : bytes :=
  match x with
  | SRaw f s => enc_len f (lenB s) ++ s
  | SInt8 z => [n2b 192; n2b (of_signed 8 z)]
  | SInt16 z => n2b 193 :: le_enc 2 (of_signed 16 z)
  | SInt32 z => n2b 194 :: le_enc 4 (of_signed 32 z)
  | SLzf fc fu blob ulen => n2b 195 :: enc_len fc (lenB blob) ++ enc_len fu ulen ++ blob
  end.
(* the logical bytes Redis materialises *)
Definition logical_string (x : rstring) : bytes :=
  match x with
  | SRaw _ s => s
  | SInt8 z | SInt16 z | SInt32 z => render z
  | SLzf _ _ blob ulen => match lzf_decompress blob ulen with Some s => s | None => [] end
  end.

(* ---- scores of the old sorted-set format ---- *)
Inductive score := ScText (t : bytes) | ScNaN | ScPInf | ScNInf.
Definition enc_score (s : score) : bytes :=
  match s with ScText t => n2b (lenB t) :: t | ScNaN => [n2b 253] | ScPInf => [n2b 254] | ScNInf => [n2b 255] end.

(* ---- streams (listpacks opaque) ---- *)
Record pel_entry := { pe_id : bytes (* 16 *); pe_seen : bytes (* 8 *); pe_count_f : lenform; pe_count : N }.
Record consumer := { co_name : rstring; co_seen : bytes (* 8 *); co_f : lenform; co_pel : list bytes (* 16 each *) }.
Record cgroup := { cg_name : rstring; cg_f1 : lenform; cg_ms : N; cg_f2 : lenform; cg_seq : N;
                   cg_fp : lenform; cg_pel : list pel_entry; cg_fc : lenform; cg_consumers : list consumer }.
Record stream := { st_f : lenform; st_packs : list (rstring * rstring);
                   st_fl : lenform; st_len : N; st_fm : lenform; st_ms : N; st_fs : lenform; st_seq : N;
                   st_fg : lenform; st_groups : list cgroup }.

Definition enc_pel (p : pel_entry) : bytes := pe_id p ++ pe_seen p ++ enc_len (pe_count_f p) (pe_count p).
Definition enc_consumer (c : consumer) : bytes :=
  enc_string (co_name c) ++ co_seen c ++ enc_len (co_f c) (N.of_nat (length (co_pel c))) ++ concat (co_pel c).
Definition enc_cgroup (g : cgroup) : bytes :=
  enc_string (cg_name g) ++ enc_len (cg_f1 g) (cg_ms g) ++ enc_len (cg_f2 g) (cg_seq g) ++
  enc_len (cg_fp g) (N.of_nat (length (cg_pel g))) ++ concat (map enc_pel (cg_pel g)) ++
  enc_len (cg_fc g) (N.of_nat (length (cg_consumers g))) ++ concat (map enc_consumer (cg_consumers g)).
Definition enc_stream (s : stream) : bytes :=
  enc_len (st_f s) (N.of_nat (length (st_packs s))) ++
  concat (map (fun p => enc_string (fst p) ++ enc_string (snd p)) (st_packs s)) ++
  enc_len (st_fl s) (st_len s) ++ enc_len (st_fm s) (st_ms s) ++ enc_len (st_fs s) (st_seq s) ++
  enc_len (st_fg s) (N.of_nat (length (st_groups s))) ++ concat (map enc_cgroup (st_groups s)).

(* ---- values ---- *)
Inductive rvalue :=
| VStr (t : N) (x : rstring)                            (* 0 string; 9..13 zipmap / ziplist / intset blobs *)
| VSeq (t : N) (f : lenform) (xs : list rstring)        (* 1 list, 2 set, 14 quicklist (ziplist blobs) *)
| VZSet (f : lenform) (ms : list (rstring * score))     (* 3: text scores *)
| VZSet2 (f : lenform) (ms : list (rstring * bytes))    (* 5: 8-byte binary scores *)
| VHash (f : lenform) (ps : list (rstring * rstring))   (* 4 *)
| VStream (s : stream).                                 (* 15 *)

Definition vtype (v : rvalue) : N :=
  match v with VStr t _ => t | VSeq t _ _ => t | VZSet _ _ => 3 | VZSet2 _ _ => 5 | VHash _ _ => 4 | VStream _ => 15 end.
Definition enc_pair (p : rstring * rstring) : bytes := enc_string (fst p) ++ enc_string (snd p).
Definition enc_value (v : rvalue) : bytes :=
  match v with
  | VStr _ x => enc_string x
  | VSeq _ f xs => enc_len f (N.of_nat (length xs)) ++ concat (map enc_string xs)
  | VZSet f ms => enc_len f (N.of_nat (length ms)) ++ concat (map (fun m => enc_string (fst m) ++ enc_score (snd m)) ms)
  | VZSet2 f ms => enc_len f (N.of_nat (length ms)) ++ concat (map (fun m => enc_string (fst m) ++ snd m) ms)
  | VHash f ps => enc_len f (N.of_nat (length ps)) ++ concat (map enc_pair ps)
  | VStream s => enc_stream s
  end.

(* ---- module auxiliary data: sub-opcodes ---- *)
Inductive mod_item :=
| MSint (fo fv : lenform) (v : N) | MUint (fo fv : lenform) (v : N)
| MFloat (fo : lenform) (raw : bytes (* 4 *)) | MDouble (fo : lenform) (raw : bytes (* 8 *))
| MString (fo : lenform) (s : rstring).
Definition enc_mod_item (m : mod_item) : bytes :=
  match m with
  | MSint fo fv v => enc_len fo 1 ++ enc_len fv v
  | MUint fo fv v => enc_len fo 2 ++ enc_len fv v
  | MFloat fo raw => enc_len fo 3 ++ raw
  | MDouble fo raw => enc_len fo 4 ++ raw
  | MString fo s => enc_len fo 5 ++ enc_string s
  end.

(* ---- the units of a file body ---- *)
Inductive unit_ :=
| UExpMs (ms : N) | UExpS (s : N) | UIdle (f : lenform) (n : N) | UFreq (n : N)
| USelect (f : lenform) (n : N) | UResize (f1 f2 : lenform) (a b : N)
| UAux (k v : rstring)                     (* key is not "lua" *)
| ULua (kf : lenform) (v : rstring)        (* aux field "lua": a script *)
| UModuleAux (fid : lenform) (id : N) (items : list mod_item) (feof : lenform)
| UKey (k : rstring) (v : rvalue).

Definition lua_name : bytes := [x6c; x75; x61].
Definition enc_unit (u : unit_) : bytes :=
  match u with
  | UExpMs ms => n2b 252 :: le_enc 8 ms
  | UExpS s => n2b 253 :: le_enc 4 s
  | UIdle f n => n2b 248 :: enc_len f n
  | UFreq n => [n2b 249; n2b n]
  | USelect f n => n2b 254 :: enc_len f n
  | UResize f1 f2 a b => n2b 251 :: enc_len f1 a ++ enc_len f2 b
  | UAux k v => n2b 250 :: enc_string k ++ enc_string v
  | ULua kf v => n2b 250 :: enc_string (SRaw kf lua_name) ++ enc_string v
  | UModuleAux fid id items feof => n2b 247 :: enc_len fid id ++ concat (map enc_mod_item items) ++ enc_len feof 0
  | UKey k v => n2b (vtype v) :: enc_string k ++ enc_value v
  end.

(* ---- the whole file: header, units, EOF opcode, CRC-64 of everything before it ---- *)
Definition version_digits (v : N) : bytes :=
  [n2b (48 + v / 1000 mod 10); n2b (48 + v / 100 mod 10); n2b (48 + v / 10 mod 10); n2b (48 + v mod 10)].
Definition rdb_magic : bytes := [x52; x45; x44; x49; x53].
Definition enc_body (version : N) (us : list unit_) : bytes :=
  rdb_magic ++ version_digits version ++ concat (map enc_unit us) ++ [n2b 255].
Definition enc_file (version : N) (us : list unit_) : bytes :=
  let body := enc_body version us in body ++ le_enc 8 (crc64 body).
