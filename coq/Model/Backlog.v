(* Model/Backlog.v — model of pkg/libs/io/backlog (backlog.go, buff.go, file.go).
   The memory and the file backend run the same arithmetic over a cell store of [size] bytes
   (a slice / a file addressed with ReadAt/WriteAt), modelled as a list of [size] bytes. *)
From RS Require Import Base.Bytes.
Open Scope N_scope.

Record ring := { size : N; wpos : N; cells : bytes (* [size] cells *); closed : bool }.

Definition align (sz unit : N) : N := if sz <? unit then unit else (sz + unit - 1) / unit * unit.
Definition mem_align : N := 4096.
Definition file_align : N := 4194304.
Definition new_ring (sz unit : N) : ring :=
  {| size := align sz unit; wpos := 0; cells := repeat x00 (N.to_nat (align sz unit)); closed := false |}.

Definition roffset (blen size rpos wpos : N) : N * N :=
  let maxlen := N.min blen (wpos - rpos) in
  let offset := rpos mod size in (N.min maxlen (size - offset), offset).
Definition woffset (blen size wpos : N) : N * N :=
  let maxlen := N.min blen size in
  let offset := wpos mod size in (N.min maxlen (size - offset), offset).

Inductive rres := Data (bs : bytes) | Wait | Invalid | Closed | Empty.

Definition read_cells (c : bytes) (off : N) (n : nat) : bytes := firstn n (skipn (N.to_nat off) c).

(* Backlog.readSomeAt + buffer.readSomeAt, one atomic step under the mutex *)
Definition read_at (r : ring) (blen rpos : N) : rres :=
  if blen =? 0 then Empty
  else if closed r then Closed
  else if (wpos r <? rpos) || (rpos + size r <? wpos r) then Invalid
  else let '(maxlen, off) := roffset blen (size r) rpos (wpos r) in
       if maxlen =? 0 then Wait else Data (read_cells (cells r) off (N.to_nat maxlen)).

Definition upd_cells (c : bytes) (off : N) (bs : bytes) : bytes :=
  firstn (N.to_nat off) c ++ bs ++ skipn (N.to_nat off + length bs) c.

(* buffer.writeSome *)
Definition write_some (r : ring) (bs : bytes) : ring * N :=
  let '(maxlen, off) := woffset (N.of_nat (length bs)) (size r) (wpos r) in
  if maxlen =? 0 then (r, 0)
  else ({| size := size r; wpos := wpos r + maxlen;
           cells := upd_cells (cells r) off (firstn (N.to_nat maxlen) bs); closed := closed r |}, maxlen).

(* Backlog.Write: loops writeSome until everything is written; never blocks.
   Result: new state, bytes written, error? *)
Fixpoint write_loop (fuel : nat) (r : ring) (bs : bytes) (acc : N) : ring * N :=
  match fuel with
  | O => (r, acc)
  | S f => match bs with
           | [] => (r, acc)
           | _ => let '(r', n) := write_some r bs in
                  write_loop f r' (skipn (N.to_nat n) bs) (acc + n)
           end
  end.

Definition write (r : ring) (bs : bytes) : ring * N * bool (* closed error *) :=
  match bs with
  | [] => (r, 0, false)                 (* len(b) == 0: returns 0, nil even when closed *)
  | _ => if closed r then (r, 0, true)
         else let '(r', n) := write_loop (S (length bs)) r bs 0 in (r', n, false)
  end.

Definition close (r : ring) : ring :=
  {| size := size r; wpos := wpos r; cells := cells r; closed := true |}.

(* buffer.dataRange; after close the store reports (0,0) and Backlog.DataRange returns no error
   (CloseWithError never stores the error: `if bl.err != nil` is inverted) *)
Definition data_range (r : ring) : N * N :=
  if closed r then (0, 0)
  else if size r <=? wpos r then (wpos r - size r, wpos r) else (0, wpos r).

Definition reader_valid (r : ring) (seek : N) : bool :=
  let '(lo, hi) := data_range r in (lo <=? seek) && (seek <=? hi).
