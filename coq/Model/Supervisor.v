(* Model/Supervisor.v — model of dbSync/slotsupervisor/supervisor.go: getRedisNodeState
   (role line of INFO replication) and recursiveGetSlotState (one pass over Source :: Slaves
   per retry round, bounded recursion). *)
From RS Require Import Base.Bytes.

Notation host := bytes.

(* what connecting to a node and asking INFO replication can give *)
Inductive outcome := ConnErr | CmdErr | Reply (b : bytes).
Inductive probe_res := PMaster | PSlave | PErr.

Definition role_master : bytes := [x72;x6f;x6c;x65;x3a;x6d;x61;x73;x74;x65;x72].  (* "role:master" *)
Definition role_slave : bytes := [x72;x6f;x6c;x65;x3a;x73;x6c;x61;x76;x65].        (* "role:slave" *)

(* strings.Split(resp, "\n") *)
Fixpoint split_nl (l : bytes) (cur : bytes) : list bytes :=
  match l with
  | [] => [rev cur]
  | b :: r => if beq b x0a then rev cur :: split_nl r [] else split_nl r (b :: cur)
  end.

(* first line that starts with role:master / role:slave decides; none -> error *)
Fixpoint scan_lines (ls : list bytes) : probe_res :=
  match ls with
  | [] => PErr
  | l :: r => if prefix_of role_master l then PMaster
              else if prefix_of role_slave l then PSlave else scan_lines r
  end.

Definition node_state (o : outcome) : probe_res :=
  match o with ConnErr => PErr | CmdErr => PErr | Reply b => scan_lines (split_nl b []) end.

Section Supervisor.
Variable probe : nat -> host -> outcome.     (* retry round -> node -> outcome: every failure sequence is such a function *)

Definition is_master (r : nat) (h : host) : bool :=
  match node_state (probe r h) with PMaster => true | _ => false end.

(* one pass; a later master becomes the source and the earlier one goes back to the slaves *)
Fixpoint pass (r : nat) (hs : list host) (src : option host) (slaves : list host) : option host * list host :=
  match hs with
  | [] => (src, slaves)
  | h :: t => if is_master r h
              then pass r t (Some h) (match src with Some old => slaves ++ [old] | None => slaves end)
              else pass r t src (slaves ++ [h])
  end.

(* the pass of the pinned tree: the earlier master was dropped from the node list (F16) *)
Fixpoint pass_pinned (r : nat) (hs : list host) (src : option host) (slaves : list host) : option host * list host :=
  match hs with
  | [] => (src, slaves)
  | h :: t => if is_master r h then pass_pinned r t (Some h) slaves
              else pass_pinned r t src (slaves ++ [h])
  end.

(* depth counts down from maxRetries; round number = maxr - depth *)
Fixpoint get_state (maxr depth : nat) (hs : list host) : option (host * list host) :=
  match pass (maxr - depth) hs None [] with
  | (Some s, sl) => Some (s, sl)
  | (None, _) => match depth with O => None | S d => get_state maxr d hs end
  end.

Definition get_slot_state (maxr : nat) (source : host) (slaves : list host) : option (host * list host) :=
  get_state maxr maxr (source :: slaves).
End Supervisor.
