(* Model/Rdb.v — model of pkg/rdb/reader.go, mix.go and loader.go (RDB parsing):
   lengths, strings, value skipping with tee capture, the opcode loop of NextBinEntry with the
   16 MiB hash chunking, Header and Footer. *)
From RS Require Import Base.Bytes Base.Endian Base.Dec Spec.Crc64 Model.Digest Model.Lzf Model.Filter Gen.Crc64 Gen.Rdb.
Open Scope N_scope.

(* ---------- parser monad over the remaining input ---------- *)
Definition P (A : Type) := bytes -> option (A * bytes).
Definition ret {A} (a : A) : P A := fun s => Some (a, s).
Definition bind {A B} (p : P A) (f : A -> P B) : P B :=
  fun s => match p s with Some (a, s') => f a s' | None => None end.
Notation "x <- p ;; q" := (bind p (fun x => q)) (at level 61, p at next level, right associativity).
Definition fail_ {A} : P A := fun _ => None.

Definition lenN (s : bytes) : N := N.of_nat (length s).
(* io.ReadFull of n bytes *)
Definition take (n : N) : P bytes := fun s =>
  if lenN s <? n then None else Some (firstn (N.to_nat n) s, skipn (N.to_nat n) s).
Definition byte1 : P byte := fun s => match s with b :: r => Some (b, r) | [] => None end.

(* tee reader: run p and also return exactly the bytes it consumed *)
Definition capture {A} (p : P A) : P (A * bytes) := fun s =>
  match p s with Some (a, s') => Some ((a, firstn (length s - length s') s), s') | None => None end.

(* n-fold repetition, results dropped *)
Fixpoint skip_n {A} (n : nat) (p : P A) : P unit :=
  match n with O => ret tt | S k => _ <- p ;; skip_n k p end.
(* count taken from the input: every element consumes at least one byte, so a count larger than
   the remaining input fails exactly like the Go loop does, without building a huge numeral *)
Definition skip_count {A} (n : N) (p : P A) : P unit :=
  fun s => skip_n (N.to_nat (N.min n (lenN s + 1))) p s.

(* ---------- lengths ---------- *)
Definition rd_be32 : P N := bs <- take 4 ;; ret (be_dec bs).

(* readEncodedLength: (length, encoded?).  The 64-bit form returns the HIGH 32 bits
   (readUint64BigEndian reads 8 bytes and decodes the first four). *)
Definition read_enc_len : P (N * bool) :=
  u <- byte1 ;;
  let u := b2n u in
  match u / 64 with
  | 0 => ret (u mod 64, false)
  | 1 => u2 <- byte1 ;; ret ((u mod 64) * 256 + b2n u2, false)
  | 3 => ret (u mod 64, true)
  | _ => if u =? 128 then n <- rd_be32 ;; ret (n, false)
         else if u =? 129 then hi <- rd_be32 ;; _ <- rd_be32 ;; ret (hi, false)
         else fail_
  end.
Definition read_length : P N := x <- read_enc_len ;; if snd x then fail_ else ret (fst x).

(* ---------- strings ---------- *)
Definition read_string : P bytes :=
  x <- read_enc_len ;;
  let '(l, encoded) := x in
  if negb encoded then take l
  else if l =? 0 then b <- byte1 ;; ret (render (to_signed 8 (b2n b)))
  else if l =? 1 then bs <- take 2 ;; ret (render (to_signed 16 (le_dec bs)))
  else if l =? 2 then bs <- take 4 ;; ret (render (to_signed 32 (le_dec bs)))
  else if l =? 3 then
    inlen <- read_length ;; outlen <- read_length ;; blob <- take inlen ;;
    (fun s => match lzf_decompress blob outlen with Some o => Some (o, s) | None => None end)
  else fail_.

(* ---------- scores ---------- *)
(* syntax accepted by strconv.ParseFloat for decimal texts (hexadecimal floats and the range
   check are not modelled: Redis writes %.17g of a finite double) *)
Definition is_digit (b : byte) : bool := let n := b2n b in (48 <=? n) && (n <=? 57).
Fixpoint digits (l : bytes) : nat * bytes :=
  match l with b :: r => if is_digit b then let '(k, r') := digits r in (S k, r') else (O, l) | [] => (O, []) end.
Definition float_ok (t : bytes) : bool :=
  let t1 := match t with b :: r => if beq b x2b || beq b x2d then r else t | [] => t end in
  let low := map lower t1 in
  if beqs low [x69;x6e;x66] || beqs low [x69;x6e;x66;x69;x6e;x69;x74;x79] || beqs low [x6e;x61;x6e] then true else
  let '(k1, r1) := digits t1 in
  let '(k2, r2) := match r1 with b :: r => if beq b x2e then digits r else (O, r1) | [] => (O, r1) end in
  if Nat.eqb (k1 + k2) 0 then false else
  match r2 with
  | [] => true
  | e :: r => if beq e x65 || beq e x45 then
                let r' := match r with b :: q => if beq b x2b || beq b x2d then q else r | [] => r end in
                let '(k3, r3) := digits r' in negb (Nat.eqb k3 0) && match r3 with [] => true | _ => false end
              else false
  end.

(* ReadFloat: 253/254/255 are NaN/+Inf/-Inf, otherwise a length-prefixed text that must parse *)
Definition read_float : P unit :=
  u <- byte1 ;;
  let u := b2n u in
  if (u =? 253) || (u =? 254) || (u =? 255) then ret tt
  else t <- take u ;; if float_ok t then ret tt else fail_.

(* ---------- readObjectValue: what is skipped for each type ---------- *)
Definition str_type (t : N) : bool :=
  (t =? 0) || (t =? 9) || (t =? 10) || (t =? 11) || (t =? 12) || (t =? 13) || (t =? 250) || (t =? 251).
Definition seq_type (t : N) : bool := (t =? 1) || (t =? 2) || (t =? 14).

Definition skip_pending : P unit :=   (* eid (16 bytes), seen_time (8 bytes), delivery_count *)
  _ <- take 16 ;; _ <- take 8 ;; _ <- read_length ;; ret tt.
Definition skip_consumer : P unit :=
  _ <- read_string ;; _ <- take 8 ;; n <- read_length ;; skip_count n (take 16).
Definition skip_cgroup : P unit :=
  _ <- read_string ;; _ <- read_length ;; _ <- read_length ;;
  np <- read_length ;; _ <- skip_count np skip_pending ;;
  nc <- read_length ;; skip_count nc skip_consumer.
Definition skip_stream : P unit :=
  n <- read_length ;; _ <- skip_count n (_ <- read_string ;; read_string) ;;
  _ <- read_length ;; _ <- read_length ;; _ <- read_length ;;
  ng <- read_length ;; skip_count ng skip_cgroup.

(* the hash loop: pairs are read until all [n] are done or the captured bytes exceed the
   limit (and the pair just read is not the last one).  [cap] = bytes captured so far in this
   call (the length prefix of a first chunk included).  Returns (lastReadCount, remainMember). *)
Fixpoint hash_loop (fuel : nat) (limit n i cap : N) : P (N * N) :=
  match fuel with
  | O => fail_
  | S f =>
      if i =? n then ret (i, 0)
      else fun s =>
        match (_ <- read_string ;; read_string) s with
        | None => None
        | Some (_, s') =>
            let cap' := cap + (lenN s - lenN s') in
            if (limit <? cap') && negb (i =? n - 1) then Some ((i + 1, n - i - 1), s')
            else hash_loop f limit n (i + 1) cap' s'
        end
  end.

(* reader bookkeeping that survives between NextBinEntry calls *)
Record rstate := { remain : N; last_read : N; tot : N }.
Definition r0 : rstate := {| remain := 0; last_read := 0; tot := 0 |}.

(* value part of readObjectValue (the tee capture is applied by the caller) *)
Definition skip_value (limit : N) (t : N) (rs : rstate) : P rstate :=
  if str_type t then _ <- read_string ;; ret r0
  else if seq_type t then n <- read_length ;; _ <- skip_count n read_string ;; ret r0
  else if t =? 3 then n <- read_length ;; _ <- skip_count n (_ <- read_string ;; read_float) ;; ret r0
  else if t =? 5 then n <- read_length ;; _ <- skip_count n (_ <- read_string ;; take 8) ;; ret r0
  else if t =? 4 then
    fun s =>
      match (if remain rs =? 0 then (n <- read_length ;; ret (n, n)) else ret (remain rs, tot rs)) s with
      | None => None
      | Some ((n, total), s1) =>
          match hash_loop (S (length s1)) limit n 0 (lenN s - lenN s1) s1 with
          | None => None
          | Some ((lr, rem), s2) => Some ({| remain := rem; last_read := lr; tot := total |}, s2)
          end
      end
  else if t =? 15 then _ <- skip_stream ;; ret r0
  else fail_.

(* createValueDump is Model.Digest.create_value_dump *)
Definition read_object (limit t : N) (rs : rstate) : P (bytes * rstate) :=
  x <- capture (skip_value limit t rs) ;; ret (create_value_dump (n2b t) (snd x), fst x).

(* rdbLoadCheckModuleValue (as repaired: a FLOAT value is 4 binary bytes) *)
Fixpoint module_values (fuel : nat) : P unit :=
  match fuel with
  | O => fail_
  | S f =>
      op <- read_length ;;
      if op =? 0 then ret tt
      else if (op =? 1) || (op =? 2) then _ <- read_length ;; module_values f
      else if op =? 5 then _ <- read_string ;; module_values f
      else if op =? 3 then _ <- take 4 ;; module_values f
      else if op =? 4 then _ <- take 8 ;; module_values f
      else module_values f
  end.

(* ---------- Loader ---------- *)
Record entry := {
  e_db : N; e_key : bytes; e_type : N; e_value : bytes; e_expire : N;
  e_real_count : N; e_need_len : N; e_idle : N; e_freq : N }.

Record lstate := { l_db : N; l_rs : rstate; l_last : option entry }.
Definition l0 : lstate := {| l_db := 0; l_rs := r0; l_last := None |}.

(* the entry under construction: expiry, idle, freq set by the opcodes seen in this call *)
Record pend := { p_exp : N; p_idle : N; p_freq : N }.

Definition lua : bytes := [x6c; x75; x61].
Definition soft {A} (p : P A) (d : A) : P A :=       (* the Go code ignores the error of these reads *)
  fun s => match p s with Some x => Some x | None => Some (d, s) end.

(* NextBinEntry: None = EOF opcode *)
Fixpoint next_entry (fuel : nat) (limit : N) (st : lstate) (pd : pend) : P (option entry * lstate) :=
  match fuel with
  | O => fail_
  | S f =>
    let continuing := negb (remain (l_rs st) =? 0) in
    t <- (if continuing then ret (match l_last st with Some e => e_type e | None => 0 end)
          else b <- byte1 ;; ret (b2n b)) ;;
    if t =? 250 then
      k <- soft read_string [] ;; v <- soft read_string [] ;;
      if beqs k lua then
        ret (Some {| e_db := l_db st; e_key := k; e_type := t; e_value := v; e_expire := p_exp pd;
                     e_real_count := 0; e_need_len := 0; e_idle := p_idle pd; e_freq := p_freq pd |}, st)
      else next_entry f limit st pd
    else if t =? 251 then _ <- soft read_length 0 ;; _ <- soft read_length 0 ;; next_entry f limit st pd
    else if t =? 252 then bs <- take 8 ;; next_entry f limit st {| p_exp := le_dec bs; p_idle := p_idle pd; p_freq := p_freq pd |}
    else if t =? 253 then bs <- take 4 ;; next_entry f limit st {| p_exp := le_dec bs * 1000; p_idle := p_idle pd; p_freq := p_freq pd |}
    else if t =? 254 then n <- read_length ;; next_entry f limit {| l_db := n; l_rs := l_rs st; l_last := l_last st |} pd
    else if t =? 255 then ret (None, st)
    else if t =? 247 then _ <- read_length ;; _ <- (fun s => module_values (S (length s)) s) ;; next_entry f limit st pd
    else if t =? 248 then n <- read_length ;; next_entry f limit st {| p_exp := p_exp pd; p_idle := n; p_freq := p_freq pd |}
    else if t =? 249 then b <- byte1 ;; next_entry f limit st {| p_exp := p_exp pd; p_idle := p_idle pd; p_freq := b2n b |}
    else
      kx <- (if continuing
             then ret (match l_last st with Some e => (e_key e, (0, (e_expire e, (e_idle e, e_freq e)))) | None => ([], (0, (0, (0, 0)))) end)
             else k <- read_string ;; ret (k, (1, (p_exp pd, (p_idle pd, p_freq pd))))) ;;
      let '(key, (need, (ex, (idl, frq)))) := kx in
      vr <- read_object limit t (l_rs st) ;;
      let '(val, rs') := vr in
      let e := {| e_db := l_db st; e_key := key; e_type := t; e_value := val; e_expire := ex;
                  e_real_count := (if last_read rs' =? tot rs' then 0 else last_read rs');
                  e_need_len := need; e_idle := idl; e_freq := frq |} in
      ret (Some e, {| l_db := l_db st; l_rs := rs'; l_last := Some e |})
  end.

Definition pend0 : pend := {| p_exp := 0; p_idle := 0; p_freq := 0 |}.

(* Header: "REDIS" + 4 decimal digits, 1 <= version <= FromVersion *)
Definition magic : bytes := [x52; x45; x44; x49; x53].
Definition header : P N :=
  h <- take 9 ;;
  if beqs (firstn 5 h) magic then
    match parse_int (skipn 5 h) with
    | Some v => if ((0 <? v) && (v <=? Z.of_N from_version))%Z then ret (Z.to_N v) else fail_
    | None => fail_
    end
  else fail_.

Inductive load_result := LoadFail | Loaded (es : list entry).

(* Header; NextBinEntry until EOF; Footer (running CRC of everything consumed vs the next 8 bytes) *)
Fixpoint entries (fuel : nat) (limit : N) (st : lstate) (acc : list entry) : P (list entry) :=
  match fuel with
  | O => fail_
  | S f => fun s =>
      match next_entry (S (length s)) limit st pend0 s with
      | None => None
      | Some ((None, _), s') => Some (rev acc, s')
      | Some ((Some e, st'), s') => entries f limit st' (e :: acc) s'
      end
  end.

Definition load_all (limit : N) (img : bytes) : load_result :=
  match (_ <- header ;; entries (S (length img)) limit l0 []) img with
  | None => LoadFail
  | Some (es, rest) =>
      let consumed := firstn (length img - length rest) img in
      match take 8 rest with
      | Some (tr, _) => if digest_write 0 consumed =? le_dec tr then Loaded es else LoadFail
      | None => LoadFail
      end
  end.
