(* Model/Offsets.v — the acknowledgement / reconnect bookkeeping of pSyncPipeCopy and
   runIncrementalSync as an event machine (repaired: a local offset; acks are offset + nread). *)
From RS Require Import Base.Bytes.
Open Scope Z_scope.

Inductive oev := Recv (n : Z) | Tick | FullDone | Drop | Reconnected.
Inductive oout := Ack (v : Z) | Psync (v : Z).

Record ost := { off : Z; nread : Z; full : bool }.
Definition ostep (s : ost) (e : oev) : ost * list oout :=
  match e with
  | Recv n => ({| off := off s; nread := nread s + n; full := full s |}, [])
  | Tick => if full s then (s, [Ack (off s + nread s)]) else (s, [Ack 0])
  | FullDone => ({| off := off s; nread := nread s; full := true |}, [])
  | Drop => ({| off := off s + nread s; nread := 0; full := full s |}, [])     (* offset += n when the copy loop returns *)
  | Reconnected => (s, [Psync (off s + nread s + 1)])
  end.

(* the pinned code: ds.sourceOffset += nread.Get() on every tick (nread is cumulative) *)
Definition ostep_pinned (s : ost) (e : oev) : ost * list oout :=
  match e with
  | Recv n => ({| off := off s; nread := nread s + n; full := full s |}, [])
  | Tick => if full s then let o := off s + nread s in ({| off := o; nread := nread s; full := true |}, [Ack o])
            else (s, [Ack 0])
  | FullDone => ({| off := off s; nread := nread s; full := true |}, [])
  | Drop => (s, [])
  | Reconnected => ({| off := off s; nread := 0; full := full s |}, [Psync (off s + 1)])
  end.

Fixpoint orun (step : ost -> oev -> ost * list oout) (s : ost) (es : list oev) : ost * list oout :=
  match es with
  | [] => (s, [])
  | e :: r => let '(s1, o1) := step s e in let '(s2, o2) := orun step s1 r in (s2, o1 ++ o2)
  end.

Fixpoint received (es : list oev) : Z :=
  match es with [] => 0 | Recv n :: r => n + received r | _ :: r => received r end.
