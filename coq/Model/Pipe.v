(* Model/Pipe.v — model of pkg/libs/io/pipe (pipe.go, buff.go, file.go): a ring buffer of
   [size] cells (memory slice or file addressed with ReadAt/WriteAt), one reader and one
   writer thread, two condition variables.  Every function of pipe.go that runs under
   p.mu is one atomic step of the machine; a schedule is a list of events. *)
From RS Require Import Base.Bytes Model.Backlog.
Open Scope N_scope.

Inductive perr := EClosedPipe | EEOF | ECustom (n : N).

Record pbuf := { psize : N; prpos : N; pwpos : N; pcells : bytes }.

Definition p_roffset (blen size rpos wpos : N) : N * N :=
  let maxlen := N.min blen (wpos - rpos) in
  let offset := rpos mod size in (N.min maxlen (size - offset), offset).
Definition p_woffset (blen size rpos wpos : N) : N * N :=
  let maxlen := N.min blen (size + rpos - wpos) in
  let offset := wpos mod size in (N.min maxlen (size - offset), offset).

Definition new_pbuf (sz unit : N) : pbuf :=
  {| psize := align sz unit; prpos := 0; pwpos := 0; pcells := repeat x00 (N.to_nat (align sz unit)) |}.

(* buffer.writeSome *)
Definition pb_write_some (r : pbuf) (bs : bytes) : pbuf * N :=
  let '(maxlen, off) := p_woffset (N.of_nat (length bs)) (psize r) (prpos r) (pwpos r) in
  if maxlen =? 0 then (r, 0)
  else ({| psize := psize r; prpos := prpos r; pwpos := pwpos r + maxlen;
           pcells := upd_cells (pcells r) off (firstn (N.to_nat maxlen) bs) |}, maxlen).

(* buffer.readSome: positions are reset to 0 when the buffer drains *)
Definition pb_read_some (r : pbuf) (blen : N) : pbuf * bytes :=
  let '(maxlen, off) := p_roffset blen (psize r) (prpos r) (pwpos r) in
  if maxlen =? 0 then (r, [])
  else let out := read_cells (pcells r) off (N.to_nat maxlen) in
       let rp := prpos r + maxlen in
       if rp =? pwpos r then ({| psize := psize r; prpos := 0; pwpos := 0; pcells := pcells r |}, out)
       else ({| psize := psize r; prpos := rp; pwpos := pwpos r; pcells := pcells r |}, out).

Definition pb_buffered (r : pbuf) : N := pwpos r - prpos r.
Definition pb_available (r : pbuf) : N := psize r + prpos r - pwpos r.

Inductive tstat := Running | Parked | Signalled.

Record pstate := {
  pb : pbuf;
  rerr : option perr;                (* set by the reader's Close / CloseWithError *)
  werr : option perr;                (* set by the writer's Close / CloseWithError *)
  rst : tstat; wst : tstat;          (* the reader / writer goroutine w.r.t. its condition variable *)
  rreq : option N;                   (* Read(b) in flight: len(b) *)
  wreq : option (bytes * N);         (* Write(b) in flight: bytes still to write, bytes written so far *)
  accepted : bytes;                  (* ghost: every byte stored by writeSome so far *)
  delivered : bytes                  (* ghost: every byte returned by readSome so far *)
}.

Inductive pevent :=
| StartRead (blen : N) | StartWrite (bs : bytes)
| StepR | StepW
| DoBuffered | DoAvailable
| RCloseEv (e : option perr) | WCloseEv (e : option perr).

Inductive pout :=
| ORead (data : bytes) (e : option perr) | OWrite (n : N) (e : option perr)
| OBuffered (n : N) (e : option perr) | OAvailable (n : N) (e : option perr)
| ORParked | OWParked | ONone | ORejected.

Definition signal (t : tstat) : tstat := match t with Parked => Signalled | x => x end.

Definition set_r (s : pstate) (b : pbuf) (st : tstat) (req : option N) (wst' : tstat) (del : bytes) : pstate :=
  {| pb := b; rerr := rerr s; werr := werr s; rst := st; wst := wst'; rreq := req; wreq := wreq s;
     accepted := accepted s; delivered := del |}.
Definition set_w (s : pstate) (b : pbuf) (st : tstat) (req : option (bytes * N)) (rst' : tstat) (acc : bytes) : pstate :=
  {| pb := b; rerr := rerr s; werr := werr s; rst := rst'; wst := st; rreq := rreq s; wreq := req;
     accepted := acc; delivered := delivered s |}.

(* pipe.readSome for the read in flight *)
Definition step_r (s : pstate) : pstate * pout :=
  match rreq s, rst s with
  | None, _ => (s, ORejected)
  | Some _, Parked => (s, ORejected)                          (* not runnable *)
  | Some blen, Signalled => (set_r s (pb s) Running (Some blen) (wst s) (delivered s), ONone)   (* returns from Wait *)
  | Some blen, Running =>
      match rerr s with
      | Some _ => (set_r s (pb s) Running None (wst s) (delivered s), ORead [] (Some EClosedPipe))
      | None =>
          if blen =? 0 then
            (set_r s (pb s) Running None (wst s) (delivered s),
             ORead [] (if pb_buffered (pb s) =? 0 then werr s else None))
          else
            let '(b', out) := pb_read_some (pb s) blen in
            match out with
            | _ :: _ => (set_r s b' Running None (signal (wst s)) (delivered s ++ out), ORead out None)
            | [] => match werr s with
                    | Some e => (set_r s (pb s) Running None (wst s) (delivered s), ORead [] (Some e))
                    | None => (set_r s (pb s) Parked (Some blen) (wst s) (delivered s), ORParked)
                    end
            end
      end
  end.

(* pipe.writeSome for the write in flight *)
Definition step_w (s : pstate) : pstate * pout :=
  match wreq s, wst s with
  | None, _ => (s, ORejected)
  | Some _, Parked => (s, ORejected)
  | Some rq, Signalled => (set_w s (pb s) Running (Some rq) (rst s) (accepted s), ONone)
  | Some (rest, nn), Running =>
      match werr s with
      | Some _ => (set_w s (pb s) Running None (rst s) (accepted s), OWrite nn (Some EClosedPipe))
      | None =>
        match rerr s with
        | Some e => (set_w s (pb s) Running None (rst s) (accepted s), OWrite nn (Some e))
        | None =>
            match rest with
            | [] => (set_w s (pb s) Running None (rst s) (accepted s), OWrite nn None)
            | _ =>
                let '(b', n) := pb_write_some (pb s) rest in
                if n =? 0 then (set_w s (pb s) Parked (Some (rest, nn)) (rst s) (accepted s), OWParked)
                else
                  let rest' := skipn (N.to_nat n) rest in
                  let acc := accepted s ++ firstn (N.to_nat n) rest in
                  match rest' with
                  | [] => (set_w s b' Running None (signal (rst s)) acc, OWrite (nn + n) None)
                  | _ => (set_w s b' Running (Some (rest', nn + n)) (signal (rst s)) acc, ONone)
                  end
            end
        end
      end
  end.

Definition pstep (s : pstate) (ev : pevent) : pstate * pout :=
  match ev with
  | StartRead blen =>
      match rreq s with
      | Some _ => (s, ORejected)
      | None => (set_r s (pb s) Running (Some blen) (wst s) (delivered s), ONone)
      end
  | StartWrite bs =>
      match wreq s with
      | Some _ => (s, ORejected)
      | None => (set_w s (pb s) Running (Some (bs, 0)) (rst s) (accepted s), ONone)
      end
  | StepR => step_r s
  | StepW => step_w s
  | DoBuffered =>
      (s, match rerr s with
          | Some e => OBuffered 0 (Some e)
          | None => if pb_buffered (pb s) =? 0 then OBuffered 0 (werr s) else OBuffered (pb_buffered (pb s)) None
          end)
  | DoAvailable =>
      (s, match werr s, rerr s with
          | Some e, _ => OAvailable 0 (Some e)
          | None, Some e => OAvailable 0 (Some e)
          | None, None => OAvailable (pb_available (pb s)) None
          end)
  | RCloseEv e =>
      ({| pb := pb s; rerr := match rerr s with Some x => Some x | None => Some (match e with Some x => x | None => EClosedPipe end) end;
          werr := werr s; rst := signal (rst s); wst := signal (wst s); rreq := rreq s; wreq := wreq s;
          accepted := accepted s; delivered := delivered s |}, ONone)
  | WCloseEv e =>
      ({| pb := pb s; rerr := rerr s;
          werr := match werr s with Some x => Some x | None => Some (match e with Some x => x | None => EEOF end) end;
          rst := signal (rst s); wst := signal (wst s); rreq := rreq s; wreq := wreq s;
          accepted := accepted s; delivered := delivered s |}, ONone)
  end.

Definition pinit (sz unit : N) : pstate :=
  {| pb := new_pbuf sz unit; rerr := None; werr := None; rst := Running; wst := Running;
     rreq := None; wreq := None; accepted := []; delivered := [] |}.

Fixpoint prun (s : pstate) (evs : list pevent) : pstate :=
  match evs with [] => s | e :: r => prun (fst (pstep s e)) r end.
