(* Model/Slot.v — model of redis-shake/common/slot.go (KeyToSlot, ChoseSlotInRange,
   pickSuffixDfs), common/crc16.go, latencymonitor/crc16.go + findKeyInRange. *)
From RS Require Import Base.Bytes Base.Dec Spec.Crc16 Spec.Slot Gen.Crc16.
From RS Require Export Model.SlotKeys.
Open Scope N_scope.

(* KeyToSlot: scan for the first '{' (the loop breaks after it), inner loop finds the
   first '}' from there; hashtag = key[i+1:k]; used only when non-empty. *)
Fixpoint scan_tag (l : bytes) : bytes :=
  match l with
  | [] => []
  | b :: r =>
      if beq b LB then match upto RB r with Some (t, _) => t | None => [] end
      else scan_tag r
  end.

Definition hashtag_model (key : bytes) : bytes :=
  match scan_tag key with [] => key | t => t end.

Definition key_to_slot (key : bytes) : N := N.land (crc16_common (hashtag_model key)) 0x3fff.

(* the pinned code before the repair: no break after the first '{' — a later "{..}"
   overrides. Kept to document the refutation (finding F2, fixed). *)
Fixpoint scan_tag_nobreak (l : bytes) (tag : bytes) : bytes :=
  match l with
  | [] => tag
  | b :: r =>
      if beq b LB then
        match upto RB r with Some (t, _) => scan_tag_nobreak r t | None => scan_tag_nobreak r tag end
      else scan_tag_nobreak r tag
  end.
Definition key_to_slot_nobreak (key : bytes) : N :=
  N.land (crc16_common (match scan_tag_nobreak key [] with [] => key | t => t end)) 0x3fff.

(* pickSuffixDfs: depth-first over 'a'..'z', depth checkpoint_suffix_len, first hit wins.
   The slot of the candidate is computed by the external redis.GetSlot, which follows
   the specification (trusted third-party code; checked by the correspondence run). *)
Fixpoint words (n : nat) : list bytes :=
  match n with
  | O => [[]]
  | S n' => flat_map (fun c => map (cons c) (words n')) letters
  end.

Definition in_range (l r s : N) : bool := (l <=? s) && (s <=? r).

(* the recursion of pickSuffixDfs itself: append a letter, recurse, backtrack *)
Fixpoint dfs (n : nat) (judge : bytes -> bool) (pre : bytes) : option bytes :=
  match n with
  | O => if judge pre then Some pre else None
  | S n' =>
      (fix go (ls : bytes) : option bytes :=
         match ls with
         | [] => None
         | c :: ls' => match dfs n' judge (pre ++ [c]) with
                       | Some k => Some k
                       | None => go ls'
                       end
         end) letters
  end.

Definition chose_slot_in_range (prefix : bytes) (l r : N) : option bytes :=
  dfs (N.to_nat checkpoint_suffix_len) (fun k => in_range l r (slot_spec_fast k)) (prefix ++ [x2d]).

(* findKeyInRange: for i := 0; ; i++ — unbounded in Go; the model searches below a bound
   and reports None beyond it (the theorem shows the bound is never reached). *)
Fixpoint find_key_from (fuel : nat) (i : N) (l r : N) : option N :=
  match fuel with
  | O => None
  | S f =>
      if in_range l r (N.land (crc16_latency (latency_key i)) 16383) then Some i
      else find_key_from f (N.succ i) l r
  end.

Definition find_key_bound : N := 150000.
Definition find_key_in_range (l r : N) : option bytes :=
  match find_key_from (N.to_nat find_key_bound) 0 l r with
  | Some i => Some (latency_key i)
  | None => None
  end.
