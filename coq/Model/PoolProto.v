(* Model/PoolProto.v — the completion protocol around the worker pools: a parser goroutine
   pushes records into a bounded channel and closes it after the last one; n workers range over
   the channel, a worker that meets an error records it and leaves; a WaitGroup (or a counting
   channel) releases the waiter when every worker has left; the caller returns only then, with
   the first recorded error or nil.  (syncRDBFile, restoreRDBFile: `pool`; decode adds an output
   channel drained by one writer goroutine: `pipe2`.)  Events are the atomic steps of those
   goroutines; a schedule is any list of enabled events. *)
From Coq Require Import List Arith Bool Lia Permutation.
Import ListNotations.

Section Pool.
Context {A : Type}.

Inductive wst := Alive | ExitOk | ExitErr.

Record pst := {
  unpushed : list A;          (* records the parser has not pushed yet, in file order *)
  chan : list A;              (* the channel's buffer, oldest first *)
  closed : bool;              (* the parser closed the channel *)
  taken : list (nat * bool * A); (* (worker, processed without error?, record) in the order the records left the channel *)
  ws : list wst;              (* one status per worker *)
  released : bool;            (* wg.Wait() returned / the wait channel is closed *)
  ret : option bool           (* the caller returned: Some true = nil error *)
}.

Inductive pev := EPush | EClose | ETake (w : nat) (ok : bool) | EExit (w : nat) | ERelease | EReturn.

Fixpoint set_w (l : list wst) (w : nat) (s : wst) : list wst :=
  match l, w with
  | [], _ => []
  | _ :: r, O => s :: r
  | x :: r, S w' => x :: set_w r w' s
  end.
Definition all_left (l : list wst) : bool := forallb (fun s => match s with Alive => false | _ => true end) l.
Definition no_err (l : list wst) : bool := forallb (fun s => match s with ExitErr => false | _ => true end) l.

Definition pinit (file : list A) (n : nat) : pst :=
  {| unpushed := file; chan := []; closed := false; taken := []; ws := repeat Alive n; released := false; ret := None |}.

(* None = the event is not enabled in this state *)
Definition pstep (cap : nat) (s : pst) (e : pev) : option pst :=
  match e with
  | EPush => match unpushed s with
             | x :: r => if (negb (closed s) && (length (chan s) <? cap))%bool
                         then Some {| unpushed := r; chan := chan s ++ [x]; closed := closed s; taken := taken s; ws := ws s; released := released s; ret := ret s |}
                         else None
             | [] => None
             end
  | EClose => match unpushed s with
              | [] => if closed s then None
                      else Some {| unpushed := []; chan := chan s; closed := true; taken := taken s; ws := ws s; released := released s; ret := ret s |}
              | _ => None
              end
  | ETake w ok => match nth_error (ws s) w, chan s with
                  | Some Alive, x :: r =>
                      if ok then Some {| unpushed := unpushed s; chan := r; closed := closed s; taken := taken s ++ [(w, true, x)]; ws := ws s; released := released s; ret := ret s |}
                      else Some {| unpushed := unpushed s; chan := r; closed := closed s; taken := taken s ++ [(w, false, x)]; ws := set_w (ws s) w ExitErr; released := released s; ret := ret s |}
                  | _, _ => None
                  end
  | EExit w => match nth_error (ws s) w, chan s with
               | Some Alive, [] => if closed s
                                   then Some {| unpushed := unpushed s; chan := []; closed := true; taken := taken s; ws := set_w (ws s) w ExitOk; released := released s; ret := ret s |}
                                   else None
               | _, _ => None
               end
  | ERelease => if (all_left (ws s) && negb (released s))%bool
                then Some {| unpushed := unpushed s; chan := chan s; closed := closed s; taken := taken s; ws := ws s; released := true; ret := ret s |}
                else None
  | EReturn => match ret s with
               | None => if released s
                         then Some {| unpushed := unpushed s; chan := chan s; closed := closed s; taken := taken s; ws := ws s; released := true; ret := Some (no_err (ws s)) |}
                         else None
               | Some _ => None
               end
  end.

Fixpoint prun (cap : nat) (s : pst) (es : list pev) : option pst :=
  match es with
  | [] => Some s
  | e :: r => match pstep cap s e with Some s' => prun cap s' r | None => None end
  end.


Definition rec_of (t : nat * bool * A) : A := snd t.
Definition ok_of (t : nat * bool * A) : bool := snd (fst t).
Definition worker_of (t : nat * bool * A) : nat := fst (fst t).
Definition handled (s : pst) : list A := map rec_of (filter ok_of (taken s)).
Definition failed (s : pst) : list A := map rec_of (filter (fun t => negb (ok_of t)) (taken s)).

End Pool.
Arguments pst : clear implicits.

(* ---- decode: workers range over the input channel, turn each record into one block of lines
   and send it to a bounded output channel; a collector closes the output channel when every
   worker has left; one writer goroutine appends the blocks to the file and closes `wait` when
   the output channel is closed and drained; the caller returns only then. ---- *)
Section Pipe2.
Context {A : Type}.

Inductive w2 := Idle | Holding (x : A) | Gone.

Record dst := {
  d_unpushed : list A; d_chan : list A; d_closed : bool;
  d_ws : list w2;
  d_out : list A; d_oclosed : bool;
  d_written : list A;           (* blocks in the file, in order *)
  d_wait : bool;                (* the writer goroutine finished *)
  d_ret : bool                  (* the caller returned *)
}.

Inductive dev := DPush | DClose | DTake (w : nat) | DEmit (w : nat) | DExit (w : nat) | DCloseOut | DWrite | DWriterDone | DReturn.

Fixpoint set2 (l : list w2) (w : nat) (s : w2) : list w2 :=
  match l, w with
  | [], _ => []
  | _ :: r, O => s :: r
  | x :: r, S w' => x :: set2 r w' s
  end.
Definition gone (s : w2) : bool := match s with Gone => true | _ => false end.
Definition held (l : list w2) : list A := flat_map (fun s => match s with Holding x => [x] | _ => [] end) l.

Definition dinit (file : list A) (n : nat) : dst :=
  {| d_unpushed := file; d_chan := []; d_closed := false; d_ws := repeat Idle n; d_out := []; d_oclosed := false;
     d_written := []; d_wait := false; d_ret := false |}.

Definition upd (s : dst) (u c : list A) (cl : bool) (ws : list w2) (o : list A) (ocl : bool) (wr : list A) (wt rt : bool) : dst :=
  {| d_unpushed := u; d_chan := c; d_closed := cl; d_ws := ws; d_out := o; d_oclosed := ocl; d_written := wr; d_wait := wt; d_ret := rt |}.

Definition dstep (cap ocap : nat) (s : dst) (e : dev) : option dst :=
  match e with
  | DPush => match d_unpushed s with
             | x :: r => if (negb (d_closed s) && (length (d_chan s) <? cap))%bool
                         then Some (upd s r (d_chan s ++ [x]) (d_closed s) (d_ws s) (d_out s) (d_oclosed s) (d_written s) (d_wait s) (d_ret s))
                         else None
             | [] => None
             end
  | DClose => match d_unpushed s with
              | [] => if d_closed s then None
                      else Some (upd s [] (d_chan s) true (d_ws s) (d_out s) (d_oclosed s) (d_written s) (d_wait s) (d_ret s))
              | _ => None
              end
  | DTake w => match nth_error (d_ws s) w, d_chan s with
               | Some Idle, x :: r => Some (upd s (d_unpushed s) r (d_closed s) (set2 (d_ws s) w (Holding x)) (d_out s) (d_oclosed s) (d_written s) (d_wait s) (d_ret s))
               | _, _ => None
               end
  | DEmit w => match nth_error (d_ws s) w with
               | Some (Holding x) => if (negb (d_oclosed s) && (length (d_out s) <? ocap))%bool
                                     then Some (upd s (d_unpushed s) (d_chan s) (d_closed s) (set2 (d_ws s) w Idle) (d_out s ++ [x]) (d_oclosed s) (d_written s) (d_wait s) (d_ret s))
                                     else None
               | _ => None
               end
  | DExit w => match nth_error (d_ws s) w, d_chan s with
               | Some Idle, [] => if d_closed s
                                  then Some (upd s (d_unpushed s) [] true (set2 (d_ws s) w Gone) (d_out s) (d_oclosed s) (d_written s) (d_wait s) (d_ret s))
                                  else None
               | _, _ => None
               end
  | DCloseOut => if (forallb gone (d_ws s) && negb (d_oclosed s))%bool
                 then Some (upd s (d_unpushed s) (d_chan s) (d_closed s) (d_ws s) (d_out s) true (d_written s) (d_wait s) (d_ret s))
                 else None
  | DWrite => match d_out s with
              | x :: r => Some (upd s (d_unpushed s) (d_chan s) (d_closed s) (d_ws s) r (d_oclosed s) (d_written s ++ [x]) (d_wait s) (d_ret s))
              | [] => None
              end
  | DWriterDone => match d_out s with
                   | [] => if (d_oclosed s && negb (d_wait s))%bool
                           then Some (upd s (d_unpushed s) (d_chan s) (d_closed s) (d_ws s) [] true (d_written s) true (d_ret s))
                           else None
                   | _ => None
                   end
  | DReturn => if (d_wait s && negb (d_ret s))%bool
               then Some (upd s (d_unpushed s) (d_chan s) (d_closed s) (d_ws s) (d_out s) (d_oclosed s) (d_written s) true true)
               else None
  end.

Fixpoint drun (cap ocap : nat) (s : dst) (es : list dev) : option dst :=
  match es with
  | [] => Some s
  | e :: r => match dstep cap ocap s e with Some s' => drun cap ocap s' r | None => None end
  end.

End Pipe2.
Arguments dst : clear implicits.
Arguments w2 : clear implicits.
