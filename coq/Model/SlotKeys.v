(* Model/SlotKeys.v — the two crc16 copies (table from the source) and the latency key name. *)
From RS Require Import Base.Bytes Base.Table Base.Dec Spec.Crc16 Gen.Crc16.
Open Scope N_scope.

(* crc16(buf) of both Go copies: table-driven with the table found in the source *)
Definition common_tree : tree := tbuild 8 common_crc16tab.
Definition latency_tree : tree := tbuild 8 latency_crc16tab.
Definition crc16_common (bs : bytes) : N := crc16_tree common_tree bs.
Definition crc16_latency (bs : bytes) : N := crc16_tree latency_tree bs.

Definition latency_key (i : N) : bytes := latency_key_prefix ++ render (Z.of_N i).


(* the alphabet of pickSuffixDfs: 'a'..'z' *)
Definition letters : bytes :=
  [x61;x62;x63;x64;x65;x66;x67;x68;x69;x6a;x6b;x6c;x6d;x6e;x6f;x70;x71;x72;x73;x74;x75;x76;x77;x78;x79;x7a].

