(* Model/Restore.v — model of utils.RestoreRdbEntry (routes: quicklist, lua script, big key
   element by element incl. hash chunks, RESTORE with BUSYKEY / "Bad data format" handling),
   of utils.CompareVersion, and of the part of Redis the routes talk to: one key slot of the
   selected database with RESTORE [REPLACE], DEL, EXISTS, SET, RPUSH, SADD, ZADD, HSET, PEXPIRE.
   Every command the restore issues names the (rewritten) key, so the rest of the keyspace is
   untouched by construction.  Repaired behaviour (F3, F6, F7, F8 fixed); the pinned variants
   are kept as [restore_pinned] / [compare_version_pinned] for the refutations. *)
From RS Require Import Base.Bytes Base.Endian Base.Dec Model.RespCodec Model.Digest Model.Rdb Model.Cupcake.
Open Scope N_scope.

Section Restore.
Variable parse_float : bytes -> option N.

(* ---- the target's value at the key ---- *)
Inductive tval := TLog (v : logical) | TRaw (payload : bytes).     (* TRaw: stream / module payloads, opaque *)
Record kval := { k_val : tval; k_ttl : N }.                        (* ttl in ms, 0 = no expiry *)
Definition slot := option kval.

Fixpoint mem (x : bytes) (l : list bytes) : bool := match l with [] => false | y :: r => beqs x y || mem x r end.
Fixpoint sadd_all (l : list bytes) (acc : list bytes) : list bytes :=
  match l with [] => acc | x :: r => sadd_all r (if mem x acc then acc else acc ++ [x]) end.
Fixpoint upsert {V} (k : bytes) (v : V) (l : list (bytes * V)) : list (bytes * V) :=
  match l with
  | [] => [(k, v)]
  | (k', v') :: r => if beqs k k' then (k', v) :: r else (k', v') :: upsert k v r
  end.
Fixpoint upsert_all {V} (ps : list (bytes * V)) (acc : list (bytes * V)) : list (bytes * V) :=
  match ps with [] => acc | (k, v) :: r => upsert_all r (upsert k v acc) end.

(* element commands against the current value; None = WRONGTYPE (the tool aborts on it) *)
Definition push (el : logical) (cur : option tval) : option (option tval) :=
  match el with
  | LString s => Some (Some (TLog (LString s)))                                  (* SET overwrites anything *)
  | LList [] | LSet [] | LHash [] | LZSet [] => Some cur                          (* nothing is sent *)
  | LList l => match cur with
               | None => Some (Some (TLog (LList l)))
               | Some (TLog (LList l0)) => Some (Some (TLog (LList (l0 ++ l))))
               | _ => None end
  | LSet l => match cur with
              | None => Some (Some (TLog (LSet (sadd_all l []))))
              | Some (TLog (LSet l0)) => Some (Some (TLog (LSet (sadd_all l l0))))
              | _ => None end
  | LHash ps => match cur with
                | None => Some (Some (TLog (LHash (upsert_all ps []))))
                | Some (TLog (LHash p0)) => Some (Some (TLog (LHash (upsert_all ps p0))))
                | _ => None end
  | LZSet ps => match cur with
                | None => Some (Some (TLog (LZSet (upsert_all ps []))))
                | Some (TLog (LZSet p0)) => Some (Some (TLog (LZSet (upsert_all ps p0))))
                | _ => None end
  end.

(* what Redis holds after loading a value: duplicates collapse as they do element by element *)
Definition norm (v : logical) : logical :=
  match v with
  | LString s => LString s | LList l => LList l
  | LSet l => LSet (sadd_all l []) | LHash ps => LHash (upsert_all ps []) | LZSet ps => LZSet (upsert_all ps [])
  end.

(* ---- configuration / target capabilities ---- *)
Inductive policy := PNone | PRewrite | PIgnore.
Record cfg := { c_policy : policy; c_replace : bool; c_threshold : N; c_filter_lua : bool; c_hashtag : bool;
                c_max_type : N (* the target answers "Bad data format" to value types above this; 0 = accepts all *) }.

Inductive routcome := Done | Failed | Aborted.

Definition ttl_of (now exp : N) : N := if exp =? 0 then 0 else if exp <=? now then 1 else exp - now.

(* RESTORE key ttl payload [REPLACE] *)
Inductive rreply := ROk (s : slot) | RBusy | RBad | RErr.
Definition payload_value (d : bytes) : option tval :=
  match d with
  | [] => None
  | t :: _ => if 14 <? b2n t then (if verify_dump d then Some (TRaw d) else None)
              else match decode_dump parse_float d with Some v => Some (TLog (norm v)) | None => None end
  end.
Definition do_restore (c : cfg) (d : bytes) (ttl : N) (replace : bool) (s : slot) : rreply :=
  match s, replace with
  | Some _, false => RBusy
  | _, _ =>
      match d with
      | [] => RErr
      | t :: _ => if (0 <? c_max_type c) && (c_max_type c <? b2n t) then RBad
                  else match payload_value d with Some v => ROk (Some {| k_val := v; k_ttl := ttl |}) | None => RErr end
      end
  end.

(* ---- restoreBigRdbEntry: the elements read from the record ---- *)
Definition pair_p : P (bytes * bytes) := f <- cup_read_string ;; v <- cup_read_string ;; ret (f, v).
Definition elems_of (e : entry) : option logical :=
  match e_value e with
  | [] => None
  | tb :: body =>
      let t := b2n tb in
      if t =? 4 then
        if e_need_len e =? 1 then
          match cup_read_len body with
          | Some ((rlen, _), r) =>
              let n := if e_real_count e =? 0 then rlen else e_real_count e in
              match rep_count n pair_p r with Some (l, _) => Some (LHash l) | None => None end
          | None => None
          end
        else match rep_count (e_real_count e) pair_p body with Some (l, _) => Some (LHash l) | None => None end
      else if 14 <? t then None
      else match read_logical parse_float t body with Some (v, _) => Some v | None => None end
  end.

Definition set_ttl (s : slot) (ttl : N) : slot :=
  match s with Some k => Some {| k_val := k_val k; k_ttl := ttl |} | None => None end.
Definition with_val (s : slot) (v : option tval) (string_set : bool) : slot :=
  match v with
  | None => None
  | Some x => Some {| k_val := x; k_ttl := match s with Some k => if string_set then 0 else k_ttl k | None => 0 end |}
  end.
Definition is_string (el : logical) : bool := match el with LString _ => true | _ => false end.

(* elements, then PEXPIRE when the entry has an expiry *)
Definition elements (e : entry) (ttl : N) (s : slot) : slot * routcome :=
  match elems_of e with
  | None => (s, Aborted)
  | Some el =>
      match push el (match s with Some k => Some (k_val k) | None => None end) with
      | None => (s, Aborted)
      | Some v' => let s' := with_val s v' (is_string el) in
                   ((if e_expire e =? 0 then s' else set_ttl s' ttl), Done)
      end
  end.

(* bytes.Replace(key, "{", "", 1) then bytes.Replace(.., "}", "", 1) *)
Fixpoint remove_first (b : byte) (l : bytes) : bytes :=
  match l with [] => [] | x :: r => if beq x b then r else x :: remove_first b r end.
Definition target_key (c : cfg) (k : bytes) : bytes :=
  if c_hashtag c then remove_first x7d (remove_first x7b k) else k.

Definition is_big (c : cfg) (e : entry) : bool :=
  negb (e_type e =? 15) && ((c_threshold c <? lenN (e_value e)) || negb (e_real_count e =? 0)).

Definition is_rewrite (c : cfg) : bool := match c_policy c with PRewrite => true | _ => false end.

(* the "Bad data format" fallback (repaired: DEL under rewrite, PEXPIRE afterwards) *)
Definition fallback (c : cfg) (e : entry) (ttl : N) (s : slot) : slot * routcome :=
  elements e ttl (if is_rewrite c then None else s).

Definition restore_cmd (c : cfg) (e : entry) (ttl : N) (s : slot) : slot * routcome :=
  match do_restore c (e_value e) ttl false s with
  | ROk s' => (s', Done)
  | RBad => fallback c e ttl s
  | RErr => (s, Failed)
  | RBusy =>
      match c_policy c with
      | PNone => (s, Failed)
      | PIgnore => (s, Done)
      | PRewrite =>
          let '(s1, rep) := if c_replace c then (s, true) else (None, false) in      (* REPLACE, or DEL and retry *)
          match do_restore c (e_value e) ttl rep s1 with
          | ROk s' => (s', Done)
          | RBad => fallback c e ttl s1
          | _ => (s1, Failed)
          end
      end
  end.

(* scripts loaded on the target *)
Record tstate := { t_slot : slot; t_scripts : list bytes }.

Definition restore (c : cfg) (now : N) (e : entry) (t : tstate) : tstate * routcome :=
  let ttl := ttl_of now (e_expire e) in
  let s := t_slot t in
  let upd r := ({| t_slot := fst r; t_scripts := t_scripts t |}, snd r) in
  if e_type e =? 14 then
    match s, c_policy c with
    | Some _, PNone => (t, Failed)
    | Some _, PIgnore => (t, Done)
    | _, _ => upd (elements e ttl None)             (* fresh key, or rewrite: DEL first *)
    end
  else if (e_type e =? 250) && beqs (e_key e) [x6c; x75; x61] then
    if c_filter_lua c then (t, Done) else ({| t_slot := s; t_scripts := t_scripts t ++ [e_value e] |}, Done)
  else if is_big c e then
    upd (elements e ttl (if is_rewrite c && (e_need_len e =? 1) then None else s))
  else upd (restore_cmd c e ttl s).

(* ---- the pinned code (before the repairs) ---- *)
Definition elements_nottl (e : entry) (s : slot) : slot * routcome :=
  match elems_of e with
  | None => (s, Aborted)
  | Some el =>
      match push el (match s with Some k => Some (k_val k) | None => None end) with
      | None => (s, Aborted)
      | Some v' => (with_val s v' (is_string el), Done)
      end
  end.
Definition restore_cmd_pinned (c : cfg) (e : entry) (ttl : N) (s : slot) : slot * routcome :=
  match do_restore c (e_value e) ttl false s with
  | ROk s' => (s', Done)
  | RBad => elements_nottl e s                                                  (* F8: no PEXPIRE *)
  | RErr => (s, Failed)
  | RBusy =>
      match c_policy c with
      | PNone => (s, Failed)
      | PIgnore => (s, Done)
      | PRewrite =>
          if c_replace c then
            match do_restore c (e_value e) ttl true s with
            | ROk s' => (s', Done) | RBad => elements_nottl e s | _ => (s, Failed) end
          else (None, Done)                                                        (* F6: DEL, return *)
      end
  end.
Definition restore_pinned (c : cfg) (now : N) (e : entry) (t : tstate) : tstate * routcome :=
  let ttl := ttl_of now (e_expire e) in
  let s := t_slot t in
  let upd r := ({| t_slot := fst r; t_scripts := t_scripts t |}, snd r) in
  if e_type e =? 14 then
    match s, c_policy c with
    | Some _, PNone => (t, Failed)
    | Some _, PIgnore => upd (elements e ttl s)                                  (* F7: pushes onto the key *)
    | _, _ => upd (elements e ttl None)
    end
  else if (e_type e =? 250) && beqs (e_key e) [x6c; x75; x61] then
    if c_filter_lua c then (t, Done) else ({| t_slot := s; t_scripts := t_scripts t ++ [e_value e] |}, Done)
  else if is_big c e then
    upd (elements e ttl (if is_rewrite c && (e_need_len e =? 1) then None else s))
  else upd (restore_cmd_pinned c e ttl s).

End Restore.

(* ---- utils.CompareVersion(a, b, level): 0 equal, 1 smaller, 2 bigger, 3 unknown; None = index panic ---- *)
Fixpoint split_dot (l : bytes) (cur : bytes) : list bytes :=
  match l with
  | [] => [rev cur]
  | b :: r => if beq b x2e then rev cur :: split_dot r [] else split_dot r (b :: cur)
  end.

(* strconv.Atoi on a component: optional sign, decimal digits, int64 range *)
Definition atoi (s : bytes) : option Z := parse_int64 s.

Fixpoint cmp_levels (pinned : bool) (fuel : nat) (l : nat) (as_ bs : list bytes) : option N :=
  match fuel with
  | O => Some 0
  | S f =>
      let comp (xs : list bytes) : option (option Z) :=          (* outer None = panic, inner None = not a number *)
        if (if pinned then Nat.ltb (length xs) l else Nat.leb (length xs) l) then Some (Some 0%Z)
        else match nth_error xs l with
             | Some x => Some (atoi x)
             | None => None
             end in
      match comp as_ with
      | None => None
      | Some None => Some 3
      | Some (Some av) =>
          match comp bs with
          | None => None
          | Some None => Some 3
          | Some (Some bv) => if (bv <? av)%Z then Some 2 else if (av <? bv)%Z then Some 1 else cmp_levels pinned f (S l) as_ bs
          end
      end
  end.
Definition compare_version (a b : bytes) (level : nat) : option N := cmp_levels false level 0 (split_dot a []) (split_dot b []).
Definition compare_version_pinned (a b : bytes) (level : nat) : option N := cmp_levels true level 0 (split_dot a []) (split_dot b []).
