(* Model/RespCodec.v — model of pkg/redis encoder.go / decoder.go (RESP codec with the
   running offset) and of itos. *)
From RS Require Import Base.Bytes Base.Dec Gen.Resp.
Open Scope Z_scope.

Definition NL : byte := x0a.
Definition CR : byte := x0d.
Definition SP : byte := x20.
Definition crlf : bytes := [CR; NL].

Inductive resp :=
| RStr (b : bytes) | RErr (b : bytes) | RInt (z : Z)
| RBulk (o : option bytes) | RArr (o : option (list resp)).

(* strconv.ParseInt(s, 10, 64): syntax of Dec.parse_int plus the int64 range check *)
Definition in_int64 (z : Z) : bool := (-9223372036854775808 <=? z) && (z <=? 9223372036854775807).
Definition parse_int64 (l : bytes) : option Z :=
  match parse_int l with Some z => if in_int64 z then Some z else None | None => None end.

(* itos: pre-rendered table for i+1024 in [0, imap_len), strconv.FormatInt otherwise;
   the table entry n is strconv.Itoa(n - 1024) *)
Definition imap_len : Z := imap_len_gen.
Definition itos (i : Z) : bytes :=
  let n := i + imap_bias_itos in
  if (0 <=? n) && (n <? imap_len) then render (n - imap_bias_init) else render i.

Fixpoint encode (v : resp) : bytes :=
  match v with
  | RStr b => x2b :: b ++ crlf
  | RErr b => x2d :: b ++ crlf
  | RInt z => x3a :: itos z ++ crlf
  | RBulk None => x24 :: itos (-1) ++ crlf
  | RBulk (Some b) => x24 :: itos (Z.of_nat (length b)) ++ crlf ++ b ++ crlf
  | RArr None => x2a :: itos (-1) ++ crlf
  | RArr (Some l) => x2a :: itos (Z.of_nat (length l)) ++ crlf ++ flat_map encode l
  end.

Inductive res (A : Type) := Ok (a : A) | Err | OutOfFuel.
Arguments Ok {A}. Arguments Err {A}. Arguments OutOfFuel {A}.

(* decodeType: skips keep-alive '\n', counting each byte *)
Fixpoint read_type (inp : bytes) (off : Z) : res (byte * bytes * Z) :=
  match inp with
  | [] => Err
  | b :: r => if beq b NL then read_type r (off + 1) else Ok (b, r, off + 1)
  end.

(* bufio.Reader.ReadBytes('\n'): the line including the '\n' *)
Fixpoint read_line (inp : bytes) : option (bytes * bytes) :=
  match inp with
  | [] => None
  | b :: r => if beq b NL then Some ([b], r) else
      match read_line r with Some (l, r') => Some (b :: l, r') | None => None end
  end.

(* decodeText *)
Definition dec_text (inp : bytes) (off : Z) : res (bytes * bytes * Z) :=
  match read_line inp with
  | None => Err
  | Some (l, r) =>
      let n := (length l - 2)%nat in
      if (Nat.ltb (length l) 2) then Err
      else if beq (nth n l x00) CR then Ok (firstn n l, r, off + Z.of_nat (length l)) else Err
  end.

Definition dec_int (inp : bytes) (off : Z) : res (Z * bytes * Z) :=
  match dec_text inp off with
  | Ok (t, r, off') => match parse_int64 t with Some z => Ok (z, r, off') | None => Err end
  | Err => Err | OutOfFuel => OutOfFuel
  end.

Definition dec_bulk (inp : bytes) (off : Z) : res (option bytes * bytes * Z) :=
  match dec_int inp off with
  | Ok (n, r, off') =>
      if n <? -1 then Err else if n =? -1 then Ok (None, r, off')
      else let k := Z.to_nat n in
           if Nat.ltb (length r) (k + 2) then Err
           else let b := firstn (k + 2) r in
                if beq (nth k b x00) CR && beq (nth (k + 1) b x00) NL
                then Ok (Some (firstn k b), skipn (k + 2) r, off' + Z.of_nat (k + 2)) else Err
  | Err => Err | OutOfFuel => OutOfFuel
  end.

(* decodeSingleLineBulkBytesArray: split the line (without CR LF) at spaces, drop empty
   tokens; no token at all gives a nil array *)
Fixpoint split_sp (l : bytes) (cur : bytes) : list bytes :=
  match l with
  | [] => match cur with [] => [] | _ => [rev cur] end
  | b :: r => if beq b SP then match cur with [] => split_sp r [] | _ => rev cur :: split_sp r [] end
              else split_sp r (b :: cur)
  end.

Definition dec_inline (inp : bytes) (off : Z) : res (resp * bytes * Z) :=
  match read_line inp with
  | None => Err
  | Some (l, r) =>
      let n := (length l - 2)%nat in
      if (Nat.ltb (length l) 2) then Err
      else if beq (nth n l x00) CR then
        let toks := split_sp (firstn n l) [] in
        Ok (RArr (match toks with [] => None | _ => Some (map (fun t => RBulk (Some t)) toks) end),
            r, off + Z.of_nat (length l))
      else Err
  end.

Fixpoint dec (fuel : nat) (depth : nat) (inp : bytes) (off : Z) {struct fuel} : res (resp * bytes * Z) :=
  match fuel with O => OutOfFuel | S fuel' =>
  match read_type inp off with
  | Ok (t, r, off1) =>
      if beq t x2b then match dec_text r off1 with Ok (b, r', o) => Ok (RStr b, r', o) | Err => Err | OutOfFuel => OutOfFuel end
      else if beq t x2d then match dec_text r off1 with Ok (b, r', o) => Ok (RErr b, r', o) | Err => Err | OutOfFuel => OutOfFuel end
      else if beq t x3a then match dec_int r off1 with Ok (z, r', o) => Ok (RInt z, r', o) | Err => Err | OutOfFuel => OutOfFuel end
      else if beq t x24 then match dec_bulk r off1 with Ok (b, r', o) => Ok (RBulk b, r', o) | Err => Err | OutOfFuel => OutOfFuel end
      else if beq t x2a then
        match dec_int r off1 with
        | Ok (n, r', o) =>
            if n <? -1 then Err else if n =? -1 then Ok (RArr None, r', o)
            else (fix elems (k : nat) (inp : bytes) (off : Z) (acc : list resp) : res (resp * bytes * Z) :=
                    match k with
                    | O => Ok (RArr (Some (rev acc)), inp, off)
                    | S k' => match dec fuel' (S depth) inp off with
                              | Ok (v, r'', o') => elems k' r'' o' (v :: acc)
                              | Err => Err | OutOfFuel => OutOfFuel end
                    end) (Z.to_nat n) r' o []
        | Err => Err | OutOfFuel => OutOfFuel end
      else match depth with
           | O => (* UnreadByte; the unread byte is counted once, with the whole line *)
                  dec_inline (t :: r) (off1 - 1)
           | S _ => Err
           end
  | Err => Err | OutOfFuel => OutOfFuel end end.

(* repeated top-level decoding of a stream (MustDecodeOpt in a loop) until the first error *)
Fixpoint dec_stream (n : nat) (fuel : nat) (inp : bytes) (off : Z) : list (resp * Z) :=
  match n with
  | O => []
  | S n' => match dec fuel 0 inp off with
            | Ok (v, r, o) => (v, o) :: dec_stream n' fuel r o
            | _ => []
            end
  end.

(* the decoder of the pinned tree counted the first byte of an inline command twice
   (defect F5, fixed): offset after the inline branch was one too large *)
Definition dec_inline_pinned (t : byte) (r : bytes) (off1 : Z) := dec_inline (t :: r) off1.

(* ---- well-formedness (what can be encoded and read back) and size (fuel) ---- *)
Definition len_ok (n : nat) : Prop := Z.of_nat n <= 9223372036854775807.
Fixpoint wf (v : resp) : Prop :=
  match v with
  | RStr b | RErr b => ~ In NL b
  | RInt z => in_int64 z = true
  | RBulk (Some b) => len_ok (length b)
  | RBulk None => True
  | RArr None => True
  | RArr (Some l) => len_ok (length l) /\
      (fix all (l : list resp) := match l with [] => True | x :: r => wf x /\ all r end) l
  end.
Fixpoint size (v : resp) : nat :=
  match v with RArr (Some l) => S (fold_right (fun x a => size x + a)%nat 0%nat l) | _ => 1%nat end.

(* handler.go ParseArgs: an array of bulk strings -> lower-cased command name + args *)
Definition to_lower (b : byte) : byte :=
  let n := b2n b in if ((65 <=? n) && (n <=? 90))%N then n2b (n + 32) else b.
Definition parse_args (v : resp) : option (bytes * list bytes) :=
  match v with
  | RArr (Some (RBulk (Some c) :: rest)) =>
      let fix args (l : list resp) : option (list bytes) :=
        match l with
        | [] => Some []
        | RBulk (Some a) :: r => match args r with Some t => Some (a :: t) | None => None end
        | _ => None
        end in
      match c, args rest with
      | [], _ => None
      | _, Some a => Some (map to_lower c, a)
      | _, None => None
      end
  | _ => None
  end.
