(* Model/Decode.v — model of decode mode (redis-shake/decode.go): per record the JSON lines it
   emits (abstractly: the fields of each line), base64 (encoding/base64 StdEncoding) as an
   executable codec, and the fan-out over decoder workers. *)
From RS Require Import Base.Bytes Base.Endian Model.Rdb Model.Cupcake.
Open Scope N_scope.

(* ---- base64, standard alphabet with padding ---- *)
Definition b64_char (i : N) : byte :=
  if i <? 26 then n2b (65 + i) else if i <? 52 then n2b (97 + (i - 26)) else if i <? 62 then n2b (48 + (i - 52))
  else if i =? 62 then x2b else x2f.
Definition b64_index (c : byte) : option N :=
  let n := b2n c in
  if (65 <=? n) && (n <=? 90) then Some (n - 65)
  else if (97 <=? n) && (n <=? 122) then Some (n - 97 + 26)
  else if (48 <=? n) && (n <=? 57) then Some (n - 48 + 52)
  else if n =? 43 then Some 62 else if n =? 47 then Some 63 else None.

Fixpoint b64_encode (s : bytes) : bytes :=
  match s with
  | [] => []
  | [a] => let n := b2n a * 65536 in [b64_char (n / 262144); b64_char ((n / 4096) mod 64); x3d; x3d]
  | [a; b] => let n := b2n a * 65536 + b2n b * 256 in [b64_char (n / 262144); b64_char ((n / 4096) mod 64); b64_char ((n / 64) mod 64); x3d]
  | a :: b :: c :: r =>
      let n := b2n a * 65536 + b2n b * 256 + b2n c in
      b64_char (n / 262144) :: b64_char ((n / 4096) mod 64) :: b64_char ((n / 64) mod 64) :: b64_char (n mod 64) :: b64_encode r
  end.

Fixpoint b64_decode (s : bytes) : option bytes :=
  match s with
  | [] => Some []
  | c0 :: c1 :: c2 :: c3 :: r =>
      match b64_index c0, b64_index c1 with
      | Some i0, Some i1 =>
          if beq c2 x3d then
            (if beq c3 x3d then match r with [] => Some [n2b ((i0 * 64 + i1) / 16)] | _ => None end else None)
          else match b64_index c2 with
               | Some i2 =>
                   if beq c3 x3d then
                     match r with
                     | [] => let n := (i0 * 64 + i1) * 64 + i2 in Some [n2b (n / 1024); n2b ((n / 4) mod 256)]
                     | _ => None
                     end
                   else match b64_index c3, b64_decode r with
                        | Some i3, Some t => let n := ((i0 * 64 + i1) * 64 + i2) * 64 + i3 in
                                             Some (n2b (n / 65536) :: n2b ((n / 256) mod 256) :: n2b (n mod 256) :: t)
                        | _, _ => None
                        end
               | None => None
               end
      | _, _ => None
      end
  | _ => None
  end.

(* ---- the lines of one record ---- *)
Inductive jline :=
| JAux (key value : bytes)
| JString (db exp : N) (key value : bytes)
| JList (db exp : N) (key : bytes) (idx : nat) (value : bytes)
| JHash (db exp : N) (key field value : bytes)
| JSet (db exp : N) (key member : bytes)
| JZSet (db exp : N) (key member : bytes) (score : N).

Fixpoint list_lines (db exp : N) (key : bytes) (i : nat) (l : list bytes) : list jline :=
  match l with [] => [] | x :: r => JList db exp key i x :: list_lines db exp key (S i) r end.

Section Decode.
Variable pf : bytes -> option N.

(* None: decode mode aborts (payload it cannot decode) *)
Definition lines_of (e : entry) : option (list jline) :=
  if e_type e =? 250 then Some [JAux (e_key e) (e_value e)]
  else
    match decode_dump pf (e_value e) with
    | Some (LString s) => Some [JString (e_db e) (e_expire e) (e_key e) s]
    | Some (LList l) => Some (list_lines (e_db e) (e_expire e) (e_key e) 0 l)
    | Some (LHash l) => Some (map (fun p => JHash (e_db e) (e_expire e) (e_key e) (fst p) (snd p)) l)
    | Some (LSet l) => Some (map (fun m => JSet (e_db e) (e_expire e) (e_key e) m) l)
    | Some (LZSet l) => Some (map (fun p => JZSet (e_db e) (e_expire e) (e_key e) (fst p) (snd p)) l)
    | None => None
    end.

(* reading a key's lines back *)
Fixpoint list_values (ls : list jline) : list (nat * bytes) :=
  match ls with JList _ _ _ i v :: r => (i, v) :: list_values r | _ => [] end.
Definition recover (ls : list jline) : option logical :=
  match ls with
  | [JString _ _ _ v] => Some (LString v)
  | JList _ _ _ _ _ :: _ => Some (LList (map snd (list_values ls)))
  | JHash _ _ _ _ _ :: _ => Some (LHash (fold_right (fun l acc => match l with JHash _ _ _ f v => (f, v) :: acc | _ => acc end) [] ls))
  | JSet _ _ _ _ :: _ => Some (LSet (fold_right (fun l acc => match l with JSet _ _ _ m => m :: acc | _ => acc end) [] ls))
  | JZSet _ _ _ _ _ :: _ => Some (LZSet (fold_right (fun l acc => match l with JZSet _ _ _ m s => (m, s) :: acc | _ => acc end) [] ls))
  | _ => None
  end.

Definition line_key (l : jline) : bytes :=
  match l with JAux k _ => k | JString _ _ k _ => k | JList _ _ k _ _ => k | JHash _ _ k _ _ => k | JSet _ _ k _ => k | JZSet _ _ k _ _ => k end.
Definition line_db (l : jline) : option N :=
  match l with JAux _ _ => None | JString d _ _ _ => Some d | JList d _ _ _ _ => Some d | JHash d _ _ _ _ => Some d | JSet d _ _ _ => Some d | JZSet d _ _ _ _ => Some d end.
Definition line_exp (l : jline) : option N :=
  match l with JAux _ _ => None | JString _ x _ _ => Some x | JList _ x _ _ _ => Some x | JHash _ x _ _ _ => Some x | JSet _ x _ _ => Some x | JZSet _ x _ _ _ => Some x end.

(* ---- workers: each record's lines go out as one block ---- *)
Fixpoint assigned {A} (w : nat) (sched : list nat) (es : list A) : list A :=
  match sched, es with
  | s :: sr, e :: er => if Nat.eqb s w then e :: assigned w sr er else assigned w sr er
  | _, _ => []
  end.
Definition block (e : entry) : list jline := match lines_of e with Some l => l | None => [] end.
Definition worker_blocks (w : nat) (sched : list nat) (es : list entry) : list (list jline) := map block (assigned w sched es).
Definition all_blocks (n : nat) (sched : list nat) (es : list entry) : list (list jline) :=
  concat (map (fun w => worker_blocks w sched es) (seq 0 n)).
End Decode.
