(* Model/Handoff.v — model of the SYNC/PSYNC hand-off: utils.SendPSyncContinue (reply line),
   utils.waitRdbDump ("$<n>\r\n" after optional keep-alive newlines), the countdown copy of the
   n RDB bytes (runIncrementalSync / dumpRDBFile with utils.Iocopy) under an adversarial reader,
   and the plain copy loop of pSyncPipeCopy. *)
From RS Require Import Base.Bytes Base.Dec Model.RespCodec Model.Filter.
Open Scope Z_scope.

Inductive reply := Full (runid : bytes) (offset : Z) | Continue.

Definition w_fullresync : bytes := [x66;x75;x6c;x6c;x72;x65;x73;x79;x6e;x63].
Definition w_continue : bytes := [x63;x6f;x6e;x74;x69;x6e;x75;x65].

(* strings.Split(x, " ") *)
Fixpoint split_on_sp (l : bytes) (cur : bytes) : list bytes :=
  match l with
  | [] => [rev cur]
  | b :: r => if beq b SP then rev cur :: split_on_sp r [] else split_on_sp r (b :: cur)
  end.

(* the reply to PSYNC, decoded with redis.Decode: a simple string "+CONTINUE" / "+FULLRESYNC <runid> <offset>" *)
Definition parse_reply (s : bytes) : option (reply * bytes) :=
  match dec (S (length s)) 0 s 0 with
  | Ok (RStr x, rest, _) =>
      match split_on_sp x [] with
      | [w] => if beqs (map lower w) w_continue then Some (Continue, rest) else None
      | w :: rid :: off :: _ =>
          if beqs (map lower w) w_fullresync then
            match parse_int64 off with Some v => Some (Full rid v, rest) | None => None end
          else None
      | _ => None
      end
  | _ => None
  end.

(* waitRdbDump: leading '\n' are keep-alives; then "$<n>\r\n" with n > 0 *)
Fixpoint skip_nl (s : bytes) : bytes := match s with b :: r => if beq b NL then skip_nl r else s | [] => [] end.
Fixpoint until_crlf (s : bytes) (acc : bytes) : option (bytes * bytes) :=   (* the line without CR LF, the rest *)
  match s with
  | [] => None
  | b :: r => if beq b NL then
                match acc with
                | c :: acc' => if beq c CR then Some (rev acc', r) else until_crlf r (b :: acc)
                | [] => until_crlf r (b :: acc)
                end
              else until_crlf r (b :: acc)
  end.
Definition wait_rdb (s : bytes) : option (Z * bytes) :=
  match until_crlf (skip_nl s) [] with
  | Some (x24 :: digits, rest) =>
      match parse_int64 digits with Some n => if 0 <? n then Some (n, rest) else None | None => None end
  | _ => None
  end.

(* one Read of the connection: wants at most [max] bytes; the environment offers any non-empty
   prefix of what is still to come ([want], at least 1) — TCP segmentation, bufio refills *)
Definition read1 (want max : nat) (s : bytes) : bytes * bytes :=
  let k := Nat.min (Nat.max 1 want) (Nat.min max (length s)) in (firstn k s, skipn k s).

(* rdbSize -= Iocopy(br, pipew, p, rdbSize) with len(p) = bufsz: exactly n bytes go to the pipe *)
Fixpoint copy_loop (fuel : nat) (bufsz : nat) (frag : list nat) (n : nat) (s : bytes) (acc : bytes) : option (bytes * bytes) :=
  match n with
  | O => Some (acc, s)
  | _ => match fuel with
         | O => None
         | S f =>
           let '(got, rest) := read1 (hd 1%nat frag) (Nat.min bufsz n) s in
           match got with
           | [] => None
           | _ => copy_loop f bufsz (tl frag) (n - length got) rest (acc ++ got)
           end
         end
  end.

(* pSyncPipeCopy: read up to bufsz, write it, count it — until the source has no more bytes *)
Fixpoint pipe_copy (fuel : nat) (bufsz : nat) (frag : list nat) (s : bytes) (acc : bytes) : bytes :=
  match fuel with
  | O => acc
  | S f => match s with
           | [] => acc
           | _ => let '(got, rest) := read1 (hd 1%nat frag) bufsz s in pipe_copy f bufsz (tl frag) rest (acc ++ got)
           end
  end.

Record handoff_result := { h_runid : bytes; h_offset : Z; h_size : Z; h_rdb : bytes; h_stream : bytes }.

(* full resync: reply, size line, n bytes to the RDB consumer, the rest to the command parser *)
Definition handoff (s : bytes) (bufsz : nat) (frag : list nat) : option handoff_result :=
  match parse_reply s with
  | Some (Full rid off, r1) =>
      match wait_rdb r1 with
      | Some (n, r2) =>
          match copy_loop (length r2) bufsz frag (Z.to_nat n) r2 [] with
          | Some (rdb, r3) =>
              Some {| h_runid := rid; h_offset := off; h_size := n; h_rdb := rdb;
                      h_stream := pipe_copy (length r3) bufsz (skipn (length r2) frag) r3 [] |}
          | None => None
          end
      | None => None
      end
  | _ => None
  end.
