(* Model/Lzf.v — lzfDecompress of pkg/rdb/reader.go (and the identical copy in the vendored
   cupcake decoder) as a byte-at-a-time state machine: structural in the input, no fuel.
   [rout] is the output reversed; anything that would index outside the input or the output
   buffer is an error (the Go code recovers the panic into an error); reading a not yet written
   position of the output buffer sees the zero byte that make() put there. *)
From RS Require Import Base.Bytes.
Open Scope N_scope.

Inductive lzf_phase := LCtrl | LLit (k : N) | LBackExt (ctrl : N) | LBackOff (ctrl len : N).
Record lzf_st := { lph : lzf_phase; rout : bytes; olen : N; lfail : bool }.

Definition out_get (outlen : N) (s : lzf_st) (ref : N) : option byte :=
  if ref <? olen s then Some (nth (N.to_nat (olen s - 1 - ref)) (rout s) x00)
  else if ref <? outlen then Some x00 else None.

Definition lzf_push (outlen : N) (s : lzf_st) (b : byte) (p : lzf_phase) : lzf_st :=
  if olen s <? outlen then {| lph := p; rout := b :: rout s; olen := olen s + 1; lfail := lfail s |}
  else {| lph := p; rout := rout s; olen := olen s; lfail := true |}.

Fixpoint lzf_copy (outlen : N) (n : nat) (ref : N) (s : lzf_st) : lzf_st :=
  match n with
  | O => s
  | S k => match out_get outlen s ref with
           | Some b => lzf_copy outlen k (ref + 1) (lzf_push outlen s b LCtrl)
           | None => {| lph := LCtrl; rout := rout s; olen := olen s; lfail := true |}
           end
  end.

Definition lzf_step (outlen : N) (s : lzf_st) (b : byte) : lzf_st :=
  if lfail s then s else
  let v := b2n b in
  match lph s with
  | LCtrl => if v <? 32 then {| lph := LLit (v + 1); rout := rout s; olen := olen s; lfail := false |}
             else if v / 32 =? 7 then {| lph := LBackExt v; rout := rout s; olen := olen s; lfail := false |}
             else {| lph := LBackOff v (v / 32); rout := rout s; olen := olen s; lfail := false |}
  | LLit k => lzf_push outlen s b (if k =? 1 then LCtrl else LLit (k - 1))
  | LBackExt ctrl => {| lph := LBackOff ctrl (7 + v); rout := rout s; olen := olen s; lfail := false |}
  | LBackOff ctrl len =>
      let back := (ctrl mod 32) * 256 + v + 1 in
      if olen s <? back then {| lph := LCtrl; rout := rout s; olen := olen s; lfail := true |}
      else lzf_copy outlen (N.to_nat (len + 2)) (olen s - back) s
  end.

Definition lzf_decompress (inp : bytes) (outlen : N) : option bytes :=
  let s := fold_left (lzf_step outlen) inp {| lph := LCtrl; rout := []; olen := 0; lfail := false |} in
  if lfail s then None else
  match lph s with
  | LCtrl => if olen s =? outlen then Some (rev (rout s)) else None
  | _ => None
  end.

Example lzf_runlength : lzf_decompress [x00; x61; xe0; x00; x00] 10 = Some (repeat x61 10).
Proof. vm_compute. reflexivity. Qed.
Example lzf_misc : lzf_decompress [x02; x61; x62; x63] 3 = Some [x61; x62; x63] /\ lzf_decompress [x02; x61; x62; x63] 4 = None
  /\ lzf_decompress [x02; x61; x62; x63] 2 = None /\ lzf_decompress [x00; x61; x20; x05] 4 = None /\ lzf_decompress [x02; x61] 3 = None.
Proof. vm_compute. repeat split. Qed.
