(* Model/Cupcake.v — model of pkg/rdb/encoder.go + the external cupcake encoder (EncodeDump,
   EncodeObject ...) and of pkg/rdb/decoder.go + the vendored cupcake decoder (DecodeDump for
   every value type and compact encoding).  Decimal <-> binary64 conversion is not modelled:
   scores are 64-bit patterns and the two text conversions are parameters. *)
From RS Require Import Base.Bytes Base.Endian Base.Dec Model.RespCodec Model.Digest Model.Lzf Model.Rdb Gen.Crc64.
Open Scope N_scope.

Inductive logical :=
| LString (s : bytes)
| LList (l : list bytes)
| LSet (l : list bytes)
| LHash (l : list (bytes * bytes))
| LZSet (l : list (bytes * N)).          (* member, score as IEEE-754 bits *)

Definition nan_bits : N := 0x7FF8000000000001.      (* math.NaN() *)
Definition pinf_bits : N := 0x7FF0000000000000.
Definition ninf_bits : N := 0xFFF0000000000000.

Section Float.
Variable fmt_g17 : N -> bytes.              (* strconv.FormatFloat(f, 'g', 17, 64) of a finite, non-NaN double *)
Variable parse_float : bytes -> option N.   (* strconv.ParseFloat(s, 64): bits, None on error *)

(* ---------------- encoder (external cupcake) ---------------- *)
Definition cup_enc_len (l : N) : bytes :=
  if l <? 64 then [n2b l]
  else if l <? 16384 then [n2b (l / 256 + 64); n2b l]
  else n2b 128 :: be_enc 4 l.

(* encodeIntString: only when ParseInt(s,10,32) succeeds and FormatInt gives back exactly s *)
Definition int32_string (s : bytes) : option Z :=
  match parse_int64 s with
  | Some i => if ((-2147483648 <=? i) && (i <=? 2147483647))%Z && beqs (render i) s then Some i else None
  | None => None
  end.

Definition cup_enc_string (s : bytes) : bytes :=
  match int32_string s with
  | Some i =>
      if ((-128 <=? i) && (i <=? 127))%Z then [n2b 192; n2b (of_signed 8 i)]
      else if ((-32768 <=? i) && (i <=? 32767))%Z then n2b 193 :: le_enc 2 (of_signed 16 i)
      else n2b 194 :: le_enc 4 (of_signed 32 i)
  | None => cup_enc_len (lenN s) ++ s
  end.

Definition cup_enc_float (bits : N) : bytes :=
  if bits =? nan_bits then [n2b 253]     (* any NaN pattern: see is_nan below *)
  else if bits =? pinf_bits then [n2b 254]
  else if bits =? ninf_bits then [n2b 255]
  else let t := fmt_g17 bits in n2b (lenN t) :: t.

Definition is_nan (bits : N) : bool :=
  ((bits / 2 ^ 52) mod 2048 =? 2047) && negb (bits mod 2 ^ 52 =? 0).
Definition enc_score_bits (bits : N) : bytes := if is_nan bits then [n2b 253] else cup_enc_float bits.

Definition enc_value_body (v : logical) : N * bytes :=     (* type byte, value bytes *)
  match v with
  | LString s => (0, cup_enc_string s)
  | LList l => (1, cup_enc_len (N.of_nat (length l)) ++ concat (map cup_enc_string l))
  | LSet l => (2, cup_enc_len (N.of_nat (length l)) ++ concat (map cup_enc_string l))
  | LZSet l => (3, cup_enc_len (N.of_nat (length l)) ++ concat (map (fun m => cup_enc_string (fst m) ++ enc_score_bits (snd m)) l))
  | LHash l => (4, cup_enc_len (N.of_nat (length l)) ++ concat (map (fun p => cup_enc_string (fst p) ++ cup_enc_string (snd p)) l))
  end.

(* EncodeDump: type, value, LE16 version (6), LE64 CRC of everything before *)
Definition encode_dump (v : logical) : bytes :=
  let '(t, body) := enc_value_body v in
  let pre := n2b t :: body ++ le_enc 2 cupcake_version in
  pre ++ le_enc 8 (ext_digest pre).

(* Encoder.EncodeHeader / EncodeObject* / EncodeFooter: a whole RDB file (version 6) *)
Definition obj := (N * bytes * N * logical)%type.       (* db, key, expire-at ms (0 = none), value *)
Fixpoint encode_objs (cur : option N) (os : list obj) : bytes :=
  match os with
  | [] => []
  | (db, key, exp, v) :: r =>
      let sel := match cur with
                 | Some d => if d =? db then [] else n2b 254 :: cup_enc_len db
                 | None => n2b 254 :: cup_enc_len db
                 end in
      let ex := if exp =? 0 then [] else n2b 252 :: le_enc 8 exp in
      let '(t, body) := enc_value_body v in
      sel ++ ex ++ [n2b t] ++ cup_enc_string key ++ body ++ encode_objs (Some db) r
  end.
Definition encode_file_objs (os : list obj) : bytes :=
  let body := [x52; x45; x44; x49; x53; x30; x30; x30; x36] ++ encode_objs None os ++ [n2b 255] in
  body ++ le_enc 8 (ext_digest body).

(* ---------------- decoder (vendored cupcake) ---------------- *)
(* readLength: the 64-bit form yields the LOW 32 bits here (uint32(length)) *)
Definition cup_read_len : P (N * bool) :=
  u <- byte1 ;;
  let u := b2n u in
  match u / 64 with
  | 0 => ret (u mod 64, false)
  | 1 => u2 <- byte1 ;; ret ((u mod 64) * 256 + b2n u2, false)
  | 3 => ret (u mod 64, true)
  | _ => if u =? 129 then _ <- rd_be32 ;; lo <- rd_be32 ;; ret (lo, false)
         else n <- rd_be32 ;; ret (n, false)
  end.

Definition cup_read_string : P bytes :=
  x <- cup_read_len ;;
  let '(l, encoded) := x in
  if encoded && (l =? 0) then b <- byte1 ;; ret (render (to_signed 8 (b2n b)))
  else if encoded && (l =? 1) then bs <- take 2 ;; ret (render (to_signed 16 (le_dec bs)))
  else if encoded && (l =? 2) then bs <- take 4 ;; ret (render (to_signed 32 (le_dec bs)))
  else if encoded && (l =? 3) then
    cl <- cup_read_len ;; ul <- cup_read_len ;; blob <- take (fst cl) ;;
    (fun s => match lzf_decompress blob (fst ul) with Some o => Some (o, s) | None => None end)
  else take l.      (* unknown encodings fall through to a raw read of l bytes *)

Definition cup_read_float : P N :=
  u <- byte1 ;;
  let u := b2n u in
  if u =? 253 then ret nan_bits else if u =? 254 then ret pinf_bits else if u =? 255 then ret ninf_bits
  else t <- take u ;; (fun s => match parse_float t with Some b => Some (b, s) | None => None end).

Fixpoint rep {A} (n : nat) (p : P A) : P (list A) :=
  match n with O => ret [] | S k => x <- p ;; xs <- rep k p ;; ret (x :: xs) end.
Definition rep_count {A} (n : N) (p : P A) : P (list A) :=
  fun s => rep (N.to_nat (N.min n (lenN s + 1))) p s.

(* ---- ziplist ---- *)
Definition zl_entry : P bytes :=
  prev <- byte1 ;;
  _ <- (if b2n prev =? 254 then (fun s => Some (tt, skipn 4 s)) else ret tt) ;;   (* Seek(4,1): unchecked *)
  hb <- byte1 ;;
  let h := b2n hb in
  if h / 64 =? 0 then take (h mod 64)
  else if h / 64 =? 1 then b <- byte1 ;; take ((h mod 64) * 256 + b2n b)
  else if h / 64 =? 2 then l <- take 4 ;; take (be_dec l)
  else if h =? 192 then l <- take 2 ;; ret (render (to_signed 16 (le_dec l)))
  else if h =? 208 then l <- take 4 ;; ret (render (to_signed 32 (le_dec l)))
  else if h =? 224 then l <- take 8 ;; ret (render (to_signed 64 (le_dec l)))
  else if h =? 240 then l <- take 3 ;; ret (render (to_signed 24 (le_dec l)))
  else if h =? 254 then b <- byte1 ;; ret (render (to_signed 8 (b2n b)))
  else if h / 16 =? 15 then ret (render (Z.of_N (h mod 16) - 1))
  else fail_.

(* readZiplistLength: Seek(8,0), 2 bytes LE *)
Definition zl_entries (zl : bytes) : option (list bytes) :=
  match take 2 (skipn 8 zl) with
  | Some (lb, r) => match rep_count (le_dec lb) zl_entry r with Some (es, _) => Some es | None => None end
  | None => None
  end.

Fixpoint pairs {A} (l : list A) : list (A * A) :=
  match l with a :: b :: r => (a, b) :: pairs r | _ => [] end.

(* ---- intset ---- *)
Definition intset_members (s : bytes) : option (list bytes) :=
  match take 4 s with
  | Some (wb, r1) =>
      let w := le_dec wb in
      if (w =? 2) || (w =? 4) || (w =? 8) then
        match take 4 r1 with
        | Some (cb, r2) =>
            match rep_count (le_dec cb) (bs <- take w ;; ret (render (to_signed (8 * w) (le_dec bs)))) r2 with
            | Some (ms, _) => Some ms | None => None end
        | None => None
        end
      else None
  | None => None
  end.

(* ---- zipmap (as the code reads it: 253 = 4-byte BIG-endian length + 1 free byte, 254 invalid) ---- *)
Definition zm_item_len (read_free : bool) : P (option N * N) :=      (* None = end marker 255 *)
  b <- byte1 ;;
  let b := b2n b in
  if b =? 253 then s <- take 5 ;; ret (Some (be_dec (firstn 4 s)), b2n (nth 4 s x00))
  else if b =? 254 then fail_
  else if b =? 255 then ret (None, 0)
  else if read_free then f <- byte1 ;; ret (Some b, b2n f) else ret (Some b, 0).

Definition zm_item (read_free : bool) : P bytes :=
  x <- zm_item_len read_free ;;
  match fst x with
  | None => ret []                                  (* length -1: nil value, nothing consumed *)
  | Some l => v <- take l ;; _ <- (fun s => Some (tt, skipn (N.to_nat (snd x)) s)) ;; ret v
  end.

Fixpoint zm_count (fuel : nat) (n : N) : P N :=
  match fuel with
  | O => fail_
  | S f =>
      x <- zm_item_len (N.odd n) ;;
      match fst x with
      | None => ret n
      | Some l => _ <- (fun s => Some (tt, skipn (N.to_nat (l + snd x)) s)) ;; zm_count f (n + 1)
      end
  end.

Definition zipmap_pairs (zm : bytes) : option (list (bytes * bytes)) :=
  match zm with
  | [] => None
  | lb :: r =>
      let n := if 254 <=? b2n lb
               then match zm_count (S (length r)) 0 r with Some (c, _) => Some (c / 2) | None => None end
               else Some (b2n lb) in
      match n with
      | None => None
      | Some n =>
          (* countZipmapItems ends with Seek(0,0): after counting, the items are read from the very
             start of the blob, i.e. the zmlen byte itself is taken for the first item length *)
          let start := if 254 <=? b2n lb then zm else r in
          match rep_count n (k <- zm_item false ;; v <- zm_item true ;; ret (k, v)) start with
          | Some (ps, _) => Some ps | None => None end
      end
  end.

(* readObject *)
Definition read_logical (t : N) : P logical :=
  if t =? 0 then s <- cup_read_string ;; ret (LString s)
  else if t =? 1 then n <- cup_read_len ;; l <- rep_count (fst n) cup_read_string ;; ret (LList l)
  else if t =? 2 then n <- cup_read_len ;; l <- rep_count (fst n) cup_read_string ;; ret (LSet l)
  else if t =? 3 then n <- cup_read_len ;; l <- rep_count (fst n) (m <- cup_read_string ;; sc <- cup_read_float ;; ret (m, sc)) ;; ret (LZSet l)
  else if t =? 5 then n <- cup_read_len ;; l <- rep_count (fst n) (m <- cup_read_string ;; sc <- take 8 ;; ret (m, le_dec sc)) ;; ret (LZSet l)
  else if t =? 4 then n <- cup_read_len ;; l <- rep_count (fst n) (f <- cup_read_string ;; v <- cup_read_string ;; ret (f, v)) ;; ret (LHash l)
  else if t =? 9 then s <- cup_read_string ;; (fun r => match zipmap_pairs s with Some ps => Some (LHash ps, r) | None => None end)
  else if t =? 10 then s <- cup_read_string ;; (fun r => match zl_entries s with Some es => Some (LList es, r) | None => None end)
  else if t =? 11 then s <- cup_read_string ;; (fun r => match intset_members s with Some ms => Some (LSet ms, r) | None => None end)
  else if t =? 12 then
    s <- cup_read_string ;;
    (fun r => match zl_entries s with
              | Some es =>
                  let fix conv (ps : list (bytes * bytes)) : option (list (bytes * N)) :=
                    match ps with
                    | [] => Some []
                    | (m, sc) :: q => match parse_float sc, conv q with Some b, Some t' => Some ((m, b) :: t') | _, _ => None end
                    end in
                  match conv (pairs es) with Some z => Some (LZSet z, r) | None => None end
              | None => None end)
  else if t =? 13 then s <- cup_read_string ;; (fun r => match zl_entries s with Some es => Some (LHash (pairs es), r) | None => None end)
  else if t =? 14 then
    n <- cup_read_len ;;
    l <- rep_count (fst n) (s <- cup_read_string ;; ret (match zl_entries s with Some es => es | None => [] end)) ;;
    ret (LList (concat l))
  else fail_.

(* DecodeDump: verifyDump, then readObject on dump[1:] (the trailer is simply not consumed) *)
Definition decode_dump (d : bytes) : option logical :=
  if verify_dump d then
    match d with
    | t :: r => match read_logical (b2n t) r with Some (v, _) => Some v | None => None end
    | [] => None
    end
  else None.
End Float.
