(* Model/Filter.v — model of redis-shake/filter/filter.go: FilterKey, FilterDB, FilterSlot,
   FilterCommands (true = filtered out, as in the Go code). *)
From RS Require Import Base.Bytes Base.Dec Gen.Crc16.
Open Scope Z_scope.

Record fcfg := {
  key_black : list bytes;      (* filter.key.blacklist *)
  key_white : list bytes;      (* filter.key.whitelist *)
  db_black : list bytes;       (* filter.db.blacklist (decimal strings) *)
  db_white : list bytes;       (* filter.db.whitelist *)
  slot_list : list bytes;      (* filter.slot (decimal strings) *)
  filter_lua : bool            (* filter.lua *)
}.

Definition has_prefix_in (key : bytes) (l : list bytes) : bool := existsb (fun p => prefix_of p key) l.
Definition match_one (s : bytes) (l : list bytes) : bool := existsb (fun e => beqs e s) l.
Definition nonempty {A} (l : list A) : bool := match l with [] => false | _ => true end.

(* FilterKey: the tool's own checkpoint keys (prefix CheckpointKey) are always excluded;
   a blacklist, when present, decides alone; otherwise a whitelist, when present *)
Definition filter_key (c : fcfg) (key : bytes) : bool :=
  if prefix_of checkpoint_key key then true
  else if nonempty (key_black c) then has_prefix_in key (key_black c)
  else if nonempty (key_white c) then negb (has_prefix_in key (key_white c))
  else false.

Definition filter_db (c : fcfg) (db : Z) : bool :=
  let s := render db in
  if nonempty (db_black c) then match_one s (db_black c)
  else if nonempty (db_white c) then negb (match_one s (db_white c))
  else false.

(* strconv.Atoi with the error ignored: unparsable entries count as 0 *)
Definition atoi0 (s : bytes) : Z := match parse_int s with Some z => z | None => 0 end.
Definition filter_slot (c : fcfg) (slot : Z) : bool :=
  if nonempty (slot_list c) then negb (existsb (fun e => atoi0 e =? slot) (slot_list c)) else false.

Definition lower (b : byte) : byte :=
  let n := b2n b in if ((65 <=? n) && (n <=? 90))%N then n2b (n + 32) else b.
(* strings.EqualFold against an ASCII lower-case word *)
Definition equal_fold (s word : bytes) : bool := beqs (map lower s) word.

Definition w_opinfo : bytes := [x6f;x70;x69;x6e;x66;x6f].
Definition w_eval : bytes := [x65;x76;x61;x6c].
Definition w_script : bytes := [x73;x63;x72;x69;x70;x74].
Definition w_evalsha : bytes := [x65;x76;x61;x6c;x73;x68;x61].

Definition filter_command (c : fcfg) (cmd : bytes) : bool :=
  equal_fold cmd w_opinfo ||
  (filter_lua c && (equal_fold cmd w_eval || equal_fold cmd w_script || equal_fold cmd w_evalsha)).

Definition key_filter_configured (c : fcfg) : bool := nonempty (key_white c) || nonempty (key_black c).
