(* Model/Incr.v — model of dbSync/syncIncrease.go: parseSourceCommand (as repaired: target.db
   tracking), sendTargetCommand with the barrier automaton of syncUtils.go, and sendFunc's
   MULTI / checkpoint / EXEC wrapping. *)
From RS Require Import Base.Bytes Base.Dec Model.RespCodec Model.Filter Model.CmdFilter Model.Checkpoint.
Open Scope Z_scope.

(* a command as decoded from the replication stream: name lower-cased by ParseArgs, arguments,
   and the decoder's offset after it *)
Record raw := { r_cmd : bytes; r_args : list bytes; r_end : Z }.

Record icfg := {
  i_f : fcfg;                 (* db / key / lua filters *)
  i_tdb : option Z;           (* target.db (None = -1) *)
  i_resume : bool;            (* resume_from_break_point *)
  i_scount : nat; i_ssize : nat;   (* sender.count, sender.size *)
  i_src : bytes; i_runid : bytes; i_ckpt : bytes   (* source address, run id, checkpoint key *)
}.

Record item := { it_cmd : bytes; it_args : list bytes; it_off : Z; it_db : Z }.

Definition w_select : bytes := [x73;x65;x6c;x65;x63;x74].
Definition w_SELECT : bytes := [x53;x45;x4c;x45;x43;x54].
Definition w_multi : bytes := [x6d;x75;x6c;x74;x69].
Definition w_exec : bytes := [x65;x78;x65;x63].
Definition w_ping : bytes := [x70;x69;x6e;x67].
Definition w_publish : bytes := [x70;x75;x62;x6c;x69;x73;x68].
Definition w_hset : bytes := [x68;x73;x65;x74].
Definition w_hello : bytes := [x5f;x5f;x73;x65;x6e;x74;x69;x6e;x65;x6c;x5f;x5f;x3a;x68;x65;x6c;x6c;x6f].   (* "__sentinel__:hello" *)

Inductive kind := KSelect (n : Z) | KBad | KMulti | KExec | KPing | KOther.
(* strconv.Atoi on the argument of select *)
Definition kind_of (r : raw) : kind :=
  if beqs (r_cmd r) w_select then
    match r_args r with
    | [a] => match parse_int64 a with Some n => KSelect n | None => KBad end
    | _ => KBad
    end
  else if beqs (r_cmd r) w_multi then KMulti
  else if beqs (r_cmd r) w_exec then KExec
  else if beqs (r_cmd r) w_ping then KPing
  else KOther.

Definition rfiltered (c : icfg) (r : raw) : bool :=
  filter_command (i_f c) (r_cmd r) ||
  (beqs (r_cmd r) w_publish && match r_args r with a :: _ => equal_fold a w_hello | [] => false end).
Definition rkeyrej (c : icfg) (r : raw) : bool := snd (handle_filter_key (i_f c) (r_cmd r) (r_args r)).
Definition new_args (c : icfg) (r : raw) : list bytes := fst (handle_filter_key (i_f c) (r_cmd r) (r_args r)).

Record pst := { lastDb : Z; bypass : bool; tsel : bool }.
Definition pst0 : pst := {| lastDb := -1; bypass := false; tsel := false |}.

(* one iteration of the parser loop; None = the Go code aborts (malformed select) *)
Definition parse_step (c : icfg) (base : Z) (s : pst) (r : raw) : option (pst * list item) :=
  let mk cmd args db := {| it_cmd := cmd; it_args := args; it_off := base + r_end r; it_db := db |} in
  match kind_of r with
  | KBad => None
  | KPing => Some (if bypass s || rkeyrej c r then (s, []) else (s, [mk (r_cmd r) (new_args c r) (lastDb s)]))
  | KSelect n =>
      let byp := filter_db (i_f c) n in
      if byp then Some ({| lastDb := n; bypass := true; tsel := tsel s |}, [])
      else if rkeyrej c r then Some ({| lastDb := n; bypass := false; tsel := tsel s |}, [])
      else match i_tdb c with
           | Some t =>
               if (t =? n) && tsel s then Some ({| lastDb := n; bypass := false; tsel := true |}, [])
               else Some ({| lastDb := t; bypass := false; tsel := true |}, [mk w_SELECT [render t] t])
           | None => Some ({| lastDb := n; bypass := false; tsel := tsel s |}, [mk (r_cmd r) (new_args c r) n])
           end
  | _ => Some (if bypass s || rfiltered c r || rkeyrej c r then (s, [])
               else (s, [mk (r_cmd r) (new_args c r) (lastDb s)]))
  end.

Fixpoint parse_all (c : icfg) (base : Z) (s : pst) (rs : list raw) : option (list item) :=
  match rs with
  | [] => Some []
  | r :: rs' => match parse_step c base s r with
                | None => None
                | Some (s', out) => match parse_all c base s' rs' with Some t => Some (out ++ t) | None => None end
                end
  end.

(* the `select startDbId` injected before the stream when resuming into a db other than 0 *)
Definition start_items (base start_db : Z) : list item :=
  if start_db =? 0 then [] else [{| it_cmd := w_select; it_args := [render start_db]; it_off := base; it_db := start_db |}].

(* ---------------- sender ---------------- *)
Inductive bstat := BNo | BAdd | BHoldStart | BHolding | BHoldEnd.
Definition bmap (cmd : bytes) : option bstat :=
  if beqs cmd w_select then Some BAdd else if beqs cmd w_multi then Some BHoldStart
  else if beqs cmd w_exec then Some BHoldEnd else None.
Definition barrier (cmd : bytes) (prev : bstat) : bstat * bool :=
  match prev with
  | BNo | BAdd | BHoldEnd => match bmap cmd with Some b => (b, true) | None => (BNo, false) end
  | BHoldStart | BHolding => match bmap cmd with Some BHoldEnd => (BHoldEnd, true) | _ => (BHolding, false) end
  end.

Definition ilen (i : item) : nat := length (it_cmd i) + fold_right (fun a n => length a + n)%nat 0%nat (it_args i).

Record sst := { cache : list item; csize : nat; bs : bstat }.
Definition sst0 : sst := {| cache := []; csize := 0; bs := BNo |}.
Inductive ev := EItem (i : item) | ETick (buf_empty : bool).

Definition flush (s : sst) : sst * list (list item) :=
  match cache s with [] => (s, []) | _ => ({| cache := []; csize := 0; bs := bs s |}, [cache s]) end.

Definition sstep (c : icfg) (s : sst) (e : ev) : sst * list (list item) :=
  match e with
  | EItem i =>
      let '(b, fl) := barrier (it_cmd i) (bs s) in
      let '(s1, g1) := if fl then flush s else (s, []) in
      let s2 := match b with
                | BHoldStart | BHoldEnd => {| cache := cache s1; csize := csize s1; bs := b |}
                | _ => {| cache := cache s1 ++ [i]; csize := csize s1 + ilen i; bs := b |}
                end in
      if (Nat.ltb (length (cache s2)) (i_scount c) && Nat.ltb (csize s2) (i_ssize c))%bool
      then (s2, g1) else let '(s3, g3) := flush s2 in (s3, g1 ++ g3)
  | ETick be =>
      let fl := (be && negb (Nat.eqb (length (cache s)) 0))%bool in
      if (Nat.ltb (length (cache s)) (i_scount c) && Nat.ltb (csize s) (i_ssize c) && negb fl)%bool
      then (s, []) else flush s
  end.

Fixpoint srun (c : icfg) (s : sst) (es : list ev) : sst * list (list item) :=
  match es with
  | [] => (s, [])
  | e :: es' => let '(s1, g1) := sstep c s e in let '(s2, g2) := srun c s1 es' in (s2, g1 ++ g2)
  end.

Definition items_of (es : list ev) : list item := flat_map (fun e => match e with EItem i => [i] | _ => [] end) es.

(* which items survive the barrier automaton (source MULTI / EXEC markers are dropped) *)
Fixpoint survive (b : bstat) (is : list item) : list item :=
  match is with
  | [] => []
  | i :: r => let '(b', _) := barrier (it_cmd i) b in
              match b' with BHoldStart | BHoldEnd => survive b' r | _ => i :: survive b' r end
  end.

(* ---------------- sendFunc: what one flush group puts on the wire ---------------- *)
Notation tcmd := (bytes * list bytes)%type.
Definition tc (i : item) : tcmd := (it_cmd i, it_args i).

Definition wire_group (c : icfg) (seen : list Z) (g : list item) : list tcmd * list Z :=
  match rev g with
  | [] => ([], seen)
  | last_ :: _ =>
      let need := i_resume c && negb ((Nat.eqb (length g) 1) && beqs (it_cmd last_) w_ping) in
      if need then
        let first_time := negb (existsb (Z.eqb (it_db last_)) seen) in
        ([(w_multi, [])] ++ map tc g ++
         (if first_time then [(w_hset, [i_ckpt c; field_name (i_src c) s_runid; i_runid c]);
                              (w_hset, [i_ckpt c; field_name (i_src c) s_version; render 1])] else []) ++
         [(w_hset, [i_ckpt c; field_name (i_src c) s_offset; render (it_off last_)]); (w_exec, [])],
         if first_time then it_db last_ :: seen else seen)
      else (map tc g, seen)
  end.

Fixpoint wire_groups (c : icfg) (seen : list Z) (gs : list (list item)) : list (list tcmd) :=
  match gs with
  | [] => []
  | g :: r => let '(w, seen') := wire_group c seen g in w :: wire_groups c seen' r
  end.
