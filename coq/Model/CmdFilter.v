(* Model/CmdFilter.v — model of filter/redis_command.go getMatchKeys (as repaired) and
   filter.HandleFilterKeyWithCommand.  The command table comes from Gen/CmdTable.v. *)
From RS Require Import Base.Bytes Model.Filter Gen.CmdTable.
Open Scope Z_scope.

Notation arg := bytes.

(* one pass over the key region: [r] = number of argument positions still inside the key
   region; every group is [step] arguments, the first of which is the key *)
Fixpoint scan (fuel : nat) (step : nat) (r : nat) (l : list arg) (pass : arg -> bool)
  : list arg * bool * list arg :=
  match fuel with
  | O => ([], false, l)
  | S f =>
      match r with
      | O => ([], false, l)
      | _ =>
          let g := firstn step l in
          let '(k, a, t) := scan f step (r - step) (skipn step l) pass in
          if pass (hd [] l) then (g ++ k, true, t) else (k, a, t)
      end
  end.

(* number of argument positions from firstkey-1 to the last key argument, inclusive *)
Definition region (first last : Z) (n : nat) : nat :=
  let firstkey := first - 1 in
  let lastarg := if last <? 0 then Z.of_nat n + last
                 else if last =? 0 then Z.of_nat n - 1 else last - 1 in
  Z.to_nat (lastarg - firstkey + 1).

Definition get_match_keys (row : Z * Z * Z) (args : list arg) (pass : arg -> bool) : list arg * bool :=
  let '(first, last, step) := row in
  let fk := Z.to_nat (first - 1) in
  let lead := firstn fk args in
  let '(k, a, t) := scan (length args) (Z.to_nat step) (region first last (length args)) (skipn fk args) pass in
  (lead ++ k ++ t, a).

Fixpoint lookup_cmd (cmd : bytes) (tab : list (bytes * (Z * Z * Z))) : option (Z * Z * Z) :=
  match tab with
  | [] => None
  | (n, row) :: r => if beqs n cmd then Some row else lookup_cmd cmd r
  end.

(* HandleFilterKeyWithCommand: returns (new argv, filtered-out?) *)
Definition handle_filter_key (c : fcfg) (cmd : bytes) (args : list arg) : list arg * bool :=
  if negb (key_filter_configured c) then (args, false) else
  match lookup_cmd cmd cmd_table, args with
  | None, _ => (args, false)
  | _, [] => (args, false)
  | Some row, _ => let '(a, pass) := get_match_keys row args (fun k => negb (filter_key c k)) in (a, negb pass)
  end.

(* getMatchKeys as pinned (before the repair of F12): kept for the refutation examples.
   lastkey' = lastkey-1 (+ len if negative); keys at firstkey-1, +step, ... <= lastkey';
   output = kept groups ++ args[lastkey'+step:]  (arguments before firstkey are lost) *)
Definition get_match_keys_pinned (row : Z * Z * Z) (args : list arg) (pass : arg -> bool) : list arg * bool :=
  let '(first, last, step) := row in
  let n := Z.of_nat (length args) in
  let lastkey := if last - 1 <? 0 then last - 1 + n else last - 1 in
  let fix go (fuel : nat) (pos : Z) : list arg :=
    match fuel with
    | O => []
    | S f => if pos <=? lastkey then
               (if pass (nth (Z.to_nat pos) args []) then firstn (Z.to_nat step) (skipn (Z.to_nat pos) args) else [])
               ++ go f (pos + step)
             else []
    end in
  let kept := go (length args) (first - 1) in
  (kept ++ skipn (Z.to_nat (lastkey + step)) args, nonempty kept).
