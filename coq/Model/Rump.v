(* Model/Rump.v — model of rump mode (redis-shake/rump.go): the fetcher (databases from INFO
   keyspace, SCAN pages, key filter, pipelined DUMP and PTTL), the writer (skip vanished keys,
   ttl normalisation, target.db, big keys through RestoreBigkey on their own connection, SELECT
   bookkeeping on both connections, RESTORE [REPLACE]) and the target side of the two connections. *)
From RS Require Import Base.Bytes Base.Dec Model.RespCodec Model.Filter.
Open Scope Z_scope.

(* what the source answers for one key of a SCAN page *)
Record skey := { sk_key : bytes; sk_dump : option bytes (* None: the key was gone at DUMP *); sk_pttl : Z (* -2 gone, -1 no expiry *) }.
Definition page := list skey.
Record sdb := { sd_db : Z; sd_pages : list page }.     (* the SCAN cursor sequence of one database, page by page *)

Record rcfg := { r_f : fcfg; r_tdb : Z; r_threshold : Z; r_rewrite : bool }.

Record node := { n_key : bytes; n_value : bytes; n_pttl : Z; n_db : Z }.

(* fetcher: databases that pass the database lists; keys filtered only when a key list exists *)
Definition fetch_page (c : rcfg) (db : Z) (p : page) : list node :=
  map (fun k => {| n_key := sk_key k; n_value := match sk_dump k with Some d => d | None => [] end; n_pttl := sk_pttl k; n_db := db |})
      (filter (fun k => negb (key_filter_configured (r_f c) && filter_key (r_f c) (sk_key k))) p).
Definition fetch_db (c : rcfg) (d : sdb) : list node :=
  if filter_db (r_f c) (sd_db d) then [] else concat (map (fetch_page c (sd_db d)) (sd_pages d)).
Definition fetch (c : rcfg) (src : list sdb) : list node := concat (map (fetch_db c) src).

Inductive ract :=
| RSelect (big : bool) (db : Z)                                   (* on the normal / the big-key connection *)
| RRestore (key payload : bytes) (ttl : Z) (replace : bool)
| RBig (key payload : bytes) (ttl : Z) (del : bool).               (* RestoreBigkey: DEL under rewrite, elements, PEXPIRE when ttl > 0 *)

Definition lenZ (b : bytes) : Z := Z.of_nat (length b).

(* writer: (preDb, preBigKeyDb) *)
Definition wnode (c : rcfg) (st : Z * Z) (n : node) : (Z * Z) * list ract :=
  let '(pre, prebig) := st in
  if n_pttl n =? -2 then (st, [])
  else
    let ttl := if n_pttl n =? -1 then 0 else n_pttl n in
    let db := if r_tdb c =? -1 then n_db n else r_tdb c in
    if r_threshold c <=? lenZ (n_value n) then
      ((pre, db), (if db =? prebig then [] else [RSelect true db]) ++ [RBig (n_key n) (n_value n) ttl (r_rewrite c)])
    else
      ((db, prebig), (if db =? pre then [] else [RSelect false db]) ++ [RRestore (n_key n) (n_value n) ttl (r_rewrite c)]).
Fixpoint writer (c : rcfg) (st : Z * Z) (ns : list node) : list ract :=
  match ns with [] => [] | n :: r => let '(st', a) := wnode c st n in a ++ writer c st' r end.

(* the target: the selected databases of the two connections; a write lands in one of them *)
Record rwrite := { rw_db : Z; rw_key : bytes; rw_payload : bytes; rw_ttl : Z; rw_big : bool; rw_replace : bool }.
Fixpoint texec (cur curbig : Z) (acts : list ract) : list rwrite :=
  match acts with
  | [] => []
  | RSelect false d :: r => texec d curbig r
  | RSelect true d :: r => texec cur d r
  | RRestore k p t rep :: r => {| rw_db := cur; rw_key := k; rw_payload := p; rw_ttl := t; rw_big := false; rw_replace := rep |} :: texec cur curbig r
  | RBig k p t del :: r => {| rw_db := curbig; rw_key := k; rw_payload := p; rw_ttl := t; rw_big := true; rw_replace := del |} :: texec cur curbig r
  end.

Definition rump (c : rcfg) (src : list sdb) : list rwrite := texec 0 0 (writer c (0, 0) (fetch c src)).

(* ---- the specification, from the source listing alone ---- *)
Definition copied_key (c : rcfg) (db : Z) (k : skey) : option rwrite :=
  if key_filter_configured (r_f c) && filter_key (r_f c) (sk_key k) then None
  else if sk_pttl k =? -2 then None
  else
    let v := match sk_dump k with Some d => d | None => [] end in
    Some {| rw_db := if r_tdb c =? -1 then db else r_tdb c; rw_key := sk_key k; rw_payload := v;
            rw_ttl := if sk_pttl k =? -1 then 0 else sk_pttl k;
            rw_big := r_threshold c <=? lenZ v; rw_replace := r_rewrite c |}.
Fixpoint omap {A B} (f : A -> option B) (l : list A) : list B :=
  match l with [] => [] | a :: r => match f a with Some b => b :: omap f r | None => omap f r end end.
Definition spec_db (c : rcfg) (d : sdb) : list rwrite :=
  if filter_db (r_f c) (sd_db d) then [] else omap (copied_key c (sd_db d)) (concat (sd_pages d)).
Definition spec_rump (c : rcfg) (src : list sdb) : list rwrite := concat (map (spec_db c) src).
