(* Model/Workers.v — the worker pool of syncRDBFile / restoreRDBFile (as repaired: lua script
   records go straight to RestoreRdbEntry) and the filter decisions of the four data paths
   (full sync, restore, rump, incremental sync). *)
From RS Require Import Base.Bytes Base.Dec Model.RespCodec Model.Filter Model.CmdFilter Model.Slot Model.Incr.
Open Scope Z_scope.

(* a parser record as the workers see it *)
Record went := { we_db : Z; we_key : bytes; we_aux : bool (* lua script record *) }.

Record wcfg := { w_f : fcfg; w_tdb : Z (* target.db, -1 = the source database *); w_full : bool (* full sync: slot filter applies *) }.

Inductive act := ASelect (db : Z) | ARestore (i : nat) | AScript (i : nat).

Definition key_slot (k : bytes) : Z := Z.of_N (key_to_slot k).

(* is the record restored? (true = delivered) *)
Definition delivered (c : wcfg) (e : went) : bool :=
  if we_aux e then true
  else negb (filter_db (w_f c) (we_db e)) && negb (filter_key (w_f c) (we_key e))
       && negb (w_full c && filter_slot (w_f c) (key_slot (we_key e))).

Definition want_db (c : wcfg) (e : went) : Z := if w_tdb c =? -1 then we_db e else w_tdb c.

(* one iteration of a worker's loop: lastdb, the record (with its index in the file) *)
Definition wstep (c : wcfg) (lastdb : Z) (ie : nat * went) : Z * list act :=
  let '(i, e) := ie in
  if we_aux e then (lastdb, [AScript i])
  else if filter_db (w_f c) (we_db e) then (lastdb, [])
  else
    let want := want_db c e in
    let '(l', sel) := if want =? lastdb then (lastdb, []) else (want, [ASelect want]) in
    if filter_key (w_f c) (we_key e) then (l', sel)
    else if w_full c && filter_slot (w_f c) (key_slot (we_key e)) then (l', sel)
    else (l', sel ++ [ARestore i]).

Fixpoint wrun (c : wcfg) (lastdb : Z) (es : list (nat * went)) : list act :=
  match es with
  | [] => []
  | ie :: r => let '(l', a) := wstep c lastdb ie in a ++ wrun c l' r
  end.

(* the target side of one connection: the selected database; a write = (record index, database) *)
Fixpoint conn_exec (cur : Z) (acts : list act) : list (nat * Z) :=
  match acts with
  | [] => []
  | ASelect d :: r => conn_exec d r
  | ARestore i :: r => (i, cur) :: conn_exec cur r
  | AScript i :: r => (i, -1) :: conn_exec cur r        (* SCRIPT LOAD: no database involved *)
  end.

(* what must happen, from the file alone *)
Fixpoint expected (c : wcfg) (es : list (nat * went)) : list (nat * Z) :=
  match es with
  | [] => []
  | (i, e) :: r => if we_aux e then (i, -1) :: expected c r
                   else if delivered c e then (i, want_db c e) :: expected c r else expected c r
  end.

(* a schedule gives every record to one of n workers; worker w handles its records in order *)
Fixpoint assigned (w : nat) (sched : list nat) (es : list (nat * went)) : list (nat * went) :=
  match sched, es with
  | s :: sr, e :: er => if Nat.eqb s w then e :: assigned w sr er else assigned w sr er
  | _, _ => []
  end.
Definition worker_writes (c : wcfg) (w : nat) (sched : list nat) (es : list (nat * went)) : list (nat * Z) :=
  conn_exec 0 (wrun c 0 (assigned w sched es)).
Definition all_writes (c : wcfg) (n : nat) (sched : list nat) (es : list (nat * went)) : list (nat * Z) :=
  concat (map (fun w => worker_writes c w sched es) (seq 0 n)).

(* ---- the four data paths: is (db, key) copied? ---- *)
Definition path_full (f : fcfg) (db : Z) (key : bytes) : bool :=
  delivered {| w_f := f; w_tdb := -1; w_full := true |} {| we_db := db; we_key := key; we_aux := false |}.
Definition path_restore (f : fcfg) (db : Z) (key : bytes) : bool :=
  delivered {| w_f := f; w_tdb := -1; w_full := false |} {| we_db := db; we_key := key; we_aux := false |}.
(* rump: databases by getSourceDbList / fetcher, keys only when a key list is configured *)
Definition path_rump (f : fcfg) (db : Z) (key : bytes) : bool :=
  negb (filter_db f db) && negb (key_filter_configured f && filter_key f key).
(* incremental sync: a command `cmd args` arriving while the source has db selected *)
Definition path_incr (c : icfg) (db : Z) (r : raw) : bool :=
  negb (filter_db (i_f c) db) && negb (rfiltered c r) && negb (rkeyrej c r).

(* the configuration's meaning *)
Definition key_excluded (f : fcfg) (key : bytes) : bool :=
  if nonempty (key_black f) then has_prefix_in key (key_black f)
  else if nonempty (key_white f) then negb (has_prefix_in key (key_white f)) else false.
Definition db_excluded (f : fcfg) (db : Z) : bool :=
  if nonempty (db_black f) then match_one (render db) (db_black f)
  else if nonempty (db_white f) then negb (match_one (render db) (db_white f)) else false.
Definition copied (f : fcfg) (db : Z) (key : bytes) : bool := negb (db_excluded f db) && negb (key_excluded f key).
