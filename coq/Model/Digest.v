(* Model/Digest.v — models of pkg/rdb/digest (running CRC), the vendored and external
   cupcake crc64.Digest, Loader.Footer, createValueDump, verifyDump (vendored cupcake
   decoder) and utils.CheckVersionChecksum. *)
From RS Require Import Base.Bytes Base.Table Base.Endian Spec.Crc64 Gen.Crc64.
Open Scope N_scope.

Definition digest_tree : tree := tbuild 8 digest_crc64tab.
Definition cupcake_tree : tree := tbuild 8 cupcake_crc64tab.
Definition ext_tree : tree := tbuild 8 ext_crc64tab.

(* digest.Write: d.crc = table[byte(d.crc)^b] ^ (d.crc >> 8) for each byte *)
Definition digest_write (crc : N) (p : bytes) : N := crc64_tree digest_tree crc p.
Definition digest_sum (crc : N) : bytes := le_enc 8 crc.
Definition cupcake_digest (b : bytes) : N := crc64_tree cupcake_tree 0 b.
Definition ext_digest (b : bytes) : N := crc64_tree ext_tree 0 b.

(* a sequence of Write calls *)
Definition digest_writes (chunks : list bytes) : N := fold_left digest_write chunks 0.

(* Loader.Footer: crc1 = running CRC of everything read so far, crc2 = next 8 bytes LE *)
Definition footer_check (crc1 : N) (trailer : bytes) : bool :=
  (length trailer =? 8)%nat && (crc1 =? le_dec trailer).

(* a whole RDB image whose last 8 bytes are the trailer *)
Definition rdb_footer_ok (whole : bytes) : bool :=
  let n := (length whole - 8)%nat in
  (8 <=? length whole)%nat && footer_check (digest_write 0 (firstn n whole)) (skipn n whole).

(* createValueDump(t, val) = t :: val ++ LE16(ToVersion) ++ LE64(crc of the preceding bytes) *)
Definition create_value_dump (t : byte) (val : bytes) : bytes :=
  let body := t :: val ++ le_enc 2 to_version in
  body ++ le_enc 8 (digest_write 0 body).

(* verifyDump (vendored cupcake decoder): length >= 10, version == Version, CRC *)
Definition verify_dump (d : bytes) : bool :=
  let n := length d in
  if (n <? 10)%nat then false else
  let version := le_dec (firstn 2 (skipn (n - 10) d)) in
  if negb (version =? cupcake_version) then false else
  le_dec (skipn (n - 8) d) =? cupcake_digest (firstn (n - 8) d).

(* utils.CheckVersionChecksum: length >= 10, version <= RDBVersion, CRC (external cupcake) *)
Definition check_version_checksum (d : bytes) : option (N * N) :=
  let n := length d in
  if (n <? 10)%nat then None else
  let version := le_dec (firstn 2 (skipn (n - 10) d)) in
  if rdb_version <? version then None else
  let checksum := le_dec (skipn (n - 8) d) in
  if checksum =? ext_digest (firstn (n - 8) d) then Some (version, checksum) else None.

(* shape of a DUMP payload: covered bytes, 2 version bytes, 8 checksum bytes (CRC-64 spec) *)
Definition dump_body (t : byte) (val : bytes) : bytes := t :: val ++ le_enc 2 to_version.
Definition payload (data : bytes) (ver : N) : bytes :=
  let body := data ++ le_enc 2 ver in body ++ le_enc 8 (crc64 body).
(* executable twin (tree lookup) used by the driver to build test payloads *)
Definition payload_fast (data : bytes) (ver : N) : bytes :=
  let body := data ++ le_enc 2 ver in body ++ le_enc 8 (ext_digest body).
