(* Model/Checkpoint.v — model of redis-shake/checkpoint/checkpoint.go (LoadCheckpoint,
   fetchCheckpoint as repaired, ClearCheckpoint) over a target described per database by
   the fields of its checkpoint hash (HGETALL order) — None when the hash does not exist. *)
From RS Require Import Base.Bytes Base.Dec Model.RespCodec.
Open Scope Z_scope.

Notation fields := (list (bytes * bytes)).

Definition s_offset : bytes := [x6f;x66;x66;x73;x65;x74].        (* "offset" *)
Definition s_runid : bytes := [x72;x75;x6e;x69;x64].             (* "runid" *)
Definition s_version : bytes := [x76;x65;x72;x73;x69;x6f;x6e].   (* "version" *)
Definition s_unknown : bytes := [x3f].                           (* "?" *)
Definition fcv_required : Z := 1.                                (* FcvCheckpoint.FeatureCompatibleVersion *)

Definition field_name (src : bytes) (what : bytes) : bytes := src ++ [x2d] ++ what.

(* the part of a field name after "<src>-", when the field belongs to this source *)
Definition own_suffix (src f : bytes) : option bytes :=
  if prefix_of (src ++ [x2d]) f then Some (skipn (length src + 1) f) else None.

(* fetchCheckpoint over the HGETALL reply: None = a value failed to parse (the Go code returns an error) *)
Fixpoint scan_fields (src : bytes) (fs : fields) (acc : bytes * Z * Z) : option (bytes * Z * Z) :=
  match fs with
  | [] => Some acc
  | (f, v) :: r =>
      let '(runid, off, ver) := acc in
      match own_suffix src f with
      | None => scan_fields src r acc
      | Some name =>
          if beqs name s_offset then
            match parse_int64 v with Some z => scan_fields src r (runid, z, ver) | None => None end
          else if beqs name s_runid then scan_fields src r (v, off, ver)
          else if beqs name s_version then
            match parse_int64 v with Some z => scan_fields src r (runid, off, z) | None => None end
          else scan_fields src r acc
      end
  end.

Definition fetch (src : bytes) (h : option fields) : option (bytes * Z * Z) :=
  match h with
  | None => Some ([], -1, -1)                          (* EXISTS = 0 *)
  | Some fs => scan_fields src fs (s_unknown, -1, 0)
  end.

(* the scan over the databases, in the (arbitrary) order of Go's map iteration *)
Definition best := (Z * bytes * Z * Z)%type.            (* newest offset, run id, db, version *)
Definition pick (b : best) (db : Z) (e : bytes * Z * Z) : best :=
  let '(newest, _, _, _) := b in
  let '(runid, off, ver) := e in
  if newest <? off then (off, runid, db, ver) else b.

Fixpoint scan_dbs (src : bytes) (dbs : list (Z * option fields)) (b : best) : option best :=
  match dbs with
  | [] => Some b
  | (db, h) :: r => match fetch src h with
                    | None => None
                    | Some e => scan_dbs src r (pick b db e)
                    end
  end.

Inductive load_res := LoadErr | LoadOk (runid : bytes) (offset : Z) (db : Z).

Definition hdel (fs : fields) (names : list bytes) : fields :=
  filter (fun fv => negb (existsb (fun n => beqs n (fst fv)) names)) fs.

(* ClearCheckpoint: in every listed db except [keep], remove this source's runid and offset fields *)
Definition clear (src : bytes) (keep : Z) (dbs : list (Z * option fields)) : list (Z * option fields) :=
  map (fun '(db, h) =>
         if db =? keep then (db, h)
         else (db, match h with
                   | None => None
                   | Some fs => match hdel fs [field_name src s_runid; field_name src s_offset] with
                                | [] => None        (* the hash disappears with its last field *)
                                | fs' => Some fs'
                                end
                   end)) dbs.

Definition load (src : bytes) (dbs : list (Z * option fields)) : load_res * list (Z * option fields) :=
  match scan_dbs src dbs (-1, [], 0, -1) with
  | None => (LoadErr, dbs)
  | Some (newest, runid, db, ver) =>
      if negb (ver =? -1) && (ver <? fcv_required) then (LoadErr, dbs)
      else let db' := if beqs runid s_unknown then -1 else db in
           (LoadOk runid newest db', clear src db' dbs)
  end.

(* what the incremental sender stores with each group (sendFunc): HSET of the three fields *)
Fixpoint hset (fs : fields) (f v : bytes) : fields :=
  match fs with
  | [] => [(f, v)]
  | (f', v') :: r => if beqs f' f then (f, v) :: r else (f', v') :: hset r f v
  end.

Definition sender_write (src runid : bytes) (offset : Z) (fs : fields) : fields :=
  hset (hset (hset fs (field_name src s_runid) runid) (field_name src s_version) (render 1))
       (field_name src s_offset) (render offset).
