Base/Bytes.vo Base/Bytes.glob Base/Bytes.v.beautified Base/Bytes.required_vo: Base/Bytes.v 
Base/Bytes.vio: Base/Bytes.v 
Base/Bytes.vos Base/Bytes.vok Base/Bytes.required_vos: Base/Bytes.v 
Base/Dec.vo Base/Dec.glob Base/Dec.v.beautified Base/Dec.required_vo: Base/Dec.v Base/Bytes.vo
Base/Dec.vio: Base/Dec.v Base/Bytes.vio
Base/Dec.vos Base/Dec.vok Base/Dec.required_vos: Base/Dec.v Base/Bytes.vos
Base/Endian.vo Base/Endian.glob Base/Endian.v.beautified Base/Endian.required_vo: Base/Endian.v Base/Bytes.vo
Base/Endian.vio: Base/Endian.v Base/Bytes.vio
Base/Endian.vos Base/Endian.vok Base/Endian.required_vos: Base/Endian.v Base/Bytes.vos
Base/Table.vo Base/Table.glob Base/Table.v.beautified Base/Table.required_vo: Base/Table.v Base/Bytes.vo
Base/Table.vio: Base/Table.v Base/Bytes.vio
Base/Table.vos Base/Table.vok Base/Table.required_vos: Base/Table.v Base/Bytes.vos
Gen/CmdTable.vo Gen/CmdTable.glob Gen/CmdTable.v.beautified Gen/CmdTable.required_vo: Gen/CmdTable.v 
Gen/CmdTable.vio: Gen/CmdTable.v 
Gen/CmdTable.vos Gen/CmdTable.vok Gen/CmdTable.required_vos: Gen/CmdTable.v 
Gen/Config.vo Gen/Config.glob Gen/Config.v.beautified Gen/Config.required_vo: Gen/Config.v 
Gen/Config.vio: Gen/Config.v 
Gen/Config.vos Gen/Config.vok Gen/Config.required_vos: Gen/Config.v 
Gen/Crc16.vo Gen/Crc16.glob Gen/Crc16.v.beautified Gen/Crc16.required_vo: Gen/Crc16.v 
Gen/Crc16.vio: Gen/Crc16.v 
Gen/Crc16.vos Gen/Crc16.vok Gen/Crc16.required_vos: Gen/Crc16.v 
Gen/Crc64.vo Gen/Crc64.glob Gen/Crc64.v.beautified Gen/Crc64.required_vo: Gen/Crc64.v 
Gen/Crc64.vio: Gen/Crc64.v 
Gen/Crc64.vos Gen/Crc64.vok Gen/Crc64.required_vos: Gen/Crc64.v 
Gen/Flow.vo Gen/Flow.glob Gen/Flow.v.beautified Gen/Flow.required_vo: Gen/Flow.v 
Gen/Flow.vio: Gen/Flow.v 
Gen/Flow.vos Gen/Flow.vok Gen/Flow.required_vos: Gen/Flow.v 
Gen/Rdb.vo Gen/Rdb.glob Gen/Rdb.v.beautified Gen/Rdb.required_vo: Gen/Rdb.v 
Gen/Rdb.vio: Gen/Rdb.v 
Gen/Rdb.vos Gen/Rdb.vok Gen/Rdb.required_vos: Gen/Rdb.v 
Gen/Resp.vo Gen/Resp.glob Gen/Resp.v.beautified Gen/Resp.required_vo: Gen/Resp.v 
Gen/Resp.vio: Gen/Resp.v 
Gen/Resp.vos Gen/Resp.vok Gen/Resp.required_vos: Gen/Resp.v 
Gen/Supervisor.vo Gen/Supervisor.glob Gen/Supervisor.v.beautified Gen/Supervisor.required_vo: Gen/Supervisor.v 
Gen/Supervisor.vio: Gen/Supervisor.v 
Gen/Supervisor.vos Gen/Supervisor.vok Gen/Supervisor.required_vos: Gen/Supervisor.v 
Model/Backlog.vo Model/Backlog.glob Model/Backlog.v.beautified Model/Backlog.required_vo: Model/Backlog.v Base/Bytes.vo
Model/Backlog.vio: Model/Backlog.v Base/Bytes.vio
Model/Backlog.vos Model/Backlog.vok Model/Backlog.required_vos: Model/Backlog.v Base/Bytes.vos
Model/Checkpoint.vo Model/Checkpoint.glob Model/Checkpoint.v.beautified Model/Checkpoint.required_vo: Model/Checkpoint.v Base/Bytes.vo Base/Dec.vo Model/RespCodec.vo
Model/Checkpoint.vio: Model/Checkpoint.v Base/Bytes.vio Base/Dec.vio Model/RespCodec.vio
Model/Checkpoint.vos Model/Checkpoint.vok Model/Checkpoint.required_vos: Model/Checkpoint.v Base/Bytes.vos Base/Dec.vos Model/RespCodec.vos
Model/CmdFilter.vo Model/CmdFilter.glob Model/CmdFilter.v.beautified Model/CmdFilter.required_vo: Model/CmdFilter.v Base/Bytes.vo Model/Filter.vo Gen/CmdTable.vo
Model/CmdFilter.vio: Model/CmdFilter.v Base/Bytes.vio Model/Filter.vio Gen/CmdTable.vio
Model/CmdFilter.vos Model/CmdFilter.vok Model/CmdFilter.required_vos: Model/CmdFilter.v Base/Bytes.vos Model/Filter.vos Gen/CmdTable.vos
Model/Cupcake.vo Model/Cupcake.glob Model/Cupcake.v.beautified Model/Cupcake.required_vo: Model/Cupcake.v Base/Bytes.vo Base/Endian.vo Base/Dec.vo Model/RespCodec.vo Model/Digest.vo Model/Lzf.vo Model/Rdb.vo Gen/Crc64.vo
Model/Cupcake.vio: Model/Cupcake.v Base/Bytes.vio Base/Endian.vio Base/Dec.vio Model/RespCodec.vio Model/Digest.vio Model/Lzf.vio Model/Rdb.vio Gen/Crc64.vio
Model/Cupcake.vos Model/Cupcake.vok Model/Cupcake.required_vos: Model/Cupcake.v Base/Bytes.vos Base/Endian.vos Base/Dec.vos Model/RespCodec.vos Model/Digest.vos Model/Lzf.vos Model/Rdb.vos Gen/Crc64.vos
Model/Decode.vo Model/Decode.glob Model/Decode.v.beautified Model/Decode.required_vo: Model/Decode.v Base/Bytes.vo Base/Endian.vo Model/Rdb.vo Model/Cupcake.vo
Model/Decode.vio: Model/Decode.v Base/Bytes.vio Base/Endian.vio Model/Rdb.vio Model/Cupcake.vio
Model/Decode.vos Model/Decode.vok Model/Decode.required_vos: Model/Decode.v Base/Bytes.vos Base/Endian.vos Model/Rdb.vos Model/Cupcake.vos
Model/Digest.vo Model/Digest.glob Model/Digest.v.beautified Model/Digest.required_vo: Model/Digest.v Base/Bytes.vo Base/Table.vo Base/Endian.vo Spec/Crc64.vo Gen/Crc64.vo
Model/Digest.vio: Model/Digest.v Base/Bytes.vio Base/Table.vio Base/Endian.vio Spec/Crc64.vio Gen/Crc64.vio
Model/Digest.vos Model/Digest.vok Model/Digest.required_vos: Model/Digest.v Base/Bytes.vos Base/Table.vos Base/Endian.vos Spec/Crc64.vos Gen/Crc64.vos
Model/Filter.vo Model/Filter.glob Model/Filter.v.beautified Model/Filter.required_vo: Model/Filter.v Base/Bytes.vo Base/Dec.vo Gen/Crc16.vo
Model/Filter.vio: Model/Filter.v Base/Bytes.vio Base/Dec.vio Gen/Crc16.vio
Model/Filter.vos Model/Filter.vok Model/Filter.required_vos: Model/Filter.v Base/Bytes.vos Base/Dec.vos Gen/Crc16.vos
Model/FlowCert.vo Model/FlowCert.glob Model/FlowCert.v.beautified Model/FlowCert.required_vo: Model/FlowCert.v 
Model/FlowCert.vio: Model/FlowCert.v 
Model/FlowCert.vos Model/FlowCert.vok Model/FlowCert.required_vos: Model/FlowCert.v 
Model/Handoff.vo Model/Handoff.glob Model/Handoff.v.beautified Model/Handoff.required_vo: Model/Handoff.v Base/Bytes.vo Base/Dec.vo Model/RespCodec.vo Model/Filter.vo
Model/Handoff.vio: Model/Handoff.v Base/Bytes.vio Base/Dec.vio Model/RespCodec.vio Model/Filter.vio
Model/Handoff.vos Model/Handoff.vok Model/Handoff.required_vos: Model/Handoff.v Base/Bytes.vos Base/Dec.vos Model/RespCodec.vos Model/Filter.vos
Model/Incr.vo Model/Incr.glob Model/Incr.v.beautified Model/Incr.required_vo: Model/Incr.v Base/Bytes.vo Base/Dec.vo Model/RespCodec.vo Model/Filter.vo Model/CmdFilter.vo Model/Checkpoint.vo
Model/Incr.vio: Model/Incr.v Base/Bytes.vio Base/Dec.vio Model/RespCodec.vio Model/Filter.vio Model/CmdFilter.vio Model/Checkpoint.vio
Model/Incr.vos Model/Incr.vok Model/Incr.required_vos: Model/Incr.v Base/Bytes.vos Base/Dec.vos Model/RespCodec.vos Model/Filter.vos Model/CmdFilter.vos Model/Checkpoint.vos
Model/Lzf.vo Model/Lzf.glob Model/Lzf.v.beautified Model/Lzf.required_vo: Model/Lzf.v Base/Bytes.vo
Model/Lzf.vio: Model/Lzf.v Base/Bytes.vio
Model/Lzf.vos Model/Lzf.vok Model/Lzf.required_vos: Model/Lzf.v Base/Bytes.vos
Model/Offsets.vo Model/Offsets.glob Model/Offsets.v.beautified Model/Offsets.required_vo: Model/Offsets.v Base/Bytes.vo
Model/Offsets.vio: Model/Offsets.v Base/Bytes.vio
Model/Offsets.vos Model/Offsets.vok Model/Offsets.required_vos: Model/Offsets.v Base/Bytes.vos
Model/Pipe.vo Model/Pipe.glob Model/Pipe.v.beautified Model/Pipe.required_vo: Model/Pipe.v Base/Bytes.vo Model/Backlog.vo
Model/Pipe.vio: Model/Pipe.v Base/Bytes.vio Model/Backlog.vio
Model/Pipe.vos Model/Pipe.vok Model/Pipe.required_vos: Model/Pipe.v Base/Bytes.vos Model/Backlog.vos
Model/PoolProto.vo Model/PoolProto.glob Model/PoolProto.v.beautified Model/PoolProto.required_vo: Model/PoolProto.v 
Model/PoolProto.vio: Model/PoolProto.v 
Model/PoolProto.vos Model/PoolProto.vok Model/PoolProto.required_vos: Model/PoolProto.v 
Model/Rdb.vo Model/Rdb.glob Model/Rdb.v.beautified Model/Rdb.required_vo: Model/Rdb.v Base/Bytes.vo Base/Endian.vo Base/Dec.vo Spec/Crc64.vo Model/Digest.vo Model/Lzf.vo Model/Filter.vo Gen/Crc64.vo Gen/Rdb.vo
Model/Rdb.vio: Model/Rdb.v Base/Bytes.vio Base/Endian.vio Base/Dec.vio Spec/Crc64.vio Model/Digest.vio Model/Lzf.vio Model/Filter.vio Gen/Crc64.vio Gen/Rdb.vio
Model/Rdb.vos Model/Rdb.vok Model/Rdb.required_vos: Model/Rdb.v Base/Bytes.vos Base/Endian.vos Base/Dec.vos Spec/Crc64.vos Model/Digest.vos Model/Lzf.vos Model/Filter.vos Gen/Crc64.vos Gen/Rdb.vos
Model/RespCodec.vo Model/RespCodec.glob Model/RespCodec.v.beautified Model/RespCodec.required_vo: Model/RespCodec.v Base/Bytes.vo Base/Dec.vo Gen/Resp.vo
Model/RespCodec.vio: Model/RespCodec.v Base/Bytes.vio Base/Dec.vio Gen/Resp.vio
Model/RespCodec.vos Model/RespCodec.vok Model/RespCodec.required_vos: Model/RespCodec.v Base/Bytes.vos Base/Dec.vos Gen/Resp.vos
Model/Restore.vo Model/Restore.glob Model/Restore.v.beautified Model/Restore.required_vo: Model/Restore.v Base/Bytes.vo Base/Endian.vo Base/Dec.vo Model/RespCodec.vo Model/Digest.vo Model/Rdb.vo Model/Cupcake.vo
Model/Restore.vio: Model/Restore.v Base/Bytes.vio Base/Endian.vio Base/Dec.vio Model/RespCodec.vio Model/Digest.vio Model/Rdb.vio Model/Cupcake.vio
Model/Restore.vos Model/Restore.vok Model/Restore.required_vos: Model/Restore.v Base/Bytes.vos Base/Endian.vos Base/Dec.vos Model/RespCodec.vos Model/Digest.vos Model/Rdb.vos Model/Cupcake.vos
Model/Rump.vo Model/Rump.glob Model/Rump.v.beautified Model/Rump.required_vo: Model/Rump.v Base/Bytes.vo Base/Dec.vo Model/RespCodec.vo Model/Filter.vo
Model/Rump.vio: Model/Rump.v Base/Bytes.vio Base/Dec.vio Model/RespCodec.vio Model/Filter.vio
Model/Rump.vos Model/Rump.vok Model/Rump.required_vos: Model/Rump.v Base/Bytes.vos Base/Dec.vos Model/RespCodec.vos Model/Filter.vos
Model/Slot.vo Model/Slot.glob Model/Slot.v.beautified Model/Slot.required_vo: Model/Slot.v Base/Bytes.vo Base/Dec.vo Spec/Crc16.vo Spec/Slot.vo Gen/Crc16.vo Model/SlotKeys.vo
Model/Slot.vio: Model/Slot.v Base/Bytes.vio Base/Dec.vio Spec/Crc16.vio Spec/Slot.vio Gen/Crc16.vio Model/SlotKeys.vio
Model/Slot.vos Model/Slot.vok Model/Slot.required_vos: Model/Slot.v Base/Bytes.vos Base/Dec.vos Spec/Crc16.vos Spec/Slot.vos Gen/Crc16.vos Model/SlotKeys.vos
Model/SlotKeys.vo Model/SlotKeys.glob Model/SlotKeys.v.beautified Model/SlotKeys.required_vo: Model/SlotKeys.v Base/Bytes.vo Base/Table.vo Base/Dec.vo Spec/Crc16.vo Gen/Crc16.vo
Model/SlotKeys.vio: Model/SlotKeys.v Base/Bytes.vio Base/Table.vio Base/Dec.vio Spec/Crc16.vio Gen/Crc16.vio
Model/SlotKeys.vos Model/SlotKeys.vok Model/SlotKeys.required_vos: Model/SlotKeys.v Base/Bytes.vos Base/Table.vos Base/Dec.vos Spec/Crc16.vos Gen/Crc16.vos
Model/Supervisor.vo Model/Supervisor.glob Model/Supervisor.v.beautified Model/Supervisor.required_vo: Model/Supervisor.v Base/Bytes.vo
Model/Supervisor.vio: Model/Supervisor.v Base/Bytes.vio
Model/Supervisor.vos Model/Supervisor.vok Model/Supervisor.required_vos: Model/Supervisor.v Base/Bytes.vos
Model/Workers.vo Model/Workers.glob Model/Workers.v.beautified Model/Workers.required_vo: Model/Workers.v Base/Bytes.vo Base/Dec.vo Model/RespCodec.vo Model/Filter.vo Model/CmdFilter.vo Model/Slot.vo Model/Incr.vo
Model/Workers.vio: Model/Workers.v Base/Bytes.vio Base/Dec.vio Model/RespCodec.vio Model/Filter.vio Model/CmdFilter.vio Model/Slot.vio Model/Incr.vio
Model/Workers.vos Model/Workers.vok Model/Workers.required_vos: Model/Workers.v Base/Bytes.vos Base/Dec.vos Model/RespCodec.vos Model/Filter.vos Model/CmdFilter.vos Model/Slot.vos Model/Incr.vos
Proofs/BacklogProofs.vo Proofs/BacklogProofs.glob Proofs/BacklogProofs.v.beautified Proofs/BacklogProofs.required_vo: Proofs/BacklogProofs.v Base/Bytes.vo Base/Table.vo Model/Backlog.vo
Proofs/BacklogProofs.vio: Proofs/BacklogProofs.v Base/Bytes.vio Base/Table.vio Model/Backlog.vio
Proofs/BacklogProofs.vos Proofs/BacklogProofs.vok Proofs/BacklogProofs.required_vos: Proofs/BacklogProofs.v Base/Bytes.vos Base/Table.vos Model/Backlog.vos
Proofs/CheckpointProofs.vo Proofs/CheckpointProofs.glob Proofs/CheckpointProofs.v.beautified Proofs/CheckpointProofs.required_vo: Proofs/CheckpointProofs.v Base/Bytes.vo Base/Dec.vo Model/RespCodec.vo Model/Checkpoint.vo Proofs/RespProofs.vo
Proofs/CheckpointProofs.vio: Proofs/CheckpointProofs.v Base/Bytes.vio Base/Dec.vio Model/RespCodec.vio Model/Checkpoint.vio Proofs/RespProofs.vio
Proofs/CheckpointProofs.vos Proofs/CheckpointProofs.vok Proofs/CheckpointProofs.required_vos: Proofs/CheckpointProofs.v Base/Bytes.vos Base/Dec.vos Model/RespCodec.vos Model/Checkpoint.vos Proofs/RespProofs.vos
Proofs/CmdFilterProofs.vo Proofs/CmdFilterProofs.glob Proofs/CmdFilterProofs.v.beautified Proofs/CmdFilterProofs.required_vo: Proofs/CmdFilterProofs.v Base/Bytes.vo Model/Filter.vo Model/CmdFilter.vo Gen/CmdTable.vo
Proofs/CmdFilterProofs.vio: Proofs/CmdFilterProofs.v Base/Bytes.vio Model/Filter.vio Model/CmdFilter.vio Gen/CmdTable.vio
Proofs/CmdFilterProofs.vos Proofs/CmdFilterProofs.vok Proofs/CmdFilterProofs.required_vos: Proofs/CmdFilterProofs.v Base/Bytes.vos Model/Filter.vos Model/CmdFilter.vos Gen/CmdTable.vos
Proofs/Crc64Proofs.vo Proofs/Crc64Proofs.glob Proofs/Crc64Proofs.v.beautified Proofs/Crc64Proofs.required_vo: Proofs/Crc64Proofs.v Base/Bytes.vo Base/Table.vo Base/Endian.vo Spec/Crc64.vo
Proofs/Crc64Proofs.vio: Proofs/Crc64Proofs.v Base/Bytes.vio Base/Table.vio Base/Endian.vio Spec/Crc64.vio
Proofs/Crc64Proofs.vos Proofs/Crc64Proofs.vok Proofs/Crc64Proofs.required_vos: Proofs/Crc64Proofs.v Base/Bytes.vos Base/Table.vos Base/Endian.vos Spec/Crc64.vos
Proofs/CupcakeProofs.vo Proofs/CupcakeProofs.glob Proofs/CupcakeProofs.v.beautified Proofs/CupcakeProofs.required_vo: Proofs/CupcakeProofs.v Base/Bytes.vo Base/Endian.vo Base/Dec.vo Model/RespCodec.vo Model/Digest.vo Model/Lzf.vo Model/Rdb.vo Gen/Crc64.vo Spec/RdbFormat.vo Spec/Compact.vo Model/Cupcake.vo Proofs/RespProofs.vo Proofs/DigestProofs.vo Proofs/RdbProofs.vo
Proofs/CupcakeProofs.vio: Proofs/CupcakeProofs.v Base/Bytes.vio Base/Endian.vio Base/Dec.vio Model/RespCodec.vio Model/Digest.vio Model/Lzf.vio Model/Rdb.vio Gen/Crc64.vio Spec/RdbFormat.vio Spec/Compact.vio Model/Cupcake.vio Proofs/RespProofs.vio Proofs/DigestProofs.vio Proofs/RdbProofs.vio
Proofs/CupcakeProofs.vos Proofs/CupcakeProofs.vok Proofs/CupcakeProofs.required_vos: Proofs/CupcakeProofs.v Base/Bytes.vos Base/Endian.vos Base/Dec.vos Model/RespCodec.vos Model/Digest.vos Model/Lzf.vos Model/Rdb.vos Gen/Crc64.vos Spec/RdbFormat.vos Spec/Compact.vos Model/Cupcake.vos Proofs/RespProofs.vos Proofs/DigestProofs.vos Proofs/RdbProofs.vos
Proofs/DecodeProofs.vo Proofs/DecodeProofs.glob Proofs/DecodeProofs.v.beautified Proofs/DecodeProofs.required_vo: Proofs/DecodeProofs.v Base/Bytes.vo Base/Endian.vo Model/Rdb.vo Model/Cupcake.vo Model/Decode.vo
Proofs/DecodeProofs.vio: Proofs/DecodeProofs.v Base/Bytes.vio Base/Endian.vio Model/Rdb.vio Model/Cupcake.vio Model/Decode.vio
Proofs/DecodeProofs.vos Proofs/DecodeProofs.vok Proofs/DecodeProofs.required_vos: Proofs/DecodeProofs.v Base/Bytes.vos Base/Endian.vos Model/Rdb.vos Model/Cupcake.vos Model/Decode.vos
Proofs/DigestProofs.vo Proofs/DigestProofs.glob Proofs/DigestProofs.v.beautified Proofs/DigestProofs.required_vo: Proofs/DigestProofs.v Base/Bytes.vo Base/Table.vo Base/Endian.vo Spec/Crc64.vo Gen/Crc64.vo Model/Digest.vo Proofs/Crc64Proofs.vo
Proofs/DigestProofs.vio: Proofs/DigestProofs.v Base/Bytes.vio Base/Table.vio Base/Endian.vio Spec/Crc64.vio Gen/Crc64.vio Model/Digest.vio Proofs/Crc64Proofs.vio
Proofs/DigestProofs.vos Proofs/DigestProofs.vok Proofs/DigestProofs.required_vos: Proofs/DigestProofs.v Base/Bytes.vos Base/Table.vos Base/Endian.vos Spec/Crc64.vos Gen/Crc64.vos Model/Digest.vos Proofs/Crc64Proofs.vos
Proofs/FlowProofs.vo Proofs/FlowProofs.glob Proofs/FlowProofs.v.beautified Proofs/FlowProofs.required_vo: Proofs/FlowProofs.v Model/FlowCert.vo
Proofs/FlowProofs.vio: Proofs/FlowProofs.v Model/FlowCert.vio
Proofs/FlowProofs.vos Proofs/FlowProofs.vok Proofs/FlowProofs.required_vos: Proofs/FlowProofs.v Model/FlowCert.vos
Proofs/HandoffProofs.vo Proofs/HandoffProofs.glob Proofs/HandoffProofs.v.beautified Proofs/HandoffProofs.required_vo: Proofs/HandoffProofs.v Base/Bytes.vo Base/Dec.vo Model/RespCodec.vo Model/Filter.vo Model/Handoff.vo Model/Offsets.vo Proofs/RespProofs.vo
Proofs/HandoffProofs.vio: Proofs/HandoffProofs.v Base/Bytes.vio Base/Dec.vio Model/RespCodec.vio Model/Filter.vio Model/Handoff.vio Model/Offsets.vio Proofs/RespProofs.vio
Proofs/HandoffProofs.vos Proofs/HandoffProofs.vok Proofs/HandoffProofs.required_vos: Proofs/HandoffProofs.v Base/Bytes.vos Base/Dec.vos Model/RespCodec.vos Model/Filter.vos Model/Handoff.vos Model/Offsets.vos Proofs/RespProofs.vos
Proofs/IncrProofs.vo Proofs/IncrProofs.glob Proofs/IncrProofs.v.beautified Proofs/IncrProofs.required_vo: Proofs/IncrProofs.v Base/Bytes.vo Base/Dec.vo Model/RespCodec.vo Model/Filter.vo Model/CmdFilter.vo Model/Checkpoint.vo Model/Incr.vo Proofs/RespProofs.vo
Proofs/IncrProofs.vio: Proofs/IncrProofs.v Base/Bytes.vio Base/Dec.vio Model/RespCodec.vio Model/Filter.vio Model/CmdFilter.vio Model/Checkpoint.vio Model/Incr.vio Proofs/RespProofs.vio
Proofs/IncrProofs.vos Proofs/IncrProofs.vok Proofs/IncrProofs.required_vos: Proofs/IncrProofs.v Base/Bytes.vos Base/Dec.vos Model/RespCodec.vos Model/Filter.vos Model/CmdFilter.vos Model/Checkpoint.vos Model/Incr.vos Proofs/RespProofs.vos
Proofs/LzfSpec.vo Proofs/LzfSpec.glob Proofs/LzfSpec.v.beautified Proofs/LzfSpec.required_vo: Proofs/LzfSpec.v Base/Bytes.vo Model/Lzf.vo
Proofs/LzfSpec.vio: Proofs/LzfSpec.v Base/Bytes.vio Model/Lzf.vio
Proofs/LzfSpec.vos Proofs/LzfSpec.vok Proofs/LzfSpec.required_vos: Proofs/LzfSpec.v Base/Bytes.vos Model/Lzf.vos
Proofs/PipeProofs.vo Proofs/PipeProofs.glob Proofs/PipeProofs.v.beautified Proofs/PipeProofs.required_vo: Proofs/PipeProofs.v Base/Bytes.vo Base/Table.vo Model/Backlog.vo Model/Pipe.vo Proofs/BacklogProofs.vo
Proofs/PipeProofs.vio: Proofs/PipeProofs.v Base/Bytes.vio Base/Table.vio Model/Backlog.vio Model/Pipe.vio Proofs/BacklogProofs.vio
Proofs/PipeProofs.vos Proofs/PipeProofs.vok Proofs/PipeProofs.required_vos: Proofs/PipeProofs.v Base/Bytes.vos Base/Table.vos Model/Backlog.vos Model/Pipe.vos Proofs/BacklogProofs.vos
Proofs/PoolLink.vo Proofs/PoolLink.glob Proofs/PoolLink.v.beautified Proofs/PoolLink.required_vo: Proofs/PoolLink.v Base/Bytes.vo Model/Filter.vo Model/Workers.vo Model/PoolProto.vo Proofs/WorkersProofs.vo Proofs/PoolProofs.vo
Proofs/PoolLink.vio: Proofs/PoolLink.v Base/Bytes.vio Model/Filter.vio Model/Workers.vio Model/PoolProto.vio Proofs/WorkersProofs.vio Proofs/PoolProofs.vio
Proofs/PoolLink.vos Proofs/PoolLink.vok Proofs/PoolLink.required_vos: Proofs/PoolLink.v Base/Bytes.vos Model/Filter.vos Model/Workers.vos Model/PoolProto.vos Proofs/WorkersProofs.vos Proofs/PoolProofs.vos
Proofs/PoolProofs.vo Proofs/PoolProofs.glob Proofs/PoolProofs.v.beautified Proofs/PoolProofs.required_vo: Proofs/PoolProofs.v Model/PoolProto.vo
Proofs/PoolProofs.vio: Proofs/PoolProofs.v Model/PoolProto.vio
Proofs/PoolProofs.vos Proofs/PoolProofs.vok Proofs/PoolProofs.required_vos: Proofs/PoolProofs.v Model/PoolProto.vos
Proofs/RdbProofs.vo Proofs/RdbProofs.glob Proofs/RdbProofs.v.beautified Proofs/RdbProofs.required_vo: Proofs/RdbProofs.v Base/Bytes.vo Base/Endian.vo Base/Dec.vo Spec/Crc64.vo Gen/Crc64.vo Model/Digest.vo Model/Lzf.vo Model/Rdb.vo Spec/RdbFormat.vo Spec/RdbRecords.vo Proofs/Crc64Proofs.vo Proofs/DigestProofs.vo
Proofs/RdbProofs.vio: Proofs/RdbProofs.v Base/Bytes.vio Base/Endian.vio Base/Dec.vio Spec/Crc64.vio Gen/Crc64.vio Model/Digest.vio Model/Lzf.vio Model/Rdb.vio Spec/RdbFormat.vio Spec/RdbRecords.vio Proofs/Crc64Proofs.vio Proofs/DigestProofs.vio
Proofs/RdbProofs.vos Proofs/RdbProofs.vok Proofs/RdbProofs.required_vos: Proofs/RdbProofs.v Base/Bytes.vos Base/Endian.vos Base/Dec.vos Spec/Crc64.vos Gen/Crc64.vos Model/Digest.vos Model/Lzf.vos Model/Rdb.vos Spec/RdbFormat.vos Spec/RdbRecords.vos Proofs/Crc64Proofs.vos Proofs/DigestProofs.vos
Proofs/RespProofs.vo Proofs/RespProofs.glob Proofs/RespProofs.v.beautified Proofs/RespProofs.required_vo: Proofs/RespProofs.v Base/Bytes.vo Base/Dec.vo Gen/Resp.vo Model/RespCodec.vo
Proofs/RespProofs.vio: Proofs/RespProofs.v Base/Bytes.vio Base/Dec.vio Gen/Resp.vio Model/RespCodec.vio
Proofs/RespProofs.vos Proofs/RespProofs.vok Proofs/RespProofs.required_vos: Proofs/RespProofs.v Base/Bytes.vos Base/Dec.vos Gen/Resp.vos Model/RespCodec.vos
Proofs/RestoreProofs.vo Proofs/RestoreProofs.glob Proofs/RestoreProofs.v.beautified Proofs/RestoreProofs.required_vo: Proofs/RestoreProofs.v Base/Bytes.vo Base/Endian.vo Base/Dec.vo Model/RespCodec.vo Model/Digest.vo Model/Rdb.vo Model/Cupcake.vo Model/Restore.vo
Proofs/RestoreProofs.vio: Proofs/RestoreProofs.v Base/Bytes.vio Base/Endian.vio Base/Dec.vio Model/RespCodec.vio Model/Digest.vio Model/Rdb.vio Model/Cupcake.vio Model/Restore.vio
Proofs/RestoreProofs.vos Proofs/RestoreProofs.vok Proofs/RestoreProofs.required_vos: Proofs/RestoreProofs.v Base/Bytes.vos Base/Endian.vos Base/Dec.vos Model/RespCodec.vos Model/Digest.vos Model/Rdb.vos Model/Cupcake.vos Model/Restore.vos
Proofs/RumpProofs.vo Proofs/RumpProofs.glob Proofs/RumpProofs.v.beautified Proofs/RumpProofs.required_vo: Proofs/RumpProofs.v Base/Bytes.vo Base/Dec.vo Model/RespCodec.vo Model/Filter.vo Model/Rump.vo Base/Endian.vo Model/Digest.vo Model/Rdb.vo Model/Cupcake.vo Model/Restore.vo Proofs/RestoreProofs.vo
Proofs/RumpProofs.vio: Proofs/RumpProofs.v Base/Bytes.vio Base/Dec.vio Model/RespCodec.vio Model/Filter.vio Model/Rump.vio Base/Endian.vio Model/Digest.vio Model/Rdb.vio Model/Cupcake.vio Model/Restore.vio Proofs/RestoreProofs.vio
Proofs/RumpProofs.vos Proofs/RumpProofs.vok Proofs/RumpProofs.required_vos: Proofs/RumpProofs.v Base/Bytes.vos Base/Dec.vos Model/RespCodec.vos Model/Filter.vos Model/Rump.vos Base/Endian.vos Model/Digest.vos Model/Rdb.vos Model/Cupcake.vos Model/Restore.vos Proofs/RestoreProofs.vos
Proofs/SlotProofs.vo Proofs/SlotProofs.glob Proofs/SlotProofs.v.beautified Proofs/SlotProofs.required_vo: Proofs/SlotProofs.v Base/Bytes.vo Base/Dec.vo Spec/Crc16.vo Spec/Slot.vo Gen/Crc16.vo Model/Slot.vo Proofs/SlotWitness.vo Proofs/SlotWitnessCheck.vo
Proofs/SlotProofs.vio: Proofs/SlotProofs.v Base/Bytes.vio Base/Dec.vio Spec/Crc16.vio Spec/Slot.vio Gen/Crc16.vio Model/Slot.vio Proofs/SlotWitness.vio Proofs/SlotWitnessCheck.vio
Proofs/SlotProofs.vos Proofs/SlotProofs.vok Proofs/SlotProofs.required_vos: Proofs/SlotProofs.v Base/Bytes.vos Base/Dec.vos Spec/Crc16.vos Spec/Slot.vos Gen/Crc16.vos Model/Slot.vos Proofs/SlotWitness.vos Proofs/SlotWitnessCheck.vos
Proofs/SlotWitness.vo Proofs/SlotWitness.glob Proofs/SlotWitness.v.beautified Proofs/SlotWitness.required_vo: Proofs/SlotWitness.v 
Proofs/SlotWitness.vio: Proofs/SlotWitness.v 
Proofs/SlotWitness.vos Proofs/SlotWitness.vok Proofs/SlotWitness.required_vos: Proofs/SlotWitness.v 
Proofs/SlotWitnessCheck.vo Proofs/SlotWitnessCheck.glob Proofs/SlotWitnessCheck.v.beautified Proofs/SlotWitnessCheck.required_vo: Proofs/SlotWitnessCheck.v Base/Bytes.vo Base/Dec.vo Spec/Crc16.vo Spec/Slot.vo Gen/Crc16.vo Model/SlotKeys.vo Proofs/SlotWitness.vo
Proofs/SlotWitnessCheck.vio: Proofs/SlotWitnessCheck.v Base/Bytes.vio Base/Dec.vio Spec/Crc16.vio Spec/Slot.vio Gen/Crc16.vio Model/SlotKeys.vio Proofs/SlotWitness.vio
Proofs/SlotWitnessCheck.vos Proofs/SlotWitnessCheck.vok Proofs/SlotWitnessCheck.required_vos: Proofs/SlotWitnessCheck.v Base/Bytes.vos Base/Dec.vos Spec/Crc16.vos Spec/Slot.vos Gen/Crc16.vos Model/SlotKeys.vos Proofs/SlotWitness.vos
Proofs/SplitProofs.vo Proofs/SplitProofs.glob Proofs/SplitProofs.v.beautified Proofs/SplitProofs.required_vo: Proofs/SplitProofs.v Proofs/Crc64Proofs.vo Proofs/DigestProofs.vo Base/Bytes.vo Base/Endian.vo Base/Dec.vo Spec/Crc64.vo Model/Digest.vo Model/Lzf.vo Model/Rdb.vo Spec/RdbFormat.vo Spec/RdbRecords.vo Gen/Crc64.vo Proofs/RdbProofs.vo
Proofs/SplitProofs.vio: Proofs/SplitProofs.v Proofs/Crc64Proofs.vio Proofs/DigestProofs.vio Base/Bytes.vio Base/Endian.vio Base/Dec.vio Spec/Crc64.vio Model/Digest.vio Model/Lzf.vio Model/Rdb.vio Spec/RdbFormat.vio Spec/RdbRecords.vio Gen/Crc64.vio Proofs/RdbProofs.vio
Proofs/SplitProofs.vos Proofs/SplitProofs.vok Proofs/SplitProofs.required_vos: Proofs/SplitProofs.v Proofs/Crc64Proofs.vos Proofs/DigestProofs.vos Base/Bytes.vos Base/Endian.vos Base/Dec.vos Spec/Crc64.vos Model/Digest.vos Model/Lzf.vos Model/Rdb.vos Spec/RdbFormat.vos Spec/RdbRecords.vos Gen/Crc64.vos Proofs/RdbProofs.vos
Proofs/SupervisorProofs.vo Proofs/SupervisorProofs.glob Proofs/SupervisorProofs.v.beautified Proofs/SupervisorProofs.required_vo: Proofs/SupervisorProofs.v Base/Bytes.vo Model/Supervisor.vo
Proofs/SupervisorProofs.vio: Proofs/SupervisorProofs.v Base/Bytes.vio Model/Supervisor.vio
Proofs/SupervisorProofs.vos Proofs/SupervisorProofs.vok Proofs/SupervisorProofs.required_vos: Proofs/SupervisorProofs.v Base/Bytes.vos Model/Supervisor.vos
Proofs/WorkersProofs.vo Proofs/WorkersProofs.glob Proofs/WorkersProofs.v.beautified Proofs/WorkersProofs.required_vo: Proofs/WorkersProofs.v Base/Bytes.vo Base/Dec.vo Model/RespCodec.vo Model/Filter.vo Model/CmdFilter.vo Model/Slot.vo Model/Incr.vo Model/Workers.vo Gen/Crc16.vo Gen/CmdTable.vo Proofs/CmdFilterProofs.vo
Proofs/WorkersProofs.vio: Proofs/WorkersProofs.v Base/Bytes.vio Base/Dec.vio Model/RespCodec.vio Model/Filter.vio Model/CmdFilter.vio Model/Slot.vio Model/Incr.vio Model/Workers.vio Gen/Crc16.vio Gen/CmdTable.vio Proofs/CmdFilterProofs.vio
Proofs/WorkersProofs.vos Proofs/WorkersProofs.vok Proofs/WorkersProofs.required_vos: Proofs/WorkersProofs.v Base/Bytes.vos Base/Dec.vos Model/RespCodec.vos Model/Filter.vos Model/CmdFilter.vos Model/Slot.vos Model/Incr.vos Model/Workers.vos Gen/Crc16.vos Gen/CmdTable.vos Proofs/CmdFilterProofs.vos
Proofs/WriterProofs.vo Proofs/WriterProofs.glob Proofs/WriterProofs.v.beautified Proofs/WriterProofs.required_vo: Proofs/WriterProofs.v Base/Bytes.vo Base/Endian.vo Base/Dec.vo Model/RespCodec.vo Spec/Crc64.vo Model/Digest.vo Model/Rdb.vo Model/Cupcake.vo Spec/RdbFormat.vo Spec/RdbRecords.vo Proofs/DigestProofs.vo Proofs/RdbProofs.vo Gen/Crc64.vo Proofs/CupcakeProofs.vo
Proofs/WriterProofs.vio: Proofs/WriterProofs.v Base/Bytes.vio Base/Endian.vio Base/Dec.vio Model/RespCodec.vio Spec/Crc64.vio Model/Digest.vio Model/Rdb.vio Model/Cupcake.vio Spec/RdbFormat.vio Spec/RdbRecords.vio Proofs/DigestProofs.vio Proofs/RdbProofs.vio Gen/Crc64.vio Proofs/CupcakeProofs.vio
Proofs/WriterProofs.vos Proofs/WriterProofs.vok Proofs/WriterProofs.required_vos: Proofs/WriterProofs.v Base/Bytes.vos Base/Endian.vos Base/Dec.vos Model/RespCodec.vos Spec/Crc64.vos Model/Digest.vos Model/Rdb.vos Model/Cupcake.vos Spec/RdbFormat.vos Spec/RdbRecords.vos Proofs/DigestProofs.vos Proofs/RdbProofs.vos Gen/Crc64.vos Proofs/CupcakeProofs.vos
Props/C01.vo Props/C01.glob Props/C01.v.beautified Props/C01.required_vo: Props/C01.v Base/Bytes.vo Base/Endian.vo Spec/Crc64.vo Gen/Crc64.vo Gen/Rdb.vo Model/Digest.vo Model/Rdb.vo Spec/RdbFormat.vo Spec/RdbRecords.vo Proofs/RdbProofs.vo Proofs/DigestProofs.vo Proofs/SplitProofs.vo Model/Lzf.vo Proofs/LzfSpec.vo
Props/C01.vio: Props/C01.v Base/Bytes.vio Base/Endian.vio Spec/Crc64.vio Gen/Crc64.vio Gen/Rdb.vio Model/Digest.vio Model/Rdb.vio Spec/RdbFormat.vio Spec/RdbRecords.vio Proofs/RdbProofs.vio Proofs/DigestProofs.vio Proofs/SplitProofs.vio Model/Lzf.vio Proofs/LzfSpec.vio
Props/C01.vos Props/C01.vok Props/C01.required_vos: Props/C01.v Base/Bytes.vos Base/Endian.vos Spec/Crc64.vos Gen/Crc64.vos Gen/Rdb.vos Model/Digest.vos Model/Rdb.vos Spec/RdbFormat.vos Spec/RdbRecords.vos Proofs/RdbProofs.vos Proofs/DigestProofs.vos Proofs/SplitProofs.vos Model/Lzf.vos Proofs/LzfSpec.vos
Props/C02.vo Props/C02.glob Props/C02.v.beautified Props/C02.required_vo: Props/C02.v Base/Bytes.vo Base/Endian.vo Model/Rdb.vo Model/Cupcake.vo Model/Restore.vo Proofs/RestoreProofs.vo
Props/C02.vio: Props/C02.v Base/Bytes.vio Base/Endian.vio Model/Rdb.vio Model/Cupcake.vio Model/Restore.vio Proofs/RestoreProofs.vio
Props/C02.vos Props/C02.vok Props/C02.required_vos: Props/C02.v Base/Bytes.vos Base/Endian.vos Model/Rdb.vos Model/Cupcake.vos Model/Restore.vos Proofs/RestoreProofs.vos
Props/C03.vo Props/C03.glob Props/C03.v.beautified Props/C03.required_vo: Props/C03.v Base/Bytes.vo Base/Dec.vo Model/RespCodec.vo Model/Filter.vo Model/Incr.vo Proofs/IncrProofs.vo
Props/C03.vio: Props/C03.v Base/Bytes.vio Base/Dec.vio Model/RespCodec.vio Model/Filter.vio Model/Incr.vio Proofs/IncrProofs.vio
Props/C03.vos Props/C03.vok Props/C03.required_vos: Props/C03.v Base/Bytes.vos Base/Dec.vos Model/RespCodec.vos Model/Filter.vos Model/Incr.vos Proofs/IncrProofs.vos
Props/C04.vo Props/C04.glob Props/C04.v.beautified Props/C04.required_vo: Props/C04.v Base/Bytes.vo Base/Dec.vo Model/RespCodec.vo Model/Filter.vo Model/Checkpoint.vo Model/Incr.vo Proofs/IncrProofs.vo Proofs/CheckpointProofs.vo
Props/C04.vio: Props/C04.v Base/Bytes.vio Base/Dec.vio Model/RespCodec.vio Model/Filter.vio Model/Checkpoint.vio Model/Incr.vio Proofs/IncrProofs.vio Proofs/CheckpointProofs.vio
Props/C04.vos Props/C04.vok Props/C04.required_vos: Props/C04.v Base/Bytes.vos Base/Dec.vos Model/RespCodec.vos Model/Filter.vos Model/Checkpoint.vos Model/Incr.vos Proofs/IncrProofs.vos Proofs/CheckpointProofs.vos
Props/C05.vo Props/C05.glob Props/C05.v.beautified Props/C05.required_vo: Props/C05.v Base/Bytes.vo Base/Dec.vo Model/RespCodec.vo Model/Filter.vo Model/Handoff.vo Proofs/HandoffProofs.vo
Props/C05.vio: Props/C05.v Base/Bytes.vio Base/Dec.vio Model/RespCodec.vio Model/Filter.vio Model/Handoff.vio Proofs/HandoffProofs.vio
Props/C05.vos Props/C05.vok Props/C05.required_vos: Props/C05.v Base/Bytes.vos Base/Dec.vos Model/RespCodec.vos Model/Filter.vos Model/Handoff.vos Proofs/HandoffProofs.vos
Props/C06.vo Props/C06.glob Props/C06.v.beautified Props/C06.required_vo: Props/C06.v Base/Bytes.vo Base/Dec.vo Model/Filter.vo Model/CmdFilter.vo Model/Incr.vo Model/Workers.vo Gen/Crc16.vo Proofs/WorkersProofs.vo
Props/C06.vio: Props/C06.v Base/Bytes.vio Base/Dec.vio Model/Filter.vio Model/CmdFilter.vio Model/Incr.vio Model/Workers.vio Gen/Crc16.vio Proofs/WorkersProofs.vio
Props/C06.vos Props/C06.vok Props/C06.required_vos: Props/C06.v Base/Bytes.vos Base/Dec.vos Model/Filter.vos Model/CmdFilter.vos Model/Incr.vos Model/Workers.vos Gen/Crc16.vos Proofs/WorkersProofs.vos
Props/C07.vo Props/C07.glob Props/C07.v.beautified Props/C07.required_vo: Props/C07.v Base/Bytes.vo Model/Filter.vo Model/Workers.vo Model/PoolProto.vo Proofs/WorkersProofs.vo Proofs/PoolProofs.vo Proofs/PoolLink.vo
Props/C07.vio: Props/C07.v Base/Bytes.vio Model/Filter.vio Model/Workers.vio Model/PoolProto.vio Proofs/WorkersProofs.vio Proofs/PoolProofs.vio Proofs/PoolLink.vio
Props/C07.vos Props/C07.vok Props/C07.required_vos: Props/C07.v Base/Bytes.vos Model/Filter.vos Model/Workers.vos Model/PoolProto.vos Proofs/WorkersProofs.vos Proofs/PoolProofs.vos Proofs/PoolLink.vos
Props/C08.vo Props/C08.glob Props/C08.v.beautified Props/C08.required_vo: Props/C08.v Base/Bytes.vo Model/Offsets.vo Proofs/HandoffProofs.vo
Props/C08.vio: Props/C08.v Base/Bytes.vio Model/Offsets.vio Proofs/HandoffProofs.vio
Props/C08.vos Props/C08.vok Props/C08.required_vos: Props/C08.v Base/Bytes.vos Model/Offsets.vos Proofs/HandoffProofs.vos
Props/C09.vo Props/C09.glob Props/C09.v.beautified Props/C09.required_vo: Props/C09.v Base/Bytes.vo Model/Backlog.vo Model/Pipe.vo Proofs/PipeProofs.vo
Props/C09.vio: Props/C09.v Base/Bytes.vio Model/Backlog.vio Model/Pipe.vio Proofs/PipeProofs.vio
Props/C09.vos Props/C09.vok Props/C09.required_vos: Props/C09.v Base/Bytes.vos Model/Backlog.vos Model/Pipe.vos Proofs/PipeProofs.vos
Props/C10.vo Props/C10.glob Props/C10.v.beautified Props/C10.required_vo: Props/C10.v Base/Bytes.vo Base/Dec.vo Gen/Resp.vo Model/RespCodec.vo Proofs/RespProofs.vo
Props/C10.vio: Props/C10.v Base/Bytes.vio Base/Dec.vio Gen/Resp.vio Model/RespCodec.vio Proofs/RespProofs.vio
Props/C10.vos Props/C10.vok Props/C10.required_vos: Props/C10.v Base/Bytes.vos Base/Dec.vos Gen/Resp.vos Model/RespCodec.vos Proofs/RespProofs.vos
Props/C11.vo Props/C11.glob Props/C11.v.beautified Props/C11.required_vo: Props/C11.v Base/Bytes.vo Base/Endian.vo Spec/Crc64.vo Gen/Crc64.vo Model/Digest.vo Proofs/Crc64Proofs.vo Proofs/DigestProofs.vo
Props/C11.vio: Props/C11.v Base/Bytes.vio Base/Endian.vio Spec/Crc64.vio Gen/Crc64.vio Model/Digest.vio Proofs/Crc64Proofs.vio Proofs/DigestProofs.vio
Props/C11.vos Props/C11.vok Props/C11.required_vos: Props/C11.v Base/Bytes.vos Base/Endian.vos Spec/Crc64.vos Gen/Crc64.vos Model/Digest.vos Proofs/Crc64Proofs.vos Proofs/DigestProofs.vos
Props/C12.vo Props/C12.glob Props/C12.v.beautified Props/C12.required_vo: Props/C12.v Base/Bytes.vo Base/Endian.vo Base/Dec.vo Model/Rdb.vo Spec/RdbFormat.vo Spec/Compact.vo Model/Cupcake.vo Proofs/RdbProofs.vo Proofs/CupcakeProofs.vo Proofs/WriterProofs.vo
Props/C12.vio: Props/C12.v Base/Bytes.vio Base/Endian.vio Base/Dec.vio Model/Rdb.vio Spec/RdbFormat.vio Spec/Compact.vio Model/Cupcake.vio Proofs/RdbProofs.vio Proofs/CupcakeProofs.vio Proofs/WriterProofs.vio
Props/C12.vos Props/C12.vok Props/C12.required_vos: Props/C12.v Base/Bytes.vos Base/Endian.vos Base/Dec.vos Model/Rdb.vos Spec/RdbFormat.vos Spec/Compact.vos Model/Cupcake.vos Proofs/RdbProofs.vos Proofs/CupcakeProofs.vos Proofs/WriterProofs.vos
Props/C13.vo Props/C13.glob Props/C13.v.beautified Props/C13.required_vo: Props/C13.v Base/Bytes.vo Model/Filter.vo Model/CmdFilter.vo Gen/CmdTable.vo Spec/RedisKeySpecs.vo Proofs/CmdFilterProofs.vo
Props/C13.vio: Props/C13.v Base/Bytes.vio Model/Filter.vio Model/CmdFilter.vio Gen/CmdTable.vio Spec/RedisKeySpecs.vio Proofs/CmdFilterProofs.vio
Props/C13.vos Props/C13.vok Props/C13.required_vos: Props/C13.v Base/Bytes.vos Model/Filter.vos Model/CmdFilter.vos Gen/CmdTable.vos Spec/RedisKeySpecs.vos Proofs/CmdFilterProofs.vos
Props/C14.vo Props/C14.glob Props/C14.v.beautified Props/C14.required_vo: Props/C14.v Base/Bytes.vo Base/Dec.vo Model/RespCodec.vo Model/Checkpoint.vo Proofs/CheckpointProofs.vo
Props/C14.vio: Props/C14.v Base/Bytes.vio Base/Dec.vio Model/RespCodec.vio Model/Checkpoint.vio Proofs/CheckpointProofs.vio
Props/C14.vos Props/C14.vok Props/C14.required_vos: Props/C14.v Base/Bytes.vos Base/Dec.vos Model/RespCodec.vos Model/Checkpoint.vos Proofs/CheckpointProofs.vos
Props/C15.vo Props/C15.glob Props/C15.v.beautified Props/C15.required_vo: Props/C15.v Base/Bytes.vo Base/Dec.vo Spec/Crc16.vo Spec/Slot.vo Gen/Crc16.vo Model/Slot.vo Proofs/SlotProofs.vo
Props/C15.vio: Props/C15.v Base/Bytes.vio Base/Dec.vio Spec/Crc16.vio Spec/Slot.vio Gen/Crc16.vio Model/Slot.vio Proofs/SlotProofs.vio
Props/C15.vos Props/C15.vok Props/C15.required_vos: Props/C15.v Base/Bytes.vos Base/Dec.vos Spec/Crc16.vos Spec/Slot.vos Gen/Crc16.vos Model/Slot.vos Proofs/SlotProofs.vos
Props/C16.vo Props/C16.glob Props/C16.v.beautified Props/C16.required_vo: Props/C16.v Base/Bytes.vo Model/Filter.vo Model/Rump.vo Model/Rdb.vo Model/Cupcake.vo Model/Restore.vo Proofs/RestoreProofs.vo Proofs/RumpProofs.vo
Props/C16.vio: Props/C16.v Base/Bytes.vio Model/Filter.vio Model/Rump.vio Model/Rdb.vio Model/Cupcake.vio Model/Restore.vio Proofs/RestoreProofs.vio Proofs/RumpProofs.vio
Props/C16.vos Props/C16.vok Props/C16.required_vos: Props/C16.v Base/Bytes.vos Model/Filter.vos Model/Rump.vos Model/Rdb.vos Model/Cupcake.vos Model/Restore.vos Proofs/RestoreProofs.vos Proofs/RumpProofs.vos
Props/C17.vo Props/C17.glob Props/C17.v.beautified Props/C17.required_vo: Props/C17.v Base/Bytes.vo Model/Rdb.vo Model/Cupcake.vo Model/Decode.vo Model/PoolProto.vo Proofs/DecodeProofs.vo Proofs/PoolProofs.vo
Props/C17.vio: Props/C17.v Base/Bytes.vio Model/Rdb.vio Model/Cupcake.vio Model/Decode.vio Model/PoolProto.vio Proofs/DecodeProofs.vio Proofs/PoolProofs.vio
Props/C17.vos Props/C17.vok Props/C17.required_vos: Props/C17.v Base/Bytes.vos Model/Rdb.vos Model/Cupcake.vos Model/Decode.vos Model/PoolProto.vos Proofs/DecodeProofs.vos Proofs/PoolProofs.vos
Props/C18.vo Props/C18.glob Props/C18.v.beautified Props/C18.required_vo: Props/C18.v Base/Bytes.vo Model/Backlog.vo Proofs/BacklogProofs.vo
Props/C18.vio: Props/C18.v Base/Bytes.vio Model/Backlog.vio Proofs/BacklogProofs.vio
Props/C18.vos Props/C18.vok Props/C18.required_vos: Props/C18.v Base/Bytes.vos Model/Backlog.vos Proofs/BacklogProofs.vos
Props/C19.vo Props/C19.glob Props/C19.v.beautified Props/C19.required_vo: Props/C19.v Model/FlowCert.vo Proofs/FlowProofs.vo Gen/Flow.vo Gen/Config.vo
Props/C19.vio: Props/C19.v Model/FlowCert.vio Proofs/FlowProofs.vio Gen/Flow.vio Gen/Config.vio
Props/C19.vos Props/C19.vok Props/C19.required_vos: Props/C19.v Model/FlowCert.vos Proofs/FlowProofs.vos Gen/Flow.vos Gen/Config.vos
Props/C20.vo Props/C20.glob Props/C20.v.beautified Props/C20.required_vo: Props/C20.v Base/Bytes.vo Model/Supervisor.vo Proofs/SupervisorProofs.vo Gen/Supervisor.vo
Props/C20.vio: Props/C20.v Base/Bytes.vio Model/Supervisor.vio Proofs/SupervisorProofs.vio Gen/Supervisor.vio
Props/C20.vos Props/C20.vok Props/C20.required_vos: Props/C20.v Base/Bytes.vos Model/Supervisor.vos Proofs/SupervisorProofs.vos Gen/Supervisor.vos
Spec/Compact.vo Spec/Compact.glob Spec/Compact.v.beautified Spec/Compact.required_vo: Spec/Compact.v Base/Bytes.vo Base/Endian.vo Base/Dec.vo Spec/RdbFormat.vo
Spec/Compact.vio: Spec/Compact.v Base/Bytes.vio Base/Endian.vio Base/Dec.vio Spec/RdbFormat.vio
Spec/Compact.vos Spec/Compact.vok Spec/Compact.required_vos: Spec/Compact.v Base/Bytes.vos Base/Endian.vos Base/Dec.vos Spec/RdbFormat.vos
Spec/Crc16.vo Spec/Crc16.glob Spec/Crc16.v.beautified Spec/Crc16.required_vo: Spec/Crc16.v Base/Bytes.vo Base/Table.vo
Spec/Crc16.vio: Spec/Crc16.v Base/Bytes.vio Base/Table.vio
Spec/Crc16.vos Spec/Crc16.vok Spec/Crc16.required_vos: Spec/Crc16.v Base/Bytes.vos Base/Table.vos
Spec/Crc64.vo Spec/Crc64.glob Spec/Crc64.v.beautified Spec/Crc64.required_vo: Spec/Crc64.v Base/Bytes.vo Base/Table.vo
Spec/Crc64.vio: Spec/Crc64.v Base/Bytes.vio Base/Table.vio
Spec/Crc64.vos Spec/Crc64.vok Spec/Crc64.required_vos: Spec/Crc64.v Base/Bytes.vos Base/Table.vos
Spec/RdbFormat.vo Spec/RdbFormat.glob Spec/RdbFormat.v.beautified Spec/RdbFormat.required_vo: Spec/RdbFormat.v Base/Bytes.vo Base/Endian.vo Base/Dec.vo Spec/Crc64.vo Model/Lzf.vo
Spec/RdbFormat.vio: Spec/RdbFormat.v Base/Bytes.vio Base/Endian.vio Base/Dec.vio Spec/Crc64.vio Model/Lzf.vio
Spec/RdbFormat.vos Spec/RdbFormat.vok Spec/RdbFormat.required_vos: Spec/RdbFormat.v Base/Bytes.vos Base/Endian.vos Base/Dec.vos Spec/Crc64.vos Model/Lzf.vos
Spec/RdbRecords.vo Spec/RdbRecords.glob Spec/RdbRecords.v.beautified Spec/RdbRecords.required_vo: Spec/RdbRecords.v Base/Bytes.vo Base/Endian.vo Spec/RdbFormat.vo Model/Digest.vo Model/Rdb.vo
Spec/RdbRecords.vio: Spec/RdbRecords.v Base/Bytes.vio Base/Endian.vio Spec/RdbFormat.vio Model/Digest.vio Model/Rdb.vio
Spec/RdbRecords.vos Spec/RdbRecords.vok Spec/RdbRecords.required_vos: Spec/RdbRecords.v Base/Bytes.vos Base/Endian.vos Spec/RdbFormat.vos Model/Digest.vos Model/Rdb.vos
Spec/RedisKeySpecs.vo Spec/RedisKeySpecs.glob Spec/RedisKeySpecs.v.beautified Spec/RedisKeySpecs.required_vo: Spec/RedisKeySpecs.v 
Spec/RedisKeySpecs.vio: Spec/RedisKeySpecs.v 
Spec/RedisKeySpecs.vos Spec/RedisKeySpecs.vok Spec/RedisKeySpecs.required_vos: Spec/RedisKeySpecs.v 
Spec/Slot.vo Spec/Slot.glob Spec/Slot.v.beautified Spec/Slot.required_vo: Spec/Slot.v Base/Bytes.vo Base/Table.vo Spec/Crc16.vo
Spec/Slot.vio: Spec/Slot.v Base/Bytes.vio Base/Table.vio Spec/Crc16.vio
Spec/Slot.vos Spec/Slot.vok Spec/Slot.required_vos: Spec/Slot.v Base/Bytes.vos Base/Table.vos Spec/Crc16.vos
