(* Base/Dec.v — decimal rendering/parsing (strconv.FormatInt / ParseInt syntax) on stdlib Decimal. *)
From RS Require Import Base.Bytes.
From Coq Require Import Decimal DecimalZ DecimalN DecimalPos.
Open Scope Z_scope.

(* Decimal.uint <-> ASCII digits *)
Fixpoint bytes_of_uint (d : Decimal.uint) : bytes :=
  match d with
  | Nil => []
  | D0 r => x30 :: bytes_of_uint r | D1 r => x31 :: bytes_of_uint r | D2 r => x32 :: bytes_of_uint r
  | D3 r => x33 :: bytes_of_uint r | D4 r => x34 :: bytes_of_uint r | D5 r => x35 :: bytes_of_uint r
  | D6 r => x36 :: bytes_of_uint r | D7 r => x37 :: bytes_of_uint r | D8 r => x38 :: bytes_of_uint r
  | D9 r => x39 :: bytes_of_uint r
  end.

Fixpoint uint_of_bytes (l : bytes) : option Decimal.uint :=
  match l with
  | [] => Some Nil
  | b :: r =>
    match uint_of_bytes r with
    | None => None
    | Some d =>
      match b with
      | x30 => Some (D0 d) | x31 => Some (D1 d) | x32 => Some (D2 d) | x33 => Some (D3 d) | x34 => Some (D4 d)
      | x35 => Some (D5 d) | x36 => Some (D6 d) | x37 => Some (D7 d) | x38 => Some (D8 d) | x39 => Some (D9 d)
      | _ => None
      end
    end
  end.

Lemma uint_of_bytes_of_uint d : uint_of_bytes (bytes_of_uint d) = Some d.
Proof. induction d; simpl; rewrite ?IHd; reflexivity. Qed.

(* strconv.FormatInt(z, 10) *)
Definition render (z : Z) : bytes :=
  match Z.to_int z with
  | Decimal.Pos d => bytes_of_uint d
  | Decimal.Neg d => x2d :: bytes_of_uint d
  end.

(* strconv.ParseInt(s, 10, 64) without the range check: [+-]? digit+ *)
Definition parse_digits (l : bytes) : option Z :=
  match l with [] => None | _ => match uint_of_bytes l with Some d => Some (Z.of_uint d) | None => None end end.
Definition parse_int (l : bytes) : option Z :=
  match l with
  | x2d :: r => match parse_digits r with Some z => Some (- z) | None => None end
  | x2b :: r => parse_digits r
  | _ => parse_digits l
  end.

Lemma bytes_of_uint_nonnil d : d <> Nil -> bytes_of_uint d <> [].
Proof. destruct d; simpl; congruence. Qed.

Lemma to_uint_nonnil p : Pos.to_uint p <> Nil.
Proof.
  intros H. pose proof (DecimalPos.Unsigned.of_to p) as E. rewrite H in E. discriminate.
Qed.

Lemma first_is_digit d b r : bytes_of_uint d = b :: r -> b <> x2d /\ b <> x2b.
Proof. destruct d; simpl; intros H; inversion H; subst; split; discriminate. Qed.

Theorem parse_render z : parse_int (render z) = Some z.
Proof.
  unfold render. pose proof (DecimalZ.of_to z) as E.
  destruct (Z.to_int z) as [d|d] eqn:T.
  - (* non-negative *)
    assert (Hd : bytes_of_uint d <> []).
    { apply bytes_of_uint_nonnil. intros ->. unfold Z.to_int in T.
      destruct z; try discriminate; inversion T as [T']; apply (to_uint_nonnil _ T'). }
    unfold parse_int. destruct (bytes_of_uint d) as [|b r] eqn:B; [congruence|].
    destruct (first_is_digit _ _ _ B) as [N1 N2].
    assert (P : parse_digits (b :: r) = Some z).
    { unfold parse_digits. rewrite <- B, uint_of_bytes_of_uint. simpl in E. rewrite E. reflexivity. }
    destruct b; try congruence; exact P.
  - (* negative *)
    unfold Z.to_int in T. destruct z as [|p|p]; try discriminate. inversion T; subst d.
    simpl. unfold parse_digits.
    destruct (bytes_of_uint (Pos.to_uint p)) eqn:B.
    + exfalso. apply (bytes_of_uint_nonnil (Pos.to_uint p)); [apply to_uint_nonnil|exact B].
    + rewrite <- B, uint_of_bytes_of_uint. simpl. f_equal.
      pose proof (DecimalPos.Unsigned.of_to p) as Q. unfold Z.of_uint. rewrite Q. reflexivity.
Qed.

Lemma render_no_nl z : ~ In x0a (render z).
Proof.
  unfold render. assert (H : forall d, ~ In x0a (bytes_of_uint d)).
  { induction d; simpl; try tauto; intros [H|H]; try discriminate; auto. }
  destruct (Z.to_int z); simpl; [apply H|intros [E|E]; [discriminate|apply (H _ E)]].
Qed.

Example render_ex : render (-1024) = [x2d; x31; x30; x32; x34] /\ render 0 = [x30] /\ parse_int [x2b; x35] = Some 5
  /\ parse_int [x2d; x30] = Some 0 /\ parse_int [] = None /\ parse_int [x2d] = None /\ parse_int [x30; x30; x37] = Some 7.
Proof. vm_compute. repeat split. Qed.
