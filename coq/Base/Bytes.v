(* Base/Bytes.v — bytes, byte<->N conversions, little/big-endian helpers. Stdlib only. *)
From Coq Require Export List NArith ZArith Lia Bool.
From Coq Require Export Strings.Byte.
From Coq Require Import ZifyN ZifyNat ZifyBool.
Export ListNotations.

Notation bytes := (list byte).

Definition beq (a b : byte) : bool := Byte.eqb a b.

Lemma beq_true a b : beq a b = true <-> a = b.
Proof.
  unfold beq. split; intros H.
  - apply Byte.byte_dec_bl; exact H.
  - subst. apply Byte.byte_dec_lb. reflexivity.
Qed.

Lemma beq_refl a : beq a a = true.
Proof. apply beq_true. reflexivity. Qed.

Lemma beq_false a b : beq a b = false <-> a <> b.
Proof.
  split; intros H.
  - intros E. apply beq_true in E. congruence.
  - destruct (beq a b) eqn:E; [|reflexivity]. apply beq_true in E. contradiction.
Qed.

Lemma beq_spec a b : reflect (a = b) (beq a b).
Proof. destruct (beq a b) eqn:E; constructor; [apply beq_true|apply beq_false]; exact E. Qed.

Definition b2n (b : byte) : N := Byte.to_N b.
Definition n2b (n : N) : byte :=
  match Byte.of_N (n mod 256) with Some b => b | None => x00 end.

Lemma b2n_lt b : (b2n b < 256)%N.
Proof. unfold b2n. pose proof (Byte.to_N_bounded b). lia. Qed.

Lemma n2b_b2n b : n2b (b2n b) = b.
Proof.
  unfold n2b, b2n. rewrite N.mod_small by (pose proof (Byte.to_N_bounded b); lia).
  rewrite Byte.of_to_N. reflexivity.
Qed.

Lemma b2n_n2b n : b2n (n2b n) = (n mod 256)%N.
Proof.
  unfold n2b, b2n.
  destruct (Byte.of_N (n mod 256)) as [b|] eqn:E.
  - apply Byte.to_of_N in E. exact E.
  - apply Byte.of_N_None_iff in E. pose proof (N.mod_lt n 256). lia.
Qed.

Lemma b2n_inj a b : b2n a = b2n b -> a = b.
Proof. intros H. rewrite <- (n2b_b2n a), <- (n2b_b2n b), H. reflexivity. Qed.

Fixpoint beqs (a b : bytes) : bool :=
  match a, b with
  | [], [] => true
  | x :: a', y :: b' => beq x y && beqs a' b'
  | _, _ => false
  end.

Lemma beqs_true a b : beqs a b = true <-> a = b.
Proof.
  revert b. induction a as [|x a IH]; intros [|y b]; simpl; try (split; congruence).
  rewrite andb_true_iff, IH, beq_true. split; [intros [-> ->]; reflexivity|intros H; inversion H; auto].
Qed.

(* is [p] a prefix of [l] *)
Fixpoint prefix_of (p l : bytes) : bool :=
  match p, l with
  | [], _ => true
  | x :: p', y :: l' => beq x y && prefix_of p' l'
  | _ :: _, [] => false
  end.

Lemma prefix_of_spec p l : prefix_of p l = true <-> exists r, l = p ++ r.
Proof.
  revert l. induction p as [|x p IH]; intros l; simpl.
  - split; [intros _; exists l; reflexivity|auto].
  - destruct l as [|y l].
    + split; [discriminate|intros [r H]; discriminate].
    + rewrite andb_true_iff, beq_true, IH. split.
      * intros [-> [r ->]]. exists r. reflexivity.
      * intros [r H]. inversion H. split; [reflexivity|exists r; reflexivity].
Qed.
