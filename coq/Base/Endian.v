(* Base/Endian.v — little/big-endian fixed-width integers, two's complement. *)
From RS Require Import Base.Bytes.
From Coq Require Import ZifyN ZifyNat ZifyBool.
Ltac Zify.zify_post_hook ::= Z.div_mod_to_equations.
Open Scope N_scope.

Fixpoint le_enc (k : nat) (n : N) : bytes :=
  match k with O => [] | S k' => n2b n :: le_enc k' (n / 256) end.
Fixpoint le_dec (bs : bytes) : N :=
  match bs with [] => 0 | b :: r => b2n b + 256 * le_dec r end.
Definition be_enc (k : nat) (n : N) : bytes := rev (le_enc k n).
Definition be_dec (bs : bytes) : N := le_dec (rev bs).

Lemma le_enc_length k n : length (le_enc k n) = k.
Proof. revert n. induction k; simpl; intros; auto. Qed.

Lemma b2n_n2b_small n : n < 256 -> b2n (n2b n) = n.
Proof. intros. rewrite b2n_n2b. apply N.mod_small. assumption. Qed.

Lemma le_dec_enc k : forall n, n < 2 ^ (8 * N.of_nat k) -> le_dec (le_enc k n) = n.
Proof.
  induction k as [|k IH]; intros n H.
  - simpl in *. lia.
  - cbn [le_enc le_dec]. rewrite b2n_n2b. rewrite IH.
    + pose proof (N.div_mod n 256). lia.
    + replace (8 * N.of_nat (S k)) with (8 + 8 * N.of_nat k) in H by lia. rewrite N.pow_add_r in H.
      change (2 ^ 8) with 256 in H. apply N.div_lt_upper_bound; lia.
Qed.

Lemma le_dec_lt bs : le_dec bs < 2 ^ (8 * N.of_nat (length bs)).
Proof.
  induction bs as [|b r IH]; [simpl; lia|].
  cbn [le_dec length]. replace (8 * N.of_nat (S (length r))) with (8 + 8 * N.of_nat (length r)) by lia.
  rewrite N.pow_add_r. change (2 ^ 8) with 256. pose proof (b2n_lt b). lia.
Qed.

Lemma le_dec_inj a : forall b, length a = length b -> le_dec a = le_dec b -> a = b.
Proof.
  induction a as [|x a IH]; intros [|y b] L E; try discriminate; [reflexivity|].
  cbn [le_dec] in E. pose proof (b2n_lt x). pose proof (b2n_lt y).
  assert (b2n x = b2n y /\ le_dec a = le_dec b) as [E1 E2] by lia.
  f_equal; [apply b2n_inj; exact E1|apply IH; [simpl in L; lia|exact E2]].
Qed.

Lemma be_dec_enc k n : n < 2 ^ (8 * N.of_nat k) -> be_dec (be_enc k n) = n.
Proof. intros H. unfold be_dec, be_enc. rewrite rev_involutive. apply le_dec_enc. exact H. Qed.

Lemma be_enc_length k n : length (be_enc k n) = k.
Proof. unfold be_enc. rewrite rev_length. apply le_enc_length. Qed.

(* two's complement *)
Definition to_signed (bits : N) (u : N) : Z :=
  if u <? 2 ^ (bits - 1) then Z.of_N u else (Z.of_N u - 2 ^ Z.of_N bits)%Z.
Definition of_signed (bits : N) (z : Z) : N := Z.to_N (z mod 2 ^ Z.of_N bits).

Lemma signed_roundtrip bits z : 0 < bits -> (- 2 ^ (Z.of_N bits - 1) <= z < 2 ^ (Z.of_N bits - 1))%Z ->
  to_signed bits (of_signed bits z) = z.
Proof.
  intros Hb Hz. unfold to_signed, of_signed.
  assert (P : (2 ^ Z.of_N bits = 2 * 2 ^ (Z.of_N bits - 1))%Z).
  { replace (Z.of_N bits) with (1 + (Z.of_N bits - 1))%Z at 1 by lia. rewrite Z.pow_add_r by lia. reflexivity. }
  assert (Q : Z.of_N (2 ^ (bits - 1)) = (2 ^ (Z.of_N bits - 1))%Z).
  { rewrite N2Z.inj_pow. f_equal. lia. }
  set (h := (2 ^ (Z.of_N bits - 1))%Z) in *. assert (0 < h)%Z by (apply Z.pow_pos_nonneg; lia).
  destruct (Z_lt_le_dec z 0) as [Hn|Hp].
  - assert (E : (z mod (2 ^ Z.of_N bits) = z + 2 * h)%Z).
    { rewrite P. symmetry. apply Z.mod_unique with (q := (-1)%Z); lia. }
    rewrite E. destruct (Z.to_N (z + 2 * h) <? 2 ^ (bits - 1)) eqn:L.
    + apply N.ltb_lt in L. lia.
    + rewrite Z2N.id by lia. lia.
  - assert (E : (z mod (2 ^ Z.of_N bits) = z)%Z) by (apply Z.mod_small; lia).
    rewrite E. destruct (Z.to_N z <? 2 ^ (bits - 1)) eqn:L.
    + rewrite Z2N.id by lia. reflexivity.
    + apply N.ltb_ge in L. lia.
Qed.

Lemma of_signed_lt bits z : 0 < bits -> of_signed bits z < 2 ^ bits.
Proof.
  intros Hb. unfold of_signed. assert (0 < 2 ^ Z.of_N bits)%Z by (apply Z.pow_pos_nonneg; lia).
  pose proof (Z.mod_pos_bound z (2 ^ Z.of_N bits) H).
  assert (Z.of_N (2 ^ bits) = (2 ^ Z.of_N bits)%Z) by (rewrite N2Z.inj_pow; reflexivity). lia.
Qed.
