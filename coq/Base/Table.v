(* Base/Table.v — O(log n) table lookup (balanced tree built from a list), proved equal to
   [nth].  The specifications and proofs talk about [nth]; the executable models use
   [tlookup] so that the extracted code does not walk a 256-element list per byte. *)
From RS Require Import Base.Bytes.
From Coq Require Import ZifyN ZifyNat ZifyBool.
Open Scope N_scope.

Inductive tree := Leaf (v : N) | Node (l r : tree).

Fixpoint tbuild (d : nat) (l : list N) : tree :=
  match d with
  | O => Leaf (hd 0 l)
  | S d' => let h := Nat.pow 2 d' in Node (tbuild d' (firstn h l)) (tbuild d' (skipn h l))
  end.

Fixpoint tlookup (d : nat) (t : tree) (i : N) : N :=
  match d, t with
  | S d', Node l r =>
      let h := N.shiftl 1 (N.of_nat d') in
      if i <? h then tlookup d' l i else tlookup d' r (i - h)
  | _, Leaf v => v
  | _, _ => 0
  end.

Lemma nth_firstn_lt {A} (l : list A) n i d : (i < n)%nat -> nth i (firstn n l) d = nth i l d.
Proof.
  revert n i. induction l as [|x l IH]; intros n i H.
  - rewrite firstn_nil. reflexivity.
  - destruct n; [lia|]. destruct i; [reflexivity|]. cbn [firstn nth]. apply IH. lia.
Qed.

Lemma nth_skipn_add {A} (l : list A) n i d : nth i (skipn n l) d = nth (n + i) l d.
Proof.
  revert l. induction n as [|n IH]; intros l; [reflexivity|].
  destruct l as [|x l]; [destruct i; reflexivity|]. cbn [skipn]. rewrite IH. reflexivity.
Qed.

Lemma tlookup_build d : forall l i, i < 2 ^ N.of_nat d ->
  tlookup d (tbuild d l) i = nth (N.to_nat i) l 0.
Proof.
  induction d as [|d IH]; intros l i H.
  - change (2 ^ N.of_nat 0) with 1 in H. assert (i = 0) by lia. subst. destruct l; reflexivity.
  - cbn [tbuild tlookup]. rewrite N.shiftl_1_l.
    assert (Hp : 2 ^ N.of_nat (S d) = 2 * 2 ^ N.of_nat d).
    { rewrite Nat2N.inj_succ, N.pow_succ_r'. reflexivity. }
    assert (Hn : N.to_nat (2 ^ N.of_nat d) = Nat.pow 2 d).
    { rewrite N2Nat.inj_pow, Nat2N.id. reflexivity. }
    destruct (N.ltb_spec i (2 ^ N.of_nat d)) as [Hlt|Hge].
    + rewrite IH by exact Hlt. apply nth_firstn_lt. lia.
    + rewrite IH by lia. rewrite nth_skipn_add. f_equal. lia.
Qed.
