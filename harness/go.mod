module rsverif

go 1.23

require (
	github.com/alibaba/RedisShake v0.0.0
	github.com/cupcake/rdb v0.0.0-20161107195141-43ba34106c76
	github.com/garyburd/redigo v1.6.2
	golang.org/x/sync v0.0.0-20181221193216-37e7f081c4d4
)

require (
	github.com/FZambia/go-sentinel v0.0.0-20171204085413-76bd05e8e22f // indirect
	github.com/beorn7/perks v1.0.0 // indirect
	github.com/golang/protobuf v1.3.2-0.20190517061210-b285ee9cfc6c // indirect
	github.com/gugemichael/nimo4go v0.0.0-20190904073057-32795d80f83a // indirect
	github.com/matttproud/golang_protobuf_extensions v1.0.2-0.20181231171920-c182affec369 // indirect
	github.com/nightlyone/lockfile v0.0.0-20180618180623-0ad87eef1443 // indirect
	github.com/pkg/errors v0.8.0 // indirect
	github.com/prometheus/client_golang v1.0.1-0.20190617182757-3d8379da8fc2 // indirect
	github.com/prometheus/client_model v0.0.0-20190129233127-fd36f4220a90 // indirect
	github.com/prometheus/common v0.6.0 // indirect
	github.com/prometheus/procfs v0.0.3-0.20190614152826-90b65b633401 // indirect
	github.com/vinllen/redis-go-cluster v1.0.1-0.20200724054240-c957918bbc61 // indirect
	gopkg.in/natefinch/lumberjack.v2 v2.0.0-20170531160350-a96e63847dc3 // indirect
)

replace github.com/alibaba/RedisShake => /repo/src
