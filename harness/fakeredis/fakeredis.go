// Package fakeredis is a small in-memory RESP server on loopback used as source/target of
// the RedisShake code under test.  It executes every command under one mutex and records a
// linearised history (connection, command, reply).  It is NOT trusted: the driver replays
// the history through the extracted model Redis.
package fakeredis

import (
	"bufio"
	"bytes"
	"fmt"
	"io"
	"net"
	"sort"
	"strconv"
	"strings"
	"sync"
)

type KV struct{ K, V []byte }

type Val struct {
	Kind     string // string | list | set | zset | hash | dump
	S        []byte // string value / opaque RESTORE payload
	L        [][]byte
	H        []KV // hash fields / zset (member, score text) in insertion order
	ExpireAt int64 // absolute ms as given by PEXPIRE base + now, 0 = none; we store the relative ttl of the last PEXPIRE/RESTORE
	TTL      int64 // relative ttl in ms as received (0 = none)
}

type Options struct {
	NoReplace    bool   // RESTORE ... REPLACE -> syntax error (old servers)
	MaxDumpType  int    // RESTORE payload whose first byte (type) exceeds this -> "ERR Bad data format" (0 = accept all)
	OldBusyText  bool   // busy key wording of old servers
	RunID        string
	ScanPages    map[int][][]string // scripted SCAN: db -> pages of keys
	Vanish       map[string]string  // key -> "dump" | "pttl": the key disappears right before that command
	FailCommands map[string]string  // lower-case command name -> error text
	FailKeys     map[string]string  // RESTORE of this key -> error text
	RejectAuth   bool               // AUTH -> -ERR invalid password (commands are served all the same)
}

type Event struct {
	Conn  int
	Args  [][]byte
	Reply string
}

type Server struct {
	ln    net.Listener
	mu    sync.Mutex
	DBs   map[int]map[string]*Val
	Hist  []Event
	Scripts [][]byte
	conns int
	Opts  Options
	scan  map[string]int // per conn+db cursor
}

func New(opts Options) (*Server, error) {
	ln, err := net.Listen("tcp", "127.0.0.1:0")
	if err != nil {
		return nil, err
	}
	s := &Server{ln: ln, DBs: map[int]map[string]*Val{}, Opts: opts, scan: map[string]int{}}
	go s.accept()
	return s, nil
}

func (s *Server) Lock()   { s.mu.Lock() }
func (s *Server) Unlock() { s.mu.Unlock() }
func (s *Server) Addr() string { return s.ln.Addr().String() }
func (s *Server) Close()       { s.ln.Close() }

func (s *Server) db(n int) map[string]*Val {
	d, ok := s.DBs[n]
	if !ok {
		d = map[string]*Val{}
		s.DBs[n] = d
	}
	return d
}

func (s *Server) accept() {
	for {
		c, err := s.ln.Accept()
		if err != nil {
			return
		}
		s.mu.Lock()
		s.conns++
		id := s.conns
		s.mu.Unlock()
		go s.serve(c, id)
	}
}

func readCommand(r *bufio.Reader) ([][]byte, error) {
	line, err := r.ReadBytes('\n')
	if err != nil {
		return nil, err
	}
	line = bytes.TrimRight(line, "\r\n")
	if len(line) == 0 {
		return [][]byte{}, nil
	}
	if line[0] != '*' {
		// inline command
		var out [][]byte
		for _, f := range bytes.Fields(line) {
			out = append(out, f)
		}
		return out, nil
	}
	n, err := strconv.Atoi(string(line[1:]))
	if err != nil {
		return nil, err
	}
	args := make([][]byte, 0, n)
	for i := 0; i < n; i++ {
		h, err := r.ReadBytes('\n')
		if err != nil {
			return nil, err
		}
		h = bytes.TrimRight(h, "\r\n")
		if len(h) == 0 || h[0] != '$' {
			return nil, fmt.Errorf("bad bulk header")
		}
		l, err := strconv.Atoi(string(h[1:]))
		if err != nil {
			return nil, err
		}
		b := make([]byte, l+2)
		if _, err := io.ReadFull(r, b); err != nil {
			return nil, err
		}
		args = append(args, b[:l])
	}
	return args, nil
}

type connState struct {
	id    int
	db    int
	multi bool
	queue [][][]byte
}

func bulk(b []byte) string { return fmt.Sprintf("$%d\r\n%s\r\n", len(b), b) }

func (s *Server) serve(c net.Conn, id int) {
	defer c.Close()
	r := bufio.NewReader(c)
	w := bufio.NewWriter(c)
	st := &connState{id: id}
	for {
		args, err := readCommand(r)
		if err != nil {
			return
		}
		if len(args) == 0 {
			continue
		}
		s.mu.Lock()
		reply := s.dispatch(st, args)
		s.Hist = append(s.Hist, Event{id, args, summarize(reply)})
		s.mu.Unlock()
		w.WriteString(reply)
		if r.Buffered() == 0 {
			w.Flush()
		}
	}
}

func summarize(reply string) string {
	if len(reply) > 80 {
		return reply[:80]
	}
	return reply
}

func (s *Server) dispatch(st *connState, args [][]byte) string {
	cmd := strings.ToLower(string(args[0]))
	if e, ok := s.Opts.FailCommands[cmd]; ok {
		return "-" + e + "\r\n"
	}
	if st.multi && cmd != "exec" && cmd != "multi" && cmd != "discard" {
		st.queue = append(st.queue, args)
		return "+QUEUED\r\n"
	}
	switch cmd {
	case "multi":
		st.multi = true
		st.queue = nil
		return "+OK\r\n"
	case "exec":
		if !st.multi {
			return "-ERR EXEC without MULTI\r\n"
		}
		st.multi = false
		var b strings.Builder
		fmt.Fprintf(&b, "*%d\r\n", len(st.queue))
		for _, q := range st.queue {
			b.WriteString(s.exec(st, q))
		}
		st.queue = nil
		return b.String()
	}
	return s.exec(st, args)
}

func (s *Server) exec(st *connState, args [][]byte) string {
	cmd := strings.ToLower(string(args[0]))
	d := s.db(st.db)
	argc := len(args)
	switch cmd {
	case "ping":
		return "+PONG\r\n"
	case "auth":
		if s.Opts.RejectAuth {
			return "-ERR invalid password\r\n"
		}
		return "+OK\r\n"
	case "select":
		n, err := strconv.Atoi(string(args[1]))
		if err != nil || n < 0 {
			return "-ERR invalid DB index\r\n"
		}
		st.db = n
		return "+OK\r\n"
	case "flushall":
		s.DBs = map[int]map[string]*Val{}
		return "+OK\r\n"
	case "info":
		sec := ""
		if argc > 1 {
			sec = strings.ToLower(string(args[1]))
		}
		var b strings.Builder
		switch sec {
		case "keyspace":
			b.WriteString("# Keyspace\r\n")
			var ns []int
			for n, m := range s.DBs {
				if len(m) > 0 {
					ns = append(ns, n)
				}
			}
			sort.Ints(ns)
			for _, n := range ns {
				fmt.Fprintf(&b, "db%d:keys=%d,expires=0,avg_ttl=0\r\n", n, len(s.DBs[n]))
			}
		case "replication":
			b.WriteString("# Replication\r\nrole:master\r\n")
		default:
			b.WriteString("# Server\r\nredis_version:5.0.5\r\nrun_id:" + s.Opts.RunID + "\r\n")
		}
		return bulk([]byte(b.String()))
	case "exists":
		n := 0
		for _, k := range args[1:] {
			if _, ok := d[string(k)]; ok {
				n++
			}
		}
		return fmt.Sprintf(":%d\r\n", n)
	case "del", "unlink":
		n := 0
		for _, k := range args[1:] {
			if _, ok := d[string(k)]; ok {
				delete(d, string(k))
				n++
			}
		}
		return fmt.Sprintf(":%d\r\n", n)
	case "set":
		d[string(args[1])] = &Val{Kind: "string", S: append([]byte{}, args[2]...)}
		return "+OK\r\n"
	case "get":
		v, ok := d[string(args[1])]
		if !ok {
			return "$-1\r\n"
		}
		return bulk(v.S)
	case "type":
		v, ok := d[string(args[1])]
		if !ok {
			return "+none\r\n"
		}
		return "+" + v.Kind + "\r\n"
	case "rpush", "lpush", "sadd":
		kind := "list"
		if cmd == "sadd" {
			kind = "set"
		}
		v, ok := d[string(args[1])]
		if !ok {
			v = &Val{Kind: kind}
			d[string(args[1])] = v
		} else if v.Kind != kind {
			return "-WRONGTYPE Operation against a key holding the wrong kind of value\r\n"
		}
		for _, e := range args[2:] {
			if cmd == "lpush" {
				v.L = append([][]byte{append([]byte{}, e...)}, v.L...)
			} else if cmd == "sadd" {
				dup := false
				for _, x := range v.L {
					if bytes.Equal(x, e) {
						dup = true
					}
				}
				if !dup {
					v.L = append(v.L, append([]byte{}, e...))
				}
			} else {
				v.L = append(v.L, append([]byte{}, e...))
			}
		}
		return fmt.Sprintf(":%d\r\n", len(v.L))
	case "hset", "hmset", "zadd":
		kind := "hash"
		if cmd == "zadd" {
			kind = "zset"
		}
		v, ok := d[string(args[1])]
		if !ok {
			v = &Val{Kind: kind}
			d[string(args[1])] = v
		} else if v.Kind != kind {
			return "-WRONGTYPE Operation against a key holding the wrong kind of value\r\n"
		}
		added := 0
		for i := 2; i+1 < argc; i += 2 {
			f, val := args[i], args[i+1]
			if cmd == "zadd" {
				f, val = args[i+1], args[i] // zadd key score member
			}
			found := false
			for j := range v.H {
				if bytes.Equal(v.H[j].K, f) {
					v.H[j].V = append([]byte{}, val...)
					found = true
				}
			}
			if !found {
				v.H = append(v.H, KV{append([]byte{}, f...), append([]byte{}, val...)})
				added++
			}
		}
		if cmd == "hmset" {
			return "+OK\r\n"
		}
		return fmt.Sprintf(":%d\r\n", added)
	case "hdel":
		v, ok := d[string(args[1])]
		n := 0
		if ok && v.Kind == "hash" {
			for _, f := range args[2:] {
				for j := range v.H {
					if bytes.Equal(v.H[j].K, f) {
						v.H = append(v.H[:j], v.H[j+1:]...)
						n++
						break
					}
				}
			}
			if len(v.H) == 0 {
				delete(d, string(args[1]))
			}
		}
		return fmt.Sprintf(":%d\r\n", n)
	case "hgetall":
		v, ok := d[string(args[1])]
		if !ok {
			return "*0\r\n"
		}
		var b strings.Builder
		fmt.Fprintf(&b, "*%d\r\n", 2*len(v.H))
		for _, kv := range v.H {
			b.WriteString(bulk(kv.K))
			b.WriteString(bulk(kv.V))
		}
		return b.String()
	case "pexpire":
		v, ok := d[string(args[1])]
		if !ok {
			return ":0\r\n"
		}
		v.TTL, _ = strconv.ParseInt(string(args[2]), 10, 64)
		return ":1\r\n"
	case "pttl":
		if s.Opts.Vanish[string(args[1])] == "pttl" {
			delete(d, string(args[1]))
		}
		v, ok := d[string(args[1])]
		if !ok {
			return ":-2\r\n"
		}
		if v.TTL == 0 {
			return ":-1\r\n"
		}
		return fmt.Sprintf(":%d\r\n", v.TTL)
	case "dump":
		if s.Opts.Vanish[string(args[1])] == "dump" {
			delete(d, string(args[1]))
		}
		v, ok := d[string(args[1])]
		if !ok {
			return "$-1\r\n"
		}
		return bulk(v.S)
	case "restore":
		if argc < 4 {
			return "-ERR wrong number of arguments for 'restore' command\r\n"
		}
		replace := false
		for _, a := range args[4:] {
			switch strings.ToLower(string(a)) {
			case "replace":
				if s.Opts.NoReplace {
					return "-ERR wrong number of arguments for 'restore' command\r\n"
				}
				replace = true
			}
		}
		if e, ok := s.Opts.FailKeys[string(args[1])]; ok {
			return "-" + e + "\r\n"
		}
		// Redis checks the key first, then the payload
		if _, ok := d[string(args[1])]; ok && !replace {
			if s.Opts.OldBusyText {
				return "-ERR Target key name is busy.\r\n"
			}
			return "-BUSYKEY Target key name already exists.\r\n"
		}
		if s.Opts.MaxDumpType > 0 && len(args[3]) > 0 && int(args[3][0]) > s.Opts.MaxDumpType {
			return "-ERR Bad data format\r\n"
		}
		ttl, _ := strconv.ParseInt(string(args[2]), 10, 64)
		d[string(args[1])] = &Val{Kind: "dump", S: append([]byte{}, args[3]...), TTL: ttl}
		return "+OK\r\n"
	case "script":
		if argc >= 3 && strings.ToLower(string(args[1])) == "load" {
			// FailKeys["\x00script"]: the target refuses every SCRIPT LOAD
			if e, ok := s.Opts.FailKeys["\x00script"]; ok {
				return "-" + e + "\r\n"
			}
			s.Scripts = append(s.Scripts, append([]byte{}, args[2]...))
		}
		return bulk([]byte("da39a3ee5e6b4b0d3255bfef95601890afd80709"))
	case "dbsize":
		return fmt.Sprintf(":%d\r\n", len(d))
	case "scan":
		pages := s.Opts.ScanPages[st.db]
		cur, _ := strconv.Atoi(string(args[1]))
		if cur >= len(pages) {
			return "*2\r\n$1\r\n0\r\n*0\r\n"
		}
		next := cur + 1
		if next >= len(pages) {
			next = 0
		}
		var b strings.Builder
		ns := strconv.Itoa(next)
		fmt.Fprintf(&b, "*2\r\n%s*%d\r\n", bulk([]byte(ns)), len(pages[cur]))
		for _, k := range pages[cur] {
			b.WriteString(bulk([]byte(k)))
		}
		return b.String()
	}
	return "-ERR unknown command '" + cmd + "'\r\n"
}
