package main

import (
	"bufio"
	"bytes"
	"fmt"
	"strconv"
	"strings"

	"github.com/alibaba/RedisShake/pkg/rdb"
)

func init() { probes["C01"] = probeC01 }

func entryStr(e *rdb.BinEntry) string {
	return fmt.Sprintf("%d:%s:%d:%d:%d:%d:%d:%d:%s", e.DB, hx(e.Key), e.Type, e.ExpireAt, e.IdleTime, e.Freq, e.NeedReadLen, e.RealMemberCount, hx(e.Value))
}

// load <image> <chunk>: Header, NextBinEntry*, Footer through a reader returning <chunk> bytes per Read
func probeC01(c []string, out *bufio.Writer) {
	if c[1] == "bighash" {
		probeBigHash(c, out)
		return
	}
	img := unhex(c[2])
	chunk, _ := strconv.Atoi(c[3])
	var recs []string
	status := func() (st string) {
		defer func() {
			if r := recover(); r != nil {
				st = "err:panic"
			}
		}()
		var l *rdb.Loader
		if chunk <= 0 {
			l = rdb.NewLoader(bytes.NewReader(img))
		} else {
			l = rdb.NewLoader(&chunkReader{img, chunk})
		}
		if err := l.Header(); err != nil {
			return "err:header"
		}
		for {
			e, err := l.NextBinEntry()
			if err != nil {
				return "err:entry"
			}
			if e == nil {
				break
			}
			recs = append(recs, entryStr(e))
		}
		if err := l.Footer(); err != nil {
			return "err:footer"
		}
		return "ok"
	}()
	if len(recs) == 0 {
		recs = []string{"none"}
	}
	fmt.Fprintf(out, "%s %s %s\n", c[0], status, strings.Join(recs, " "))
}
