package main

import (
	"bufio"
	"fmt"
	"strings"

	conf "github.com/alibaba/RedisShake/redis-shake/configure"
	"github.com/alibaba/RedisShake/redis-shake/filter"
)

// C13 cases come in two kinds: "hfk" (HandleFilterKeyWithCommand called directly) and "inc" (the same filter reached
// through the incremental parser and sender, as C03 drives them)
func init() {
	batchProbes["C13"] = func(cases [][]string, out *bufio.Writer) {
		var inc [][]string
		for _, c := range cases {
			if c[1] == "inc" {
				inc = append(inc, c)
			} else {
				probeC13(c, out)
			}
		}
		batchIncr(inc, out)
	}
}

func setKeyFilter(kind, list string) {
	conf.Options.FilterKeyWhitelist = nil
	conf.Options.FilterKeyBlacklist = nil
	var l []string
	if list != "-" && list != "" {
		for _, h := range strings.Split(list, ",") {
			l = append(l, string(unhex(h)))
		}
	}
	switch kind {
	case "W":
		conf.Options.FilterKeyWhitelist = l
	case "B":
		conf.Options.FilterKeyBlacklist = l
	}
}

// hfk <W|B|N> <prefixes> <cmd> <arg>...
func probeC13(c []string, out *bufio.Writer) {
	setKeyFilter(c[2], c[3])
	cmd := string(unhex(c[4]))
	var args [][]byte
	for _, a := range c[5:] {
		b := unhex(a)
		if b == nil {
			b = []byte{}
		}
		args = append(args, b)
	}
	func() {
		defer func() {
			if r := recover(); r != nil {
				fmt.Fprintf(out, "%s panic\n", c[0])
			}
		}()
		na, filtered := filter.HandleFilterKeyWithCommand(cmd, args)
		f := 0
		if filtered {
			f = 1
		}
		fmt.Fprintf(out, "%s %d", c[0], f)
		for _, a := range na {
			fmt.Fprintf(out, " %s", hx(a))
		}
		fmt.Fprintln(out)
	}()
}
