package main

import (
	"bufio"
	"bytes"
	"fmt"
	"math"
	"strconv"
	"strings"

	"github.com/alibaba/RedisShake/pkg/rdb"
)

func init() { probes["C12"] = probeC12 }

// logical wire format: S:<hex> | L:<hex>,.. | T:<hex>,.. | H:<f>=<v>,.. | Z:<m>=<bits>,..   ("_" = no elements)
func parseLogical(s string) interface{} {
	kind, rest := s[:1], s[2:]
	var items []string
	if rest != "_" {
		items = strings.Split(rest, ",")
	}
	nn := func(b []byte) []byte {
		if b == nil {
			return []byte{}
		}
		return b
	}
	switch kind {
	case "S":
		return rdb.String(nn(unhex(rest)))
	case "L":
		l := rdb.List{}
		for _, it := range items {
			l = append(l, nn(unhex(it)))
		}
		return l
	case "T":
		l := rdb.Set{}
		for _, it := range items {
			l = append(l, nn(unhex(it)))
		}
		return l
	case "H":
		h := rdb.Hash{}
		for _, it := range items {
			kv := strings.SplitN(it, "=", 2)
			h = append(h, &rdb.HashElement{Field: nn(unhex(kv[0])), Value: nn(unhex(kv[1]))})
		}
		return h
	case "Z":
		z := rdb.ZSet{}
		for _, it := range items {
			kv := strings.SplitN(it, "=", 2)
			bits, _ := strconv.ParseUint(kv[1], 16, 64)
			z = append(z, &rdb.ZSetElement{Member: nn(unhex(kv[0])), Score: math.Float64frombits(bits)})
		}
		return z
	}
	return nil
}

func showLogical(o interface{}) string {
	join := func(xs []string) string {
		if len(xs) == 0 {
			return "_"
		}
		return strings.Join(xs, ",")
	}
	switch v := o.(type) {
	case rdb.String:
		return "S:" + hx(v)
	case rdb.List:
		var xs []string
		for _, e := range v {
			xs = append(xs, hx(e))
		}
		return "L:" + join(xs)
	case rdb.Set:
		var xs []string
		for _, e := range v {
			xs = append(xs, hx(e))
		}
		return "T:" + join(xs)
	case rdb.Hash:
		var xs []string
		for _, e := range v {
			xs = append(xs, hx(e.Field)+"="+hx(e.Value))
		}
		return "H:" + join(xs)
	case rdb.ZSet:
		var xs []string
		for _, e := range v {
			xs = append(xs, fmt.Sprintf("%s=%x", hx(e.Member), math.Float64bits(e.Score)))
		}
		return "Z:" + join(xs)
	}
	return "?"
}

func decodeSafe(p []byte) (res string) {
	defer func() {
		if r := recover(); r != nil {
			res = "panic"
		}
	}()
	o, err := rdb.DecodeDump(p)
	if err != nil {
		return "err"
	}
	return showLogical(o)
}

// enc <logical> | dec <payload> | file <db>;<key>;<expire>;<logical> ...
func probeC12(c []string, out *bufio.Writer) {
	switch c[1] {
	case "enc":
		p, err := rdb.EncodeDump(parseLogical(c[2]))
		if err != nil {
			fmt.Fprintf(out, "%s err\n", c[0])
			return
		}
		fmt.Fprintf(out, "%s %s %s\n", c[0], hx(p), decodeSafe(p))
	case "dec":
		fmt.Fprintf(out, "%s %s\n", c[0], decodeSafe(unhex(c[2])))
	case "file":
		var b bytes.Buffer
		e := rdb.NewEncoder(&b)
		e.EncodeHeader()
		for _, it := range c[2:] {
			if it == "" {
				continue
			}
			f := strings.SplitN(it, ";", 4)
			db, _ := strconv.Atoi(f[0])
			exp, _ := strconv.ParseUint(f[2], 10, 64)
			key := unhex(f[1])
			if key == nil {
				key = []byte{}
			}
			if err := e.EncodeObject(uint32(db), key, exp, parseLogical(f[3])); err != nil {
				fmt.Fprintf(out, "%s err-encode\n", c[0])
				return
			}
		}
		e.EncodeFooter()
		img := b.Bytes()
		var recs []string
		status := "ok"
		func() {
			defer func() {
				if r := recover(); r != nil {
					status = "panic"
				}
			}()
			l := rdb.NewLoader(bytes.NewReader(img))
			if err := l.Header(); err != nil {
				status = "err:header"
				return
			}
			for {
				en, err := l.NextBinEntry()
				if err != nil {
					status = "err:entry"
					return
				}
				if en == nil {
					break
				}
				o, err := en.ObjEntry()
				if err != nil {
					recs = append(recs, "err-obj")
					continue
				}
				recs = append(recs, fmt.Sprintf("%d;%s;%d;%s", o.DB, hx(o.Key), o.ExpireAt, showLogical(o.Value)))
			}
			if err := l.Footer(); err != nil {
				status = "err:footer"
			}
		}()
		if len(recs) == 0 {
			recs = []string{"none"}
		}
		fmt.Fprintf(out, "%s %s %s %s\n", c[0], hx(img), status, strings.Join(recs, " "))
	}
}
