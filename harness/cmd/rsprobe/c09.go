package main

import (
	"bufio"
	stderrors "errors"
	"fmt"
	"io"
	"os"
	"strconv"
	"strings"
	"time"

	"github.com/alibaba/RedisShake/pkg/libs/errors"
	"github.com/alibaba/RedisShake/pkg/libs/io/pipe"
)

func init() { batchProbes["C09"] = batchC09 }

func batchC09(cases [][]string, out *bufio.Writer) {
	parallelCases(cases, 16, out, runC09)
}

func pipeErr(err error) string {
	switch {
	case err == nil:
		return "ok"
	case errors.Equal(err, io.ErrClosedPipe):
		return "closed"
	case errors.Equal(err, io.EOF):
		return "eof"
	}
	if strings.HasPrefix(err.Error(), "custom") {
		return err.Error()
	}
	return "other"
}

func customErr(s string) error {
	if s == "" {
		return nil
	}
	return stderrors.New("custom" + s)
}

// seq <mem|file> <cap> <op>;<op>;...
//   W<seed>,<len> R<len> B A cr[<n>] cw[<n>]
//   flags after a '/': '!' parks, 'r'/'w' the pending read/write completes after this op, '~<n>' wait until Buffered()==n
func runC09(c []string) string {
	capacity, _ := strconv.Atoi(c[3])
	var r pipe.Reader
	var w pipe.Writer
	if c[2] == "file" {
		f, err := os.CreateTemp("", "rsverif-pipe-*")
		if err != nil {
			return c[0] + " machinery-error " + err.Error()
		}
		defer os.Remove(f.Name())
		r, w = pipe.NewFilePipe(capacity, f)
	} else {
		r, w = pipe.NewSize(capacity)
	}
	ops := strings.Split(c[4], ";")
	res := make([]string, len(ops))
	type pend struct {
		idx  int
		done chan string
	}
	var pr, pw *pend
	finish := func(p **pend, tag string) {
		if *p == nil {
			return
		}
		select {
		case s := <-(*p).done:
			res[(*p).idx] += s
		case <-time.After(3 * time.Second):
			res[(*p).idx] += "stuck"
		}
		*p = nil
	}
	for i, full := range ops {
		op, flags := full, ""
		if k := strings.Index(full, "/"); k >= 0 {
			op, flags = full[:k], full[k+1:]
		}
		var run func() string
		side := ""
		switch {
		case op[0] == 'W':
			a := strings.Split(op[1:], ",")
			seed, _ := strconv.Atoi(a[0])
			n, _ := strconv.Atoi(a[1])
			side = "w"
			run = func() string { k, err := w.Write(payload(seed, n)); return fmt.Sprintf("W:%d:%s", k, pipeErr(err)) }
		case op[0] == 'R':
			n, _ := strconv.Atoi(op[1:])
			side = "r"
			run = func() string {
				b := make([]byte, n)
				k, err := r.Read(b)
				return fmt.Sprintf("R:%d:%x:%s", k, fnv64(b[:k]), pipeErr(err))
			}
		case op == "B":
			run = func() string { n, err := r.Buffered(); return fmt.Sprintf("B:%d:%s", n, pipeErr(err)) }
		case op == "A":
			run = func() string { n, err := w.Available(); return fmt.Sprintf("A:%d:%s", n, pipeErr(err)) }
		case strings.HasPrefix(op, "cr"):
			run = func() string { r.CloseWithError(customErr(op[2:])); return "c" }
		case strings.HasPrefix(op, "cw"):
			run = func() string { w.CloseWithError(customErr(op[2:])); return "c" }
		default:
			return c[0] + " machinery-error bad-op"
		}
		done := make(chan string, 1)
		go func() { done <- run() }()
		if strings.Contains(flags, "!") {
			select {
			case s := <-done:
				res[i] = s // did not park
			case <-time.After(15 * time.Millisecond):
				res[i] = "parked>"
				if side == "r" {
					pr = &pend{i, done}
				} else {
					pw = &pend{i, done}
				}
			}
		} else {
			select {
			case s := <-done:
				res[i] = s
			case <-time.After(3 * time.Second):
				res[i] = "hang"
				r.Close()
				w.Close()
				return c[0] + " " + strings.Join(res[:i+1], ";")
			}
		}
		if strings.Contains(flags, "r") && (pr == nil || pr.idx != i) {
			finish(&pr, "r")
		}
		if strings.Contains(flags, "w") && (pw == nil || pw.idx != i) {
			finish(&pw, "w")
		}
		if k := strings.Index(flags, "~"); k >= 0 {
			want, _ := strconv.Atoi(strings.TrimRight(flags[k+1:], "rw!"))
			deadline := time.Now().Add(2 * time.Second)
			for {
				n, _ := r.Buffered()
				if n == want || time.Now().After(deadline) {
					break
				}
				time.Sleep(200 * time.Microsecond)
			}
		}
	}
	// release whatever is still parked
	if pr != nil || pw != nil {
		w.Close()
		if pr != nil {
			select {
			case s := <-pr.done:
				res[pr.idx] += "atend:" + s
			case <-time.After(2 * time.Second):
				res[pr.idx] += "stuck"
			}
		}
		if pw != nil {
			select {
			case s := <-pw.done:
				res[pw.idx] += "atend:" + s
			case <-time.After(2 * time.Second):
				res[pw.idx] += "stuck"
			}
		}
		r.Close()
	} else {
		w.Close()
		r.Close()
	}
	return c[0] + " " + strings.Join(res, ";")
}
