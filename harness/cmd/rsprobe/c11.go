package main

import (
	"sync"
	"bufio"
	"bytes"
	"fmt"
	"strconv"
	"strings"

	extcrc "github.com/cupcake/rdb/crc64"

	cup "github.com/alibaba/RedisShake/pkg/libs/cupcake/rdb"
	cupcrc "github.com/alibaba/RedisShake/pkg/libs/cupcake/rdb/crc64"
	"github.com/alibaba/RedisShake/pkg/rdb"
	"github.com/alibaba/RedisShake/pkg/rdb/digest"
	utils "github.com/alibaba/RedisShake/redis-shake/common"
)

func init() { probes["C11"] = probeC11 }

func chk(d []byte) string {
	v := "err"
	if cup.VerifVerifyDump(d) == nil {
		v = "ok"
	}
	ver, sum, err := utils.CheckVersionChecksum(d)
	c := "err"
	if err == nil {
		c = fmt.Sprintf("ok:%d:%d", ver, sum)
	}
	return v + " " + c
}

// loads a whole RDB image: Header, every entry, Footer
func loadRdb(img []byte, chunk int) (res string) {
	defer func() {
		if r := recover(); r != nil {
			res = "err:panic"
		}
	}()
	var l *rdb.Loader
	if chunk <= 0 {
		l = rdb.NewLoader(bytes.NewReader(img))
	} else {
		// a source that delivers at most chunk bytes per Read (bufio / network behaviour)
		l = rdb.NewLoader(&chunkReader{img, chunk})
	}
	if err := l.Header(); err != nil {
		return "err:header"
	}
	n := 0
	for {
		e, err := l.NextBinEntry()
		if err != nil {
			return "err:entry"
		}
		if e == nil {
			break
		}
		// every emitted value is a DUMP payload that must verify under both checkers
		if e.Type != 250 {
			if cup.VerifVerifyDump(e.Value) != nil {
				return "err:payload-checksum"
			}
			if _, _, err := utils.CheckVersionChecksum(e.Value); err != nil {
				return "err:payload-checksum"
			}
		}
		n++
	}
	if err := l.Footer(); err != nil {
		return "err:footer"
	}
	return "ok:" + strconv.Itoa(n)
}

func probeC11(c []string, out *bufio.Writer) {
	switch c[1] {
	case "digest": // digest <data> <chunk sizes, comma separated>
		data := unhex(c[2])
		d := digest.New()
		h2 := cupcrc.New()
		pos := 0
		for _, s := range strings.Split(c[3], ",") {
			n, _ := strconv.Atoi(s)
			if pos+n > len(data) {
				n = len(data) - pos
			}
			d.Write(data[pos : pos+n])
			h2.Write(data[pos : pos+n])
			pos += n
		}
		d.Write(data[pos:])
		h2.Write(data[pos:])
		fmt.Fprintf(out, "%s %d %s %d %d %d\n", c[0], d.Sum64(), hx(d.Sum(nil)), h2.Sum64(), cupcrc.Digest(data), extcrc.Digest(data))
	case "dump": // dump <type> <val>
		t, _ := strconv.Atoi(c[2])
		d := rdb.VerifCreateValueDump(byte(t), unhex(c[3]))
		fmt.Fprintf(out, "%s %s %s\n", c[0], hx(d), chk(d))
	case "chk": // chk <payload>
		fmt.Fprintf(out, "%s %s\n", c[0], chk(unhex(c[2])))
	case "sweep": // sweep <payload>: all single-byte substitutions and all truncations
		d := unhex(c[2])
		accV, accC := 0, 0
		first := "-"
		for i := range d {
			orig := d[i]
			for b := 0; b < 256; b++ {
				if byte(b) == orig {
					continue
				}
				d[i] = byte(b)
				if cup.VerifVerifyDump(d) == nil {
					accV++
					if first == "-" {
						first = fmt.Sprintf("verifyDump:%d:%d", i, b)
					}
				}
				if _, _, err := utils.CheckVersionChecksum(d); err == nil {
					accC++
					if first == "-" {
						first = fmt.Sprintf("CheckVersionChecksum:%d:%d", i, b)
					}
				}
			}
			d[i] = orig
		}
		accT := 0
		for n := 0; n < len(d); n++ {
			if n >= len(d)-10 || n < 10 {
				if cup.VerifVerifyDump(d[:n]) == nil {
					accT++
				}
				if _, _, err := utils.CheckVersionChecksum(d[:n]); err == nil {
					accT++
				}
			}
		}
		fmt.Fprintf(out, "%s %d %d %d %s\n", c[0], accV, accC, accT, first)
	case "rdb": // rdb <image> [max bytes per Read of the source, 0 = whole]
		chunk := 0
		if len(c) > 3 {
			chunk, _ = strconv.Atoi(c[3])
		}
		fmt.Fprintf(out, "%s %s\n", c[0], loadRdb(unhex(c[2]), chunk))
	case "rdbpar": // rdbpar <image> <image> ...: all images loaded concurrently, 20 rounds; one result per image
		res := make([]string, len(c)-2)
		for i := range res {
			res[i] = "ok"
		}
		var wg sync.WaitGroup
		for i, h := range c[2:] {
			wg.Add(1)
			go func(i int, img []byte) {
				defer wg.Done()
				for round := 0; round < 20; round++ {
					if r := loadRdb(img, 0); !strings.HasPrefix(r, "ok") {
						res[i] = r
						return
					}
				}
			}(i, unhex(h))
		}
		wg.Wait()
		fmt.Fprintf(out, "%s %s\n", c[0], strings.Join(res, ","))
	case "rdbsweep": // rdbsweep <image>: substitutions at every position, truncations of the trailer
		img := unhex(c[2])
		acc := 0
		first := "-"
		for i := range img {
			orig := img[i]
			for b := 0; b < 256; b++ {
				// 0x80/0x81 (32/64-bit length forms) and 0xc3 (LZF) make the parser allocate
				// buffers of up to 4 GiB before it notices the truncation: skipped (see DESIGN)
				if byte(b) == orig || b == 0x80 || b == 0x81 || b == 0xc3 {
					continue
				}
				img[i] = byte(b)
				if r := loadRdb(img, 5*(i%2)); strings.HasPrefix(r, "ok") {
					acc++
					if first == "-" {
						first = fmt.Sprintf("%d:%d", i, b)
					}
				}
			}
			img[i] = orig
		}
		accT := 0
		for n := len(img) - 9; n < len(img); n++ {
			if n >= 0 && strings.HasPrefix(loadRdb(img[:n], 0), "ok") {
				accT++
			}
		}
		fmt.Fprintf(out, "%s %d %d %s\n", c[0], acc, accT, first)
	}
}
