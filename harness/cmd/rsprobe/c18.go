package main

import (
	"bufio"
	"fmt"
	"os"
	"strconv"
	"strings"
	"time"

	"github.com/alibaba/RedisShake/pkg/libs/errors"
	"github.com/alibaba/RedisShake/pkg/libs/io/backlog"
)

func init() { batchProbes["C18"] = batchC18 }

func batchC18(cases [][]string, out *bufio.Writer) {
	parallelCases(cases, 16, out, runC18)
}

func blErr(err error) string {
	switch {
	case err == nil:
		return "ok"
	case errors.Equal(err, backlog.ErrClosedBacklog):
		return "closed"
	case errors.Equal(err, backlog.ErrInvalidOffset):
		return "invalid"
	}
	return "other"
}

type pendingRead struct {
	idx  int
	done chan string
}

// seq <mem|file> <cap> <op>;<op>;...
//   w<seed>,<len>  r<off>,<len>  R<len>  s<off>  v  d  c  x (close the underlying file)      suffix '!' = expected to park, '^' = wakes parked reads
func runC18(c []string) string {
	capacity, _ := strconv.Atoi(c[3])
	var bl *backlog.Backlog
	var file *os.File
	if c[2] == "file" {
		f, err := os.CreateTemp("", "rsverif-backlog-*")
		file = f
		if err != nil {
			return c[0] + " machinery-error " + err.Error()
		}
		defer os.Remove(f.Name())
		bl = backlog.NewFileBacklog(capacity, f)
	} else {
		bl = backlog.NewSize(capacity)
	}
	rd, _ := bl.NewReader()
	ops := strings.Split(c[4], ";")
	res := make([]string, len(ops))
	var pend []pendingRead
	collect := func(wait time.Duration) {
		var still []pendingRead
		for _, p := range pend {
			select {
			case r := <-p.done:
				res[p.idx] += r
			case <-time.After(wait):
				still = append(still, p)
			}
		}
		pend = still
	}
	for i, op := range ops {
		park := strings.Contains(op, "!")
		wakes := strings.Contains(op, "^")
		op = strings.Trim(op, "!^")
		var run func() string
		switch op[0] {
		case 'w':
			a := strings.Split(op[1:], ",")
			seed, _ := strconv.Atoi(a[0])
			n, _ := strconv.Atoi(a[1])
			run = func() string { k, err := bl.Write(payload(seed, n)); return fmt.Sprintf("w:%d:%s", k, blErr(err)) }
		case 'r':
			a := strings.Split(op[1:], ",")
			off, _ := strconv.ParseUint(a[0], 10, 64)
			n, _ := strconv.Atoi(a[1])
			run = func() string {
				b := make([]byte, n)
				k, err := bl.ReadAt(b, off)
				return fmt.Sprintf("r:%d:%x:%s", k, fnv64(b[:k]), blErr(err))
			}
		case 'R':
			n, _ := strconv.Atoi(op[1:])
			run = func() string {
				b := make([]byte, n)
				k, err := rd.Read(b)
				return fmt.Sprintf("R:%d:%x:%s:%d", k, fnv64(b[:k]), blErr(err), rd.Offset())
			}
		case 's':
			off, _ := strconv.ParseUint(op[1:], 10, 64)
			run = func() string { return fmt.Sprintf("s:%v", rd.SeekTo(off)) }
		case 'v':
			run = func() string { return fmt.Sprintf("v:%v", rd.IsValid()) }
		case 'd':
			run = func() string { lo, hi, err := bl.DataRange(); return fmt.Sprintf("d:%d:%d:%s", lo, hi, blErr(err)) }
		case 'c':
			run = func() string { bl.Close(); return "c" }
		case 'X': // X<seed>,<len>: ONE Write during which the file's owner closes the file as soon as the first chunk has been appended
			a := strings.Split(op[1:], ",")
			seed, _ := strconv.Atoi(a[0])
			n, _ := strconv.Atoi(a[1])
			run = func() string {
				_, hi0, _ := bl.DataRange()
				type wr struct {
					k   int
					err error
				}
				done := make(chan wr, 1)
				go func() { k, err := bl.Write(payload(seed, n)); done <- wr{k, err} }()
				deadline := time.Now().Add(5 * time.Second)
				for time.Now().Before(deadline) {
					if _, hi, _ := bl.DataRange(); hi > hi0 {
						break
					}
					time.Sleep(20 * time.Microsecond)
				}
				if file != nil {
					file.Close()
				}
				r := <-done
				_, hi1, _ := bl.DataRange()
				return fmt.Sprintf("X:%d:%d:%s", r.k, hi1-hi0, blErr(r.err))
			}
		case 'x': // the owner closes the underlying file: the store's own close will fail
			run = func() string {
				if file != nil {
					file.Close()
				}
				return "x"
			}
		default:
			return c[0] + " machinery-error bad-op"
		}
		done := make(chan string, 1)
		go func() { done <- run() }()
		if park {
			select {
			case r := <-done:
				res[i] = r // did not park
			case <-time.After(15 * time.Millisecond):
				res[i] = "parked>"
				pend = append(pend, pendingRead{i, done})
			}
		} else {
			select {
			case r := <-done:
				res[i] = r
			case <-time.After(3 * time.Second):
				res[i] = "hang"
				bl.Close()
				return c[0] + " " + strings.Join(res[:i+1], ";")
			}
		}
		if len(pend) > 0 && i != pend[len(pend)-1].idx {
			if wakes {
				collect(2 * time.Second)
			} else {
				collect(2 * time.Millisecond) // nothing should complete; an early wake shows up here
			}
		}
	}
	if len(pend) > 0 {
		bl.Close()
		for _, p := range pend {
			select {
			case r := <-p.done:
				res[p.idx] += "atend:" + r
			case <-time.After(2 * time.Second):
				res[p.idx] += "stuck"
			}
		}
	} else {
		bl.Close()
	}
	return c[0] + " " + strings.Join(res, ";")
}
