package main

import (
	"bufio"
	"fmt"
	"io"
	"strconv"
	"strings"

	"github.com/alibaba/RedisShake/pkg/redis"
)

func init() { probes["C10"] = probeC10 }

// tree notation: S<hex> E<hex> I<dec> B<hex> Bn An A<k> followed by k items; tokens joined by ','
func parseTree(toks []string, pos *int) redis.Resp {
	t := toks[*pos]
	*pos++
	switch t[0] {
	case 'S':
		return &redis.String{Value: nonNil(unhex(t[1:]))}
	case 'E':
		return &redis.Error{Value: nonNil(unhex(t[1:]))}
	case 'I':
		n, _ := strconv.ParseInt(t[1:], 10, 64)
		return &redis.Int{Value: n}
	case 'B':
		if t == "Bn" {
			return &redis.BulkBytes{Value: nil}
		}
		return &redis.BulkBytes{Value: nonNil(unhex(t[1:]))}
	case 'A':
		if t == "An" {
			return &redis.Array{Value: nil}
		}
		k, _ := strconv.Atoi(t[1:])
		a := make([]redis.Resp, k)
		for i := 0; i < k; i++ {
			a[i] = parseTree(toks, pos)
		}
		return &redis.Array{Value: a}
	}
	panic("bad tree token " + t)
}

// the same tree built through the package's constructors (NewInt, NewBulkBytes, NewArray + Append /
// AppendBulkBytes / AppendInt) wherever one exists; nil and empty arrays have no constructor form
func buildTree(toks []string, pos *int) redis.Resp {
	t := toks[*pos]
	switch t[0] {
	case 'I':
		*pos++
		n, _ := strconv.ParseInt(t[1:], 10, 64)
		return redis.NewInt(n)
	case 'B':
		*pos++
		if t == "Bn" {
			return redis.NewBulkBytes(nil)
		}
		return redis.NewBulkBytes(nonNil(unhex(t[1:])))
	case 'A':
		if t == "An" || t == "A0" {
			return parseTree(toks, pos)
		}
		*pos++
		k, _ := strconv.Atoi(t[1:])
		a := redis.NewArray()
		for i := 0; i < k; i++ {
			c := toks[*pos]
			switch {
			case c[0] == 'B' && c != "Bn":
				*pos++
				a.AppendBulkBytes(nonNil(unhex(c[1:])))
			case c == "Bn":
				*pos++
				a.AppendBulkBytes(nil)
			case c[0] == 'I':
				*pos++
				n, _ := strconv.ParseInt(c[1:], 10, 64)
				a.AppendInt(n)
			default:
				a.Append(buildTree(toks, pos))
			}
		}
		return a
	}
	return parseTree(toks, pos)
}

// K:<name hex>,<arg>... : redis.NewCommand(name, args...) with arg = s<hex> (string) | b<hex> ([]byte) | n (nil) | i<dec> (int64)
func buildCommand(toks []string) redis.Resp {
	var args []interface{}
	for _, t := range toks[1:] {
		switch t[0] {
		case 's':
			args = append(args, string(unhex(t[1:])))
		case 'b':
			args = append(args, nonNil(unhex(t[1:])))
		case 'n':
			args = append(args, nil)
		case 'i':
			n, _ := strconv.ParseInt(t[1:], 10, 64)
			args = append(args, n)
		}
	}
	return redis.NewCommand(string(unhex(toks[0])), args...)
}

func nonNil(b []byte) []byte {
	if b == nil {
		return []byte{}
	}
	return b
}

func showTree(r redis.Resp, sb *strings.Builder) {
	if sb.Len() > 0 {
		sb.WriteByte(',')
	}
	switch x := r.(type) {
	case *redis.String:
		sb.WriteString("S" + hx(x.Value))
	case *redis.Error:
		sb.WriteString("E" + hx(x.Value))
	case *redis.Int:
		sb.WriteString("I" + strconv.FormatInt(x.Value, 10))
	case *redis.BulkBytes:
		if x.Value == nil {
			sb.WriteString("Bn")
		} else {
			sb.WriteString("B" + hx(x.Value))
		}
	case *redis.Array:
		if x.Value == nil {
			sb.WriteString("An")
		} else {
			sb.WriteString("A" + strconv.Itoa(len(x.Value)))
			for _, e := range x.Value {
				showTree(e, sb)
			}
		}
	default:
		sb.WriteString("?")
	}
}

// a reader that returns at most n bytes per Read
type chunkReader struct {
	data []byte
	n    int
}

func (c *chunkReader) Read(p []byte) (int, error) {
	if len(c.data) == 0 {
		return 0, io.EOF
	}
	k := c.n
	if k > len(p) {
		k = len(p)
	}
	if k > len(c.data) {
		k = len(c.data)
	}
	copy(p, c.data[:k])
	c.data = c.data[k:]
	return k, nil
}

// ops: stream <bufsize> <chunk> <item>...   item = V:<tree> (struct literals) | C:<tree> (constructors) | K:<command> (NewCommand) | R:<hex>
//      itos <int>
func probeC10(c []string, out *bufio.Writer) {
	switch c[1] {
	case "itos":
		n, _ := strconv.ParseInt(c[2], 10, 64)
		fmt.Fprintf(out, "%s %s\n", c[0], hx([]byte(redis.VerifItos(n))))
	case "stream":
		bufsize, _ := strconv.Atoi(c[2])
		chunk, _ := strconv.Atoi(c[3])
		var stream []byte
		var encs []string
		for _, it := range c[4:] {
			if strings.HasPrefix(it, "V:") || strings.HasPrefix(it, "C:") || strings.HasPrefix(it, "K:") {
				pos := 0
				var r redis.Resp
				switch it[0] {
				case 'V':
					r = parseTree(strings.Split(it[2:], ","), &pos)
				case 'C':
					r = buildTree(strings.Split(it[2:], ","), &pos)
				default:
					r = buildCommand(strings.Split(it[2:], ","))
				}
				b, err := redis.EncodeToBytes(r)
				if err != nil {
					encs = append(encs, "err")
					continue
				}
				encs = append(encs, hx(b))
				stream = append(stream, b...)
			} else {
				stream = append(stream, unhex(it[2:])...)
			}
		}
		if len(encs) == 0 {
			encs = []string{"none"}
		}
		func() {
			defer func() {
				if r := recover(); r != nil {
					fmt.Fprintf(out, " end=panic\n")
				}
			}()
			fmt.Fprintf(out, "%s %s", c[0], strings.Join(encs, ";"))
			d := redis.NewDecoder(bufio.NewReaderSize(&chunkReader{stream, chunk}, bufsize))
			for {
				r, off, err := redis.VerifDecodeOpt(d)
				if err != nil {
					fmt.Fprintf(out, " end=err\n")
					return
				}
				var sb strings.Builder
				showTree(r, &sb)
				fmt.Fprintf(out, " %s@%d", sb.String(), off)
			}
		}()
	}
}
