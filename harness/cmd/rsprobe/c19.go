package main

import (
	"bufio"
	"bytes"
	"encoding/json"
	"fmt"
	"io"
	"os"
	"path/filepath"
	"sort"
	"strconv"
	"strings"
	"sync"
	"time"

	"github.com/alibaba/RedisShake/pkg/libs/log"
	run "github.com/alibaba/RedisShake/redis-shake"
	conf "github.com/alibaba/RedisShake/redis-shake/configure"
	"github.com/alibaba/RedisShake/redis-shake/dbSync"
	"github.com/alibaba/RedisShake/redis-shake/dbSync/slot"
	"golang.org/x/sync/semaphore"

	"rsverif/fakeredis"
	"rsverif/fakesrc"
)

func init() {
	batchProbes["C19"] = func(cases [][]string, out *bufio.Writer) {
		perChildLimit = 1 // a fresh process per scenario (syncers keep reconnecting after their source is gone)
		isolatedCases("C19", cases, 16, out, runSecrets)
		perChildLimit = 0
	}
}

type lockedBuf struct {
	mu sync.Mutex
	b  bytes.Buffer
}

func (l *lockedBuf) Write(p []byte) (int, error) {
	l.mu.Lock()
	defer l.mu.Unlock()
	return l.b.Write(p)
}
func (l *lockedBuf) Bytes() []byte {
	l.mu.Lock()
	defer l.mu.Unlock()
	return append([]byte(nil), l.b.Bytes()...)
}

// <id> sync|restore|rump|dump <srcpw hex> <tgtpw hex> <level: info|debug|error> <rdbhex> <cmdshex>
//
// Everything the tool prints (pkg/libs/log at the given level) and the status documents it
// serves are captured; the observation lists where a password occurs.
var rejectAuth bool

func runSecrets(c []string) string {
	srcpw, tgtpw := string(unhex(c[2])), string(unhex(c[3]))
	img, cmds := unhex(c[5]), unhex(c[6])
	capt := &lockedBuf{}
	var sink io.Writer = capt
	if sp := os.Getenv("RSPROBE_SIDE"); sp != "" {
		// mirrored to the side file: if the scenario ends in log.Panic (= os.Exit) the parent still gets the output
		if f, err := os.Create(sp); err == nil {
			sink = io.MultiWriter(capt, f)
		}
	}
	log.StdLog = log.New(log.NopCloser(sink), "")
	switch c[4] {
	case "debug":
		log.SetLevel(log.LEVEL_DEBUG)
	case "error":
		log.SetLevel(log.LEVEL_ERROR)
	default:
		log.SetLevel(log.LEVEL_INFO)
	}
	conf.Options.SourcePasswordRaw, conf.Options.TargetPasswordRaw = srcpw, tgtpw
	conf.Options.SourcePasswordEncoding, conf.Options.TargetPasswordEncoding = "", ""
	conf.Options.SourceAuthType, conf.Options.TargetAuthType = "auth", "auth"
	conf.Options.SourceType, conf.Options.TargetType = "standalone", "standalone"
	conf.Options.Id = "verif"
	conf.Options.Parallel = 2
	conf.Options.TargetDB = -1
	if len(c) > 7 {
		conf.Options.TargetDB, _ = strconv.Atoi(c[7])
	}
	conf.Options.KeyExists = "rewrite"
	conf.Options.TargetReplace = true
	conf.Options.TargetVersion = "5.0"
	conf.Options.BigKeyThreshold = 1 << 30
	conf.Options.ResumeFromBreakPoint = true
	conf.Options.SenderCount = 10
	conf.Options.SenderSize = 1 << 20
	conf.Options.SenderDelayChannelSize = 1000
	conf.Options.Psync = false
	conf.Options.Metric = false
	conf.Options.HttpProfile = 9320
	conf.Options.ScanKeyNumber = 50
	conf.Options.Qps = 500000
	conf.Options.FilterDBBlacklist, conf.Options.FilterDBWhitelist = nil, nil
	conf.Options.FilterKeyBlacklist, conf.Options.FilterKeyWhitelist, conf.Options.FilterSlot = nil, nil, nil

	// "<scenario>+noauth": source and target answer AUTH with an error (and serve the commands all the same)
	scen := strings.TrimSuffix(c[1], "+noauth")
	rejectAuth = scen != c[1]
	tgt, err := fakeredis.New(fakeredis.Options{RunID: "tgtrun", RejectAuth: rejectAuth})
	if err != nil {
		return "err=listen"
	}
	defer tgt.Close()
	extra := ""
	var docs [][]byte
	switch scen {
	case "sync":
		var d [][]byte
		extra, d = e2eSync(srcpw, tgtpw, img, cmds, tgt)
		docs = append(docs, d...)
	case "cluster":
		// cluster source whose shard has no reachable master: the start path re-discovers the topology,
		// gives up after the retry budget and aborts - whatever it prints on the way is in the side file
		conf.Options.SourceType = "cluster"
		node := &slot.SyncNode{Id: 0, Source: "127.0.0.1:1", Slaves: []string{"127.0.0.1:2"}, SourcePassword: srcpw,
			Target: []string{tgt.Addr()}, TargetPassword: tgtpw, SlotLeftBoundary: 0, SlotRightBoundary: 5460}
		ds := dbSync.NewDbSyncer(node, 9320, semaphore.NewWeighted(1))
		done := make(chan struct{})
		go func() { ds.Sync(); close(done) }()
		select {
		case <-done:
		case <-time.After(60 * time.Second):
		}
	case "restart":
		// a source that refuses connections: Sync() restarts itself until the failure budget is used up and aborts
		node := &slot.SyncNode{Id: 0, Source: "127.0.0.1:1", SourcePassword: srcpw, Target: []string{tgt.Addr()}, TargetPassword: tgtpw,
			SlotLeftBoundary: -1, SlotRightBoundary: -1}
		ds := dbSync.NewDbSyncer(node, 9320, semaphore.NewWeighted(1))
		go ds.Sync()
		time.Sleep(20 * time.Second)
	case "tcluster":
		// a cluster TARGET with no reachable start node: the restore path fails to open its connections and aborts
		conf.Options.TargetType = "cluster"
		done := make(chan struct{})
		go func() {
			run.VerifRestoreRDB(bufio.NewReader(bytes.NewReader(img)), []string{"127.0.0.1:1"}, int64(len(img)))
			close(done)
		}()
		select {
		case <-done:
		case <-time.After(30 * time.Second):
		}
	case "restore":
		run.VerifRestoreRDB(bufio.NewReader(bytes.NewReader(img)), []string{tgt.Addr()}, int64(len(img)))
	case "dump":
		hdr := fmt.Sprintf("$%d\r\n", len(img))
		srv := &fakesrc.Server{Rdb: img, RejectAuth: rejectAuth, Conns: []fakesrc.Script{{Hdr: []byte(hdr), Acts: []string{fmt.Sprintf("S%d", len(hdr)+len(img))}}}}
		addr, _ := srv.Listen()
		defer srv.Close()
		dir, _ := os.MkdirTemp("", "rsprobe-c19")
		defer os.RemoveAll(dir)
		run.VerifDump(addr, filepath.Join(dir, "out.rdb"))
	case "rump":
		src, _ := fakeredis.New(fakeredis.Options{ScanPages: map[int][][]string{0: {{"k1", "k2"}}}, RejectAuth: rejectAuth})
		defer src.Close()
		src.DBs[0] = map[string]*fakeredis.Val{"k1": {Kind: "dump", S: img}, "k2": {Kind: "dump", S: img}}
		done := make(chan struct{})
		go func() { run.VerifRumpExec(src.Addr(), []string{tgt.Addr()}); close(done) }()
		select {
		case <-done:
		case <-time.After(20 * time.Second):
		}
	}
	j, _ := json.Marshal(conf.GetSafeOptions())
	docs = append(docs, j)
	// did the target see the password? (the run really used it)
	tgtauth := 0
	tgt.Lock()
	for _, ev := range tgt.Hist {
		if strings.ToLower(string(ev.Args[0])) == "auth" {
			tgtauth++
		}
	}
	tgt.Unlock()
	logged := capt.Bytes()
	var leaks []string
	find := func(where string, data []byte) {
		for name, pw := range map[string]string{"source": srcpw, "target": tgtpw} {
			if pw == "" {
				continue
			}
			if i := bytes.Index(data, []byte(pw)); i >= 0 {
				a, b := i-60, i+len(pw)+20
				if a < 0 {
					a = 0
				}
				if b > len(data) {
					b = len(data)
				}
				leaks = append(leaks, fmt.Sprintf("%s:%s:%s", where, name, hx(data[a:b])))
			}
		}
	}
	find("log", logged)
	for i, d := range docs {
		find(fmt.Sprintf("doc%d", i), d)
	}
	lk := "-"
	if len(leaks) > 0 {
		lk = strings.Join(leaks, ",")
	}
	return fmt.Sprintf("loglines=%d logbytes=%d tgtauth=%d leaks=%s%s", bytes.Count(logged, []byte("\n")), len(logged), tgtauth, lk, extra)
}

// e2eSync runs the real start path (NewDbSyncer + Sync) against a scripted source that sends
// the RDB, half of the command stream, drops the connection, and serves the rest after the
// re-established PSYNC; returns the target's final key count, AUTHs seen by the source and
// the checkpoint fields the target holds.
func e2eSync(srcpw, tgtpw string, img, cmds []byte, tgt *fakeredis.Server) (string, [][]byte) {
		hdr := fmt.Sprintf("+FULLRESYNC 8f3ac0ffee 1000\r\n$%d\r\n", len(img))
		total := len(hdr) + len(img) + len(cmds)
		half := len(hdr) + len(img) + len(cmds)/2
		srv := &fakesrc.Server{Start: 1000, Rdb: img, Cmds: cmds, RejectAuth: rejectAuth,
			Conns: []fakesrc.Script{
				{Hdr: []byte(hdr), Acts: []string{fmt.Sprintf("S%d", half), "M", "W1300", "D"}},
				{Hdr: []byte("+CONTINUE\r\n"), Acts: []string{fmt.Sprintf("S%d", 11+total-half), "W1500"}},
			}}
		addr, err := srv.Listen()
		if err != nil {
			return "err=listen", nil
		}
		defer srv.Close()
		node := &slot.SyncNode{Id: 0, Source: addr, SourcePassword: srcpw, Target: []string{tgt.Addr()}, TargetPassword: tgtpw,
			SlotLeftBoundary: -1, SlotRightBoundary: -1}
		ds := dbSync.NewDbSyncer(node, 9320, semaphore.NewWeighted(1))
		go ds.Sync()
		select {
		case <-srv.Done:
		case <-time.After(20 * time.Second):
		}
		time.Sleep(1500 * time.Millisecond)
		j, _ := json.Marshal(ds.GetExtraInfo())
		docs := [][]byte{j, []byte(fmt.Sprintf("%v", ds.GetExtraInfo()))}
		// the checkpoint the target holds at the end (C08: exact stream positions)
		tgt.Lock()
		var ck []string
		for n, db := range tgt.DBs {
			for k, v := range db {
				if strings.HasPrefix(k, "redis-shake-checkpoint") {
					for _, kv := range v.H {
						ck = append(ck, fmt.Sprintf("%d/%s=%s", n, hx(kv.K), hx(kv.V)))
					}
				}
			}
		}
		nkeys := 0
		var tk []string
		for n, db := range tgt.DBs {
			nkeys += len(db)
			for k := range db {
				tk = append(tk, fmt.Sprintf("%d/%s", n, hx([]byte(k))))
			}
		}
		sort.Strings(tk)
		tgt.Unlock()
		nauth := 0
		var ps []string
		for _, e := range srv.Events() {
			if e.Kind == "auth" {
				nauth++
			}
			if e.Kind == "psync" {
				ps = append(ps, fmt.Sprintf("%s:%d", hx([]byte(e.Runid)), e.Val))
			}
		}
		sort.Strings(ck)
		return fmt.Sprintf(" keys=%d srcauth=%d psyncs=%s tkeys=%s ckpt=%s", nkeys, nauth, strings.Join(ps, ","), strings.Join(tk, ","), strings.Join(ck, ",")), docs
}
