// rsprobe runs the RedisShake implementation (built from /repo/src with -tags verif) on the
// cases written by the driver and prints one observation line per case.
//
//	rsprobe <property> <cases.txt> <obs.txt>
//
// Wire format: one case per line, fields separated by single spaces; byte strings are
// lowercase hex ("-" for the empty string), numbers decimal.  The first field is the
// case id, the second the operation.  Observation lines start with the same id.
package main

import (
	"bufio"
	"io"
	"encoding/hex"
	"fmt"
	"os"
	"strings"

	"github.com/alibaba/RedisShake/pkg/libs/log"
)

type probe func(c []string, out *bufio.Writer)

var probes = map[string]probe{}

// batch probes receive all cases at once (they run cases concurrently and print in order)
var batchProbes = map[string]func(cases [][]string, out *bufio.Writer){}

func unhex(s string) []byte {
	if s == "-" {
		return nil
	}
	b, err := hex.DecodeString(s)
	if err != nil {
		panic("bad hex field: " + s)
	}
	return b
}

func hx(b []byte) string {
	if len(b) == 0 {
		return "-"
	}
	return hex.EncodeToString(b)
}

func main() {
	if len(os.Args) < 4 {
		fmt.Fprintln(os.Stderr, "usage: rsprobe <property> <cases> <obs>")
		os.Exit(2)
	}
	// the tool logs through pkg/libs/log: silence it (C19 installs its own capturing logger)
	log.StdLog = log.New(log.NopCloser(io.Discard), "")
	log.SetLevel(log.LEVEL_NONE)
	p, ok := probes[os.Args[1]]
	bp, okb := batchProbes[os.Args[1]]
	if !ok && !okb {
		fmt.Fprintln(os.Stderr, "rsprobe: unknown property", os.Args[1])
		os.Exit(2)
	}
	in, err := os.Open(os.Args[2])
	if err != nil {
		fmt.Fprintln(os.Stderr, err)
		os.Exit(2)
	}
	outf, err := os.Create(os.Args[3])
	if err != nil {
		fmt.Fprintln(os.Stderr, err)
		os.Exit(2)
	}
	out := bufio.NewWriterSize(outf, 1<<20)
	sc := bufio.NewScanner(in)
	sc.Buffer(make([]byte, 1<<20), 1<<30)
	var all [][]string
	for sc.Scan() {
		line := sc.Text()
		if line == "" {
			continue
		}
		if okb {
			all = append(all, strings.Split(line, " "))
		} else {
			p(strings.Split(line, " "), out)
		}
	}
	if okb {
		bp(all, out)
	}
	out.Flush()
	outf.Close()
}
