package main

import (
	"bufio"
	"encoding/hex"
	"fmt"
	"os"
	"os/exec"
	"path/filepath"
	"strings"
	"sync"
)

// payload byte i of the deterministic test payload with the given seed (same formula in the driver)
func payByte(seed, i int) byte {
	return byte((seed*131 + i*7 + (i>>8)*13 + (i >> 16)) & 255)
}

func payload(seed, n int) []byte {
	b := make([]byte, n)
	for i := range b {
		b[i] = payByte(seed, i)
	}
	return b
}

// FNV-1a 64 over the data, printed in hex by callers
func fnv64(b []byte) uint64 {
	h := uint64(14695981039346656037)
	for _, c := range b {
		h ^= uint64(c)
		h *= 1099511628211
	}
	return h
}

// runs f over all cases with `workers` goroutines, writes the returned lines in input order
func parallelCases(cases [][]string, workers int, out *bufio.Writer, f func(c []string) string) {
	res := make([]string, len(cases))
	var wg sync.WaitGroup
	ch := make(chan int)
	for w := 0; w < workers; w++ {
		wg.Add(1)
		go func() {
			defer wg.Done()
			for i := range ch {
				res[i] = f(cases[i])
			}
		}()
	}
	for i := range cases {
		ch <- i
	}
	close(ch)
	wg.Wait()
	for _, r := range res {
		out.WriteString(r)
		out.WriteString("\n")
	}
}

// isolatedCases runs f over the cases in child processes (the tool aborts with os.Exit on many
// error paths): when a child dies the case it was running is reported as "abort=<exit code>"
// and a new child continues with the rest.  conf.Options is global, so a child runs its cases
// one after the other; `workers` children run side by side.
// perChildLimit > 0: a child process handles at most that many cases (1 = a fresh process per case: nothing a
// case leaks - goroutines retrying connections, global configuration - can reach the next one)
var perChildLimit = 0

func isolatedCases(prop string, cases [][]string, workers int, out *bufio.Writer, f func(c []string) string) {
	if os.Getenv("RSPROBE_CHILD") == "1" {
		for _, c := range cases {
			out.WriteString(c[0] + " " + f(c) + "\n")
			out.Flush()
		}
		return
	}
	res := make([]string, len(cases))
	var wg sync.WaitGroup
	tmp, _ := os.MkdirTemp("", "rsprobe-iso")
	defer os.RemoveAll(tmp)
	for w := 0; w < workers; w++ {
		wg.Add(1)
		go func(w int) {
			defer wg.Done()
			var idx []int
			for i := w; i < len(cases); i += workers {
				idx = append(idx, i)
			}
			round := 0
			for len(idx) > 0 {
				round++
				cf := filepath.Join(tmp, fmt.Sprintf("c-%d-%d.txt", w, round))
				of := filepath.Join(tmp, fmt.Sprintf("o-%d-%d.txt", w, round))
				batch := idx
				if perChildLimit > 0 && len(batch) > perChildLimit {
					batch = batch[:perChildLimit]
				}
				var b strings.Builder
				for _, i := range batch {
					b.WriteString(strings.Join(cases[i], " "))
					b.WriteString("\n")
				}
				os.WriteFile(cf, []byte(b.String()), 0o644)
				cmd := exec.Command(os.Args[0], prop, cf, of)
				side := filepath.Join(tmp, fmt.Sprintf("side-%d-%d", w, round))
				cmd.Env = append(os.Environ(), "RSPROBE_CHILD=1", "RSPROBE_SIDE="+side)
				err := cmd.Run()
				data, _ := os.ReadFile(of)
				done := 0
				for _, line := range strings.Split(string(data), "\n") {
					if line == "" || done >= len(batch) {
						continue
					}
					sp := strings.SplitN(line, " ", 2)
					if sp[0] != cases[idx[done]][0] || len(sp) < 2 {
						continue
					}
					res[idx[done]] = sp[1]
					done++
				}
				if done < len(batch) {
					code := -1
					if ee, ok := err.(*exec.ExitError); ok {
						code = ee.ExitCode()
					}
					res[idx[done]] = fmt.Sprintf("abort=%d", code)
					// what the dying case left in its side file (a probe may mirror its captured output there)
					if data, e := os.ReadFile(side); e == nil && len(data) > 0 {
						if len(data) > 1<<16 {
							data = data[len(data)-(1<<16):]
						}
						res[idx[done]] += " side=" + hex.EncodeToString(data)
					}
					done++
				}
				idx = idx[done:]
			}
		}(w)
	}
	wg.Wait()
	for i, r := range res {
		out.WriteString(cases[i][0] + " " + r + "\n")
	}
}
