package main

import (
	"bufio"
	"sync"
)

// payload byte i of the deterministic test payload with the given seed (same formula in the driver)
func payByte(seed, i int) byte {
	return byte((seed*131 + i*7 + (i>>8)*13 + (i >> 16)) & 255)
}

func payload(seed, n int) []byte {
	b := make([]byte, n)
	for i := range b {
		b[i] = payByte(seed, i)
	}
	return b
}

// FNV-1a 64 over the data, printed in hex by callers
func fnv64(b []byte) uint64 {
	h := uint64(14695981039346656037)
	for _, c := range b {
		h ^= uint64(c)
		h *= 1099511628211
	}
	return h
}

// runs f over all cases with `workers` goroutines, writes the returned lines in input order
func parallelCases(cases [][]string, workers int, out *bufio.Writer, f func(c []string) string) {
	res := make([]string, len(cases))
	var wg sync.WaitGroup
	ch := make(chan int)
	for w := 0; w < workers; w++ {
		wg.Add(1)
		go func() {
			defer wg.Done()
			for i := range ch {
				res[i] = f(cases[i])
			}
		}()
	}
	for i := range cases {
		ch <- i
	}
	close(ch)
	wg.Wait()
	for _, r := range res {
		out.WriteString(r)
		out.WriteString("\n")
	}
}
