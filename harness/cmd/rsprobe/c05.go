package main

import (
	"bufio"
	"fmt"
	"io"
	"os"
	"path/filepath"
	"strconv"
	"strings"
	"sync"
	"time"

	run "github.com/alibaba/RedisShake/redis-shake"
	conf "github.com/alibaba/RedisShake/redis-shake/configure"
	"github.com/alibaba/RedisShake/redis-shake/dbSync"

	"rsverif/fakesrc"
)

func init() {
	batchProbes["C05"] = func(cases [][]string, out *bufio.Writer) { batchSrc("C05", cases, out) }
	batchProbes["C08"] = func(cases [][]string, out *bufio.Writer) { batchSrc("C08", cases, out) }
}

// <id> psync|dump <start> <nrdb> <seedR> <ncmd> <seedC> <chunk>:<pause_us> <hdrhex>|<act,act,...> ...
//
// The source stream of connection 0 is hdr ++ payload(seedR, nrdb) ++ payload(seedC, ncmd);
// reconnections get their header and the command stream from the requested offset on.
func batchSrc(prop string, cases [][]string, out *bufio.Writer) {
	conf.Options.HttpProfile = 9320
	conf.Options.Metric = false
	conf.Options.Id = "verif"
	conf.Options.SourceAuthType = "auth"
	workers := 64
	var idmu sync.Mutex
	id := 5000
	tmp, _ := os.MkdirTemp("", "rsprobe-dump")
	defer os.RemoveAll(tmp)
	one := func(c []string) string {
		idmu.Lock()
		id++
		my := id
		idmu.Unlock()
		return runSrc(c, my, tmp)
	}
	if os.Getenv("RSPROBE_CHILD") == "1" {
		isolatedCases(prop, cases, 1, out, one)
		return
	}
	// the hand-off code ends in log.Panic (= os.Exit) on read errors: every case runs in a child process
	// a fresh process per case: a syncer whose source went away keeps reconnecting for ever, and the
	// ephemeral port of an earlier case's source can be handed to a later case's source
	perChildLimit = 1
	isolatedCases(prop, cases, 24, out, one)
	perChildLimit = 0
	_ = workers
}

func runSrc(c []string, id int, tmp string) string {
	if c[1] == "e2e" {
		// <id> e2e <rdbhex> <cmdshex>: the whole start path (Sync) against the scripted source and fakeredis
		tdb := "-1"
		if len(c) > 4 {
			tdb = c[4]
		}
		return "e2e " + runSecrets([]string{c[0], "sync", "-", "-", "error", c[2], c[3], tdb})
	}
	start, _ := strconv.ParseInt(c[2], 10, 64)
	nrdb, _ := strconv.Atoi(c[3])
	seedR, _ := strconv.Atoi(c[4])
	ncmd, _ := strconv.Atoi(c[5])
	seedC, _ := strconv.Atoi(c[6])
	rp := strings.SplitN(c[7], ":", 2)
	chunk, _ := strconv.Atoi(rp[0])
	pauseUs, _ := strconv.Atoi(rp[1])
	srv := &fakesrc.Server{Start: start, Rdb: payload(seedR, nrdb), Cmds: payload(seedC, ncmd)}
	for _, cs := range c[8:] {
		p := strings.SplitN(cs, "|", 2)
		srv.Conns = append(srv.Conns, fakesrc.Script{Hdr: unhex(p[0]), Acts: strings.Split(p[1], ",")})
	}
	addr, err := srv.Listen()
	if err != nil {
		return "err=listen"
	}
	defer srv.Close()

	if c[1] == "dump" {
		outp := filepath.Join(tmp, fmt.Sprintf("dump-%d.rdb", id))
		type dres struct {
			r *bufio.Reader
			n int64
		}
		dch := make(chan dres, 1)
		go func() { r, n := run.VerifDump(addr, outp); dch <- dres{r, n} }()
		var r *bufio.Reader
		var n int64
		select {
		case d := <-dch:
			r, n = d.r, d.n
		case <-time.After(15 * time.Second):
			data, _ := os.ReadFile(outp)
			return fmt.Sprintf("dump err=timeout filelen=%d filefnv=%x", len(data), fnv64(data))
		}
		data, _ := os.ReadFile(outp)
		os.Remove(outp)
		left, _ := r.Peek(r.Buffered())
		return fmt.Sprintf("dump nsize=%d filelen=%d filefnv=%x left=%d leftfnv=%x", n, len(data), fnv64(data), len(left), fnv64(left))
	}

	ds := dbSync.VerifNew(id, addr, false, 0, -1, "?", "redis-shake-checkpoint", 16)
	var fullOnce sync.Once
	srv.OnFull = func() { fullOnce.Do(ds.VerifCloseWaitFull) }
	r, nsize, full, runid, err := ds.VerifPSync(addr, "?")
	if err != nil {
		return "err=" + hx([]byte(err.Error()))
	}
	off0 := ds.VerifSourceOffset()
	rdb := make([]byte, nsize)
	if nsize > int64(nrdb)+(1<<20) {
		return fmt.Sprintf("psync runid=%s off=%d nsize=%d err=size", hx([]byte(runid)), off0, nsize)
	}
	rdbDone := make(chan error, 1)
	go func() { _, e := io.ReadFull(r, rdb); rdbDone <- e }()
	select {
	case e := <-rdbDone:
		if e != nil {
			return fmt.Sprintf("psync runid=%s off=%d nsize=%d err=rdbread", hx([]byte(runid)), off0, nsize)
		}
	case <-time.After(20 * time.Second):
		return fmt.Sprintf("psync runid=%s off=%d nsize=%d err=rdbtimeout", hx([]byte(runid)), off0, nsize)
	}
	// the command stream: read with the case's reader pattern until the script is over and
	// nothing more arrives
	var mu sync.Mutex
	var stream []byte
	last := time.Now()
	go func() {
		buf := make([]byte, chunk)
		for {
			n, e := r.Read(buf)
			mu.Lock()
			stream = append(stream, buf[:n]...)
			last = time.Now()
			mu.Unlock()
			if e != nil {
				return
			}
			if pauseUs > 0 {
				time.Sleep(time.Duration(pauseUs) * time.Microsecond)
			}
		}
	}()
	select {
	case <-srv.Done:
	case <-time.After(60 * time.Second):
	}
	deadline := time.Now().Add(10 * time.Second)
	for time.Now().Before(deadline) {
		mu.Lock()
		n := len(stream)
		idle := time.Since(last)
		mu.Unlock()
		if int64(n) >= srv.Sent() && idle > 150*time.Millisecond {
			break
		}
		time.Sleep(20 * time.Millisecond)
	}
	offEnd := ds.VerifSourceOffset()
	mu.Lock()
	got := append([]byte(nil), stream...)
	mu.Unlock()
	var evs []string
	for _, e := range srv.Events() {
		switch e.Kind {
		case "ack":
			evs = append(evs, fmt.Sprintf("ack:%d:%d:%d:%d:%d", e.Conn, e.Val, e.Lo, e.Hi, e.Full))
		case "psync":
			evs = append(evs, fmt.Sprintf("psync:%d:%s:%d:%d", e.Conn, hx([]byte(e.Runid)), e.Val, e.Hi))
		case "sync":
			evs = append(evs, fmt.Sprintf("sync:%d", e.Conn))
		default:
			evs = append(evs, fmt.Sprintf("other:%d:%s", e.Conn, hx([]byte(e.Text))))
		}
	}
	for _, b := range srv.Bad {
		evs = append(evs, "bad:"+hx([]byte(b)))
	}
	if len(evs) == 0 {
		evs = []string{"-"}
	}
	diff := -1
	exp := srv.Cmds[:srv.Sent()]
	for i := 0; i < len(got) || i < len(exp); i++ {
		if i >= len(got) || i >= len(exp) || got[i] != exp[i] {
			diff = i
			break
		}
	}
	fl := 0
	if full {
		fl = 1
	}
	return fmt.Sprintf("psync runid=%s off=%d offend=%d nsize=%d full=%d rdbfnv=%x streamlen=%d streamfnv=%x diff=%d sent=%d ev=%s",
		hx([]byte(runid)), off0, offEnd, nsize, fl, fnv64(rdb), len(got), fnv64(got), diff, srv.Sent(), strings.Join(evs, ","))
}
