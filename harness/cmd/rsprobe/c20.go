package main

import (
	"bufio"
	"errors"
	"fmt"
	"strconv"
	"strings"
	"sync"

	"github.com/alibaba/RedisShake/redis-shake/dbSync/slot"
	"github.com/alibaba/RedisShake/redis-shake/dbSync/slotsupervisor"
	redigo "github.com/garyburd/redigo/redis"
)

func init() { batchProbes["C20"] = batchC20 }

func batchC20(cases [][]string, out *bufio.Writer) {
	parallelCases(cases, 512, out, runC20)
}

type fakeInfoConn struct{ outcome string }

func (c *fakeInfoConn) Close() error { return nil }
func (c *fakeInfoConn) Err() error   { return nil }
func (c *fakeInfoConn) Do(cmd string, args ...interface{}) (interface{}, error) {
	if c.outcome == "E" {
		return nil, errors.New("ERR scripted command error")
	}
	return unhexOrEmpty(c.outcome[1:]), nil
}
func (c *fakeInfoConn) Send(cmd string, args ...interface{}) error { return nil }
func (c *fakeInfoConn) Flush() error                               { return nil }
func (c *fakeInfoConn) Receive() (interface{}, error)              { return nil, errors.New("unused") }

func unhexOrEmpty(s string) []byte {
	b := unhex(s)
	if b == nil {
		return []byte{}
	}
	return b
}

// sup <maxr> <host,host,...> <round|round|...>   round = outcome,outcome,... (per host, in order): C | E | R<hex>
// rounds beyond the script repeat the last round
func runC20(c []string) (res0 string) {
	defer func() {
		if r := recover(); r != nil {
			res0 = fmt.Sprintf("%s panic %s", c[0], hx([]byte(fmt.Sprint(r))))
		}
	}()
	maxr, _ := strconv.Atoi(c[2])
	var hosts []string
	for _, h := range strings.Split(c[3], ",") {
		hosts = append(hosts, string(unhex(h)))
	}
	var rounds [][]string
	for _, r := range strings.Split(c[4], "|") {
		rounds = append(rounds, strings.Split(r, ","))
	}
	var mu sync.Mutex
	calls := map[string]int{}
	total := 0
	factory := func(host, password string, tls bool) (redigo.Conn, error) {
		mu.Lock()
		round := calls[host]
		calls[host]++
		total++
		mu.Unlock()
		if round >= len(rounds) {
			round = len(rounds) - 1
		}
		idx := -1
		for i, h := range hosts {
			if h == host {
				idx = i
				break
			}
		}
		if idx < 0 {
			return nil, errors.New("unknown host " + host)
		}
		o := rounds[round][idx]
		if o == "C" {
			return nil, errors.New("scripted connect error")
		}
		return &fakeInfoConn{o}, nil
	}
	node := slot.SyncNode{Source: hosts[0], Slaves: hosts[1:], SourcePassword: "pw"}
	sup := slotsupervisor.VerifNew(node, factory, maxr)
	res, err := sup.GetSlotState()
	if err != nil {
		return fmt.Sprintf("%s err %d", c[0], total)
	}
	if res == nil {
		// neither a node nor an error: the caller would go on with a nil topology
		return fmt.Sprintf("%s nilres %d", c[0], total)
	}
	var sl []string
	for _, s := range res.Slaves {
		sl = append(sl, hx([]byte(s)))
	}
	if len(sl) == 0 {
		sl = []string{"none"}
	}
	return fmt.Sprintf("%s ok %d %s %s", c[0], total, hx([]byte(res.Source)), strings.Join(sl, ","))
}
