package main

import (
	"bufio"
	"bytes"
	"fmt"
	"os"
	"sort"
	"strconv"
	"strings"

	run "github.com/alibaba/RedisShake/redis-shake"
	conf "github.com/alibaba/RedisShake/redis-shake/configure"
	"github.com/alibaba/RedisShake/redis-shake/dbSync"

	"rsverif/fakeredis"
)

func init() {
	f := func(prop string) func(cases [][]string, out *bufio.Writer) {
		return func(cases [][]string, out *bufio.Writer) { isolatedCases(prop, cases, 16, out, runPool) }
	}
	batchProbes["C07"] = f("C07")
	// C06 pushes one population through all four data paths
	batchProbes["C06"] = func(cases [][]string, out *bufio.Writer) {
		dispatch := func(c []string) string {
			if c[1] == "rump" {
				return runRump(c)
			}
			return runPool(c)
		}
		if os.Getenv("RSPROBE_CHILD") == "1" {
			isolatedCases("C06", cases, 1, out, dispatch)
			return
		}
		var iso, inc [][]string
		for _, c := range cases {
			if c[1] == "inc" {
				inc = append(inc, c)
			} else {
				iso = append(iso, c)
			}
		}
		isolatedCases("C06", iso, 24, out, dispatch)
		batchIncr(inc, out)
	}
}

func listOf(s string) []string {
	if s == "-" || s == "" {
		return nil
	}
	var out []string
	for _, h := range strings.Split(s, ",") {
		out = append(out, string(unhex(h)))
	}
	return out
}

// <id> sync|restore <parallel>|<tdb>|<policy>|<dbblack>|<dbwhite>|<keyblack>|<keywhite>|<slots>|<filterlua>|<threshold> <rdbhex> <failkeyhex|->
func setPoolConf(cfg string) {
	f := strings.Split(cfg, "|")
	conf.Options.Parallel, _ = strconv.Atoi(f[0])
	conf.Options.TargetDB, _ = strconv.Atoi(f[1])
	conf.Options.KeyExists = f[2]
	conf.Options.FilterDBBlacklist = listOf(f[3])
	conf.Options.FilterDBWhitelist = listOf(f[4])
	conf.Options.FilterKeyBlacklist = listOf(f[5])
	conf.Options.FilterKeyWhitelist = listOf(f[6])
	conf.Options.FilterSlot = listOf(f[7])
	conf.Options.FilterLua = f[8] == "1"
	conf.Options.BigKeyThreshold, _ = strconv.ParseUint(f[9], 10, 64)
	conf.Options.TargetReplace = true
	conf.Options.TargetVersion = "5.0"
	conf.Options.Metric = true
	conf.Options.TargetType = "standalone"
	conf.Options.ReplaceHashTag = false
	conf.Options.ShiftTime = 0
}

func poolState(srv *fakeredis.Server) string {
	var out []string
	var dbs []int
	for n := range srv.DBs {
		dbs = append(dbs, n)
	}
	sort.Ints(dbs)
	for _, n := range dbs {
		var ks []string
		for k := range srv.DBs[n] {
			ks = append(ks, k)
		}
		sort.Strings(ks)
		for _, k := range ks {
			v := srv.DBs[n][k]
			var content []byte
			if v.Kind == "dump" || v.Kind == "string" {
				content = v.S
			} else {
				content = []byte(dumpVal(v))
			}
			out = append(out, fmt.Sprintf("%d:%s:%s:%x", n, hx([]byte(k)), v.Kind, fnv64(content)))
		}
	}
	if len(out) == 0 {
		return "-"
	}
	return strings.Join(out, ";")
}

func runPool(c []string) (res string) {
	setPoolConf(c[2])
	img := unhex(c[3])
	opts := fakeredis.Options{}
	if c[4] != "-" {
		opts.FailKeys = map[string]string{string(unhex(c[4])): "ERR injected failure"}
	}
	srv, err := fakeredis.New(opts)
	if err != nil {
		return "err=listen"
	}
	defer srv.Close()
	defer func() {
		if r := recover(); r != nil {
			res = "panic=" + hx([]byte(fmt.Sprint(r)))
		}
	}()
	rd := bufio.NewReaderSize(bytes.NewReader(img), 4096)
	ret := "ok"
	switch c[1] {
	case "sync":
		ds := dbSync.VerifNew(7001, "src:6379", false, 0, 0, "rid", "redis-shake-checkpoint", 16)
		if err := ds.VerifSyncRDB(rd, []string{srv.Addr()}, int64(len(img))); err != nil {
			ret = "err"
		}
	case "restore":
		run.VerifRestoreRDB(rd, []string{srv.Addr()}, int64(len(img)))
	}
	// every RESTORE / element command per (connection database, key); connections used
	srv.Lock()
	defer srv.Unlock()
	counts := map[string]int{}
	conns := map[int]bool{}
	curdb := map[int]int{}
	seq := map[int][]string{}
	for _, ev := range srv.Hist {
		conns[ev.Conn] = true
		name := strings.ToLower(string(ev.Args[0]))
		if name == "select" && len(ev.Args) > 1 {
			curdb[ev.Conn], _ = strconv.Atoi(string(ev.Args[1]))
		}
		if name == "restore" && len(ev.Args) > 1 {
			counts[string(ev.Args[1])]++
			seq[ev.Conn] = append(seq[ev.Conn], fmt.Sprintf("%s@%d", hx(ev.Args[1]), curdb[ev.Conn]))
		}
	}
	var ws []string
	var cids []int
	for id := range seq {
		cids = append(cids, id)
	}
	sort.Ints(cids)
	for _, id := range cids {
		ws = append(ws, fmt.Sprintf("%d=%s", id, strings.Join(seq[id], ",")))
	}
	wstr := "-"
	if len(ws) > 0 {
		wstr = strings.Join(ws, ";")
	}
	var multi []string
	for k, n := range counts {
		if n > 1 {
			multi = append(multi, fmt.Sprintf("%s*%d", hx([]byte(k)), n))
		}
	}
	sort.Strings(multi)
	m := "-"
	if len(multi) > 0 {
		m = strings.Join(multi, ",")
	}
	var scripts []string
	for _, s := range srv.Scripts {
		scripts = append(scripts, hx(s))
	}
	sc := "-"
	if len(scripts) > 0 {
		sort.Strings(scripts)
		sc = strings.Join(scripts, ",")
	}
	return fmt.Sprintf("ret=%s conns=%d multi=%s scripts=%s state=%s w=%s", ret, len(conns), m, sc, poolState(srv), wstr)
}
