package main

import (
	"bufio"
	"fmt"
	"os"
	"path/filepath"
	"strconv"
	"strings"
	"time"

	run "github.com/alibaba/RedisShake/redis-shake"
	conf "github.com/alibaba/RedisShake/redis-shake/configure"

	"rsverif/fakeredis"
)

func init() {
	batchProbes["C16"] = func(cases [][]string, out *bufio.Writer) { isolatedCases("C16", cases, 24, out, runRump) }
}

// <id> rump <tdb>|<policy>|<threshold>|<dbblack>|<dbwhite>|<keyblack>|<keywhite>|<scancount> <src> <tgt>
//
//	src = <db>:<page>;<page>.../<db>:...      page = <key>,<key>...  ("" = empty page)
//	key = <keyhex>~<payloadhex>~<pttl>~<vanish: -|dump|pttl>
//	tgt = - | <db>:<keyhex>:<kind>:<content>:<ttl>;...
func runRump(c []string) (res string) {
	f := strings.Split(c[2], "|")
	conf.Options.TargetDB, _ = strconv.Atoi(f[0])
	conf.Options.KeyExists = f[1]
	conf.Options.BigKeyThreshold, _ = strconv.ParseUint(f[2], 10, 64)
	conf.Options.FilterDBBlacklist = listOf(f[3])
	conf.Options.FilterDBWhitelist = listOf(f[4])
	conf.Options.FilterKeyBlacklist = listOf(f[5])
	conf.Options.FilterKeyWhitelist = listOf(f[6])
	n, _ := strconv.Atoi(f[7])
	conf.Options.ScanKeyNumber = uint32(n)
	conf.Options.ScanSpecialCloud = ""
	conf.Options.ScanKeyFile = ""
	conf.Options.Qps = 500000
	conf.Options.Metric = true
	conf.Options.TargetType = "standalone"

	so := fakeredis.Options{ScanPages: map[int][][]string{}, Vanish: map[string]string{}}
	type kd struct {
		db      int
		key     string
		payload []byte
		pttl    int64
	}
	var keys []kd
	if c[3] != "-" {
		for _, ds := range strings.Split(c[3], "/") {
			p := strings.SplitN(ds, ":", 2)
			db, _ := strconv.Atoi(p[0])
			var pages [][]string
			for _, pg := range strings.Split(p[1], ";") {
				var page []string
				if pg != "" {
					for _, ks := range strings.Split(pg, ",") {
						q := strings.Split(ks, "~")
						key := string(unhex(q[0]))
						pttl, _ := strconv.ParseInt(q[2], 10, 64)
						keys = append(keys, kd{db, key, unhex(q[1]), pttl})
						if q[3] != "-" {
							so.Vanish[key] = q[3]
						}
						page = append(page, key)
					}
				}
				pages = append(pages, page)
			}
			so.ScanPages[db] = pages
		}
	}
	// optional 6th field: kf=<keyhex,keyhex,...> - a key file drives the scan instead of SCAN
	if len(c) > 5 && strings.HasPrefix(c[5], "kf=") {
		dir, _ := os.MkdirTemp("", "rsprobe-kf")
		defer os.RemoveAll(dir)
		var lines []string
		if c[5] != "kf=" {
			for _, h := range strings.Split(c[5][3:], ",") {
				if h == "-" {
					lines = append(lines, "") // a blank line
				} else {
					lines = append(lines, string(unhex(h)))
				}
			}
		}
		kf := filepath.Join(dir, "keys.txt")
		body := strings.Join(lines, "\n")
		if len(lines) > 0 {
			body += "\n"
		}
		os.WriteFile(kf, []byte(body), 0o644)
		conf.Options.ScanKeyFile = kf
	}
	src, err := fakeredis.New(so)
	if err != nil {
		return "err=listen"
	}
	defer src.Close()
	for _, k := range keys {
		if src.DBs[k.db] == nil {
			src.DBs[k.db] = map[string]*fakeredis.Val{}
		}
		ttl := k.pttl
		if ttl < 0 {
			ttl = 0
		}
		if k.pttl == -2 && so.Vanish[k.key] == "" {
			continue // never existed at DUMP time: scanned, then gone
		}
		src.DBs[k.db][k.key] = &fakeredis.Val{Kind: "dump", S: k.payload, TTL: ttl}
	}
	tgt, err := fakeredis.New(fakeredis.Options{})
	if err != nil {
		return "err=listen"
	}
	defer tgt.Close()
	if c[4] != "-" {
		for _, e := range strings.Split(c[4], ";") {
			p := strings.Split(e, ":")
			db, _ := strconv.Atoi(p[0])
			ttl, _ := strconv.ParseInt(p[4], 10, 64)
			if tgt.DBs[db] == nil {
				tgt.DBs[db] = map[string]*fakeredis.Val{}
			}
			tgt.DBs[db][string(unhex(p[1]))] = parseVal(p[2], p[3], ttl)
		}
	}
	defer func() {
		if r := recover(); r != nil {
			res = "panic=" + hx([]byte(fmt.Sprint(r)))
		}
	}()
	done := make(chan struct{})
	go func() {
		run.VerifRumpExec(src.Addr(), []string{tgt.Addr()})
		close(done)
	}()
	select {
	case <-done:
	case <-time.After(30 * time.Second):
		return "ret=timeout"
	}
	// the receiver may still be reading replies that were flushed: the commands are executed by then
	tgt.Lock()
	defer tgt.Unlock()
	return "ret=ok state=" + dumpState(tgt)
}
