package main

import (
	"bufio"
	"bytes"
	"encoding/binary"
	"fmt"
	"strconv"
	"strings"

	cuprdb "github.com/alibaba/RedisShake/pkg/libs/cupcake/rdb"
	"github.com/alibaba/RedisShake/pkg/rdb"
	"github.com/alibaba/RedisShake/pkg/rdb/digest"
)

func rdbLen(b *bytes.Buffer, n int) {
	switch {
	case n < 64:
		b.WriteByte(byte(n))
	case n < 16384:
		b.WriteByte(byte(64 + n/256))
		b.WriteByte(byte(n))
	default:
		b.WriteByte(0x80)
		var x [4]byte
		binary.BigEndian.PutUint32(x[:], uint32(n))
		b.Write(x[:])
	}
}

func bigHashSize(base, i int) int { return base + (i*7919)%1000 }

// bighash <nfields> <base> <exp> <idle> <freq> <seed> <chunk>: a version-9 file with one hash in db 3
// (field "f%06d", value payload(seed+i, base + (i*7919)%1000)) followed by the string key "after"
func bigHashImage(nf, base int, exp uint64, idle, freq, seed int) []byte {
	var b bytes.Buffer
	b.WriteString("REDIS0009")
	b.Write([]byte{0xfe, 0x03})
	if exp > 0 {
		b.WriteByte(0xfc)
		var x [8]byte
		binary.LittleEndian.PutUint64(x[:], exp)
		b.Write(x[:])
	}
	if idle > 0 {
		b.WriteByte(0xf8)
		rdbLen(&b, idle)
	}
	if freq > 0 {
		b.Write([]byte{0xf9, byte(freq)})
	}
	b.WriteByte(4)
	rdbLen(&b, 4)
	b.WriteString("bigh")
	rdbLen(&b, nf)
	for i := 0; i < nf; i++ {
		f := fmt.Sprintf("f%06d", i)
		rdbLen(&b, len(f))
		b.WriteString(f)
		v := payload(seed+i, bigHashSize(base, i))
		rdbLen(&b, len(v))
		b.Write(v)
	}
	b.Write([]byte{0, 5})
	b.WriteString("after")
	b.Write([]byte{1, 'x'})
	b.WriteByte(0xff)
	d := digest.New()
	d.Write(b.Bytes())
	var x [8]byte
	binary.LittleEndian.PutUint64(x[:], d.Sum64())
	b.Write(x[:])
	return b.Bytes()
}

func probeBigHash(c []string, out *bufio.Writer) {
	nf, _ := strconv.Atoi(c[2])
	base, _ := strconv.Atoi(c[3])
	exp, _ := strconv.ParseUint(c[4], 10, 64)
	idle, _ := strconv.Atoi(c[5])
	freq, _ := strconv.Atoi(c[6])
	seed, _ := strconv.Atoi(c[7])
	chunk, _ := strconv.Atoi(c[8])
	img := bigHashImage(nf, base, exp, idle, freq, seed)
	var recs []string
	status := func() (st string) {
		defer func() {
			if r := recover(); r != nil {
				st = "err:panic"
			}
		}()
		var l *rdb.Loader
		if chunk <= 0 {
			l = rdb.NewLoader(bytes.NewReader(img))
		} else {
			l = rdb.NewLoader(&chunkReader{img, chunk})
		}
		if err := l.Header(); err != nil {
			return "err:header"
		}
		for {
			e, err := l.NextBinEntry()
			if err != nil {
				return "err:entry"
			}
			if e == nil {
				break
			}
			ok := 0
			if cuprdb.VerifVerifyDump(e.Value) == nil {
				ok = 1
			}
			body := e.Value
			if len(body) >= 10 {
				body = body[:len(body)-10]
			}
			recs = append(recs, fmt.Sprintf("%d:%s:%d:%d:%d:%d:%d:%d:%d:%x:%d", e.DB, hx(e.Key), e.Type, e.ExpireAt, e.IdleTime, e.Freq, e.NeedReadLen, e.RealMemberCount, len(e.Value), fnv64(body), ok))
		}
		if err := l.Footer(); err != nil {
			return "err:footer"
		}
		return "ok"
	}()
	if len(recs) == 0 {
		recs = []string{"none"}
	}
	fmt.Fprintf(out, "%s %s imglen=%d %s\n", c[0], status, len(img), strings.Join(recs, " "))
}
