package main

import (
	"bufio"
	"fmt"
	"sort"
	"strconv"
	"strings"
	"time"

	"github.com/alibaba/RedisShake/pkg/rdb"
	utils "github.com/alibaba/RedisShake/redis-shake/common"
	conf "github.com/alibaba/RedisShake/redis-shake/configure"

	"rsverif/fakeredis"
)

func init() {
	batchProbes["C02"] = func(cases [][]string, out *bufio.Writer) {
		isolatedCases("C02", cases, 16, out, runRestore)
	}
}

// <id> rs <policy>|<replace>|<threshold>|<filterlua>|<hashtag>|<maxtype>|<oldbusy>|<version>|<shift_ms> <db> <pre> <rec>...
//
//	pre = -  |  <keyhex>:<kind>:<content>:<ttl>          (content as printed by dumpState)
//	rec = <keyhex>:<type>:<valuehex>:<expire>:<idle>:<freq>:<real>:<need>
//	      expire: 0 | +<ms from now> | -<ms before now>
func parseVal(kind, content string, ttl int64) *fakeredis.Val {
	v := &fakeredis.Val{Kind: kind, TTL: ttl}
	switch kind {
	case "string":
		v.S = unhex(content)
	case "list", "set":
		if content != "_" {
			for _, h := range strings.Split(content, ",") {
				v.L = append(v.L, unhex(h))
			}
		}
	case "hash", "zset":
		if content != "_" {
			for _, p := range strings.Split(content, ",") {
				kv := strings.SplitN(p, "=", 2)
				v.H = append(v.H, fakeredis.KV{K: unhex(kv[0]), V: unhex(kv[1])})
			}
		}
	}
	return v
}

func dumpVal(v *fakeredis.Val) string {
	var parts []string
	switch v.Kind {
	case "string", "dump":
		return hx(v.S)
	case "list", "set":
		for _, e := range v.L {
			parts = append(parts, hx(e))
		}
	default:
		for _, kv := range v.H {
			parts = append(parts, hx(kv.K)+"="+hx(kv.V))
		}
	}
	if len(parts) == 0 {
		return "_"
	}
	return strings.Join(parts, ",")
}

// every key of every database: <db>:<keyhex>:<kind>:<content>:<ttl>
func dumpState(s *fakeredis.Server) string {
	var out []string
	var dbs []int
	for n := range s.DBs {
		dbs = append(dbs, n)
	}
	sort.Ints(dbs)
	for _, n := range dbs {
		var ks []string
		for k := range s.DBs[n] {
			ks = append(ks, k)
		}
		sort.Strings(ks)
		for _, k := range ks {
			v := s.DBs[n][k]
			out = append(out, fmt.Sprintf("%d:%s:%s:%s:%d", n, hx([]byte(k)), v.Kind, dumpVal(v), v.TTL))
		}
	}
	if len(out) == 0 {
		return "-"
	}
	return strings.Join(out, ";")
}

func setRestoreConf(cfg string) (fakeredis.Options, time.Duration) {
	f := strings.Split(cfg, "|")
	conf.Options.KeyExists = f[0]
	conf.Options.TargetReplace = f[1] == "1"
	conf.Options.BigKeyThreshold, _ = strconv.ParseUint(f[2], 10, 64)
	conf.Options.FilterLua = f[3] == "1"
	conf.Options.ReplaceHashTag = f[4] == "1"
	mt, _ := strconv.Atoi(f[5])
	conf.Options.TargetVersion = string(unhex(f[7]))
	ms, _ := strconv.ParseInt(f[8], 10, 64)
	conf.Options.ShiftTime = time.Duration(ms) * time.Millisecond
	conf.Options.Metric = true
	conf.Options.SourceRdbSpecialCloud = ""
	return fakeredis.Options{NoReplace: f[1] != "1", MaxDumpType: mt, OldBusyText: f[6] == "1"}, conf.Options.ShiftTime
}

func parseRecord(r string, db uint32, now int64) *rdb.BinEntry {
	f := strings.Split(r, ":")
	t, _ := strconv.Atoi(f[1])
	var exp uint64
	switch {
	case f[3] == "0":
	case f[3][0] == '+':
		d, _ := strconv.ParseInt(f[3][1:], 10, 64)
		exp = uint64(now + d)
	case f[3][0] == '-':
		d, _ := strconv.ParseInt(f[3][1:], 10, 64)
		exp = uint64(now - d)
	}
	idle, _ := strconv.ParseUint(f[4], 10, 32)
	freq, _ := strconv.ParseUint(f[5], 10, 8)
	real, _ := strconv.ParseUint(f[6], 10, 32)
	need, _ := strconv.ParseUint(f[7], 10, 8)
	return &rdb.BinEntry{DB: db, Key: unhex(f[0]), Type: byte(t), Value: unhex(f[2]), ExpireAt: exp,
		RealMemberCount: uint32(real), NeedReadLen: byte(need), IdleTime: uint32(idle), Freq: uint8(freq)}
}

func runRestore(c []string) (res string) {
	opts, shift := setRestoreConf(c[2])
	db, _ := strconv.Atoi(c[3])
	srv, err := fakeredis.New(opts)
	if err != nil {
		return "err=listen"
	}
	defer srv.Close()
	if c[4] != "-" {
		p := strings.Split(c[4], ":")
		ttl, _ := strconv.ParseInt(p[3], 10, 64)
		srv.DBs[db] = map[string]*fakeredis.Val{string(unhex(p[0])): parseVal(p[1], p[2], ttl)}
	}
	conn, err := utils.OpenRedisConn([]string{srv.Addr()}, "auth", "", false, false)
	if err != nil {
		return "err=connect"
	}
	defer conn.Close()
	defer func() {
		if r := recover(); r != nil {
			res = "panic=" + hx([]byte(fmt.Sprint(r)))
		}
	}()
	utils.SelectDB(conn, uint32(db))
	t0 := time.Now().Add(shift).UnixNano() / int64(time.Millisecond)
	outc := "ok"
	for _, r := range c[5:] {
		e := parseRecord(r, uint32(db), t0)
		if err := utils.RestoreRdbEntry(conn, e); err != nil {
			outc = "err"
			break
		}
	}
	t1 := time.Now().Add(shift).UnixNano() / int64(time.Millisecond)
	var scripts []string
	for _, s := range srv.Scripts {
		scripts = append(scripts, hx(s))
	}
	sc := "-"
	if len(scripts) > 0 {
		sc = strings.Join(scripts, ",")
	}
	var cmds []string
	last, n := "", 0
	flush := func() {
		if n > 0 {
			cmds = append(cmds, fmt.Sprintf("%s*%d", last, n))
		}
	}
	for _, ev := range srv.Hist {
		name := strings.ToLower(string(ev.Args[0]))
		if name == last {
			n++
		} else {
			flush()
			last, n = name, 1
		}
	}
	flush()
	return fmt.Sprintf("out=%s dt=%d state=%s scripts=%s cmds=%s", outc, t1-t0, dumpState(srv), sc, strings.Join(cmds, ","))
}
