package main

import (
	"bufio"
	"fmt"
	"strconv"

	utils "github.com/alibaba/RedisShake/redis-shake/common"
	"github.com/alibaba/RedisShake/redis-shake/dbSync/latencymonitor"
)

func init() { probes["C15"] = probeC15 }

// ops: slot <key> | chose <l> <r> | findkey <l> <r>
func probeC15(c []string, out *bufio.Writer) {
	switch c[1] {
	case "slot":
		k := string(unhex(c[2]))
		fmt.Fprintf(out, "%s %d %d %d\n", c[0], utils.KeyToSlot(k), utils.VerifCrc16(k), latencymonitor.VerifCrc16(k))
	case "chose":
		l, _ := strconv.Atoi(c[2])
		r, _ := strconv.Atoi(c[3])
		fmt.Fprintf(out, "%s %s\n", c[0], hx([]byte(utils.ChoseSlotInRange(utils.CheckpointKey, l, r))))
	case "findkey":
		l, _ := strconv.Atoi(c[2])
		r, _ := strconv.Atoi(c[3])
		fmt.Fprintf(out, "%s %s\n", c[0], hx([]byte(latencymonitor.VerifFindKeyInRange(l, r))))
	}
}
