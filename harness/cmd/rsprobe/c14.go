package main

import (
	"bufio"
	"fmt"
	"sort"
	"strconv"
	"strings"

	"rsverif/fakeredis"

	"github.com/alibaba/RedisShake/redis-shake/checkpoint"
)

func init() { batchProbes["C14"] = batchC14 }

func batchC14(cases [][]string, out *bufio.Writer) { parallelCases(cases, 16, out, runC14) }

// ckpt <src> <ckptname> <reps> <dbspec>...   dbspec = <db>:<k|->:<fieldhex=valuehex,...|->
func runC14(c []string) string {
	src := string(unhex(c[2]))
	name := string(unhex(c[3]))
	reps, _ := strconv.Atoi(c[4])
	var results []string
	var post string
	for rep := 0; rep < reps; rep++ {
		srv, err := fakeredis.New(fakeredis.Options{})
		if err != nil {
			return c[0] + " machinery-error " + err.Error()
		}
		for _, spec := range c[5:] {
			p := strings.SplitN(spec, ":", 3)
			db, _ := strconv.Atoi(p[0])
			d := map[string]*fakeredis.Val{}
			if p[1] == "k" {
				d["data"] = &fakeredis.Val{Kind: "string", S: []byte("x")}
			}
			if p[2] != "-" {
				v := &fakeredis.Val{Kind: "hash"}
				for _, fv := range strings.Split(p[2], ",") {
					kv := strings.SplitN(fv, "=", 2)
					f, val := unhex(kv[0]), unhex(kv[1])
					if f == nil {
						f = []byte{}
					}
					if val == nil {
						val = []byte{}
					}
					v.H = append(v.H, fakeredis.KV{K: f, V: val})
				}
				d[name] = v
			}
			srv.DBs[db] = d
		}
		rid, off, db, err := checkpoint.LoadCheckpoint(0, src, []string{srv.Addr()}, "auth", "", name, false, false)
		if err != nil {
			results = append(results, "err")
		} else {
			results = append(results, fmt.Sprintf("ok:%s:%d:%d", hx([]byte(rid)), off, db))
		}
		// post state of the checkpoint hashes
		var dbs []int
		for n := range srv.DBs {
			dbs = append(dbs, n)
		}
		sort.Ints(dbs)
		var parts []string
		for _, n := range dbs {
			v, ok := srv.DBs[n][name]
			if !ok {
				continue
			}
			var fs []string
			for _, kv := range v.H {
				fs = append(fs, hx(kv.K)+"="+hx(kv.V))
			}
			parts = append(parts, fmt.Sprintf("%d:%s", n, strings.Join(fs, ",")))
		}
		post = strings.Join(parts, ";")
		if post == "" {
			post = "none"
		}
		srv.Close()
	}
	return fmt.Sprintf("%s %s %s", c[0], strings.Join(results, ","), post)
}
