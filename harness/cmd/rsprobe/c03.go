package main

import (
	"bufio"
	"fmt"
	"io"
	"strconv"
	"strings"
	"sync"
	"time"

	conf "github.com/alibaba/RedisShake/redis-shake/configure"
	"github.com/alibaba/RedisShake/redis-shake/dbSync"
)

func init() {
	batchProbes["C03"] = batchIncr
	batchProbes["C04"] = batchIncr
}

// a redigo.Conn that records Send/Flush
type recConn struct {
	mu     sync.Mutex
	cur    []string
	groups [][]string
	last   time.Time
}

func (c *recConn) Close() error { return nil }
func (c *recConn) Err() error   { return nil }
func (c *recConn) Do(cmd string, args ...interface{}) (interface{}, error) {
	return nil, nil
}
func (c *recConn) Send(cmd string, args ...interface{}) error {
	c.mu.Lock()
	defer c.mu.Unlock()
	parts := []string{hx([]byte(cmd))}
	for _, a := range args {
		switch v := a.(type) {
		case []byte:
			parts = append(parts, hx(v))
		case string:
			parts = append(parts, hx([]byte(v)))
		default:
			parts = append(parts, hx([]byte(fmt.Sprint(v))))
		}
	}
	c.cur = append(c.cur, strings.Join(parts, ","))
	c.last = time.Now()
	return nil
}
func (c *recConn) Flush() error {
	c.mu.Lock()
	defer c.mu.Unlock()
	c.groups = append(c.groups, c.cur)
	c.cur = nil
	c.last = time.Now()
	return nil
}
func (c *recConn) Receive() (interface{}, error) { select {} }

func splitList(s string) []string {
	if s == "-" || s == "" {
		return nil
	}
	var out []string
	for _, h := range strings.Split(s, ",") {
		out = append(out, string(unhex(h)))
	}
	return out
}

// inc <cfg> <startdb> <base> <seg>...    cfg = dbblack|dbwhite|keyblack|keywhite|lua|tdb|resume|scount|ssize[|delay channel capacity, metric on]
//                                        seg = <hexbytes>@<pause ms before writing>
func setIncrConf(cfg string) bool {
	f := strings.Split(cfg, "|")
	conf.Options.FilterDBBlacklist = splitList(f[0])
	conf.Options.FilterDBWhitelist = splitList(f[1])
	conf.Options.FilterKeyBlacklist = splitList(f[2])
	conf.Options.FilterKeyWhitelist = splitList(f[3])
	conf.Options.FilterLua = f[4] == "1"
	conf.Options.TargetDB, _ = strconv.Atoi(f[5])
	n, _ := strconv.Atoi(f[7])
	conf.Options.SenderCount = uint(n)
	sz, _ := strconv.ParseUint(f[8], 10, 64)
	conf.Options.SenderSize = sz
	// optional 10th field: capacity of the delay-sampling channel; > 0 switches the metric path of the sender on
	delayCap = 0
	if len(f) > 9 {
		delayCap, _ = strconv.Atoi(f[9])
	}
	conf.Options.Metric = delayCap > 0
	conf.Options.Id = "verif"
	return f[6] == "1"
}

var delayCap int

var incrId = 1000

func batchIncr(cases [][]string, out *bufio.Writer) {
	res := make([]string, len(cases))
	i := 0
	for i < len(cases) {
		j := i
		for j < len(cases) && cases[j][2] == cases[i][2] {
			j++
		}
		resume := setIncrConf(cases[i][2])
		var wg sync.WaitGroup
		for k := i; k < j; k++ {
			wg.Add(1)
			incrId++
			go func(k, id int) {
				defer wg.Done()
				c := cases[k]
				startDb, _ := strconv.Atoi(c[3])
				base, _ := strconv.ParseInt(c[4], 10, 64)
				ds := dbSync.VerifNew(id, "src:6379", resume, startDb, base, "runid-"+strconv.Itoa(id%7), "redis-shake-checkpoint", int(conf.Options.SenderCount))
				if delayCap > 0 {
					ds.VerifSetDelayChannel(delayCap)
				}
				pr, pw := io.Pipe()
				conn := &recConn{last: time.Now()}
				go ds.VerifParse(bufio.NewReaderSize(pr, 4096))
				go ds.VerifSend(conn)
				// the source stream is written from its own goroutine: if parser and sender stall (a full queue
				// behind a blocked sender) the write never returns, and that must be an observation, not a hang
				wdone := make(chan struct{})
				go func() {
					defer close(wdone)
					for _, seg := range c[5:] {
						p := strings.SplitN(seg, "@", 2)
						ms, _ := strconv.Atoi(p[1])
						if ms > 0 {
							time.Sleep(time.Duration(ms) * time.Millisecond)
						}
						pw.Write(unhex(p[0]))
					}
				}()
				// quiescence: the whole stream written and two ticker periods without any Send/Flush;
				// or nothing at all for 6 s while the stream is still not accepted (stalled)
				written := false
				var writtenAt time.Time
				for {
					time.Sleep(100 * time.Millisecond)
					select {
					case <-wdone:
						if !written {
							written = true
							writtenAt = time.Now()
						}
					default:
					}
					conn.mu.Lock()
					idle := time.Since(conn.last)
					conn.mu.Unlock()
					// at least five ticker periods after the last byte was accepted: under load the 500 ms
					// ticker of the sender can fire late, and a group flushed only by it must still be seen
					if written && idle > 1200*time.Millisecond && time.Since(writtenAt) > 2500*time.Millisecond {
						break
					}
					if !written && idle > 6*time.Second {
						break
					}
				}
				conn.mu.Lock()
				var gs []string
				for _, g := range conn.groups {
					if len(g) == 0 {
						gs = append(gs, "empty")
					} else {
						gs = append(gs, strings.Join(g, ";"))
					}
				}
				pending := len(conn.cur)
				conn.mu.Unlock()
				if len(gs) == 0 {
					gs = []string{"none"}
				}
				res[k] = fmt.Sprintf("%s %d %s", c[0], pending, strings.Join(gs, " "))
			}(k, incrId)
		}
		wg.Wait()
		i = j
	}
	for _, r := range res {
		out.WriteString(r)
		out.WriteString("\n")
	}
}
