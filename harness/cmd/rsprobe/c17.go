package main

import (
	"bufio"
	"fmt"
	"os"
	"path/filepath"
	"strconv"
	"time"

	run "github.com/alibaba/RedisShake/redis-shake"
	conf "github.com/alibaba/RedisShake/redis-shake/configure"
)

func init() {
	batchProbes["C17"] = func(cases [][]string, out *bufio.Writer) { isolatedCases("C17", cases, 16, out, runDecode) }
}

// <id> dec <parallel> <rdbhex>
func runDecode(c []string) (res string) {
	conf.Options.Parallel, _ = strconv.Atoi(c[2])
	dir, err := os.MkdirTemp("", "rsprobe-dec")
	if err != nil {
		return "err=tmp"
	}
	defer os.RemoveAll(dir)
	in := filepath.Join(dir, "in.rdb")
	outp := filepath.Join(dir, "out.json")
	os.WriteFile(in, unhex(c[3]), 0o644)
	defer func() {
		if r := recover(); r != nil {
			res = "panic=" + hx([]byte(fmt.Sprint(r)))
		}
	}()
	done := make(chan struct{})
	go func() { run.VerifDecode(in, outp); close(done) }()
	select {
	case <-done:
	case <-time.After(30 * time.Second):
		return "ret=timeout"
	}
	data, _ := os.ReadFile(outp)
	return "ret=ok out=" + hx(data)
}
