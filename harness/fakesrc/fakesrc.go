// Package fakesrc is a scripted fake replication source: a TCP server that answers
// REPLCONF/SYNC/PSYNC the way a Redis master does, sends its reply, the RDB payload and the
// command stream in exactly the segments and at the times the case script says, drops and
// re-accepts connections, and logs every command it receives (REPLCONF ACK, PSYNC) together
// with how much of the command stream it had sent at that moment.
package fakesrc

import (
	"bufio"
	"fmt"
	"io"
	"net"
	"strconv"
	"strings"
	"sync"
	"time"
)

// one scripted connection: the reply header, then actions
//
//	S<k>  send the next k bytes of this connection's stream (header ++ body)
//	P<ms> pause
//	M     mark the phase start (reconnections: the arrival of PSYNC is the phase start)
//	W<ms> wait until ms after the phase start
//	F     call OnFull (the probe closes WaitFull)
//	D     drop the connection (FIN, then close)
type Script struct {
	Hdr  []byte
	Acts []string
}

type Event struct {
	Kind  string // "ack" | "psync" | "sync" | "other"
	Conn  int
	T     time.Time
	Val   int64  // ack value / psync offset
	Runid string // psync run id
	Lo    int64  // command-stream position sent Margin before T
	Hi    int64  // command-stream position sent at T
	Full  int    // 0 before OnFull, 1 well after, 2 too close to call
	Text  string
}

type sendRec struct {
	t   time.Time
	pos int64
}

type Server struct {
	Start  int64 // offset announced in the header of connection 0
	Rdb    []byte
	Cmds   []byte
	Conns  []Script
	OnFull func()
	RejectAuth bool // AUTH -> -ERR invalid password (the handshake goes on all the same)
	Margin time.Duration

	ln     net.Listener
	mu     sync.Mutex
	sends  []sendRec
	events []Event
	tFull  time.Time
	isFull bool
	nconn  int
	open   []net.Conn
	Done   chan struct{} // closed when the last scripted connection has run all its actions
	Bad    []string
}

func (s *Server) Listen() (string, error) {
	ln, err := net.Listen("tcp", "127.0.0.1:0")
	if err != nil {
		return "", err
	}
	s.ln = ln
	s.Done = make(chan struct{})
	if s.Margin == 0 {
		s.Margin = 400 * time.Millisecond
	}
	go s.accept()
	return ln.Addr().String(), nil
}

func (s *Server) Close() {
	s.ln.Close()
	s.mu.Lock()
	for _, c := range s.open {
		c.Close()
	}
	s.mu.Unlock()
}

func (s *Server) accept() {
	for {
		c, err := s.ln.Accept()
		if err != nil {
			return
		}
		s.mu.Lock()
		i := s.nconn
		s.nconn++
		s.open = append(s.open, c)
		s.mu.Unlock()
		go s.serve(i, c)
	}
}

func (s *Server) bad(f string, a ...interface{}) {
	s.mu.Lock()
	s.Bad = append(s.Bad, fmt.Sprintf(f, a...))
	s.mu.Unlock()
}

// position of the command stream sent by time t
func (s *Server) sentAt(t time.Time) int64 {
	var p int64
	for _, r := range s.sends {
		if !r.t.After(t) && r.pos > p {
			p = r.pos
		}
	}
	return p
}

func readCommand(br *bufio.Reader) ([]string, error) {
	line, err := br.ReadString('\n')
	if err != nil {
		return nil, err
	}
	line = strings.TrimRight(line, "\r\n")
	if len(line) == 0 || line[0] != '*' {
		return []string{line}, nil
	}
	n, _ := strconv.Atoi(line[1:])
	var args []string
	for i := 0; i < n; i++ {
		l, err := br.ReadString('\n')
		if err != nil {
			return nil, err
		}
		l = strings.TrimRight(l, "\r\n")
		if len(l) == 0 || l[0] != '$' {
			return nil, fmt.Errorf("bad bulk header %q", l)
		}
		k, _ := strconv.Atoi(l[1:])
		buf := make([]byte, k+2)
		if _, err := io.ReadFull(br, buf); err != nil {
			return nil, err
		}
		args = append(args, string(buf[:k]))
	}
	return args, nil
}

func (s *Server) serve(i int, c net.Conn) {
	br := bufio.NewReader(c)
	goCh := make(chan int64, 1) // position in Cmds at which the body starts (-1: full stream)
	started := false
	go func() {
		for {
			args, err := readCommand(br)
			if err != nil {
				return
			}
			now := time.Now()
			cmd := strings.ToLower(args[0])
			switch {
			case cmd == "replconf" && len(args) == 3 && strings.ToLower(args[1]) == "listening-port":
				c.Write([]byte("+OK\r\n"))
			case cmd == "auth":
				s.mu.Lock()
				s.events = append(s.events, Event{Kind: "auth", Conn: i, T: now, Text: strings.Join(args[1:], " ")})
				s.mu.Unlock()
				if s.RejectAuth {
					c.Write([]byte("-ERR invalid password\r\n"))
				} else {
					c.Write([]byte("+OK\r\n"))
				}
			case cmd == "replconf" && len(args) == 3 && strings.ToLower(args[1]) == "ack":
				v, _ := strconv.ParseInt(args[2], 10, 64)
				s.mu.Lock()
				e := Event{Kind: "ack", Conn: i, T: now, Val: v, Hi: s.sentAt(now), Lo: s.sentAt(now.Add(-s.Margin))}
				switch {
				case !s.isFull:
					e.Full = 0
				case now.Sub(s.tFull) > s.Margin:
					e.Full = 1
				default:
					e.Full = 2
				}
				s.events = append(s.events, e)
				s.mu.Unlock()
			case cmd == "psync" && len(args) == 3:
				v, _ := strconv.ParseInt(args[2], 10, 64)
				s.mu.Lock()
				s.events = append(s.events, Event{Kind: "psync", Conn: i, T: now, Val: v, Runid: args[1], Hi: s.sentAt(now)})
				s.mu.Unlock()
				if !started {
					started = true
					if i == 0 {
						goCh <- -1
					} else {
						goCh <- v - s.Start - 1
					}
				}
			case cmd == "sync":
				s.mu.Lock()
				s.events = append(s.events, Event{Kind: "sync", Conn: i, T: now})
				s.mu.Unlock()
				if !started {
					started = true
					goCh <- -1
				}
			default:
				s.mu.Lock()
				s.events = append(s.events, Event{Kind: "other", Conn: i, T: now, Text: strings.Join(args, " ")})
				s.mu.Unlock()
			}
		}
	}()
	pos := <-goCh
	if i >= len(s.Conns) {
		return // unscripted connection: the request is logged, nothing is sent
	}
	sc := s.Conns[i]
	var stream []byte
	var base int64 // command-stream position of stream[len(hdr)]
	stream = append(stream, sc.Hdr...)
	if pos < 0 {
		stream = append(stream, s.Rdb...)
		stream = append(stream, s.Cmds...)
		base = -int64(len(s.Rdb))
	} else {
		if pos > int64(len(s.Cmds)) {
			s.bad("conn %d: psync asks for stream position %d beyond %d", i, pos, len(s.Cmds))
			pos = int64(len(s.Cmds))
		}
		stream = append(stream, s.Cmds[pos:]...)
		base = pos
	}
	if i > 0 && pos < 0 {
		s.bad("conn %d: psync asks for an offset before the start", i)
	}
	phase := time.Now()
	at := 0
	for _, a := range sc.Acts {
		if a == "" {
			continue
		}
		n, _ := strconv.Atoi(a[1:])
		switch a[0] {
		case 'S':
			end := at + n
			if end > len(stream) {
				end = len(stream)
			}
			if end > at {
				if _, err := c.Write(stream[at:end]); err != nil {
					s.bad("conn %d: write: %v", i, err)
				}
				at = end
				p := base + int64(at-len(sc.Hdr))
				if p > 0 {
					s.mu.Lock()
					s.sends = append(s.sends, sendRec{time.Now(), p})
					s.mu.Unlock()
				}
			}
		case 'P':
			time.Sleep(time.Duration(n) * time.Millisecond)
		case 'M':
			phase = time.Now()
		case 'W':
			if d := time.Until(phase.Add(time.Duration(n) * time.Millisecond)); d > 0 {
				time.Sleep(d)
			}
		case 'F':
			s.mu.Lock()
			s.isFull = true
			s.tFull = time.Now()
			s.mu.Unlock()
			if s.OnFull != nil {
				s.OnFull()
			}
			s.mu.Lock()
			s.tFull = time.Now()
			s.mu.Unlock()
		case 'D':
			if tc, ok := c.(*net.TCPConn); ok {
				tc.CloseWrite()
			}
			time.Sleep(60 * time.Millisecond)
			c.Close()
		}
	}
	if i == len(s.Conns)-1 {
		close(s.Done)
	}
}

func (s *Server) Events() []Event {
	s.mu.Lock()
	defer s.mu.Unlock()
	return append([]Event(nil), s.events...)
}

// total command-stream position sent so far
func (s *Server) Sent() int64 {
	s.mu.Lock()
	defer s.mu.Unlock()
	return s.sentAt(time.Now())
}
