From Coq Require Import List NArith ZArith Lia Bool Strings.Byte.
Import ListNotations.
Open Scope Z_scope.

Definition bytes := list byte.
Definition NL : byte := x0a.
Definition CR : byte := x0d.
Definition crlf : bytes := [CR; NL].
Definition beq (a b : byte) : bool := Byte.eqb a b.
Lemma beq_true a b : beq a b = true <-> a = b.
Proof. unfold beq. split; intros H. apply Byte.byte_dec_bl; exact H. subst. apply Byte.byte_dec_lb. reflexivity. Qed.
Lemma beq_refl a : beq a a = true. Proof. apply beq_true. reflexivity. Qed.

Section Resp.
(* decimal conversions: instantiated later by Base/Dec.v (strconv.FormatInt / ParseInt) *)
Variable render : Z -> bytes.
Variable parse_int : bytes -> option Z.
Hypothesis parse_render : forall z, parse_int (render z) = Some z.
Hypothesis render_no_nl : forall z, ~ In NL (render z).

Inductive resp :=
| RStr (b : bytes) | RErr (b : bytes) | RInt (z : Z)
| RBulk (o : option bytes) | RArr (o : option (list resp)).

Fixpoint encode (v : resp) : bytes :=
  match v with
  | RStr b => x2b :: b ++ crlf
  | RErr b => x2d :: b ++ crlf
  | RInt z => x3a :: render z ++ crlf
  | RBulk None => x24 :: render (-1) ++ crlf
  | RBulk (Some b) => x24 :: render (Z.of_nat (length b)) ++ crlf ++ b ++ crlf
  | RArr None => x2a :: render (-1) ++ crlf
  | RArr (Some l) => x2a :: render (Z.of_nat (length l)) ++ crlf ++ flat_map encode l
  end.

Inductive res (A : Type) := Ok (a : A) | Err | OutOfFuel.
Arguments Ok {A}. Arguments Err {A}. Arguments OutOfFuel {A}.

(* decodeType: skips keep-alive '\n', counting each byte *)
Fixpoint read_type (inp : bytes) (off : Z) : res (byte * bytes * Z) :=
  match inp with [] => Err | b :: r => if beq b NL then read_type r (off + 1) else Ok (b, r, off + 1) end.

(* ReadBytes('\n'): line including the '\n' *)
Fixpoint read_line (inp : bytes) : option (bytes * bytes) :=
  match inp with [] => None | b :: r => if beq b NL then Some ([b], r) else
    match read_line r with Some (l, r') => Some (b :: l, r') | None => None end end.

(* decodeText *)
Definition dec_text (inp : bytes) (off : Z) : res (bytes * bytes * Z) :=
  match read_line inp with
  | None => Err
  | Some (l, r) =>
      let n := (length l - 2)%nat in
      if (Nat.ltb (length l) 2) then Err
      else if beq (nth n l x00) CR then Ok (firstn n l, r, off + Z.of_nat (length l)) else Err
  end.

Definition dec_int (inp : bytes) (off : Z) : res (Z * bytes * Z) :=
  match dec_text inp off with
  | Ok (t, r, off') => match parse_int t with Some z => Ok (z, r, off') | None => Err end
  | Err => Err | OutOfFuel => OutOfFuel end.

Definition dec_bulk (inp : bytes) (off : Z) : res (option bytes * bytes * Z) :=
  match dec_int inp off with
  | Ok (n, r, off') =>
      if n <? -1 then Err else if n =? -1 then Ok (None, r, off')
      else let k := Z.to_nat n in
           if Nat.ltb (length r) (k + 2) then Err
           else let b := firstn (k + 2) r in
                if beq (nth k b x00) CR && beq (nth (k + 1) b x00) NL
                then Ok (Some (firstn k b), skipn (k + 2) r, off' + Z.of_nat (k + 2)) else Err
  | Err => Err | OutOfFuel => OutOfFuel end.

Fixpoint dec (fuel : nat) (depth : nat) (inp : bytes) (off : Z) {struct fuel} : res (resp * bytes * Z) :=
  match fuel with O => OutOfFuel | S fuel' =>
  match read_type inp off with
  | Ok (t, r, off1) =>
      if beq t x2b then match dec_text r off1 with Ok (b, r', o) => Ok (RStr b, r', o) | Err => Err | OutOfFuel => OutOfFuel end
      else if beq t x2d then match dec_text r off1 with Ok (b, r', o) => Ok (RErr b, r', o) | Err => Err | OutOfFuel => OutOfFuel end
      else if beq t x3a then match dec_int r off1 with Ok (z, r', o) => Ok (RInt z, r', o) | Err => Err | OutOfFuel => OutOfFuel end
      else if beq t x24 then match dec_bulk r off1 with Ok (b, r', o) => Ok (RBulk b, r', o) | Err => Err | OutOfFuel => OutOfFuel end
      else if beq t x2a then
        match dec_int r off1 with
        | Ok (n, r', o) =>
            if n <? -1 then Err else if n =? -1 then Ok (RArr None, r', o)
            else (fix elems (k : nat) (inp : bytes) (off : Z) (acc : list resp) : res (resp * bytes * Z) :=
                    match k with
                    | O => Ok (RArr (Some (rev acc)), inp, off)
                    | S k' => match dec fuel' (S depth) inp off with
                              | Ok (v, r'', o') => elems k' r'' o' (v :: acc)
                              | Err => Err | OutOfFuel => OutOfFuel end
                    end) (Z.to_nat n) r' o []
        | Err => Err | OutOfFuel => OutOfFuel end
      else Err (* inline commands handled separately at depth 0 *)
  | Err => Err | OutOfFuel => OutOfFuel end end.

(* ---- well-formedness and size ---- *)
Fixpoint wf (v : resp) : Prop :=
  match v with
  | RStr b | RErr b => ~ In NL b
  | RArr (Some l) => (fix all (l : list resp) := match l with [] => True | x :: r => wf x /\ all r end) l
  | _ => True end.
Fixpoint size (v : resp) : nat :=
  match v with RArr (Some l) => S (fold_right (fun x a => size x + a)%nat 0%nat l) | _ => 1%nat end.

Lemma read_line_app l r : ~ In NL l -> read_line (l ++ NL :: r) = Some (l ++ [NL], r).
Proof.
  induction l as [|a l IH]; simpl; intros H.
  - rewrite ?beq_refl. reflexivity.
  - destruct (beq a NL) eqn:E. apply beq_true in E. subst. tauto.
    rewrite IH by tauto. reflexivity.
Qed.

Lemma dec_text_crlf t r off : ~ In NL t ->
  dec_text (t ++ crlf ++ r) off = Ok (t, r, off + Z.of_nat (length t) + 2).
Proof.
  intros H. unfold dec_text, crlf. 
  replace (t ++ [CR; NL] ++ r) with ((t ++ [CR]) ++ NL :: r) by (rewrite <- app_assoc; reflexivity).
  rewrite read_line_app.
  2:{ intros Hin. apply in_app_or in Hin. destruct Hin as [Hin|[Hin|[]]]; [tauto|discriminate]. }
  rewrite !app_length. simpl length.
  replace (Nat.ltb (length t + 1 + 1) 2) with false by (symmetry; apply Nat.ltb_ge; lia).
  replace (length t + 1 + 1 - 2)%nat with (length t) by lia.
  rewrite <- app_assoc. rewrite app_nth2 by lia. rewrite Nat.sub_diag. simpl nth.
  rewrite ?beq_refl.
  rewrite firstn_app, firstn_all, Nat.sub_diag. simpl. rewrite app_nil_r.
  f_equal. f_equal. lia.
Qed.

Lemma dec_int_render z r off :
  dec_int (render z ++ crlf ++ r) off = Ok (z, r, off + Z.of_nat (length (render z)) + 2).
Proof. unfold dec_int. rewrite dec_text_crlf by apply render_no_nl. rewrite parse_render. reflexivity. Qed.

Lemma read_type_nonnl t r off : t <> NL -> read_type (t :: r) off = Ok (t, r, off + 1).
Proof. intros H. simpl. destruct (beq t NL) eqn:E; [apply beq_true in E; tauto|reflexivity]. Qed.

Lemma len_cons (a : byte) l : Z.of_nat (length (a :: l)) = 1 + Z.of_nat (length l).
Proof. simpl length. lia. Qed.

Ltac bt1 a b := let v := eval vm_compute in (beq a b) in change (beq a b) with v.
Ltac fin := f_equal; f_equal; repeat (simpl length; rewrite ?app_length); simpl length; lia.
Ltac hdr t := rewrite read_type_nonnl by discriminate;
  bt1 t x2b; try bt1 t x2d; try bt1 t x3a; try bt1 t x24; try bt1 t x2a; cbv iota.

Theorem roundtrip : forall fuel v depth rest off, (size v <= fuel)%nat -> wf v ->
  dec fuel depth (encode v ++ rest) off = Ok (v, rest, off + Z.of_nat (length (encode v))).
Proof.
  induction fuel as [|fuel IH]; intros v depth rest off Hsz Hwf.
  { destruct v as [| | | |[l|]]; simpl in Hsz; lia. }
  destruct v as [b|b|z|[b|]|[l|]]; cbn [encode app dec].
  - hdr x2b. rewrite <- app_assoc. rewrite dec_text_crlf by exact Hwf.
    fin.
  - hdr x2d. rewrite <- app_assoc. rewrite dec_text_crlf by exact Hwf.
    fin.
  - hdr x3a. rewrite <- app_assoc. rewrite dec_int_render.
    fin.
  - hdr x24. unfold dec_bulk.
    rewrite <- !app_assoc. rewrite dec_int_render.
    replace (Z.of_nat (length b) <? -1) with false by (symmetry; apply Z.ltb_ge; lia).
    replace (Z.of_nat (length b) =? -1) with false by (symmetry; apply Z.eqb_neq; lia).
    rewrite Nat2Z.id.
    replace (Nat.ltb (length (b ++ crlf ++ rest)) (length b + 2)) with false
      by (symmetry; apply Nat.ltb_ge; rewrite !app_length; simpl; lia).
    assert (F : firstn (length b + 2) (b ++ crlf ++ rest) = b ++ crlf).
    { rewrite app_assoc. rewrite firstn_app. rewrite app_length. simpl length.
      replace (length b + 2 - (length b + 2))%nat with 0%nat by lia. rewrite firstn_O, app_nil_r.
      apply firstn_all2. rewrite app_length. simpl. lia. }
    rewrite F. rewrite app_nth2 by lia. rewrite Nat.sub_diag.
    rewrite app_nth2 by lia. replace (length b + 1 - length b)%nat with 1%nat by lia. simpl nth.
    rewrite !beq_refl. simpl andb. cbv iota.
    rewrite firstn_app, firstn_all, Nat.sub_diag, firstn_O, app_nil_r.
    replace (skipn (length b + 2) (b ++ crlf ++ rest)) with rest.
    2:{ rewrite app_assoc. rewrite skipn_app. rewrite app_length. simpl length.
        replace (length b + 2 - (length b + 2))%nat with 0%nat by lia.
        rewrite skipn_all2 by (rewrite app_length; simpl; lia). reflexivity. }
    fin.
  - hdr x24. unfold dec_bulk. rewrite <- app_assoc. rewrite dec_int_render.
    change (-1 <? -1) with false. change (-1 =? -1) with true. cbv iota.
    fin.
  - hdr x2a.
    rewrite <- !app_assoc. rewrite dec_int_render.
    replace (Z.of_nat (length l) <? -1) with false by (symmetry; apply Z.ltb_ge; lia).
    replace (Z.of_nat (length l) =? -1) with false by (symmetry; apply Z.eqb_neq; lia).
    rewrite Nat2Z.id.
    assert (G : forall (l2 : list resp) acc rest o,
               (fold_right (fun x a => size x + a)%nat 0%nat l2 <= fuel)%nat ->
               (fix all (l : list resp) := match l with [] => True | x :: r => wf x /\ all r end) l2 ->
               (fix elems (k : nat) (inp : bytes) (off : Z) (acc : list resp) : res (resp * bytes * Z) :=
                    match k with
                    | O => Ok (RArr (Some (rev acc)), inp, off)
                    | S k' => match dec fuel (S depth) inp off with
                              | Ok (v, r'', o') => elems k' r'' o' (v :: acc)
                              | Err => Err | OutOfFuel => OutOfFuel end
                    end) (length l2) (flat_map encode l2 ++ rest) o acc
               = Ok (RArr (Some (rev acc ++ l2)), rest, o + Z.of_nat (length (flat_map encode l2)))).
    { induction l2 as [|x l2 IHl]; intros acc rest' o Hs Hw.
      - simpl. rewrite app_nil_r. f_equal. f_equal. lia.
      - simpl in Hs. destruct Hw as [Hwx Hwl]. cbn [length flat_map]. rewrite <- app_assoc.
        rewrite IH by (auto; lia). rewrite IHl by (auto; lia).
        cbn [rev]. rewrite <- app_assoc. simpl app. f_equal. f_equal. rewrite app_length. lia. }
    simpl in Hsz. rewrite G by (auto; lia). simpl rev. simpl app.
    fin.
  - hdr x2a. rewrite <- app_assoc. rewrite dec_int_render.
    change (-1 <? -1) with false. change (-1 =? -1) with true. cbv iota.
    fin.
Qed.
End Resp.
Print Assumptions roundtrip.
