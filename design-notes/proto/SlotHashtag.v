From Coq Require Import List NArith Lia Bool Strings.Byte.
Import ListNotations.

Definition bytes := list byte.
Definition LB : byte := x7b. (* '{' *)
Definition RB : byte := x7d. (* '}' *)
Definition beq (a b : byte) : bool := Byte.eqb a b.
Lemma beq_true a b : beq a b = true <-> a = b.
Proof. unfold beq. split; intros H. apply Byte.byte_dec_bl; exact H. subst. apply Byte.byte_dec_lb. reflexivity. Qed.

(* ---------------- specification (Redis Cluster spec, keyHashSlot) ----------------
   s = first '{'; e = first '}' after s; if both exist and e <> s+1 hash key[s+1..e) else whole key *)
Fixpoint upto (c : byte) (l : bytes) : option (bytes * bytes) :=   (* split at first c *)
  match l with [] => None | b :: r => if beq b c then Some ([], r) else
    match upto c r with Some (p, q) => Some (b :: p, q) | None => None end end.

Definition hashtag_spec (key : bytes) : bytes :=
  match upto LB key with
  | None => key
  | Some (_, after) => match upto RB after with
                       | None => key
                       | Some ([], _) => key
                       | Some (tag, _) => tag end end.

(* ---------------- model of utils.KeyToSlot as written today ----------------
   for every '{' at i (left to right): for k from i: first '}' -> hashtag = key[i+1:k]; (no break of the outer loop)
   finally: if len(hashtag) > 0 use it else whole key *)
Fixpoint scan_today (l : bytes) (tag : bytes) : bytes :=
  match l with [] => tag | b :: r =>
    if beq b LB then match upto RB r with Some (t, _) => scan_today r t | None => scan_today r tag end
    else scan_today r tag end.
Definition hashtag_today (key : bytes) : bytes :=
  match scan_today key [] with [] => key | t => t end.

(* ---------------- model of the repaired function (break after the first '{') ---------------- *)
Fixpoint scan_fixed (l : bytes) : bytes :=
  match l with [] => [] | b :: r =>
    if beq b LB then match upto RB r with Some (t, _) => t | None => [] end
    else scan_fixed r end.
Definition hashtag_fixed (key : bytes) : bytes :=
  match scan_fixed key with [] => key | t => t end.

Lemma scan_fixed_spec key : scan_fixed key =
  match upto LB key with None => [] | Some (_, after) => match upto RB after with Some (t, _) => t | None => [] end end.
Proof.
  induction key as [|b r IH]; simpl; [reflexivity|].
  destruct (beq b LB); [reflexivity|]. rewrite IH. destruct (upto LB r) as [[p q]|]; reflexivity.
Qed.

Theorem fixed_meets_spec key : hashtag_fixed key = hashtag_spec key.
Proof.
  unfold hashtag_fixed, hashtag_spec. rewrite scan_fixed_spec.
  destruct (upto LB key) as [[p after]|]; [|reflexivity].
  destruct (upto RB after) as [[t q]|]; [|reflexivity]. destruct t; reflexivity.
Qed.

Theorem today_refuted : exists key, hashtag_today key <> hashtag_spec key.
Proof. exists [LB; x61; RB; LB; x62; RB]. vm_compute. discriminate. Qed.

