From Coq Require Import List Arith Lia.
Import ListNotations.

(* C04 core: a target command sequence made of MULTI..EXEC groups (and bare single commands),
   cut at ANY position, leaves the data exactly as after some whole number of groups. *)
Section Atomic.
Variable D : Type.            (* everything the target stores: datasets of all dbs, checkpoint hashes,
                                 and the connection's selected db *)
Variable cmd : Type.
Variable apply : D -> cmd -> D.

Inductive tcmd := TMulti | TExec | TCmd (c : cmd).

(* one connection of a Redis server: MULTI queues, EXEC applies the queue atomically,
   a dropped connection discards the queue *)
Definition cstate := (D * option (list cmd))%type.
Definition exec1 (s : cstate) (t : tcmd) : cstate :=
  match s, t with
  | (d, None), TMulti => (d, Some [])
  | (d, None), TExec => (d, None)
  | (d, None), TCmd c => (apply d c, None)
  | (d, Some q), TMulti => (d, Some q)
  | (d, Some q), TExec => (fold_left apply q d, None)
  | (d, Some q), TCmd c => (d, Some (q ++ [c]))
  end.
Definition exec (s : cstate) (ts : list tcmd) : cstate := fold_left exec1 ts s.
Definition after_cut (d : D) (ts : list tcmd) : D := fst (exec (d, None) ts).

Inductive group := GBare (c : cmd) | GTx (l : list cmd).
Definition wire1 (g : group) : list tcmd :=
  match g with GBare c => [TCmd c] | GTx l => TMulti :: map TCmd l ++ [TExec] end.
Definition wire (gs : list group) : list tcmd := flat_map wire1 gs.
Definition gapply (d : D) (g : group) : D :=
  match g with GBare c => apply d c | GTx l => fold_left apply l d end.

Lemma exec_queue d q l : exec (d, Some q) (map TCmd l) = (d, Some (q ++ l)).
Proof.
  revert q. induction l as [|c l IH]; intros q; simpl.
  - rewrite app_nil_r. reflexivity.
  - unfold exec in *. simpl. rewrite IH. rewrite <- app_assoc. reflexivity.
Qed.

Lemma exec_group d g : exec (d, None) (wire1 g) = (gapply d g, None).
Proof.
  destruct g as [c|l]; simpl; [reflexivity|].
  unfold exec. simpl. rewrite fold_left_app. fold (exec (d, Some []) (map TCmd l)).
  rewrite exec_queue. simpl. reflexivity.
Qed.

(* a strict prefix of one group changes nothing that survives the cut *)
Lemma partial_group d g k : k < length (wire1 g) -> after_cut d (firstn k (wire1 g)) = d.
Proof.
  destruct g as [c|l]; simpl; intros Hk.
  - assert (k = 0) by lia. subst. reflexivity.
  - destruct k as [|k]; [reflexivity|]. simpl. unfold after_cut, exec. simpl.
    rewrite app_length in Hk. simpl in Hk.
    assert (Hk' : k <= length (map TCmd l)) by lia.
    rewrite firstn_app. replace (k - length (map TCmd l)) with 0 by lia. simpl. rewrite app_nil_r.
    rewrite firstn_map. fold (exec (d, Some []) (map TCmd (firstn k l))). rewrite exec_queue. reflexivity.
Qed.

Theorem crash_atomic : forall gs d k,
  exists j, j <= length gs /\ after_cut d (firstn k (wire gs)) = fold_left gapply (firstn j gs) d.
Proof.
  induction gs as [|g gs IH]; intros d k.
  - exists 0. simpl. rewrite firstn_nil. split; [lia|reflexivity].
  - simpl wire. destruct (le_lt_dec (length (wire1 g)) k) as [Hge|Hlt].
    + rewrite firstn_app. rewrite firstn_all2 by lia.
      destruct (IH (gapply d g) (k - length (wire1 g))) as (j & Hj & E).
      exists (S j). split; [simpl; lia|].
      unfold after_cut, exec in *. rewrite fold_left_app. fold (exec (d, None) (wire1 g)).
      rewrite exec_group. simpl. exact E.
    + rewrite firstn_app. replace (k - length (wire1 g)) with 0 by lia. simpl. rewrite app_nil_r.
      exists 0. split; [lia|]. simpl. apply partial_group. exact Hlt.
Qed.

(* and the j is exactly the number of groups wholly contained in the prefix *)
End Atomic.
Print Assumptions crash_atomic.
