From Coq Require Import List NArith ZArith Lia Bool ZifyN ZifyNat ZifyBool.
Import ListNotations.
Ltac Zify.zify_post_hook ::= Z.div_mod_to_equations.
Open Scope N_scope.

(* C18 core: backlog memBuffer.  The ring is addressed by ABSOLUTE write position; the abstraction is the
   infinite log `hist` of everything ever written (hist i = byte written at absolute offset i). *)
Section Backlog.
Variable byte : Type.
Variable b0 : byte.

Record ring := { size : N; wpos : N; cells : N -> byte }.

Definition roffset (blen size rpos wpos : N) : N * N :=
  let maxlen := N.min blen (wpos - rpos) in let offset := rpos mod size in (N.min maxlen (size - offset), offset).
Definition woffset (blen size wpos : N) : N * N :=
  let maxlen := N.min blen size in let offset := wpos mod size in (N.min maxlen (size - offset), offset).

Inductive rres := Data (bs : list byte) | Wait | Invalid.

Fixpoint read_cells (c : N -> byte) (off : N) (n : nat) : list byte :=
  match n with O => [] | S k => c off :: read_cells c (off + 1) k end.

(* memBuffer.readSomeAt *)
Definition read_at (r : ring) (blen rpos : N) : rres :=
  if (wpos r <? rpos) || (rpos + size r <? wpos r) then Invalid
  else let '(maxlen, off) := roffset blen (size r) rpos (wpos r) in
       if maxlen =? 0 then Wait else Data (read_cells (cells r) off (N.to_nat maxlen)).

Definition upd_cells (c : N -> byte) (off : N) (bs : list byte) : N -> byte :=
  fun i => if (off <=? i) && (i <? off + N.of_nat (length bs)) then nth (N.to_nat (i - off)) bs b0 else c i.

(* memBuffer.writeSome *)
Definition write_some (r : ring) (bs : list byte) : ring * N :=
  let '(maxlen, off) := woffset (N.of_nat (length bs)) (size r) (wpos r) in
  if maxlen =? 0 then (r, 0)
  else ({| size := size r; wpos := wpos r + maxlen; cells := upd_cells (cells r) off (firstn (N.to_nat maxlen) bs) |}, maxlen).

(* invariant: the last min(wpos,size) bytes of the log are where the ring arithmetic looks for them *)
Definition inv (r : ring) (hist : N -> byte) : Prop :=
  0 < size r /\ forall p, p < wpos r -> wpos r <= p + size r -> cells r (p mod size r) = hist p.

Lemma mod_add_small a s i : 0 < s -> a mod s + i < s -> (a + i) mod s = a mod s + i.
Proof. intros Hs H. rewrite N.add_mod by lia. rewrite (N.mod_small i) by lia. apply N.mod_small. exact H. Qed.

Lemma read_cells_nth c off n i : (i < n)%nat -> nth i (read_cells c off n) b0 = c (off + N.of_nat i).
Proof. revert off i. induction n as [|n IH]; intros off i Hi; [lia|]. destruct i as [|i]; simpl; [f_equal; lia|].
  rewrite IH by lia. f_equal. lia. Qed.
Lemma read_cells_length c off n : length (read_cells c off n) = n.
Proof. revert off. induction n; simpl; intros; auto. Qed.

Lemma nth_firstn_lt (l : list byte) n i : (i < n)%nat -> nth i (firstn n l) b0 = nth i l b0.
Proof. revert n i. induction l as [|a l IH]; intros n i H; destruct n, i; simpl; auto; try lia. apply IH. lia. Qed.

(* C18_read_spec *)
Theorem read_at_spec r hist blen rpos : inv r hist ->
  match read_at r blen rpos with
  | Invalid => wpos r < rpos \/ rpos + size r < wpos r              (* beyond the writer, or overwritten *)
  | Wait => blen = 0 \/ rpos = wpos r                                (* nothing to read yet *)
  | Data bs => 0 < N.of_nat (length bs) <= blen /\ rpos + N.of_nat (length bs) <= wpos r /\
               forall i, (i < length bs)%nat -> nth i bs b0 = hist (rpos + N.of_nat i)   (* exactly the bytes written there *)
  end.
Proof.
  intros [Hs Hc]. unfold read_at.
  destruct ((wpos r <? rpos) || (rpos + size r <? wpos r)) eqn:V.
  - apply orb_true_iff in V. destruct V as [V|V]; apply N.ltb_lt in V; auto.
  - apply orb_false_iff in V. destruct V as [V1 V2]. apply N.ltb_ge in V1, V2.
    unfold roffset. set (maxlen := N.min (N.min blen (wpos r - rpos)) (size r - rpos mod size r)).
    assert (Hoff : rpos mod size r < size r) by (apply N.mod_lt; lia).
    destruct (N.eqb_spec maxlen 0) as [E|E].
    + unfold maxlen in E. lia.
    + rewrite read_cells_length, N2Nat.id. split; [unfold maxlen; lia|]. split; [unfold maxlen; lia|].
      intros i Hi. rewrite read_cells_nth by lia.
      rewrite <- (mod_add_small rpos (size r) (N.of_nat i)) by (unfold maxlen in *; lia).
      apply Hc; unfold maxlen in *; lia.
Qed.

(* C18: writes keep the invariant for the extended log *)
Theorem write_some_inv r hist bs : inv r hist ->
  let '(r', n) := write_some r bs in
  n <= N.of_nat (length bs) /\ (n = 0 <-> bs = []) /\
  forall hist', (forall p, p < wpos r -> hist' p = hist p) ->
                (forall j, j < n -> hist' (wpos r + j) = nth (N.to_nat j) bs b0) -> inv r' hist'.
Proof.
  intros [Hs Hc]. unfold write_some, woffset. lazy beta iota zeta.
  set (maxlen := N.min (N.min (N.of_nat (length bs)) (size r)) (size r - wpos r mod size r)).
  assert (Hoff : wpos r mod size r < size r) by (apply N.mod_lt; lia).
  destruct (N.eqb_spec maxlen 0) as [E|E].
  - split; [lia|]. split.
    + split; intros _; [|reflexivity]. destruct bs; [reflexivity|]. unfold maxlen in E. simpl length in E. lia.
    + intros hist' Hold _. split; [exact Hs|]. intros p Hp Hw. rewrite Hold by exact Hp. apply Hc; assumption.
  - split; [unfold maxlen; lia|]. split.
    + split; intros Hn; [lia|]. subst bs. unfold maxlen in E. simpl in E. lia.
    + intros hist' Hold Hnew. split; [exact Hs|]. simpl. intros p Hp Hw. unfold upd_cells.
      rewrite firstn_length. 
      replace (N.of_nat (Init.Nat.min (N.to_nat maxlen) (length bs))) with maxlen by (unfold maxlen; lia).
      destruct (N.lt_ge_cases p (wpos r)) as [Hlt|Hge].
      * (* an older byte that is still inside the window: not overwritten *)
        destruct ((wpos r mod size r <=? p mod size r) && (p mod size r <? wpos r mod size r + maxlen)) eqn:B.
        -- exfalso. apply andb_true_iff in B. destruct B as [B1 B2]. apply N.leb_le in B1. apply N.ltb_lt in B2.
           set (j := p mod size r - wpos r mod size r) in *.
           assert (Em : (wpos r + j) mod size r = p mod size r).
           { rewrite mod_add_small by (unfold maxlen in *; lia). unfold j. lia. }
           (* p < wpos <= wpos + j < p + size and same residue: impossible *)
           pose proof (N.div_mod p (size r)) as Dp. pose proof (N.div_mod (wpos r + j) (size r)) as Dw.
           rewrite Em in Dw.
           assert (Q : (wpos r + j) / size r = p / size r).
           { destruct (N.lt_trichotomy (p / size r) ((wpos r + j) / size r)) as [L|[L|L]]; [|auto|]; unfold maxlen in *; nia. }
           rewrite Q in Dw. lia.
        -- rewrite Hold by exact Hlt. apply Hc; unfold maxlen in *; lia.
      * (* a byte of this write *)
        set (j := p - wpos r). replace p with (wpos r + j) by (unfold j; lia).
        rewrite mod_add_small by (unfold maxlen, j in *; lia).
        replace (wpos r mod size r <=? wpos r mod size r + j) with true by (symmetry; apply N.leb_le; lia).
        replace (wpos r mod size r + j <? wpos r mod size r + maxlen) with true by (symmetry; apply N.ltb_lt; unfold j; lia).
        simpl. rewrite Hnew by (unfold j; lia).
        replace (wpos r mod size r + j - wpos r mod size r) with j by lia.
        rewrite nth_firstn_lt by (unfold j, maxlen in *; lia). reflexivity.
Qed.
End Backlog.
Print Assumptions write_some_inv.
