From Coq Require Import List NArith ZArith Lia Bool Strings.Byte ZifyN ZifyNat ZifyBool.
Ltac Zify.zify_post_hook ::= Z.div_mod_to_equations.
Import ListNotations.
Open Scope N_scope.

Definition bytes := list byte.
Definition b2n (b : byte) : N := Byte.to_N b.
Definition n2b (n : N) : byte := match Byte.of_N (n mod 256) with Some b => b | None => x00 end.

Lemma b2n_lt b : b2n b < 256. Proof. unfold b2n. pose proof (Byte.to_N_bounded b). lia. Qed.
Lemma b2n_n2b n : n < 256 -> b2n (n2b n) = n.
Proof.
  intros H. unfold n2b, b2n. rewrite N.mod_small by lia.
  destruct (Byte.of_N n) eqn:E.
  - apply Byte.to_of_N in E. exact E.
  - apply Byte.of_N_None_iff in E. lia.
Qed.
Lemma b2n_n2b_mod n : b2n (n2b n) = n mod 256.
Proof. unfold n2b, b2n. destruct (Byte.of_N (n mod 256)) eqn:E.
  - apply Byte.to_of_N in E. exact E.
  - apply Byte.of_N_None_iff in E. pose proof (N.mod_lt n 256). lia. Qed.

Definition be32 (n : N) : bytes := [n2b (n / 2^24); n2b (n / 2^16); n2b (n / 2^8); n2b n].
Definition rd_be32 (bs : bytes) : option (N * bytes) :=
  match bs with a :: b :: c :: d :: r => Some (b2n a * 2^24 + b2n b * 2^16 + b2n c * 2^8 + b2n d, r) | _ => None end.
Lemma rd_be32_be32 n r : n < 2^32 -> rd_be32 (be32 n ++ r) = Some (n, r).
Proof.
  intros H. unfold be32, rd_be32. cbn [app]. rewrite !b2n_n2b_mod. f_equal. f_equal.
  change (2^24) with 16777216. change (2^16) with 65536. change (2^8) with 256. change (2^32) with 4294967296 in H.
  lia.
Qed.

Inductive lenform := L6 | L14 | L32 | L64.
Definition enc_len (f : lenform) (n : N) : bytes :=
  match f with
  | L6 => [n2b n]
  | L14 => [n2b (64 + n / 256); n2b n]
  | L32 => n2b 128 :: be32 n
  | L64 => n2b 129 :: be32 (n / 2^32) ++ be32 (n mod 2^32)
  end.
Definition fits (f : lenform) (n : N) : Prop :=
  match f with L6 => n < 64 | L14 => n < 16384 | L32 => n < 2^32 | L64 => n < 2^64 end.

(* model of rdbReader.readEncodedLength incl. the 64-bit quirk (high word returned) *)
Definition read_enc_len (bs : bytes) : option (N * bool * bytes) :=
  match bs with
  | [] => None
  | u :: r =>
    let u := b2n u in
    match u / 64 with
    | 0 => Some (u mod 64, false, r)
    | 1 => match r with u2 :: r' => Some ((u mod 64) * 256 + b2n u2, false, r') | [] => None end
    | 3 => Some (u mod 64, true, r)
    | _ => if u =? 128 then match rd_be32 r with Some (n, r') => Some (n, false, r') | None => None end
           else if u =? 129 then
             match rd_be32 r with Some (hi, r') => match rd_be32 r' with Some (_, r'') => Some (hi, false, r'') | None => None end | None => None end
           else None
    end
  end.

Definition model_value (f : lenform) (n : N) := match f with L64 => n / 2^32 | _ => n end.

Lemma read_enc_len_spec f n r : fits f n ->
  read_enc_len (enc_len f n ++ r) = Some (model_value f n, false, r).
Proof.
  destruct f; cbn [fits enc_len model_value]; intros H.
  - cbn [app read_enc_len]. rewrite b2n_n2b by lia.
    replace (n / 64) with 0 by (symmetry; apply N.div_small; lia). cbn. rewrite N.mod_small by lia. reflexivity.
  - cbn [app read_enc_len]. rewrite b2n_n2b by lia.
    replace ((64 + n / 256) / 64) with 1 by lia. cbn match.
    rewrite b2n_n2b_mod. do 2 f_equal. f_equal. lia.
  - cbn [app read_enc_len]. rewrite b2n_n2b by lia. change (128 / 64) with 2. cbn match. change (128 =? 128) with true. cbn match.
    rewrite rd_be32_be32 by assumption. reflexivity.
  - cbn [app read_enc_len]. rewrite b2n_n2b by lia. change (129 / 64) with 2. cbn match. change (129 =? 128) with false. change (129 =? 129) with true. cbn match.
    rewrite <- app_assoc. rewrite rd_be32_be32.
    + rewrite rd_be32_be32. reflexivity. apply N.mod_lt. discriminate.
    + change (2^64) with (2^32 * 2^32) in H. apply N.div_lt_upper_bound; [discriminate|lia].
Qed.
