From Coq Require Import List NArith ZArith Lia Bool Strings.Byte ZifyN ZifyNat ZifyBool.
Ltac Zify.zify_post_hook ::= Z.div_mod_to_equations.
Import ListNotations.
Open Scope N_scope.
Notation bytes := (list byte).

Definition b2n (b : byte) : N := Byte.to_N b.
Definition n2b (n : N) : byte := match Byte.of_N (n mod 256) with Some b => b | None => x00 end.
Lemma b2n_lt b : b2n b < 256. Proof. unfold b2n. pose proof (Byte.to_N_bounded b). lia. Qed.
Lemma n2b_b2n b : n2b (b2n b) = b.
Proof. unfold n2b, b2n. rewrite N.mod_small by (pose proof (Byte.to_N_bounded b); lia). rewrite Byte.of_to_N. reflexivity. Qed.

(* the standard alphabet A-Z a-z 0-9 + / *)
Definition enc6 (n : N) : byte :=
  if n <? 26 then n2b (65 + n) else if n <? 52 then n2b (97 + (n - 26)) else if n <? 62 then n2b (48 + (n - 52))
  else if n =? 62 then x2b else x2f.
Definition dec6 (b : byte) : option N :=
  let v := b2n b in
  if (65 <=? v) && (v <=? 90) then Some (v - 65) else if (97 <=? v) && (v <=? 122) then Some (v - 97 + 26)
  else if (48 <=? v) && (v <=? 57) then Some (v - 48 + 52) else if v =? 43 then Some 62 else if v =? 47 then Some 63 else None.

Lemma dec6_enc6 n : n < 64 -> dec6 (enc6 n) = Some n.
Proof.
  intros H. assert (A : forallb (fun k => match dec6 (enc6 (N.of_nat k)) with Some m => m =? N.of_nat k | None => false end) (seq 0 64) = true)
    by (vm_compute; reflexivity).
  rewrite forallb_forall in A. specialize (A (N.to_nat n)). rewrite N2Nat.id in A.
  destruct (dec6 (enc6 n)) as [m|]; [|discriminate A; apply in_seq; lia].
  f_equal. apply N.eqb_eq. apply A. apply in_seq. lia.
Qed.
Definition PAD : byte := x3d.

Fixpoint b64enc (l : bytes) : bytes :=
  match l with
  | a :: b :: c :: r =>
      let '(a, b, c) := (b2n a, b2n b, b2n c) in
      enc6 (a / 4) :: enc6 ((a mod 4) * 16 + b / 16) :: enc6 ((b mod 16) * 4 + c / 64) :: enc6 (c mod 64) :: b64enc r
  | [a; b] => let '(a, b) := (b2n a, b2n b) in
      [enc6 (a / 4); enc6 ((a mod 4) * 16 + b / 16); enc6 ((b mod 16) * 4); PAD]
  | [a] => let a := b2n a in [enc6 (a / 4); enc6 ((a mod 4) * 16); PAD; PAD]
  | [] => []
  end.

Definition isPad (b : byte) : bool := Byte.eqb b PAD.

Fixpoint b64dec (l : bytes) : option bytes :=
  match l with
  | [] => Some []
  | w :: x :: y :: z :: r =>
      match dec6 w, dec6 x with
      | Some s0, Some s1 =>
          if isPad y then (if isPad z then match r with [] => Some [n2b (s0 * 4 + s1 / 16)] | _ => None end else None)
          else match dec6 y with
               | Some s2 =>
                   if isPad z then match r with [] => Some [n2b (s0 * 4 + s1 / 16); n2b ((s1 mod 16) * 16 + s2 / 4)] | _ => None end
                   else match dec6 z, b64dec r with
                        | Some s3, Some t => Some (n2b (s0 * 4 + s1 / 16) :: n2b ((s1 mod 16) * 16 + s2 / 4) :: n2b ((s2 mod 4) * 64 + s3) :: t)
                        | _, _ => None end
               | None => None end
      | _, _ => None end
  | _ => None
  end.

Lemma isPad_enc6 n : n < 64 -> isPad (enc6 n) = false.
Proof.
  intros H. assert (A : forallb (fun k => negb (isPad (enc6 (N.of_nat k)))) (seq 0 64) = true) by (vm_compute; reflexivity).
  rewrite forallb_forall in A. specialize (A (N.to_nat n)). rewrite N2Nat.id in A.
  apply negb_true_iff. apply A. apply in_seq. lia.
Qed.

Lemma list_ind3 (P : bytes -> Prop) :
  P [] -> (forall a, P [a]) -> (forall a b, P [a; b]) -> (forall a b c r, P r -> P (a :: b :: c :: r)) -> forall l, P l.
Proof.
  intros H0 H1 H2 H3. fix IH 1. intros [|a [|b [|c r]]]; [apply H0|apply H1|apply H2|apply H3; apply IH].
Qed.

Ltac nb := repeat match goal with |- context [b2n (n2b ?x)] => idtac end.

Ltac fin x := transitivity (n2b (b2n x)); [f_equal; lia | apply n2b_b2n].

Theorem b64_roundtrip : forall l, b64dec (b64enc l) = Some l.
Proof.
  apply list_ind3.
  - reflexivity.
  - intros a. cbn [b64enc b64dec]. pose proof (b2n_lt a).
    rewrite !dec6_enc6 by lia. change (isPad PAD) with true. cbv iota.
    f_equal. f_equal. fin a.
  - intros a b. cbn [b64enc b64dec]. pose proof (b2n_lt a). pose proof (b2n_lt b).
    rewrite !dec6_enc6 by lia. rewrite isPad_enc6 by lia. change (isPad PAD) with true. cbv iota.
    f_equal. f_equal; [|f_equal].
    + fin a.
    + fin b.
  - intros a b c r IH. cbn [b64enc b64dec]. pose proof (b2n_lt a). pose proof (b2n_lt b). pose proof (b2n_lt c).
    rewrite !dec6_enc6 by lia. rewrite !isPad_enc6 by lia. rewrite IH. cbv iota.
    f_equal. f_equal; [|f_equal; [|f_equal]].
    + fin a.
    + fin b.
    + fin c.
Qed.
Print Assumptions b64_roundtrip.
