From Coq Require Import List Arith NArith PArith Lia Bool.
Import ListNotations.

Section Iter.
Context {S : Type}.
Variable f : S -> option S.

(* n-fold iteration with early exit on failure, by binary recursion (no data-sized nat) *)
Fixpoint iter_pos (p : positive) (s : S) : option S :=
  match p with
  | xH => f s
  | xO p' => match iter_pos p' s with Some s' => iter_pos p' s' | None => None end
  | xI p' => match f s with
             | Some s1 => match iter_pos p' s1 with Some s2 => iter_pos p' s2 | None => None end
             | None => None end
  end.
Definition iterN (n : N) (s : S) : option S := match n with N0 => Some s | Npos p => iter_pos p s end.

Fixpoint iter_nat (n : nat) (s : S) : option S :=
  match n with O => Some s | Datatypes.S k => match f s with Some s' => iter_nat k s' | None => None end end.

Lemma iter_nat_add a b s :
  iter_nat (a + b) s = match iter_nat a s with Some s' => iter_nat b s' | None => None end.
Proof. revert s. induction a as [|a IH]; intros s; simpl; [reflexivity|]. destruct (f s); [apply IH|reflexivity]. Qed.

Lemma iter_pos_nat p : forall s, iter_pos p s = iter_nat (Pos.to_nat p) s.
Proof.
  induction p as [p IH|p IH|]; intros s; cbn [iter_pos].
  - rewrite Pos2Nat.inj_xI. cbn [iter_nat]. destruct (f s) as [s1|]; [|reflexivity].
    replace (2 * Pos.to_nat p)%nat with (Pos.to_nat p + Pos.to_nat p)%nat by lia.
    rewrite iter_nat_add, <- IH. destruct (iter_pos p s1); [apply IH|reflexivity].
  - rewrite Pos2Nat.inj_xO. replace (2 * Pos.to_nat p)%nat with (Pos.to_nat p + Pos.to_nat p)%nat by lia.
    rewrite iter_nat_add, <- IH. destruct (iter_pos p s); [apply IH|reflexivity].
  - change (Pos.to_nat 1) with 1%nat. cbn [iter_nat]. destruct (f s); reflexivity.
Qed.

Lemma iterN_nat n s : iterN n s = iter_nat (N.to_nat n) s.
Proof. destruct n; simpl; [reflexivity|apply iter_pos_nat]. Qed.
End Iter.

(* ------------------------------------------------------------------------------------ *)
(* hash chunking of rdbReader.readObjectValue (RdbTypeHash)                               *)
Section Chunk.
Variable byte : Type.
Definition bytes := list byte.
Variable rd_pair : bytes -> option (bytes * bytes).    (* two ReadString calls, tee-captured *)
Variable limit : nat.                                   (* 16 MiB *)

(* loop state: index, number of pairs to read in this call, captured bytes, unread input, remainMember *)
Record hst := { idx : nat; total : nat; cap : bytes; inp : bytes; remain : nat; stopped : bool }.

Definition hstep (s : hst) : option hst :=
  if stopped s then Some s else
  match rd_pair (inp s) with
  | None => None
  | Some (p, r) =>
      let cap' := cap s ++ p in
      if (Nat.ltb limit (length cap')) && negb (Nat.eqb (idx s) (total s - 1))
      then Some {| idx := S (idx s); total := total s; cap := cap'; inp := r;
                   remain := total s - idx s - 1; stopped := true |}
      else Some {| idx := S (idx s); total := total s; cap := cap'; inp := r; remain := 0; stopped := false |}
  end.

(* specification, structural on the list of encoded pairs *)
Fixpoint take_chunk (cap : bytes) (ps : list bytes) : bytes * list bytes :=
  match ps with
  | [] => (cap, [])
  | p :: rest =>
      let cap' := cap ++ p in
      match rest with
      | [] => (cap', [])
      | _ => if Nat.ltb limit (length cap') then (cap', rest) else take_chunk cap' rest
      end
  end.

Hypothesis rd_ok : forall p r, rd_pair (p ++ r) = Some (p, r).
  (* instantiated for the encodings of two rstrings by the ReadString lemmas *)

Lemma take_chunk_rest_le : forall ps c0 c r, take_chunk c0 ps = (c, r) -> length r <= length ps.
Proof.
  unfold bytes in *.
  induction ps as [|x l IHl]; intros c0 c r T; simpl in T.
  - inversion T; simpl; lia.
  - destruct l as [|y l'].
    + inversion T; simpl; lia.
    + destruct (Nat.ltb limit (length (c0 ++ x))).
      * inversion T; subst; simpl; lia.
      * apply IHl in T. simpl in *. lia.
Qed.

Lemma stopped_fix n s : stopped s = true -> iter_nat hstep n s = Some s.
Proof. induction n as [|n IH]; intros H; simpl; [reflexivity|]. unfold hstep at 1. rewrite H. apply IH, H. Qed.

Lemma hash_call_spec : forall ps k c0 R,
  iter_nat hstep (length ps)
    {| idx := k; total := k + length ps; cap := c0; inp := concat ps ++ R; remain := 0; stopped := false |}
  = let '(c, rest) := take_chunk c0 ps in
    Some {| idx := k + (length ps - length rest); total := k + length ps; cap := c;
            inp := concat rest ++ R; remain := length rest;
            stopped := negb (Nat.eqb (length rest) 0) |}.
Proof.
  induction ps as [|p rest IH]; intros k c0 R.
  - simpl. repeat f_equal; lia.
  - cbn [length iter_nat concat take_chunk]. unfold hstep at 1. cbn [stopped inp cap idx total].
    rewrite <- app_assoc, rd_ok.
    destruct rest as [|q rest'].
    + (* last pair: never split *)
      cbn [length].
      replace (Nat.eqb k (k + 1 - 1)) with true by (symmetry; apply Nat.eqb_eq; lia).
      cbn [negb]. rewrite andb_false_r. cbn [iter_nat length]. repeat f_equal; cbn [length]; try lia; reflexivity.
    + replace (Nat.eqb k (k + S (length (q :: rest')) - 1)) with false
        by (symmetry; apply Nat.eqb_neq; simpl; lia).
      cbn [negb]. rewrite andb_true_r.
      destruct (Nat.ltb limit (length (c0 ++ p))) eqn:L.
      * (* split here *)
        lazy beta iota zeta.
        rewrite stopped_fix by reflexivity.
        cbn [length Nat.eqb negb]. f_equal. unfold bytes in *. f_equal; lia.
      * (* continue *)
        lazy beta iota zeta.
        specialize (IH (S k) (c0 ++ p) R).
        replace (S k + length (q :: rest')) with (k + S (length (q :: rest'))) in IH by lia.
        rewrite IH. destruct (take_chunk (c0 ++ p) (q :: rest')) as [c r] eqn:T.
        pose proof (take_chunk_rest_le _ _ _ _ T) as Hr.
        cbn [length] in *. unfold bytes in *. f_equal. f_equal; try lia.
Qed.
End Chunk.
Print Assumptions hash_call_spec.
