From Coq Require Import List NArith ZArith Bool Strings.Byte Lia.
Import ListNotations.
Notation bytes := (list byte).

(* C06: the filter predicates of filter.go and the way each data path applies them. *)
Fixpoint prefix_of (p s : bytes) : bool :=            (* strings.HasPrefix(s, p) *)
  match p, s with
  | [], _ => true
  | a :: p', b :: s' => Byte.eqb a b && prefix_of p' s'
  | _ :: _, [] => false
  end.
Definition has_prefix_in (ps : list bytes) (k : bytes) : bool := existsb (fun p => prefix_of p k) ps.

Record cfg := { key_black : list bytes; key_white : list bytes; db_black : list Z; db_white : list Z;
                slots : list N; filter_lua : bool; ckpt_key : bytes }.

(* true = filtered out, exactly as the Go predicates *)
Definition filter_key (c : cfg) (k : bytes) : bool :=
  if prefix_of (ckpt_key c) k then true
  else match key_black c with
       | _ :: _ => has_prefix_in (key_black c) k
       | [] => match key_white c with _ :: _ => negb (has_prefix_in (key_white c) k) | [] => false end
       end.
Definition filter_db (c : cfg) (d : Z) : bool :=
  match db_black c with
  | _ :: _ => existsb (Z.eqb d) (db_black c)
  | [] => match db_white c with _ :: _ => negb (existsb (Z.eqb d) (db_white c)) | [] => false end
  end.
Definition filter_slot (c : cfg) (s : N) : bool :=
  match slots c with [] => false | _ => negb (existsb (N.eqb s) (slots c)) end.
Definition key_filter_configured (c : cfg) : bool :=
  match key_black c, key_white c with [], [] => false | _, _ => true end.

(* the four data paths, for a key record (db, key) whose slot is `slot_of key`; true = reaches the target *)
Section Paths.
Variable slot_of : bytes -> N.
Definition path_full    (c : cfg) (d : Z) (k : bytes) : bool := negb (filter_db c d) && negb (filter_key c k) && negb (filter_slot c (slot_of k)).
Definition path_restore (c : cfg) (d : Z) (k : bytes) : bool := negb (filter_db c d) && negb (filter_key c k).
Definition path_rump    (c : cfg) (d : Z) (k : bytes) : bool :=
  negb (filter_db c d) && (if key_filter_configured c then negb (filter_key c k) else true).
Definition path_incr    (c : cfg) (d : Z) (k : bytes) : bool :=           (* a single-key table command *)
  negb (filter_db c d) && (if key_filter_configured c then negb (filter_key c k) else true).

(* the property's prose *)
Definition spec_key (c : cfg) (k : bytes) : bool :=                       (* true = passes the configured lists *)
  match key_black c, key_white c with
  | _ :: _, _ => negb (has_prefix_in (key_black c) k)
  | [], _ :: _ => has_prefix_in (key_white c) k
  | [], [] => true
  end.
Definition spec_db (c : cfg) (d : Z) : bool :=
  match db_black c, db_white c with
  | _ :: _, _ => negb (existsb (Z.eqb d) (db_black c))
  | [], _ :: _ => existsb (Z.eqb d) (db_white c)
  | [], [] => true
  end.
Definition is_ckpt (c : cfg) (k : bytes) := prefix_of (ckpt_key c) k.

Lemma filter_db_spec c d : negb (filter_db c d) = spec_db c d.
Proof. unfold filter_db, spec_db. destruct (db_black c), (db_white c); simpl; rewrite ?negb_involutive; reflexivity. Qed.
Lemma filter_key_spec c k : negb (filter_key c k) = negb (is_ckpt c k) && spec_key c k.
Proof. unfold filter_key, spec_key, is_ckpt. destruct (prefix_of (ckpt_key c) k); simpl; [reflexivity|].
  destruct (key_black c), (key_white c); simpl; rewrite ?negb_involutive; reflexivity. Qed.

(* same decision for the same key in every mode (slot list only in the full phase of sync; the tool's own
   checkpoint keys excluded by full sync / restore always, by the others once a key filter is configured) *)
Theorem C06_paths_agree c d k :
  path_restore c d k = spec_db c d && negb (is_ckpt c k) && spec_key c k /\
  path_full c d k = path_restore c d k && negb (filter_slot c (slot_of k)) /\
  path_rump c d k = path_incr c d k /\
  path_rump c d k = spec_db c d && (if key_filter_configured c then negb (is_ckpt c k) && spec_key c k else true) /\
  (is_ckpt c k = false -> path_rump c d k = path_restore c d k).
Proof.
  unfold path_full, path_restore, path_rump, path_incr.
  rewrite !filter_db_spec, !filter_key_spec. repeat split; try reflexivity.
  - rewrite andb_assoc. reflexivity.
  - intros Hc. rewrite Hc. simpl. unfold key_filter_configured, spec_key.
    destruct (key_black c), (key_white c); reflexivity.
Qed.

(* prefix semantics on arbitrary bytes *)
Lemma prefix_of_app p s : prefix_of p (p ++ s) = true.
Proof. induction p; simpl; auto. rewrite IHp. assert (Byte.eqb a a = true) by (apply Byte.byte_dec_lb; reflexivity). rewrite H. reflexivity. Qed.
Lemma prefix_of_spec p s : prefix_of p s = true <-> exists t, s = p ++ t.
Proof.
  revert s. induction p as [|a p IH]; intros s; simpl.
  - split; [eexists; reflexivity|auto].
  - destruct s as [|b s]; [split; [discriminate|intros [t H]; discriminate]|].
    rewrite andb_true_iff, IH. split.
    + intros [E [t ->]]. apply Byte.byte_dec_bl in E. subst. eexists; reflexivity.
    + intros [t H]. inversion H; subst. split; [apply Byte.byte_dec_lb; reflexivity|eexists; reflexivity].
Qed.
End Paths.
