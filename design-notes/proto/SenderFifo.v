From Coq Require Import List NArith ZArith Lia Bool.
Import ListNotations.

(* ---------- abstract commands ---------- *)
Inductive kind := KSelect (n : Z) | KMulti | KExec | KPing | KOther (id : nat).
Record raw := { rk : kind; rfiltered : bool (* FilterCommands or sentinel hello *);
                rkeyrej : bool (* key filter rejects *); rend : Z (* decoder offset after it *) }.

Record cfg := { filter_db : Z -> bool; target_db : option Z; resume : bool;
                scount : nat; ssize : nat }.

(* item sent from parser to sender *)
Inductive icmd := ISelectLower (n : Z) | ISelectUpper (n : Z) | IMulti | IExec | IPing | IData (id : nat).
Record item := { ic : icmd; ioff : Z; idb : Z; ilen : nat }.

(* ---------- parser (parseSourceCommand) ---------- *)
Record pst := { lastDb : Z; bypass : bool }.

Definition parse_step (c : cfg) (base : Z) (s : pst) (r : raw) : pst * list item :=
  let mk ic db := {| ic := ic; ioff := base + rend r; idb := db; ilen := 1 |} in
  match rk r with
  | KPing =>
      (* sCmd == "ping": skips the first filter block; second block: bypass || ignoreCmd || reject *)
      if bypass s || rkeyrej r then (s, []) else (s, [mk IPing (lastDb s)])
  | KSelect n =>
      let s1 := {| lastDb := n; bypass := filter_db c n |} in
      if bypass s1 then (s1, [])
      else if rkeyrej r then (s1, [])
      else match target_db c with
           | Some t => if Z.eqb t n then (s1, [])                     (* F10: swallowed *)
                       else ({| lastDb := t; bypass := bypass s1 |}, [mk (ISelectUpper t) t])
           | None => (s1, [mk (ISelectLower n) n])
           end
  | k =>
      if bypass s || rfiltered r then (s, [])
      else if rkeyrej r then (s, [])
      else (s, [mk (match k with KMulti => IMulti | KExec => IExec | KOther i => IData i | _ => IPing end) (lastDb s)])
  end.

Fixpoint parse_all (c : cfg) (base : Z) (s : pst) (rs : list raw) : list item :=
  match rs with [] => [] | r :: rs' => let '(s', out) := parse_step c base s r in out ++ parse_all c base s' rs' end.

(* ---------- sender (sendTargetCommand) ---------- *)
Inductive bstat := BNo | BAdd | BHoldStart | BHolding | BHoldEnd.
Definition bmap (i : icmd) : option bstat :=
  match i with ISelectLower _ => Some BAdd | IMulti => Some BHoldStart | IExec => Some BHoldEnd | _ => None end.
Definition barrier (i : icmd) (prev : bstat) : bstat * bool :=
  match prev with
  | BNo | BAdd | BHoldEnd => match bmap i with Some b => (b, true) | None => (BNo, false) end
  | BHoldStart | BHolding => match bmap i with Some BHoldEnd => (BHoldEnd, true) | _ => (BHolding, false) end
  end.

Record sst := { cache : list item; csize : nat; bs : bstat }.
Inductive ev := EItem (i : item) | ETick (bufEmpty : bool).
Definition group := list item.

Definition flush (s : sst) : sst * list group :=
  match cache s with [] => (s, []) | _ => ({| cache := []; csize := 0; bs := bs s |}, [cache s]) end.

Definition sstep (c : cfg) (s : sst) (e : ev) : sst * list group :=
  match e with
  | EItem i =>
      let '(b, fl) := barrier (ic i) (bs s) in
      let '(s1, g1) := if fl then flush s else (s, []) in
      let s2 := match b with
                | BHoldStart | BHoldEnd => {| cache := cache s1; csize := csize s1; bs := b |}
                | _ => {| cache := cache s1 ++ [i]; csize := csize s1 + ilen i; bs := b |}
                end in
      if (Nat.ltb (length (cache s2)) (scount c) && Nat.ltb (csize s2) (ssize c))%bool
      then (s2, g1) else let '(s3, g3) := flush s2 in (s3, g1 ++ g3)
  | ETick be =>
      let fl := (be && negb (Nat.eqb (length (cache s)) 0))%bool in
      if (Nat.ltb (length (cache s)) (scount c) && Nat.ltb (csize s) (ssize c) && negb fl)%bool
      then (s, []) else flush s
  end.

Fixpoint srun (c : cfg) (s : sst) (es : list ev) : sst * list group :=
  match es with [] => (s, []) | e :: es' => let '(s1, g1) := sstep c s e in let '(s2, g2) := srun c s1 es' in (s2, g1 ++ g2) end.

(* items of a schedule, in order *)
Definition items_of (es : list ev) : list item := flat_map (fun e => match e with EItem i => [i] | _ => [] end) es.

(* which items survive the barrier automaton, as a function of the item list alone *)
Fixpoint survive (b : bstat) (is : list item) : list item :=
  match is with [] => [] | i :: r =>
    let '(b', _) := barrier (ic i) b in
    match b' with BHoldStart | BHoldEnd => survive b' r | _ => i :: survive b' r end end.

Lemma flush_flat s : let '(s', g) := flush s in concat g ++ cache s' = cache s /\ bs s' = bs s.
Proof. unfold flush. destruct (cache s) eqn:E; simpl; rewrite ?E, ?app_nil_r; auto. Qed.

Theorem sender_fifo c : forall es s,
  let '(s', gs) := srun c s es in
  concat gs ++ cache s' = cache s ++ survive (bs s) (items_of es).
Proof.
  induction es as [|e es IH]; intros s; simpl.
  - rewrite app_nil_r. reflexivity.
  - destruct (sstep c s e) as [s1 g1] eqn:E1. specialize (IH s1).
    destruct (srun c s1 es) as [s2 g2] eqn:E2. rewrite concat_app, <- app_assoc, IH. clear IH E2.
    destruct e as [i|be]; simpl in *.
    + destruct (barrier (ic i) (bs s)) as [b fl] eqn:Eb.
      pose proof (flush_flat s) as Fs. destruct (flush s) as [sf gf] eqn:Ef.
      set (s1' := if fl then (sf, gf) else (s, [])) in *.
      assert (H1 : concat (snd s1') ++ cache (fst s1') = cache s /\ bs (fst s1') = bs s).
      { destruct fl; simpl; auto. }
      destruct s1' as [sa ga]; simpl in H1. destruct H1 as [H1 H1b].
      match type of E1 with context [if ?t then _ else _] => destruct t end.
      * inversion E1; subst; clear E1.
        destruct b; simpl; rewrite ?app_assoc, ?H1; try reflexivity;
          rewrite <- ?app_assoc; simpl; rewrite ?app_assoc, ?H1; reflexivity.
      * match type of E1 with context [flush ?x] => pose proof (flush_flat x) as F2; destruct (flush x) as [s3 g3] end.
        inversion E1; subst; clear E1. destruct F2 as [F2 F2b].
        rewrite concat_app, <- !app_assoc. rewrite (app_assoc (concat g3)), F2, F2b.
        destruct b; simpl; rewrite ?app_assoc, ?H1; try reflexivity;
          rewrite <- ?app_assoc; simpl; rewrite ?app_assoc, ?H1; reflexivity.
    + match type of E1 with context [if ?t then _ else _] => destruct t end.
      * inversion E1; subst. simpl. reflexivity.
      * pose proof (flush_flat s) as F. rewrite E1 in F. destruct F as [F Fb]. rewrite app_assoc, F, Fb. reflexivity.
Qed.
Print Assumptions sender_fifo.
