From Coq Require Import List ZArith Lia Bool.
Import ListNotations.
Open Scope Z_scope.

Inductive kind := KSelect (n : Z) | KMulti | KExec | KPing | KOther (id : nat).
Record raw := { rk : kind; rfiltered : bool; rkeyrej : bool; rend : Z }.
Record cfg := { filter_db : Z -> bool; target_db : option Z }.

Inductive icmd := ISelect (n : Z) | IMulti | IExec | IPing | IData (id : nat).
Record item := { ic : icmd; ioff : Z }.

(* parser state incl. the repaired target.db tracking (tsel = a SELECT target.db was sent) *)
Record pst := { lastDb : Z; bypass : bool; tsel : bool }.

Definition parse_step (c : cfg) (base : Z) (s : pst) (r : raw) : pst * list item :=
  let mk i := {| ic := i; ioff := base + rend r |} in
  match rk r with
  | KPing => if bypass s || rkeyrej r then (s, []) else (s, [mk IPing])
  | KSelect n =>
      let byp := filter_db c n in
      if byp then ({| lastDb := n; bypass := true; tsel := tsel s |}, [])
      else match target_db c with
           | Some t => if Z.eqb t n && tsel s then ({| lastDb := n; bypass := false; tsel := true |}, [])
                       else ({| lastDb := t; bypass := false; tsel := true |}, [mk (ISelect t)])
           | None => ({| lastDb := n; bypass := false; tsel := tsel s |}, [mk (ISelect n)])
           end
  | KMulti => if bypass s || rfiltered r || rkeyrej r then (s, []) else (s, [mk IMulti])
  | KExec => if bypass s || rfiltered r || rkeyrej r then (s, []) else (s, [mk IExec])
  | KOther i => if bypass s || rfiltered r || rkeyrej r then (s, []) else (s, [mk (IData i)])
  end.

Fixpoint parse_all (c : cfg) (base : Z) (s : pst) (rs : list raw) : list item :=
  match rs with [] => [] | r :: rs' => let '(s', out) := parse_step c base s r in out ++ parse_all c base s' rs' end.

Inductive payload := PPing | PData (id : nat) | PMarker.

(* what the target executes, by connection db *)
Fixpoint delivered (cdb : Z) (is : list item) : list (Z * payload) :=
  match is with [] => [] | i :: r =>
    match ic i with
    | ISelect n => delivered n r
    | IPing => (cdb, PPing) :: delivered cdb r
    | IData id => (cdb, PData id) :: delivered cdb r
    | IMulti | IExec => (cdb, PMarker) :: delivered cdb r
    end end.

Definition notmarker (i : item) : bool := match ic i with IMulti | IExec => false | _ => true end.

(* reference semantics *)
Definition tdb (c : cfg) (sdb : Z) := match target_db c with Some t => t | None => sdb end.
Fixpoint spec (c : cfg) (sdb : Z) (byp : bool) (rs : list raw) : list (Z * payload) :=
  match rs with [] => [] | r :: rs' =>
    match rk r with
    | KSelect n => spec c n (filter_db c n) rs'
    | KPing => (if byp || rkeyrej r then [] else [(tdb c sdb, PPing)]) ++ spec c sdb byp rs'
    | KMulti | KExec => spec c sdb byp rs'
    | KOther id => (if byp || rfiltered r || rkeyrej r then [] else [(tdb c sdb, PData id)]) ++ spec c sdb byp rs'
    end end.

Lemma delivered_app cdb a b : exists cdb', delivered cdb (a ++ b) = delivered cdb a ++ delivered cdb' b /\
  cdb' = fold_left (fun d i => match ic i with ISelect n => n | _ => d end) a cdb.
Proof.
  revert cdb. induction a as [|i a IH]; intros cdb; simpl.
  - eexists; split; reflexivity.
  - destruct (ic i) eqn:E; simpl; [destruct (IH n)|destruct (IH cdb)|destruct (IH cdb)|destruct (IH cdb)|destruct (IH cdb)];
      destruct H as [H1 H2]; eexists; (split; [rewrite H1; reflexivity| exact H2]).
Qed.

(* invariant between parser state, connection db and reference state *)
Definition rel (c : cfg) (s : pst) (cdb sdb : Z) (byp : bool) : Prop :=
  bypass s = byp /\
  match target_db c with
  | Some t => (tsel s = true -> cdb = t) /\ (byp = false -> tsel s = true)
  | None => byp = false -> cdb = sdb
  end.

Lemma rel_cdb c s cdb sdb byp : rel c s cdb sdb byp -> byp = false -> cdb = tdb c sdb.
Proof. unfold rel, tdb. intros [_ H] E. destruct (target_db c); [destruct H; auto|auto]. Qed.

Theorem parser_refines_spec c base : forall rs s cdb sdb byp,
  rel c s cdb sdb byp ->
  delivered cdb (filter notmarker (parse_all c base s rs)) = spec c sdb byp rs.
Proof.
  induction rs as [|r rs IH]; intros s cdb sdb byp R; simpl; [reflexivity|].
  pose proof R as [Hb Hr].
  unfold parse_step. destruct (rk r) as [n| | | |id] eqn:K.
  - (* select *)
    destruct (filter_db c n) eqn:F.
    + simpl. apply IH. unfold rel in *. simpl. split; auto.
      destruct (target_db c); [destruct Hr; split; auto; discriminate|discriminate].
    + destruct (target_db c) as [t|] eqn:T.
      * destruct (Z.eqb t n && tsel s) eqn:E.
        -- simpl. apply IH. apply andb_true_iff in E. destruct E as [E1 E2]. apply Z.eqb_eq in E1. subst n.
           unfold rel. simpl. rewrite T. destruct Hr. split; auto.
        -- simpl. apply IH. unfold rel. simpl. rewrite T. auto.
      * simpl. apply IH. unfold rel. simpl. rewrite T. auto.
  - destruct (bypass s || rfiltered r || rkeyrej r); simpl; apply IH; exact R.
  - destruct (bypass s || rfiltered r || rkeyrej r); simpl; apply IH; exact R.
  - rewrite Hb. destruct (byp || rkeyrej r) eqn:E; simpl.
    + apply IH; exact R.
    + apply orb_false_iff in E. destruct E as [E _]. rewrite <- (rel_cdb _ _ _ _ _ R E). f_equal. apply IH; exact R.
  - rewrite Hb. destruct (byp || rfiltered r || rkeyrej r) eqn:E; simpl.
    + apply IH; exact R.
    + apply orb_false_iff in E. destruct E as [E _]. apply orb_false_iff in E. destruct E as [E _].
      rewrite <- (rel_cdb _ _ _ _ _ R E). f_equal. apply IH; exact R.
Qed.

(* initial states that satisfy rel:
   - no target.db: fresh connection (db 0) and the stream's db at the start point is 0, or a resumed run
     whose injected `select startdb` has been delivered;
   - target.db = t: the stream starts with a SELECT (first state has byp = true "virtually": nothing may be
     forwarded before the first SELECT) *)
Example rel_init_none c sdb : target_db c = None -> rel c {| lastDb := -1; bypass := false; tsel := false |} sdb sdb false.
Proof. intros T. unfold rel. simpl. rewrite T. auto. Qed.
Print Assumptions parser_refines_spec.
