From Coq Require Import List ZArith Lia Bool.
Import ListNotations.
Open Scope Z_scope.

(* C08: the acknowledgement / reconnect bookkeeping of pSyncPipeCopy + runIncrementalSync.
   Events are what the runtime does; the theorems quantify over every event sequence. *)
Inductive ev := Recv (n : Z) | Tick | FullDone | Drop | Reconnected.
Inductive out := Ack (v : Z) | Psync (v : Z).

(* ---------- today's code: `ds.sourceOffset += nread.Get()` on every tick ---------- *)
Record st := { soff : Z; nread : Z; full : bool }.
Definition step_today (s : st) (e : ev) : st * list out :=
  match e with
  | Recv n => ({| soff := soff s; nread := nread s + n; full := full s |}, [])
  | Tick => if full s then let o := soff s + nread s in ({| soff := o; nread := nread s; full := true |}, [Ack o])
            else (s, [Ack 0])
  | FullDone => ({| soff := soff s; nread := nread s; full := true |}, [])
  | Drop => (s, [])
  | Reconnected => ({| soff := soff s; nread := 0; full := full s |}, [Psync (soff s + 1)])
  end.

(* ---------- repaired code: a local `offset`, acks are offset + nread ---------- *)
Record st2 := { off2 : Z; nread2 : Z; full2 : bool }.
Definition step_fixed (s : st2) (e : ev) : st2 * list out :=
  match e with
  | Recv n => ({| off2 := off2 s; nread2 := nread2 s + n; full2 := full2 s |}, [])
  | Tick => if full2 s then (s, [Ack (off2 s + nread2 s)]) else (s, [Ack 0])
  | FullDone => ({| off2 := off2 s; nread2 := nread2 s; full2 := true |}, [])
  | Drop => ({| off2 := off2 s + nread2 s; nread2 := 0; full2 := full2 s |}, [])   (* offset += n when the copy loop returns *)
  | Reconnected => (s, [Psync (off2 s + nread2 s + 1)])   (* nread2 = 0 here: a reconnect follows a Drop *)
  end.

Fixpoint run {S} (step : S -> ev -> S * list out) (s : S) (es : list ev) : S * list out :=
  match es with [] => (s, []) | e :: r => let '(s1, o1) := step s e in let '(s2, o2) := run step s1 r in (s2, o1 ++ o2) end.

(* bytes received so far *)
Fixpoint received (es : list ev) : Z := match es with [] => 0 | Recv n :: r => n + received r | _ :: r => received r end.

(* the property, as a predicate on an execution prefix *)
Definition exact (start : Z) (pre : list ev) (o : out) : Prop :=
  match o with Ack v => v = 0 \/ v = start + received pre | Psync v => v = start + received pre + 1 end.

Definition wf (es : list ev) := Forall (fun e => match e with Recv n => 0 <= n | _ => True end) es.

(* invariant of the repaired machine: off2 + nread2 = start + received *)
Lemma fixed_exact : forall es pre s start,
  off2 s + nread2 s = start + received pre ->
  forall o, In o (snd (run step_fixed s es)) -> exists k, exact start (pre ++ firstn k es) o.
Proof.
  induction es as [|e es IH]; intros pre s start Inv o Hin; simpl in Hin; [contradiction|].
  destruct (step_fixed s e) as [s1 o1] eqn:E1. destruct (run step_fixed s1 es) as [s2 o2] eqn:E2.
  simpl in Hin. apply in_app_or in Hin.
  assert (Inv1 : off2 s1 + nread2 s1 = start + received (pre ++ [e])).
  { assert (R : received (pre ++ [e]) = received pre + received [e]).
    { clear. induction pre as [|x pre IHp]; [simpl; lia|]. destruct x; cbn [app received]; rewrite IHp; simpl; lia. }
    rewrite R. destruct e; simpl in E1; try (destruct (full2 s)); inversion E1; subst; simpl; lia. }
  destruct Hin as [Hin|Hin].
  - exists 0%nat. rewrite firstn_O, app_nil_r.
    destruct e; simpl in E1; try (destruct (full2 s)); inversion E1; subst; simpl in Hin;
      try contradiction; destruct Hin as [<-|[]]; simpl; auto; lia.
  - specialize (IH (pre ++ [e]) s1 start Inv1 o). rewrite E2 in IH. destruct (IH Hin) as [k Hk].
    exists (S k). simpl. rewrite <- app_assoc in Hk. exact Hk.
Qed.

Theorem C08_fixed start es o :
  In o (snd (run step_fixed {| off2 := start; nread2 := 0; full2 := false |} es)) ->
  exists k, exact start (firstn k es) o.
Proof. intros H. apply (fixed_exact es [] _ start) in H; [exact H|simpl; lia]. Qed.

(* today's machine acknowledges bytes it never received *)
Theorem C08_today_refuted : exists es o, In o (snd (run step_today {| soff := 1000; nread := 0; full := false |} es))
  /\ forall k, ~ exact 1000 (firstn k es) o.
Proof.
  exists [FullDone; Recv 5; Tick; Tick], (Ack 1010). split; [vm_compute; auto|].
  intros k H. unfold exact in H. destruct H as [H|H]; [discriminate|].
  assert (received (firstn k [FullDone; Recv 5; Tick; Tick]) <= 5).
  { do 5 (destruct k as [|k]; [vm_compute; discriminate|]). vm_compute. discriminate. }
  lia.
Qed.
Print Assumptions C08_fixed.
