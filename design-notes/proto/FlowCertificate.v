From Coq Require Import List PArith Bool FSets.FSetPositive.
Import ListNotations.

(* C19 static leg: certificate-checked "no flow from a secret to a sink".
   The translator emits the may-flow graph (edges over positive node ids), the sources and the sinks;
   an untrusted helper proposes a closed set C ("everything a secret can reach"); Coq checks the certificate. *)
Module PS := PositiveSet.

Definition graph := list (positive * positive).

Inductive path (g : graph) : positive -> positive -> Prop :=
| path_refl : forall a, path g a a
| path_step : forall a b c, In (a, b) g -> path g b c -> path g a c.

Definition closed (g : graph) (C : PS.t) : bool :=
  forallb (fun e => implb (PS.mem (fst e) C) (PS.mem (snd e) C)) g.
Definition check (g : graph) (srcs sinks : list positive) (C : PS.t) : bool :=
  forallb (fun s => PS.mem s C) srcs && closed g C && forallb (fun t => negb (PS.mem t C)) sinks.

Lemma closed_path g C : closed g C = true -> forall a b, path g a b -> PS.mem a C = true -> PS.mem b C = true.
Proof.
  intros Hc a b P. induction P as [a|a b c Hin P IH]; intros Ha; [exact Ha|].
  apply IH. unfold closed in Hc. rewrite forallb_forall in Hc. specialize (Hc (a, b) Hin). simpl in Hc.
  rewrite Ha in Hc. exact Hc.
Qed.

Theorem check_sound g srcs sinks C : check g srcs sinks C = true ->
  forall s t, In s srcs -> In t sinks -> ~ path g s t.
Proof.
  unfold check. intros H s t Hs Ht P.
  apply andb_true_iff in H. destruct H as [H H3]. apply andb_true_iff in H. destruct H as [H1 H2].
  rewrite forallb_forall in H1, H3.
  pose proof (closed_path g C H2 s t P (H1 s Hs)) as M. specialize (H3 t Ht). rewrite M in H3. discriminate.
Qed.

(* tiny instance: 1 = conf.Options.SourcePasswordRaw, 2 = SyncNode.SourcePassword, 3 = *SyncNode value,
   4 = argument of log.Infof at dbSyncer.go:118, 5 = ds.node.Source, 6 = argument of another log call *)
Definition g_today : graph := [(1, 2); (2, 3); (3, 4); (5, 6)]%positive.
Definition g_fixed : graph := [(1, 2); (2, 3); (5, 4); (5, 6)]%positive.
Definition set_of (l : list positive) : PS.t := fold_right PS.add PS.empty l.

Example fixed_ok : forall s t, In s [1%positive] -> In t [4; 6]%positive -> ~ path g_fixed s t.
Proof. apply (check_sound g_fixed _ _ (set_of [1; 2; 3]%positive)). vm_compute. reflexivity. Qed.
Example today_leaks : path g_today 1 4.
Proof. apply (path_step _ 1 2 4)%positive; [simpl; auto|]. apply (path_step _ 2 3 4)%positive; [simpl; auto|].
  apply (path_step _ 3 4 4)%positive; [simpl; auto|]. apply path_refl. Qed.
Print Assumptions check_sound.
