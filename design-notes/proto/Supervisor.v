From Coq Require Import List Arith Lia Bool Permutation.
Import ListNotations.

(* C20: slotSupervisor.recursiveGetSlotState.  `probe round host` is the outcome of
   "connect + INFO replication + role line" for that host in that retry round (an oracle:
   every failure sequence is some function). *)
Section Supervisor.
Variable host : Type.
Inductive probe_res := PMaster | PSlave | PErr.
Variable probe : nat -> host -> probe_res.

Definition is_master (r : nat) (h : host) : bool := match probe r h with PMaster => true | _ => false end.

(* one pass over Source :: Slaves.  acc = (current source if a master was found, slaves so far) *)
Fixpoint pass_today (r : nat) (hs : list host) (src : option host) (slaves : list host) : option host * list host :=
  match hs with
  | [] => (src, slaves)
  | h :: t => if is_master r h then pass_today r t (Some h) slaves           (* earlier master is forgotten *)
              else pass_today r t src (slaves ++ [h])
  end.

Fixpoint pass_fixed (r : nat) (hs : list host) (src : option host) (slaves : list host) : option host * list host :=
  match hs with
  | [] => (src, slaves)
  | h :: t => if is_master r h
              then pass_fixed r t (Some h) (match src with Some old => slaves ++ [old] | None => slaves end)
              else pass_fixed r t src (slaves ++ [h])
  end.

(* bounded retry: depth counts down from maxRetries; round number = maxRetries - depth *)
Fixpoint get_state (pass : nat -> list host -> option host -> list host -> option host * list host)
                   (maxr depth : nat) (hs : list host) : option (host * list host) :=
  match pass (maxr - depth) hs None [] with
  | (Some s, sl) => Some (s, sl)
  | (None, _) => match depth with O => None | S d => get_state pass maxr d hs end
  end.

Definition nodes (src : option host) (slaves : list host) : list host :=
  match src with Some s => s :: slaves | None => slaves end.

Lemma perm1 (h old : host) slaves t : Permutation (h :: (slaves ++ [old]) ++ t) (old :: slaves ++ h :: t).
Proof.
  apply perm_trans with (l' := h :: old :: slaves ++ t).
  - constructor. change (old :: slaves ++ t) with ((old :: slaves) ++ t). apply Permutation_app_tail.
    apply Permutation_sym. apply Permutation_cons_append.
  - apply perm_trans with (l' := old :: h :: slaves ++ t); [constructor|].
    constructor. apply Permutation_middle.
Qed.

Lemma pass_fixed_perm r : forall hs src slaves,
  let '(s', sl') := pass_fixed r hs src slaves in
  Permutation (nodes s' sl') (nodes src slaves ++ hs) /\
  (match s' with Some m => (src = Some m /\ forall h, In h hs -> is_master r h = false) \/ is_master r m = true
               | None => src = None /\ forall h, In h hs -> is_master r h = false end).
Proof.
  induction hs as [|h t IH]; intros src slaves; simpl.
  - rewrite app_nil_r. split; [reflexivity|]. destruct src; [left|]; split; auto; intros ? [].
  - destruct (is_master r h) eqn:M.
    + specialize (IH (Some h) (match src with Some old => slaves ++ [old] | None => slaves end)).
      destruct (pass_fixed r t (Some h) _) as [s' sl']. destruct IH as [P Q]. split.
      * rewrite P. destruct src as [old|]; simpl.
        -- apply perm1.
        -- apply Permutation_middle.
      * destruct s' as [m|]; [|destruct Q; discriminate].
        destruct Q as [[E _]|Q]; [inversion E; subst; right; exact M|right; exact Q].
    + specialize (IH src (slaves ++ [h])). destruct (pass_fixed r t src (slaves ++ [h])) as [s' sl']. destruct IH as [P Q]. split.
      * rewrite P. destruct src; simpl; rewrite <- app_assoc; reflexivity.
      * destruct s' as [m|].
        -- destruct Q as [[E F]|Q]; [left; split; auto; intros x [<-|Hx]; auto|right; exact Q].
        -- destruct Q as [E F]. split; auto. intros x [<-|Hx]; auto.
Qed.

Lemma get_state_some pass maxr hs s sl : forall depth,
  get_state pass maxr depth hs = Some (s, sl) ->
  exists r, maxr - depth <= r <= maxr /\ pass r hs None [] = (Some s, sl).
Proof.
  induction depth as [|d IH]; intros H; simpl in H;
    match type of H with context [pass ?r hs None []] => destruct (pass r hs None []) as [[m|] sl'] eqn:E end;
    try discriminate.
  - inversion H; subst. exists (maxr - 0). split; [lia|exact E].
  - inversion H; subst. exists (maxr - S d). split; [lia|exact E].
  - destruct (IH H) as (r & Hr & P). exists r. split; [lia|exact P].
Qed.

Lemma get_state_none pass maxr hs : forall depth, depth <= maxr ->
  get_state pass maxr depth hs = None ->
  forall r, maxr - depth <= r <= maxr -> fst (pass r hs None []) = None.
Proof.
  induction depth as [|d IH]; intros Hd H r Hr; simpl in H;
    match type of H with context [pass ?r0 hs None []] => destruct (pass r0 hs None []) as [[m|] sl'] eqn:E end;
    try discriminate.
  - replace r with (maxr - 0) by lia. rewrite E. reflexivity.
  - destruct (Nat.eq_dec r (maxr - S d)) as [->|Hne]; [rewrite E; reflexivity|].
    apply IH; auto; lia.
Qed.

Theorem C20_chosen_is_master maxr depth hs s sl :
  get_state pass_fixed maxr depth hs = Some (s, sl) ->
  (exists r, r <= maxr /\ is_master r s = true) /\ Permutation (s :: sl) hs.
Proof.
  intros H. destruct (get_state_some _ _ _ _ _ _ H) as (r & Hr & P).
  pose proof (pass_fixed_perm r hs None []) as L. rewrite P in L. simpl in L. destruct L as [Pm Q].
  split; [|exact Pm]. destruct Q as [[Q _]|Q]; [discriminate|]. exists r. split; [lia|exact Q].
Qed.

Theorem C20_bounded_failure maxr depth hs : depth <= maxr ->
  get_state pass_fixed maxr depth hs = None ->
  forall r, maxr - depth <= r <= maxr -> forall h, In h hs -> is_master r h = false.
Proof.
  intros Hd H r Hr h Hh. pose proof (get_state_none _ _ _ _ Hd H r Hr) as N.
  pose proof (pass_fixed_perm r hs None []) as L. destruct (pass_fixed r hs None []) as [[m|] sl']; [discriminate|].
  destruct L as [_ [_ F]]. auto.
Qed.
End Supervisor.

(* today's pass drops the first of two masters *)
Example C20_two_masters_refuted :
  pass_today nat (fun _ h => if Nat.ltb h 2 then PMaster else PSlave) 0 [0; 1; 2] None [] = (Some 1, [2]).
Proof. vm_compute. reflexivity. Qed.
Print Assumptions C20_chosen_is_master.
