From Coq Require Import List NArith ZArith Lia Bool Strings.Byte ZifyN ZifyNat ZifyBool.
Ltac Zify.zify_post_hook ::= Z.div_mod_to_equations.
Import ListNotations.
Open Scope N_scope.
Notation bytes := (list byte).

Definition b2n (b : byte) : N := Byte.to_N b.
Definition n2b (n : N) : byte := match Byte.of_N (n mod 256) with Some b => b | None => x00 end.
Lemma b2n_n2b_mod n : b2n (n2b n) = n mod 256.
Proof. unfold n2b, b2n. destruct (Byte.of_N (n mod 256)) eqn:E.
  - apply Byte.to_of_N in E. exact E.
  - apply Byte.of_N_None_iff in E. pose proof (N.mod_lt n 256). lia. Qed.
Lemma b2n_n2b n : n < 256 -> b2n (n2b n) = n.
Proof. intros. rewrite b2n_n2b_mod. apply N.mod_small. assumption. Qed.

(* little-endian, k bytes *)
Fixpoint le_enc (k : nat) (n : N) : bytes := match k with O => [] | S k' => n2b n :: le_enc k' (n / 256) end.
Fixpoint le_dec (bs : bytes) : N := match bs with [] => 0 | b :: r => b2n b + 256 * le_dec r end.
Lemma le_enc_length k n : length (le_enc k n) = k. Proof. revert n. induction k; simpl; intros; auto. Qed.
Lemma le_dec_enc k : forall n, n < 2 ^ (8 * N.of_nat k) -> le_dec (le_enc k n) = n.
Proof.
  induction k as [|k IH]; intros n H.
  - simpl in *. lia.
  - cbn [le_enc le_dec]. rewrite b2n_n2b_mod. rewrite IH.
    + pose proof (N.div_mod n 256). lia.
    + replace (8 * N.of_nat (S k)) with (8 + 8 * N.of_nat k) in H by lia. rewrite N.pow_add_r in H.
      change (2 ^ 8) with 256 in H. apply N.div_lt_upper_bound; lia.
Qed.

(* two's complement *)
Definition to_signed (bits : N) (u : N) : Z := if u <? 2 ^ (bits - 1) then Z.of_N u else (Z.of_N u - 2 ^ Z.of_N bits)%Z.
Definition of_signed (bits : N) (z : Z) : N := Z.to_N (z mod 2 ^ Z.of_N bits).
Lemma signed_roundtrip bits z : 0 < bits -> (- 2 ^ (Z.of_N bits - 1) <= z < 2 ^ (Z.of_N bits - 1))%Z ->
  to_signed bits (of_signed bits z) = z.
Proof.
  intros Hb Hz. unfold to_signed, of_signed.
  assert (P : (2 ^ Z.of_N bits = 2 * 2 ^ (Z.of_N bits - 1))%Z).
  { replace (Z.of_N bits) with (1 + (Z.of_N bits - 1))%Z at 1 by lia. rewrite Z.pow_add_r by lia. reflexivity. }
  assert (Q : Z.of_N (2 ^ (bits - 1)) = (2 ^ (Z.of_N bits - 1))%Z).
  { rewrite N2Z.inj_pow. f_equal. lia. }
  set (h := (2 ^ (Z.of_N bits - 1))%Z) in *. assert (0 < h)%Z by (apply Z.pow_pos_nonneg; lia).
  destruct (Z_lt_le_dec z 0) as [Hn|Hp].
  - assert (E : (z mod (2 ^ Z.of_N bits) = z + 2 * h)%Z).
    { rewrite P. symmetry. apply Z.mod_unique with (q := (-1)%Z); lia. }
    rewrite E. destruct (Z.to_N (z + 2 * h) <? 2 ^ (bits - 1)) eqn:L.
    + apply N.ltb_lt in L. lia.
    + rewrite Z2N.id by lia. lia.
  - assert (E : (z mod (2 ^ Z.of_N bits) = z)%Z) by (apply Z.mod_small; lia).
    rewrite E. destruct (Z.to_N z <? 2 ^ (bits - 1)) eqn:L.
    + rewrite Z2N.id by lia. reflexivity.
    + apply N.ltb_ge in L. lia.
Qed.
Lemma of_signed_lt bits z : 0 < bits -> of_signed bits z < 2 ^ bits.
Proof.
  intros Hb. unfold of_signed. assert (0 < 2 ^ Z.of_N bits)%Z by (apply Z.pow_pos_nonneg; lia).
  pose proof (Z.mod_pos_bound z (2 ^ Z.of_N bits) H). 
  assert (Z.of_N (2 ^ bits) = (2 ^ Z.of_N bits)%Z) by (rewrite N2Z.inj_pow; reflexivity). lia.
Qed.

Section Zl.
Variable render : Z -> bytes.      (* Base/Dec.v *)

(* sliceBuffer primitives *)
Definition take (n : N) (bs : bytes) : option (bytes * bytes) :=
  if N.of_nat (length bs) <? n then None else Some (firstn (N.to_nat n) bs, skipn (N.to_nat n) bs).

(* ---- model of readZiplistEntry (reader.go / cupcake decoder.go: identical text) ---- *)
Definition be_dec (bs : bytes) : N := le_dec (rev bs).
Definition read_entry (bs : bytes) : option (bytes * bytes) :=
  match bs with
  | [] => None
  | prev :: r0 =>
    let r1 := if b2n prev =? 254 then skipn 4 r0 else r0 in      (* buf.Seek(4,1): no bounds check, later reads fail *)
    match r1 with
    | [] => None
    | hb :: r =>
      let h := b2n hb in
      if h / 64 =? 0 then take (h mod 64) r
      else if h / 64 =? 1 then match r with b :: r' => take ((h mod 64) * 256 + b2n b) r' | [] => None end
      else if h / 64 =? 2 then match take 4 r with Some (l, r') => take (be_dec l) r' | None => None end
      else if h =? 192 then match take 2 r with Some (l, r') => Some (render (to_signed 16 (le_dec l)), r') | None => None end
      else if h =? 208 then match take 4 r with Some (l, r') => Some (render (to_signed 32 (le_dec l)), r') | None => None end
      else if h =? 224 then match take 8 r with Some (l, r') => Some (render (to_signed 64 (le_dec l)), r') | None => None end
      else if h =? 240 then match take 3 r with Some (l, r') => Some (render (to_signed 24 (le_dec l)), r') | None => None end
      else if h =? 254 then match r with b :: r' => Some (render (to_signed 8 (b2n b)), r') | [] => None end
      else if h / 16 =? 15 then Some (render (Z.of_N (h mod 16) - 1), r)
      else None
    end
  end.

(* ---- specification: how Redis lays out one ziplist entry ---- *)
Inductive zprev := P1 (n : N) | P5 (n : N).
Inductive zval := ZStr6 (s : bytes) | ZStr14 (s : bytes) | ZStr32 (s : bytes)
                | ZI16 (z : Z) | ZI32 (z : Z) | ZI64 (z : Z) | ZI24 (z : Z) | ZI8 (z : Z) | ZImm (v : N).
Definition enc_prev (p : zprev) : bytes := match p with P1 n => [n2b n] | P5 n => n2b 254 :: le_enc 4 n end.
Definition lenN (s : bytes) := N.of_nat (length s).
Definition enc_val (v : zval) : bytes :=
  match v with
  | ZStr6 s => n2b (lenN s) :: s
  | ZStr14 s => n2b (64 + lenN s / 256) :: n2b (lenN s) :: s
  | ZStr32 s => n2b 128 :: rev (le_enc 4 (lenN s)) ++ s
  | ZI16 z => n2b 192 :: le_enc 2 (of_signed 16 z)
  | ZI32 z => n2b 208 :: le_enc 4 (of_signed 32 z)
  | ZI64 z => n2b 224 :: le_enc 8 (of_signed 64 z)
  | ZI24 z => n2b 240 :: le_enc 3 (of_signed 24 z)
  | ZI8 z => [n2b 254; n2b (of_signed 8 z)]
  | ZImm v => [n2b (241 + v)]
  end.
Definition wf_prev (p : zprev) := match p with P1 n => n < 254 | P5 n => n < 2 ^ 32 end.
Definition wf_val (v : zval) : Prop :=
  match v with
  | ZStr6 s => lenN s < 64 | ZStr14 s => lenN s < 16384 | ZStr32 s => lenN s < 2 ^ 32
  | ZI16 z => (- 2 ^ 15 <= z < 2 ^ 15)%Z | ZI32 z => (- 2 ^ 31 <= z < 2 ^ 31)%Z | ZI64 z => (- 2 ^ 63 <= z < 2 ^ 63)%Z
  | ZI24 z => (- 2 ^ 23 <= z < 2 ^ 23)%Z | ZI8 z => (- 2 ^ 7 <= z < 2 ^ 7)%Z | ZImm v => v <= 12
  end.
Definition logical (v : zval) : bytes :=
  match v with ZStr6 s | ZStr14 s | ZStr32 s => s | ZI16 z | ZI32 z | ZI64 z | ZI24 z | ZI8 z => render z | ZImm v => render (Z.of_N v) end.

Lemma take_app s r : take (lenN s) (s ++ r) = Some (s, r).
Proof.
  unfold take, lenN. rewrite app_length. replace (N.of_nat (length s + length r) <? N.of_nat (length s)) with false
    by (symmetry; apply N.ltb_ge; lia).
  rewrite Nat2N.id. rewrite firstn_app, firstn_all, Nat.sub_diag, firstn_O, app_nil_r.
  rewrite skipn_app, skipn_all, Nat.sub_diag. reflexivity.
Qed.
Lemma take_le k n r : take (N.of_nat k) (le_enc k n ++ r) = Some (le_enc k n, r).
Proof. rewrite <- (le_enc_length k n) at 1. apply take_app. Qed.

Lemma skip_prev p r : wf_prev p ->
  match enc_prev p ++ r with
  | prev :: r0 => (if b2n prev =? 254 then skipn 4 r0 else r0) = r
  | [] => False end.
Proof.
  destruct p as [n|n]; cbn [enc_prev app wf_prev]; intros H.
  - rewrite b2n_n2b by lia. replace (n =? 254) with false by (symmetry; apply N.eqb_neq; lia). reflexivity.
  - change (b2n (n2b 254) =? 254) with true. cbv iota.
    replace 4%nat with (length (le_enc 4 n)) at 1 by apply le_enc_length.
    rewrite skipn_app, skipn_all, Nat.sub_diag. reflexivity.
Qed.

Ltac hsel h :=
  let c1 := eval vm_compute in (h / 64 =? 0) in change (h / 64 =? 0) with c1;
  let c2 := eval vm_compute in (h / 64 =? 1) in change (h / 64 =? 1) with c2;
  let c3 := eval vm_compute in (h / 64 =? 2) in change (h / 64 =? 2) with c3;
  let c4 := eval vm_compute in (h =? 192) in change (h =? 192) with c4;
  let c5 := eval vm_compute in (h =? 208) in try change (h =? 208) with c5;
  let c6 := eval vm_compute in (h =? 224) in try change (h =? 224) with c6;
  let c7 := eval vm_compute in (h =? 240) in try change (h =? 240) with c7;
  let c8 := eval vm_compute in (h =? 254) in try change (h =? 254) with c8.
Ltac int_case h k bits :=
  change (b2n (n2b h)) with h; hsel h; cbv iota;
  change (N.of_nat k) with (N.of_nat k);
  match goal with |- context [take ?n (le_enc k ?u ++ ?r)] => change n with (N.of_nat k); rewrite (take_le k u r) end;
  rewrite le_dec_enc by (let x := eval vm_compute in (8 * N.of_nat k) in change (8 * N.of_nat k) with x; apply (of_signed_lt bits); lia);
  rewrite signed_roundtrip by (lia || assumption); reflexivity.

Theorem read_entry_spec p v r : wf_prev p -> wf_val v ->
  read_entry (enc_prev p ++ enc_val v ++ r) = Some (logical v, r).
Proof.
  intros Hp Hv. unfold read_entry.
  pose proof (skip_prev p (enc_val v ++ r) Hp) as S.
  destruct (enc_prev p ++ enc_val v ++ r) as [|prev r0] eqn:E; [contradiction|]. rewrite S. clear S E.
  destruct v; cbn [enc_val app wf_val logical] in *.
  - (* 6-bit string *) rewrite b2n_n2b by lia.
    replace (lenN s / 64 =? 0) with true by (symmetry; apply N.eqb_eq; apply N.div_small; lia).
    rewrite N.mod_small by lia. apply take_app.
  - (* 14-bit string *) rewrite b2n_n2b by lia.
    replace ((64 + lenN s / 256) / 64 =? 0) with false by (symmetry; apply N.eqb_neq; lia).
    replace ((64 + lenN s / 256) / 64 =? 1) with true by (symmetry; apply N.eqb_eq; lia).
    rewrite b2n_n2b_mod. replace ((64 + lenN s / 256) mod 64 * 256 + lenN s mod 256) with (lenN s) by lia. apply take_app.
  - (* 32-bit string *) rewrite b2n_n2b by lia. change (128 / 64 =? 0) with false. change (128 / 64 =? 1) with false. change (128 / 64 =? 2) with true.
    cbv iota. rewrite <- app_assoc.
    replace (take 4 (rev (le_enc 4 (lenN s)) ++ s ++ r)) with (Some (rev (le_enc 4 (lenN s)), s ++ r)).
    2:{ symmetry. replace 4 with (lenN (rev (le_enc 4 (lenN s)))) at 1 by (unfold lenN; rewrite rev_length, le_enc_length; reflexivity). apply take_app. }
    unfold be_dec. rewrite rev_involutive. rewrite le_dec_enc by (change (8 * N.of_nat 4) with 32; exact Hv). apply take_app.
  - (* int16 *) int_case 192 2%nat 16.
  - (* int32 *) int_case 208 4%nat 32.
  - (* int64 *) int_case 224 8%nat 64.
  - (* int24 *) int_case 240 3%nat 24.
  - (* int8 *)
    change (b2n (n2b 254)) with 254. hsel 254. cbv iota.
    rewrite b2n_n2b by (apply (of_signed_lt 8); lia). rewrite signed_roundtrip by (lia || exact Hv). reflexivity.
  - (* 4-bit immediate *)
    rewrite b2n_n2b by lia.
    replace ((241 + v) / 64 =? 0) with false by (symmetry; apply N.eqb_neq; lia).
    replace ((241 + v) / 64 =? 1) with false by (symmetry; apply N.eqb_neq; lia).
    replace ((241 + v) / 64 =? 2) with false by (symmetry; apply N.eqb_neq; lia).
    replace (241 + v =? 192) with false by (symmetry; apply N.eqb_neq; lia).
    replace (241 + v =? 208) with false by (symmetry; apply N.eqb_neq; lia).
    replace (241 + v =? 224) with false by (symmetry; apply N.eqb_neq; lia).
    replace (241 + v =? 240) with false by (symmetry; apply N.eqb_neq; lia).
    replace (241 + v =? 254) with false by (symmetry; apply N.eqb_neq; lia).
    replace ((241 + v) / 16 =? 15) with true by (symmetry; apply N.eqb_eq; lia).
    do 2 f_equal. f_equal. lia.
Qed.
End Zl.
Print Assumptions read_entry_spec.
