From Coq Require Import List Arith Lia Bool.
Import ListNotations.

(* C05 core: the countdown copy loop of runIncrementalSync / dumpRDBFile under an ADVERSARIAL reader.
   `Read(p)` on the source (TCP + bufio) may return any non-empty prefix of the bytes still to come, at most
   len(p) long; the oracle `frag` fixes those choices, the theorem quantifies over every oracle. *)
Section Handoff.
Variable byte : Type.
Notation bytes := (list byte).

(* one Read: wants at most `max` bytes; the environment offers `want` (>= 1 enforced) *)
Definition read1 (want max : nat) (s : bytes) : bytes * bytes :=
  let k := Nat.min (Nat.max 1 want) (Nat.min max (length s)) in (firstn k s, skipn k s).

(* rdbSize -= Iocopy(br, pipew, p, rdbSize)  with len(p) = bufsz *)
Fixpoint copy_loop (fuel : nat) (bufsz : nat) (frag : list nat) (n : nat) (s : bytes) (acc : bytes) : option (bytes * bytes) :=
  match n with
  | O => Some (acc, s)
  | _ => match fuel with
         | O => None
         | S f =>
           let want := hd 1 frag in
           let '(got, rest) := read1 want (Nat.min bufsz n) s in
           match got with
           | [] => None                              (* source closed early: the tool aborts *)
           | _ => copy_loop f bufsz (tl frag) (n - length got) rest (acc ++ got)
           end
         end
  end.

Lemma read1_spec want max s : 0 < max -> s <> [] ->
  let '(got, rest) := read1 want max s in got ++ rest = s /\ 0 < length got <= max.
Proof.
  intros Hm Hs. unfold read1. set (k := Nat.min _ _).
  assert (Hl : 0 < length s) by (destruct s; [congruence|simpl; lia]).
  assert (Hk : 0 < k <= Nat.min max (length s)) by (unfold k; lia).
  split; [apply firstn_skipn|]. rewrite firstn_length. lia.
Qed.

Theorem copy_exact : forall fuel bufsz frag rdb cmds acc, 0 < bufsz -> length rdb <= fuel ->
  copy_loop fuel bufsz frag (length rdb) (rdb ++ cmds) acc = Some (acc ++ rdb, cmds).
Proof.
  induction fuel as [|f IH]; intros bufsz frag rdb cmds acc Hb Hf.
  - destruct rdb; simpl in *; [rewrite app_nil_r; reflexivity|lia].
  - destruct rdb as [|b rdb']; [simpl; rewrite app_nil_r; reflexivity|].
    set (rdb := b :: rdb') in *. cbn [copy_loop]. change (length rdb) with (S (length rdb')) at 1.
    cbv iota.
    pose proof (read1_spec (hd 1 frag) (Nat.min bufsz (length rdb)) (rdb ++ cmds)) as R.
    destruct (read1 (hd 1 frag) (Nat.min bufsz (length rdb)) (rdb ++ cmds)) as [got rest] eqn:E.
    destruct R as [Rs Rl]; [unfold rdb; simpl; lia|unfold rdb; discriminate|].
    assert (Hg : length got <= length rdb) by lia.
    (* got is a prefix of rdb *)
    assert (Hp : got = firstn (length got) rdb /\ rest = skipn (length got) rdb ++ cmds).
    { assert (F : firstn (length got) (got ++ rest) = got) by (rewrite firstn_app, Nat.sub_diag, firstn_O, app_nil_r; apply firstn_all).
      assert (K : skipn (length got) (got ++ rest) = rest) by (rewrite skipn_app, Nat.sub_diag, skipn_all; reflexivity).
      rewrite Rs in F, K. rewrite firstn_app in F. replace (length got - length rdb) with 0 in F by lia.
      rewrite firstn_O, app_nil_r in F. rewrite skipn_app in K. replace (length got - length rdb) with 0 in K by lia.
      simpl in K. split; congruence. }
    destruct Hp as [Hp1 Hp2]. destruct got as [|g got']; [simpl in Rl; lia|].
    set (got := g :: got') in *.
    rewrite Hp2.
    replace (length rdb - length got) with (length (skipn (length got) rdb)) by (rewrite skipn_length; reflexivity).
    rewrite IH; [|exact Hb|rewrite skipn_length; simpl in *; lia].
    rewrite <- app_assoc. f_equal. f_equal. rewrite Hp1 at 1. rewrite firstn_skipn. reflexivity.
Qed.
End Handoff.
Print Assumptions copy_exact.
