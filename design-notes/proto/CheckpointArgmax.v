From Coq Require Import List ZArith Lia Bool Permutation.
Import ListNotations.
Open Scope Z_scope.

(* C14 core: LoadCheckpoint scans the databases in Go-map (arbitrary) order and keeps the entry with the
   strictly greatest offset.  If the offsets of our own checkpoints are pairwise distinct across databases
   (an invariant of the sender: every group's offset is larger than the previous one's), the result does not
   depend on the order. *)
Section Argmax.
Variable info : Type.                       (* (runid, version) of a database's checkpoint *)
Definition entry := (Z * (Z * info))%type.  (* db, offset, info;  offset = -1: no checkpoint of ours in that db *)

Definition pick (best : Z * option (Z * info)) (e : entry) : Z * option (Z * info) :=
  let '(db, (off, i)) := e in if fst best <? off then (off, Some (db, i)) else best.
Definition scan (es : list entry) : Z * option (Z * info) := fold_left pick es (-1, None).

Definition own (e : entry) : Prop := -1 < fst (snd e).
Definition distinct_offsets (es : list entry) : Prop :=
  NoDup (map (fun e => fst (snd e)) (filter (fun e => -1 <? fst (snd e)) es)).

(* characterisation: the result is the maximum offset, attached to the entry that carries it *)
Lemma fold_pick_ge : forall es b, fst b <= fst (fold_left pick es b).
Proof.
  induction es as [|[db [off i]] es IH]; intros b; simpl; [lia|].
  destruct (fst b <? off) eqn:E; [apply Z.ltb_lt in E; specialize (IH (off, Some (db, i))); simpl in IH; lia|apply IH].
Qed.

Lemma fold_pick_upper : forall es b e, In e es -> fst (snd e) <= fst (fold_left pick es b).
Proof.
  induction es as [|[db [off i]] es IH]; intros b e Hin; [contradiction|]. simpl.
  destruct Hin as [<-|Hin]; simpl.
  - destruct (fst b <? off) eqn:E.
    + pose proof (fold_pick_ge es (off, Some (db, i))). simpl in H. lia.
    + apply Z.ltb_ge in E. pose proof (fold_pick_ge es b). lia.
  - destruct (fst b <? off); apply IH; exact Hin.
Qed.

Lemma fold_pick_source : forall es b,
  fold_left pick es b = b \/
  exists db off i, In (db, (off, i)) es /\ fold_left pick es b = (off, Some (db, i)) /\ fst b < off.
Proof.
  induction es as [|[db [off i]] es IH]; intros b; simpl; [left; reflexivity|].
  destruct (fst b <? off) eqn:E.
  - apply Z.ltb_lt in E. destruct (IH (off, Some (db, i))) as [H|(db' & off' & i' & Hin & H & Hlt)].
    + right. exists db, off, i. rewrite H. auto.
    + right. exists db', off', i'. simpl in Hlt. split; [auto|]. split; [exact H|lia].
  - destruct (IH b) as [H|(db' & off' & i' & Hin & H & Hlt)]; [left; exact H|].
    right. exists db', off', i'. auto.
Qed.

Theorem scan_is_max es : 
  match scan es with
  | (_, None) => forall e, In e es -> fst (snd e) <= -1
  | (m, Some (db, i)) => In (db, (m, i)) es /\ -1 < m /\ forall e, In e es -> fst (snd e) <= m
  end.
Proof.
  unfold scan. destruct (fold_pick_source es (-1, None)) as [H|(db & off & i & Hin & H & Hlt)].
  - rewrite H. intros e He. pose proof (fold_pick_upper es (-1, None) e He). rewrite H in H0. exact H0.
  - rewrite H. split; [exact Hin|]. split; [simpl in Hlt; lia|].
    intros e He. pose proof (fold_pick_upper es (-1, None) e He). rewrite H in H0. exact H0.
Qed.

(* order independence under distinct own offsets *)
Theorem scan_perm_invariant es es' :
  Permutation es es' -> distinct_offsets es -> scan es = scan es'.
Proof.
  intros P ND. pose proof (scan_is_max es) as A. pose proof (scan_is_max es') as B.
  destruct (scan es) as [m [[db i]|]] eqn:E1; destruct (scan es') as [m' [[db' i']|]] eqn:E2.
  - destruct A as (Ia & Hpos & Ua). destruct B as (Ib & _ & Ub).
    assert (m = m').
    { apply Z.le_antisymm.
      - apply (Ub (db, (m, i))). eapply Permutation_in; eauto.
      - apply (Ua (db', (m', i'))). eapply Permutation_in; [apply Permutation_sym; eauto|auto]. }
    subst m'. 
    assert (Ib' : In (db', (m, i')) es) by (eapply Permutation_in; [apply Permutation_sym; eauto|auto]).
    (* same offset => same entry, by NoDup of offsets *)
    assert (G : forall l (a b : entry), NoDup (map (fun e => fst (snd e)) l) -> In a l -> In b l -> fst (snd a) = fst (snd b) -> a = b).
    { clear. induction l as [|x l IHl]; intros a b ND Ha Hb Hab; [contradiction|].
      simpl in ND. inversion ND as [|? ? Hn ND']; subst.
      destruct Ha as [<-|Ha]; destruct Hb as [<-|Hb]; auto.
      - exfalso. apply Hn. rewrite Hab. exact (in_map (fun e : entry => fst (snd e)) l b Hb).
      - exfalso. apply Hn. rewrite <- Hab. exact (in_map (fun e : entry => fst (snd e)) l a Ha). }
    assert (F : forall e : entry, In e es -> -1 < fst (snd e) -> In e (filter (fun e => -1 <? fst (snd e)) es)).
    { intros e He Hp. apply filter_In. split; [exact He|]. apply Z.ltb_lt. exact Hp. }
    pose proof (G _ _ _ ND (F _ Ia Hpos) (F _ Ib' Hpos) eq_refl) as Eq. inversion Eq; subst. reflexivity.
  - destruct A as (Ia & Hm & _). specialize (B (db, (m, i))). simpl in B.
    assert (m <= -1) by (apply B; eapply Permutation_in; eauto). lia.
  - destruct B as (Ib & Hm & _). specialize (A (db', (m', i'))). simpl in A.
    assert (m' <= -1) by (apply A; eapply Permutation_in; [apply Permutation_sym; eauto|auto]). lia.
  - (* both none: first components are the untouched -1 *)
    unfold scan in *.
    destruct (fold_pick_source es (-1, None)) as [H|(d1 & o1 & i1 & _ & H & _)]; [|rewrite H in E1; discriminate].
    destruct (fold_pick_source es' (-1, None)) as [H'|(d1 & o1 & i1 & _ & H' & _)]; [|rewrite H' in E2; discriminate].
    rewrite H in E1. rewrite H' in E2. congruence.
Qed.
End Argmax.
Print Assumptions scan_perm_invariant.
