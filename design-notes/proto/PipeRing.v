From Coq Require Import List NArith ZArith Lia Bool ZifyN ZifyNat ZifyBool.
Import ListNotations.
Ltac Zify.zify_post_hook ::= Z.div_mod_to_equations.
Open Scope N_scope.

Section Pipe.
Variable byte : Type.
Variable b0 : byte.

(* roffset / woffset of pipe.go *)
Definition roffset (blen size rpos wpos : N) : N * N :=
  let maxlen := N.min blen (wpos - rpos) in
  let offset := rpos mod size in
  (N.min maxlen (size - offset), offset).
Definition woffset (blen size rpos wpos : N) : N * N :=
  let maxlen := N.min blen (size + rpos - wpos) in
  let offset := wpos mod size in
  (N.min maxlen (size - offset), offset).

Record ring := { size : N; rpos : N; wpos : N; cells : N -> byte }.

Definition upd_cells (c : N -> byte) (off : N) (bs : list byte) : N -> byte :=
  fun i => if (off <=? i) && (i <? off + N.of_nat (length bs)) then nth (N.to_nat (i - off)) bs b0 else c i.

Fixpoint read_cells (c : N -> byte) (off : N) (n : nat) : list byte :=
  match n with O => [] | S k => c off :: read_cells c (off + 1) k end.

Definition firstnN (n : N) (l : list byte) := firstn (N.to_nat n) l.

(* memBuffer.writeSome *)
Definition write_some (r : ring) (bs : list byte) : ring * N :=
  let '(maxlen, off) := woffset (N.of_nat (length bs)) (size r) (rpos r) (wpos r) in
  if maxlen =? 0 then (r, 0)
  else ({| size := size r; rpos := rpos r; wpos := wpos r + maxlen;
           cells := upd_cells (cells r) off (firstnN maxlen bs) |}, maxlen).

(* memBuffer.readSome *)
Definition read_some (r : ring) (blen : N) : ring * list byte :=
  let '(maxlen, off) := roffset blen (size r) (rpos r) (wpos r) in
  if maxlen =? 0 then (r, [])
  else let out := read_cells (cells r) off (N.to_nat maxlen) in
       let rp := rpos r + maxlen in
       if rp =? wpos r then ({| size := size r; rpos := 0; wpos := 0; cells := cells r |}, out)
       else ({| size := size r; rpos := rp; wpos := wpos r; cells := cells r |}, out).

(* abstraction: the queue content *)
Definition inv (r : ring) (q : list byte) : Prop :=
  0 < size r /\ rpos r <= wpos r /\ wpos r - rpos r <= size r /\
  N.of_nat (length q) = wpos r - rpos r /\
  forall i, i < wpos r - rpos r -> cells r ((rpos r + i) mod size r) = nth (N.to_nat i) q b0.

Lemma read_cells_spec c off n i : (i < n)%nat -> nth i (read_cells c off n) b0 = c (off + N.of_nat i).
Proof.
  revert off i. induction n as [|n IH]; intros off i Hi; [lia|].
  destruct i as [|i]; simpl.
  - f_equal. lia.
  - rewrite IH by lia. f_equal. lia.
Qed.
Lemma read_cells_length c off n : length (read_cells c off n) = n.
Proof. revert off. induction n; simpl; intros; auto. Qed.

Lemma list_ext (l1 l2 : list byte) : length l1 = length l2 ->
  (forall i, (i < length l1)%nat -> nth i l1 b0 = nth i l2 b0) -> l1 = l2.
Proof.
  revert l2. induction l1 as [|a l1 IH]; destruct l2 as [|b l2]; simpl; intros HL H; try discriminate; auto.
  f_equal. apply (H 0%nat). lia. apply IH. lia. intros i Hi. apply (H (S i)). lia.
Qed.

Lemma mod_add_small a s i : 0 < s -> a mod s + i < s -> (a + i) mod s = a mod s + i.
Proof. intros Hs H. rewrite N.add_mod by lia. rewrite (N.mod_small i) by lia. apply N.mod_small. exact H. Qed.

Lemma nth_firstn_lt (l : list byte) n i : (i < n)%nat -> nth i (firstn n l) b0 = nth i l b0.
Proof. revert n i. induction l as [|a l IH]; intros n i H; destruct n, i; simpl; auto; try lia. apply IH. lia. Qed.
Lemma nth_skipn_add (l : list byte) n i : nth i (skipn n l) b0 = nth (n + i) l b0.
Proof. revert l. induction n as [|n IH]; intros l; simpl; auto. destruct l; simpl; auto. destruct i; auto. Qed.

Theorem read_some_refines r q blen :
  inv r q ->
  let '(r', out) := read_some r blen in
  out = firstn (length out) q /\ inv r' (skipn (length out) q) /\
  (out = [] <-> blen = 0 \/ q = []).
Proof.
  intros (Hs & Hle & Hcap & Hlen & Hc). unfold read_some, roffset.
  set (maxlen := N.min (N.min blen (wpos r - rpos r)) (size r - rpos r mod size r)).
  assert (Hm : maxlen <= wpos r - rpos r) by lia.
  assert (Hmo : rpos r mod size r + maxlen <= size r) by (unfold maxlen; lia).
  destruct (N.eqb_spec maxlen 0) as [E|E].
  - simpl. split; [reflexivity|]. split; [repeat split; auto|].
    split; intros _; [|reflexivity].
    assert (blen = 0 \/ wpos r - rpos r = 0) by (unfold maxlen in E; lia).
    destruct H; [left; auto|right]. destruct q; auto. simpl in Hlen. lia.
  - set (out := read_cells (cells r) (rpos r mod size r) (N.to_nat maxlen)).
    assert (Lout : length out = N.to_nat maxlen) by apply read_cells_length.
    assert (Hout : out = firstn (length out) q).
    { apply list_ext.
      - rewrite firstn_length. lia.
      - intros i Hi. rewrite nth_firstn_lt by lia. rewrite Lout in Hi. unfold out. rewrite read_cells_spec by lia.
        specialize (Hc (N.of_nat i)). rewrite Nat2N.id in Hc.
        rewrite <- Hc by lia.
        f_equal. symmetry. apply mod_add_small; lia. }
    destruct (N.eqb_spec (rpos r + maxlen) (wpos r)) as [E2|E2]; simpl.
    + split; [exact Hout|]. split.
      * assert (skipn (length out) q = []) as ->.
        { apply skipn_all2. lia. }
        repeat split; simpl; try lia.
      * split; intros H. rewrite H in Lout. simpl in Lout. lia. destruct H; [unfold maxlen in E; lia|subst q; simpl in Hlen; lia].
    + split; [exact Hout|]. split.
      * repeat split; simpl; try lia.
        -- rewrite skipn_length. lia.
        -- intros i Hi. rewrite nth_skipn_add. rewrite Lout.
           replace (N.to_nat maxlen + N.to_nat i)%nat with (N.to_nat (maxlen + i)) by lia.
           rewrite <- Hc by lia. f_equal. f_equal. lia.
      * split; intros H. rewrite H in Lout. simpl in Lout. lia. destruct H; [unfold maxlen in E; lia|subst q; simpl in Hlen; lia].
Qed.

Lemma mod_eq_close a b s : 0 < s -> a mod s = b mod s -> a <= b -> b - a < s -> a = b.
Proof.
  intros Hs E Hle Hd.
  pose proof (N.div_mod a s) as Ha. pose proof (N.div_mod b s) as Hb.
  pose proof (N.mod_lt a s) as La. pose proof (N.mod_lt b s) as Lb.
  rewrite E in Ha.
  assert (Q : b / s = a / s).
  { destruct (N.lt_trichotomy (a / s) (b / s)) as [H|[H|H]]; [|auto|]; nia. }
  rewrite Q in Hb. lia.
Qed.

Lemma firstnN_length n (l : list byte) : n <= N.of_nat (length l) -> length (firstnN n l) = N.to_nat n.
Proof. intros H. unfold firstnN. rewrite firstn_length. lia. Qed.

Theorem write_some_refines r q bs :
  inv r q ->
  let '(r', n) := write_some r bs in
  n <= N.of_nat (length bs) /\ inv r' (q ++ firstnN n bs) /\
  (n = 0 <-> bs = [] \/ N.of_nat (length q) = size r).
Proof.
  intros (Hs & Hle & Hcap & Hlen & Hc). unfold write_some, woffset. lazy beta iota zeta.
  set (blen := N.of_nat (length bs)).
  set (maxlen := N.min (N.min blen (size r + rpos r - wpos r)) (size r - wpos r mod size r)).
  assert (Hmb : maxlen <= blen) by lia.
  assert (Hmf : maxlen <= size r - (wpos r - rpos r)) by lia.
  assert (Hmo : wpos r mod size r + maxlen <= size r) by lia.
  assert (Hoff : wpos r mod size r < size r) by (apply N.mod_lt; lia).
  destruct (N.eqb_spec maxlen 0) as [E|E].
  - split; [lia|]. split.
    + unfold firstnN. simpl. rewrite app_nil_r. repeat split; auto.
    + split; intros _; [|reflexivity].
      assert (blen = 0 \/ size r + rpos r - wpos r = 0) by lia.
      destruct H; [left; destruct bs; auto; unfold blen in H; simpl in H; lia|right; lia].
  - split; [exact Hmb|]. split.
    + assert (Lf : length (firstnN maxlen bs) = N.to_nat maxlen) by (apply firstnN_length; exact Hmb).
      repeat split; simpl; try lia.
      * rewrite app_length, Lf. lia.
      * intros i Hi. unfold upd_cells. rewrite Lf, N2Nat.id.
        destruct (N.lt_ge_cases i (wpos r - rpos r)) as [Hold|Hnew].
        -- (* an old, still unread byte: its cell is not overwritten *)
           rewrite app_nth1 by lia. rewrite <- Hc by exact Hold.
           destruct ((wpos r mod size r <=? (rpos r + i) mod size r) &&
                     ((rpos r + i) mod size r <? wpos r mod size r + maxlen)) eqn:B; [|reflexivity].
           exfalso. apply andb_true_iff in B. destruct B as [B1 B2].
           apply N.leb_le in B1. apply N.ltb_lt in B2.
           set (j := (rpos r + i) mod size r - wpos r mod size r) in *.
           assert (Hj : j < maxlen) by lia.
           assert (Em : (rpos r + i) mod size r = (wpos r + j) mod size r).
           { rewrite (mod_add_small (wpos r) (size r) j) by lia. unfold j. lia. }
           assert (rpos r + i = wpos r + j) by (apply (mod_eq_close _ _ (size r)); lia).
           lia.
        -- (* a freshly written byte *)
           rewrite app_nth2 by lia.
           set (j := i - (wpos r - rpos r)).
           assert (Hj : j < maxlen) by lia.
           replace (rpos r + i) with (wpos r + j) by lia.
           rewrite mod_add_small by lia.
           replace (wpos r mod size r <=? wpos r mod size r + j) with true by (symmetry; apply N.leb_le; lia).
           replace (wpos r mod size r + j <? wpos r mod size r + maxlen) with true by (symmetry; apply N.ltb_lt; lia).
           simpl. f_equal. lia.
    + split; intros H; [lia|]. exfalso. destruct H as [H|H].
      * subst bs. unfold blen in *. simpl in *. lia.
      * lia.
Qed.
End Pipe.
Print Assumptions write_some_refines.
