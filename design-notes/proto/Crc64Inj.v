From Coq Require Import List NArith Lia Bool.
Import ListNotations.
Open Scope N_scope.

(* spec table: reflected CRC-64/Jones *)
Definition poly : N := 0x95AC9329AC4BC9B5.
Definition bitstep (c : N) : N := if N.odd c then N.lxor (N.shiftr c 1) poly else N.shiftr c 1.
Definition tentry (i : N) : N := Nat.iter 8 bitstep i.
Definition table : list N := Eval vm_compute in map (fun i => tentry (N.of_nat i)) (seq 0 256).
Definition tget (i : N) : N := nth (N.to_nat i) table 0.

Definition upd (crc b : N) : N := N.lxor (tget (N.land (N.lxor crc b) 255)) (N.shiftr crc 8).
Definition crc64 (init : N) (bs : list N) : N := fold_left upd bs init.

Lemma crc64_app i a b : crc64 i (a ++ b) = crc64 (crc64 i a) b.
Proof. unfold crc64. apply fold_left_app. Qed.

Definition top (x : N) := N.shiftr x 56.
Lemma table_wf : forallb (fun x => x <? 2^64) table = true. Proof. vm_compute. reflexivity. Qed.
Definition tops := Eval vm_compute in map top table.
Lemma tops_nodup : NoDup tops.
Proof.
  assert (H: forallb (fun p => negb (existsb (N.eqb (fst p)) (snd p)))
            ((fix tails (l : list N) := match l with [] => [] | x :: r => (x, r) :: tails r end) tops) = true)
    by (vm_compute; reflexivity).
  revert H. generalize tops. induction l as [|x r IH]; intros H; constructor.
  - simpl in H. apply andb_true_iff in H. destruct H as [H _].
    intros Hin. apply negb_true_iff in H.
    assert (existsb (N.eqb x) r = true). { apply existsb_exists. exists x. split; auto. apply N.eqb_refl. }
    congruence.
  - apply IH. simpl in H. apply andb_true_iff in H. tauto.
Qed.

Lemma tget_top_inj i j : i < 256 -> j < 256 -> top (tget i) = top (tget j) -> i = j.
Proof.
  intros Hi Hj H. unfold tget in H.
  assert (Hl : length tops = 256%nat) by reflexivity.
  assert (Ht : forall k, (k < 256)%nat -> top (nth k table 0) = nth k tops 0).
  { intros k Hk. assert (E : tops = map top table) by (vm_compute; reflexivity).
    rewrite E. change 0 with (top 0) at 2. rewrite map_nth. reflexivity. }
  rewrite !Ht in H by lia.
  pose proof tops_nodup as ND.
  rewrite NoDup_nth in ND. specialize (ND (N.to_nat i) (N.to_nat j)).
  apply N2Nat.inj. apply ND; try lia. exact H.
Qed.

Lemma shiftr8_top c : c < 2^64 -> top (N.shiftr c 8) = 0.
Proof.
  intros H. unfold top. rewrite N.shiftr_shiftr. change (8+56) with 64.
  destruct (N.eq_dec c 0) as [->|Hz]; [reflexivity|].
  apply N.shiftr_eq_0. apply N.log2_lt_pow2; lia.
Qed.

Lemma upd_inj_state c1 c2 b : c1 < 2^64 -> c2 < 2^64 -> upd c1 b = upd c2 b -> c1 = c2.
Proof.
  intros H1 H2 H. unfold upd in H.
  set (i1 := N.land (N.lxor c1 b) 255) in *. set (i2 := N.land (N.lxor c2 b) 255) in *.
  assert (Hi1 : i1 < 256). { unfold i1. change 255 with (N.ones 8). rewrite N.land_ones. apply N.mod_lt. discriminate. }
  assert (Hi2 : i2 < 256). { unfold i2. change 255 with (N.ones 8). rewrite N.land_ones. apply N.mod_lt. discriminate. }
  assert (Htop : top (tget i1) = top (tget i2)).
  { apply (f_equal top) in H. unfold top in H. rewrite !N.shiftr_lxor in H.
    fold (top (N.shiftr c1 8)) in H. fold (top (N.shiftr c2 8)) in H.
    rewrite !shiftr8_top in H by assumption. rewrite !N.lxor_0_r in H. exact H. }
  assert (Hi : i1 = i2) by (apply tget_top_inj; assumption).
  rewrite Hi in H.
  assert (Hs : N.shiftr c1 8 = N.shiftr c2 8).
  { apply (f_equal (N.lxor (tget i2))) in H.
    rewrite <- !N.lxor_assoc in H. rewrite N.lxor_nilpotent in H. rewrite !N.lxor_0_l in H. exact H. }
  apply N.bits_inj. intros n.
  destruct (N.lt_ge_cases n 8) as [Hn|Hn].
  - assert (Hb : N.testbit i1 n = N.testbit i2 n) by (rewrite Hi; reflexivity).
    unfold i1, i2 in Hb. change 255 with (N.ones 8) in Hb.
    rewrite !N.land_spec, !N.ones_spec_low, !andb_true_r, !N.lxor_spec in Hb by assumption.
    destruct (N.testbit c1 n), (N.testbit c2 n), (N.testbit b n); simpl in Hb; congruence.
  - replace n with ((n - 8) + 8) by lia. rewrite <- !N.shiftr_spec'. rewrite Hs. reflexivity.
Qed.

(* ---------- completing the argument: any single-byte substitution changes the CRC ---------- *)
Lemma tget_lt i : i < 256 -> tget i < 2^64.
Proof.
  intros Hi. unfold tget. pose proof table_wf as W. rewrite forallb_forall in W.
  assert (L : length table = 256%nat) by reflexivity.
  specialize (W (nth (N.to_nat i) table 0)). apply N.ltb_lt. apply W. apply nth_In. lia.
Qed.

Lemma lxor_lt a b n : a < 2^n -> b < 2^n -> N.lxor a b < 2^n.
Proof.
  intros Ha Hb.
  destruct (N.eq_dec (N.lxor a b) 0) as [E|E]; [rewrite E; apply N.lt_le_trans with (m := 1); [lia|]; 
    change 1 with (2^0); apply N.pow_le_mono_r; lia|].
  apply N.log2_lt_pow2; [lia|].
  apply N.le_lt_trans with (m := N.max (N.log2 a) (N.log2 b)); [apply N.log2_lxor|].
  destruct (N.eq_dec a 0) as [->|Ha0]; destruct (N.eq_dec b 0) as [->|Hb0]; simpl.
  - rewrite N.lxor_0_l in E. congruence.
  - rewrite N.max_r by lia. apply N.log2_lt_pow2; lia.
  - rewrite N.max_l by lia. apply N.log2_lt_pow2; lia.
  - apply N.max_lub_lt; apply N.log2_lt_pow2; lia.
Qed.

Lemma idx_lt c b : N.land (N.lxor c b) 255 < 256.
Proof. change 255 with (N.ones 8). rewrite N.land_ones. apply N.mod_lt. discriminate. Qed.

Lemma upd_wf c b : c < 2^64 -> upd c b < 2^64.
Proof.
  intros Hc. unfold upd. apply lxor_lt; [apply tget_lt, idx_lt|].
  rewrite N.shiftr_div_pow2. apply N.le_lt_trans with (m := c); [|exact Hc].
  change (2^8) with 256. apply N.div_le_upper_bound; lia.
Qed.

Lemma upd_byte_sensitive c b b' : c < 2^64 -> b < 256 -> b' < 256 -> b <> b' -> upd c b <> upd c b'.
Proof.
  intros Hc Hb Hb' Hne H. unfold upd in H.
  assert (Htop : top (tget (N.land (N.lxor c b) 255)) = top (tget (N.land (N.lxor c b') 255))).
  { apply (f_equal top) in H. unfold top in H. rewrite !N.shiftr_lxor in H.
    fold (top (N.shiftr c 8)) in H. rewrite !shiftr8_top in H by assumption. rewrite !N.lxor_0_r in H. exact H. }
  apply tget_top_inj in Htop; try apply idx_lt.
  apply Hne. apply N.bits_inj. intros n.
  destruct (N.lt_ge_cases n 8) as [Hn|Hn].
  - assert (Hbit : N.testbit (N.land (N.lxor c b) 255) n = N.testbit (N.land (N.lxor c b') 255) n) by (rewrite Htop; reflexivity).
    change 255 with (N.ones 8) in Hbit.
    rewrite !N.land_spec, !N.ones_spec_low, !andb_true_r, !N.lxor_spec in Hbit by assumption.
    destruct (N.testbit c n), (N.testbit b n), (N.testbit b' n); simpl in Hbit; congruence.
  - assert (Hhi : forall x, x < 256 -> N.testbit x n = false).
    { intros x Hx. destruct (N.eq_dec x 0) as [->|Hx0]; [apply N.bits_0|].
      apply N.bits_above_log2. apply N.lt_le_trans with (m := 8); [|exact Hn]. apply N.log2_lt_pow2; lia. }
    rewrite !Hhi by assumption. reflexivity.
Qed.

Lemma crc64_wf i bs : i < 2^64 -> crc64 i bs < 2^64.
Proof. revert i. induction bs as [|b bs IH]; intros i Hi; simpl; auto. apply IH. apply upd_wf. exact Hi. Qed.

Lemma crc64_inj_init bs : forall i j, i < 2^64 -> j < 2^64 -> i <> j -> crc64 i bs <> crc64 j bs.
Proof.
  induction bs as [|b bs IH]; intros i j Hi Hj Hne; simpl; auto.
  apply IH; try apply upd_wf; auto. intros E. apply Hne. eapply upd_inj_state; eauto.
Qed.

Theorem single_byte_substitution_detected pre b b' suf :
  b < 256 -> b' < 256 -> b <> b' ->
  crc64 0 (pre ++ b :: suf) <> crc64 0 (pre ++ b' :: suf).
Proof.
  intros Hb Hb' Hne. rewrite !crc64_app. simpl.
  assert (W : crc64 0 pre < 2^64) by (apply crc64_wf; reflexivity).
  apply crc64_inj_init; try apply upd_wf; auto.
  apply upd_byte_sensitive; auto.
Qed.
Print Assumptions single_byte_substitution_detected.
