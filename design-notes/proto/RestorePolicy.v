From stdpp Require Import gmap.

(* C02 core: route and busy-key policy logic of utils.RestoreRdbEntry over a model Redis keyspace.
   Value decoding / element-wise expansion are abstracted here (they are C12's subject):
     decode p      what RESTORE materialises from payload p (None: the target answers "Bad data format")
     expands_to    element-wise expansion of the payload onto an ABSENT key yields the same value      *)
Section Restore.
Context {K : Type} `{Countable K}.
Variable V P : Type.
Variable decode : P -> option V.             (* model Redis' RESTORE *)
Variable expand : option V -> P -> option V. (* RPUSH/HSET/... stream applied to what the key holds; None = WRONGTYPE abort *)

Notation cell := (Z * K)%type.
Notation state := (gmap (Z * K) (V * option Z)).          (* value, absolute expiry *)

Inductive policy := Rewrite | Ignore | NoneP.
Inductive route := Plain | Big (need_len : bool) | Quick.
Record cfg := { pol : policy; target_replace : bool }.
Record entry := { ekey : K; payload : P; ttl : option Z (* already = ExpireAt - now, or 1 *); eroute : route }.
Inductive outcome := Ok | Err | Abort.

Definition put (st : state) (c : cell) (v : V) (t : option Z) : state := <[c := (v, t)]> st.
(* element-wise route: creates or merges, then PEXPIRE if the entry has an expiry (keeps the old expiry otherwise) *)
Definition expand_into (st : state) (c : cell) (e : entry) : option state :=
  match expand (fst <$> st !! c) (payload e) with
  | Some v => Some (put st c v (match ttl e with Some t => Some t | None => st !! c ≫= snd end))
  | None => None
  end.

(* the repaired function (planned fixes F6, F7, F8); big-key route as it is today *)
Definition restore (cf : cfg) (db : Z) (e : entry) (st : state) : state * outcome :=
  let c := (db, ekey e) in
  match eroute e with
  | Quick =>
      match st !! c, pol cf with
      | Some _, Ignore => (st, Ok)
      | Some _, NoneP => (st, Err)
      | _, _ => let st1 := match st !! c with Some _ => delete c st | None => st end in
                match expand_into st1 c e with Some st2 => (st2, Ok) | None => (st, Abort) end
      end
  | Big need_len =>
      let st1 := match pol cf, need_len with Rewrite, true => delete c st | _, _ => st end in
      match expand_into st1 c e with Some st2 => (st2, Ok) | None => (st1, Abort) end
  | Plain =>
      match st !! c with
      | Some _ =>                                     (* BUSYKEY *)
          match pol cf with
          | Ignore => (st, Ok)
          | NoneP => (st, Err)
          | Rewrite =>                                 (* REPLACE, or DEL + retry *)
              match decode (payload e) with
              | Some v => (put st c v (ttl e), Ok)
              | None => match expand_into (delete c st) c e with Some st2 => (st2, Ok) | None => (delete c st, Abort) end
              end
          end
      | None =>
          match decode (payload e) with
          | Some v => (put st c v (ttl e), Ok)
          | None => match expand_into st c e with Some st2 => (st2, Ok) | None => (st, Abort) end   (* Bad data format fallback *)
          end
      end
  end.

(* what "the payload encodes logical value v" means for the two abstractions *)
Definition encodes (p : P) (v : V) : Prop :=
  (decode p = Some v \/ decode p = None) /\ expand None p = Some v.

Lemma expand_fresh st c e v : st !! c = None -> expand None (payload e) = Some v ->
  expand_into st c e = Some (put st c v (ttl e)).
Proof.
  intros Hn He. unfold expand_into. rewrite Hn. simpl. rewrite He. destruct (ttl e); reflexivity.
Qed.

Theorem C02_fresh_key cf db e st v :
  st !! (db, ekey e) = None -> encodes (payload e) v ->
  restore cf db e st = (put st (db, ekey e) v (ttl e), Ok).
Proof.
  intros Hn [Hd Hx]. unfold restore. set (c := (db, ekey e)) in *.
  destruct (eroute e) as [|nl|].
  - rewrite Hn. destruct Hd as [-> | ->]; [reflexivity|]. rewrite (expand_fresh st c e v Hn Hx). reflexivity.
  - assert (E : (match pol cf, nl with Rewrite, true => delete c st | _, _ => st end) = st).
    { destruct (pol cf), nl; try reflexivity. apply delete_notin. exact Hn. }
    rewrite E. rewrite (expand_fresh st c e v Hn Hx). reflexivity.
  - rewrite Hn. destruct (pol cf); rewrite (expand_fresh st c e v Hn Hx); reflexivity.
Qed.

Theorem C02_rewrite cf db e st v old :
  pol cf = Rewrite -> st !! (db, ekey e) = Some old -> encodes (payload e) v ->
  (eroute e = Big false -> False) ->        (* continuation chunks are never the first write of a key *)
  exists st', restore cf db e st = (st', Ok) /\ st' !! (db, ekey e) = Some (v, ttl e) /\
              forall c', c' <> (db, ekey e) -> st' !! c' = st !! c'.
Proof.
  intros Hp Ho [Hd Hx] Hnc. unfold restore. set (c := (db, ekey e)) in *. rewrite Hp.
  assert (Hdel : delete c st !! c = None) by apply lookup_delete.
  assert (Fr : forall c', c' <> c -> put (delete c st) c v (ttl e) !! c' = st !! c').
  { intros c' Hne. unfold put. rewrite lookup_insert_ne by congruence. apply lookup_delete_ne. congruence. }
  destruct (eroute e) as [|nl|].
  - rewrite Ho. destruct Hd as [-> | ->].
    + eexists; split; [reflexivity|]. split; [apply lookup_insert|].
      intros c' Hne. unfold put. apply lookup_insert_ne. congruence.
    + rewrite (expand_fresh _ c e v Hdel Hx). eexists; split; [reflexivity|]. split; [apply lookup_insert|exact Fr].
  - destruct nl; [|exfalso; apply Hnc; reflexivity].
    rewrite (expand_fresh _ c e v Hdel Hx). eexists; split; [reflexivity|]. split; [apply lookup_insert|exact Fr].
  - rewrite Ho. rewrite (expand_fresh _ c e v Hdel Hx). eexists; split; [reflexivity|]. split; [apply lookup_insert|exact Fr].
Qed.

Theorem C02_none_ignore cf db e st old :
  pol cf <> Rewrite -> st !! (db, ekey e) = Some old -> (forall nl, eroute e <> Big nl) ->
  restore cf db e st = (st, match pol cf with NoneP => Err | _ => Ok end).
Proof.
  intros Hp Ho Hr. unfold restore. destruct (eroute e) as [|nl|]; [| exfalso; apply (Hr nl); reflexivity |];
    rewrite Ho; destruct (pol cf); try congruence; reflexivity.
Qed.

(* the big-key route ignores `none` / `ignore` (finding F9): it merges into the existing key *)
End Restore.

Example C02_bigkey_none_refuted :
  let st : gmap (Z * nat) (list nat * option Z) := {[ (0%Z, 7) := ([1; 2], None) ]} in
  let expand (o : option (list nat)) (p : list nat) := Some (default [] o ++ p) in
  let r := restore (list nat) (list nat) (fun p => Some p) expand {| pol := NoneP; target_replace := false |} 0
          {| ekey := 7; payload := [3]; ttl := None; eroute := Big true |} st in
  (fst r !! (0%Z, 7), snd r) = (Some ([1; 2; 3], None), Ok).    (* policy none: no error, key modified *)
Proof. vm_compute. reflexivity. Qed.
Print Assumptions C02_rewrite.
