From Coq Require Import List NArith ZArith Lia Bool Strings.Byte ZifyN ZifyNat ZifyBool.
Ltac Zify.zify_post_hook ::= Z.div_mod_to_equations.
Import ListNotations.
Open Scope N_scope.
Notation bytes := (list byte).

(* ---------- bytes <-> numbers (as in RdbLen.v) ---------- *)
Definition b2n (b : byte) : N := Byte.to_N b.
Definition n2b (n : N) : byte := match Byte.of_N (n mod 256) with Some b => b | None => x00 end.
Lemma b2n_n2b_mod n : b2n (n2b n) = n mod 256.
Proof. unfold n2b, b2n. destruct (Byte.of_N (n mod 256)) eqn:E.
  - apply Byte.to_of_N in E. exact E.
  - apply Byte.of_N_None_iff in E. pose proof (N.mod_lt n 256). lia. Qed.
Lemma b2n_n2b n : n < 256 -> b2n (n2b n) = n.
Proof. intros. rewrite b2n_n2b_mod. apply N.mod_small. assumption. Qed.

Definition be32 (n : N) : bytes := [n2b (n / 2^24); n2b (n / 2^16); n2b (n / 2^8); n2b n].
Definition rd_be32 (bs : bytes) : option (N * bytes) :=
  match bs with a :: b :: c :: d :: r => Some (b2n a * 2^24 + b2n b * 2^16 + b2n c * 2^8 + b2n d, r) | _ => None end.
Lemma rd_be32_be32 n r : n < 2^32 -> rd_be32 (be32 n ++ r) = Some (n, r).
Proof.
  intros H. unfold be32, rd_be32. cbn [app]. rewrite !b2n_n2b_mod. f_equal. f_equal.
  change (2^24) with 16777216. change (2^16) with 65536. change (2^8) with 256. change (2^32) with 4294967296 in H. lia.
Qed.

(* ---------- parser monad over the remaining input ---------- *)
Definition P (A : Type) := bytes -> option (A * bytes).
Definition ret {A} (a : A) : P A := fun s => Some (a, s).
Definition bind {A B} (p : P A) (f : A -> P B) : P B := fun s => match p s with Some (a, s') => f a s' | None => None end.
Notation "x <- p ;; q" := (bind p (fun x => q)) (at level 61, p at next level, right associativity).
Definition fail_ {A} : P A := fun _ => None.

Definition take (n : N) : P bytes := fun s =>
  if N.of_nat (length s) <? n then None else Some (firstn (N.to_nat n) s, skipn (N.to_nat n) s).
Definition byte1 : P byte := fun s => match s with b :: r => Some (b, r) | [] => None end.

Definition lenN (s : bytes) := N.of_nat (length s).
Lemma take_app s r : take (lenN s) (s ++ r) = Some (s, r).
Proof.
  unfold take, lenN. rewrite app_length.
  replace (N.of_nat (length s + length r) <? N.of_nat (length s)) with false by (symmetry; apply N.ltb_ge; lia).
  rewrite Nat2N.id. rewrite firstn_app, firstn_all, Nat.sub_diag, firstn_O, app_nil_r.
  rewrite skipn_app, skipn_all, Nat.sub_diag. reflexivity.
Qed.

(* a parser is EXACT on an encoding e with result a if it consumes precisely e, whatever follows *)
Definition exact {A} (p : P A) (e : bytes) (a : A) : Prop := forall r, p (e ++ r) = Some (a, r).

Lemma exact_ret {A} (a : A) : exact (ret a) [] a. Proof. intros r. reflexivity. Qed.
Lemma exact_bind {A B} (p : P A) (f : A -> P B) e1 e2 a b :
  exact p e1 a -> exact (f a) e2 b -> exact (bind p f) (e1 ++ e2) b.
Proof. intros H1 H2 r. unfold bind. rewrite <- app_assoc, H1. apply H2. Qed.
Lemma exact_take s : exact (take (lenN s)) s s. Proof. intros r. apply take_app. Qed.
Lemma exact_byte b : exact byte1 [b] b. Proof. intros r. reflexivity. Qed.

(* tee capture: run p and also return exactly the bytes it consumed *)
Definition capture {A} (p : P A) : P (A * bytes) := fun s =>
  match p s with Some (a, s') => Some ((a, firstn (length s - length s') s), s') | None => None end.
Lemma exact_capture {A} (p : P A) e a : exact p e a -> exact (capture p) e (a, e).
Proof.
  intros H r. unfold capture. rewrite H. rewrite app_length.
  replace (length e + length r - length r)%nat with (length e) by lia.
  rewrite firstn_app, firstn_all, Nat.sub_diag, firstn_O, app_nil_r. reflexivity.
Qed.

(* n-fold repetition collecting nothing (skipping), via nat iteration; the executable model uses iterN *)
Fixpoint skip_n {A} (n : nat) (p : P A) : P unit :=
  match n with O => ret tt | S k => _ <- p ;; skip_n k p end.
Lemma exact_skip_n {A} (p : P A) (es : list bytes) (as_ : list A) :
  Forall2 (fun e a => exact p e a) es as_ -> exact (skip_n (length es) p) (concat es) tt.
Proof.
  induction 1 as [|e a es as_ H _ IH]; simpl; [apply exact_ret|].
  eapply exact_bind; [exact H|exact IH].
Qed.

(* ---------- RDB length (reader.go readEncodedLength / ReadLength) ---------- *)
Inductive lenform := L6 | L14 | L32 | L64.
Definition enc_len (f : lenform) (n : N) : bytes :=
  match f with
  | L6 => [n2b n] | L14 => [n2b (64 + n / 256); n2b n] | L32 => n2b 128 :: be32 n
  | L64 => n2b 129 :: be32 (n / 2^32) ++ be32 (n mod 2^32) end.
Definition fits (f : lenform) (n : N) : Prop :=
  match f with L6 => n < 64 | L14 => n < 16384 | L32 => n < 2^32 | L64 => n < 2^64 end.
Definition model_value (f : lenform) (n : N) := match f with L64 => n / 2^32 | _ => n end.

Definition read_enc_len : P (N * bool) := fun bs =>
  match bs with
  | [] => None
  | u :: r =>
    let u := b2n u in
    match u / 64 with
    | 0 => Some ((u mod 64, false), r)
    | 1 => match r with u2 :: r' => Some (((u mod 64) * 256 + b2n u2, false), r') | [] => None end
    | 3 => Some ((u mod 64, true), r)
    | _ => if u =? 128 then match rd_be32 r with Some (n, r') => Some ((n, false), r') | None => None end
           else if u =? 129 then
             match rd_be32 r with Some (hi, r') => match rd_be32 r' with Some (_, r'') => Some ((hi, false), r'') | None => None end | None => None end
           else None
    end
  end.
Definition read_length : P N := x <- read_enc_len ;; if snd x then fail_ else ret (fst x).

Lemma exact_enc_len f n : fits f n -> exact read_enc_len (enc_len f n) (model_value f n, false).
Proof.
  intros H r. destruct f; cbn [fits enc_len model_value] in *.
  - cbn [app read_enc_len]. rewrite b2n_n2b by lia.
    replace (n / 64) with 0 by (symmetry; apply N.div_small; lia). cbn. rewrite N.mod_small by lia. reflexivity.
  - cbn [app read_enc_len]. rewrite b2n_n2b by lia.
    replace ((64 + n / 256) / 64) with 1 by lia. cbn match.
    rewrite b2n_n2b_mod. do 2 f_equal. f_equal. lia.
  - cbn [app read_enc_len]. rewrite b2n_n2b by lia. change (128 / 64) with 2. cbn match. change (128 =? 128) with true. cbn match.
    rewrite rd_be32_be32 by assumption. reflexivity.
  - cbn [app read_enc_len]. rewrite b2n_n2b by lia. change (129 / 64) with 2. cbn match. change (129 =? 128) with false. change (129 =? 129) with true. cbn match.
    rewrite <- app_assoc. rewrite rd_be32_be32.
    + rewrite rd_be32_be32. reflexivity. apply N.mod_lt. discriminate.
    + change (2^64) with (2^32 * 2^32) in H. apply N.div_lt_upper_bound; [discriminate|lia].
Qed.
Lemma exact_read_length f n : fits f n -> exact read_length (enc_len f n) (model_value f n).
Proof.
  intros H. unfold read_length. rewrite <- (app_nil_r (enc_len f n)).
  eapply exact_bind; [apply exact_enc_len; exact H|]. simpl. apply exact_ret.
Qed.

(* ---------- RDB strings (ReadString), with LZF abstract ---------- *)
Section Str.
Variable render : Z -> bytes.                               (* strconv.FormatInt *)
Variable lzf : bytes -> N -> option bytes.                   (* lzfDecompress *)
Variable le_enc : nat -> N -> bytes.                         (* little endian, k bytes *)
Variable le_dec : bytes -> N.
Hypothesis le_len : forall k n, length (le_enc k n) = k.
Hypothesis le_ok : forall k n, n < 2 ^ (8 * N.of_nat k) -> le_dec (le_enc k n) = n.
Variable to_signed : N -> N -> Z.
Variable of_signed : N -> Z -> N.
Hypothesis signed_ok : forall bits z, 0 < bits -> (- 2 ^ (Z.of_N bits - 1) <= z < 2 ^ (Z.of_N bits - 1))%Z -> to_signed bits (of_signed bits z) = z.
Hypothesis of_signed_lt : forall bits z, 0 < bits -> of_signed bits z < 2 ^ bits.

Inductive rstring :=
| SRaw (f : lenform) (s : bytes)
| SInt8 (z : Z) | SInt16 (z : Z) | SInt32 (z : Z)
| SLzf (fc fu : lenform) (blob : bytes) (ulen : N).

Definition enc_string (x : rstring) : bytes :=
  match x with
  | SRaw f s => enc_len f (lenN s) ++ s
  | SInt8 z => [n2b 192; n2b (of_signed 8 z)]
  | SInt16 z => n2b 193 :: le_enc 2 (of_signed 16 z)
  | SInt32 z => n2b 194 :: le_enc 4 (of_signed 32 z)
  | SLzf fc fu blob ulen => n2b 195 :: enc_len fc (lenN blob) ++ enc_len fu ulen ++ blob
  end.
Definition wf_string (x : rstring) : Prop :=
  match x with
  | SRaw f s => fits f (lenN s) /\ f <> L64
  | SInt8 z => (- 2 ^ 7 <= z < 2 ^ 7)%Z | SInt16 z => (- 2 ^ 15 <= z < 2 ^ 15)%Z | SInt32 z => (- 2 ^ 31 <= z < 2 ^ 31)%Z
  | SLzf fc fu blob ulen => fits fc (lenN blob) /\ fc <> L64 /\ fits fu ulen /\ fu <> L64 /\ lzf blob ulen <> None
  end.
Definition logical_string (x : rstring) : bytes :=
  match x with
  | SRaw _ s => s | SInt8 z | SInt16 z | SInt32 z => render z
  | SLzf _ _ blob ulen => match lzf blob ulen with Some s => s | None => [] end
  end.

Definition read_string : P bytes :=
  x <- read_enc_len ;;
  let '(l, encoded) := x in
  if negb encoded then take l
  else if l =? 0 then b <- byte1 ;; ret (render (to_signed 8 (b2n b)))
  else if l =? 1 then bs <- take 2 ;; ret (render (to_signed 16 (le_dec bs)))
  else if l =? 2 then bs <- take 4 ;; ret (render (to_signed 32 (le_dec bs)))
  else if l =? 3 then
    inlen <- read_length ;; outlen <- read_length ;; blob <- take inlen ;;
    (fun s => match lzf blob outlen with Some o => Some (o, s) | None => None end)
  else fail_.

Lemma model_value_id f n : f <> L64 -> model_value f n = n.
Proof. destruct f; simpl; congruence. Qed.

Lemma enc_val_hdr k : k < 64 -> forall r, read_enc_len (n2b (192 + k) :: r) = Some ((k, true), r).
Proof.
  intros Hk r. cbn [read_enc_len]. rewrite b2n_n2b by lia.
  replace ((192 + k) / 64) with 3 by lia. cbn match. do 2 f_equal. f_equal. lia.
Qed.

Theorem exact_read_string x : wf_string x -> exact read_string (enc_string x) (logical_string x).
Proof.
  destruct x as [f s|z|z|z|fc fu blob ulen]; cbn [wf_string enc_string logical_string]; intros W r.
  - destruct W as [W1 W2]. unfold read_string, bind. rewrite <- app_assoc.
    rewrite (exact_enc_len f (lenN s) W1). rewrite model_value_id by exact W2. simpl negb. cbv iota. apply take_app.
  - unfold read_string, bind. cbn [app]. change 192 with (192 + 0). rewrite enc_val_hdr by lia. cbn.
    rewrite b2n_n2b by (apply (of_signed_lt 8); lia). rewrite signed_ok by (lia || exact W). reflexivity.
  - unfold read_string, bind. cbn [app]. change 193 with (192 + 1). rewrite enc_val_hdr by lia. cbn -[take].
    change 2 with (N.of_nat 2). rewrite <- (le_len 2 (of_signed 16 z)) at 1. fold (lenN (le_enc 2 (of_signed 16 z))). rewrite take_app.
    unfold ret. rewrite le_ok by (apply (of_signed_lt 16); lia). rewrite signed_ok by (lia || exact W). reflexivity.
  - unfold read_string, bind. cbn [app]. change 194 with (192 + 2). rewrite enc_val_hdr by lia. cbn -[take].
    change 4 with (N.of_nat 4). rewrite <- (le_len 4 (of_signed 32 z)) at 1. fold (lenN (le_enc 4 (of_signed 32 z))). rewrite take_app.
    unfold ret. rewrite le_ok by (apply (of_signed_lt 32); lia). rewrite signed_ok by (lia || exact W). reflexivity.
  - destruct W as (W1 & W2 & W3 & W4 & W5). unfold read_string, bind at 1. cbn [app]. change 195 with (192 + 3). rewrite enc_val_hdr by lia.
    cbn -[take read_length bind]. unfold bind. rewrite <- !app_assoc.
    rewrite (exact_read_length fc (lenN blob) W1). rewrite (exact_read_length fu ulen W3).
    rewrite !model_value_id by assumption. rewrite take_app.
    destruct (lzf blob ulen); [reflexivity|congruence].
Qed.

(* ---------- values: what readObjectValue skips and captures ---------- *)
Variable float_ok : bytes -> bool.            (* strconv.ParseFloat succeeds on this text *)

Inductive score := ScText (t : bytes) | ScNaN | ScPInf | ScNInf.
Definition enc_score (s : score) : bytes :=
  match s with ScText t => n2b (lenN t) :: t | ScNaN => [n2b 253] | ScPInf => [n2b 254] | ScNInf => [n2b 255] end.
Definition wf_score (s : score) : Prop := match s with ScText t => lenN t < 253 /\ float_ok t = true | _ => True end.
Definition read_float : P unit :=
  u <- byte1 ;;
  let u := b2n u in
  if (u =? 253) || (u =? 254) || (u =? 255) then ret tt
  else t <- take u ;; if float_ok t then ret tt else fail_.
Lemma exact_read_float s : wf_score s -> exact read_float (enc_score s) tt.
Proof.
  destruct s as [t| | |]; cbn [wf_score enc_score]; intros W r; unfold read_float, bind; cbn [app byte1].
  - destruct W as [W1 W2]. rewrite b2n_n2b by lia.
    replace (lenN t =? 253) with false by (symmetry; apply N.eqb_neq; lia).
    replace (lenN t =? 254) with false by (symmetry; apply N.eqb_neq; lia).
    replace (lenN t =? 255) with false by (symmetry; apply N.eqb_neq; lia).
    cbn [orb]. rewrite take_app. rewrite W2. reflexivity.
  - reflexivity.
  - reflexivity.
  - reflexivity.
Qed.

Inductive rvalue :=
| VStr (t : N) (x : rstring)                                   (* types 0, 9..13: one string *)
| VSeq (t : N) (f : lenform) (xs : list rstring)               (* types 1, 2, 14: count + strings *)
| VZSet (f : lenform) (ms : list (rstring * score))            (* type 3 *)
| VZSet2 (f : lenform) (ms : list (rstring * bytes))           (* type 5: 8 raw bytes each *)
| VHash (f : lenform) (ps : list (rstring * rstring)).          (* type 4, not split *)

Definition vtype (v : rvalue) : N :=
  match v with VStr t _ => t | VSeq t _ _ => t | VZSet _ _ => 3 | VZSet2 _ _ => 5 | VHash _ _ => 4 end.
Definition enc_value (v : rvalue) : bytes :=
  match v with
  | VStr _ x => enc_string x
  | VSeq _ f xs => enc_len f (N.of_nat (length xs)) ++ concat (map enc_string xs)
  | VZSet f ms => enc_len f (N.of_nat (length ms)) ++ concat (map (fun m => enc_string (fst m) ++ enc_score (snd m)) ms)
  | VZSet2 f ms => enc_len f (N.of_nat (length ms)) ++ concat (map (fun m => enc_string (fst m) ++ snd m) ms)
  | VHash f ps => enc_len f (N.of_nat (length ps)) ++ concat (map (fun p => enc_string (fst p) ++ enc_string (snd p)) ps)
  end.
Definition str_type (t : N) : bool := (t =? 0) || (t =? 9) || (t =? 10) || (t =? 11) || (t =? 12) || (t =? 13).
Definition seq_type (t : N) : bool := (t =? 1) || (t =? 2) || (t =? 14).
Definition wf_value (v : rvalue) : Prop :=
  match v with
  | VStr t x => str_type t = true /\ wf_string x
  | VSeq t f xs => seq_type t = true /\ fits f (N.of_nat (length xs)) /\ f <> L64 /\ Forall wf_string xs
  | VZSet f ms => fits f (N.of_nat (length ms)) /\ f <> L64 /\ Forall (fun m => wf_string (fst m) /\ wf_score (snd m)) ms
  | VZSet2 f ms => fits f (N.of_nat (length ms)) /\ f <> L64 /\ Forall (fun m => wf_string (fst m) /\ lenN (snd m) = 8) ms
  | VHash f ps => fits f (N.of_nat (length ps)) /\ f <> L64 /\ Forall (fun p => wf_string (fst p) /\ wf_string (snd p)) ps
  end.

Definition skip_value (t : N) : P unit :=
  if str_type t then _ <- read_string ;; ret tt
  else if seq_type t then n <- read_length ;; skip_n (N.to_nat n) read_string
  else if t =? 3 then n <- read_length ;; skip_n (N.to_nat n) (_ <- read_string ;; read_float)
  else if t =? 5 then n <- read_length ;; skip_n (N.to_nat n) (_ <- read_string ;; _ <- take 8 ;; ret tt)
  else if t =? 4 then n <- read_length ;; skip_n (N.to_nat n) (_ <- read_string ;; _ <- read_string ;; ret tt)
  else fail_.

Lemma Forall2_map_l {A B C} (R : B -> C -> Prop) (f : A -> B) (g : A -> C) l :
  Forall (fun a => R (f a) (g a)) l -> Forall2 R (map f l) (map g l).
Proof. induction 1; simpl; constructor; auto. Qed.

Lemma exact_seq {A} (p : P A) (enc : list bytes) (res : list A) f :
  fits f (N.of_nat (length enc)) -> f <> L64 -> Forall2 (fun e a => exact p e a) enc res ->
  exact (n <- read_length ;; skip_n (N.to_nat n) p) (enc_len f (N.of_nat (length enc)) ++ concat enc) tt.
Proof.
  intros Hf Hn HF. eapply exact_bind; [apply exact_read_length; exact Hf|].
  rewrite model_value_id by exact Hn. rewrite Nat2N.id. apply (exact_skip_n p enc res HF).
Qed.

Theorem exact_skip_value v : wf_value v -> exact (skip_value (vtype v)) (enc_value v) tt.
Proof.
  destruct v as [t x|t f xs|f ms|f ms|f ps]; cbn [wf_value vtype enc_value]; intros W.
  - destruct W as [Wt Wx]. unfold skip_value. rewrite Wt. rewrite <- (app_nil_r (enc_string x)).
    eapply exact_bind; [apply exact_read_string; exact Wx|apply exact_ret].
  - destruct W as (Wt & Wf & Wn & Wx). unfold skip_value.
    assert (str_type t = false) as ->.
    { unfold seq_type, str_type in *. repeat (apply orb_true_iff in Wt; destruct Wt as [Wt|Wt]);
        apply N.eqb_eq in Wt; subst; reflexivity. }
    rewrite Wt. rewrite <- (map_length enc_string xs) in Wf |- *.
    apply (exact_seq read_string (map enc_string xs) (map logical_string xs)); auto.
    apply Forall2_map_l. eapply Forall_impl; [|exact Wx]. intros a Ha. apply exact_read_string. exact Ha.
  - destruct W as (Wf & Wn & Wx). unfold skip_value. cbn.
    rewrite <- (map_length (fun m => enc_string (fst m) ++ enc_score (snd m)) ms) in Wf |- *.
    apply (exact_seq _ _ (map (fun _ => tt) ms)); auto.
    apply Forall2_map_l. eapply Forall_impl; [|exact Wx]. intros [x sc] [H1 H2]. simpl.
    eapply exact_bind; [apply exact_read_string; exact H1|apply exact_read_float; exact H2].
  - destruct W as (Wf & Wn & Wx). unfold skip_value. cbn.
    rewrite <- (map_length (fun m => enc_string (fst m) ++ snd m) ms) in Wf |- *.
    apply (exact_seq _ _ (map (fun _ => tt) ms)); auto.
    apply Forall2_map_l. eapply Forall_impl; [|exact Wx]. intros [x raw] [H1 H2]. simpl in *.
    eapply exact_bind; [apply exact_read_string; exact H1|].
    rewrite <- (app_nil_r raw). eapply exact_bind; [rewrite <- H2; apply exact_take|apply exact_ret].
  - destruct W as (Wf & Wn & Wx). unfold skip_value. cbn.
    rewrite <- (map_length (fun p => enc_string (fst p) ++ enc_string (snd p)) ps) in Wf |- *.
    apply (exact_seq _ _ (map (fun _ => tt) ps)); auto.
    apply Forall2_map_l. eapply Forall_impl; [|exact Wx]. intros [x y] [H1 H2]. simpl in *.
    eapply exact_bind; [apply exact_read_string; exact H1|].
    rewrite <- (app_nil_r (enc_string y)). eapply exact_bind; [apply exact_read_string; exact H2|apply exact_ret].
Qed.

(* ---------- readObjectValue = capture of the skip; createValueDump ---------- *)
Variable crc64le : bytes -> bytes.           (* 8 bytes, little endian, Redis CRC-64 of the argument *)
Definition create_value_dump (t : N) (val : bytes) : bytes :=
  let body := n2b t :: val ++ [n2b 6; n2b 0] in body ++ crc64le body.

Definition read_object (t : N) : P bytes := x <- capture (skip_value t) ;; ret (create_value_dump t (snd x)).
Theorem exact_read_object v : wf_value v ->
  exact (read_object (vtype v)) (enc_value v) (create_value_dump (vtype v) (enc_value v)).
Proof.
  intros W r. unfold read_object, bind.
  rewrite (exact_capture _ _ _ (exact_skip_value v W) r). reflexivity.
Qed.

(* ---------- the opcode loop of NextBinEntry, one unit at a time ---------- *)
Record lstate := { db : N; p_exp : N; p_idle : N; p_freq : N }.      (* selected db + fields of the entry being built *)
Record record := { r_db : N; r_key : bytes; r_type : N; r_val : bytes; r_exp : N; r_idle : N; r_freq : N }.

Inductive unit_ :=
| UExpMs (ms : N) | UExpS (s : N) | UIdle (f : lenform) (n : N) | UFreq (n : N)
| USelect (f : lenform) (n : N) | UResize (f1 f2 : lenform) (a b : N)
| UAux (k v : rstring) | ULua (kf : lenform) (v : rstring)
| UKey (k : rstring) (v : rvalue).

Definition lua : bytes := [x6c; x75; x61].
Definition enc_unit (u : unit_) : bytes :=
  match u with
  | UExpMs ms => n2b 252 :: le_enc 8 ms
  | UExpS s => n2b 253 :: le_enc 4 s
  | UIdle f n => n2b 248 :: enc_len f n
  | UFreq n => [n2b 249; n2b n]
  | USelect f n => n2b 254 :: enc_len f n
  | UResize f1 f2 a b => n2b 251 :: enc_len f1 a ++ enc_len f2 b
  | UAux k v => n2b 250 :: enc_string k ++ enc_string v
  | ULua kf v => n2b 250 :: enc_string (SRaw kf lua) ++ enc_string v
  | UKey k v => n2b (vtype v) :: enc_string k ++ enc_value v
  end.
Definition bytes_eqb (a b : bytes) : bool := if list_eq_dec Byte.byte_eq_dec a b then true else false.
Definition wf_unit (u : unit_) : Prop :=
  match u with
  | UExpMs ms => ms < 2 ^ 64 | UExpS s => s < 2 ^ 32
  | UIdle f n => fits f n /\ f <> L64 | UFreq n => n < 256
  | USelect f n => fits f n /\ f <> L64
  | UResize f1 f2 a b => fits f1 a /\ fits f2 b
  | UAux k v => wf_string k /\ wf_string v /\ logical_string k <> lua
  | ULua kf v => fits kf 3 /\ kf <> L64 /\ wf_string v
  | UKey k v => wf_string k /\ wf_value v /\ vtype v < 16
  end.

Definition clear (st : lstate) : lstate := {| db := db st; p_exp := 0; p_idle := 0; p_freq := 0 |}.

(* one iteration of the `for` loop: new state, and the record returned by NextBinEntry if this unit ends the call *)
Definition step1 (st : lstate) : P (lstate * option record) :=
  t <- byte1 ;;
  let t := b2n t in
  if t =? 250 then
    k <- (fun s => match read_string s with Some x => Some x | None => Some ([], s) end) ;;     (* errors ignored by the Go code *)
    v <- (fun s => match read_string s with Some x => Some x | None => Some ([], s) end) ;;
    if bytes_eqb k lua
    then ret (clear st, Some {| r_db := db st; r_key := k; r_type := 250; r_val := v; r_exp := p_exp st; r_idle := p_idle st; r_freq := p_freq st |})
    else ret (st, None)
  else if t =? 251 then
    _ <- (fun s => match read_length s with Some x => Some x | None => Some (0, s) end) ;;
    _ <- (fun s => match read_length s with Some x => Some x | None => Some (0, s) end) ;; ret (st, None)
  else if t =? 252 then bs <- take 8 ;; ret ({| db := db st; p_exp := le_dec bs; p_idle := p_idle st; p_freq := p_freq st |}, None)
  else if t =? 253 then bs <- take 4 ;; ret ({| db := db st; p_exp := le_dec bs * 1000; p_idle := p_idle st; p_freq := p_freq st |}, None)
  else if t =? 254 then n <- read_length ;; ret ({| db := n; p_exp := p_exp st; p_idle := p_idle st; p_freq := p_freq st |}, None)
  else if t =? 248 then n <- read_length ;; ret ({| db := db st; p_exp := p_exp st; p_idle := n; p_freq := p_freq st |}, None)
  else if t =? 249 then b <- byte1 ;; ret ({| db := db st; p_exp := p_exp st; p_idle := p_idle st; p_freq := b2n b |}, None)
  else
    k <- read_string ;; val <- read_object t ;;
    ret (clear st, Some {| r_db := db st; r_key := k; r_type := t; r_val := val; r_exp := p_exp st; r_idle := p_idle st; r_freq := p_freq st |}).

(* reference semantics of a unit, from the syntax tree alone *)
Definition unit_effect (st : lstate) (u : unit_) : lstate * option record :=
  match u with
  | UExpMs ms => ({| db := db st; p_exp := ms; p_idle := p_idle st; p_freq := p_freq st |}, None)
  | UExpS s => ({| db := db st; p_exp := s * 1000; p_idle := p_idle st; p_freq := p_freq st |}, None)
  | UIdle _ n => ({| db := db st; p_exp := p_exp st; p_idle := n; p_freq := p_freq st |}, None)
  | UFreq n => ({| db := db st; p_exp := p_exp st; p_idle := p_idle st; p_freq := n |}, None)
  | USelect _ n => ({| db := n; p_exp := p_exp st; p_idle := p_idle st; p_freq := p_freq st |}, None)
  | UResize _ _ _ _ | UAux _ _ => (st, None)
  | ULua _ v => (clear st, Some {| r_db := db st; r_key := lua; r_type := 250; r_val := logical_string v;
                                  r_exp := p_exp st; r_idle := p_idle st; r_freq := p_freq st |})
  | UKey k v => (clear st, Some {| r_db := db st; r_key := logical_string k; r_type := vtype v;
                                  r_val := create_value_dump (vtype v) (enc_value v);
                                  r_exp := p_exp st; r_idle := p_idle st; r_freq := p_freq st |})
  end.

Ltac tsel t :=
  repeat match goal with
  | |- context [t =? ?c] => let v := eval vm_compute in (t =? c) in change (t =? c) with v
  end; cbv iota.

Lemma bytes_eqb_refl a : bytes_eqb a a = true. Proof. unfold bytes_eqb. destruct (list_eq_dec _ a a); congruence. Qed.
Lemma bytes_eqb_neq a b : a <> b -> bytes_eqb a b = false. Proof. intros. unfold bytes_eqb. destruct (list_eq_dec _ a b); congruence. Qed.

Theorem exact_step1 st u : wf_unit u -> exact (step1 st) (enc_unit u) (unit_effect st u).
Proof.
  destruct u; cbn [wf_unit enc_unit unit_effect]; intros W r; unfold step1; unfold bind at 1; cbn [app byte1].
  - (* expiry ms *) change (b2n (n2b 252)) with 252. tsel 252. unfold bind.
    change 8 with (N.of_nat 8). rewrite <- (le_len 8 ms) at 1. fold (lenN (le_enc 8 ms)). rewrite take_app. unfold ret.
    rewrite le_ok by (change (8 * N.of_nat 8) with 64; exact W). reflexivity.
  - (* expiry s *) change (b2n (n2b 253)) with 253. tsel 253. unfold bind.
    change 4 with (N.of_nat 4). rewrite <- (le_len 4 s) at 1. fold (lenN (le_enc 4 s)). rewrite take_app. unfold ret.
    rewrite le_ok by (change (8 * N.of_nat 4) with 32; exact W). reflexivity.
  - (* idle *) destruct W as [W1 W2]. change (b2n (n2b 248)) with 248. tsel 248. unfold bind.
    rewrite (exact_read_length f n W1). rewrite model_value_id by exact W2. reflexivity.
  - (* freq *) change (b2n (n2b 249)) with 249. tsel 249. unfold bind. cbn [byte1]. rewrite b2n_n2b by exact W. reflexivity.
  - (* select *) destruct W as [W1 W2]. change (b2n (n2b 254)) with 254. tsel 254. unfold bind.
    rewrite (exact_read_length f n W1). rewrite model_value_id by exact W2. reflexivity.
  - (* resize *) destruct W as [W1 W2]. change (b2n (n2b 251)) with 251. tsel 251. unfold bind.
    rewrite <- app_assoc. rewrite (exact_read_length f1 a W1). rewrite (exact_read_length f2 b W2). reflexivity.
  - (* aux, not lua *) destruct W as (W1 & W2 & W3). change (b2n (n2b 250)) with 250. tsel 250. unfold bind.
    rewrite <- app_assoc. rewrite (exact_read_string k W1). rewrite (exact_read_string v W2).
    rewrite bytes_eqb_neq by exact W3. reflexivity.
  - (* lua *) destruct W as (W1 & W2 & W3). change (b2n (n2b 250)) with 250. tsel 250. unfold bind.
    rewrite <- app_assoc. rewrite (exact_read_string (SRaw kf lua)) by (split; assumption).
    rewrite (exact_read_string v W3). cbn [logical_string]. rewrite bytes_eqb_refl. reflexivity.
  - (* key record *) destruct W as (W1 & W2 & W3). rewrite b2n_n2b by lia.
    assert (T : forall c, 248 <= c -> (vtype v =? c) = false) by (intros; apply N.eqb_neq; lia).
    rewrite !T by lia. unfold bind. rewrite <- app_assoc.
    rewrite (exact_read_string k W1). rewrite (exact_read_object v W2). reflexivity.
Qed.

(* a whole sequence of units: the records come out in file order, each with the fields bound to it *)
Fixpoint units_effect (st : lstate) (us : list unit_) : lstate * list record :=
  match us with [] => (st, []) | u :: r =>
    let '(st1, o) := unit_effect st u in let '(st2, rs) := units_effect st1 r in
    (st2, match o with Some x => x :: rs | None => rs end) end.
Fixpoint run_units (n : nat) (st : lstate) : P (lstate * list record) :=
  match n with O => ret (st, []) | S k =>
    x <- step1 st ;; y <- run_units k (fst x) ;;
    ret (fst y, match snd x with Some rec => rec :: snd y | None => snd y end) end.

Theorem exact_run_units : forall us st, Forall wf_unit us ->
  exact (run_units (length us) st) (concat (map enc_unit us)) (units_effect st us).
Proof.
  induction us as [|u us IH]; intros st W; simpl; [apply exact_ret|].
  inversion W as [|? ? Wu Wus]; subst.
  eapply exact_bind; [apply exact_step1; exact Wu|].
  destruct (unit_effect st u) as [st1 o] eqn:E. simpl.
  rewrite <- (app_nil_r (concat (map enc_unit us))).
  eapply exact_bind; [apply IH; exact Wus|].
  destruct (units_effect st1 us) as [st2 rs]. simpl. apply exact_ret.
Qed.
End Str.
Print Assumptions exact_run_units.
