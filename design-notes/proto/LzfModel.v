From Coq Require Import List NArith ZArith Lia Bool Strings.Byte ZifyN ZifyNat ZifyBool.
Import ListNotations.
Open Scope N_scope.
Notation bytes := (list byte).
Definition b2n (b : byte) : N := Byte.to_N b.

(* lzfDecompress of pkg/rdb/reader.go as a byte-at-a-time state machine (structural in the input, no fuel).
   `out` is kept reversed; reads of not-yet-written positions inside the output buffer see the zero byte the
   Go `make` put there; anything that would index outside `in` or `out` is an error (the Go code recovers
   the panic into an error). *)
Inductive phase := Ctrl | Lit (k : N) | BackExt (ctrl : N) | BackOff (ctrl len : N).
Record st := { ph : phase; rout : bytes (* reversed output *); olen : N; fail : bool }.

Definition out_get (outlen : N) (s : st) (ref : N) : option byte :=
  if ref <? olen s then Some (nth (N.to_nat (olen s - 1 - ref)) (rout s) x00)
  else if ref <? outlen then Some x00 else None.

Definition push (outlen : N) (s : st) (b : byte) (p : phase) : st :=
  if olen s <? outlen then {| ph := p; rout := b :: rout s; olen := olen s + 1; fail := fail s |}
  else {| ph := p; rout := rout s; olen := olen s; fail := true |}.

(* copy n bytes starting at ref (ref may run into bytes produced by this very copy) *)
Fixpoint copy (outlen : N) (n : nat) (ref : N) (s : st) : st :=
  match n with
  | O => s
  | S k => match out_get outlen s ref with
           | Some b => copy outlen k (ref + 1) (push outlen s b Ctrl)
           | None => {| ph := Ctrl; rout := rout s; olen := olen s; fail := true |}
           end
  end.

Definition step (outlen : N) (s : st) (b : byte) : st :=
  if fail s then s else
  let v := b2n b in
  match ph s with
  | Ctrl => if v <? 32 then {| ph := Lit (v + 1); rout := rout s; olen := olen s; fail := false |}
            else if v / 32 =? 7 then {| ph := BackExt v; rout := rout s; olen := olen s; fail := false |}
            else {| ph := BackOff v (v / 32); rout := rout s; olen := olen s; fail := false |}
  | Lit k => push outlen s b (if k =? 1 then Ctrl else Lit (k - 1))
  | BackExt ctrl => {| ph := BackOff ctrl (7 + v); rout := rout s; olen := olen s; fail := false |}
  | BackOff ctrl len =>
      let back := (ctrl mod 32) * 256 + v + 1 in
      if olen s <? back then {| ph := Ctrl; rout := rout s; olen := olen s; fail := true |}      (* ref < 0 *)
      else copy outlen (N.to_nat (len + 2)) (olen s - back) s
  end.

Definition lzf_decompress (inp : bytes) (outlen : N) : option bytes :=
  let s := fold_left (step outlen) inp {| ph := Ctrl; rout := []; olen := 0; fail := false |} in
  if fail s then None else
  match ph s with
  | Ctrl => if olen s =? outlen then Some (rev (rout s)) else None
  | _ => None           (* input ended inside a run: in[i] out of range *)
  end.

(* "aaaaaaaaaa" = literal 'a' then back-reference len 7+... : ctrl 0x00 'a', ctrl (7<<5)|0, ext 0, off 0  -> 1 + (7+0+2)=10 *)
Example lzf_runlength : lzf_decompress [x00; x61; xe0; x00; x00] 10 = Some (repeat x61 10).
Proof. vm_compute. reflexivity. Qed.
Example lzf_literal : lzf_decompress [x02; x61; x62; x63] 3 = Some [x61; x62; x63].
Proof. vm_compute. reflexivity. Qed.
Example lzf_short : lzf_decompress [x02; x61; x62; x63] 4 = None. Proof. vm_compute. reflexivity. Qed.
Example lzf_overflow : lzf_decompress [x02; x61; x62; x63] 2 = None. Proof. vm_compute. reflexivity. Qed.
Example lzf_badref : lzf_decompress [x00; x61; x20; x05] 4 = None. Proof. vm_compute. reflexivity. Qed.
Example lzf_truncated : lzf_decompress [x02; x61] 3 = None. Proof. vm_compute. reflexivity. Qed.

