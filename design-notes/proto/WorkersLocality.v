From Coq Require Import List Arith Lia Bool.
Import ListNotations.

(* C07 core: any interleaving of the workers' command streams yields, cell by cell, the state obtained by
   running each key's own command block alone.  A "cell" is a (database, key) pair of the target;
   SELECTs only touch connection-local state and are already resolved into the cell of each op. *)
Section Locality.
Variable cell V : Type.
Variable cell_eqb : cell -> cell -> bool.
Hypothesis cell_eqb_spec : forall a b, reflect (a = b) (cell_eqb a b).

Record op := { ocell : cell; oeff : V -> V }.   (* one Redis command, as an update of one key *)
Definition state := cell -> V.

Definition step (s : state) (o : op) : state :=
  fun c => if cell_eqb c (ocell o) then oeff o (s c) else s c.
Definition run (s : state) (os : list op) : state := fold_left step os s.

Definition on (c : cell) (o : op) : bool := cell_eqb c (ocell o).

(* locality: what a cell holds depends only on the ops addressed to it, in their order *)
Lemma run_local : forall os s c, run s os c = fold_left (fun v o => oeff o v) (filter (on c) os) (s c).
Proof.
  induction os as [|o os IH]; intros s c; simpl; [reflexivity|].
  unfold run in *. simpl. rewrite IH. unfold on, step.
  destruct (cell_eqb c (ocell o)); reflexivity.
Qed.

(* interleavings of n sequences *)
Inductive Interleave : list (list op) -> list op -> Prop :=
| IL_nil : forall ls, Forall (fun l => l = []) ls -> Interleave ls []
| IL_pick : forall pre o l post r,
    Interleave (pre ++ l :: post) r -> Interleave (pre ++ (o :: l) :: post) (o :: r).

Lemma concat_filter_nil (P : op -> bool) ls : Forall (fun l => l = []) ls -> concat (map (filter P) ls) = [].
Proof. induction 1 as [|l ls Hl _ IH]; simpl; [reflexivity|]. subst. simpl. exact IH. Qed.

(* if at most one worker ever addresses cell c, an interleaving keeps that worker's order on c *)
Definition owner_unique (c : cell) (ls : list (list op)) : Prop :=
  forall i j li lj, nth_error ls i = Some li -> nth_error ls j = Some lj ->
    existsb (on c) li = true -> existsb (on c) lj = true -> i = j.

Lemma filter_none (c : cell) l : existsb (on c) l = false -> filter (on c) l = [].
Proof. induction l as [|o l IH]; simpl; [reflexivity|]. destruct (on c o); simpl; [discriminate|exact IH]. Qed.

Lemma interleave_filter c : forall ls r, Interleave ls r ->
  owner_unique c ls -> filter (on c) r = concat (map (filter (on c)) ls).
Proof.
  induction 1 as [ls Hnil|pre o l post r H IH]; intros U.
  - rewrite concat_filter_nil by assumption. reflexivity.
  - assert (U' : owner_unique c (pre ++ l :: post)).
    { intros i j li lj Hi Hj Ei Ej.
      assert (lift : forall k lk, nth_error (pre ++ l :: post) k = Some lk -> existsb (on c) lk = true ->
                exists lk', nth_error (pre ++ (o :: l) :: post) k = Some lk' /\ existsb (on c) lk' = true).
      { intros k lk Hk Ek. destruct (lt_eq_lt_dec k (length pre)) as [[Hlt|Heq]|Hgt].
        - rewrite nth_error_app1 in * by assumption. eauto.
        - subst k. rewrite nth_error_app2 in * by lia. rewrite Nat.sub_diag in *. simpl in *.
          inversion Hk; subst. eexists; split; [reflexivity|]. simpl. rewrite Ek. apply orb_true_r.
        - rewrite nth_error_app2 in * by lia. destruct (k - length pre) as [|m] eqn:M; [lia|]. simpl in *. eauto. }
      destruct (lift _ _ Hi Ei) as (li' & Hi' & Ei'). destruct (lift _ _ Hj Ej) as (lj' & Hj' & Ej').
      eapply U; eauto. }
    specialize (IH U'). simpl.
    rewrite !map_app, !concat_app in *. simpl in *.
    destruct (on c o) eqn:E.
    + (* o addresses c: every list before it must be silent on c *)
      assert (Hpre : concat (map (filter (on c)) pre) = []).
      { clear IH U' H. assert (forall k lk, nth_error pre k = Some lk -> existsb (on c) lk = false).
        { intros k lk Hk. destruct (existsb (on c) lk) eqn:X; [|reflexivity]. exfalso.
          assert (k < length pre) by (apply nth_error_Some; congruence).
          assert (k = length pre).
          { eapply (U k (length pre) lk (o :: l)).
            - rewrite nth_error_app1 by assumption. exact Hk.
            - rewrite nth_error_app2 by lia. rewrite Nat.sub_diag. reflexivity.
            - exact X.
            - simpl. rewrite E. reflexivity. }
          lia. }
        clear U. induction pre as [|p pre IHp]; simpl; [reflexivity|].
        rewrite (filter_none c p) by (apply (H 0 p); reflexivity). simpl.
        apply IHp. intros k lk Hk. apply (H (S k) lk). exact Hk. }
      rewrite Hpre in *. simpl in *. rewrite IH. reflexivity.
    + exact IH.
Qed.

(* hence: the cell ends with exactly what its single owner's commands make of it *)
Theorem any_schedule_same_cell ls r r' s c :
  Interleave ls r -> Interleave ls r' -> owner_unique c ls -> run s r c = run s r' c.
Proof. intros H H' U. rewrite !run_local. rewrite (interleave_filter c ls r H U), (interleave_filter c ls r' H' U). reflexivity. Qed.
End Locality.
Print Assumptions any_schedule_same_cell.
