From Coq Require Import List ZArith Lia Bool.
Import ListNotations.

(* C13: model of filter.getMatchKeys AS WRITTEN TODAY, and the reference `filter_args`. *)
Section CmdFilter.
Variable A : Type.                 (* an argument (bytes) *)
Variable pass : A -> bool.         (* FilterKey(key) == false *)
Variable d : A.

(* args[i], Go slice indexing panics out of range -> None *)
Definition at_ (args : list A) (i : Z) : option A :=
  if (i <? 0)%Z then None else nth_error args (Z.to_nat i).

(* for firstkey := first-1; firstkey <= lastkey; firstkey += step  (fuel = len args + 1 iterations at most) *)
Fixpoint scan (fuel : nat) (args : list A) (k lastkey step : Z) (acc : list Z) : option (list Z) :=
  match fuel with
  | O => Some (rev acc)
  | S f => if (k <=? lastkey)%Z then
             match at_ args k with
             | None => None
             | Some a => scan f args (k + step) lastkey step (if pass a then k :: acc else acc)
             end
           else Some (rev acc)
  end.

Fixpoint take (args : list A) (i : Z) (n : nat) : option (list A) :=
  match n with O => Some [] | S m => match at_ args i, take args (i + 1) m with Some a, Some r => Some (a :: r) | _, _ => None end end.

Fixpoint groups (args : list A) (pos : list Z) (step : nat) : option (list A) :=
  match pos with [] => Some [] | p :: ps => match take args p step, groups args ps step with Some g, Some r => Some (g ++ r) | _, _ => None end end.

Definition get_match_keys (first last step : Z) (args : list A) : option (list A * bool) :=
  let len := Z.of_nat (length args) in
  let lastkey := (let l := last - 1 in if l <? 0 then l + len else l)%Z in
  match scan (S (length args)) args (first - 1) lastkey step [] with
  | None => None
  | Some pos =>
      let number := Z.of_nat (length pos) in
      if (number * step + len - lastkey - step <? 0)%Z then None else      (* make([][]byte, negative) panics *)
      match groups args pos (Z.to_nat step) with
      | None => None
      | Some kept => Some (kept ++ skipn (Z.to_nat (lastkey + step)) args, negb (Nat.eqb (length pos) 0))
      end
  end.

(* today's defect: unlink {1,-1,1} with a single passing key is dropped *)
End CmdFilter.

Example unlink_refuted : get_match_keys nat (fun _ => true) 1 (-1) 1 [7] = Some ([7], false).
Proof. vm_compute. reflexivity. Qed.
Example bitop_loses_op : get_match_keys nat (fun k => Nat.leb k 5) 2 (-1) 1 [99; 1; 2; 9] = Some ([1; 2; 9], true).
Proof. vm_compute. reflexivity. Qed.
Example mset_ok : get_match_keys nat (fun k => Nat.leb k 5) 1 (-1) 2 [1; 10; 9; 20; 2; 30] = Some ([1; 10; 2; 30], true).
Proof. vm_compute. reflexivity. Qed.
