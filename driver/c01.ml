(* c01.ml — cases, model runs and oracle for C01 (RDB parsing). *)
open Glue
open Frame
open Model

type case =
  | File of int * unit_ list * int       (* version, units, reader chunk size (0 = whole) *)
  | Broken of string * string            (* description, image: truncations / corruptions of a valid image *)

let id = "C01"
let rule = "abstract RDB files (versions 1..9; 1..3 databases in any order; every value type incl. zipmap/ziplist/intset blobs, quicklists, \
zset text and binary scores, streams with groups/PELs/consumers; every string encoding incl. int8/16/32 and LZF; length forms canonical or \
wider, 64-bit form at stream/module numbers; expiry s/ms, idle, freq, aux incl. lua, resize-db, module-aux with every sub-opcode) encoded by \
the Coq spec encoder and read by the real Loader through readers of varying chunk size; plus truncations and single-byte corruptions of valid \
images (differential only); non-trivial = at least one key record; distinct by wire line"

let limit = hash_chunk_limit

let gen st tier =
  let thorough = tier = "thorough" in
  let files = List.init (if thorough then 20000 else 1200) (fun i ->
    let big = i mod 50 = 0 in
    let us = Rdbgen.gen_units st ~nkeys:(if big then 12 else 4) ~max_elems:(if big then 120 else 6) ~meta:true in
    File (1 + rnd_int st 9, us, rnd_pick st [ 0; 1; 3; 17; 4096 ])) in
  let broken = List.concat (List.init (if thorough then 2000 else 150) (fun _ ->
    let us = Rdbgen.gen_units st ~nkeys:2 ~max_elems:3 ~meta:true in
    let img = Rdbgen.image (6 + rnd_int st 4) us in
    let n = String.length img in
    let cut = rnd_int st n in
    let pos = rnd_int st n in
    let b = Bytes.of_string img in
    (* replacement bytes that cannot announce a GiB-sized length *)
    Bytes.set b pos (Char.chr (rnd_pick st [ 0; 1; 5; 0x3f; 0x40; 0xc0; 0xc1; 0xc2; 0xfa; 0xfb; 0xfc; 0xfe; 0xff; 0x0e; 0x0f; 0x04 ]));
    [ Broken (Printf.sprintf "first %d of %d bytes" cut n, String.sub img 0 cut);
      Broken (Printf.sprintf "byte %d of %d replaced" pos n, Bytes.to_string b) ])) in
  files @ broken

(* F20 witness: module-aux FLOAT is 4 binary bytes *)
let corpus = [
  File (9, [ UModuleAux (L6, n_of_int 5, [ MFloat (L6, bytes_of_string "\x05\x00\x00\x00") ], L6);
             UKey (SRaw (L6, bytes_of_string "k"), VStr (N0, SRaw (L6, bytes_of_string "v"))) ], 0);
  File (7, [ USelect (L6, n_of_int 3); UExpMs (n_of_int 1600000000123); UIdle (L6, n_of_int 9); UFreq (n_of_int 200);
             UKey (SInt8 (z_of_int 7), VHash (L14, [ (SRaw (L6, bytes_of_string "f"), SInt16 (z_of_int 300)) ]));
             ULua (L6, SRaw (L6, bytes_of_string "return 1"));
             UKey (SRaw (L6, bytes_of_string "z"), VZSet (L6, [ (SRaw (L6, bytes_of_string "m"), ScText (bytes_of_string "3.5")) ])) ], 1) ]

let img_of = function File (v, us, _) -> Rdbgen.image v us | Broken (_, img) -> img
let to_line c = Printf.sprintf "load %s %d" (hex_of_string (img_of c)) (match c with File (_, _, ch) -> ch | Broken _ -> 0)
let show = function
  | File (v, us, ch) -> Printf.sprintf "RDB v%d read in %d-byte pieces: %s" v ch (String.concat "; " (List.map Rdbgen.show_unit us))
  | Broken (d, img) -> Printf.sprintf "damaged image (%s), %d bytes" d (String.length img)

let classify = function
  | File (_, us, _) ->
      let keys = List.filter (function UKey _ -> true | _ -> false) us in
      if keys = [] then None else
      Some (String.concat "+" (List.sort_uniq compare (List.map (function
        | UKey (_, VStr (t, _)) -> "t" ^ string_of_int (int_of_n t) | UKey (_, VSeq (t, _, _)) -> "t" ^ string_of_int (int_of_n t)
        | UKey (_, VZSet _) -> "zset" | UKey (_, VZSet2 _) -> "zset2" | UKey (_, VHash _) -> "hash" | UKey (_, VStream _) -> "stream" | _ -> "") keys)))
  | Broken _ -> Some "damaged"

let fail kind sig_ model impl detail = Fail { kind; sig_; model; impl; detail }

let render status es = status ^ " " ^ (if es = [] then "none" else String.concat " " (List.map Rdbgen.entry_str es))

let judge c obs =
  let impl = String.concat " " obs in
  let img = img_of c in
  let model = match load_all limit (bytes_of_string img) with
    | Loaded es -> render "ok" es
    | LoadFail -> "err" in
  match c with
  | File (_, us, _) ->
      let expected = render "ok" (records_of limit meta0 us) in
      if impl <> expected then
        fail "oracle" "records-differ" expected impl "the records delivered by the parser differ from the records of the file's syntax tree (or the file was rejected)"
      else if impl <> model then fail "diff" "rdb-model" model impl "" else Agree
  | Broken _ ->
      (* compare the verdict and, when accepted, the records *)
      let norm s = if String.length s >= 3 && String.sub s 0 3 = "err" then "err" else s in
      if norm impl = norm model then Agree else fail "diff" "rdb-model-damaged" model impl "model and implementation disagree on a damaged image"
