(* c01.ml — cases, model runs and oracle for C01 (RDB parsing). *)
open Glue
open Frame
open Model

type case =
  | File of int * unit_ list * int       (* version, units, reader chunk size (0 = whole) *)
  | Broken of string * string            (* description, image: truncations / corruptions of a valid image *)
  | BigHash of int * int * int * int * int * int * int   (* fields, base value size, expiry ms, idle, freq, payload seed, reader chunk: a hash above the 16 MiB chunk limit, built by the probe itself *)

let id = "C01"
let rule = "abstract RDB files (versions 1..9; 1..3 databases in any order; every value type incl. zipmap/ziplist/intset blobs, quicklists, \
zset text and binary scores, streams with groups/PELs/consumers; every string encoding incl. int8/16/32 and LZF; length forms canonical or \
wider, 64-bit form at stream/module numbers; expiry s/ms, idle, freq, aux incl. lua, resize-db, module-aux with every sub-opcode) encoded by \
the Coq spec encoder and read by the real Loader through readers of varying chunk size; plus truncations and single-byte corruptions of valid \
images (differential only); non-trivial = at least one key record; distinct by wire line"

let limit = hash_chunk_limit

let gen st tier =
  let thorough = tier = "thorough" in
  let files = List.init (if thorough then 20000 else 1200) (fun i ->
    let big = i mod 50 = 0 in
    let us = Rdbgen.gen_units st ~nkeys:(if big then 12 else 4) ~max_elems:(if big then 120 else 6) ~meta:true in
    File (1 + rnd_int st 9, us, rnd_pick st [ 0; 1; 3; 17; 4096 ])) in
  let broken = List.concat (List.init (if thorough then 2000 else 150) (fun _ ->
    let us = Rdbgen.gen_units st ~nkeys:2 ~max_elems:3 ~meta:true in
    let img = Rdbgen.image (6 + rnd_int st 4) us in
    let n = String.length img in
    let cut = rnd_int st n in
    let pos = rnd_int st n in
    let b = Bytes.of_string img in
    (* replacement bytes that cannot announce a GiB-sized length *)
    Bytes.set b pos (Char.chr (rnd_pick st [ 0; 1; 5; 0x3f; 0x40; 0xc0; 0xc1; 0xc2; 0xfa; 0xfb; 0xfc; 0xfe; 0xff; 0x0e; 0x0f; 0x04 ]));
    [ Broken (Printf.sprintf "first %d of %d bytes" cut n, String.sub img 0 cut);
      Broken (Printf.sprintf "byte %d of %d replaced" pos n, Bytes.to_string b) ])) in
  let bigs = List.init (if thorough then 6 else 2) (fun i ->
    BigHash ((if i mod 2 = 0 then 21 else 40 + rnd_int st 10), (if i mod 2 = 0 then 1048000 else 900000 + rnd_int st 200000), rnd_pick st [ 0; 1700000000000 + rnd_int st 1000 ], rnd_pick st [ 0; 77 ], rnd_pick st [ 0; 9 ], rnd_int st 500, rnd_pick st [ 0; 65536; 1000003 ])) in
  files @ broken @ bigs

(* F20 witness: module-aux FLOAT is 4 binary bytes *)
let corpus = [
  (* F25 witness: a 20 MiB hash with expiry, idle and freq: the continuation record must carry them too *)
  BigHash (20, 1048000, 1700000000123, 5, 7, 1, 0);
  File (9, [ UModuleAux (L6, n_of_int 5, [ MFloat (L6, bytes_of_string "\x05\x00\x00\x00") ], L6);
             UKey (SRaw (L6, bytes_of_string "k"), VStr (N0, SRaw (L6, bytes_of_string "v"))) ], 0);
  File (7, [ USelect (L6, n_of_int 3); UExpMs (n_of_int 1600000000123); UIdle (L6, n_of_int 9); UFreq (n_of_int 200);
             UKey (SInt8 (z_of_int 7), VHash (L14, [ (SRaw (L6, bytes_of_string "f"), SInt16 (z_of_int 300)) ]));
             ULua (L6, SRaw (L6, bytes_of_string "return 1"));
             UKey (SRaw (L6, bytes_of_string "z"), VZSet (L6, [ (SRaw (L6, bytes_of_string "m"), ScText (bytes_of_string "3.5")) ])) ], 1) ]

let img_of = function File (v, us, _) -> Rdbgen.image v us | Broken (_, img) -> img | BigHash _ -> ""
let to_line c = match c with
  | BigHash (nf, base, exp, idle, freq, seed, ch) -> Printf.sprintf "bighash %d %d %d %d %d %d %d" nf base exp idle freq seed ch
  | _ -> Printf.sprintf "load %s %d" (hex_of_string (img_of c)) (match c with File (_, _, ch) -> ch | _ -> 0)
let show = function
  | File (v, us, ch) -> Printf.sprintf "RDB v%d read in %d-byte pieces: %s" v ch (String.concat "; " (List.map Rdbgen.show_unit us))
  | Broken (d, img) -> Printf.sprintf "damaged image (%s), %d bytes" d (String.length img)
  | BigHash (nf, base, exp, idle, freq, seed, ch) -> Printf.sprintf "RDB v9 read in %d-byte pieces: db 3, expiry %d ms, idle %d, freq %d, hash \"bigh\" of %d fields with values of about %d bytes (payload seed %d), then string key \"after\"" ch exp idle freq nf base seed

let classify = function
  | File (_, us, _) ->
      let keys = List.filter (function UKey _ -> true | _ -> false) us in
      if keys = [] then None else
      Some (String.concat "+" (List.sort_uniq compare (List.map (function
        | UKey (_, VStr (t, _)) -> "t" ^ string_of_int (int_of_n t) | UKey (_, VSeq (t, _, _)) -> "t" ^ string_of_int (int_of_n t)
        | UKey (_, VZSet _) -> "zset" | UKey (_, VZSet2 _) -> "zset2" | UKey (_, VHash _) -> "hash" | UKey (_, VStream _) -> "stream" | _ -> "") keys)))
  | Broken _ -> Some "damaged"
  | BigHash _ -> Some "hash-above-chunk-limit"

let fail kind sig_ model impl detail = Fail { kind; sig_; model; impl; detail }

let render status es = status ^ " " ^ (if es = [] then "none" else String.concat " " (List.map Rdbgen.entry_str es))

(* ---- a hash above the chunk limit: expected records computed natively (OCaml strings), by the greedy rule of Spec.take_chunk ---- *)
let enc_len_s n =
  if n < 64 then String.make 1 (Char.chr n)
  else if n < 16384 then Printf.sprintf "%c%c" (Char.chr (64 + n / 256)) (Char.chr (n land 255))
  else Printf.sprintf "\x80%c%c%c%c" (Char.chr ((n lsr 24) land 255)) (Char.chr ((n lsr 16) land 255)) (Char.chr ((n lsr 8) land 255)) (Char.chr (n land 255))
let greedy limit hdrlen (pairs : string list) : string list list =
  let rec go cap acc cur = function
    | [] -> List.rev (if cur = [] then acc else List.rev cur :: acc)
    | p :: rest -> let cap' = cap + String.length p in
        if rest <> [] && cap' > limit then go 0 (List.rev (p :: cur) :: acc) [] rest else go cap' acc (p :: cur) rest in
  go hdrlen [] [] pairs
let big_pairs nf base seed = List.init nf (fun i ->
  let f = Printf.sprintf "f%06d" i and v = payload (seed + i) (base + (i * 7919) mod 1000) in
  enc_len_s (String.length f) ^ f ^ enc_len_s (String.length v) ^ v)
(* the native chunking agrees with the extracted Spec.key_records on a scaled-down hash *)
let greedy_matches_spec nf seed =
  let small = List.init nf (fun i -> (Printf.sprintf "f%06d" i, payload (seed + i) (20 + (i * 7919) mod 100))) in
  let rs (s : string) = SRaw ((if String.length s < 64 then L6 else L14), bytes_of_string s) in
  let es = key_records (n_of_int 300) meta0 (rs "k") (VHash ((if nf < 64 then L6 else L14), List.map (fun (f, v) -> (rs f, rs v)) small)) in
  let native = greedy 300 (String.length (enc_len_s nf)) (List.map (fun (f, v) -> enc_len_s (String.length f) ^ f ^ enc_len_s (String.length v) ^ v) small) in
  List.map (fun (e : entry) -> int_of_n e.e_real_count) es = (match native with [ _ ] | [] -> [ 0 ] | l -> List.map List.length l)

let judge_big (nf, base, exp, idle, freq, seed) obs =
  let impl = let s = String.concat " " obs in if String.length s > 1200 then String.sub s 0 1200 ^ "..." else s in
  let pairs = big_pairs nf base seed in
  let hdr = enc_len_s nf in
  let cs = greedy (int_of_n hash_chunk_limit) (String.length hdr) pairs in
  let recs = match cs with
    | [] -> [ (1, 0, "\x04" ^ hdr) ]
    | [ c ] -> [ (1, 0, "\x04" ^ hdr ^ String.concat "" c) ]
    | c0 :: more -> (1, List.length c0, "\x04" ^ hdr ^ String.concat "" c0) :: List.map (fun c -> (0, List.length c, "\x04" ^ String.concat "" c)) more in
  let line need real body = Printf.sprintf "3:%s:4:%d:%d:%d:%d:%d:%d:%s:1" (hex_of_string "bigh") exp idle freq need real (String.length body + 10) (fnv64 body) in
  let expected = List.map (fun (need, real, body) -> line need real body) recs
                 @ [ Printf.sprintf "3:%s:0:0:0:0:1:0:13:%s:1" (hex_of_string "after") (fnv64 "\x00\x01x") ] in
  let exp_s = "ok " ^ String.concat " " (List.map (fun l -> let f = String.split_on_char ':' l in String.concat ":" (List.filteri (fun i _ -> i <> 9) f)) expected) in
  let got = match obs with st :: _ :: rest -> (st, rest) | _ -> ("?", []) in
  if not (greedy_matches_spec (min nf 40) seed) then fail "diff" "chunk-spec-selfcheck" "" "" "the driver's native chunking disagrees with the extracted Spec.key_records (machinery)"
  else if fst got <> "ok" then fail "oracle" "big-hash-rejected" exp_s impl "a well-formed file with a hash above the chunk limit is rejected"
  else if snd got = expected then Agree
  else begin
    (* what differs? *)
    let strip l = match String.split_on_char ':' l with
      | db :: k :: t :: _ :: _ :: _ :: rest -> String.concat ":" (db :: k :: t :: rest) | _ -> l in
    if List.length (snd got) = List.length expected && List.map strip (snd got) = List.map strip expected then
      fail "oracle" "chunk-metadata" exp_s impl "a continuation record of a split hash does not carry the key's expiry / idle / freq"
    else fail "oracle" "chunk-records" exp_s impl "the records of a hash above the chunk limit differ (count, pair counts, payload bytes or validity)"
  end

let judge c obs =
  match c with BigHash (nf, base, exp, idle, freq, seed, _) -> judge_big (nf, base, exp, idle, freq, seed) obs | _ ->
  let impl = String.concat " " obs in
  let img = img_of c in
  let model = match load_all limit (bytes_of_string img) with
    | Loaded es -> render "ok" es
    | LoadFail -> "err" in
  match c with
  | File (_, us, _) ->
      let expected = render "ok" (records_of limit meta0 us) in
      if impl <> expected then
        fail "oracle" "records-differ" expected impl "the records delivered by the parser differ from the records of the file's syntax tree (or the file was rejected)"
      else if impl <> model then fail "diff" "rdb-model" model impl "" else Agree
  | BigHash _ -> Agree
  | Broken _ ->
      (* compare the verdict and, when accepted, the records *)
      let norm s = if String.length s >= 3 && String.sub s 0 3 = "err" then "err" else s in
      if norm impl = norm model then Agree else fail "diff" "rdb-model-damaged" model impl "model and implementation disagree on a damaged image"
