(* c11.ml — cases, model runs and oracle for C11 (CRC-64 digests, footer, DUMP checkers). *)
open Glue
open Frame

type case =
  | Digest of string * int list
  | Dump of int * string
  | Chk of string * int            (* covered data, version field; payload carries a correct CRC *)
  | ChkRaw of string               (* arbitrary bytes (short inputs) *)
  | Sweep of string * int          (* payload (data, version): all substitutions and truncations *)
  | Rdb of string * int            (* image, number of key records *)
  | RdbBad of string * string      (* what was done to the trailer / content, image *)
  | RdbSweep of string
  | RdbPar of string list          (* images loaded by concurrent loaders (one loader per source node in the tool) *)

let id = "C11"
let rule = "random byte strings (lengths around 8, 16, 64, 256, 512, 1024, 2048, 4096, 8192 and in between) fed whole, in random pieces or in pieces cut at multiples of 8 / 64 / 512 through the three digests; DUMP payloads of random type/value; payloads with every version \
0..12, 255..258, 65535 and a correct CRC; for each generated payload / RDB image ALL single-byte substitutions (every position x 255 values) and \
all trailer truncations (RDB images read whole or through sources delivering at most 1, 3, 5, 7, 16 or 4096 bytes per Read), every DUMP payload the loader emits checked under both verifiers, eight loaders running concurrently, plus whole-trailer damage of RDB images (zeroed, all ones, another file's checksum, reversed; with a flipped content bit) (RDB image sweeps: content bytes < 0x40 and replacement values 0x80/0x81/0xc3 skipped, because they make the parser allocate GiB-sized buffers); non-trivial = non-empty data; distinct by wire line"

let n_of_bytes_crc s = Model.ext_digest (bytes_of_string s)
let le64 (x : Model.n) = string_of_bytes (Model.le_enc (nat_of_int 8) x)

(* a small valid RDB image: strings only, 6-bit lengths; version 6..9 *)
let mk_rdb st =
  let b = Buffer.create 64 in
  Buffer.add_string b (Printf.sprintf "REDIS%04d" (6 + rnd_int st 4));
  let n = 1 + rnd_int st 4 in
  let ndb = 1 + rnd_int st 2 in
  let count = ref 0 in
  for d = 0 to ndb - 1 do
    Buffer.add_char b '\xfe'; Buffer.add_char b (Char.chr (d * 3));
    for _ = 1 to n do
      let low n = String.init n (fun _ -> Char.chr (rnd_int st 0x40)) in
      let k = low (1 + rnd_int st 6) and v = low (rnd_int st 12) in
      Buffer.add_char b '\x00';
      Buffer.add_char b (Char.chr (String.length k)); Buffer.add_string b k;
      Buffer.add_char b (Char.chr (String.length v)); Buffer.add_string b v;
      incr count
    done
  done;
  Buffer.add_char b '\xff';
  let body = Buffer.contents b in
  (body ^ le64 (n_of_bytes_crc body), !count)

let versions = [ 0; 1; 5; 6; 7; 8; 9; 10; 11; 12; 255; 256; 257; 258; 262; 265; 512; 1536; 65535 ]

let gen st tier =
  let thorough = tier = "thorough" in
  let k = if thorough then 20 else 1 in
  let digests = List.init (400 * k) (fun _ ->
    let len = rnd_pick st [ 0; 1; 2; 7; 8; 9; 15; 16; 17; 63; 64; 65; 100; 255; 256; 257; 511; 512; 513; 1000; 1023; 1024; 1025; 1536; 2048; 4096; 4097; 5000; 8192 ] in
    let data = rnd_string st len in
    (* chunkings: one Write of everything, random cuts, or cuts at multiples of 8 / 64 / 512 (block-wise and unrolled update loops) *)
    let chunks = match rnd_int st 4 with
      | 0 -> []
      | 1 -> let b = rnd_pick st [ 8; 64; 512 ] in List.init (rnd_int st 5) (fun _ -> b * rnd_int st (len / b + 2))
      | _ -> List.init (rnd_int st 6) (fun _ -> rnd_int st (len + 2)) in
    Digest (data, chunks)) in
  let dumps = List.init (300 * k) (fun _ -> Dump (rnd_int st 16, rnd_string st (rnd_pick st [ 0; 1; 5; 20; 100; 600 ]))) in
  let chks = List.concat_map (fun v -> List.init (3 * k) (fun _ -> Chk (rnd_string st (1 + rnd_int st 30), v))) versions in
  let raws = List.init 40 (fun i -> ChkRaw (rnd_string st (i mod 14))) in
  let sweeps = List.init (25 * k) (fun _ -> Sweep (rnd_string st (1 + rnd_int st (if thorough then 300 else 60)), rnd_pick st [ 6; 6; 6; 9; 0 ])) in
  let rdbs = List.init (60 * k) (fun _ -> let (img, n) = mk_rdb st in Rdb (img, n)) in
  let rsweeps = List.init (12 * k) (fun _ -> RdbSweep (fst (mk_rdb st))) in
  let rpars = List.init (3 * k) (fun _ -> RdbPar (List.init 8 (fun _ -> fst (mk_rdb st)))) in
  (* whole-trailer damage: zeroed, all ones, the CRC of another body, byte-reversed; with and without a changed content byte *)
  let rbad = List.concat (List.init (10 * k) (fun _ ->
    let (img, _) = mk_rdb st in
    let n = String.length img in
    let body = String.sub img 0 (n - 8) and tr = String.sub img (n - 8) 8 in
    let (other, _) = mk_rdb st in
    let otr = String.sub other (String.length other - 8) 8 in
    let flip b = let b = Bytes.of_string b in (let p = 9 + rnd_int st (max 1 (Bytes.length b - 10)) in Bytes.set b p (Char.chr ((Char.code (Bytes.get b p)) lxor 1))); Bytes.to_string b in
    let rev = String.init 8 (fun i -> tr.[7 - i]) in
    [ RdbBad ("checksum bytes zeroed", body ^ String.make 8 '\000'); RdbBad ("checksum bytes zeroed and one content bit flipped", flip body ^ String.make 8 '\000');
      RdbBad ("checksum bytes all 0xff", body ^ String.make 8 '\255') ]
    @ (if otr <> tr then [ RdbBad ("checksum of another file", body ^ otr) ] else [])
    @ (if rev <> tr then [ RdbBad ("checksum bytes reversed", body ^ rev) ] else []))) in
  digests @ dumps @ chks @ raws @ sweeps @ rdbs @ rsweeps @ rpars @ rbad

(* F4 witness: version 256+6 with a matching CRC was accepted by CheckVersionChecksum *)
let corpus = [ Chk ("\x00\x01a", 262); Chk ("\x00\x01a", 256); Chk ("\x00\x01a", 10); Dump (0, "\x01a") ]

let payload_of data ver = string_of_bytes (Model.payload_fast (bytes_of_string data) (n_of_int ver))

(* how the loader's source delivers the image: whole, or in short reads (a bufio / network source) - fixed per image *)
let rdb_chunk (img : string) = List.nth [ 0; 1; 3; 7; 16; 4096 ] (Hashtbl.hash img mod 6)

let to_line = function
  | Digest (d, ch) -> Printf.sprintf "digest %s %s" (hex_of_string d) (if ch = [] then "0" else String.concat "," (List.map string_of_int ch))
  | Dump (t, v) -> Printf.sprintf "dump %d %s" t (hex_of_string v)
  | Chk (d, v) -> "chk " ^ hex_of_string (payload_of d v)
  | ChkRaw s -> "chk " ^ hex_of_string s
  | Sweep (d, v) -> "sweep " ^ hex_of_string (payload_of d v)
  | Rdb (img, _) -> Printf.sprintf "rdb %s %d" (hex_of_string img) (rdb_chunk img)
  | RdbSweep img -> "rdbsweep " ^ hex_of_string img
  | RdbPar imgs -> "rdbpar " ^ String.concat " " (List.map hex_of_string imgs)
  | RdbBad (_, img) -> Printf.sprintf "rdb %s %d" (hex_of_string img) (rdb_chunk img)

let show = function
  | Digest (d, ch) -> Printf.sprintf "digest of %d bytes written in chunks [%s]" (String.length d) (String.concat ";" (List.map string_of_int ch))
  | Dump (t, v) -> Printf.sprintf "createValueDump(type %d, %d value bytes)" t (String.length v)
  | Chk (d, v) -> Printf.sprintf "payload(%s, version %d, correct CRC)" (show_bytes d) v
  | ChkRaw s -> Printf.sprintf "raw payload of %d bytes" (String.length s)
  | Sweep (d, v) -> Printf.sprintf "all substitutions/truncations of payload(%d data bytes, version %d)" (String.length d) v
  | Rdb (img, n) -> Printf.sprintf "RDB image of %d bytes, %d keys, read from a source delivering at most %d bytes per Read (0 = everything)" (String.length img) n (rdb_chunk img)
  | RdbSweep img -> Printf.sprintf "all substitutions/trailer truncations of an RDB image of %d bytes" (String.length img)
  | RdbPar imgs -> Printf.sprintf "%d intact RDB images loaded by %d concurrent loaders, 20 rounds each (every emitted DUMP payload verified)" (List.length imgs) (List.length imgs)
  | RdbBad (d, img) -> Printf.sprintf "RDB image of %d bytes, %s, read in pieces of at most %d bytes (0 = whole)" (String.length img) d (rdb_chunk img)

let classify = function
  | Digest (d, ch) -> if d = "" then None else Some (if List.length ch > 1 then "digest:chunked" else "digest:whole")
  | Dump _ -> Some "dump"
  | Chk (_, v) -> Some (if v = 6 then "chk:v6" else if v <= 9 then "chk:v<=9" else "chk:v>9")
  | ChkRaw _ -> Some "chk:short"
  | Sweep _ -> Some "sweep"
  | Rdb _ -> Some "rdb"
  | RdbSweep _ -> Some "rdbsweep"
  | RdbPar _ -> Some "rdb-concurrent-loaders"
  | RdbBad _ -> Some "rdb-trailer-damage"

let chk_model (p : string) =
  let b = bytes_of_string p in
  (if Model.verify_dump b then "ok" else "err") ^ " " ^
  (match Model.check_version_checksum b with
   | Some (v, s) -> Printf.sprintf "ok:%d:%s" (int_of_n v) (decimal_of_n s) | None -> "err")

let fail kind sig_ model impl detail = Fail { kind; sig_; model; impl; detail }

let judge c obs =
  let impl = String.concat " " obs in
  match c with
  | Digest (d, ch) ->
      let b = bytes_of_string d in
      let crc = Model.ext_digest b in
      let s = decimal_of_n crc in
      (* model of the chunked writes *)
      let rec split pos = function
        | [] -> [ String.sub d pos (String.length d - pos) ]
        | n :: r -> let n = min n (String.length d - pos) in String.sub d pos n :: split (pos + n) r in
      let mw = Model.digest_writes (List.map bytes_of_string (split 0 ch)) in
      let model = Printf.sprintf "%s %s %s %s %s" (decimal_of_n mw) (hex_of_bytes (Model.digest_sum mw)) s s s in
      if impl = model then Agree
      else fail "oracle" "digest-not-crc64" model impl "a digest differs from the Redis CRC-64 of the written bytes (or depends on the chunking)"
  | Dump (t, v) ->
      let m = Model.create_value_dump (byte_of_char (Char.chr t)) (bytes_of_string v) in
      let model = hex_of_bytes m ^ " " ^ chk_model (string_of_bytes m) in
      (match obs with
       | [ _; "ok"; c ] when String.length c > 2 && String.sub c 0 2 = "ok" ->
           if impl = model then Agree else fail "diff" "dump-model" model impl "emitted payload differs from the model"
       | _ -> fail "oracle" "own-payload-rejected" model impl "a DUMP payload emitted by the tool does not verify under its own checkers")
  | Chk (d, v) ->
      let p = payload_of d v in
      let model = chk_model p in
      (match obs with
       | [ vd; cv ] ->
           let cv_ok = String.length cv > 2 && String.sub cv 0 2 = "ok" in
           if v > 9 && cv_ok then fail "oracle" "version-above-supported-accepted" model impl
               (Printf.sprintf "CheckVersionChecksum accepts a payload carrying version %d (> 9) with a matching checksum" v)
           else if v <> 6 && vd = "ok" then fail "oracle" "version-above-supported-accepted" model impl
               (Printf.sprintf "verifyDump accepts a payload carrying version %d" v)
           else if impl = model then Agree else fail "diff" "chk-model" model impl "checker result differs from the model"
       | _ -> fail "diff" "malformed-observation" model impl "")
  | ChkRaw s ->
      let model = chk_model s in
      if String.length s < 10 && impl <> "err err" then fail "oracle" "short-payload-accepted" model impl "a payload shorter than the 10-byte trailer is accepted"
      else if impl = model then Agree else fail "diff" "chk-model" model impl "checker result differs from the model"
  | Sweep _ ->
      if impl = "0 0 0 -" then Agree
      else fail "oracle" "substitution-accepted" "0 0 0 -" impl "a payload altered in one byte (or truncated) is accepted by a payload checker (checker:position:value)"
  | Rdb (img, n) ->
      let model = if Model.rdb_footer_ok (bytes_of_string img) then "ok:" ^ string_of_int n else "err:footer" in
      if impl = "ok:" ^ string_of_int n then (if impl = model then Agree else fail "diff" "rdb-model" model impl "")
      else fail "oracle" "intact-rdb-rejected" model impl "an intact RDB image is rejected or yields the wrong number of records"
  | RdbBad (_, img) ->
      if Model.rdb_footer_ok (bytes_of_string img) then Agree   (* a 2^-64 accident *)
      else if String.length impl >= 3 && String.sub impl 0 3 = "err" then Agree
      else fail "oracle" "rdb-bad-checksum-accepted" "err:footer" impl "an RDB image whose trailer is not the CRC-64 of its content loads without error"
  | RdbPar imgs ->
      let want = String.concat "," (List.map (fun _ -> "ok") imgs) in
      if impl = want then Agree
      else fail "oracle" "rdb-concurrent-loaders" want impl "an intact RDB image was rejected, or a DUMP payload with a wrong checksum was emitted, while several loaders ran concurrently"
  | RdbSweep _ ->
      if impl = "0 0 -" then Agree
      else fail "oracle" "rdb-substitution-accepted" "0 0 -" impl "an RDB image with one substituted byte (position:value) or a truncated trailer loads without error"
