let props : (string * (module Frame.PROP)) list = [
  ("C01", (module C01));
  ("C02", (module C02));
  ("C03", (module C03));
  ("C04", (module C04));
  ("C05", (module C05));
  ("C06", (module C06));
  ("C07", (module C07));
  ("C08", (module C08));
  ("C09", (module C09));
  ("C10", (module C10));
  ("C11", (module C11));
  ("C12", (module C12));
  ("C13", (module C13));
  ("C14", (module C14));
  ("C15", (module C15));
  ("C16", (module C16));
  ("C17", (module C17));
  ("C18", (module C18));
  ("C19", (module C19));
  ("C20", (module C20));
]

let () =
  let prop = ref "" in
  let args = [
    ("--seed", Arg.Set_int Frame.seed, "seed");
    ("--tier", Arg.Set_string Frame.tier, "quick|thorough");
    ("--probe", Arg.Set_string Frame.probe, "path of rsprobe");
    ("--out", Arg.Set_string Frame.out_dir, "run directory");
    ("--only", Arg.Set_int Frame.only, "run only the case with this id");
  ] in
  Arg.parse args (fun s -> prop := s) "driver <property> [options]";
  match List.assoc_opt !prop props with
  | Some p -> Frame.run p
  | None -> prerr_endline ("driver: unknown property " ^ !prop); exit 2
