(* c14.ml — cases, model runs and oracle for C14 (checkpoint loading). *)
open Glue
open Frame

type dbspec = { db : int; other_key : bool; fields : (string * string) list option }
type case = { src : string; name : string; dbs : dbspec list }

let id = "C14"
let rule = "target states reached by random sequences of sender-style checkpoint writes (HSET runid/version/offset) from 1..3 sources \
(one address a strict prefix of another: h:6379 vs h:63790; a third of the cases with host names containing hyphens and dots: redis-master-0.prod:6379 vs redis-master:6379 vs redis:6379) into random databases, with partially written or cleared checkpoints, version \
fields 1/0/absent/garbage, databases holding data only; real LoadCheckpoint over TCP against fakeredis, repeated 3x to sample Go's map \
iteration order; non-trivial = >=2 databases with a checkpoint of the own source or a foreign checkpoint with a larger offset; distinct by wire line"

(* two families of source addresses: plain host:port (one a strict prefix of another), and host names with hyphens and dots *)
let families = [ [ "h:6379"; "h:63790"; "x:1" ]; [ "redis-master-0.prod:6379"; "redis-master-0.prod:63790"; "redis-master:6379"; "redis:6379" ] ]

let hset fs f v = if List.mem_assoc f fs then List.map (fun (f', v') -> if f' = f then (f, v) else (f', v')) fs else fs @ [ (f, v) ]

let gen st tier =
  let thorough = tier = "thorough" in
  List.init (if thorough then 5000 else 500) (fun _ ->
    let srcs = if rnd_int st 3 = 0 then List.nth families 1 else List.nth families 0 in
    let src = rnd_pick st [ List.nth srcs 0; List.nth srcs 0; List.nth srcs 1 ] in
    let ndb = 1 + rnd_int st 4 in
    let dbnums = List.sort_uniq compare (List.init ndb (fun _ -> rnd_int st 16)) in
    let used = Hashtbl.create 8 in
    let fresh_off () = let rec go () = let o = rnd_pick st [ rnd_int st 100; rnd_int st 100000; 1 lsl 40 + rnd_int st 1000 ] in
                                      if Hashtbl.mem used o then go () else (Hashtbl.add used o (); o) in go () in
    let dbs = List.map (fun db ->
      let fields = ref [] in
      let nw = rnd_int st 4 in
      for _ = 1 to nw do
        let s = rnd_pick st srcs in
        let off = fresh_off () in
        fields := hset !fields (s ^ "-runid") (rnd_string_of st "abcdef0123456789" 8);
        (match rnd_int st 6 with
         | 0 -> () | 1 -> fields := hset !fields (s ^ "-version") "0" | 2 -> fields := hset !fields (s ^ "-version") (rnd_pick st [ "abc"; "" ])
         | _ -> fields := hset !fields (s ^ "-version") "1");
        fields := hset !fields (s ^ "-offset") (string_of_int off);
        (* partially written / cleared *)
        (match rnd_int st 8 with
         | 0 -> fields := List.remove_assoc (s ^ "-runid") !fields
         | 1 -> fields := List.remove_assoc (s ^ "-offset") !fields
         | 2 -> fields := hset !fields (s ^ "-offset") (rnd_pick st [ "-1"; "x1"; "99999999999999999999" ])
         | _ -> ())
      done;
      if rnd_int st 5 = 0 then fields := !fields @ [ ("unrelated", "1"); (src ^ "x-offset", "77777777") ];
      { db; other_key = rnd_bool st || !fields = []; fields = (if !fields = [] then None else Some !fields) }) dbnums in
    { src; name = rnd_pick st [ "redis-shake-checkpoint"; "redis-shake-checkpoint-abcd" ]; dbs })

(* F13 witness: the checkpoint of h:63790 must not be read as h:6379's *)
let corpus = [
  { src = "h:6379"; name = "redis-shake-checkpoint";
    dbs = [ { db = 0; other_key = true; fields = Some [ ("h:63790-runid", "aaaa"); ("h:63790-version", "1"); ("h:63790-offset", "900") ] };
            { db = 2; other_key = false; fields = Some [ ("h:6379-runid", "bbbb"); ("h:6379-version", "1"); ("h:6379-offset", "70") ] } ] } ]

let spec_str d =
  Printf.sprintf "%d:%s:%s" d.db (if d.other_key then "k" else "-")
    (match d.fields with None -> "-" | Some fs -> String.concat "," (List.map (fun (f, v) -> hex_of_string f ^ "=" ^ hex_of_string v) fs))
let to_line c = Printf.sprintf "ckpt %s %s 3 %s" (hex_of_string c.src) (hex_of_string c.name) (String.concat " " (List.map spec_str c.dbs))
let show c =
  Printf.sprintf "source %s, checkpoint key %s, target: %s" c.src c.name
    (String.concat " | " (List.map (fun d -> Printf.sprintf "db%d%s {%s}" d.db (if d.other_key then "+data" else "")
      (match d.fields with None -> "" | Some fs -> String.concat ", " (List.map (fun (f, v) -> f ^ "=" ^ v) fs))) c.dbs))

let own_offset c d = match d.fields with
  | None -> None
  | Some fs -> (match List.assoc_opt (c.src ^ "-offset") fs with Some v -> (try Some (int_of_string v) with _ -> None) | None -> None)

let classify c =
  let own = List.filter (fun d -> own_offset c d <> None) c.dbs in
  let foreign = List.exists (fun d -> match d.fields with Some fs -> List.exists (fun (f, _) -> String.length f > 7 && not (String.length f >= String.length c.src + 1 && String.sub f 0 (String.length c.src + 1) = c.src ^ "-")) fs | None -> false) c.dbs in
  if List.length own >= 2 then Some "multi-db" else if own <> [] && foreign then Some "own+foreign" else if foreign then Some "foreign-only" else if own <> [] then Some "single" else None

let fail kind sig_ model impl detail = Fail { kind; sig_; model; impl; detail }

let judge c obs =
  let impl = String.concat " " obs in
  let mdbs = List.map (fun d -> (z_of_int d.db,
      (match d.fields with None -> None | Some fs -> Some (List.map (fun (f, v) -> (bytes_of_string f, bytes_of_string v)) fs)))) c.dbs in
  let (res, post) = Model.load (bytes_of_string c.src) mdbs in
  let one = match res with
    | Model.LoadErr -> "err"
    | Model.LoadOk (rid, off, db) -> Printf.sprintf "ok:%s:%s:%s" (hex_of_bytes rid) (decimal_of_z off) (decimal_of_z db) in
  let post_s =
    let parts = List.filter_map (fun (db, h) -> match h with
      | None -> None
      | Some fs -> Some (Printf.sprintf "%s:%s" (decimal_of_z db) (String.concat "," (List.map (fun (f, v) -> hex_of_bytes f ^ "=" ^ hex_of_bytes v) fs)))) post in
    if parts = [] then "none" else String.concat ";" parts in
  let model = Printf.sprintf "%s,%s,%s %s" one one one post_s in
  (* oracle from the property: greatest own offset wins, foreign sources ignored *)
  let verdict =
    match obs with
    | results :: _ ->
        let rs = String.split_on_char ',' results in
        if List.exists (fun r -> r <> List.hd rs) rs then Some ("depends-on-map-order", "repeated loads of the same target state disagree: " ^ results)
        else begin
          let r = List.hd rs in
          let parse_err = List.exists (fun d -> match d.fields with
            | Some fs -> List.exists (fun (f, v) -> (f = c.src ^ "-offset" || f = c.src ^ "-version") &&
                           (match Model.parse_int64 (bytes_of_string v) with None -> true | Some _ -> false)) fs
            | None -> false) c.dbs in
          if parse_err then None (* unparsable own value: the Go code reports an error; judged against the model only *)
          else begin
            let owns = List.filter_map (fun d -> match own_offset c d with Some o when o > -1 -> Some (o, d) | _ -> None) c.dbs in
            match owns with
            | [] -> if r = "err" || (String.length r > 3 && List.nth (String.split_on_char ':' r) 2 = "-1") then None
                    else Some ("resumes-without-own-checkpoint", "no checkpoint of this source exists but the loader returned " ^ r)
            | _ ->
                let (o, d) = List.fold_left (fun (bo, bd) (o, d) -> if o > bo then (o, d) else (bo, bd)) (List.hd owns) owns in
                let fs = Option.get d.fields in
                let ver = match List.assoc_opt (c.src ^ "-version") fs with Some v -> (try int_of_string v with _ -> 0) | None -> 0 in
                if ver < 1 then (if r = "err" then None else Some ("old-version-accepted", "newest checkpoint has version " ^ string_of_int ver ^ " but was accepted: " ^ r))
                else begin
                  let rid = match List.assoc_opt (c.src ^ "-runid") fs with Some v -> v | None -> "?" in
                  let exp = Printf.sprintf "ok:%s:%d:%d" (hex_of_string rid) o (if rid = "?" then -1 else d.db) in
                  if r = exp then None else Some ("not-newest-own", Printf.sprintf "expected %s (greatest offset recorded for %s), got %s" exp c.src r)
                end
          end
        end
    | _ -> Some ("malformed-observation", impl) in
  match verdict with
  | Some (sg, msg) -> fail "oracle" sg model impl msg
  | None -> if impl = model then Agree else fail "diff" "checkpoint-model" model impl ""
