(* c08.ml — oracle for C08: acknowledged / re-requested offsets = start offset + bytes received. *)
open Glue
open Frame
open Srcgen

type e2e = { units : Model.unit_ list; cmds : string list list; tdb : int }
type case = Hist of Srcgen.case | E2E of e2e
let id = "C08"
let rule = "traffic histories against the scripted fake source over real time: 1..3 connections (drop = FIN then close, reconnection answered +CONTINUE in \
random letter case, optionally with stream bytes in the same segment), 1..4 acknowledgement ticks per connection, 0..3 bursts per tick window of 1..30000 \
bytes (tick-aligned: bursts 150-500 ms into the window so that every acknowledgement has an exact expected value; continuous: bursts anywhere, range check), \
idle windows, the end of the full sync placed in any window or never, start offsets up to 2^61; every REPLCONF ACK / PSYNC received by the source is logged \
with the stream position sent at that time and 400 ms earlier; plus end-to-end runs of the real start path (NewDbSyncer + Sync: RDB through the worker pool, then a command stream over several databases, the source connection dropped in the middle and re-established) against fakeredis: the offsets stored in the checkpoint of every database must be the exact stream position after the last command executed there, the re-PSYNC must ask for start + bytes received + 1, every key must arrive; non-trivial = at least one acknowledgement after the full sync with bytes received, or an end-to-end run; distinct by wire line"

let raw s = Model.SRaw ((if String.length s < 64 then Model.L6 else Model.L14), bytes_of_string s)
let gen_e2e st ~tdb ~trail =
  let units = [ Model.USelect (Model.L6, n_of_int 0); Model.UKey (raw "r1", Model.VStr (Model.N0, raw "v1"));
                Model.USelect (Model.L6, n_of_int 2); Model.UKey (raw "r2", Model.VStr (Model.N0, raw "v2")) ] in
  let n = 6 + rnd_int st 14 in
  let cur = ref 0 in
  let cmds = ref [ [ "select"; "0" ] ] in
  for i = 1 to n do
    (match rnd_int st 7 with
     | 0 -> let d = rnd_pick st [ 0; 1; 2; 5 ] in if d <> !cur then (cur := d; cmds := [ "select"; string_of_int d ] :: !cmds)
     | 1 -> cmds := [ "lpush"; Printf.sprintf "l%d" i; "x"; String.make (rnd_int st 40) 'y' ] :: !cmds
     | 2 -> cmds := [ "hset"; Printf.sprintf "h%d" i; "f"; "v" ] :: !cmds
     | 3 -> cmds := [ "sadd"; Printf.sprintf "s%d" i; "m" ] :: !cmds
     | _ -> cmds := [ "set"; Printf.sprintf "k%d" i; rnd_string_of st "abcdef" (1 + rnd_int st 30) ] :: !cmds)
  done;
  cmds := [ "set"; "last"; "1" ] :: !cmds;
  (* with target.db set, half of the streams end with a source SELECT (rewritten to SELECT target.db): the last checkpoint belongs to it *)
  if tdb <> -1 && trail then cmds := [ "select"; string_of_int (rnd_pick st [ 1; 2; 3 ]) ] :: !cmds;
  E2E { units; cmds = List.rev !cmds; tdb }

let gen st tier =
  let thorough = tier = "thorough" in
  List.init (if thorough then 360 else 48) (fun i -> Hist (gen_history st ~quiet:(i mod 4 <> 3)))
  @ List.init (if thorough then 60 else 6) (fun i -> gen_e2e st ~tdb:(if i mod 3 = 2 then 5 else -1) ~trail:(i mod 6 = 5))

(* F11 witness: two ticks with traffic after the full sync, then a reconnection *)
let corpus = [ Hist
  { mode = "psync"; start = 1000; runid = "abc"; nrdb = 5; seed_r = 1; ncmd = 993; seed_c = 2; chunk = 4096; pause_us = 0; quiet = true;
    conns = [ { hdr = "+FULLRESYNC abc 1000\r\n\n$5\r\n"; acts = [ "S33"; "M"; "F"; "W200"; "S100"; "W1400"; "W2200"; "S50"; "W3300"; "D" ] };
              { hdr = "+CONTINUE\r\n"; acts = [ "W300"; "S500"; "W1400"; "S342"; "W2300" ] } ];
    note = "F11 witness" };
  (* a fresh master (offset 0) whose link drops before the first stream byte: the tool must ask for offset 1 *)
  Hist
  { mode = "psync"; start = 0; runid = "abc"; nrdb = 5; seed_r = 1; ncmd = 300; seed_c = 2; chunk = 4096; pause_us = 0; quiet = true;
    conns = [ { hdr = "+FULLRESYNC abc 0\r\n$5\r\n"; acts = [ "S28"; "M"; "W60"; "F"; "W1300"; "D" ] };
              { hdr = "+CONTINUE\r\n"; acts = [ "S11"; "W300"; "S300"; "W1400" ] } ];
    note = "stream position 0 at the reconnection" } ]

let e2e_cmd_bytes (e : e2e) = String.concat "" (List.map Incrgen.resp_bytes e.cmds)
let to_line = function
  | Hist c -> Srcgen.to_line c
  | E2E e -> Printf.sprintf "e2e %s %s %d" (hex_of_string (Rdbgen.image 9 e.units)) (hex_of_string (e2e_cmd_bytes e)) e.tdb
let show = function
  | Hist c -> Srcgen.show c
  | E2E e -> Printf.sprintf "end-to-end Sync() with target.db=%d" e.tdb ^ ": RDB with 2 keys in 2 databases, then (dropped and re-established in the middle) " ^ String.concat " / " (List.map (String.concat " ") e.cmds)

let classify = function E2E _ -> Some "end-to-end" | Hist c ->
  let has a = List.exists (fun k -> List.mem a k.acts) c.conns in
  if not (has "F") then None else
  Some (Printf.sprintf "%dconn:%s" (List.length c.conns) (if c.quiet then "aligned" else "continuous"))

let fail kind sig_ model impl detail = Fail { kind; sig_; model; impl; detail }

let show_out = function Model.Ack v -> "ack " ^ decimal_of_z v | Model.Psync v -> "psync " ^ decimal_of_z v

let judge_e2e (e : e2e) obs =
  let impl = let s = String.concat " " obs in if String.length s > 1800 then String.sub s 0 1800 ^ "..." else s in
  if field obs "abort" <> None || field obs "panic" <> None then fail "oracle" "e2e:abort" "" impl "the end-to-end run aborted" else
  (* where every command ends in the stream, and the database it executes in *)
  let off = ref 0 and cur = ref 0 in
  let last = Hashtbl.create 8 and keys = Hashtbl.create 32 in
  List.iter (function Model.UKey (k, _) -> () | _ -> ()) e.units;
  let rdb_db = ref 0 in
  List.iter (function
    | Model.USelect (_, n) -> rdb_db := int_of_n n
    | Model.UKey (k, _) -> Hashtbl.replace keys ((if e.tdb = -1 then !rdb_db else e.tdb), string_of_bytes (Model.logical_string k)) ()
    | _ -> ()) e.units;
  List.iter (fun w ->
    off := !off + String.length (Incrgen.resp_bytes w);
    (match w with
     | [ "select"; d ] -> cur := int_of_string d
     | _ :: k :: _ -> Hashtbl.replace keys ((if e.tdb = -1 then !cur else e.tdb), k) ()
     | _ -> ());
    Hashtbl.replace last (if e.tdb = -1 then !cur else e.tdb) (1000 + !off)) e.cmds;
  let total = !off in
  let want_ck = List.sort compare (Hashtbl.fold (fun d o a -> (d, o) :: a) last []) in
  let expect = Printf.sprintf "checkpoint offsets %s; second PSYNC %d; %d keys" (String.concat " " (List.map (fun (d, o) -> Printf.sprintf "db%d=%d" d o) want_ck))
                 (1000 + total / 2 + 1) (Hashtbl.length keys) in
  let unhexd h = if h = "-" then "" else string_of_hex h in
  let ck = match field obs "ckpt" with
    | None | Some "" -> []
    | Some s -> List.filter_map (fun x -> match String.split_on_char '/' x with
        | [ d; fv ] -> (match String.split_on_char '=' fv with [ f; v ] -> Some (int_of_string d, unhexd f, unhexd v) | _ -> None) | _ -> None) (String.split_on_char ',' s) in
  let ends_with s suf = String.length s >= String.length suf && String.sub s (String.length s - String.length suf) (String.length suf) = suf in
  let got_ck = List.sort compare (List.filter_map (fun (d, f, v) -> if ends_with f "-offset" then Some (d, int_of_string v) else None) ck) in
  let runids = List.sort_uniq compare (List.filter_map (fun (_, f, v) -> if ends_with f "-runid" then Some v else None) ck) in
  let psyncs = match field obs "psyncs" with None | Some "" -> [] | Some s -> List.map (fun x -> match String.split_on_char ':' x with [ r; v ] -> (unhexd r, int_of_string v) | _ -> ("", 0)) (String.split_on_char ',' s) in
  let tkeys = match field obs "tkeys" with None | Some "" -> [] | Some s -> List.filter_map (fun x -> match String.split_on_char '/' x with [ d; k ] -> Some (int_of_string d, unhexd k) | _ -> None) (String.split_on_char ',' s) in
  let data_keys = List.filter (fun (_, k) -> not (String.length k >= 22 && String.sub k 0 22 = "redis-shake-checkpoint")) tkeys in
  let want_keys = List.sort compare (Hashtbl.fold (fun k () a -> k :: a) keys []) in
  if got_ck <> want_ck then
    fail "oracle" "e2e:checkpoint-offset" expect impl "the offsets stored in the checkpoints are not the exact stream positions after the last command of each database"
  else if runids <> [ "8f3ac0ffee" ] then fail "oracle" "e2e:checkpoint-runid" expect impl "the run id stored in the checkpoints is not the one the source announced"
  else if (match psyncs with [ (_, -1); ("8f3ac0ffee", o) ] -> o <> 1000 + total / 2 + 1 | _ -> true) then
    fail "oracle" "e2e:reconnect-offset" expect impl "the PSYNC requests seen by the source are not (initial request, offset -1) and (run id, start + bytes received + 1)"
  else if List.sort compare data_keys <> want_keys then
    fail "oracle" "e2e:keys" expect (Printf.sprintf "target keys: %s" (String.concat " " (List.map (fun (d, k) -> Printf.sprintf "db%d/%s" d k) data_keys)))
      "the target does not hold exactly the keys of the RDB and of the command stream, each in its database (a gap or repetition at the reconnection would show here)"
  else Agree

let judge c obs = match c with E2E e -> judge_e2e e (match obs with "e2e" :: r -> r | r -> r) | Hist c ->
  let impl = String.concat " " obs in
  match field obs "err" with
  | Some e -> fail "oracle" "handoff-error" "" impl ("the hand-off failed: " ^ e)
  | None ->
  let geti n = int_of_string (field_exn obs n) in
  let evs = events obs in
  let cmds = payload c.seed_c c.ncmd in
  let sent = geti "sent" in
  let bad = ref None in
  let set sg d = if !bad = None then bad := Some (sg, d) in
  let last_ack = ref 0 in
  List.iter (function
    | Ack (cn, v, lo, hi, fl) ->
        let in_range = c.start + lo <= v && v <= c.start + hi in
        (match fl with
         | 0 -> if v <> 0 then set "ack-before-full" (Printf.sprintf "connection %d acknowledged %d while the full sync was still running (expected 0)" cn v)
         | 1 -> if not in_range then set "ack-offset" (Printf.sprintf "connection %d acknowledged %d; start %d + bytes received is between %d and %d" cn v c.start (c.start + lo) (c.start + hi))
         | _ -> if v <> 0 && not in_range then set "ack-offset" (Printf.sprintf "connection %d acknowledged %d; expected 0 or %d..%d" cn v (c.start + lo) (c.start + hi)));
        if v <> 0 then begin
          if v < !last_ack then set "ack-decreased" (Printf.sprintf "acknowledged offset went back from %d to %d" !last_ack v);
          last_ack := v
        end
    | Psync (0, r, v, _) -> if r <> "?" || v <> -1 then set "first-psync" (Printf.sprintf "first PSYNC asked for %S %d instead of ? -1" r v)
    | Psync (cn, r, v, hi) ->
        if cn >= List.length c.conns then set "spurious-reconnect" (Printf.sprintf "unexpected extra connection %d (PSYNC %s %d)" cn r v)
        else if r <> c.runid then set "reconnect-runid" (Printf.sprintf "reconnection asked for run id %S, the source announced %S" r c.runid)
        else if v <> c.start + hi + 1 then set "reconnect-offset" (Printf.sprintf "reconnection %d asked for offset %d; start %d + %d bytes received + 1 = %d" cn v c.start hi (c.start + hi + 1))
    | Other m -> set "source-protocol" m) evs;
  let expect = Printf.sprintf "start=%d stream=%d bytes fnv %s" c.start sent (fnv64 (String.sub cmds 0 (min sent c.ncmd))) in
  match !bad with
  | Some (sg, d) -> fail "oracle" sg expect impl d
  | None ->
    if geti "streamlen" <> sent || field_exn obs "diff" <> "-1" then
      fail "oracle" "stream-continuity" expect impl (Printf.sprintf "the command stream seen by the parser differs from the bytes the source sent (first difference at position %s)" (field_exn obs "diff"))
    else if geti "off" <> c.start || geti "offend" <> c.start then
      fail "oracle" "base-offset" expect impl "the base offset the command parser adds stream positions to is no longer the announced start offset"
    else begin
      (* model: replay the observed history through the event machine when every ack is exact *)
      let exact = List.for_all (function Ack (_, _, lo, hi, fl) -> lo = hi && fl <> 2 | _ -> true) evs in
      if not exact then Agree else begin
        let pos = ref 0 and full = ref false in
        let es = ref [] and want = ref [] in
        let add e = es := e :: !es in
        List.iter (function
          | Ack (_, v, _, hi, fl) ->
              if hi > !pos then (add (Model.Recv (z_of_int (hi - !pos))); pos := hi);
              if fl = 1 && not !full then (add Model.FullDone; full := true);
              add Model.Tick; want := Model.Ack (z_of_int v) :: !want
          | Psync (0, _, _, _) -> ()
          | Psync (_, _, v, hi) ->
              if hi > !pos then (add (Model.Recv (z_of_int (hi - !pos))); pos := hi);
              add Model.Drop; add Model.Reconnected; want := Model.Psync (z_of_int v) :: !want
          | Other _ -> ()) evs;
        let (_, outs) = Model.orun Model.ostep { Model.off = z_of_int c.start; nread = Z0; full = false } (List.rev !es) in
        let m = String.concat ", " (List.map show_out outs) and i = String.concat ", " (List.map show_out (List.rev !want)) in
        if m = i then Agree else fail "diff" "offset-model" m i "the acknowledgement / reconnect offsets differ from the model's on the observed history"
      end
    end
