(* c08.ml — oracle for C08: acknowledged / re-requested offsets = start offset + bytes received. *)
open Glue
open Frame
open Srcgen

type case = Srcgen.case
let id = "C08"
let rule = "traffic histories against the scripted fake source over real time: 1..3 connections (drop = FIN then close, reconnection answered +CONTINUE in \
random letter case, optionally with stream bytes in the same segment), 1..4 acknowledgement ticks per connection, 0..3 bursts per tick window of 1..30000 \
bytes (tick-aligned: bursts 150-500 ms into the window so that every acknowledgement has an exact expected value; continuous: bursts anywhere, range check), \
idle windows, the end of the full sync placed in any window or never, start offsets up to 2^61; every REPLCONF ACK / PSYNC received by the source is logged \
with the stream position sent at that time and 400 ms earlier; non-trivial = at least one acknowledgement after the full sync with bytes received; distinct by wire line"

let gen st tier =
  let thorough = tier = "thorough" in
  List.init (if thorough then 360 else 48) (fun i -> gen_history st ~quiet:(i mod 4 <> 3))

(* F11 witness: two ticks with traffic after the full sync, then a reconnection *)
let corpus = [
  { mode = "psync"; start = 1000; runid = "abc"; nrdb = 5; seed_r = 1; ncmd = 993; seed_c = 2; chunk = 4096; pause_us = 0; quiet = true;
    conns = [ { hdr = "+FULLRESYNC abc 1000\r\n\n$5\r\n"; acts = [ "S33"; "M"; "F"; "W200"; "S100"; "W1400"; "W2200"; "S50"; "W3300"; "D" ] };
              { hdr = "+CONTINUE\r\n"; acts = [ "W300"; "S500"; "W1400"; "S342"; "W2300" ] } ];
    note = "F11 witness" } ]

let to_line = Srcgen.to_line
let show = Srcgen.show

let classify c =
  let has a = List.exists (fun k -> List.mem a k.acts) c.conns in
  if not (has "F") then None else
  Some (Printf.sprintf "%dconn:%s" (List.length c.conns) (if c.quiet then "aligned" else "continuous"))

let fail kind sig_ model impl detail = Fail { kind; sig_; model; impl; detail }

let show_out = function Model.Ack v -> "ack " ^ decimal_of_z v | Model.Psync v -> "psync " ^ decimal_of_z v

let judge c obs =
  let impl = String.concat " " obs in
  match field obs "err" with
  | Some e -> fail "oracle" "handoff-error" "" impl ("the hand-off failed: " ^ e)
  | None ->
  let geti n = int_of_string (field_exn obs n) in
  let evs = events obs in
  let cmds = payload c.seed_c c.ncmd in
  let sent = geti "sent" in
  let bad = ref None in
  let set sg d = if !bad = None then bad := Some (sg, d) in
  let last_ack = ref 0 in
  List.iter (function
    | Ack (cn, v, lo, hi, fl) ->
        let in_range = c.start + lo <= v && v <= c.start + hi in
        (match fl with
         | 0 -> if v <> 0 then set "ack-before-full" (Printf.sprintf "connection %d acknowledged %d while the full sync was still running (expected 0)" cn v)
         | 1 -> if not in_range then set "ack-offset" (Printf.sprintf "connection %d acknowledged %d; start %d + bytes received is between %d and %d" cn v c.start (c.start + lo) (c.start + hi))
         | _ -> if v <> 0 && not in_range then set "ack-offset" (Printf.sprintf "connection %d acknowledged %d; expected 0 or %d..%d" cn v (c.start + lo) (c.start + hi)));
        if v <> 0 then begin
          if v < !last_ack then set "ack-decreased" (Printf.sprintf "acknowledged offset went back from %d to %d" !last_ack v);
          last_ack := v
        end
    | Psync (0, r, v, _) -> if r <> "?" || v <> -1 then set "first-psync" (Printf.sprintf "first PSYNC asked for %S %d instead of ? -1" r v)
    | Psync (cn, r, v, hi) ->
        if cn >= List.length c.conns then set "spurious-reconnect" (Printf.sprintf "unexpected extra connection %d (PSYNC %s %d)" cn r v)
        else if r <> c.runid then set "reconnect-runid" (Printf.sprintf "reconnection asked for run id %S, the source announced %S" r c.runid)
        else if v <> c.start + hi + 1 then set "reconnect-offset" (Printf.sprintf "reconnection %d asked for offset %d; start %d + %d bytes received + 1 = %d" cn v c.start hi (c.start + hi + 1))
    | Other m -> set "source-protocol" m) evs;
  let expect = Printf.sprintf "start=%d stream=%d bytes fnv %s" c.start sent (fnv64 (String.sub cmds 0 (min sent c.ncmd))) in
  match !bad with
  | Some (sg, d) -> fail "oracle" sg expect impl d
  | None ->
    if geti "streamlen" <> sent || field_exn obs "diff" <> "-1" then
      fail "oracle" "stream-continuity" expect impl (Printf.sprintf "the command stream seen by the parser differs from the bytes the source sent (first difference at position %s)" (field_exn obs "diff"))
    else if geti "off" <> c.start || geti "offend" <> c.start then
      fail "oracle" "base-offset" expect impl "the base offset the command parser adds stream positions to is no longer the announced start offset"
    else begin
      (* model: replay the observed history through the event machine when every ack is exact *)
      let exact = List.for_all (function Ack (_, _, lo, hi, fl) -> lo = hi && fl <> 2 | _ -> true) evs in
      if not exact then Agree else begin
        let pos = ref 0 and full = ref false in
        let es = ref [] and want = ref [] in
        let add e = es := e :: !es in
        List.iter (function
          | Ack (_, v, _, hi, fl) ->
              if hi > !pos then (add (Model.Recv (z_of_int (hi - !pos))); pos := hi);
              if fl = 1 && not !full then (add Model.FullDone; full := true);
              add Model.Tick; want := Model.Ack (z_of_int v) :: !want
          | Psync (0, _, _, _) -> ()
          | Psync (_, _, v, hi) ->
              if hi > !pos then (add (Model.Recv (z_of_int (hi - !pos))); pos := hi);
              add Model.Drop; add Model.Reconnected; want := Model.Psync (z_of_int v) :: !want
          | Other _ -> ()) evs;
        let (_, outs) = Model.orun Model.ostep { Model.off = z_of_int c.start; nread = Z0; full = false } (List.rev !es) in
        let m = String.concat ", " (List.map show_out outs) and i = String.concat ", " (List.map show_out (List.rev !want)) in
        if m = i then Agree else fail "diff" "offset-model" m i "the acknowledgement / reconnect offsets differ from the model's on the observed history"
      end
    end
