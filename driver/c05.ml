(* c05.ml — oracle for C05: the SYNC/PSYNC hand-off splits the byte stream exactly. *)
open Glue
open Frame
open Srcgen

type case = Srcgen.case
let id = "C05"
let rule = "source reply streams: 0..3 keep-alive newlines, +FULLRESYNC in random letter case, run ids (40 hex / short with ?-_), offsets up to 2^61, 0..7 \
newlines before $n, n in {1..50, 8192k-1..8192k+1, powers of two, random < 70000} (thorough: around and above 32 MiB), 0..50000 command bytes, cut into TCP \
segments at/around the end of the reply line, the end of the size line, the RDB end, +-8192 and random points (1/8: byte-by-byte start), 1-4 ms pauses; \
consumer read sizes 1..65536 with pauses; 1/5 of the cases in dump mode (SYNC, file output; a fifth of those 6..7 MB, below the writer's buffer); real sendPSyncCmd / dbDumper.dump against the scripted fake \
source over TCP; non-trivial = the segmentation separates the RDB end from the stream start or cuts inside the header; distinct by wire line"

let gen st tier =
  let thorough = tier = "thorough" in
  List.init (if thorough then 3000 else 300) (fun _ -> gen_handoff st ~big:false)
  @ (if thorough then List.init 6 (fun _ -> gen_handoff st ~big:true) else [])

let corpus = [
  (* everything in one segment; the RDB ends inside the first read *)
  { mode = "psync"; start = 1000; runid = "abc"; nrdb = 5; seed_r = 1; ncmd = 20; seed_c = 2; chunk = 7; pause_us = 0;
    conns = [ { hdr = "+FULLRESYNC abc 1000\r\n\n$5\r\n"; acts = [ "S52" ] } ]; quiet = true; note = "one segment" };
  (* the first command bytes arrive in the segment that carries the RDB tail; then the link drops *)
  { mode = "psync"; start = 1000; runid = "abc"; nrdb = 9000; seed_r = 1; ncmd = 500; seed_c = 2; chunk = 4096; pause_us = 0;
    conns = [ { hdr = "+FULLRESYNC abc 1000\r\n$9000\r\n"; acts = [ "S8000"; "P20"; "S1130"; "P20"; "S1000"; "P150"; "D" ] };
              { hdr = "+CONTINUE\r\n"; acts = [ "S511"; "P100" ] } ]; quiet = true; note = "commands behind the RDB tail, then a dropped link" };
  { mode = "dump"; start = 0; runid = ""; nrdb = 8193; seed_r = 3; ncmd = 9; seed_c = 4; chunk = 1; pause_us = 0;
    conns = [ { hdr = "\n\n$8193\r\n"; acts = [ "S3"; "S8198"; "S9" ] } ]; quiet = true; note = "dump" };
  (* a 6.3 MB dump: smaller than the writer's buffer, so the whole file depends on the final flush before the dump returns *)
  { mode = "dump"; start = 0; runid = ""; nrdb = 6291456; seed_r = 5; ncmd = 41; seed_c = 6; chunk = 4096; pause_us = 0;
    conns = [ { hdr = "$6291456\r\n"; acts = [ "S1000000"; "S2000000"; "S4000000" ] } ]; quiet = true; note = "6 MiB dump" } ]

let to_line = Srcgen.to_line
let show = Srcgen.show

let seg_sizes c = List.filter_map (fun a -> if a <> "" && a.[0] = 'S' then Some (int_of_string (String.sub a 1 (String.length a - 1))) else None) (List.hd c.conns).acts

let n8192 = nat_of_int 8192
let frag c = List.map nat_of_int (seg_sizes c) @ List.init (c.nrdb + c.ncmd + 64) (fun _ -> n8192)

let classify c =
  let hl = String.length (List.hd c.conns).hdr in
  let rec ends acc = function [] -> [] | k :: r -> (acc + k) :: ends (acc + k) r in
  let e = ends 0 (seg_sizes c) in
  let at_boundary = List.mem (hl + c.nrdb) e and in_hdr = List.exists (fun x -> x < hl) e in
  if c.ncmd = 0 && not in_hdr then None else
  Some (Printf.sprintf "%s:%s%s:%s" c.mode (if in_hdr then "hdrcut" else "hdrwhole") (if at_boundary then "+rdbend" else "")
          (if c.nrdb < 8192 then "small" else if c.nrdb > 1000000 then "huge" else "multi-buffer"))

let dump_buf = lazy (nat_of_int 300001)
let copy_buf = lazy (nat_of_int 8192)
let fail kind sig_ model impl detail = Fail { kind; sig_; model; impl; detail }

let judge c obs =
  let impl = String.concat " " obs in
  let rdb = payload c.seed_r c.nrdb and cmds = payload c.seed_c c.ncmd in
  let expect = Printf.sprintf "runid=%s off=%d nsize=%d rdbfnv=%s stream=%d bytes fnv %s" c.runid c.start c.nrdb (fnv64 rdb) c.ncmd (fnv64 cmds) in
  match field obs "err" with
  | Some e -> fail "oracle" "handoff-error" expect impl ("the hand-off failed: " ^ e)
  | None ->
  let geti n = int_of_string (field_exn obs n) in
  if c.mode = "dump" then begin
    let left = geti "left" in
    if geti "nsize" <> c.nrdb then fail "oracle" "dump-size" expect impl "dump: announced size differs"
    else if geti "filelen" <> c.nrdb || field_exn obs "filefnv" <> fnv64 rdb then fail "oracle" "dump-file" expect impl "dump: the output file differs from the n RDB bytes"
    else if left > c.ncmd || field_exn obs "leftfnv" <> fnv64 (String.sub cmds 0 left) then
      fail "oracle" "dump-leftover" expect impl "dump: the bytes left in the reader are not the bytes that follow the RDB"
    else begin
      (* model: size line + countdown copy over the same stream *)
      if c.nrdb + c.ncmd > 300000 then Agree else
      match Model.wait_rdb (bytes_of_string ((List.hd c.conns).hdr ^ rdb ^ cmds)) with
      | Some (n, rest) ->
          (match Model.copy_loop (nat_of_int (c.nrdb + 1)) (Lazy.force dump_buf) (frag c) (nat_of_int (int_of_z n)) rest [] with
           | Some (r, rest') when int_of_z n = c.nrdb && string_of_bytes r = rdb && string_of_bytes rest' = cmds -> Agree
           | _ -> fail "diff" "dump-model" "model copy differs" impl "model and implementation disagree on the dump split")
      | None -> fail "diff" "dump-model" "model rejects the size line" impl "model rejects a size line the implementation accepts"
    end
  end else begin
    let runid = (match field_exn obs "runid" with "-" -> "" | h -> string_of_hex h) in
    if runid <> c.runid || geti "off" <> c.start then fail "oracle" "announced-id-offset" expect impl "run id / offset used differ from the ones the source announced"
    else if geti "nsize" <> c.nrdb || geti "full" <> 1 then fail "oracle" "rdb-size" expect impl "RDB size / full-sync flag differ from the reply"
    else if field_exn obs "rdbfnv" <> fnv64 rdb then fail "oracle" "rdb-bytes" expect impl "the RDB consumer did not see exactly the n RDB bytes"
    else if geti "streamlen" <> c.ncmd || field_exn obs "streamfnv" <> fnv64 cmds then
      fail "oracle" "stream-bytes" expect impl (Printf.sprintf "the command parser did not see exactly the bytes after the RDB (first difference at stream position %s)" (field_exn obs "diff"))
    else if (match field obs "ev" with
             | Some ev -> List.exists (fun e -> match String.split_on_char ':' e with
                 | [ "psync"; conn; _; v; _ ] when conn <> "0" -> let v = int_of_string v in v < c.start + 1 || v > c.start + c.ncmd + 1
                 | "bad" :: _ -> true | _ -> false) (String.split_on_char ',' ev)
             | None -> false) then
      fail "oracle" "reconnect-offset" expect impl "the PSYNC sent on the re-established connection asks for an offset outside [start+1, start+received+1]"
    else if c.nrdb + c.ncmd > 300000 then Agree
    else match Model.handoff (bytes_of_string ((List.hd c.conns).hdr ^ rdb ^ cmds)) (Lazy.force copy_buf) (frag c) with
      | Some h ->
          let m = Printf.sprintf "runid=%s off=%d nsize=%d rdbfnv=%s stream=%d bytes fnv %s" (string_of_bytes h.h_runid) (int_of_z h.h_offset) (int_of_z h.h_size)
                    (fnv64 (string_of_bytes h.h_rdb)) (List.length h.h_stream) (fnv64 (string_of_bytes h.h_stream)) in
          if m = expect then Agree else fail "diff" "handoff-model" m impl "model and implementation disagree on the hand-off"
      | None -> fail "diff" "handoff-model" "model rejects the reply" impl "the model rejects a reply the implementation accepts"
  end
