(* frame.ml — the generic run loop: generate cases, run the implementation through rsprobe,
   judge every observation against the extracted model and the property oracle. *)
open Glue

type verdict =
  | Agree
  | Fail of { kind : string;     (* "oracle": the implementation's output violates the property
                                    "diff"  : model and implementation disagree (property oracle still satisfied / n.a.) *)
              sig_ : string;     (* canonical signature used to match KNOWN_FINDINGS *)
              model : string; impl : string; detail : string }

module type PROP = sig
  type case
  val id : string
  val rule : string
  val gen : Random.State.t -> string -> case list
  val corpus : case list
  val to_line : case -> string
  val show : case -> string
  val classify : case -> string option
  val judge : case -> string list -> verdict
end

let out_dir = ref "."
let probe = ref "rsprobe"
let seed = ref 0
let tier = ref "quick"
let only = ref (-1)

let read_lines f =
  let ic = open_in f in
  let rec go acc = match input_line ic with l -> go (l :: acc) | exception End_of_file -> close_in ic; List.rev acc in
  go []

let run (module P : PROP) =
  let st = Random.State.make [| !seed; 0x5eed |] in
  let t0 = Unix.gettimeofday () in
  let cases = P.corpus @ P.gen st !tier in
  let cases = List.mapi (fun i c -> (i, c)) cases in
  let cases = if !only >= 0 then List.filter (fun (i, _) -> i = !only) cases else cases in
  let cf = Filename.concat !out_dir "cases.txt" and obf = Filename.concat !out_dir "obs.txt" in
  let oc = open_out cf in
  List.iter (fun (i, c) -> Printf.fprintf oc "%d %s\n" i (P.to_line c)) cases;
  close_out oc;
  let t1 = Unix.gettimeofday () in
  (* the implementation under test may hang (that is an observation: cases without a line are reported) *)
  let cmd = Printf.sprintf "timeout -s KILL %d %s %s %s %s" (if !tier = "thorough" then 14400 else 900) (Filename.quote !probe) P.id (Filename.quote cf) (Filename.quote obf) in
  let rc = Sys.command cmd in
  let t2 = Unix.gettimeofday () in
  let obs = Hashtbl.create 1024 in
  if Sys.file_exists obf then
    List.iter (fun l -> match split_ws l with
      | idf :: rest -> (try Hashtbl.replace obs (int_of_string idf) rest with _ -> ())
      | [] -> ()) (read_lines obf);
  let classes = Hashtbl.create 64 in
  let distinct = Hashtbl.create 1024 in
  let fails = ref [] in
  let validated = ref 0 in
  let samples = ref [] in
  List.iter (fun (i, c) ->
    (match P.classify c with
     | Some cl ->
         Hashtbl.replace classes cl (1 + (try Hashtbl.find classes cl with Not_found -> 0));
         Hashtbl.replace distinct (P.to_line c) ()
     | None -> Hashtbl.replace classes "trivial" (1 + (try Hashtbl.find classes "trivial" with Not_found -> 0)));
    let v = match Hashtbl.find_opt obs i with
      | None -> Fail { kind = "diff"; sig_ = "no-observation"; model = ""; impl = "";
                       detail = "the probe produced no observation for this case (exit code " ^ string_of_int rc ^ ")" }
      | Some o -> (try P.judge c o with e ->
                     Fail { kind = "diff"; sig_ = "judge-exception"; model = ""; impl = String.concat " " o;
                            detail = Printexc.to_string e }) in
    (match v with
     | Agree -> incr validated; if List.length !samples < 6 && P.classify c <> None then samples := (i, c, Hashtbl.find_opt obs i) :: !samples
     | Fail f -> fails := (i, c, f.kind, f.sig_, f.model, f.impl, f.detail) :: !fails)) cases;
  let t3 = Unix.gettimeofday () in
  (* result.json *)
  let rf = open_out (Filename.concat !out_dir "result.json") in
  let pr fmt = Printf.fprintf rf fmt in
  pr "{\n \"property\": %s,\n \"seed\": %d,\n \"tier\": %s,\n" (json_string P.id) !seed (json_string !tier);
  pr " \"evaluations\": %d,\n \"agree\": %d,\n \"distinct_nontrivial\": %d,\n" (List.length cases) !validated (Hashtbl.length distinct);
  pr " \"rule\": %s,\n \"probe_exit\": %d,\n" (json_string P.rule) rc;
  pr " \"timing\": {\"gen_s\": %.2f, \"impl_s\": %.2f, \"judge_s\": %.2f},\n" (t1 -. t0) (t2 -. t1) (t3 -. t2);
  pr " \"histogram\": {";
  let first = ref true in
  let keys = List.sort compare (Hashtbl.fold (fun k v a -> (k, v) :: a) classes []) in
  List.iter (fun (k, v) -> pr "%s%s: %d" (if !first then "" else ", ") (json_string k) v; first := false) keys;
  pr "},\n \"samples\": [";
  first := true;
  List.iter (fun (i, c, o) ->
    pr "%s\n  {\"id\": %d, \"case\": %s, \"wire\": %s, \"impl\": %s}" (if !first then "" else ",") i
      (json_string (P.show c)) (json_string (let l = P.to_line c in if String.length l > 400 then String.sub l 0 400 ^ "..." else l))
      (json_string (match o with Some o -> let s = String.concat " " o in if String.length s > 400 then String.sub s 0 400 ^ "..." else s | None -> ""));
    first := false) (List.rev !samples);
  pr "\n ],\n \"failures\": [";
  first := true;
  List.iter (fun (i, c, kind, sg, m, im, d) ->
    pr "%s\n  {\"id\": %d, \"kind\": %s, \"sig\": %s, \"case\": %s, \"wire\": %s, \"model\": %s, \"impl\": %s, \"detail\": %s}"
      (if !first then "" else ",") i (json_string kind) (json_string sg) (json_string (P.show c))
      (json_string (P.to_line c)) (json_string m) (json_string im) (json_string d);
    first := false) (List.rev !fails);
  pr "\n ]\n}\n";
  close_out rf;
  Printf.printf "%s: %d cases, %d agree, %d failures (gen %.1fs impl %.1fs judge %.1fs)\n" P.id (List.length cases)
    !validated (List.length !fails) (t1 -. t0) (t2 -. t1) (t3 -. t2)
