(* c18.ml — cases, model runs and oracle for C18 (backlog ring). *)
open Glue
open Frame

type op =
  | W of int * int          (* seed, len *)
  | RA of int * int         (* ReadAt offset, len *)
  | MidWrite of int * int   (* file backend: one Write (seed, len) during which the owner closes the file once the first chunk is in *)
  | FileGone                (* file backend: the owner closes the underlying *os.File (so that the store's own close fails later) *)
  | RR of int               (* Reader.Read len *)
  | Seek of int | Valid | Range | Close

type case = { backend : string; cap : int; ops : (op * bool * bool) list }   (* op, parks, wakes *)

let id = "C18"
let rule = "operation sequences (Write k, ReadAt(o,k), Reader.Read, SeekTo, IsValid, DataRange, Close; on the file backend also Close after the owner has closed the file, and one multi-chunk Write interrupted by the owner closing the file) on memory backlogs of 1, 2, 3, 5 and 6 alignment units (4096..24576 bytes: powers of two and not) and \
file backlogs of 4 MiB; write sizes around 1, cap-1, cap, cap+1, 2cap+5; read offsets at distance 0 (parks), 1, cap-1, cap, cap+1 behind the write position, 1 and 5 beyond it, and far beyond it (2^40 and the top of the uint64 range, 2^64-k with k around 1, 1000 and the capacity) - the same for SeekTo; parked reads are woken by later writes / close; non-trivial = at least one wrap-around or one parked read; distinct by wire line"

let pay_byte seed i = Char.chr ((seed * 131 + i * 7 + (i lsr 8) * 13 + (i lsr 16)) land 255)
let payload seed n = String.init n (pay_byte seed)
let fnv64 (s : string) =
  let h = ref 0xcbf29ce484222325L in
  String.iter (fun c -> h := Int64.mul (Int64.logxor !h (Int64.of_int (Char.code c))) 0x100000001b3L) s;
  Printf.sprintf "%Lx" !h

let align sz unit = if sz < unit then unit else (sz + unit - 1) / unit * unit

(* offsets are uint64 on the Go side: a negative OCaml int v stands for 2^64 + v (the top of the range) *)
let soff (off : int) = Printf.sprintf "%Lu" (Int64.of_int off)
let noff (off : int) = if off >= 0 then n_of_int off else n_of_decimal (soff off)

(* raw random ops; park/wake flags are then derived by running the extracted model *)
let annotate backend cap (raw : op list) =
  let size = align cap (if backend = "file" then 4194304 else 4096) in
  let unit = if backend = "file" then Model.file_align else Model.mem_align in
  let r = ref (Model.new_ring (n_of_int cap) unit) in
  let seek = ref 0 in
  let pend_ra = ref [] and pend_rr = ref None in
  let waits off len = (match Model.read_at !r (n_of_int len) (noff off) with Model.Wait -> true | _ -> false) in
  let adv off len = (match Model.read_at !r (n_of_int len) (noff off) with Model.Data bs -> List.length bs | _ -> 0) in
  List.map (fun op ->
    let npend = List.length !pend_ra + (if !pend_rr = None then 0 else 1) in
    let op = match op with
      | W (s, l) when npend > 0 && l > size -> W (s, size)
      | (RR _ | Seek _ | Valid) when !pend_rr <> None -> Range
      | o -> o in
    let parks = match op with RA (off, len) -> waits off len | RR len -> waits !seek len | _ -> false in
    (match op with
     | RA (off, len) -> if parks then pend_ra := (off, len) :: !pend_ra
     | RR len -> if parks then pend_rr := Some len else seek := !seek + adv !seek len
     | Seek off -> seek := off
     | _ -> ());
    let wakes = match op with
      | W (s, l) ->
          let ((r', n), _) = Model.write !r (bytes_of_string (payload s l)) in
          r := r'; npend > 0 && int_of_n n > 0
      | Close -> r := Model.close !r; npend > 0
      | _ -> false in
    if wakes then begin
      (match !pend_rr with Some len -> seek := !seek + adv !seek len | None -> ());
      pend_ra := []; pend_rr := None
    end;
    (op, parks, wakes)) raw

let gen_seq st backend cap nops =
  let size = align cap (if backend = "file" then 4194304 else 4096) in
  let total = ref 0 in
  let big = backend = "file" in
  let raw = List.init nops (fun _ ->
    let choice = rnd_weighted st [ (5, `W); (6, `R); (3, `RR); (2, `S); (1, `V); (2, `D); ((if !total > size then 1 else 0), `C) ] in
    match choice with
    | `W ->
        let len = if big then rnd_pick st [ 1; 4096; 1048576; 1500000; 700001 ]
          else rnd_pick st [ 0; 1; 7; 100; size - 1; size; size + 1; 2 * size + 5; rnd_int st size; rnd_int st 300 ] in
        total := !total + len; W (rnd_int st 1000, len)
    | `R ->
        let len = rnd_pick st [ 0; 1; 10; 100; size; size + 10; 5000 ] in
        let d = rnd_pick st [ 0; 0; 1; 2; size - 1; size; size + 1; size / 2; rnd_int st (size + 3); -1; -5 ] in
        (* one read in sixteen far beyond the write position: 2^40, and the top of the uint64 range (2^64 - k) *)
        if rnd_int st 16 = 0 then RA (rnd_pick st [ 1 lsl 40; -1; -1000; - (1 + rnd_int st size); - size; - (size + 1) ], len)
        else RA (max 0 (!total - d), len)
    | `RR -> RR (rnd_pick st [ 0; 1; 50; size; 3000 ])
    | `S -> let d = rnd_pick st [ 0; 1; size - 1; size; size + 1; -1; rnd_int st (size + 2) ] in
        if rnd_int st 12 = 0 then Seek (rnd_pick st [ -1; -1000; - (1 + rnd_int st size) ]) else Seek (max 0 (!total - d))
    | `V -> Valid | `D -> Range | `C -> Close) in
  (* file backend: half of the time the owner has already closed the file when the backlog is closed - readers parked at that
     moment must be released all the same (nothing follows the Close in that case) *)
  let raw = if big && rnd_bool st then
      (let rec cut = function [] -> [] | Close :: _ -> [ FileGone; Close ] | o :: r -> o :: cut r in cut raw) else raw in
  { backend; cap; ops = annotate backend cap raw }

let gen st tier =
  let thorough = tier = "thorough" in
  let n = if thorough then 20000 else 1200 in
  let mem = List.init n (fun _ -> gen_seq st "mem" (rnd_pick st [ 1; 4096; 5000; 9000; 12288; 20000; 24576 ]) (4 + rnd_int st 20)) in
  let file = List.init (if thorough then 40 else 4) (fun _ -> gen_seq st "file" 1 (6 + rnd_int st 8)) in
  mem @ file

let corpus = [
  { backend = "mem"; cap = 1; ops = [ (W (1, 4000), false, false); (W (2, 200), false, false); (RA (4090, 10), false, false);
                                        (RA (103, 10), false, false); (RA (104, 10), false, false); (RA (4200, 5), true, false);
                                        (W (3, 7), false, true); (Range, false, false); (Close, false, false); (RA (4200, 5), false, false) ] };
  (* offsets at the top of the uint64 range during the first lap of the file ring (and of a memory ring) *)
  { backend = "file"; cap = 1; ops = annotate "file" 1 [ W (1, 5000); RA (-1, 1); RA (-1000, 10); Range; Seek (-1000); Valid; RR 1000; RA (4999, 1); RA (1 lsl 40, 1) ] };
  { backend = "mem"; cap = 5000; ops = annotate "mem" 5000 [ W (1, 5000); RA (-1, 1); RA (-1000, 10); Seek (-1); Valid; RR 10; RA (- 8192, 4); Range ] };
  (* readers parked at the write position of a file backlog whose file the owner has already closed: Close must release them *)
  { backend = "file"; cap = 1; ops = annotate "file" 1 [ W (1, 100); RA (100, 10); RA (100, 5); FileGone; Close ] };
  (* one Write of 24 ring capacities interrupted by the owner closing the file: the count returned must be what was appended *)
  { backend = "file"; cap = 1; ops = annotate "file" 1 [ W (1, 1000); MidWrite (7, 24 * 4194304 + 5) ] } ]

let op_str (op, parks, wakes) =
  (match op with
   | W (s, l) -> Printf.sprintf "w%d,%d" s l | RA (o, l) -> Printf.sprintf "r%s,%d" (soff o) l | RR l -> Printf.sprintf "R%d" l
   | Seek o -> Printf.sprintf "s%s" (soff o) | Valid -> "v" | Range -> "d" | Close -> "c" | FileGone -> "x" | MidWrite (sd, l) -> Printf.sprintf "X%d,%d" sd l)
  ^ (if parks then "!" else "") ^ (if wakes then "^" else "")

let to_line c = Printf.sprintf "seq %s %d %s" c.backend c.cap (String.concat ";" (List.map op_str c.ops))
let show c = Printf.sprintf "%s backlog, capacity argument %d: %s" c.backend c.cap (String.concat " " (List.map op_str c.ops))

let classify c =
  let size = align c.cap (if c.backend = "file" then 4194304 else 4096) in
  let tot = List.fold_left (fun a (op, _, _) -> match op with W (_, l) -> a + l | _ -> a) 0 c.ops in
  let parked = List.exists (fun (_, p, _) -> p) c.ops in
  if tot > size && parked then Some (c.backend ^ ":wrap+park") else if tot > size then Some (c.backend ^ ":wrap")
  else if parked then Some (c.backend ^ ":park") else None

let fail kind sig_ model impl detail = Fail { kind; sig_; model; impl; detail }

(* run the extracted ring model over the sequence; returns the expected observation string *)
let run_model c =
  let unit = if c.backend = "file" then Model.file_align else Model.mem_align in
  let r = ref (Model.new_ring (n_of_int c.cap) unit) in
  let seek = ref 0 in
  let res = Array.make (List.length c.ops) "" in
  let pending = ref [] in
  let eval_read off len =
    match Model.read_at !r (n_of_int len) (noff off) with
    | Model.Data bs -> let s = string_of_bytes bs in `Data s
    | Model.Wait -> `Wait | Model.Invalid -> `Err "invalid" | Model.Closed -> `Err "closed" | Model.Empty -> `Data "" in
  let fmt_ra = function `Data s -> Printf.sprintf "r:%d:%s:ok" (String.length s) (fnv64 s) | `Err e -> Printf.sprintf "r:0:%s:%s" (fnv64 "") e | `Wait -> "WAIT" in
  let fmt_rr v = (match v with `Data s -> seek := !seek + String.length s | _ -> ());
    match v with `Data s -> Printf.sprintf "R:%d:%s:ok:%s" (String.length s) (fnv64 s) (soff !seek)
               | `Err e -> Printf.sprintf "R:0:%s:%s:%s" (fnv64 "") e (soff !seek) | `Wait -> "WAIT" in
  List.iteri (fun i (op, _, wakes) ->
    (match op with
     | W (s, l) ->
         let ((r', n), err) = Model.write !r (bytes_of_string (payload s l)) in
         r := r'; res.(i) <- Printf.sprintf "w:%d:%s" (int_of_n n) (if err then "closed" else "ok")
     | RA (off, len) ->
         (match eval_read off len with
          | `Wait -> res.(i) <- "parked>"; pending := !pending @ [ (i, `RA (off, len)) ]
          | v -> res.(i) <- fmt_ra v)
     | RR len ->
         (match eval_read !seek len with
          | `Wait -> res.(i) <- "parked>"; pending := !pending @ [ (i, `RR len) ]
          | v -> res.(i) <- fmt_rr v)
     | Seek off -> seek := off; res.(i) <- Printf.sprintf "s:%b" (Model.reader_valid !r (noff !seek))
     | Valid -> res.(i) <- Printf.sprintf "v:%b" (Model.reader_valid !r (noff !seek))
     | Range -> let (lo, hi) = Model.data_range !r in res.(i) <- Printf.sprintf "d:%d:%d:ok" (int_of_n lo) (int_of_n hi)
     | MidWrite _ -> res.(i) <- "X:?"
     | FileGone -> res.(i) <- "x"
     | Close -> r := Model.close !r; res.(i) <- "c");
    ignore wakes;
    (* parked reads are re-evaluated after every state change that broadcasts *)
    (match op with
     | W _ | Close ->
         let still = ref [] in
         List.iter (fun (j, k) ->
           let v = match k with `RA (off, len) -> eval_read off len | `RR len -> eval_read !seek len in
           match v with
           | `Wait -> still := !still @ [ (j, k) ]
           | v -> res.(j) <- res.(j) ^ (match k with `RA _ -> fmt_ra v | `RR _ -> fmt_rr v)) !pending;
         pending := !still
     | _ -> ())) c.ops;
  (* reads still parked at the end are released by the final Close of the harness *)
  List.iter (fun (j, k) ->
    res.(j) <- res.(j) ^ "atend:" ^ (match k with `RA _ -> Printf.sprintf "r:0:%s:closed" (fnv64 "") | `RR _ -> Printf.sprintf "R:0:%s:closed:%s" (fnv64 "") (soff !seek))) !pending;
  String.concat ";" (Array.to_list res)

(* the property itself, from the log of written bytes (independent of the ring model) *)
let oracle c (obs : string list) =
  let size = align c.cap (if c.backend = "file" then 4194304 else 4096) in
  let log = Buffer.create 4096 in
  let closed = ref false in
  let bad = ref None in
  let flag i msg = if !bad = None then bad := Some (Printf.sprintf "op %d (%s): %s" i (op_str (List.nth c.ops i)) msg) in
  let check_read i off len (fields : string list) =
    (* fields: n :: fnv :: err :: _ *)
    match fields with
    | n :: h :: err :: _ ->
        let n = int_of_string n and total = Buffer.length log in
        if len > 0 && (off < 0 || off > total) then begin
          if err <> "invalid" && err <> "closed" then flag i "a read at an offset beyond the write position was not refused as invalid"
        end else
        if err = "ok" && n > 0 then begin
          if off + n > total || off + size < total then flag i "returned bytes from outside the valid window"
          else if fnv64 (Buffer.sub log off n) <> h then flag i "returned bytes differ from the bytes written at that offset"
        end else if err = "invalid" then begin
          if not (off > total || off + size < total) then flag i "invalid-offset error for an offset inside the data range"
        end
    | _ -> () in
  List.iteri (fun i (op, _, _) ->
    let o = try List.nth obs i with _ -> "" in
    let parts = String.split_on_char ':' o in
    (match op, parts with
     | W (s, l), _ -> if not !closed then Buffer.add_string log (payload s l)
     | RA (off, len), "r" :: rest -> check_read i off len rest
     | RA (_, _), _ -> ()   (* parked: judged by the model comparison and the wake rule below *)
     | Range, [ "d"; lo; hi; "ok" ] when not !closed ->
         let total = Buffer.length log in
         if int_of_string hi <> total || int_of_string hi - int_of_string lo <> min total size then flag i "data range is not the most recent min(total, capacity) bytes"
     | Close, _ -> closed := true
     | _ -> ());
    if String.length o >= 5 && (String.sub o (String.length o - 5) 5 = "stuck" || o = "hang") then flag i "operation never returned (lost wake-up / deadlock)") c.ops;
  !bad

let judge c obs =
  let impl = String.concat " " obs in
  if List.exists (fun (op, _, _) -> match op with MidWrite _ -> true | _ -> false) c.ops then begin
    (* not modelled (the moment of the failure is the runtime's): only the contract of Write's return value is judged *)
    let parts = String.split_on_char ';' impl in
    match List.find_opt (fun o -> String.length o > 2 && String.sub o 0 2 = "X:") parts with
    | Some o -> (match String.split_on_char ':' o with
        | [ _; n; delta; _ ] when n = delta -> Agree
        | [ _; n; delta; err ] -> fail "oracle" "write-count" ("Write returns the number of bytes it appended (" ^ delta ^ ")") impl
                                    (Printf.sprintf "Write returned %s (%s) although the write position advanced by %s bytes" n err delta)
        | _ -> fail "diff" "no-observation" "" impl "malformed observation")
    | None -> fail "diff" "no-observation" "" impl "the interrupted write produced no observation"
  end else
  let model = run_model c in
  let obs_ops = String.split_on_char ';' impl in
  match oracle c obs_ops with
  | Some msg -> fail "oracle" "backlog-read-spec" model impl msg
  | None -> if impl = model then Agree else fail "diff" "backlog-model" model impl "observation differs from the ring model"
