(* glue.ml — conversions between OCaml values and the extracted Coq datatypes, hex, JSON. *)
open Model

let rec pos_of_int n =
  if n <= 1 then XH else if n land 1 = 0 then XO (pos_of_int (n lsr 1)) else XI (pos_of_int (n lsr 1))
let n_of_int i = if i <= 0 then N0 else Npos (pos_of_int i)
let rec int_of_pos = function XH -> 1 | XO p -> 2 * int_of_pos p | XI p -> 2 * int_of_pos p + 1
let int_of_n = function N0 -> 0 | Npos p -> int_of_pos p
let z_of_int i = if i = 0 then Z0 else if i > 0 then Zpos (pos_of_int i) else Zneg (pos_of_int (- i))
let int_of_z = function Z0 -> 0 | Zpos p -> int_of_pos p | Zneg p -> - (int_of_pos p)
let nat_of_int n = let r = ref O in for _ = 1 to n do r := S !r done; !r
let rec int_of_nat = function O -> 0 | S m -> 1 + int_of_nat m

(* arbitrary-size naturals as decimal strings (uint64 values exceed OCaml's int);
   plain digit-array arithmetic, independent of the extracted code *)
let n_of_decimal (s : string) : n =
  let d = Array.init (String.length s) (fun i -> Char.code s.[i] - 48) in
  let is_zero () = Array.for_all (fun x -> x = 0) d in
  let halve () = (* d := d / 2, returns remainder *)
    let carry = ref 0 in
    Array.iteri (fun i x -> let v = !carry * 10 + x in d.(i) <- v / 2; carry := v mod 2) d; !carry in
  let bits = ref [] in
  while not (is_zero ()) do bits := halve () :: !bits done;
  (* !bits is MSB first *)
  match !bits with
  | [] -> N0
  | _ :: rest -> Npos (List.fold_left (fun p b -> if b = 1 then XI p else XO p) XH rest)
let decimal_of_n (x : n) : string =
  match x with
  | N0 -> "0"
  | Npos p ->
    let rec bits p acc = match p with XH -> 1 :: acc | XO q -> bits q (0 :: acc) | XI q -> bits q (1 :: acc) in
    let bl = bits p [] in (* MSB first *)
    let d = ref [ 0 ] in (* little-endian decimal digits *)
    List.iter (fun b ->
      let carry = ref b in
      d := List.map (fun x -> let v = 2 * x + !carry in carry := v / 10; v mod 10) !d;
      if !carry > 0 then d := !d @ [ !carry ]) bl;
    String.concat "" (List.rev_map string_of_int !d)
let z_of_decimal s =
  if String.length s > 0 && s.[0] = '-' then
    (match n_of_decimal (String.sub s 1 (String.length s - 1)) with N0 -> Z0 | Npos p -> Zneg p)
  else (match n_of_decimal s with N0 -> Z0 | Npos p -> Zpos p)
let decimal_of_z = function Z0 -> "0" | Zpos p -> decimal_of_n (Npos p) | Zneg p -> "-" ^ decimal_of_n (Npos p)

(* [byte] is an enumeration of 256 constant constructors X00..Xff in order: immediate ints *)
let byte_of_char (c : char) : byte = Obj.magic (Char.code c)
let char_of_byte (b : byte) : char = Char.chr (Obj.magic b : int)
let bytes_of_string (s : string) : byte list = List.init (String.length s) (fun i -> byte_of_char s.[i])
let string_of_bytes (l : byte list) : string =
  let b = Buffer.create 16 in List.iter (fun x -> Buffer.add_char b (char_of_byte x)) l; Buffer.contents b
let () =
  (* sanity of the representation trick *)
  assert (int_of_n (to_N (byte_of_char 'A')) = 65 && int_of_n (to_N (byte_of_char '\255')) = 255
          && int_of_n (to_N (byte_of_char '\000')) = 0)

let hex_of_string s =
  if s = "" then "-" else begin
    let b = Buffer.create (2 * String.length s) in
    String.iter (fun c -> Buffer.add_string b (Printf.sprintf "%02x" (Char.code c))) s; Buffer.contents b end
let string_of_hex h =
  if h = "-" then "" else
    String.init (String.length h / 2) (fun i -> Char.chr (int_of_string ("0x" ^ String.sub h (2 * i) 2)))
let hex_of_bytes l = hex_of_string (string_of_bytes l)
let bytes_of_hex h = bytes_of_string (string_of_hex h)

let json_string s =
  let b = Buffer.create (String.length s + 2) in
  Buffer.add_char b '"';
  String.iter (fun c -> match c with
    | '"' -> Buffer.add_string b "\\\"" | '\\' -> Buffer.add_string b "\\\\"
    | '\n' -> Buffer.add_string b "\\n" | '\t' -> Buffer.add_string b "\\t"
    | c when Char.code c < 32 || Char.code c > 126 -> Buffer.add_string b (Printf.sprintf "\\u%04x" (Char.code c))
    | c -> Buffer.add_char b c) s;
  Buffer.add_char b '"'; Buffer.contents b

(* printable rendering of a byte string for samples *)
let show_bytes s =
  let printable = String.for_all (fun c -> Char.code c >= 32 && Char.code c < 127) s in
  if printable then "\"" ^ s ^ "\"" else "0x" ^ (if s = "" then "" else hex_of_string s)

(* random helpers: everything derives from one Random.State *)
let rnd_int st n = if n <= 0 then 0 else Random.State.int st n
let rnd_pick st (l : 'a list) = List.nth l (rnd_int st (List.length l))
let rnd_pick_arr st (a : 'a array) = a.(rnd_int st (Array.length a))
let rnd_bool st = Random.State.bool st
let rnd_string st len = String.init len (fun _ -> Char.chr (rnd_int st 256))
let rnd_string_of st alphabet len = String.init len (fun _ -> alphabet.[rnd_int st (String.length alphabet)])
let rnd_weighted st (l : (int * 'a) list) =
  let tot = List.fold_left (fun a (w, _) -> a + w) 0 l in
  let r = ref (rnd_int st tot) in
  let res = ref (snd (List.hd l)) in
  (try List.iter (fun (w, x) -> if !r < w then (res := x; raise Exit) else r := !r - w) l with Exit -> ());
  !res

let split_ws s = List.filter (fun x -> x <> "") (String.split_on_char ' ' s)

(* deterministic test payloads and the FNV-1a hash shared with the Go harness (util.go) *)
let pay_byte seed i = Char.chr ((seed * 131 + i * 7 + (i lsr 8) * 13 + (i lsr 16)) land 255)
let payload seed n = String.init n (pay_byte seed)
let fnv64 (s : string) =
  let h = ref 0xcbf29ce484222325L in
  String.iter (fun c -> h := Int64.mul (Int64.logxor !h (Int64.of_int (Char.code c))) 0x100000001b3L) s;
  Printf.sprintf "%Lx" !h
let align sz unit = if sz < unit then unit else (sz + unit - 1) / unit * unit

(* a uint64 carried in an OCaml int: a negative value v stands for 2^64 + v *)
let u64_str (v : int) = Printf.sprintf "%Lu" (Int64.of_int v)
let n_of_u64 (v : int) = if v >= 0 then n_of_int v else n_of_decimal (u64_str v)
