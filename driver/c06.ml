(* c06.ml — C06: the same (database, key) population through all four data paths. *)
open Glue
open Frame
open Model

type path = Full | Restore | Rump | Incr
type fc = { dbblack : string list; dbwhite : string list; keyblack : string list; keywhite : string list; slots_of : int list (* indices into the population *); lua : bool }
type case = { path : path; fc : fc; pop : (int * string) list; scripts : string list (* incr: script commands in the stream *);
             tdb : int (* target.db: -1 = keep the source database; the lists always speak about SOURCE databases *) }

let id = "C06"
let rule = "populations of 14 (database, key) pairs - keys that equal, extend, are proper prefixes of or differ in letter case from a listed prefix, binary keys, \
hash-tagged keys, the tool's checkpoint key and its neighbours; databases 0,1,3,10,13 against lists like [1] / [1,3] (1 must not match 10 or 13) - under 11 \
configurations (no filter, key blacklist, key whitelist, db blacklist, db whitelist, both, slot list, filter.lua, key + lua), each population pushed - half of the time with target.db set to 0, 1, 3 or 10, which must not change which SOURCE databases are copied - through the four \
real paths: full sync worker pool (generated RDB, hook), restore worker pool (hook), rump executor (fakeredis source, hook) and the incremental parser/sender \
(RESP stream of select and set/incr/DEL/hset/unlink carrying the keys, plus eval/EVALSHA/script/OPINFO in mixed case, hook); the set of keys arriving on the target is compared with the configuration's \
meaning and with the model's path function; non-trivial = a configuration with at least one list; distinct by wire line"

let bs = bytes_of_string
let configs = [
  { dbblack = []; dbwhite = []; keyblack = []; keywhite = []; slots_of = []; lua = false };
  { dbblack = []; dbwhite = []; keyblack = [ "ab"; "user:" ]; keywhite = []; slots_of = []; lua = false };
  { dbblack = []; dbwhite = []; keyblack = []; keywhite = [ "ab"; "k\x00" ]; slots_of = []; lua = false };
  { dbblack = [ "1" ]; dbwhite = []; keyblack = []; keywhite = []; slots_of = []; lua = false };
  { dbblack = []; dbwhite = [ "1"; "3" ]; keyblack = []; keywhite = []; slots_of = []; lua = false };
  { dbblack = [ "10" ]; dbwhite = []; keyblack = []; keywhite = [ "a" ]; slots_of = []; lua = true };
  { dbblack = []; dbwhite = []; keyblack = []; keywhite = []; slots_of = [ 0; 3; 7 ]; lua = false };
  { dbblack = []; dbwhite = []; keyblack = []; keywhite = []; slots_of = []; lua = true };
  { dbblack = []; dbwhite = []; keyblack = [ "redis" ]; keywhite = []; slots_of = [ 1; 2; 5; 6 ]; lua = true };
  (* lists in which a prefix LONGER than some keys stands before the prefix those keys start with *)
  { dbblack = []; dbwhite = []; keyblack = [ "user:profile:"; "ab"; "k" ]; keywhite = []; slots_of = []; lua = false };
  { dbblack = []; dbwhite = [ "13"; "3"; "0" ]; keyblack = []; keywhite = [ "session:long:prefix"; "{user:1}"; "a"; "zz" ]; slots_of = []; lua = false } ]

let key_pool = [| "a"; "ab"; "abc"; "aB"; "Ab1"; "b"; "xab"; "ab\x00\xff"; "k\x00"; "k\x00z"; "k"; "user:"; "user:17"; "user"; "{ab}x"; "{user:1}.z";
                  "redis-shake-checkpoint"; "redis-shake-checkpoint-src"; "redis-shake-checkpoin"; "redis"; "\xfe\x80bin"; "zz" |]

let gen_pop st =
  let idx = Array.init (Array.length key_pool) (fun i -> i) in
  for i = Array.length idx - 1 downto 1 do let j = rnd_int st (i + 1) in let t = idx.(i) in idx.(i) <- idx.(j); idx.(j) <- t done;
  let ks = List.init 14 (fun i -> key_pool.(idx.(i))) in
  (* databases grouped (an RDB lists each database once here) *)
  List.sort (fun (a, _) (b, _) -> compare a b) (List.map (fun k -> (rnd_pick st [ 0; 1; 3; 10; 13 ], k)) ks)

let gen st tier =
  let per = if tier = "thorough" then 40 else 4 in
  (* grouped by path and configuration so that the incremental probe runs a configuration's cases together *)
  List.concat_map (fun path -> List.concat_map (fun fc ->
      (* the second half of each group runs with target.db set - to a database the lists exclude, or to one they allow *)
      let t = rnd_pick st [ 0; 1; 3; 10 ] in
      List.init per (fun i ->
      { path; fc; pop = gen_pop st; scripts = (if path = Incr then [ "eval"; "EVALSHA"; "Script"; "OPINFO"; "opinfo" ] else []);
        tdb = (if i >= (per + 1) / 2 then t else -1) })) configs)
    [ Incr; Full; Restore; Rump ]
let corpus = []

let slot_strings c = List.map (fun i -> string_of_int (int_of_z (key_slot (bs (snd (List.nth c.pop i)))))) c.fc.slots_of
let raw s = SRaw ((if String.length s < 64 then L6 else L14), bs s)
let units c =
  let cur = ref (-1) in
  List.concat_map (fun (db, k) ->
    (if db <> !cur then (cur := db; [ USelect ((if db < 64 then L6 else L14), n_of_int db) ]) else []) @ [ UKey (raw k, VStr (N0, raw "v")) ]) c.pop

(* the command carrying the i-th key on the incremental path: single- and multi-argument shapes *)
let shape i k = match i mod 5 with 0 -> [ "set"; k; "v" ] | 1 -> [ "incr"; k ] | 2 -> [ "DEL"; k ] | 3 -> [ "hset"; k; "f"; "v" ] | _ -> [ "unlink"; k ]

let to_line c =
  match c.path with
  | Full | Restore ->
      C07.to_line { C07.mode = (if c.path = Full then "sync" else "restore"); parallel = 3; tdb = c.tdb; dbblack = c.fc.dbblack; dbwhite = c.fc.dbwhite;
                    keyblack = c.fc.keyblack; keywhite = c.fc.keywhite; slots = slot_strings c; filterlua = c.fc.lua; units = units c; fail = None; cut = 0 }
  | Rump ->
      let payload = string_of_bytes (encode_dump Valgen.fmt_g17 (LString (bs "v"))) in
      let dbs = List.sort_uniq compare (List.map fst c.pop) in
      C16.to_line { C16.tdb = c.tdb; policy = "rewrite"; threshold = 1000000000; dbblack = c.fc.dbblack; dbwhite = c.fc.dbwhite; keyblack = c.fc.keyblack; keywhite = c.fc.keywhite;
                    scancount = 5; tgt = []; note = ""; keyfile = None;
                    src = List.map (fun db -> (db, [ List.filter_map (fun (d, k) -> if d = db then Some { C16.key = k; payload; pttl = -1; vanish = "-"; value = None } else None) c.pop ])) dbs }
  | Incr ->
      let cmds = ref [] and cur = ref (-1) in
      List.iteri (fun i (db, k) -> if db <> !cur then (cur := db; cmds := [ "select"; string_of_int db ] :: !cmds); cmds := shape i k :: !cmds) c.pop;
      List.iter (fun s -> cmds := [ s; "return 1"; "0" ] :: !cmds) c.scripts;
      Incrgen.to_line { Incrgen.cfg = { Incrgen.dbblack = c.fc.dbblack; dbwhite = c.fc.dbwhite; keyblack = c.fc.keyblack; keywhite = c.fc.keywhite; lua = c.fc.lua;
                                        tdb = c.tdb; resume = false; scount = 100; ssize = 1000000 };
                        startdb = 0; base = 0; cmds = List.map (fun w -> (w, 0)) (List.rev !cmds); cuts = [ (0, 0) ] }

let path_name = function Full -> "full sync" | Restore -> "restore" | Rump -> "rump" | Incr -> "incremental sync"
let show c =
  Printf.sprintf "%s; target.db=%d db.black=[%s] db.white=[%s] key.black=[%s] key.white=[%s] slots=[%s] filter.lua=%b; population: %s" (path_name c.path) c.tdb
    (String.concat "," c.fc.dbblack) (String.concat "," c.fc.dbwhite) (String.concat "," (List.map String.escaped c.fc.keyblack)) (String.concat "," (List.map String.escaped c.fc.keywhite))
    (String.concat "," (slot_strings c)) c.fc.lua (String.concat " " (List.map (fun (d, k) -> Printf.sprintf "db%d/%S" d k) c.pop))

let classify c =
  let f = c.fc in
  if f.dbblack = [] && f.dbwhite = [] && f.keyblack = [] && f.keywhite = [] && f.slots_of = [] && not f.lua then None else
  Some (Printf.sprintf "%s:%s%s%s%s" (path_name c.path) (if f.dbblack <> [] || f.dbwhite <> [] then "db" else "") (if f.keyblack <> [] || f.keywhite <> [] then "key" else "")
          (if f.slots_of <> [] then "slot" else "") (if f.lua then "lua" else ""))

let fail kind sig_ model impl detail = Fail { kind; sig_; model; impl; detail }
let has_prefix k p = String.length k >= String.length p && String.sub k 0 (String.length p) = p

let judge c obs =
  let impl = let s = String.concat " " obs in if String.length s > 1500 then String.sub s 0 1500 ^ "..." else s in
  let f = c.fc in
  let mf = { key_black = List.map bs f.keyblack; key_white = List.map bs f.keywhite; db_black = List.map bs f.dbblack; db_white = List.map bs f.dbwhite;
             slot_list = List.map bs (slot_strings c); filter_lua = f.lua } in
  (* the configuration's meaning, written out independently *)
  let db_ok db = let s = string_of_int db in if f.dbblack <> [] then not (List.mem s f.dbblack) else if f.dbwhite <> [] then List.mem s f.dbwhite else true in
  let key_ok k = if f.keyblack <> [] then not (List.exists (has_prefix k) f.keyblack) else if f.keywhite <> [] then List.exists (has_prefix k) f.keywhite else true in
  let keyfilter = f.keyblack <> [] || f.keywhite <> [] in
  let ckpt k = has_prefix k "redis-shake-checkpoint" in
  let slot_ok k = f.slots_of = [] || List.mem (string_of_int (int_of_z (key_slot (bs k)))) (slot_strings c) in
  let want = List.filter (fun (db, k) ->
      db_ok db && key_ok k && (match c.path with
        | Full -> not (ckpt k) && slot_ok k | Restore -> not (ckpt k) | Rump | Incr -> not (ckpt k && keyfilter))) c.pop in
  let model = List.filter (fun (db, k) -> match c.path with
      | Full -> path_full mf (z_of_int db) (bs k) | Restore -> path_restore mf (z_of_int db) (bs k) | Rump -> path_rump mf (z_of_int db) (bs k)
      | Incr -> path_incr (Incrgen.model_cfg { Incrgen.dbblack = f.dbblack; dbwhite = f.dbwhite; keyblack = f.keyblack; keywhite = f.keywhite; lua = f.lua; tdb = -1; resume = false; scount = 100; ssize = 1000000 })
                  (z_of_int db) (let w = shape (let rec idx i = function [] -> 0 | (d', k') :: r -> if d' = db && k' = k then i else idx (i + 1) r in idx 0 c.pop) k in
                                 { r_cmd = bs (String.lowercase_ascii (List.hd w)); r_args = List.map bs (List.tl w); r_end = Z0 })) c.pop in
  let showp l = String.concat " " (List.map (fun (d, k) -> Printf.sprintf "db%d/%S" d k) (List.sort compare l)) in
  if Srcgen.field obs "abort" <> None || Srcgen.field obs "panic" <> None then fail "oracle" "abort" (showp want) impl "the run aborted" else
  let (got, got_scripts) = match c.path with
    | Full | Restore | Rump ->
        let st = match Srcgen.field obs "state" with
          | None | Some "-" -> []
          | Some s -> List.map (fun e -> match String.split_on_char ':' e with d :: k :: _ -> (int_of_string d, C02.unhexd k) | _ -> failwith "state") (String.split_on_char ';' s) in
        (st, [])
    | Incr ->
        let (_, groups) = Incrgen.parse_obs obs in
        let cdb = ref 0 and keys = ref [] and scr = ref [] in
        List.iter (fun (cmd, args) -> match String.lowercase_ascii cmd, args with
          | "select", [ n ] -> cdb := int_of_string n
          | ("set" | "incr" | "del" | "hset" | "unlink"), k :: _ -> keys := (!cdb, k) :: !keys
          | ("eval" | "evalsha" | "script" | "opinfo"), _ -> scr := cmd :: !scr
          | _ -> ()) (List.concat groups);
        (List.rev !keys, List.rev !scr) in
  let norm l = List.sort compare l in
  (* with target.db set every copied key lands in that database *)
  let want = List.map (fun (db, k) -> ((if c.tdb >= 0 then c.tdb else db), k)) want in
  let model = List.map (fun (db, k) -> ((if c.tdb >= 0 then c.tdb else db), k)) model in
  let pname = match c.path with Full -> "full" | Restore -> "restore" | Rump -> "rump" | Incr -> "incr" in
  if norm got <> norm want then begin
    let missing = List.filter (fun x -> not (List.mem x got)) want and extra = List.filter (fun x -> not (List.mem x want)) got in
    let what = if List.exists (fun (_, k) -> ckpt k) (missing @ extra) then "checkpoint-key" else if missing <> [] then "not-excluded-key-dropped" else "excluded-key-copied" in
    fail "oracle" (pname ^ ":" ^ what) (showp want) (Printf.sprintf "missing: %s; unexpected: %s" (showp missing) (showp extra))
      "the keys arriving on the target differ from the configuration's meaning on this path"
  end
  else if c.path = Incr && (let last_db = List.fold_left (fun _ (d, _) -> d) 0 c.pop in
                            let want_s = if f.lua || not (db_ok last_db) then [] else List.filter (fun s -> String.lowercase_ascii s <> "opinfo") c.scripts in
                            List.map String.lowercase_ascii got_scripts <> List.map String.lowercase_ascii want_s) then
    fail "oracle" "incr:script-commands" (if f.lua then "no script command forwarded" else "eval/evalsha/script forwarded, opinfo never") (String.concat "," got_scripts)
      "script commands are forwarded exactly when filter.lua is off; the bookkeeping command never"
  else if norm model <> norm want then fail "diff" "path-model" (showp model) (showp got) "the model's path decision differs from the implementation's"
  else Agree
